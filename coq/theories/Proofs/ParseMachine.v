(** The token machine of Model/Parse.v, run on the tokens of a chain, performs exactly the
    operations [sem] assigns to the chain (realised at the requested offset): theorem
    [parse_tokens_denote], generic in the graph class (any [gops] satisfying [gops_laws]). *)
From Coq Require Import ZArith List Bool Ascii String Lia.
From FGV Require Import Base.Util Base.UtilFacts Base.Bond Base.NX Base.NXFacts Base.Sym Base.Regex Base.Str
                        Gen.Lexer Model.NXMulti Model.GraphOps Model.Parse Spec.LexerRef Spec.ParseSpec
                        Proofs.StrFacts.
Import ListNotations.
Open Scope string_scope.
Open Scope Z_scope.

(** What the parser relies on from its graph class, in terms of the node table [view]. *)
Record gops_laws {G} (ops : gops G) (view : G -> list (Z * nattr)) : Prop := mkLaws {
  law_empty : view (g_empty ops) = [];
  law_add_node : forall g n a, alookup n (view g) = None ->
                 view (g_add_node ops g n a) = (view g ++ [(n, a)])%list;
  law_add_edge : forall g u v l, alookup u (view g) <> None -> alookup v (view g) <> None ->
                 exists g', g_add_edge ops g u v l = Some g' /\ view g' = view g;
  law_nnodes : forall g, g_nnodes ops g = Z.of_nat (List.length (view g));
  law_sym : forall g n, g_sym ops g n = match alookup n (view g) with Some a => a_sym a | None => None end
}.

Scheme chain_mind := Induction for chain Sort Prop
  with rest_mind := Induction for rest Sort Prop.
Combined Scheme chain_rest_ind from chain_mind, rest_mind.

Lemma run_app {G} (ops : gops G) aam off a : forall b st,
  run ops aam off (a ++ b) st =
  match run ops aam off a st with Ok st' => run ops aam off b st' | Err e => Err e end.
Proof.
  induction a as [|t a IH]; simpl; intros b st; [reflexivity|].
  destruct (step ops aam t _ st); [apply IH|reflexivity].
Qed.

(** ** the RC_BOND flag *)

Lemma has_rc_token_app a b : has_rc_token (a ++ b) = has_rc_token a || has_rc_token b.
Proof. unfold has_rc_token. apply existsb_app. Qed.

Lemma has_rc_token_bsym b : has_rc_token (bsym_toks b) = bsym_is_rc b.
Proof. destruct b; reflexivity. Qed.

Lemma has_rc_token_atom a l : has_rc_token (atom_tok a :: l) = has_rc_token l.
Proof. destruct a; reflexivity. Qed.

Lemma has_rc_tokens :
  (forall t, has_rc_token (tokens t) = has_rc t) /\
  (forall r, has_rc_token (rest_tokens r) = rest_has_rc r).
Proof.
  apply chain_rest_ind; intros; simpl tokens; simpl rest_tokens; simpl has_rc; simpl rest_has_rc.
  - rewrite has_rc_token_atom. assumption.
  - reflexivity.
  - rewrite has_rc_token_app, has_rc_token_bsym. change (has_rc_token (("RING_NUM", l) :: rest_tokens r))
      with (has_rc_token (rest_tokens r)). congruence.
  - change (has_rc_token (("BRANCH_START", "(") :: bsym_toks b ++ tokens c ++ ("BRANCH_END", ")") :: rest_tokens r))
      with (has_rc_token (bsym_toks b ++ tokens c ++ ("BRANCH_END", ")") :: rest_tokens r)).
    rewrite !has_rc_token_app, has_rc_token_bsym.
    change (has_rc_token (("BRANCH_END", ")") :: rest_tokens r)) with (has_rc_token (rest_tokens r)).
    rewrite H, H0, orb_assoc. reflexivity.
  - rewrite has_rc_token_app, has_rc_token_bsym. congruence.
Qed.

(** ** [s_ok] only ever decreases *)

Lemma s_ok_mono its :
  (forall t par S, s_ok (sem_chain its t par S) = true -> s_ok S = true) /\
  (forall r me sy S, s_ok (sem_rest its r me sy S) = true -> s_ok S = true).
Proof.
  apply chain_rest_ind; simpl; intros.
  - apply H in H0. exact H0.
  - assumption.
  - destruct (slookup l (s_open S)) as [[at_ asy]|].
    + apply H in H0. exact H0.
    + apply H in H0. simpl in H0. apply andb_true_iff in H0. tauto.
  - apply H0 in H1. apply H in H1. exact H1.
  - apply H in H0. exact H0.
Qed.

(** ** reading node labels and reaction bonds back *)

Lemma label_class_no_brace c :
  cset_mem ref_label_class c = true -> Ascii.eqb c "{" = false /\ Ascii.eqb c "}" = false.
Proof.
  intros H. split.
  - destruct (Ascii.eqb_spec c "{"); [subst; discriminate|reflexivity].
  - destruct (Ascii.eqb_spec c "}"); [subst; discriminate|reflexivity].
Qed.

Lemma labels_roundtrip ls :
  atom_ok (Lbl ls) = true ->
  split_on "," (rstrip "}" (lstrip "{" (String "{" (join "," ls ++ "}")))) = ls.
Proof.
  unfold atom_ok. rewrite !andb_true_iff. intros [[Hne Hall] _].
  assert (Hbody : all_chars (fun a => negb (Ascii.eqb a "}")) (join "," ls) = true).
  { apply all_chars_join; [reflexivity|].
    rewrite forallb_forall in *. intros x Hx. specialize (Hall x Hx).
    eapply all_chars_impl; [|exact Hall]. intros c Hc. unfold label_char_ok in Hc.
    apply andb_true_iff in Hc. destruct Hc as [Hc _]. apply label_class_no_brace in Hc.
    destruct Hc as [_ ->]. reflexivity. }
  assert (Hls : lstrip "{" (String "{" (join "," ls ++ "}")) = join "," ls ++ "}").
  { simpl lstrip. destruct ls as [|x t]; [discriminate|].
    destruct (join "," (x :: t)) as [|a s] eqn:E.
    - reflexivity.
    - change (String a s ++ "}") with (String a (s ++ "}")). apply lstrip_head.
      assert (Ha : all_chars (fun c => negb (Ascii.eqb c "{")) (String a s) = true).
      { rewrite <- E. apply all_chars_join; [reflexivity|].
        rewrite forallb_forall in *. intros y Hy. specialize (Hall y Hy).
        eapply all_chars_impl; [|exact Hall]. intros c Hc. unfold label_char_ok in Hc.
        apply andb_true_iff in Hc. destruct Hc as [Hc _]. apply label_class_no_brace in Hc.
        destruct Hc as [-> _]. reflexivity. }
      simpl in Ha. apply andb_true_iff in Ha. destruct Ha as [Ha _].
      apply negb_true_iff in Ha. exact Ha. }
  rewrite Hls. rewrite (rstrip_app_char "}" _ Hbody).
  apply split_join.
  - destruct ls; [discriminate|discriminate].
  - rewrite forallb_forall in *. intros x Hx. specialize (Hall x Hx).
    eapply all_chars_impl; [|exact Hall]. intros c Hc. unfold label_char_ok in Hc.
    apply andb_true_iff in Hc. tauto.
Qed.

Lemma digit_not c x : is_digit x = true -> is_digit c = false -> negb (Ascii.eqb x c) = true.
Proof.
  intros Hx Hc. destruct (Ascii.eqb_spec x c); [subst; congruence|reflexivity].
Qed.

Lemma digits_no c s : is_digit c = false -> digits s = true ->
  all_chars (fun a => negb (Ascii.eqb a c)) s = true.
Proof.
  intros Hc. unfold digits. apply all_chars_impl. intros x Hx. apply digit_not; assumption.
Qed.

Lemma rc_value_num g : digits g = true -> rc_value g = Some (rc_num g).
Proof.
  intros H. destruct g as [|c t]; [reflexivity|].
  unfold rc_value, rc_num. unfold py_int.
  destruct (int_digits_total (String c t) 0 H) as [z Hz]. rewrite Hz. reflexivity.
Qed.

Lemma rc_parts g h : digits g = true -> digits h = true ->
  split_on "," (remove_char ">" (remove_char "<" (String "<" (g ++ String "," (h ++ ">"))))) = [g; h].
Proof.
  intros Hg Hh.
  simpl remove_char at 2.
  rewrite !remove_char_app.
  rewrite (remove_char_id "<" g) by (apply digits_no; [reflexivity|exact Hg]).
  change (String "," (h ++ ">")) with ("," ++ (h ++ ">")).
  rewrite !remove_char_app.
  rewrite (remove_char_id "<" h) by (apply digits_no; [reflexivity|exact Hh]).
  simpl (remove_char "<" ","). simpl (remove_char "<" ">").
  rewrite (remove_char_id ">" g) by (apply digits_no; [reflexivity|exact Hg]).
  rewrite (remove_char_id ">" h) by (apply digits_no; [reflexivity|exact Hh]).
  simpl (remove_char ">" ","). simpl (remove_char ">" ">").
  rewrite string_app_nil_r.
  change ("," ++ h) with (String "," h).
  rewrite split_on_app by (apply digits_no; [reflexivity|exact Hg]).
  rewrite split_on_no_sep by (apply digits_no; [reflexivity|exact Hh]).
  reflexivity.
Qed.

Section Machine.
Context {G : Type}.
Variable ops : gops G.
Variable view : G -> list (Z * nattr).
Hypothesis laws : gops_laws ops view.
Variable its : bool.
Variable off : Z.
Variable aam : bool.

Notation pst := (@pstate G).

Definition Inv (g : G) (n : Z) : Prop :=
  Z.of_nat (List.length (view g)) = n /\
  forall id, alookup id (view g) <> None <-> off <= id < off + n.

Definition HasSym (g : G) (id : Z) (s : string) : Prop :=
  exists a, alookup id (view g) = Some a /\ a_sym a = Some s.

Definition ring_entry (e : string * (Z * string)) : string * Z := (fst e, fst (snd e) + off).

(* the node table is the list of atoms met so far, at positions 0 .. n-1, shifted by the offset *)
Definition node_of (pa : Z * atom) : Z * nattr :=
  (fst pa + off, atom_attr aam (fst pa + off) (snd pa)).
Definition positions (n : Z) : list Z := map Z.of_nat (seq 0 (Z.to_nat n)).
Definition View (g : G) (n : Z) (l : list aop) : Prop :=
  view g = map node_of (sem_atoms l) /\ map fst (sem_atoms l) = positions n.

Lemma slookup_ring l O :
  slookup l (map ring_entry O) = option_map (fun x : Z * string => fst x + off) (slookup l O).
Proof. apply (slookup_map (fun x : Z * string => fst x + off)). Qed.
Lemma sdel_ring l O : sdel l (map ring_entry O) = map ring_entry (sdel l O).
Proof. apply (sdel_map (fun x : Z * string => fst x + off)). Qed.
Lemma sset_ring l me sy O :
  sset l (me + off) (map ring_entry O) = map ring_entry (sset l (me, sy) O).
Proof. apply (sset_map (fun x : Z * string => fst x + off) l (me, sy)). Qed.

Record Rel (st : pst) (S : sst) : Prop := mkRel {
  rel_build : build ops (map (realise off aam) (s_ops S)) = Some (ps_graph st);
  rel_inv : Inv (ps_graph st) (s_n S);
  rel_rings : ps_rings st = map ring_entry (s_open S);
  rel_open : forall l p sy, slookup l (s_open S) = Some (p, sy) -> HasSym (ps_graph st) (p + off) sy;
  rel_its : ps_its st = its;
  rel_view : View (ps_graph st) (s_n S) (s_ops S)
}.

Definition Default (st : pst) : Prop :=
  ps_bond st = set_bond its (Scalar 2) /\ ps_implicit st = true.

Definition Pending (st : pst) (b : bsym) : Prop :=
  match b with
  | Implied => Default st
  | Dot => ps_bond st = Scalar 0 /\ ps_implicit st = false
  | Sym c => exists o, slookup c ref_bond_orders = Some o /\
                       ps_bond st = set_bond its (Scalar o) /\ ps_implicit st = false
  | Rc g h => ps_bond st = Pair (2 * rc_num g) (2 * rc_num h) /\ ps_implicit st = false
  end.

Definition ParOK (st : pst) (par : option (Z * string * bsym)) : Prop :=
  match par with
  | None => ps_anchor st = None /\ Default st
  | Some (p, psy, b) =>
      ps_anchor st = Some (p + off) /\ HasSym (ps_graph st) (p + off) psy /\ Pending st b
  end.

(* same everything except the pending bond *)
Definition same_but_bond (st st' : pst) : Prop :=
  ps_graph st' = ps_graph st /\ ps_anchor st' = ps_anchor st /\ ps_branches st' = ps_branches st /\
  ps_rings st' = ps_rings st /\ ps_its st' = ps_its st.

Lemma Rel_same_but_bond st st' S : same_but_bond st st' -> Rel st S -> Rel st' S.
Proof.
  intros (Hg & _ & _ & Hr & Hi) [H1 H2 H3 H4 H5 H6].
  constructor; rewrite ?Hg, ?Hr, ?Hi; assumption.
Qed.

(** *** graph facts from the laws *)

Lemma HasSym_sym g id s : HasSym g id s -> g_sym ops g id = Some s.
Proof. intros (a & Ha & Hs). rewrite (law_sym _ _ laws), Ha. exact Hs. Qed.

Lemma HasSym_in g id s : HasSym g id s -> alookup id (view g) <> None.
Proof. intros (a & Ha & _). congruence. Qed.

Lemma Inv_fresh g n : Inv g n -> alookup (n + off) (view g) = None.
Proof.
  intros [_ H]. destruct (alookup (n + off) (view g)) eqn:E; [|reflexivity].
  assert (Hx : alookup (n + off) (view g) <> None) by congruence.
  apply H in Hx. lia.
Qed.

Lemma add_node_Inv g n a : 0 <= n -> Inv g n -> Inv (g_add_node ops g (n + off) a) (n + 1).
Proof.
  intros Hn HI. pose proof (Inv_fresh _ _ HI) as Hf. destruct HI as [Hl Hr].
  unfold Inv. rewrite (law_add_node _ _ laws) by exact Hf. split.
  - rewrite app_length. simpl. lia.
  - intros id. rewrite alookup_app. specialize (Hr id).
    destruct (alookup id (view g)) eqn:E.
    + split; [intros _|congruence]. assert (off <= id < off + n) by (apply Hr; congruence). lia.
    + simpl. destruct (Z.eqb_spec id (n + off)).
      * split; [intros _; lia|congruence].
      * split; [congruence|]. intros Hid. exfalso.
        assert (off <= id < off + n) by lia. apply Hr in H. congruence.
Qed.

Lemma add_node_HasSym_old g n a id s :
  Inv g n -> HasSym g id s -> HasSym (g_add_node ops g (n + off) a) id s.
Proof.
  intros HI (x & Hx & Hs). exists x. split; [|exact Hs].
  rewrite (law_add_node _ _ laws) by (eapply Inv_fresh; exact HI).
  rewrite alookup_app, Hx. reflexivity.
Qed.

Lemma add_node_HasSym_new g n a s :
  Inv g n -> a_sym a = Some s -> HasSym (g_add_node ops g (n + off) a) (n + off) s.
Proof.
  intros HI Hs. exists a. split; [|exact Hs].
  rewrite (law_add_node _ _ laws) by (eapply Inv_fresh; exact HI).
  rewrite alookup_app, (Inv_fresh _ _ HI). simpl. rewrite Z.eqb_refl. reflexivity.
Qed.

(* the optional edge: what [connect] does, given the pending bond *)
Lemma set_bond_lift o : o <> 0 -> set_bond its (Scalar o) = lift its o.
Proof.
  intros Ho. unfold set_bond, lift. destruct (Z.eqb_spec o 0); [congruence|].
  destruct its; reflexivity.
Qed.

Lemma lift_nonzero o : o <> 0 -> bond_nonzero (lift its o) = true.
Proof.
  intros Ho. unfold lift. destruct its; simpl; [reflexivity|].
  destruct (Z.eqb_spec o 0); [congruence|reflexivity].
Qed.

Lemma connect_spec st b g u v su sv :
  ps_its st = its -> Pending st b ->
  connect ops st g u v su sv =
  match bond_label its b su sv with
  | Some l => g_add_edge ops g u v l
  | None => Some g
  end.
Proof.
  intros Hi HP. unfold connect. rewrite Hi.
  destruct b as [| |c|gg hh]; cbv beta iota delta [Pending Default] in HP.
  - destruct HP as [Hb Him]. rewrite Him, Hb. simpl andb. simpl bond_label.
    destruct (islower su && islower sv).
    + rewrite set_bond_lift by lia. rewrite lift_nonzero by lia. reflexivity.
    + rewrite set_bond_lift by lia. rewrite lift_nonzero by lia. reflexivity.
  - destruct HP as [Hb Him]. rewrite Him, Hb. reflexivity.
  - destruct HP as (o & Ho & Hb & Him). rewrite Him, Hb. simpl andb. unfold bond_label. rewrite Ho.
    destruct (Z.eqb_spec o 0) as [->|Hne].
    + destruct its; reflexivity.
    + rewrite set_bond_lift by exact Hne. rewrite lift_nonzero by exact Hne. reflexivity.
  - destruct HP as [Hb Him]. rewrite Him, Hb. reflexivity.
Qed.

(* performing an optional edge keeps the node table *)
Lemma opt_edge g u v (ol : option label) :
  alookup u (view g) <> None -> alookup v (view g) <> None ->
  exists g', match ol with Some l => g_add_edge ops g u v l | None => Some g end = Some g' /\
             view g' = view g.
Proof.
  intros Hu Hv. destruct ol as [l|].
  - apply (law_add_edge _ _ laws); assumption.
  - eexists; split; reflexivity.
Qed.

Lemma view_HasSym g g' id s : view g' = view g -> HasSym g id s -> HasSym g' id s.
Proof. intros E (a & Ha & Hs). exists a. rewrite E. tauto. Qed.

Lemma view_Inv g g' n : view g' = view g -> Inv g n -> Inv g' n.
Proof. intros E [H1 H2]. split; rewrite E; assumption. Qed.

Lemma sem_atoms_app l l' : sem_atoms (l ++ l') = (sem_atoms l ++ sem_atoms l')%list.
Proof. apply flat_map_app. Qed.

Lemma sem_atoms_edge_ops u v ol : sem_atoms (edge_ops u v ol) = [].
Proof. destruct ol; reflexivity. Qed.

Lemma positions_succ n : 0 <= n -> positions (n + 1) = (positions n ++ [n])%list.
Proof.
  intros Hn. unfold positions. replace (Z.to_nat (n + 1)) with (S (Z.to_nat n)) by lia.
  rewrite seq_S, map_app. simpl. rewrite Z2Nat.id by exact Hn. reflexivity.
Qed.

Lemma View_add_node g n l a :
  0 <= n -> Inv g n -> View g n l ->
  View (g_add_node ops g (n + off) (atom_attr aam (n + off) a)) (n + 1) (l ++ [ANode n a]).
Proof.
  intros Hn HI [Hv Hp]. unfold View. rewrite sem_atoms_app. simpl sem_atoms. split.
  - rewrite (law_add_node _ _ laws) by (eapply Inv_fresh; exact HI).
    rewrite map_app, Hv. reflexivity.
  - rewrite map_app, Hp, positions_succ by exact Hn. reflexivity.
Qed.

Lemma View_edge g g' n l u v ol :
  view g' = view g -> View g n l -> View g' n (l ++ edge_ops u v ol).
Proof.
  intros E [Hv Hp]. unfold View. rewrite sem_atoms_app, sem_atoms_edge_ops, app_nil_r, E. tauto.
Qed.

Lemma build_snoc l g o :
  build ops l = Some g -> build ops (l ++ [o]) = apply_op ops (Some g) o.
Proof. unfold build. intros H. rewrite fold_left_app, H. reflexivity. Qed.

Lemma build_edge_ops l g u v ol g' :
  build ops l = Some g ->
  match ol with Some lb => g_add_edge ops g (u + off) (v + off) lb | None => Some g end = Some g' ->
  build ops (l ++ map (realise off aam) (edge_ops u v ol)) = Some g'.
Proof.
  intros Hb He. destruct ol as [lb|]; simpl.
  - rewrite (build_snoc _ _ _ Hb). simpl. exact He.
  - rewrite app_nil_r. congruence.
Qed.

(** *** single steps *)

Lemma step_rc_eq v idx (st : pst) :
  step ops aam ("RC_BOND", v) idx st =
  match step_rc_bond v st with
  | Ok st' => Ok (mkPS (ps_graph st') (ps_anchor st') (ps_branches st') (ps_rings st')
                       (ps_bond st') false (ps_its st'))
  | Err e => Err e
  end.
Proof. reflexivity. Qed.

Lemma step_ring_eq v idx (st : pst) : step ops aam ("RING_NUM", v) idx st = step_ring ops v st.
Proof. reflexivity. Qed.

Lemma step_bond_eq c idx (st : pst) :
  step ops aam ("BOND", c) idx st =
  match slookup c bond_order_table with
  | None => Err EKey
  | Some o => Ok (mkPS (ps_graph st) (ps_anchor st) (ps_branches st) (ps_rings st)
                       (set_bond (ps_its st) (Scalar o)) false (ps_its st))
  end.
Proof. reflexivity. Qed.

Lemma step_bsym st b :
  Default st -> ps_its st = its -> bsym_ok b = true ->
  exists st', run ops aam off (bsym_toks b) st = Ok st' /\ same_but_bond st st' /\ Pending st' b.
Proof.
  intros HD Hi Hok. destruct b as [| |c|g h]; simpl bsym_toks.
  - exists st. simpl. repeat split; try reflexivity; apply HD.
  - eexists. simpl. split; [reflexivity|]. split; [repeat split|]. simpl. rewrite Hi.
    rewrite andb_false_r. split; reflexivity.
  - cbv beta iota delta [bsym_ok] in Hok.
    destruct (slookup c ref_bond_orders) as [o|] eqn:E; [|discriminate].
    cbn [run]. rewrite step_bond_eq, bond_table_ok, E. eexists. split; [reflexivity|].
    split; [repeat split|].
    cbv beta iota delta [Pending]. exists o. cbn [ps_bond ps_implicit]. rewrite Hi.
    repeat split; try reflexivity. exact E.
  - simpl in Hok. apply andb_true_iff in Hok. destruct Hok as [Hg Hh].
    cbn [run]. rewrite step_rc_eq. unfold step_rc_bond. rewrite (rc_parts g h Hg Hh).
    rewrite (rc_value_num g Hg), (rc_value_num h Hh). eexists. split; [reflexivity|].
    split; [repeat split|]. cbv beta iota delta [Pending]. cbn [ps_bond ps_implicit set_bond].
    split; reflexivity.
Qed.

Lemma atom_step_attrs a idx :
  atom_ok a = true ->
  let '(ttype, value) := atom_tok a in
  (String.eqb ttype "ATOM" || String.eqb ttype "WILDCARD" || String.eqb ttype "NODE_LABEL" = true) /\
  mkNA (Some (if String.eqb ttype "NODE_LABEL" then "#" else value))
       (if aam then Some (idx + 1) else None)
       (Some (if String.eqb ttype "NODE_LABEL"
              then split_on "," (rstrip "}" (lstrip "{" value)) else []))
       (Some (String.eqb ttype "NODE_LABEL")) None = atom_attr aam idx a /\
  (if String.eqb ttype "NODE_LABEL" then "#" else value) = atom_sym a.
Proof.
  intros Hok. destruct a as [s| |ls]; simpl atom_tok; cbv iota beta.
  - repeat split.
  - repeat split.
  - split; [reflexivity|]. split; [|reflexivity].
    change (String.eqb "NODE_LABEL" "NODE_LABEL") with true. cbv iota.
    rewrite (labels_roundtrip ls Hok). reflexivity.
Qed.

(** *** the invariant *)

Definition Post (st st' : pst) (S' : sst) : Prop :=
  Rel st' S' /\ ps_branches st' = ps_branches st /\ Default st' /\ ps_anchor st' <> None /\
  (forall id s, HasSym (ps_graph st) id s -> HasSym (ps_graph st') id s).

Lemma machine_invariant :
  (forall t par S st,
      syntax_ok t = true -> Rel st S -> 0 <= s_n S -> ParOK st par ->
      s_ok (sem_chain its t par S) = true ->
      exists st', run ops aam off (tokens t) st = Ok st' /\ Post st st' (sem_chain its t par S)) /\
  (forall r me sy S st,
      rest_syntax_ok r = true -> Rel st S -> 0 <= s_n S ->
      ps_anchor st = Some (me + off) -> HasSym (ps_graph st) (me + off) sy -> Default st ->
      s_ok (sem_rest its r me sy S) = true ->
      exists st', run ops aam off (rest_tokens r) st = Ok st' /\ Post st st' (sem_rest its r me sy S)).
Proof.
  apply chain_rest_ind.
  - (* Chain a r *)
    intros a r IHr par S st Hsyn HR Hn HP Hok.
    simpl in Hsyn. apply andb_true_iff in Hsyn. destruct Hsyn as [Ha Hr].
    simpl tokens. simpl sem_chain in *.
    pose proof (atom_step_attrs a (s_n S + off) Ha) as Hat.
    destruct (atom_tok a) as [ttype value] eqn:Etok. destruct Hat as (Hty & Hattr & Hsym).
    destruct HR as [HRb HRi HRr HRo HRits HRv].
    pose proof (View_add_node _ _ _ a Hn HRi HRv) as HV1.
    assert (Hidx : g_nnodes ops (ps_graph st) + off = s_n S + off).
    { rewrite (law_nnodes _ _ laws). destruct HRi as [-> _]. reflexivity. }
    simpl run. rewrite Hidx. unfold step. rewrite Hty. unfold step_add_node.
    rewrite Hattr, Hsym.
    set (g1 := g_add_node ops (ps_graph st) (s_n S + off) (atom_attr aam (s_n S + off) a)).
    assert (HI1 : Inv g1 (s_n S + 1)) by (apply add_node_Inv; assumption).
    assert (Hnew : HasSym g1 (s_n S + off) (atom_sym a))
      by (apply add_node_HasSym_new; [assumption|reflexivity]).
    assert (Hb1 : build ops (map (realise off aam) (s_ops S ++ [ANode (s_n S) a])) = Some g1).
    { rewrite map_app. simpl map. rewrite (build_snoc _ _ _ HRb). reflexivity. }
    destruct par as [[[p psy] b]|]; simpl in HP.
    + destruct HP as (Hanc & Hps & Hpend). rewrite Hanc.
      assert (Hps1 : HasSym g1 (p + off) psy) by (apply add_node_HasSym_old; assumption).
      rewrite (HasSym_sym _ _ _ Hps1).
      rewrite (connect_spec st b g1 _ _ _ _ HRits Hpend).
      destruct (opt_edge g1 (p + off) (s_n S + off) (bond_label its b psy (atom_sym a))
                         (HasSym_in _ _ _ Hps1) (HasSym_in _ _ _ Hnew)) as (g2 & Hg2 & Hv2).
      rewrite Hg2.
      set (st1 := mkPS g2 (Some (s_n S + off)) (ps_branches st) (ps_rings st)
                       (set_bond (ps_its st) (Scalar 2)) true (ps_its st)).
      destruct (IHr (s_n S) (atom_sym a)
                    (mkS (s_n S + 1) (s_open S)
                         (s_ops S ++ ANode (s_n S) a :: edge_ops p (s_n S) (bond_label its b psy (atom_sym a)))
                         (s_ok S)) st1) as (st' & Hrun & HPost).
      * exact Hr.
      * constructor; simpl.
        -- change (ANode (s_n S) a :: edge_ops p (s_n S) (bond_label its b psy (atom_sym a)))
             with ([ANode (s_n S) a] ++ edge_ops p (s_n S) (bond_label its b psy (atom_sym a)))%list.
           rewrite app_assoc, map_app. eapply build_edge_ops; [exact Hb1|exact Hg2].
        -- eapply view_Inv; [exact Hv2|exact HI1].
        -- exact HRr.
        -- intros l q sy Hl. eapply view_HasSym; [exact Hv2|].
           apply add_node_HasSym_old; [assumption|]. eapply HRo; exact Hl.
        -- exact HRits.
        -- change (ANode (s_n S) a :: edge_ops p (s_n S) (bond_label its b psy (atom_sym a)))
             with ([ANode (s_n S) a] ++ edge_ops p (s_n S) (bond_label its b psy (atom_sym a)))%list.
           rewrite app_assoc. eapply View_edge; [exact Hv2|exact HV1].
      * simpl. lia.
      * reflexivity.
      * simpl. eapply view_HasSym; [exact Hv2|exact Hnew].
      * split; simpl; [rewrite HRits; reflexivity|reflexivity].
      * exact Hok.
      * exists st'. split; [exact Hrun|].
        destruct HPost as (P1 & P2 & P3 & P4 & P5).
        refine (conj P1 (conj P2 (conj P3 (conj P4 _)))).
        intros id s Hs. apply P5. simpl. eapply view_HasSym; [exact Hv2|].
        apply add_node_HasSym_old; assumption.
    + destruct HP as (Hanc & HD). rewrite Hanc.
      set (st1 := mkPS g1 (Some (s_n S + off)) (ps_branches st) (ps_rings st)
                       (ps_bond st) (ps_implicit st) (ps_its st)).
      destruct (IHr (s_n S) (atom_sym a)
                    (mkS (s_n S + 1) (s_open S) (s_ops S ++ [ANode (s_n S) a]) (s_ok S)) st1)
        as (st' & Hrun & HPost).
      * exact Hr.
      * constructor; simpl.
        -- exact Hb1.
        -- exact HI1.
        -- exact HRr.
        -- intros l q sy Hl. apply add_node_HasSym_old; [assumption|]. eapply HRo; exact Hl.
        -- exact HRits.
        -- exact HV1.
      * simpl. lia.
      * reflexivity.
      * exact Hnew.
      * exact HD.
      * exact Hok.
      * exists st'. split; [exact Hrun|].
        destruct HPost as (P1 & P2 & P3 & P4 & P5).
        refine (conj P1 (conj P2 (conj P3 (conj P4 _)))).
        intros id s Hs. apply P5. simpl. apply add_node_HasSym_old; assumption.
  - (* RNil *)
    intros me sy S st _ HR Hn Hanc Hsy HD _. exists st. simpl. split; [reflexivity|].
    refine (conj HR (conj eq_refl (conj HD (conj _ (fun _ _ H => H))))). congruence.
  - (* RRing b l r *)
    intros b l r IHr me sy S st Hsyn HR Hn Hanc Hsy HD Hok.
    simpl in Hsyn. apply andb_true_iff in Hsyn. destruct Hsyn as [Hsyn Hr].
    apply andb_true_iff in Hsyn. destruct Hsyn as [Hb Hl].
    simpl rest_tokens. simpl sem_rest in *.
    assert (HRits := rel_its _ _ HR).
    destruct (slookup l (s_open S)) as [[at_ asy]|] eqn:El.
    + (* closing mark *)
      destruct (step_bsym st b HD HRits Hb) as (stb & Hrunb & Hsame & Hpend).
      pose proof (Rel_same_but_bond _ _ _ Hsame HR) as HRb.
      destruct Hsame as (Sg & Sa & Sbr & Sr & Si).
      rewrite run_app, Hrunb. simpl run. unfold step_ring.
      rewrite (rel_rings _ _ HRb). rewrite slookup_ring, El. simpl option_map.
      rewrite Sa, Hanc.
      assert (Hsyb : HasSym (ps_graph stb) (me + off) sy) by (rewrite Sg; exact Hsy).
      assert (Hasy : HasSym (ps_graph stb) (at_ + off) asy) by (eapply (rel_open _ _ HRb); exact El).
      rewrite (HasSym_sym _ _ _ Hsyb), (HasSym_sym _ _ _ Hasy).
      rewrite (connect_spec stb b _ _ _ _ _ (rel_its _ _ HRb) Hpend).
      destruct (opt_edge (ps_graph stb) (me + off) (at_ + off) (bond_label its b sy asy)
                         (HasSym_in _ _ _ Hsyb) (HasSym_in _ _ _ Hasy)) as (g2 & Hg2 & Hv2).
      rewrite Hg2.
      set (st1 := mkPS g2 (Some (me + off)) (ps_branches stb) (sdel l (map ring_entry (s_open S)))
                       (set_bond (ps_its stb) (Scalar 2)) true (ps_its stb)).
      destruct (IHr me sy
                    (mkS (s_n S) (sdel l (s_open S))
                         (s_ops S ++ edge_ops me at_ (bond_label its b sy asy)) (s_ok S)) st1)
        as (st' & Hrun & HPost).
      * exact Hr.
      * constructor; simpl.
        -- rewrite map_app. eapply build_edge_ops; [exact (rel_build _ _ HRb)|exact Hg2].
        -- eapply view_Inv; [exact Hv2|exact (rel_inv _ _ HRb)].
        -- apply sdel_ring.
        -- intros l' q sy' Hl'. eapply view_HasSym; [exact Hv2|].
           eapply (rel_open _ _ HRb). eapply slookup_sdel_Some. exact Hl'.
        -- exact (rel_its _ _ HRb).
        -- eapply View_edge; [exact Hv2|exact (rel_view _ _ HRb)].
      * exact Hn.
      * reflexivity.
      * simpl. eapply view_HasSym; [exact Hv2|exact Hsyb].
      * split; simpl; [rewrite (rel_its _ _ HRb); reflexivity|reflexivity].
      * exact Hok.
      * exists st'. split; [exact Hrun|].
        destruct HPost as (P1 & P2 & P3 & P4 & P5).
        refine (conj P1 (conj _ (conj P3 (conj P4 _)))).
        -- rewrite P2. simpl. exact Sbr.
        -- intros id s Hs. apply P5. simpl. eapply view_HasSym; [exact Hv2|]. rewrite Sg. exact Hs.
    + (* opening mark: written without a bond symbol *)
      pose proof (proj2 (s_ok_mono its) _ _ _ _ Hok) as Hok1. simpl in Hok1.
      apply andb_true_iff in Hok1. destruct Hok1 as [_ Himp].
      destruct b; try discriminate. simpl bsym_toks. simpl app. simpl run. unfold step_ring.
      rewrite (rel_rings _ _ HR). rewrite slookup_ring, El. simpl option_map.
      rewrite Hanc.
      set (st1 := mkPS (ps_graph st) (Some (me + off)) (ps_branches st)
                       (sset l (me + off) (map ring_entry (s_open S))) (ps_bond st) (ps_implicit st) (ps_its st)).
      destruct (IHr me sy (mkS (s_n S) (sset l (me, sy) (s_open S)) (s_ops S) (s_ok S && true)) st1)
        as (st' & Hrun & HPost).
      * exact Hr.
      * constructor; simpl.
        -- exact (rel_build _ _ HR).
        -- exact (rel_inv _ _ HR).
        -- apply sset_ring.
        -- intros l' q sy' Hl'. rewrite slookup_sset in Hl'.
           destruct (String.eqb l' l).
           ++ injection Hl' as <- <-. exact Hsy.
           ++ eapply (rel_open _ _ HR). exact Hl'.
        -- exact HRits.
        -- exact (rel_view _ _ HR).
      * exact Hn.
      * reflexivity.
      * exact Hsy.
      * exact HD.
      * exact Hok.
      * exists st'. split; [exact Hrun|].
        destruct HPost as (P1 & P2 & P3 & P4 & P5).
        exact (conj P1 (conj P2 (conj P3 (conj P4 P5)))).
  - (* RBranch b c r *)
    intros b c IHc r IHr me sy S st Hsyn HR Hn Hanc Hsy HD Hok.
    simpl in Hsyn. apply andb_true_iff in Hsyn. destruct Hsyn as [Hsyn Hr].
    apply andb_true_iff in Hsyn. destruct Hsyn as [Hb Hc].
    simpl rest_tokens. simpl sem_rest in *.
    assert (HRits := rel_its _ _ HR).
    simpl run.
    set (st0 := mkPS (ps_graph st) (ps_anchor st) (ps_anchor st :: ps_branches st) (ps_rings st)
                     (ps_bond st) (ps_implicit st) (ps_its st)).
    assert (HR0 : Rel st0 S) by (destruct HR; constructor; assumption).
    destruct (step_bsym st0 b HD HRits Hb) as (stb & Hrunb & Hsame & Hpend).
    pose proof (Rel_same_but_bond _ _ _ Hsame HR0) as HRb.
    destruct Hsame as (Sg & Sa & Sbr & Sr & Si).
    rewrite run_app, Hrunb.
    pose proof (proj2 (s_ok_mono its) _ _ _ _ Hok) as Hokc.
    destruct (IHc (Some (me, sy, b)) S stb Hc HRb Hn) as (stc & Hrunc & HPc).
    { simpl. rewrite Sa, Sg. simpl. repeat split; assumption. }
    { exact Hokc. }
    rewrite run_app, Hrunc.
    destruct HPc as (C1 & C2 & C3 & C4 & C5).
    simpl run. rewrite C2, Sbr. simpl ps_branches.
    set (st2 := mkPS (ps_graph stc) (ps_anchor st) (ps_branches st) (ps_rings stc)
                     (ps_bond stc) (ps_implicit stc) (ps_its stc)).
    destruct (IHr me sy (sem_chain its c (Some (me, sy, b)) S) st2) as (st' & Hrun & HPost).
    * exact Hr.
    * destruct C1; constructor; assumption.
    * clear - Hn. revert Hn. generalize (Some (me, sy, b)). revert S.
      (* s_n never decreases *)
      assert (Hmono : (forall t par S, 0 <= s_n S -> 0 <= s_n (sem_chain its t par S)) /\
                      (forall r me sy S, 0 <= s_n S -> 0 <= s_n (sem_rest its r me sy S))).
      { apply chain_rest_ind; simpl; intros; auto.
        - apply H. simpl. lia.
        - destruct (slookup l (s_open S)) as [[? ?]|]; apply H; simpl; assumption. }
      intros S par Hn. apply (proj1 Hmono). exact Hn.
    * exact Hanc.
    * simpl. apply C5. rewrite Sg. exact Hsy.
    * exact C3.
    * exact Hok.
    * exists st'. split; [exact Hrun|].
      destruct HPost as (P1 & P2 & P3 & P4 & P5).
      refine (conj P1 (conj P2 (conj P3 (conj P4 _)))).
      intros id s Hs. apply P5. simpl. apply C5. rewrite Sg. exact Hs.
  - (* RNext b c *)
    intros b c IHc me sy S st Hsyn HR Hn Hanc Hsy HD Hok.
    simpl in Hsyn. apply andb_true_iff in Hsyn. destruct Hsyn as [Hb Hc].
    simpl rest_tokens. simpl sem_rest in *.
    assert (HRits := rel_its _ _ HR).
    destruct (step_bsym st b HD HRits Hb) as (stb & Hrunb & Hsame & Hpend).
    pose proof (Rel_same_but_bond _ _ _ Hsame HR) as HRb.
    destruct Hsame as (Sg & Sa & Sbr & Sr & Si).
    rewrite run_app, Hrunb.
    destruct (IHc (Some (me, sy, b)) S stb Hc HRb Hn) as (stc & Hrunc & HPc).
    { simpl. rewrite Sa, Sg. repeat split; assumption. }
    { exact Hok. }
    exists stc. split; [exact Hrunc|].
    destruct HPc as (C1 & C2 & C3 & C4 & C5).
    refine (conj C1 (conj _ (conj C3 (conj C4 _)))).
    + rewrite C2. exact Sbr.
    + intros id s Hs. apply C5. rewrite Sg. exact Hs.
Qed.

End Machine.

(** ** the theorem, for any graph class satisfying the laws *)

Theorem parse_tokens_denote {G} (ops : gops G) view :
  gops_laws ops view ->
  forall aam off t, wf_core t = true ->
  exists g, build ops (map (realise off aam) (sem t)) = Some g /\
            parse_tokens ops aam off (tokens t) = Ok g /\
            view g = map (node_of off aam) (sem_atoms (sem t)) /\
            map fst (sem_atoms (sem t)) = positions (s_n (sem_final t)).
Proof.
  intros laws aam off t Hwf. unfold wf_core in Hwf. apply andb_true_iff in Hwf.
  destruct Hwf as [Hsyn Hok].
  unfold parse_tokens. rewrite (proj1 has_rc_tokens).
  destruct (proj1 (machine_invariant ops view laws (has_rc t) off aam) t None (mkS 0 [] [] true)
                  (init_state ops (has_rc t))) as (st' & Hrun & HPost).
  - exact Hsyn.
  - constructor; simpl.
    + reflexivity.
    + split; rewrite (law_empty _ _ laws); simpl; [reflexivity|].
      intros id. split; [congruence|lia].
    + reflexivity.
    + discriminate.
    + reflexivity.
    + split; [rewrite (law_empty _ _ laws); reflexivity|reflexivity].
  - simpl. lia.
  - simpl. repeat split.
  - exact Hok.
  - rewrite Hrun. exists (ps_graph st'). destruct HPost as (P1 & _).
    split; [exact (rel_build _ _ _ _ _ _ _ P1)|]. split; [reflexivity|].
    exact (rel_view _ _ _ _ _ _ _ P1).
Qed.
