(** Soundness of the decidable checkers of Spec/PruneCheck.v: whatever output they accept
    satisfies the declarative specification (for well-formed inputs). *)
From Coq Require Import ZArith List Bool String Lia Sorted Permutation.
From FGV Require Import Base.Util Base.UtilFacts Base.Bond Base.NX Base.NXFacts
  Model.Matrix Model.Prune Spec.WalkDef Spec.PruneSpec Spec.PruneCheck
  Proofs.Walk Proofs.UnreachProofs Proofs.RcProofs Proofs.PruneProofs.
Import ListNotations.
Open Scope Z_scope.

(** * boolean equalities *)

Lemma opt_eqb_sound {A} (eqb : A -> A -> bool) :
  (forall a b, eqb a b = true -> a = b) -> forall x y, option_eqb eqb x y = true -> x = y.
Proof.
  intros He [a|] [b|]; simpl; intros H; try discriminate; [|reflexivity].
  f_equal. apply He. exact H.
Qed.

Lemma lst_eqb_sound {A} (eqb : A -> A -> bool) :
  (forall a b, eqb a b = true -> a = b) -> forall x y, list_eqb eqb x y = true -> x = y.
Proof.
  intros He x. induction x as [|a x IH]; intros [|b y]; simpl; intros H; try discriminate;
    [reflexivity|]. apply andb_true_iff in H. destruct H as (H1 & H2).
  f_equal; [apply He; exact H1|apply IH; exact H2].
Qed.

Lemma nattr_eqb_sound a b : nattr_eqb a b = true -> a = b.
Proof.
  unfold nattr_eqb. rewrite !andb_true_iff. intros ((((H1 & H2) & H3) & H4) & H5).
  destruct a as [a1 a2 a3 a4 a5], b as [b1 b2 b3 b4 b5]. simpl in *.
  apply (opt_eqb_sound String.eqb) in H1; [|intros x y; apply String.eqb_eq].
  apply (opt_eqb_sound Z.eqb) in H2; [|intros x y; apply Z.eqb_eq].
  apply (opt_eqb_sound (list_eqb String.eqb)) in H3;
    [|apply lst_eqb_sound; intros x y; apply String.eqb_eq].
  apply (opt_eqb_sound Bool.eqb) in H4; [|intros x y; apply Bool.eqb_prop].
  apply (opt_eqb_sound (fun x y => (fst x =? fst y) && (snd x =? snd y))) in H5.
  - subst. reflexivity.
  - intros [x1 x2] [y1 y2]. simpl. rewrite andb_true_iff, !Z.eqb_eq. intros (-> & ->). reflexivity.
Qed.

Lemma label_opt_eqb_sound x y : option_eqb label_eqb x y = true -> x = y.
Proof. apply opt_eqb_sound. intros a b. apply label_eqb_eq. Qed.

(** * entries of a graph *)

Lemma node_attr_entry g n a : node_attr g n = Some a -> exists ad, In (n, (a, ad)) g /\ adj g n = ad.
Proof.
  unfold node_attr, adj. destruct (alookup n g) as [[a0 ad]|] eqn:E0; [|discriminate].
  intros H. injection H as ->. exists ad. split; [apply alookup_In; exact E0|reflexivity].
Qed.

Lemma has_node_entry g n : has_node g n = true -> exists a ad, In (n, (a, ad)) g /\ node_attr g n = Some a /\ adj g n = ad.
Proof.
  intros H. apply node_attr_has_node in H. destruct H as (a & Ha).
  destruct (node_attr_entry g n a Ha) as (ad & H1 & H2). exists a, ad. auto.
Qed.

(** * rc_okb *)

Theorem rc_graph_okb_sound its rc : wf its -> rc_graph_okb its rc = true -> rc_spec its rc.
Proof.
  intros Hwf H. unfold rc_graph_okb in H. rewrite !andb_true_iff in H.
  destruct H as ((Hw & Hrc) & Hits). apply wfb_wf in Hw.
  rewrite forallb_forall in Hrc, Hits.
  assert (Hent : forall n a ad, In (n, (a, ad)) rc ->
            (exists s, sym_of its n = Some s /\ a = na_sym s) /\ ad <> []
            /\ forall v l, In (v, l) ad -> rc_edge its n v l).
  { intros n a ad Hin. specialize (Hrc _ Hin). simpl in Hrc. rewrite !andb_true_iff in Hrc.
    destruct Hrc as ((Hs & Hne) & Had). split; [|split].
    - destruct (sym_of its n) as [s|]; [|discriminate]. exists s. split; [reflexivity|].
      apply nattr_eqb_sound. exact Hs.
    - intros ->. discriminate.
    - intros v l Hvl. rewrite forallb_forall in Had. specialize (Had _ Hvl). simpl in Had.
      apply andb_true_iff in Had. destruct Had as (Hd & Hl). split.
      + apply label_opt_eqb_sound. exact Hl.
      + apply rc_edgeb_true. exact Hd. }
  assert (He : forall u v l, edge_label rc u v = Some l <-> rc_edge its u v l).
  { intros u v l. split.
    - intros Hl. pose proof (edge_label_In_adj _ _ _ _ Hl) as Hin.
      assert (Hn : has_node rc u = true) by (eapply edge_label_has_node; eauto).
      destruct (has_node_entry rc u Hn) as (a & ad & H1 & _ & H3). rewrite H3 in Hin.
      destruct (Hent u a ad H1) as (_ & _ & Hall). apply Hall. exact Hin.
    - intros (Hl & Hd).
      assert (Hn : has_node its u = true) by (eapply edge_label_has_node; eauto).
      destruct (has_node_entry its u Hn) as (a & ad & H1 & _ & H3).
      pose proof (edge_label_In_adj _ _ _ _ Hl) as Hin. rewrite H3 in Hin.
      specialize (Hits _ H1). simpl in Hits. rewrite forallb_forall in Hits.
      specialize (Hits _ Hin). simpl in Hits. apply rc_edgeb_true in Hd. rewrite Hd in Hits.
      simpl in Hits. apply label_opt_eqb_sound. exact Hits. }
  split; [exact Hw|]. split; [exact He|]. intros n a. split.
  - intros Ha. destruct (node_attr_entry rc n a Ha) as (ad & H1 & _).
    destruct (Hent n a ad H1) as (Hs & Hne & Hall). split; [|exact Hs].
    destruct ad as [|[v l] t]; [congruence|]. exists v, l. apply Hall. left. reflexivity.
  - intros ((v & l & Hr) & s & Hs & ->). apply He in Hr.
    assert (Hn : has_node rc n = true) by (eapply edge_label_has_node; eauto).
    destruct (has_node_entry rc n Hn) as (a & ad & H1 & H2 & _). rewrite H2.
    destruct (Hent n a ad H1) as ((s' & Hs' & ->) & _). congruence.
Qed.

Lemma entry_adj g u a ad : wf g -> In (u, (a, ad)) g -> adj g u = ad /\ node_attr g u = Some a.
Proof.
  intros (Hnd & _) Hin. pose proof (NoDup_alookup u (a, ad) g Hnd Hin) as E0.
  unfold adj, node_attr. rewrite E0. split; reflexivity.
Qed.

Lemma has_scalar_label_sound its :
  wf its -> has_scalar_label its = true ->
  exists u v l, edge_label its u v = Some l /\ lab_differs l = None.
Proof.
  intros Hwf H. unfold has_scalar_label in H. apply existsb_exists in H.
  destruct H as ([u [a ad]] & Hin & Hex). simpl in Hex. apply existsb_exists in Hex.
  destruct Hex as ([v l] & Hvl & Hs). simpl in Hs. exists u, v, l. split.
  - apply In_adj_edge_label; [exact Hwf|]. destruct (entry_adj its u a ad Hwf Hin) as (-> & _). exact Hvl.
  - destruct l; simpl in *; [reflexivity|discriminate|discriminate].
Qed.

Lemma has_bare_rc_node_sound its :
  wf its -> has_bare_rc_node its = true -> exists n, rc_node its n /\ sym_of its n = None.
Proof.
  intros Hwf H. unfold has_bare_rc_node in H. apply existsb_exists in H.
  destruct H as ([n [a ad]] & Hin & Hex). simpl in Hex. apply andb_true_iff in Hex.
  destruct Hex as (Hsym & Hex). apply existsb_exists in Hex. destruct Hex as ([v l] & Hvl & Hd).
  simpl in Hd. destruct (entry_adj its n a ad Hwf Hin) as (Hadj & Hattr). exists n. split.
  - exists v, l. split; [|apply rc_edgeb_true; exact Hd].
    apply In_adj_edge_label; [exact Hwf|]. rewrite Hadj. exact Hvl.
  - unfold sym_of. rewrite Hattr. destruct (a_sym a); [discriminate|reflexivity].
Qed.

Theorem rc_okb_sound its out :
  wf its -> rc_okb its out = true ->
  match out with
  | Ok rc => rc_spec its rc
  | Err TypeError => exists u v l, edge_label its u v = Some l /\ lab_differs l = None
  | Err KeyError => exists n, rc_node its n /\ sym_of its n = None
  | Err _ => False
  end.
Proof.
  intros Hwf H. destruct out as [rc|[| | |]]; simpl in H; try discriminate.
  - apply rc_graph_okb_sound; assumption.
  - apply has_scalar_label_sound; assumption.
  - apply has_bare_rc_node_sound; assumption.
Qed.

(** * unreachable_okb *)

Lemma incrb_sorted l : incrb l = true -> StronglySorted Z.lt l.
Proof.
  induction l as [|x t IH]; intros H; [constructor|].
  destruct t as [|y t'].
  - constructor; constructor.
  - simpl in H. apply andb_true_iff in H. destruct H as (Hxy & Ht). apply Z.ltb_lt in Hxy.
    specialize (IH Ht). constructor; [exact IH|].
    inversion IH as [|? ? _ Hall]; subst. constructor; [exact Hxy|].
    rewrite Forall_forall in *. intros z Hz. specialize (Hall z Hz). lia.
Qed.

Theorem unreachable_okb_sound g S r out :
  wf g -> unreachable_okb g S r out = true ->
  match out with
  | Ok L => unreachable_spec g S r L
  | Err NetworkXError => nodes g = []
  | Err KeyError => exists s, In s S /\ has_node g s = false
  | Err _ => False
  end.
Proof.
  intros Hwf H. destruct out as [L|[| | |]]; simpl in H; try discriminate.
  - rewrite !andb_true_iff in H. destruct H as ((Hinc & HL) & Hall).
    rewrite forallb_forall in HL, Hall. split; [|apply incrb_sorted; exact Hinc].
    intros v. split.
    + intros Hv. specialize (HL v Hv). apply andb_true_iff in HL. destruct HL as (Hn & Hb).
      split; [exact Hn|]. intros s Hs Hr. rewrite forallb_forall in Hb.
      specialize (Hb (gball g r s) (in_map _ _ _ Hs)). apply negb_true_iff in Hb.
      apply zmem_false in Hb. apply Hb. apply gball_greach; assumption.
    + intros (Hn & Hno). apply has_node_In in Hn. specialize (Hall v Hn).
      apply orb_true_iff in Hall. destruct Hall as [Hex|Hz]; [|apply zmem_In; exact Hz].
      exfalso. apply existsb_exists in Hex. destruct Hex as (b & Hb & Hz).
      apply in_map_iff in Hb. destruct Hb as (s & <- & Hs). apply zmem_In in Hz.
      apply (Hno s Hs). apply gball_greach; assumption.
  - apply negb_true_iff in H.
    assert (Hex : existsb (fun s => negb (has_node g s)) S = true).
    { clear -H. induction S as [|s t IH]; simpl in *; [discriminate|].
      destruct (has_node g s); simpl in *; [apply IH; exact H|reflexivity]. }
    apply existsb_exists in Hex. destruct Hex as (s & Hs & Hn). exists s. split; [exact Hs|].
    apply negb_true_iff. exact Hn.
  - destruct (nodes g); [reflexivity|discriminate].
Qed.

(** * prune_okb *)

Lemma in_rc_nodes its s : wf its -> In s (rc_nodes its) <-> rc_node its s.
Proof.
  intros Hwf. unfold rc_nodes. rewrite in_map_iff. split.
  - intros ([n [a ad]] & Hs & Hf). simpl in Hs. subst n. apply filter_In in Hf.
    destruct Hf as (Hin & Hex). simpl in Hex. apply existsb_exists in Hex.
    destruct Hex as ([v l] & Hvl & Hd). simpl in Hd. exists v, l.
    destruct (entry_adj its s a ad Hwf Hin) as (Hadj & _). split.
    + apply In_adj_edge_label; [exact Hwf|]. rewrite Hadj. exact Hvl.
    + apply rc_edgeb_true. exact Hd.
  - intros (v & l & Hl & Hd).
    assert (Hn : has_node its s = true) by (eapply edge_label_has_node; eauto).
    destruct (has_node_entry its s Hn) as (a & ad & H1 & _ & H3).
    exists (s, (a, ad)). split; [reflexivity|]. apply filter_In. split; [exact H1|]. simpl.
    apply existsb_exists. exists (v, l). split.
    + rewrite <- H3. apply edge_label_In_adj. exact Hl.
    + apply rc_edgeb_true. exact Hd.
Qed.

Lemma in_ctx_nodes its r v : wf its -> zmem v (ctx_nodes its r) = true <-> in_ctx its r v.
Proof.
  intros Hwf. unfold ctx_nodes, in_ctx. rewrite zmem_In, in_flat_map. split.
  - intros (s & Hs & Hb). exists s. split; [apply in_rc_nodes; assumption|].
    apply gball_greach; assumption.
  - intros (s & Hs & Hr). exists s. split; [apply in_rc_nodes; assumption|].
    apply gball_greach; assumption.
Qed.

Lemma remove_first_perm v cs cs1 :
  remove_first v cs = Some cs1 -> exists c, snd c = v /\ Permutation cs (c :: cs1).
Proof.
  revert cs1. induction cs as [|c t IH]; intros cs1 H; simpl in H; [discriminate|].
  destruct (Z.eqb_spec (snd c) v) as [Heq|Hne].
  - injection H as <-. exists c. split; [exact Heq|apply Permutation_refl].
  - destruct (remove_first v t) as [t1|]; simpl in H; [|discriminate]. injection H as <-.
    destruct (IH t1 eq_refl) as (c' & Hc' & Hp). exists c'. split; [exact Hc'|].
    eapply perm_trans; [apply perm_skip; exact Hp|apply perm_swap].
Qed.

Lemma match_hyd_sound o newl : forall cs,
  match_hyd o newl cs = true ->
  exists cs', Permutation cs cs'
    /\ Forall2 (fun n c => node_attr o n = Some (na_sym "H"%string)
                           /\ adj o n = [(snd c, Pair 2 2)]) newl cs'.
Proof.
  induction newl as [|n t IH]; intros cs H; simpl in H.
  - destruct cs; [|discriminate]. exists []. split; constructor.
  - destruct (adj o n) as [|[v l] [|? ?]] eqn:Ea; try discriminate.
    rewrite !andb_true_iff in H. destruct H as ((Hl & Hattr) & Hrest).
    apply label_eqb_eq in Hl. subst l.
    apply (opt_eqb_sound nattr_eqb nattr_eqb_sound) in Hattr.
    destruct (remove_first v cs) as [cs1|] eqn:Er; [|discriminate].
    destruct (remove_first_perm v cs cs1 Er) as (c & Hc & Hp).
    destruct (IH cs1 Hrest) as (cs2 & Hp2 & HF). exists (c :: cs2). split.
    + eapply perm_trans; [exact Hp|]. apply perm_skip. exact Hp2.
    + constructor; [|exact HF]. rewrite Hc. split; [exact Hattr|exact Ea].
Qed.

Theorem prune_graph_okb_sound its r ih o :
  wf its -> prune_graph_okb its r ih o = true -> prune_spec its r ih o.
Proof.
  intros Hwf H. unfold prune_graph_okb in H. cbv zeta in H.
  assert (HK : forall v, zmem v (ctx_nodes its r) = true <-> in_ctx its r v)
    by (intros v; apply in_ctx_nodes; exact Hwf).
  rewrite !andb_true_iff in H. destruct H as (((Hw & Hold) & Hextra) & Hnew).
  apply wfb_wf in Hw. rewrite forallb_forall in Hold, Hextra.
  assert (Hentry : forall n a ad, In (n, (a, ad)) its ->
            (has_node o n = zmem n (ctx_nodes its r))
            /\ (zmem n (ctx_nodes its r) = true -> node_attr o n = Some a
                /\ forall v l, In (v, l) ad -> zmem v (ctx_nodes its r) = true -> edge_label o n v = Some l)).
  { intros n a ad Hin. specialize (Hold _ Hin). simpl in Hold. apply andb_true_iff in Hold.
    destruct Hold as (Hh & Hrest). apply Bool.eqb_prop in Hh. split; [exact Hh|].
    intros Hk. rewrite Hk in Hrest. simpl in Hrest. apply andb_true_iff in Hrest.
    destruct Hrest as (Hattr & Hadj). split.
    - apply (opt_eqb_sound nattr_eqb nattr_eqb_sound). exact Hattr.
    - intros v l Hvl Hkv. rewrite forallb_forall in Hadj. specialize (Hadj _ Hvl). simpl in Hadj.
      rewrite Hkv in Hadj. simpl in Hadj. apply label_opt_eqb_sound. exact Hadj. }
  assert (P2 : forall v, has_node its v = true -> (has_node o v = true <-> in_ctx its r v)).
  { intros v Hv. destruct (has_node_entry its v Hv) as (a & ad & H1 & _ & _).
    destruct (Hentry v a ad H1) as (Hh & _). rewrite Hh. apply HK. }
  split; [exact Hw|]. split; [exact P2|]. split; [|split; [|split]].
  - intros v Hc. pose proof (in_ctx_has_node its r Hwf v Hc) as Hv.
    destruct (has_node_entry its v Hv) as (a & ad & H1 & H2 & _).
    destruct (Hentry v a ad H1) as (_ & Hk). destruct (Hk (proj2 (HK v) Hc)) as (Ha & _).
    rewrite Ha, H2. reflexivity.
  - intros u v Hu Hv. pose proof (in_ctx_has_node its r Hwf u Hu) as Hnu.
    destruct (has_node_entry its u Hnu) as (a & ad & H1 & _ & H3).
    destruct (Hentry u a ad H1) as (_ & Hk). destruct (Hk (proj2 (HK u) Hu)) as (_ & Hadj).
    destruct (edge_label its u v) as [l|] eqn:El.
    + apply Hadj; [|apply HK; exact Hv]. rewrite <- H3. apply edge_label_In_adj. exact El.
    + destruct (edge_label o u v) as [l'|] eqn:Eo; [|reflexivity]. exfalso.
      assert (Hou : has_node o u = true) by (eapply edge_label_has_node; eauto).
      destruct (has_node_entry o u Hou) as (a' & ad' & G1 & _ & G3).
      specialize (Hextra _ G1). simpl in Hextra. rewrite Hnu in Hextra. simpl in Hextra.
      rewrite forallb_forall in Hextra.
      assert (Hin : In (v, l') ad') by (rewrite <- G3; apply edge_label_In_adj; exact Eo).
      specialize (Hextra _ Hin). simpl in Hextra.
      rewrite (in_ctx_has_node its r Hwf v Hv) in Hextra. simpl in Hextra.
      unfold has_edge in Hextra. rewrite El in Hextra. discriminate.
  - intros u v Hu Hv Hedge. unfold has_edge in Hedge.
    destruct (edge_label o u v) as [l|] eqn:Eo; [|discriminate].
    destruct (wf_edge_nodes o u v l Hw Eo) as (Hou & Hov).
    split; [apply (P2 u Hu); exact Hou|apply (P2 v Hv); exact Hov].
  - set (newl := filter (fun n => negb (has_node its n)) (nodes o)) in *.
    assert (Hnewl : forall n, In n newl <-> has_node o n = true /\ has_node its n = false).
    { intros n. unfold newl. rewrite filter_In, has_node_In, negb_true_iff. reflexivity. }
    destruct ih.
    + apply andb_true_iff in Hnew. destruct Hnew as (Hmax & Hmatch).
      destruct (match_hyd_sound o newl _ Hmatch) as (cuts & Hperm & HF).
      unfold cut_list in Hperm. cbv zeta in Hperm.
      set (unr := filter (fun n => negb (zmem n (ctx_nodes its r))) (nodes its)) in *.
      assert (Hunr : forall u, In u unr <-> has_node its u = true /\ ~ in_ctx its r u).
      { intros u. unfold unr. rewrite filter_In, has_node_In, negb_true_iff. split.
        - intros (Hu & Hz). split; [exact Hu|]. intros Hc. apply HK in Hc. congruence.
        - intros (Hu & Hc). split; [exact Hu|]. destruct (zmem u (ctx_nodes its r)) eqn:Ez; [|reflexivity].
          exfalso. apply Hc. apply HK. exact Ez. }
      exists newl, cuts. split; [|split; [|split; [|split; [|split]]]].
      * unfold newl. apply NoDup_filter. apply Hw.
      * exact Hnewl.
      * eapply Permutation_NoDup; [exact Hperm|]. apply cuts_of_NoDup.
        -- unfold unr. apply NoDup_filter. apply Hwf.
        -- intros u. apply Hwf.
      * intros u v. split.
        -- intros Hin. apply (Permutation_in _ (Permutation_sym Hperm)) in Hin.
           apply in_cuts_of in Hin. destruct Hin as (Hu & Hn & Hv). apply Hunr in Hu.
           destruct Hu as (Hu & Hcu). apply in_neighbors_has_edge in Hn.
           split; [exact Hu|]. split; [exact Hcu|]. split; [|exact Hn].
           assert (Hnv : has_node its v = true) by (eapply has_edge_tgt; eauto).
           destruct (zmem v (ctx_nodes its r)) eqn:Ez; [apply HK; exact Ez|].
           exfalso. apply Hv. apply Hunr. split; [exact Hnv|]. intros Hc. apply HK in Hc. congruence.
        -- intros (Hu & Hcu & Hcv & He). apply (Permutation_in _ Hperm). apply in_cuts_of.
           split; [apply Hunr; split; assumption|]. split; [apply in_neighbors_has_edge; exact He|].
           intros Hv. apply Hunr in Hv. destruct Hv as (_ & Hv). contradiction.
      * clear -HF. induction HF as [|n c l1 l2 (Ha & Hadj) _ IHF]; constructor; [|exact IHF].
        split; [exact Ha|]. intros w. unfold edge_label. rewrite Hadj. simpl. reflexivity.
      * intros n m Hn Hm. destruct (nodes its) as [|x t] eqn:En; [discriminate|].
        rewrite forallb_forall in Hmax. specialize (Hmax n Hn). apply Z.ltb_lt in Hmax.
        apply has_node_In in Hm. rewrite En in Hm.
        destruct Hm as [<-|Hm]; [pose proof (zmax_list_ge x t); lia|].
        pose proof (zmax_list_In x t m Hm). lia.
    + intros n Hn. destruct (has_node its n) eqn:Hi; [reflexivity|]. exfalso.
      assert (Hin : In n newl) by (apply Hnewl; split; assumption).
      destruct newl; [destruct Hin|discriminate].
Qed.

Theorem prune_okb_sound its r ih out :
  wf its -> prune_okb its r ih out = true ->
  match out with
  | Ok o => prune_spec its r ih o
  | Err TypeError => exists u v l, edge_label its u v = Some l /\ lab_differs l = None
  | Err KeyError => exists n, rc_node its n /\ sym_of its n = None
  | Err NetworkXError => nodes its = []
  | Err ValueError => False
  end.
Proof.
  intros Hwf H. destruct out as [o|[| | |]]; simpl in H; try discriminate.
  - apply prune_graph_okb_sound; assumption.
  - apply has_scalar_label_sound; assumption.
  - apply has_bare_rc_node_sound; assumption.
  - destruct (nodes its); [reflexivity|discriminate].
Qed.
