(** Soundness of the decidable C05 checker (Spec/QuerySpec.v): what a passing check says, first as
    a plain reflection of its clauses, then with "witnessed" unfolded to the existence of pair lists
    accepted by [is_embedding] (exactness of the reference search, Proofs/EmbSearchProofs.v). *)
From Coq Require Import ZArith List Bool String Lia Permutation Sorted.
From FGV Require Import Base.Util Base.UtilFacts Base.StrMap Base.Bond Base.NX Base.NXFacts Base.Sym
                        Model.Permute Model.Match Model.Hydrogens Model.FGTree Model.Query
                        Spec.Embedding Spec.EmbSearch Spec.FGCheck Spec.QuerySpec
                        Proofs.SortFacts Proofs.EmbSearchProofs Proofs.QueryProofs.
Import ListNotations.
Open Scope Z_scope.

Lemma strictly_increasing_sorted l : strictly_increasing l = true -> StronglySorted Z.lt l.
Proof.
  induction l as [|x t IH]; simpl; [constructor|].
  destruct t as [|y t'].
  - intros _. constructor; constructor.
  - rewrite andb_true_iff, Z.ltb_lt. intros [Hxy Ht]. specialize (IH Ht).
    constructor; auto. inversion IH as [|? ? Hs Hall]; subst.
    constructor; auto. rewrite Forall_forall in *. intros z Hz. specialize (Hall z Hz). lia.
Qed.

Lemma find_index_name nm : forall l k i, find_index nm l k = Some i ->
  exists j, i = (k + j)%nat /\ forall nd', nth_error l j = Some nd' -> nm = fg_name (n_cfg nd').
Proof.
  induction l as [|x t IH]; intros k i H; simpl in H; [discriminate|].
  destruct (String.eqb (fg_name (n_cfg x)) nm) eqn:E.
  - inversion H; subst. exists 0%nat. split; [lia|]. intros nd' [= <-]. symmetry. apply String.eqb_eq. exact E.
  - destruct (IH _ _ H) as [j [Hj Hn]]. exists (S j). split; [lia|]. exact Hn.
Qed.

Lemma indices_named_name nm : forall l k i, In i (indices_named nm l k) ->
  exists j, i = (k + j)%nat /\ forall nd', nth_error l j = Some nd' -> nm = fg_name (n_cfg nd').
Proof.
  induction l as [|x t IH]; intros k i H; simpl in H; [destruct H|].
  destruct (String.eqb (fg_name (n_cfg x)) nm) eqn:E.
  - destruct H as [<-|H].
    + exists 0%nat. split; [lia|]. intros nd' [= <-]. symmetry. apply String.eqb_eq. exact E.
    + destruct (IH _ _ H) as [j [Hj Hn]]. exists (S j). split; [lia|]. exact Hn.
  - destruct (IH _ _ H) as [j [Hj Hn]]. exists (S j). split; [lia|]. exact Hn.
Qed.

(** * "witnessed" in terms of is_embedding *)
Section WitnessExact.
  Variable w : option string.
  Variable ic : bool.
  Variable G : graph.
  Variable max_id : Z.

  Definition EmbOn (P : graph) (a pa : Z) (Q : list (Z * Z) -> Prop) : Prop :=
    exists m, is_embedding w ic G a P pa m = true /\ Q m.

  Lemma image_atoms_perm c a pa m m' :
    Permutation m m' -> is_embedding w ic G a (fg_pattern c) pa m = true ->
    image_atoms max_id c m = image_atoms max_id c m'.
  Proof.
    intros Hp He. unfold image_atoms, sort_ids.
    set (F := fun hp : Z * Z => zmem (snd hp) (fg_group_atoms c) && (fst hp <=? max_id)).
    assert (Hnd : NoDup (map fst (filter F m))).
    { unfold is_embedding in He. rewrite !andb_true_iff in He.
      destruct He as [[[[[[_ H2] _] _] _] _] _]. apply nodupb_NoDup in H2.
      clear -H2. induction m as [|[h p] t IH]; simpl; [constructor|].
      simpl in H2. inversion H2 as [|? ? Hn Ht]; subst. destruct (F (h, p)); simpl; auto.
      constructor; auto. intros Hin. apply Hn. apply in_map_iff in Hin. destruct Hin as [[h' p'] [E Hin]].
      simpl in E. subst h'. apply filter_In in Hin. apply in_map_iff. exists (h, p'). split; auto. apply Hin. }
    apply (sorted_asc_permutation_invariant Z.ltb Zltb_irrefl Zltb_trans); auto.
    - intros x y _ _. destruct (Z.lt_total x y) as [H1|[H1|H1]]; auto; right; [left|right]; apply Z.ltb_lt; exact H1.
    - apply Permutation_map. clear -Hp. induction Hp; simpl; auto.
      + destruct (F x); auto.
      + destruct (F x), (F y); auto. apply perm_swap.
      + etransitivity; eauto.
  Qed.

  Lemma pattern_onb_exact c a (Q : list (Z * Z) -> bool) :
    NoDup (nodes (fg_pattern c)) ->
    (forall pa m m', Permutation m m' -> is_embedding w ic G a (fg_pattern c) pa m = true -> Q m = Q m') ->
    (pattern_onb w ic G c a Q = true <->
     exists pa, In pa (fg_group_atoms c) /\ In pa (nodes (fg_pattern c)) /\
                EmbOn (fg_pattern c) a pa (fun m => Q m = true)).
  Proof.
    intros HP HQ. unfold pattern_onb. rewrite anyb_exists. unfold group_nodes. split.
    - intros [pa [Hpa He]]. apply filter_In in Hpa. destruct Hpa as [Hg Hn]. apply zmem_In in Hn.
      apply (anchored_embb_exact w ic G (fg_pattern c) Q a pa HP (HQ pa)) in He.
      exists pa. auto.
    - intros [pa [Hg [Hn He]]]. exists pa. split; [apply filter_In; split; auto; apply zmem_In; exact Hn|].
      apply (anchored_embb_exact w ic G (fg_pattern c) Q a pa HP (HQ pa)). exact He.
  Qed.

  Lemma anti_onb_exact c a :
    (forall ap, In ap (fg_anti c) -> NoDup (nodes ap)) ->
    (anti_onb w ic G c a = true <->
     exists ap pa, In ap (fg_anti c) /\ In pa (nodes ap) /\ EmbOn ap a pa (fun _ => True)).
  Proof.
    intros Hnd. unfold anti_onb. rewrite anyb_exists. split.
    - intros [ap [Hap H]]. apply anyb_exists in H. destruct H as [pa [Hpa He]].
      apply (anchored_embb_exact w ic G ap (fun _ => true) a pa (Hnd ap Hap) (fun _ _ _ _ => eq_refl)) in He.
      destruct He as [m [Hm _]]. exists ap, pa. split; auto. split; auto. exists m. auto.
    - intros [ap [pa [Hap [Hpa [m [Hm _]]]]]]. exists ap. split; auto. apply anyb_exists. exists pa. split; auto.
      apply (anchored_embb_exact w ic G ap (fun _ => true) a pa (Hnd ap Hap) (fun _ _ _ _ => eq_refl)). exists m. auto.
  Qed.

  (* the declarative reading of the checker's "witnessed on a, listing exactly atoms" *)
  Definition WitnessedB (c : fgconfig) (a : Z) (atoms : option (list Z)) : Prop :=
    (exists pa, In pa (fg_group_atoms c) /\ In pa (nodes (fg_pattern c)) /\
                EmbOn (fg_pattern c) a pa
                      (fun m => match atoms with Some l => image_atoms max_id c m = l | None => True end))
    /\ ~ (exists ap pa, In ap (fg_anti c) /\ In pa (nodes ap) /\ EmbOn ap a pa (fun _ => True)).

  Lemma list_eqb_Z x y : list_eqb Z.eqb x y = true <-> x = y.
  Proof.
    revert y. induction x as [|a t IH]; intros [|b t']; simpl; try (split; [discriminate|congruence]); [tauto|].
    rewrite andb_true_iff, Z.eqb_eq, IH. split; [intros [-> ->]; reflexivity|intros [= -> ->]; auto].
  Qed.

  Definition cfg_nodup (c : fgconfig) : Prop :=
    NoDup (nodes (fg_pattern c)) /\ forall ap, In ap (fg_anti c) -> NoDup (nodes ap).

  Lemma witnessedb_exact c a : cfg_nodup c -> (witnessedb w ic G c a = true <-> WitnessedB c a None).
  Proof.
    intros [HP HA]. unfold witnessedb, WitnessedB.
    pose proof (pattern_onb_exact c a (fun _ => true) HP (fun _ _ _ _ _ => eq_refl)) as H1.
    pose proof (anti_onb_exact c a HA) as H2.
    destruct (pattern_onb w ic G c a (fun _ => true)) eqn:E1.
    - rewrite negb_true_iff. destruct (anti_onb w ic G c a) eqn:E2.
      + split; [discriminate|]. intros [_ Hn]. exfalso. apply Hn. apply H2. reflexivity.
      + split; auto. intros _. split.
        * destruct (proj1 H1 eq_refl) as [pa [Hg [Hn [m [Hm _]]]]]. exists pa. split; auto. split; auto. exists m. auto.
        * intros H. apply H2 in H. discriminate.
    - split; [discriminate|]. intros [[pa [Hg [Hn [m [Hm _]]]]] _].
      assert (false = true) by (apply H1; exists pa; split; auto; split; auto; exists m; auto).
      discriminate.
  Qed.

  Lemma witnessed_withb_exact c a atoms :
    cfg_nodup c -> (witnessed_withb w ic G max_id c a atoms = true <-> WitnessedB c a (Some atoms)).
  Proof.
    intros [HP HA]. unfold witnessed_withb, WitnessedB.
    set (Q := fun m => list_eqb Z.eqb (image_atoms max_id c m) atoms).
    assert (HQ : forall pa m m', Permutation m m' -> is_embedding w ic G a (fg_pattern c) pa m = true -> Q m = Q m').
    { intros pa m m' Hp He. unfold Q. rewrite (image_atoms_perm c a pa m m' Hp He). reflexivity. }
    pose proof (pattern_onb_exact c a Q HP HQ) as H1.
    pose proof (anti_onb_exact c a HA) as H2.
    destruct (pattern_onb w ic G c a Q) eqn:E1.
    - rewrite negb_true_iff. destruct (anti_onb w ic G c a) eqn:E2.
      + split; [discriminate|]. intros [_ Hn]. exfalso. apply Hn. apply H2. reflexivity.
      + split; auto. intros _. split.
        * destruct (proj1 H1 eq_refl) as [pa [Hg [Hn [m [Hm HQm]]]]]. exists pa. split; auto. split; auto.
          exists m. split; auto. apply list_eqb_Z. exact HQm.
        * intros H. apply H2 in H. discriminate.
    - split; [discriminate|]. intros [[pa [Hg [Hn [m [Hm HQm]]]]] _].
      assert (false = true).
      { apply H1. exists pa. split; auto. split; auto. exists m. split; auto. apply list_eqb_Z. exact HQm. }
      discriminate.
  Qed.
End WitnessExact.

(** * reflection of the checker's clauses *)
Section CheckSound.
  Variable w : option string.
  Variable ic : bool.
  Variable full : bool.
  Variable tr : tree (A := fgconfig).
  Variable g G : graph.
  Variable max_id : Z.

  Hypothesis tree_nodup : forall i nd, nth_error (t_nodes tr) i = Some nd -> cfg_nodup (n_cfg nd).

  Definition more_specific (i : nat) : list nat :=
    if full then descendants (List.length (t_nodes tr)) (t_nodes tr) i else children_of (t_nodes tr) i.

  Definition node_WitnessedB (i : nat) (a : Z) : Prop :=
    exists nd, nth_error (t_nodes tr) i = Some nd /\ WitnessedB w ic G max_id (n_cfg nd) a None.

  Lemma node_witnessedb_exact i a :
    node_witnessedb w ic tr G i a = true <-> node_WitnessedB i a.
  Proof.
    unfold node_witnessedb, cfg_at, ns, node_WitnessedB.
    destruct (nth_error (t_nodes tr) i) as [nd|] eqn:E; simpl.
    - rewrite (witnessedb_exact w ic G max_id (n_cfg nd) a (tree_nodup _ _ E)). split.
      + intros H. exists nd. auto.
      + intros [nd' [[= <-] H]]. exact H.
    - split; [discriminate|]. intros [nd' [H _]]. discriminate.
  Qed.

  Theorem result_okb_sound r :
    result_okb w ic full tr g G max_id r = true ->
    (forall e, In e r ->
       exists i nd a,
         nth_error (t_nodes tr) i = Some nd /\ fst e = fg_name (n_cfg nd) /\
         StronglySorted Z.lt (snd e) /\ (forall x, In x (snd e) -> In x (nodes g)) /\
         In a (snd e) /\ is_candidate g a = true /\
         WitnessedB w ic G max_id (n_cfg nd) a (Some (snd e)) /\
         forall d, In d (more_specific i) -> ~ node_WitnessedB d a)
    /\ (forall a rt, In a (fg_candidates g) -> In rt (t_roots tr) -> node_WitnessedB rt a ->
                     exists e, In e r /\ In a (snd e)).
  Proof.
    unfold result_okb, covering_okb. rewrite andb_true_iff, !forallb_forall. intros [Hent Hcov]. split.
    - intros [nm atoms] He. specialize (Hent _ He). unfold entry_okb in Hent.
      rewrite !andb_true_iff in Hent. destruct Hent as [[Hs Hn] Hany].
      apply anyb_exists in Hany. destruct Hany as [i [Hi Ha]]. unfold entry_node_okb in Ha.
      unfold cfg_at, ns in Ha. destruct (nth_error (t_nodes tr) i) as [nd|] eqn:End; simpl in Ha; [|discriminate].
      apply anyb_exists in Ha. destruct Ha as [a [Hain Ha]].
      destruct (is_candidate g a) eqn:Ec; [|discriminate].
      destruct (witnessed_withb w ic G max_id (n_cfg nd) a atoms) eqn:Ew; [|discriminate].
      apply negb_true_iff in Ha.
      exists i, nd, a. split; [exact End|]. split.
      { destruct (indices_named_name nm (t_nodes tr) 0%nat i Hi) as [j [Hj Hnm]]. simpl in Hj. subst j.
        simpl. apply Hnm. exact End. }
      split; [apply strictly_increasing_sorted; exact Hs|]. split.
      { rewrite forallb_forall in Hn. intros x Hx. apply zmem_In. apply Hn. exact Hx. }
      split; [exact Hain|]. split; [exact Ec|]. split.
      { apply (witnessed_withb_exact w ic G max_id (n_cfg nd) a atoms (tree_nodup _ _ End)). exact Ew. }
      intros d Hd Hw. apply node_witnessedb_exact in Hw.
      assert (anyb (fun d => node_witnessedb w ic tr G d a) (more_specific i) = true).
      { apply anyb_exists. exists d. auto. }
      unfold more_specific, ns in *. congruence.
    - intros a rt Ha Hrt Hw. specialize (Hcov a Ha).
      assert (E : anyb (fun i => node_witnessedb w ic tr G i a) (t_roots tr) = true).
      { apply anyb_exists. exists rt. split; auto. apply node_witnessedb_exact. exact Hw. }
      rewrite E in Hcov. apply anyb_exists in Hcov. destruct Hcov as [e [He Hz]]. exists e. split; auto.
      apply zmem_In. exact Hz.
  Qed.
End CheckSound.

(** * the checker as run on implementation outputs *)
Theorem C05_tree_okb_sound full mp tr req_h g r :
  (forall i nd, nth_error (t_nodes tr) i = Some nd -> cfg_nodup (n_cfg nd)) ->
  has_symsb g = true ->
  C05_tree_okb full mp (Good tr) req_h g (Good r) = true ->
  (nodes g = [] /\ r = [] /\ req_h = false) \/
  exists G max_id,
    (if req_h then add_implicit_hydrogens g = Some G else G = g) /\
    In max_id (nodes g) /\ (forall x, In x (nodes g) -> x <= max_id) /\
    (forall e, In e r ->
       exists i nd a,
         nth_error (t_nodes tr) i = Some nd /\ fst e = fg_name (n_cfg nd) /\
         StronglySorted Z.lt (snd e) /\ (forall x, In x (snd e) -> In x (nodes g)) /\
         In a (snd e) /\ is_candidate g a = true /\
         WitnessedB (m_wildcard mp) (m_ignore_case mp) G max_id (n_cfg nd) a (Some (snd e)) /\
         forall d, In d (more_specific full tr i) ->
                   ~ node_WitnessedB (m_wildcard mp) (m_ignore_case mp) tr G max_id d a)
    /\ (forall a rt, In a (fg_candidates g) -> In rt (t_roots tr) ->
                     node_WitnessedB (m_wildcard mp) (m_ignore_case mp) tr G max_id rt a ->
                     exists e, In e r /\ In a (snd e)).
Proof.
  intros Hnd Hs H. unfold C05_tree_okb in H. rewrite Hs in H. simpl in H.
  destruct (nodes g) as [|x t] eqn:En.
  - left. apply andb_true_iff in H. destruct H as [H1 H2]. apply negb_true_iff in H1.
    destruct r; [auto|discriminate].
  - right.
    assert (Hmem : In (zmax_list x t) (x :: t)).
    { destruct (zmax_list_mem t x) as [->|Hm]; [left; reflexivity|right; exact Hm]. }
    assert (Hle : forall y, In y (x :: t) -> y <= zmax_list x t).
    { intros y [<-|Hy]; [apply zmax_list_ge|apply zmax_list_In; exact Hy]. }
    destruct req_h.
    + destruct (add_implicit_hydrogens g) as [G|] eqn:EG; [|discriminate].
      exists G, (zmax_list x t). split; [reflexivity|]. split; [exact Hmem|]. split; [exact Hle|].
      rewrite <- En. apply (result_okb_sound _ _ full tr g G _ Hnd r H).
    + exists g, (zmax_list x t). split; [reflexivity|]. split; [exact Hmem|]. split; [exact Hle|].
      rewrite <- En. apply (result_okb_sound _ _ full tr g g _ Hnd r H).
Qed.
