(** C05 on the model: every entry returned by the query is justified, most specific with respect
    to the children of its node, and the answer is covering.  The two facts about the sub-graph
    matcher (C03, C04) and three facts about hydrogen completion (C12) are hypotheses of the
    Section; they are the statements proved by the owners of Model/Match.v and Model/Hydrogens.v. *)
From Coq Require Import ZArith List Bool String Lia Permutation Sorted.
From FGV Require Import Base.Util Base.UtilFacts Base.StrMap Base.Bond Base.NX Base.NXFacts Base.Sym
                        Model.Permute Model.Match Model.Hydrogens Model.FGTree Model.Query
                        Spec.Embedding Spec.EmbSearch Spec.FGCheck Spec.QuerySpec
                        Proofs.SortFacts Proofs.QueryModelFacts.
Import ListNotations.
Open Scope Z_scope.

(** * small facts *)
Lemma pair_fun_In m p h : pair_fun m p = Some h -> In (h, p) m.
Proof.
  unfold pair_fun. destruct (find (fun hp => snd hp =? p) m) as [[h' p']|] eqn:E; simpl; [|discriminate].
  intros [= <-]. apply find_some in E. destruct E as [Hin Hp]. simpl in Hp. apply Z.eqb_eq in Hp. subst p'. exact Hin.
Qed.

Lemma pair_fun_NoDup m p h : NoDup (map snd m) -> In (h, p) m -> pair_fun m p = Some h.
Proof.
  unfold pair_fun. induction m as [|[h' p'] t IH]; intros Hnd Hin; [destruct Hin|].
  simpl in *. inversion Hnd as [|? ? Hn Ht]; subst.
  destruct (Z.eqb_spec p' p) as [->|Hne].
  - destruct Hin as [E|Hin]; [inversion E; reflexivity|].
    exfalso. apply Hn. apply in_map_iff. exists (h, p). auto.
  - destruct Hin as [E|Hin]; [inversion E; congruence|]. apply IH; auto.
Qed.

Lemma NoDup_fst_unique (m : list (Z * Z)) h p q : NoDup (map fst m) -> In (h, p) m -> In (h, q) m -> p = q.
Proof.
  induction m as [|[h' p'] t IH]; intros Hnd H1 H2; [destruct H1|].
  simpl in Hnd. inversion Hnd as [|? ? Hn Ht]; subst.
  destruct H1 as [E1|H1], H2 as [E2|H2].
  - congruence.
  - inversion E1; subst. exfalso. apply Hn. apply in_map_iff. exists (h, q). auto.
  - inversion E2; subst. exfalso. apply Hn. apply in_map_iff. exists (h, p). auto.
  - eauto.
Qed.

Lemma sym_of_In g n s : sym_of g n = Some s -> In n (nodes g).
Proof.
  unfold sym_of, node_attr. destruct (alookup n g) as [[a ad]|] eqn:E; [|discriminate].
  intros _. apply alookup_Some_key in E. exact E.
Qed.

Lemma zmax_list_mem : forall l d, zmax_list d l = d \/ In (zmax_list d l) l.
Proof.
  induction l as [|x t IH]; intros d; simpl; auto.
  destruct (IH (Z.max d x)) as [H|H]; auto.
  rewrite H. destruct (Z.max_spec d x) as [[_ ->]|[_ ->]]; auto.
Qed.

Lemma wf_wfb g : wf g -> wfb g = true.
Proof.
  intros Hwf. pose proof Hwf as [Hnd [Had Hsym]]. unfold wfb. apply andb_true_iff. split.
  - apply nodupb_NoDup. exact Hnd.
  - apply forallb_forall. intros [n [a ad]] Hin. simpl.
    pose proof (In_entry_adj g n a ad Hnd Hin) as Eadj.
    apply andb_true_iff. split.
    + apply nodupb_NoDup. rewrite <- Eadj. apply Had.
    + apply forallb_forall. intros [v l] Hv.
      assert (E : edge_label g n v = Some l) by (apply In_adj_edge_label; [exact Hwf|rewrite Eadj; exact Hv]).
      rewrite (Hsym _ _ _ E). simpl. apply label_eqb_refl.
Qed.

Lemma Zltb_irrefl a : Z.ltb a a = false.
Proof. apply Z.ltb_irrefl. Qed.
Lemma Zltb_trans a b c : Z.ltb a b = true -> Z.ltb b c = true -> Z.ltb a c = true.
Proof. rewrite !Z.ltb_lt. lia. Qed.

Lemma sort_ids_In l x : In x (sort_ids l) <-> In x l.
Proof. unfold sort_ids. split; apply Permutation_in; [|symmetry]; apply sorted_asc_perm. Qed.

Lemma sort_ids_sorted l : NoDup l -> StronglySorted Z.lt (sort_ids l).
Proof.
  intros Hnd. unfold sort_ids.
  pose proof (sorted_asc_sorted Z.ltb Zltb_trans l Hnd) as H.
  assert (Ht : total_on Z.ltb l).
  { intros a b _ _. destruct (Z.lt_total a b) as [H1|[H1|H1]]; auto; right; [left|right]; apply Z.ltb_lt; exact H1. }
  specialize (H Ht). clear -H.
  induction H as [|x t Hs IH Hall]; constructor; auto.
  rewrite Forall_forall in *. intros y Hy. apply Z.ltb_lt. apply Hall. exact Hy.
Qed.

Lemma fg_indices_In ga mx pairs x :
  In x (fg_indices_of ga mx pairs) <-> exists p, In (x, p) pairs /\ In p ga /\ x <= mx.
Proof.
  unfold fg_indices_of. rewrite in_map_iff. split.
  - intros [[h p] [E Hin]]. simpl in E. subst h. apply filter_In in Hin. destruct Hin as [Hin Hc].
    apply andb_true_iff in Hc. destruct Hc as [Hg Hm]. exists p. split; auto. split; [apply zmem_In; exact Hg|apply Z.leb_le; exact Hm].
  - intros [p [Hin [Hg Hm]]]. exists (x, p). split; auto. apply filter_In. split; auto.
    apply andb_true_iff. split; [apply zmem_In; exact Hg|apply Z.leb_le; exact Hm].
Qed.

Lemma fg_indices_NoDup ga mx pairs : NoDup (map fst pairs) -> NoDup (fg_indices_of ga mx pairs).
Proof.
  unfold fg_indices_of. induction pairs as [|[h p] t IH]; simpl; intros Hnd; [constructor|].
  inversion Hnd as [|? ? Hn Ht]; subst.
  destruct (zmem p ga && (h <=? mx)); simpl; auto. constructor; auto.
  intros Hin. apply Hn. apply in_map_iff in Hin. destruct Hin as [[h' p'] [E Hin]]. simpl in E. subst h'.
  apply filter_In in Hin. apply in_map_iff. exists (h, p'). split; auto. apply Hin.
Qed.

Section C05.
  Variable w : option string.
  Variable ic : bool.
  Let mp := mk_mapper w ic [].

  (** the facts taken from the matcher (Props/C03.v: C03, Props/C04.v: C04_sound) *)
  Hypothesis match_complete : forall G P, wfb G = true -> wfb P = true ->
    forall a pa f, has_syms G -> Embedding w ic G a P pa f ->
    exists pairs vis, map_anchored_subgraph G P mp a pa = Ok (true, pairs, vis).
  Hypothesis match_sound : forall G P, wfb G = true -> wfb P = true ->
    forall a pa pairs vis, connected_from P pa ->
    map_anchored_subgraph G P mp a pa = Ok (true, pairs, vis) ->
    (NoDup (map snd pairs) /\ NoDup (map fst pairs) /\ forall p, In p (map snd pairs) <-> In p (nodes P))
    /\ Embedding w ic G a P pa (pair_fun pairs).

  (** the facts taken from hydrogen completion (Props/C12.v: C12_wf, C12_fresh; symbols are kept
      and new nodes carry "H": consequence of C12_preserve and C12_new_nodes) *)
  Hypothesis hyd_wf : forall g g', wf g -> add_implicit_hydrogens g = Some g' -> wf g'.
  Hypothesis hyd_fresh : forall g g', wf g -> add_implicit_hydrogens g = Some g' ->
    NoDup (nodes g') /\
    forall h, has_node g' h = true -> has_node g h = false -> forall k, has_node g k = true -> k < h.
  Hypothesis hyd_syms : forall g g', wf g -> has_syms g -> add_implicit_hydrogens g = Some g' -> has_syms g'.

  (** ** is_functional_group against the declarative notions *)
  Section OneGroup.
    Variable G : graph.
    Variable a : Z.
    Variable c : fgconfig.
    Variable mx : Z.
    Hypothesis HG : wfb G = true.
    Hypothesis HGs : has_syms G.
    Hypothesis Hc : cfg_ok c.
    Hypothesis Ha : a <= mx.

    Lemma c_pattern_nonempty : fg_pattern c <> [].
    Proof. exact (proj1 (proj1 Hc)). Qed.
    Lemma c_antis_nonempty : forall ap, In ap (fg_anti c) -> ap <> [].
    Proof. intros ap H. exact (proj1 (proj2 Hc ap H)). Qed.

    Lemma ifg_true_sem idx :
      is_functional_group mp G a c (Some mx) = Good (true, idx) ->
      PatternOnWith w ic G mx c a idx /\ ~ AntiOn w ic G c a /\ StronglySorted Z.lt idx /\ In a idx /\
      (forall x, In x idx -> In x (nodes G) /\ x <= mx).
    Proof.
      intros H. destruct (ifg_true mp G a c mx c_pattern_nonempty c_antis_nonempty idx H)
        as [[pa [pairs [Hpa [[vis Hvis] [-> Hin]]]]] Hanti].
      destruct Hc as [[_ [HwfP HconP]] Hantis].
      destruct (match_sound G (fg_pattern c) HG HwfP a pa pairs vis (HconP pa Hpa) Hvis) as [[Hnd2 [Hnd1 Hcov]] Hemb].
      assert (Hapa : In (a, pa) pairs) by (apply pair_fun_In; apply Hemb).
      apply (proj1 (fg_indices_In _ _ _ _)) in Hin. destruct Hin as [p [Hp [Hpg _]]].
      assert (p = pa) by (eapply NoDup_fst_unique; eauto). subst p.
      split; [|split; [|split; [|split]]].
      - exists pa, (pair_fun pairs). split; [exact Hpg|]. split; [exact Hemb|].
        intros x. rewrite sort_ids_In, fg_indices_In. unfold listed. split.
        + intros [p [Hxp [Hpg' Hx]]]. exists p. split; [apply Hcov; apply in_map_iff; exists (x, p); auto|].
          split; auto. split; auto. apply pair_fun_NoDup; auto.
        + intros [p [_ [Hpg' [Hf Hx]]]]. exists p. split; auto. apply pair_fun_In. exact Hf.
      - intros [ap [pa' [f [Hap Hf]]]].
        destruct (Hantis ap Hap) as [_ [Hwfap _]].
        destruct (match_complete G ap HG Hwfap a pa' f HGs Hf) as [pairs' [vis' E']].
        destruct (Hanti ap pa' Hap (proj1 (emb_anchor _ _ _ _ _ _ _ Hf))) as [pairs'' [vis'' E'']].
        rewrite E' in E''. discriminate.
      - apply sort_ids_sorted. apply fg_indices_NoDup. exact Hnd1.
      - apply sort_ids_In. apply fg_indices_In. exists pa. auto.
      - intros x Hx. apply (proj1 (sort_ids_In _ _)) in Hx. apply (proj1 (fg_indices_In _ _ _ _)) in Hx. destruct Hx as [p [Hxp [_ Hx]]].
        split; auto.
        assert (Hpn : In p (nodes (fg_pattern c))) by (apply Hcov; apply in_map_iff; exists (x, p); auto).
        destruct (emb_adm _ _ _ _ _ _ _ Hemb p x Hpn (pair_fun_NoDup _ _ _ Hnd2 Hxp)) as [ps [s [_ [Hs _]]]].
        eapply sym_of_In; eauto.
    Qed.

    Lemma ifg_false_sem idx :
      is_functional_group mp G a c (Some mx) = Good (false, idx) -> ~ Witnessed w ic G c a.
    Proof.
      intros H [[pa [f [Hpg Hf]]] Hna].
      destruct Hc as [[_ [HwfP HconP]] Hantis].
      destruct (ifg_false mp G a c mx c_pattern_nonempty c_antis_nonempty idx H) as [HA|[ap [pa' [pairs [Hap [Hpa' [vis Hvis]]]]]]].
      - destruct (match_complete G (fg_pattern c) HG HwfP a pa f HGs Hf) as [pairs [vis E]].
        pose proof (proj1 (emb_anchor _ _ _ _ _ _ _ Hf)) as Hpa.
        destruct (match_sound G (fg_pattern c) HG HwfP a pa pairs vis (HconP pa Hpa) E) as [_ Hemb].
        apply (HA pa pairs Hpa (ex_intro _ vis E)). apply fg_indices_In. exists pa. split; auto.
        apply pair_fun_In. apply Hemb.
      - destruct (Hantis ap Hap) as [_ [Hwfap Hconap]].
        destruct (match_sound G ap HG Hwfap a pa' pairs vis (Hconap pa' Hpa') Hvis) as [_ Hemb].
        apply Hna. exists ap, pa', (pair_fun pairs). auto.
    Qed.
  End OneGroup.

  (** ** the whole query *)
  Lemma ifg_max_none G a c mx :
    max_id_of G = Good mx -> is_functional_group mp G a c None = is_functional_group mp G a c (Some mx).
  Proof. intros H. unfold is_functional_group. rewrite H. reflexivity. Qed.

  Lemma candidate_spec g a : NoDup (nodes g) -> In a (fg_candidates g) -> is_candidate g a = true /\ In a (nodes g).
  Proof.
    intros Hnd Hin. unfold fg_candidates in Hin. apply in_map_iff in Hin.
    destruct Hin as [[n [at_ ad]] [E Hin]]. simpl in E. subst n. apply filter_In in Hin. destruct Hin as [Hin Hp].
    split.
    - unfold is_candidate. rewrite (NoDup_alookup a (at_, ad) g Hnd Hin). exact Hp.
    - unfold nodes. apply in_map_iff. exists (a, (at_, ad)). auto.
  Qed.

  Theorem query_justified tr req_h g r :
    wfb g = true -> has_syms g ->
    (forall i nd, nth_error (t_nodes tr) i = Some nd -> cfg_ok (n_cfg nd)) ->
    get_functional_groups_with mp tr req_h g = Good r ->
    C05_statement w ic tr req_h g r.
  Proof.
    intros Hwfb Hsyms Hcfgs H.
    pose proof (wfb_wf g Hwfb) as Hwf. pose proof Hwf as [Hnd _].
    unfold get_functional_groups_with in H.
    (* the lookup graph G, the option handed down, and the numeric bound *)
    assert (Hsetup : exists G max_opt mx,
               (if req_h then add_implicit_hydrogens g = Some G else G = g) /\
               (nodes g = [] \/ In mx (nodes g)) /\ (forall x, In x (nodes g) -> x <= mx) /\
               wfb G = true /\ has_syms G /\
               (forall x, In x (nodes G) -> x <= mx -> In x (nodes g)) /\
               (forall a c, In a (nodes g) -> is_functional_group mp G a c max_opt = is_functional_group mp G a c (Some mx)) /\
               worklist (S (List.length (fg_candidates g))) mp tr G max_opt (fg_candidates g) [] [] = Good r).
    { destruct req_h.
      - unfold max_id_of in H. destruct (nodes g) as [|x t] eqn:En; [discriminate|]. cbn [bind] in H.
        destruct (add_implicit_hydrogens g) as [G|] eqn:EG; cbn [bind] in H; [|discriminate].
        exists G, (Some (zmax_list x t)), (zmax_list x t).
        assert (Hmem : In (zmax_list x t) (x :: t)).
        { destruct (zmax_list_mem t x) as [->|Hm]; [left; reflexivity|right; exact Hm]. }
        assert (Hle : forall y, In y (x :: t) -> y <= zmax_list x t).
        { intros y [<-|Hy]; [apply zmax_list_ge|apply zmax_list_In; exact Hy]. }
        split; [reflexivity|]. split; [right; exact Hmem|]. split; [exact Hle|].
        split; [apply wf_wfb; eapply hyd_wf; eauto|]. split; [eapply hyd_syms; eauto|].
        split; [|split; [reflexivity|exact H]].
        intros y Hy Hym. destruct (hyd_fresh g G Hwf EG) as [_ Hfresh].
        destruct (has_node g y) eqn:Ehy; [rewrite <- En; apply has_node_In; exact Ehy|].
        exfalso. assert (Hlt : zmax_list x t < y).
        { apply (Hfresh y); auto; apply has_node_In; [exact Hy|rewrite En; exact Hmem]. }
        lia.
      - cbn [bind] in H. destruct (nodes g) as [|x t] eqn:En.
        + exists g, None, 0. split; [reflexivity|]. split; [left; reflexivity|]. split; [intros y []|].
          split; [exact Hwfb|]. split; [exact Hsyms|]. split; [intros y Hy _; rewrite En in Hy; exact Hy|].
          split; [intros a c []|exact H].
        + exists g, None, (zmax_list x t).
          assert (Hmem : In (zmax_list x t) (x :: t)).
          { destruct (zmax_list_mem t x) as [->|Hm]; [left; reflexivity|right; exact Hm]. }
          assert (Hle : forall y, In y (x :: t) -> y <= zmax_list x t).
          { intros y [<-|Hy]; [apply zmax_list_ge|apply zmax_list_In; exact Hy]. }
          split; [reflexivity|]. split; [right; exact Hmem|]. split; [exact Hle|].
          split; [exact Hwfb|]. split; [exact Hsyms|]. split; [intros y Hy _; rewrite <- En; exact Hy|].
          split; [|exact H]. intros a c _. apply ifg_max_none. unfold max_id_of. rewrite En. reflexivity. }
    clear H. destruct Hsetup as [G [max_opt [mx [HG [Hmx_in [Hmx_le [HGw [HGs [Hback [Hifg Hwl]]]]]]]]]].
    destruct (worklist_spec mp tr G max_opt (fun x => In x (fg_candidates g)) _ _ _ _ _ (fun x Hx => Hx) Hwl)
      as [_ [Hent Hcov]].
    exists G, mx. split; [exact HG|]. split; [exact Hmx_le|]. split; [exact Hmx_in|]. split.
    - (* entries *)
      intros e He. destruct (Hent e He) as [[]|[x [i [nd [Hx [Hfb [End [Hname Hxin]]]]]]]].
      destruct (candidate_spec g x Hnd Hx) as [Hcand Hxg].
      unfold FB in Hfb.
      destruct (find_best_spec mp (t_nodes tr) G x max_opt _ _ _ _ Hfb) as [[Hn _]|[j [Hj [Hfg [ndj [Endj Hch]]]]]]; [discriminate|].
      inversion Hj; subst j. rewrite End in Endj. inversion Endj; subst ndj.
      destruct Hfg as [nd' [End' Hfg]]. rewrite End in End'. inversion End'; subst nd'.
      rewrite (Hifg x (n_cfg nd) Hxg) in Hfg.
      destruct (ifg_true_sem G x (n_cfg nd) mx HGw HGs (Hcfgs _ _ End) (Hmx_le x Hxg) (snd e) Hfg) as [Hpw [Hna [Hso [Hxi Hnodes]]]].
      exists i, nd, x. split; [exact End|]. split; [exact Hname|]. split; [exact Hxin|]. split; [exact Hcand|].
      split; [exact Hpw|]. split; [exact Hna|]. split; [|split; [exact Hso|]].
      + intros c ndc Hc Endc. destruct (Hch c Hc) as [idx [ndc' [Endc' Hfalse]]].
        rewrite Endc in Endc'. inversion Endc'; subst ndc'.
        rewrite (Hifg x (n_cfg ndc) Hxg) in Hfalse.
        exact (ifg_false_sem G x (n_cfg ndc) mx HGw HGs (Hcfgs _ _ Endc) (Hmx_le x Hxg) idx Hfalse).
      + intros y Hy. destruct (Hnodes y Hy) as [Hy1 Hy2]. apply Hback; assumption.
    - (* coverage *)
      intros a rt nd Ha Hrt End Hwit.
      destruct (Hcov a Ha) as [[ind Hfb]|He]; [|exact He]. exfalso.
      destruct (candidate_spec g a Hnd Ha) as [_ Hag].
      unfold FB in Hfb.
      destruct (find_best_spec mp (t_nodes tr) G a max_opt _ _ _ _ Hfb) as [[_ Hall]|[j [Hj _]]]; [|discriminate].
      destruct (Hall rt Hrt) as [idx [nd' [End' Hfalse]]]. rewrite End in End'. inversion End'; subst nd'.
      rewrite (Hifg a (n_cfg nd) Hag) in Hfalse.
      exact (ifg_false_sem G a (n_cfg nd) mx HGw HGs (Hcfgs _ _ End) (Hmx_le a Hag) idx Hfalse Hwit).
  Qed.

  (** ** the tree built from a configuration list only contains configurations of the list *)
  Lemma Forall_update_nth {B} (P : B -> Prop) (f : B -> B) l i :
    Forall P l -> (forall x, P x -> P (f x)) -> Forall P (update_nth i f l).
  Proof.
    intros H Hf. revert i. induction H as [|x t Hx Ht IH]; intros [|i]; simpl; constructor; auto.
  Qed.

  Lemma add_child_cfgs {A} (kltb : A -> A -> bool) (P : A -> Prop) ns p c :
    Forall (fun nd => P (n_cfg nd)) ns -> Forall (fun nd => P (n_cfg nd)) (add_child kltb ns p c).
  Proof.
    intros H. unfold add_child. apply Forall_update_nth; [apply Forall_update_nth; auto|]; intros x Hx; exact Hx.
  Qed.

  Lemma fold_add_child_cfgs {A} (kltb : A -> A -> bool) (P : A -> Prop) k : forall ps ns,
    Forall (fun nd => P (n_cfg nd)) ns ->
    Forall (fun nd => P (n_cfg nd)) (fold_left (fun acc p => add_child kltb acc p k) ps ns).
  Proof.
    induction ps as [|p ps' IHp]; intros ns H0; simpl; auto.
    apply IHp. apply add_child_cfgs. exact H0.
  Qed.

  Lemma insert_node_cfgs {A} (sub : A -> A -> res bool) (kltb : A -> A -> bool) (P : A -> Prop) st c st' :
    Forall (fun nd => P (n_cfg nd)) (t_nodes st) -> P c ->
    insert_node sub kltb st c = Good st' -> Forall (fun nd => P (n_cfg nd)) (t_nodes st').
  Proof.
    intros Hst Hc E. unfold insert_node in E.
    destruct (search_parents sub (S (List.length (t_nodes st))) (t_nodes st) (t_roots st) c) as [ps|e] eqn:Es;
      simpl in E; [|discriminate].
    assert (H0 : Forall (fun nd => P (n_cfg nd)) ((t_nodes st ++ [mkNode c [] []])%list)).
    { apply Forall_app. split; auto. }
    destruct ps as [|p0 pt]; inversion E; subst; cbn [t_nodes]; auto.
    apply (fold_add_child_cfgs kltb P _ (p0 :: pt)). exact H0.
  Qed.

  Lemma insert_all_cfgs {A} (sub : A -> A -> res bool) (kltb : A -> A -> bool) (P : A -> Prop) :
    forall l st t, Forall (fun nd => P (n_cfg nd)) (t_nodes st) -> (forall c, In c l -> P c) ->
                   insert_all sub kltb st l = Good t -> Forall (fun nd => P (n_cfg nd)) (t_nodes t).
  Proof.
    induction l as [|c l' IH]; intros st t Hst Hl H; simpl in H.
    - inversion H; subst. exact Hst.
    - destruct (insert_node sub kltb st c) as [st'|e] eqn:E; simpl in H; [|discriminate].
      apply (IH st' t); auto.
      + eapply insert_node_cfgs; eauto. apply Hl. left. reflexivity.
      + intros c' Hc'. apply Hl. right. exact Hc'.
  Qed.

  Lemma build_tree_cfgs (l : list fgconfig) t :
    build_config_tree_from_list mp l = Good t -> forall i nd, nth_error (t_nodes t) i = Some nd -> In (n_cfg nd) l.
  Proof.
    intros H i nd E. unfold build_config_tree_from_list, build_tree in H.
    pose proof (insert_all_cfgs (is_subgroup mp) cfg_ltb (fun c => In c l) (sorted_asc cfg_ltb l) empty_tree t) as HF.
    assert (HFt : Forall (fun nd => In (n_cfg nd) l) (t_nodes t)).
    { apply HF; auto; [constructor|]. intros c Hc. eapply Permutation_in; [apply sorted_asc_perm|exact Hc]. }
    rewrite Forall_forall in HFt. apply HFt. eapply nth_error_In; eauto.
  Qed.

  (* the query of a fresh object *)
  Theorem query_justified_configs cfgs req_h g r :
    wfb g = true -> has_syms g -> (forall c, In c cfgs -> cfg_ok c) ->
    query mp cfgs req_h g = Good r ->
    exists tr, build_config_tree_from_list mp cfgs = Good tr /\
               (forall i nd, nth_error (t_nodes tr) i = Some nd -> In (n_cfg nd) cfgs) /\
               C05_statement w ic tr req_h g r.
  Proof.
    intros Hwfb Hsyms Hcfgs H. unfold query, get, get_tree, fresh_query in H. cbn [q_tree q_mapper q_configs q_req_h] in H.
    destruct (build_config_tree_from_list mp cfgs) as [tr|e] eqn:Eb; cbn [fst bind] in H; [|discriminate].
    exists tr. split; [reflexivity|]. split; [apply build_tree_cfgs; exact Eb|].
    apply query_justified; auto. intros i nd E. apply Hcfgs. eapply build_tree_cfgs; eauto.
  Qed.

  (** ** from "no child" to "no descendant" under the explicit hypothesis *)
  Theorem descendant_clause tr g G max_id e :
    entry_justified w ic tr g G max_id e ->
    (forall a, witness_path_closed w ic tr G a) ->
    entry_most_specific w ic tr G e.
  Proof.
    intros [i [nd [a [End [Hname [Ha [_ [Hpw [Hna [Hch _]]]]]]]]]] Hclosed.
    exists i, nd, a. split; [exact End|]. split; [exact Hname|]. split; [exact Ha|].
    intros d Hd Hwd.
    assert (Hwi : node_witnessed w ic tr G a i).
    { exists nd. split; [exact End|]. split; [|exact Hna].
      destruct Hpw as [pa [f [H1 [H2 _]]]]. exists pa, f. auto. }
    destruct (Hclosed a i d Hwi Hd Hwd) as [c [[nd' [End' Hc]] [ndc [Endc Hwc]]]].
    rewrite End in End'. inversion End'; subst nd'.
    exact (Hch c ndc Hc Endc Hwc).
  Qed.
End C05.
