(** generate_mapping_permutations (Model/Permute.v) returns exactly the injective, symbol-respecting
    position maps: [gen_sound] / [gen_complete], stated without any reference to permutations. *)
From Coq Require Import ZArith List Bool String Lia Permutation.
From FGV Require Import Base.Util Base.UtilFacts Base.Sym Model.Permute Spec.PermuteSpec Proofs.PermsFacts.
Import ListNotations.
Open Scope Z_scope.
Open Scope list_scope.

(** * generic helpers *)

Lemma Forall2_In_r {A B} (R : A -> B -> Prop) l l' y :
  Forall2 R l l' -> In y l' -> exists x, In x l /\ R x y.
Proof.
  induction 1 as [|a b l l' Hab H IH]; simpl; [tauto|].
  intros [<-|Hy]; [exists a; auto|]. destruct (IH Hy) as (x & Hx & Hr). exists x; auto.
Qed.

Lemma Forall2_In_l {A B} (R : A -> B -> Prop) l l' x :
  Forall2 R l l' -> In x l -> exists y, In y l' /\ R x y.
Proof.
  induction 1 as [|a b l l' Hab H IH]; simpl; [tauto|].
  intros [<-|Hx]; [exists b; auto|]. destruct (IH Hx) as (y & Hy & Hr). exists y; auto.
Qed.

Lemma Forall2_length {A B} (R : A -> B -> Prop) l l' : Forall2 R l l' -> List.length l = List.length l'.
Proof. induction 1; simpl; congruence. Qed.

Lemma Forall2_map_r {A B C} (R : A -> C -> Prop) (f : B -> C) l l' :
  Forall2 (fun a b => R a (f b)) l l' <-> Forall2 R l (map f l').
Proof.
  split.
  - induction 1; simpl; constructor; auto.
  - revert l. induction l' as [|b t IH]; intros l H; inversion H; subst; constructor; auto.
Qed.

Lemma Forall2_impl_In {A B} (R R' : A -> B -> Prop) l l' :
  (forall a b, In a l -> In b l' -> R a b -> R' a b) -> Forall2 R l l' -> Forall2 R' l l'.
Proof.
  intros Himp H. induction H as [|a b l l' Hab H IH]; constructor.
  - apply Himp; simpl; auto.
  - apply IH. intros a' b' Ha Hb. apply Himp; simpl; auto.
Qed.

(** * positions counted from i *)

Fixpoint zfrom (i : Z) (n : nat) : list Z :=
  match n with O => [] | S k => i :: zfrom (i + 1) k end.

Lemma zfrom_seq k n : zfrom (Z.of_nat k) n = map Z.of_nat (seq k n).
Proof.
  revert k. induction n as [|n IH]; intros k; simpl; [reflexivity|]. f_equal.
  rewrite <- IH. f_equal. lia.
Qed.

Lemma enumerate_zfrom {A} (l : list A) : enumerate l = combine (zfrom 0 (List.length l)) l.
Proof. unfold enumerate. rewrite <- (zfrom_seq 0). reflexivity. Qed.

Lemma zfrom_length i n : List.length (zfrom i n) = n.
Proof. revert i. induction n; intros i; simpl; auto. Qed.

Lemma enumerate_fst {A} (l : list A) : map fst (enumerate l) = map Z.of_nat (seq 0 (List.length l)).
Proof.
  unfold enumerate. set (ks := map Z.of_nat (seq 0 (List.length l))).
  assert (Hlen : List.length ks = List.length l) by (unfold ks; rewrite map_length, seq_length; reflexivity).
  clearbody ks. revert l Hlen. induction ks as [|k ks IH]; intros [|x l] Hlen; simpl in *; try lia; [reflexivity|].
  f_equal. apply IH. lia.
Qed.

Lemma enumerate_snd {A} (l : list A) : map snd (enumerate l) = l.
Proof.
  unfold enumerate. set (ks := map Z.of_nat (seq 0 (List.length l))).
  assert (Hlen : List.length ks = List.length l) by (unfold ks; rewrite map_length, seq_length; reflexivity).
  clearbody ks. revert l Hlen. induction ks as [|k ks IH]; intros [|x l] Hlen; simpl in *; try lia; [reflexivity|].
  f_equal. apply IH. lia.
Qed.

Lemma enumerate_length {A} (l : list A) : List.length (enumerate l) = List.length l.
Proof. rewrite <- (map_length fst), enumerate_fst, map_length, seq_length. reflexivity. Qed.

Lemma enumerate_fst_NoDup {A} (l : list A) : NoDup (map fst (enumerate l)).
Proof.
  rewrite enumerate_fst. apply FinFun.Injective_map_NoDup; [intros x y H; lia | apply seq_NoDup].
Qed.

Lemma enumerate_NoDup {A} (l : list A) : NoDup (enumerate l).
Proof. apply (NoDup_map_inv fst). apply enumerate_fst_NoDup. Qed.

Lemma combine_seq_In {A} (l : list A) : forall k t x,
  In (t, x) (combine (map Z.of_nat (seq k (List.length l))) l) <->
  exists i, t = Z.of_nat (k + i) /\ nth_error l i = Some x.
Proof.
  induction l as [|y l IH]; intros k t x.
  - simpl. split; [tauto|]. intros ([|i] & _ & H); discriminate.
  - cbn [List.length seq map combine In]. rewrite IH. split.
    + intros [H|(i & -> & Hi)].
      * injection H as <- <-. exists O. split; [f_equal; lia | reflexivity].
      * exists (S i). split; [f_equal; lia | exact Hi].
    + intros ([|i] & -> & Hi).
      * left. simpl in Hi. injection Hi as ->. f_equal. f_equal. lia.
      * right. exists i. split; [f_equal; lia | exact Hi].
Qed.

Lemma enumerate_In {A} (l : list A) t x :
  In (t, x) (enumerate l) <-> 0 <= t /\ nth_error l (Z.to_nat t) = Some x.
Proof.
  unfold enumerate. rewrite combine_seq_In. split.
  - intros (i & -> & Hi). simpl. rewrite Nat2Z.id. split; [lia | exact Hi].
  - intros (Ht & Hn). exists (Z.to_nat t). split; [simpl; lia | exact Hn].
Qed.

(** * the inner loop *)

Definition sym_ok (w : option string) (p : string) (e : Z * string) : Prop :=
  sym_eqb_opt w p || String.eqb p (snd e) = true.

Lemma sym_eqb_opt_true w p : sym_eqb_opt w p = true <-> w = Some p.
Proof.
  destruct w as [w'|]; simpl; [|split; discriminate].
  rewrite String.eqb_eq. split; [intros ->; reflexivity | intros [= ->]; reflexivity].
Qed.

Lemma match_perm_Some w : forall P i sp m,
  match_perm w i P sp = Some m ->
  exists pre rest, sp = pre ++ rest /\ Forall2 (sym_ok w) P pre /\
                   m = combine (zfrom i (List.length P)) (map fst pre).
Proof.
  induction P as [|p P IH]; intros i sp m H.
  - simpl in H. injection H as <-. exists [], sp. split; [reflexivity|]. split; [constructor | reflexivity].
  - cbn [match_perm] in H. destruct sp as [|[si s] st]; [discriminate|].
    destruct (sym_eqb_opt w p || String.eqb p s) eqn:E; [|discriminate].
    destruct (match_perm w (i + 1) P st) as [m'|] eqn:E'; [|discriminate]. simpl in H. injection H as <-.
    destruct (IH _ _ _ E') as (pre & rest & -> & HF & ->).
    exists ((si, s) :: pre), rest. split; [reflexivity|]. split; [constructor; [exact E | exact HF] | reflexivity].
Qed.

Lemma match_perm_complete w : forall P i pre rest,
  Forall2 (sym_ok w) P pre ->
  match_perm w i P (pre ++ rest) = Some (combine (zfrom i (List.length P)) (map fst pre)).
Proof.
  induction P as [|p P IH]; intros i pre rest HF; inversion HF as [|? e ? pre' Hpe HF']; subst.
  - reflexivity.
  - destruct e as [si s]. cbn [match_perm app]. unfold sym_ok in Hpe. simpl in Hpe. rewrite Hpe.
    rewrite (IH (i + 1) pre' rest HF'). reflexivity.
Qed.

Lemma gen_In p s w m :
  In m (generate_mapping_permutations p s w) <->
  p <> [] /\ exists sp, Permutation (enumerate s) sp /\ match_perm w 0 p sp = Some m.
Proof.
  unfold generate_mapping_permutations. destruct p as [|p0 pt].
  - simpl. split; [tauto | intros [H _]; congruence].
  - rewrite in_flat_map. split.
    + intros (sp & Hsp & Hm). split; [discriminate|]. exists sp. split; [apply perms_In; exact Hsp|].
      destruct (match_perm w 0 (p0 :: pt) sp) as [m'|]; simpl in Hm; [|tauto].
      destruct Hm as [->|[]]. reflexivity.
    + intros (_ & sp & Hsp & Hm). exists sp. split; [apply perms_In; exact Hsp|].
      rewrite Hm. left. reflexivity.
Qed.

(** * the two directions *)

(* every returned mapping sends the pattern positions 0..k-1, in order, to pairwise distinct
   structure positions with an equal symbol (anything for the wildcard) *)
Theorem gen_sound p s w m :
  In m (generate_mapping_permutations p s w) -> gen_spec p s w m.
Proof.
  intros H. apply gen_In in H. destruct H as (Hne & sp & Hperm & Hm). split; [exact Hne|].
  apply match_perm_Some in Hm. destruct Hm as (pre & rest & -> & HF & ->).
  exists (map fst pre). split; [|split].
  - rewrite enumerate_zfrom, map_length. rewrite (Forall2_length _ _ _ HF). reflexivity.
  - assert (Hnd : NoDup (map fst (pre ++ rest))).
    { apply (Permutation_NoDup (Permutation_map fst Hperm)). apply enumerate_fst_NoDup. }
    rewrite map_app in Hnd. apply NoDup_app_inv in Hnd. tauto.
  - apply (proj1 (Forall2_map_r (gen_target_ok w s) fst p pre)). revert HF. apply Forall2_impl_In. intros a [t x] _ Hin Hok.
    assert (Hin' : In (t, x) (enumerate s)).
    { apply (Permutation_in _ (Permutation_sym Hperm)). apply in_or_app. left. exact Hin. }
    apply enumerate_In in Hin'. destruct Hin' as (Ht & Hn). unfold gen_target_ok. simpl. split.
    + split; [exact Ht|]. assert (Z.to_nat t < List.length s)%nat by (apply nth_error_Some; congruence). lia.
    + unfold sym_ok in Hok. simpl in Hok. apply orb_true_iff in Hok. destruct Hok as [Hok|Hok].
      * left. apply sym_eqb_opt_true. exact Hok.
      * right. apply String.eqb_eq in Hok. subst. exact Hn.
Qed.

(* and every such position map is returned *)
Theorem gen_complete p s w m :
  gen_spec p s w m -> In m (generate_mapping_permutations p s w).
Proof.
  intros (Hne & ts & -> & Hnd & HF). apply gen_In. split; [exact Hne|].
  set (pre := map (fun t => (t, nth (Z.to_nat t) s ""%string)) ts).
  set (rest := filter (fun e : Z * string => negb (zmem (fst e) ts)) (enumerate s)).
  assert (Hfst : map fst pre = ts).
  { unfold pre. rewrite map_map. simpl. apply map_id. }
  assert (Hrange : forall t, In t ts -> 0 <= t /\ nth_error s (Z.to_nat t) = Some (nth (Z.to_nat t) s ""%string)).
  { intros t Ht. destruct (Forall2_In_r _ _ _ _ HF Ht) as (a & _ & (Hr & _)). split; [lia|].
    apply nth_error_nth'. lia. }
  exists (pre ++ rest). split.
  - apply NoDup_Permutation.
    + apply enumerate_NoDup.
    + apply NoDup_app_intro.
      * apply (NoDup_map_inv fst). rewrite Hfst. exact Hnd.
      * apply NoDup_filter. apply enumerate_NoDup.
      * intros e He Hr. unfold rest in Hr. apply filter_In in Hr. destruct Hr as (_ & Hr).
        apply negb_true_iff, zmem_false in Hr. apply Hr. rewrite <- Hfst. apply in_map. exact He.
    + intros [t x]. rewrite in_app_iff. split.
      * intros Hin. destruct (zmem t ts) eqn:E.
        -- left. apply zmem_In in E. unfold pre. apply in_map_iff. exists t. split; [|exact E].
           f_equal. apply enumerate_In in Hin. destruct Hin as (_ & Hn).
           apply nth_error_nth. exact Hn.
        -- right. unfold rest. apply filter_In. split; [exact Hin|]. simpl. rewrite E. reflexivity.
      * intros [Hin|Hin].
        -- unfold pre in Hin. apply in_map_iff in Hin. destruct Hin as (t' & Heq & Ht'). injection Heq as <- <-.
           apply enumerate_In. apply Hrange. exact Ht'.
        -- unfold rest in Hin. apply filter_In in Hin. tauto.
  - rewrite (match_perm_complete w p 0 pre rest).
    + rewrite Hfst, enumerate_zfrom, (Forall2_length _ _ _ HF). reflexivity.
    + unfold pre.
      apply (proj1 (Forall2_map_r (sym_ok w) (fun t => (t, nth (Z.to_nat t) s ""%string)) p ts)). revert HF.
      apply Forall2_impl_In.
      intros a t _ Ht (Hr & Hs). unfold sym_ok. simpl. apply orb_true_iff. destruct Hs as [Hs|Hs].
      * left. apply sym_eqb_opt_true. exact Hs.
      * right. apply String.eqb_eq. symmetry. apply nth_error_nth. exact Hs.
Qed.

Corollary gen_iff p s w m : In m (generate_mapping_permutations p s w) <-> gen_spec p s w m.
Proof. split; [apply gen_sound | apply gen_complete]. Qed.

Lemma gen_nil s w : generate_mapping_permutations [] s w = [].
Proof. reflexivity. Qed.
