(** C17 core: the enumeration on a graph whose node ids are 0..n-1 with anchor 0
    (the situation after the relabelling step). All lemmas about Model/Cis.v's
    [enumerateCIS] and [nics_inner]. *)
From Coq Require Import ZArith List Bool Lia.
From FGV Require Import Base.Util Base.UtilFacts Base.Bond Base.NX Model.Cis Spec.CisSpec.
Import ListNotations.
Open Scope Z_scope.

(** * The result monad *)

Lemma bind_Ok {A B} (r : res A) (f : A -> res B) a : r = Ok a -> bind r f = f a.
Proof. intros ->. reflexivity. Qed.

Lemma bind_Ok_inv {A B} (r : res A) (f : A -> res B) b :
  bind r f = Ok b -> exists a, r = Ok a /\ f a = Ok b.
Proof. destruct r as [a|e]; simpl; [eauto|discriminate]. Qed.

Lemma rconcat_map_Ok {A B} (g : A -> res (list B)) (g' : A -> list B) l :
  (forall x, In x l -> g x = Ok (g' x)) -> rconcat (map g l) = Ok (flat_map g' l).
Proof.
  induction l as [|x t IH]; intros Hall; simpl; [reflexivity|].
  rewrite (Hall x (or_introl eq_refl)). simpl.
  rewrite IH by (intros y Hy; apply Hall; right; exact Hy). reflexivity.
Qed.

Lemma rmap_Ok {A B} (f : A -> res B) (f' : A -> B) l :
  (forall x, In x l -> f x = Ok (f' x)) -> rmap f l = Ok (map f' l).
Proof.
  induction l as [|x t IH]; intros Hall; simpl; [reflexivity|].
  rewrite (Hall x (or_introl eq_refl)). simpl.
  rewrite IH by (intros y Hy; apply Hall; right; exact Hy). reflexivity.
Qed.

(** * Python list indexing *)

Definition inr (n : nat) (v : Z) : Prop := 0 <= v < Z.of_nat n.

Lemma pyidx_inr n v : inr n v -> pyidx n v = Some (Z.to_nat v).
Proof.
  unfold inr, pyidx. intros Hv.
  destruct (Z.ltb_spec v 0); [lia|].
  destruct (Z.leb_spec 0 v); [|lia]. destruct (Z.ltb_spec v (Z.of_nat n)); [|lia]. reflexivity.
Qed.

(* total reading of a distance array *)
Definition dval (D : list dist) (v : Z) : dist := nth (Z.to_nat v) D None.

Lemma lget_inr {A} (l : list A) v d :
  inr (List.length l) v -> lget l v = Ok (nth (Z.to_nat v) l d).
Proof.
  intros Hv. unfold lget. rewrite (pyidx_inr _ _ Hv).
  destruct (nth_error l (Z.to_nat v)) as [a|] eqn:E.
  - simpl. f_equal. symmetry. apply nth_error_nth. exact E.
  - apply nth_error_None in E. unfold inr in Hv. lia.
Qed.

Lemma lget_dval D v : inr (List.length D) v -> lget D v = Ok (dval D v).
Proof. apply lget_inr. Qed.

Lemma lget_head {A} (x : A) t : lget (x :: t) 0 = Ok x.
Proof. rewrite (lget_inr _ _ x); [reflexivity|]. unfold inr. simpl List.length. lia. Qed.

Lemma lget_last {A} (l : list A) d : l <> [] -> lget l (-1) = Ok (last l d).
Proof.
  intros Hne. destruct (exists_last Hne) as (l' & a & ->).
  rewrite last_last. unfold lget, pyidx.
  rewrite app_length. simpl List.length.
  replace (-1 <? 0) with true by reflexivity.
  replace (-1 + Z.of_nat (List.length l' + 1)) with (Z.of_nat (List.length l')) by lia.
  destruct (Z.leb_spec 0 (Z.of_nat (List.length l'))); [|lia].
  destruct (Z.ltb_spec (Z.of_nat (List.length l')) (Z.of_nat (List.length l' + 1))); [|lia].
  simpl. rewrite Nat2Z.id. rewrite nth_error_app2 by lia. rewrite Nat.sub_diag. reflexivity.
Qed.

Lemma set_nth_length {A} (l : list A) k a : List.length (set_nth l k a) = List.length l.
Proof. revert k; induction l as [|x t IH]; intros [|k]; simpl; auto. Qed.

Lemma nth_set_nth {A} (l : list A) k j a d :
  nth j (set_nth l k a) d = if Nat.eqb j k then (if Nat.ltb k (List.length l) then a else d) else nth j l d.
Proof.
  revert k j; induction l as [|x t IH]; intros k j.
  - simpl. destruct k, j; simpl; try reflexivity. destruct (Nat.eqb j k); reflexivity.
  - destruct k as [|k], j as [|j]; simpl; try reflexivity.
    rewrite IH. destruct (Nat.eqb j k); [|reflexivity].
    change (S k <? S (List.length t))%nat with (k <? List.length t)%nat. reflexivity.
Qed.

Lemma lset_inr {A} (l : list A) v a :
  inr (List.length l) v -> lset l v a = Ok (set_nth l (Z.to_nat v) a).
Proof. intros Hv. unfold lset. rewrite (pyidx_inr _ _ Hv). reflexivity. Qed.

Lemma dval_set_same D v a : inr (List.length D) v -> dval (set_nth D (Z.to_nat v) a) v = a.
Proof.
  intros Hv. unfold dval. rewrite nth_set_nth, Nat.eqb_refl.
  destruct (Nat.ltb_spec (Z.to_nat v) (List.length D)); [reflexivity|]. unfold inr in Hv. lia.
Qed.

Lemma dval_set_other D v u a : 0 <= v -> 0 <= u -> u <> v -> dval (set_nth D (Z.to_nat v) a) u = dval D u.
Proof.
  intros Hv Hu Hne. unfold dval. rewrite nth_set_nth.
  destruct (Nat.eqb_spec (Z.to_nat u) (Z.to_nat v)); [lia|reflexivity].
Qed.

(** * The key order (D[v], v) *)

Definition kgtb (D : list dist) (v x : Z) : bool :=
  dgt (dval D v) (dval D x) || (deq (dval D v) (dval D x) && (v >? x)).

Lemma kgtb_fin D v x a b : dval D v = Some a -> dval D x = Some b ->
  (kgtb D v x = true <-> b < a \/ (a = b /\ x < v)).
Proof.
  intros Hv Hx. unfold kgtb. rewrite Hv, Hx. simpl.
  rewrite orb_true_iff, andb_true_iff, Z.ltb_lt, Z.eqb_eq, Z.gtb_lt. tauto.
Qed.

Lemma kgtb_trans D u v x a b c : dval D u = Some a -> dval D v = Some b -> dval D x = Some c ->
  kgtb D u v = true -> kgtb D v x = true -> kgtb D u x = true.
Proof.
  intros Hu Hv Hx H1 H2.
  rewrite (kgtb_fin _ _ _ _ _ Hu Hv) in H1. rewrite (kgtb_fin _ _ _ _ _ Hv Hx) in H2.
  rewrite (kgtb_fin _ _ _ _ _ Hu Hx). lia.
Qed.

Lemma kgtb_total D v x a b : dval D v = Some a -> dval D x = Some b -> v <> x ->
  kgtb D v x = true \/ kgtb D x v = true.
Proof.
  intros Hv Hx Hne.
  rewrite (kgtb_fin _ _ _ _ _ Hv Hx), (kgtb_fin _ _ _ _ _ Hx Hv). lia.
Qed.

Lemma kgtb_asym D v x a b : dval D v = Some a -> dval D x = Some b ->
  kgtb D v x = true -> kgtb D x v = true -> False.
Proof.
  intros Hv Hx. rewrite (kgtb_fin _ _ _ _ _ Hv Hx), (kgtb_fin _ _ _ _ _ Hx Hv). lia.
Qed.

Lemma kgtb_agree D D' v x : dval D' v = dval D v -> dval D' x = dval D x -> kgtb D' v x = kgtb D v x.
Proof. intros H1 H2. unfold kgtb. rewrite H1, H2. reflexivity. Qed.

(** * The extension test, simplified *)

Lemma is_valid_eq U' v D :
  0 <= v -> inr (List.length D) v -> inr (List.length D) (last (0 :: U') 0) ->
  is_valid_extension (0 :: U') v D = Ok (kgtb D v (last (0 :: U') 0)).
Proof.
  intros Hv0 Hv Hx. unfold is_valid_extension, is_existing_extension.
  rewrite lget_head. cbn [bind].
  rewrite (lget_last (0 :: U') 0) by discriminate. cbn [bind].
  destruct (Z.ltb_spec v 0); [lia|].
  rewrite (lget_dval _ _ Hv), (lget_dval _ _ Hx). cbn [bind].
  unfold kgtb. destruct (dgt (dval D v) (dval D (last (0 :: U') 0))); [reflexivity|].
  cbn [bind orb]. rewrite negb_involutive. reflexivity.
Qed.

(** * The distance update loop *)

Definition stepD (D : list dist) (d : dist) (new_C : list Z) : list dist :=
  fold_left (fun acc u => set_nth acc (Z.to_nat u) d) new_C D.

Lemma stepD_length new_C : forall D d, List.length (stepD D d new_C) = List.length D.
Proof.
  induction new_C as [|u t IH]; intros D d; [reflexivity|].
  change (stepD D d (u :: t)) with (stepD (set_nth D (Z.to_nat u) d) d t).
  rewrite IH. apply set_nth_length.
Qed.

Lemma NoDup_app_disj {A} (l l' : list A) :
  NoDup l -> NoDup l' -> (forall x, In x l -> In x l' -> False) -> NoDup (l ++ l').
Proof.
  induction l as [|a t IH]; intros H1 H2 Hd; simpl; [exact H2|].
  inversion H1 as [|? ? Hni Hnd]; subst. constructor.
  - rewrite in_app_iff. intros [Hin|Hin]; [exact (Hni Hin) | apply (Hd a); [left; reflexivity | exact Hin]].
  - apply IH; [exact Hnd | exact H2 | intros x Hx; apply Hd; right; exact Hx].
Qed.

Lemma NoDup_app_intro_snoc {A} (l : list A) x : NoDup l -> ~ In x l -> NoDup (l ++ [x]).
Proof.
  intros Hl Hx. apply NoDup_app_disj; [exact Hl | constructor; [intros []|constructor] |].
  intros y Hy [<-|[]]. exact (Hx Hy).
Qed.

Lemma stepD_dval new_C : forall D d u,
  (forall x, In x new_C -> inr (List.length D) x) -> inr (List.length D) u ->
  dval (stepD D d new_C) u = if zmem u new_C then d else dval D u.
Proof.
  induction new_C as [|x t IH]; intros D d u Hr Hu; [reflexivity|].
  change (stepD D d (x :: t)) with (stepD (set_nth D (Z.to_nat x) d) d t).
  assert (Hx : inr (List.length D) x) by (apply Hr; left; reflexivity).
  rewrite IH.
  - simpl zmem. destruct (Z.eqb_spec u x) as [->|Hne]; simpl.
    + rewrite dval_set_same by exact Hx. destruct (zmem x t); reflexivity.
    + rewrite dval_set_other; [reflexivity | unfold inr in *; lia | unfold inr in *; lia | exact Hne].
  - intros y Hy. rewrite set_nth_length. apply Hr. right. exact Hy.
  - rewrite set_nth_length. exact Hu.
Qed.

Lemma assign_new_ok new_C : forall D a,
  (forall u, In u new_C -> inr (List.length D) u) ->
  (forall u, In u new_C -> dval D u = None \/ dval D u = Some (a + 1)) ->
  assign_new D (Some a) new_C = Ok (stepD D (Some (a + 1)) new_C).
Proof.
  induction new_C as [|u t IH]; intros D a Hr Hd; [reflexivity|].
  assert (Hu : inr (List.length D) u) by (apply Hr; left; reflexivity).
  cbn [assign_new]. rewrite (lget_dval _ _ Hu). cbn [bind dsucc option_map].
  assert (Hle : dle (Some (a + 1)) (dval D u) = true).
  { destruct (Hd u (or_introl eq_refl)) as [->| ->]; simpl; [reflexivity|apply Z.leb_refl]. }
  rewrite Hle. rewrite (lset_inr _ _ _ Hu). cbn [bind].
  change (stepD D (Some (a + 1)) (u :: t)) with (stepD (set_nth D (Z.to_nat u) (Some (a + 1))) (Some (a + 1)) t).
  apply IH.
  - intros y Hy. rewrite set_nth_length. apply Hr. right. exact Hy.
  - intros y Hy. destruct (Z.eq_dec y u) as [->|Hne].
    + right. apply dval_set_same. exact Hu.
    + assert (Hyr : inr (List.length D) y) by (apply Hr; right; exact Hy).
      rewrite dval_set_other; [apply Hd; right; exact Hy | unfold inr in *; lia | unfold inr in *; lia | exact Hne].
Qed.

(** * walks *)

Lemma walk_mono G S S' u v : incl S S' -> walk G S u v -> walk G S' u v.
Proof.
  intros Hi Hw. induction Hw as [Hu|v w Hw IH Hin Hadj].
  - apply walk_refl. apply Hi. exact Hu.
  - eapply walk_step; [exact IH | apply Hi; exact Hin | exact Hadj].
Qed.

Lemma walk_end_in G S u v : walk G S u v -> In v S.
Proof. intros Hw. destruct Hw; assumption. Qed.

Lemma walk_same_set G S S' u v : same_set S S' -> walk G S u v -> walk G S' u v.
Proof. intros Hs. apply walk_mono. intros x Hx. apply Hs. exact Hx. Qed.

(** * The core: graph with node ids 0..n-1, anchor 0 *)

Definition canon (H : graph) (n : nat) : Prop :=
  (forall v, In v (nodes H) <-> inr n v) /\ List.length (nodes H) = n /\
  (forall u v, In v (neighbors H u) -> In v (nodes H)) /\ (forall u, NoDup (neighbors H u)).

Lemma has_node_In G v : has_node G v = true <-> In v (nodes G).
Proof.
  unfold has_node, nodes. destruct (alookup v G) as [a|] eqn:E; simpl.
  - split; [intros _; eapply alookup_Some_key; exact E | reflexivity].
  - split; [discriminate|]. intros Hin. apply alookup_None in E. contradiction.
Qed.

Section Core.
Variable H : graph.
Variable n : nat.
Hypothesis Hcanon : canon H n.
Hypothesis Hn : inr n 0.

Let Hnodes : forall v, In v (nodes H) <-> inr n v := proj1 Hcanon.
Let Hlen : List.length (nodes H) = n := proj1 (proj2 Hcanon).
Let Hnbr : forall u v, In v (neighbors H u) -> In v (nodes H) := proj1 (proj2 (proj2 Hcanon)).
Let Hnd : forall u, NoDup (neighbors H u) := proj2 (proj2 (proj2 Hcanon)).

Definition newC (U C : list Z) (v : Z) : list Z :=
  filter (fun u => negb (zmem u C) && negb (zmem u U)) (neighbors H v).

Definition ext_ok (U : list Z) (D : list dist) (v : Z) : bool :=
  negb (zmem v U) && kgtb D v (last U 0).

Definition nextD (D : list dist) (U C : list Z) (v : Z) : list dist :=
  stepD D (dsucc (dval D v)) (newC U C v).

(* the yields as a pure function (no exceptions): what the model computes when the
   invariant holds *)
Fixpoint enumP (f : nat) (U C : list Z) (D : list dist) : list (list Z) :=
  match f with
  | O => []
  | S f' =>
      U :: flat_map (fun v => if ext_ok U D v
                              then enumP f' (U ++ [v]) (C ++ newC U C v) (nextD D U C v)
                              else []) C
  end.

Lemma newC_In U C v u : In u (newC U C v) <-> In u (neighbors H v) /\ ~ In u C /\ ~ In u U.
Proof.
  unfold newC. rewrite filter_In, andb_true_iff, !negb_true_iff, !zmem_false. tauto.
Qed.

Record Inv (U C : list Z) (D : list dist) : Prop := {
  inv_len : List.length D = n;
  inv_U0 : exists U', U = 0 :: U';
  inv_Und : NoDup U;
  inv_Cnd : NoDup C;
  inv_UC : forall u, In u U -> u = 0 \/ In u C;
  inv_Cr : forall c, In c C -> inr n c;
  inv_Cfin : forall c, In c C -> exists a, dval D c = Some a;
  inv_0fin : exists a, dval D 0 = Some a;
  inv_inf : forall u, inr n u -> ~ In u C -> ~ In u U -> dval D u = None;
  inv_Cadj : forall c, In c C -> exists u, In u U /\ In c (neighbors H u);
  inv_closed : forall u v, In u U -> In v (neighbors H u) -> In v U \/ In v C;
  inv_walk : forall u, In u U -> walk H U 0 u
}.

Lemma Inv_Ur U C D : Inv U C D -> forall u, In u U -> inr n u.
Proof. intros HI u Hu. destruct (inv_UC _ _ _ HI u Hu) as [->|Hc]; [exact Hn | eapply inv_Cr; eauto]. Qed.

Lemma Inv_Ufin U C D : Inv U C D -> forall u, In u U -> exists a, dval D u = Some a.
Proof.
  intros HI u Hu. destruct (inv_UC _ _ _ HI u Hu) as [->|Hc]; [eapply inv_0fin; eauto | eapply inv_Cfin; eauto].
Qed.

Lemma Inv_last U C D : Inv U C D -> In (last U 0) U.
Proof.
  intros HI. destruct (inv_U0 _ _ _ HI) as (U' & ->).
  destruct (@exists_last _ (0 :: U')) as (l & a & E); [discriminate|].
  rewrite E, last_last. apply in_or_app. right. left. reflexivity.
Qed.

Lemma newC_inr U C v u : In u (newC U C v) -> inr n u.
Proof. intros Hu. apply newC_In in Hu. apply Hnodes. eapply Hnbr. exact (proj1 Hu). Qed.

Lemma nextD_length D U C v : List.length (nextD D U C v) = List.length D.
Proof. apply stepD_length. Qed.

Lemma nextD_old U C D v u : Inv U C D -> inr n u -> ~ In u (newC U C v) ->
  dval (nextD D U C v) u = dval D u.
Proof.
  intros HI Hu Hni. unfold nextD. rewrite stepD_dval.
  - apply zmem_false in Hni. rewrite Hni. reflexivity.
  - intros x Hx. rewrite (inv_len _ _ _ HI). eapply newC_inr. exact Hx.
  - rewrite (inv_len _ _ _ HI). exact Hu.
Qed.

Lemma nextD_new U C D v u : Inv U C D -> In u (newC U C v) ->
  dval (nextD D U C v) u = dsucc (dval D v).
Proof.
  intros HI Hin. unfold nextD. rewrite stepD_dval.
  - apply zmem_In in Hin. rewrite Hin. reflexivity.
  - intros x Hx. rewrite (inv_len _ _ _ HI). eapply newC_inr. exact Hx.
  - rewrite (inv_len _ _ _ HI). eapply newC_inr. exact Hin.
Qed.

Lemma nextD_C U C D v c : Inv U C D -> In c C -> dval (nextD D U C v) c = dval D c.
Proof.
  intros HI Hc. apply nextD_old; [exact HI | eapply inv_Cr; eauto |].
  intros Hin. apply newC_In in Hin. tauto.
Qed.

Lemma nextD_U U C D v u : Inv U C D -> In u U -> dval (nextD D U C v) u = dval D u.
Proof.
  intros HI Hu. apply nextD_old; [exact HI | eapply Inv_Ur; eauto |].
  intros Hin. apply newC_In in Hin. tauto.
Qed.

Lemma Inv_step U C D v : Inv U C D -> In v C -> ~ In v U ->
  Inv (U ++ [v]) (C ++ newC U C v) (nextD D U C v).
Proof.
  intros HI Hv HvU. constructor.
  - rewrite nextD_length. eapply inv_len; eauto.
  - destruct (inv_U0 _ _ _ HI) as (U' & ->). exists (U' ++ [v]). reflexivity.
  - apply NoDup_app_intro_snoc; [eapply inv_Und; eauto | exact HvU].
  - apply NoDup_app_disj.
    + eapply inv_Cnd; eauto.
    + apply NoDup_filter. apply Hnd.
    + intros x Hx Hx'. apply newC_In in Hx'. tauto.
  - intros u Hu. apply in_app_or in Hu. destruct Hu as [Hu|[<-|[]]].
    + destruct (inv_UC _ _ _ HI u Hu) as [->|Hc]; [left; reflexivity | right; apply in_or_app; left; exact Hc].
    + right. apply in_or_app. left. exact Hv.
  - intros c Hc. apply in_app_or in Hc. destruct Hc as [Hc|Hc]; [eapply inv_Cr; eauto | eapply newC_inr; eauto].
  - intros c Hc. apply in_app_or in Hc. destruct Hc as [Hc|Hc].
    + rewrite (nextD_C _ _ _ _ _ HI Hc). eapply inv_Cfin; eauto.
    + rewrite (nextD_new _ _ _ _ _ HI Hc). destruct (inv_Cfin _ _ _ HI v Hv) as (a & ->). simpl. eauto.
  - rewrite (nextD_U U C D v 0 HI).
    + eapply inv_0fin; eauto.
    + destruct (inv_U0 _ _ _ HI) as (U' & ->). left. reflexivity.
  - intros u Hu HuC HuU. rewrite nextD_old; [| exact HI | exact Hu |].
    + apply (inv_inf _ _ _ HI u Hu); intros Hin; [apply HuC | apply HuU]; apply in_or_app; left; exact Hin.
    + intros Hin. apply HuC. apply in_or_app. right. exact Hin.
  - intros c Hc. apply in_app_or in Hc. destruct Hc as [Hc|Hc].
    + destruct (inv_Cadj _ _ _ HI c Hc) as (u & Hu & Hadj). exists u. split; [apply in_or_app; left; exact Hu | exact Hadj].
    + apply newC_In in Hc. exists v. split; [apply in_or_app; right; left; reflexivity | tauto].
  - intros u w Hu Hw. apply in_app_or in Hu. destruct Hu as [Hu|[<-|[]]].
    + destruct (inv_closed _ _ _ HI u w Hu Hw) as [Hin|Hin]; [left|right]; apply in_or_app; left; exact Hin.
    + destruct (in_dec Z.eq_dec w U) as [HwU|HwU]; [left; apply in_or_app; left; exact HwU|].
      right. apply in_or_app. destruct (in_dec Z.eq_dec w C) as [HwC|HwC]; [left; exact HwC|].
      right. apply newC_In. tauto.
  - intros u Hu. apply in_app_or in Hu. destruct Hu as [Hu|[<-|[]]].
    + eapply walk_mono; [|eapply inv_walk; eauto]. apply incl_appl. apply incl_refl.
    + destruct (inv_Cadj _ _ _ HI v Hv) as (w & Hw & Hadj).
      eapply walk_step.
      * eapply walk_mono; [|eapply (inv_walk _ _ _ HI w Hw)]. apply incl_appl. apply incl_refl.
      * apply in_or_app. right. left. reflexivity.
      * exact Hadj.
Qed.

(** ** The monadic model computes [enumP] *)

Lemma Inv_length_le U C D : Inv U C D -> (List.length U <= n)%nat.
Proof.
  intros HI. rewrite <- Hlen.
  apply NoDup_incl_length; [eapply inv_Und; eauto|].
  intros u Hu. apply Hnodes. eapply Inv_Ur; eauto.
Qed.

Lemma ext_body_eq rec U C D v : Inv U C D -> In v C ->
  ext_body rec H U C D v =
  if ext_ok U D v then rec (U ++ [v]) (C ++ newC U C v) (nextD D U C v) else Ok [].
Proof.
  intros HI Hv. unfold ext_body, ext_ok.
  destruct (zmem v U) eqn:EU; [reflexivity|]. cbn [negb andb].
  assert (Hvr : inr n v) by (eapply inv_Cr; eauto).
  destruct (inv_U0 _ _ _ HI) as (U' & EUU).
  assert (Hlast : In (last U 0) U) by (eapply Inv_last; eauto).
  rewrite EUU at 1. rewrite is_valid_eq.
  2: unfold inr in Hvr; lia.
  2: rewrite (inv_len _ _ _ HI); exact Hvr.
  2: rewrite (inv_len _ _ _ HI), <- EUU; eapply Inv_Ur; eauto.
  rewrite <- EUU. cbn [bind].
  destruct (kgtb D v (last U 0)); [|reflexivity].
  unfold nbrs. replace (has_node H v) with true by (symmetry; apply has_node_In, Hnodes, Hvr).
  cbn [bind]. rewrite lget_dval by (rewrite (inv_len _ _ _ HI); exact Hvr). cbn [bind].
  destruct (inv_Cfin _ _ _ HI v Hv) as (a & Ea).
  fold (newC U C v). unfold nextD. rewrite Ea. cbn [dsucc option_map].
  rewrite assign_new_ok; [reflexivity | |].
  - intros u Hu. rewrite (inv_len _ _ _ HI). eapply newC_inr; eauto.
  - intros u Hu. left. pose proof (newC_inr _ _ _ _ Hu) as Hur. apply newC_In in Hu.
    apply (inv_inf _ _ _ HI u Hur); tauto.
Qed.

Lemma enum_eq : forall f U C D, Inv U C D -> (n < f + List.length U)%nat ->
  enumerateCIS f H U C D = Ok (enumP f U C D).
Proof.
  induction f as [|f IH]; intros U C D HI Hf.
  - pose proof (Inv_length_le _ _ _ HI). lia.
  - cbn [enumerateCIS enumP].
    rewrite (rconcat_map_Ok _ (fun v => if ext_ok U D v
                              then enumP f (U ++ [v]) (C ++ newC U C v) (nextD D U C v) else [])).
    + reflexivity.
    + intros v Hv. rewrite (ext_body_eq _ _ _ _ _ HI Hv).
      destruct (ext_ok U D v) eqn:E; [|reflexivity].
      unfold ext_ok in E. apply andb_true_iff in E. destruct E as (E1 & E2).
      apply negb_true_iff, zmem_false in E1.
      apply IH; [apply Inv_step; assumption|]. rewrite app_length. simpl. lia.
Qed.

(** ** Shape of the yields: extensions of U by larger keys *)

Lemma enumP_shape : forall f U C D Y, Inv U C D -> In Y (enumP f U C D) ->
  exists E C' D', Y = U ++ E /\ Inv Y C' D' /\
    forall e, In e E -> In e C -> kgtb D e (last U 0) = true.
Proof.
  induction f as [|f IH]; intros U C D Y HI HY; [contradiction|].
  cbn [enumP] in HY. destruct HY as [<-|HY].
  - exists [], C, D. rewrite app_nil_r. split; [reflexivity|]. split; [exact HI|]. intros e [].
  - apply in_flat_map in HY. destruct HY as (v & Hv & HY).
    destruct (ext_ok U D v) eqn:E; [|contradiction].
    unfold ext_ok in E. apply andb_true_iff in E. destruct E as (E1 & E2).
    apply negb_true_iff, zmem_false in E1.
    pose proof (Inv_step _ _ _ _ HI Hv E1) as HI'.
    destruct (IH _ _ _ _ HI' HY) as (E & C' & D' & -> & HIY & Hk).
    exists (v :: E), C', D'. split; [rewrite <- app_assoc; reflexivity|]. split; [exact HIY|].
    intros e [<-|He] HeC; [exact E2|].
    rewrite last_last in Hk.
    assert (Hk' : kgtb (nextD D U C v) e v = true) by (apply Hk; [exact He | apply in_or_app; left; exact HeC]).
    rewrite (kgtb_agree D) in Hk'; [| apply nextD_C; assumption | apply nextD_C; assumption].
    destruct (inv_Cfin _ _ _ HI e HeC) as (a & Ea). destruct (inv_Cfin _ _ _ HI v Hv) as (b & Eb).
    destruct (Inv_Ufin _ _ _ HI _ (Inv_last _ _ _ HI)) as (c & Ec).
    exact (kgtb_trans _ _ _ _ _ _ _ Ea Eb Ec Hk' E2).
Qed.

(** ** Soundness *)

Lemma enumP_sound f U C D Y : Inv U C D -> In Y (enumP f U C D) ->
  NoDup Y /\ In 0 Y /\ (forall y, In y Y -> inr n y) /\ (forall y, In y Y -> walk H Y 0 y).
Proof.
  intros HI HY. destruct (enumP_shape _ _ _ _ _ HI HY) as (E & C' & D' & _ & HIY & _).
  split; [eapply inv_Und; eauto|]. split.
  - destruct (inv_U0 _ _ _ HIY) as (U' & ->). left. reflexivity.
  - split; [eapply Inv_Ur; eauto | eapply inv_walk; eauto].
Qed.

(** ** Uniqueness *)

Inductive NoDupS : list (list Z) -> Prop :=
| NoDupS_nil : NoDupS []
| NoDupS_cons X l : (forall Y, In Y l -> ~ same_set X Y) -> NoDupS l -> NoDupS (X :: l).

Lemma NoDupS_app a b : NoDupS a -> NoDupS b ->
  (forall X Y, In X a -> In Y b -> ~ same_set X Y) -> NoDupS (a ++ b).
Proof.
  induction 1 as [|X l HX Hl IH]; intros Hb Hab; simpl; [exact Hb|].
  constructor.
  - intros Y HY. apply in_app_or in HY. destruct HY as [HY|HY]; [apply HX; exact HY | apply Hab; [left; reflexivity | exact HY]].
  - apply IH; [exact Hb | intros X' Y HX' HY; apply Hab; [right; exact HX' | exact HY]].
Qed.

Lemma NoDupS_flat_map {A} (g : A -> list (list Z)) (l : list A) :
  NoDup l -> (forall x, In x l -> NoDupS (g x)) ->
  (forall x y X Y, In x l -> In y l -> x <> y -> In X (g x) -> In Y (g y) -> ~ same_set X Y) ->
  NoDupS (flat_map g l).
Proof.
  induction 1 as [|x t Hni Hndt IH]; intros Hg Hx; simpl; [constructor|].
  apply NoDupS_app.
  - apply Hg. left. reflexivity.
  - apply IH; [intros y Hy; apply Hg; right; exact Hy|].
    intros a b X Y Ha Hb. apply Hx; right; assumption.
  - intros X Y HX HY. apply in_flat_map in HY. destruct HY as (y & Hy & HY).
    apply (Hx x y); [left; reflexivity | right; exact Hy | intros ->; contradiction | exact HX | exact HY].
Qed.

Lemma NoDupS_unique l : NoDupS l -> cis_unique l.
Proof.
  induction 1 as [|X l HX Hl IH]; intros i j A B Hi Hj Hs.
  - destruct i; discriminate.
  - destruct i as [|i], j as [|j]; simpl in Hi, Hj.
    + reflexivity.
    + injection Hi as <-. apply nth_error_In in Hj. exfalso. exact (HX _ Hj Hs).
    + injection Hj as <-. apply nth_error_In in Hi. exfalso. apply (HX _ Hi). intros x. symmetry. apply Hs.
    + f_equal. eapply IH; eauto.
Qed.

(* two different valid extensions of the same state never lead to the same set: the one
   with the smaller key is missing from everything below the other *)
Lemma branch_disjoint f f' U C D v v' Y Y' : Inv U C D ->
  In v C -> In v' C -> ext_ok U D v = true -> ext_ok U D v' = true ->
  kgtb D v' v = true ->
  In Y (enumP f (U ++ [v]) (C ++ newC U C v) (nextD D U C v)) ->
  In Y' (enumP f' (U ++ [v']) (C ++ newC U C v') (nextD D U C v')) ->
  ~ same_set Y Y'.
Proof.
  intros HI Hv Hv' E E' Hk HY HY' Hs.
  unfold ext_ok in E, E'. apply andb_true_iff in E, E'. destruct E as (E1 & E2), E' as (E1' & E2').
  apply negb_true_iff, zmem_false in E1, E1'.
  pose proof (Inv_step _ _ _ _ HI Hv E1) as HI1. pose proof (Inv_step _ _ _ _ HI Hv' E1') as HI1'.
  destruct (enumP_shape _ _ _ _ _ HI1 HY) as (E & _ & _ & -> & _ & _).
  destruct (enumP_shape _ _ _ _ _ HI1' HY') as (F & _ & _ & -> & _ & HF).
  rewrite last_last in HF.
  destruct (inv_Cfin _ _ _ HI v Hv) as (a & Ea). destruct (inv_Cfin _ _ _ HI v' Hv') as (b & Eb).
  assert (Hin : In v ((U ++ [v']) ++ F)).
  { apply Hs. apply in_or_app. left. apply in_or_app. right. left. reflexivity. }
  apply in_app_or in Hin. destruct Hin as [Hin|Hin].
  - apply in_app_or in Hin. destruct Hin as [Hin|[->|[]]]; [exact (E1 Hin)|].
    exact (kgtb_asym _ _ _ _ _ Ea Ea Hk Hk).
  - assert (Hk' : kgtb (nextD D U C v') v v' = true) by (apply HF; [exact Hin | apply in_or_app; left; exact Hv]).
    rewrite (kgtb_agree D) in Hk'; [| apply nextD_C; assumption | apply nextD_C; assumption].
    exact (kgtb_asym _ _ _ _ _ Ea Eb Hk' Hk).
Qed.

Lemma enumP_NoDupS : forall f U C D, Inv U C D -> NoDupS (enumP f U C D).
Proof.
  induction f as [|f IH]; intros U C D HI; [constructor|].
  cbn [enumP]. constructor.
  - intros Y HY Hs. apply in_flat_map in HY. destruct HY as (v & Hv & HY).
    destruct (ext_ok U D v) eqn:E; [|contradiction].
    pose proof E as E0. unfold ext_ok in E. apply andb_true_iff in E. destruct E as (E1 & E2).
    apply negb_true_iff, zmem_false in E1.
    destruct (enumP_shape _ _ _ _ _ (Inv_step _ _ _ _ HI Hv E1) HY) as (E & _ & _ & -> & _ & _).
    apply E1. apply Hs. apply in_or_app. left. apply in_or_app. right. left. reflexivity.
  - apply NoDupS_flat_map.
    + eapply inv_Cnd; eauto.
    + intros v Hv. destruct (ext_ok U D v) eqn:E; [|constructor].
      unfold ext_ok in E. apply andb_true_iff in E. destruct E as (E1 & E2).
      apply negb_true_iff, zmem_false in E1. apply IH. apply Inv_step; assumption.
    + intros v v' Y Y' Hv Hv' Hne HY HY'.
      destruct (ext_ok U D v) eqn:E; [|contradiction]. destruct (ext_ok U D v') eqn:E'; [|contradiction].
      destruct (inv_Cfin _ _ _ HI v Hv) as (a & Ea). destruct (inv_Cfin _ _ _ HI v' Hv') as (b & Eb).
      destruct (kgtb_total _ _ _ _ _ Ea Eb Hne) as [Hk|Hk].
      * intros Hs. eapply (branch_disjoint f f U C D v' v Y' Y); eauto.
        intros x. symmetry. apply Hs.
      * eapply (branch_disjoint f f U C D v v' Y Y'); eauto.
Qed.

(** ** Completeness *)

(* a walk from 0 that ends outside U leaves U somewhere *)
Lemma walk_exit S U e : walk H S 0 e -> In 0 U -> ~ In e U ->
  exists u w, In u U /\ In w S /\ ~ In w U /\ In w (neighbors H u).
Proof.
  intros Hw H0. induction Hw as [_|v w Hw IH Hin Hadj]; intros He; [contradiction|].
  destruct (in_dec Z.eq_dec v U) as [HvU|HvU].
  - exists v, w. tauto.
  - apply IH. exact HvU.
Qed.

Lemma key_min D L : L <> [] -> (forall e, In e L -> exists a, dval D e = Some a) ->
  exists m, In m L /\ forall e, In e L -> e <> m -> kgtb D e m = true.
Proof.
  induction L as [|x t IH]; intros Hne Hfin; [congruence|].
  destruct t as [|y t'].
  - exists x. split; [left; reflexivity|]. intros e [<-|[]] He. congruence.
  - destruct IH as (m & Hm & Hmin); [discriminate | intros e He; apply Hfin; right; exact He|].
    destruct (Z.eq_dec x m) as [->|Hxm].
    + exists m. split; [left; reflexivity|]. intros e [<-|He] Hem; [congruence | apply Hmin; assumption].
    + destruct (Hfin x (or_introl eq_refl)) as (a & Ea).
      destruct (Hfin m (or_intror Hm)) as (b & Eb).
      destruct (kgtb_total _ _ _ _ _ Ea Eb Hxm) as [Hk|Hk].
      * exists m. split; [right; exact Hm|]. intros e [<-|He] Hem; [exact Hk | apply Hmin; assumption].
      * exists x. split; [left; reflexivity|]. intros e [<-|He] Hex; [congruence|].
        destruct (Z.eq_dec e m) as [->|Hem]; [exact Hk|].
        destruct (Hfin e (or_intror He)) as (c & Ec).
        exact (kgtb_trans _ _ _ _ _ _ _ Ec Eb Ea (Hmin e He Hem) Hk).
Qed.

Lemma enumP_complete : forall f U C D S, Inv U C D -> (n < f + List.length U)%nat ->
  incl U S -> (forall v, In v S -> walk H S 0 v) ->
  (forall e, In e S -> ~ In e U -> In e C -> kgtb D e (last U 0) = true) ->
  exists Y, In Y (enumP f U C D) /\ same_set Y S.
Proof.
  induction f as [|f IH]; intros U C D S HI Hf HUS Hwalk Hkey.
  - pose proof (Inv_length_le _ _ _ HI). lia.
  - destruct (existsb (fun e => negb (zmem e U)) S) eqn:Eex.
    2:{ exists U. split; [left; reflexivity|]. intros x. split; [apply HUS|]. intros Hx.
        destruct (in_dec Z.eq_dec x U) as [Hin|Hni]; [exact Hin|]. exfalso.
        assert (existsb (fun e => negb (zmem e U)) S = true); [|congruence].
        apply existsb_exists. exists x. split; [exact Hx|]. apply negb_true_iff, zmem_false. exact Hni. }
    apply existsb_exists in Eex. destruct Eex as (e0 & He0S & He0U). apply negb_true_iff, zmem_false in He0U.
    assert (H0U : In 0 U) by (destruct (inv_U0 _ _ _ HI) as (U' & ->); left; reflexivity).
    destruct (walk_exit S U e0 (Hwalk e0 He0S) H0U He0U) as (u & w & Hu & HwS & HwU & Hadj).
    set (L := filter (fun e => zmem e S && negb (zmem e U)) C).
    assert (HL : forall e, In e L <-> In e C /\ In e S /\ ~ In e U).
    { intros e. unfold L. rewrite filter_In, andb_true_iff, negb_true_iff, zmem_In, zmem_false. tauto. }
    assert (HwL : In w L).
    { apply HL. destruct (inv_closed _ _ _ HI u w Hu Hadj) as [Hin|Hin]; [contradiction | tauto]. }
    destruct (key_min D L) as (m & HmL & Hmin).
    { intros E. rewrite E in HwL. exact HwL. }
    { intros e He. apply HL in He. eapply inv_Cfin; [exact HI | tauto]. }
    apply HL in HmL. destruct HmL as (HmC & HmS & HmU).
    assert (Hok : ext_ok U D m = true).
    { unfold ext_ok. apply andb_true_iff. split; [apply negb_true_iff, zmem_false; exact HmU|].
      apply Hkey; assumption. }
    destruct (IH (U ++ [m]) (C ++ newC U C m) (nextD D U C m) S) as (Y & HY & HYS).
    + apply Inv_step; assumption.
    + rewrite app_length. simpl. lia.
    + intros x Hx. apply in_app_or in Hx. destruct Hx as [Hx|[<-|[]]]; [apply HUS; exact Hx | exact HmS].
    + exact Hwalk.
    + intros e HeS HeU HeC. rewrite last_last.
      assert (HeU' : ~ In e U) by (intros Hin; apply HeU; apply in_or_app; left; exact Hin).
      assert (Hem : e <> m) by (intros ->; apply HeU; apply in_or_app; right; left; reflexivity).
      destruct (inv_Cfin _ _ _ HI m HmC) as (a & Ea).
      apply in_app_or in HeC. destruct HeC as [HeC|HeC].
      * rewrite (kgtb_agree D); [| apply nextD_C; assumption | apply nextD_C; assumption].
        apply Hmin; [apply HL; tauto | exact Hem].
      * apply (kgtb_fin _ _ _ (a + 1) a).
        -- rewrite (nextD_new _ _ _ _ _ HI HeC), Ea. reflexivity.
        -- rewrite (nextD_C _ _ _ _ _ HI HmC). exact Ea.
        -- lia.
    + exists Y. split; [|exact HYS]. cbn [enumP]. right. apply in_flat_map. exists m.
      split; [exact HmC|]. rewrite Hok. exact HY.
Qed.

(** ** The initial state built by [nics_inner] *)

Definition initD (C : list Z) : list dist :=
  stepD (set_nth (repeat (@None Z) n) 0%nat (Some 0)) (Some 1) C.

Lemma init_dist_ok C : forall D, (forall c, In c C -> inr (List.length D) c) ->
  init_dist D C = Ok (stepD D (Some 1) C).
Proof.
  induction C as [|c t IH]; intros D Hr; [reflexivity|].
  cbn [init_dist]. rewrite lset_inr by (apply Hr; left; reflexivity). cbn [bind].
  change (stepD D (Some 1) (c :: t)) with (stepD (set_nth D (Z.to_nat c) (Some 1)) (Some 1) t).
  apply IH. intros x Hx. rewrite set_nth_length. apply Hr. right. exact Hx.
Qed.

Lemma nbr0_inr c : In c (neighbors H 0) -> inr n c.
Proof. intros Hc. apply Hnodes. eapply Hnbr. exact Hc. Qed.

Lemma initD_dval u : inr n u ->
  dval (initD (neighbors H 0)) u =
  if zmem u (neighbors H 0) then Some 1 else if u =? 0 then Some 0 else None.
Proof.
  intros Hu. unfold initD. rewrite stepD_dval.
  - destruct (zmem u (neighbors H 0)); [reflexivity|].
    destruct (Z.eqb_spec u 0) as [->|Hne].
    + change 0%nat with (Z.to_nat 0). apply dval_set_same. rewrite repeat_length. exact Hn.
    + change 0%nat with (Z.to_nat 0). rewrite dval_set_other; [| lia | unfold inr in Hu; lia | exact Hne].
      unfold dval. apply nth_repeat.
  - intros x Hx. rewrite set_nth_length, repeat_length. apply nbr0_inr. exact Hx.
  - rewrite set_nth_length, repeat_length. exact Hu.
Qed.

Lemma Inv_init : Inv [0] (neighbors H 0) (initD (neighbors H 0)).
Proof.
  constructor.
  - unfold initD. rewrite stepD_length, set_nth_length, repeat_length. reflexivity.
  - exists []. reflexivity.
  - constructor; [intros []|constructor].
  - apply Hnd.
  - intros u [<-|[]]. left. reflexivity.
  - apply nbr0_inr.
  - intros c Hc. rewrite (initD_dval c (nbr0_inr c Hc)). apply zmem_In in Hc. rewrite Hc. eauto.
  - rewrite (initD_dval 0 Hn). destruct (zmem 0 (neighbors H 0)); simpl; eauto.
  - intros u Hu HuC HuU. rewrite (initD_dval u Hu). apply zmem_false in HuC. rewrite HuC.
    destruct (Z.eqb_spec u 0) as [->|Hne]; [exfalso; apply HuU; left; reflexivity | reflexivity].
  - intros c Hc. exists 0. split; [left; reflexivity | exact Hc].
  - intros u v [<-|[]] Hv. right. exact Hv.
  - intros u [<-|[]]. apply walk_refl. left. reflexivity.
Qed.

Lemma nics_inner_eq :
  nics_inner H 0 = Ok (enumP (S n) [0] (neighbors H 0) (initD (neighbors H 0))).
Proof.
  unfold nics_inner, nbrs.
  replace (has_node H 0) with true by (symmetry; apply has_node_In, Hnodes, Hn).
  cbn [bind]. rewrite Hlen.
  rewrite lset_inr by (rewrite repeat_length; exact Hn). cbn [bind].
  rewrite init_dist_ok.
  - cbn [bind]. change (Z.to_nat 0) with 0%nat. fold (initD (neighbors H 0)).
    apply enum_eq; [apply Inv_init | simpl; lia].
  - intros c Hc. rewrite set_nth_length, repeat_length. apply nbr0_inr. exact Hc.
Qed.

(* the three parts of the property for the relabelled graph, connectivity being
   "every member is reached from 0 by a walk inside the set" *)
Theorem core_correct : exists out, nics_inner H 0 = Ok out /\
  (forall Y, In Y out -> NoDup Y /\ In 0 Y /\ (forall y, In y Y -> inr n y) /\ (forall y, In y Y -> walk H Y 0 y)) /\
  cis_unique out /\
  (forall S, In 0 S -> (forall v, In v S -> walk H S 0 v) -> exists Y, In Y out /\ same_set Y S).
Proof.
  eexists. split; [apply nics_inner_eq|]. split; [|split].
  - intros Y HY. eapply enumP_sound; [apply Inv_init | exact HY].
  - apply NoDupS_unique. apply enumP_NoDupS. apply Inv_init.
  - intros S H0 Hw. apply enumP_complete.
    + apply Inv_init.
    + simpl. lia.
    + intros x [<-|[]]. exact H0.
    + exact Hw.
    + intros e HeS HeU HeC. cbn [last].
      assert (He : inr n e) by (apply nbr0_inr; exact HeC).
      assert (He0 : e <> 0) by (intros ->; apply HeU; left; reflexivity).
      pose proof (initD_dval e He) as E1. apply zmem_In in HeC. rewrite HeC in E1.
      pose proof (initD_dval 0 Hn) as E0.
      destruct (zmem 0 (neighbors H 0)).
      * apply (kgtb_fin _ _ _ 1 1 E1 E0). unfold inr in He. lia.
      * apply (kgtb_fin _ _ _ 1 0 E1 E0). lia.
Qed.
End Core.
