(** prune_its_to_rc satisfies [prune_spec] for every well-formed ITS graph, any ids. *)
From Coq Require Import ZArith List Bool String Lia Sorted.
From FGV Require Import Base.Util Base.UtilFacts Base.Bond Base.NX Base.NXFacts
  Model.Matrix Model.Prune Spec.WalkDef Spec.PruneSpec Spec.PruneCheck
  Proofs.Walk Proofs.NXCopyFacts11 Proofs.UnreachProofs Proofs.RcProofs.
Import ListNotations.
Open Scope Z_scope.

Definition HSYM : nattr := na_sym "H"%string.
Definition HBOND : label := Pair 2 2.

(** * the state of the loop: the ITS minus the removed nodes R plus hydrogens H (id -> kept atom) *)

Definition st_attr (its : graph) (H : list (Z * Z)) (R : list Z) (n : Z) : option nattr :=
  match alookup n H with
  | Some _ => Some HSYM
  | None => if zmem n R then None else node_attr its n
  end.

Definition st_edge (its : graph) (H : list (Z * Z)) (R : list Z) (x y : Z) : option label :=
  match alookup x H with
  | Some v => if y =? v then Some HBOND else None
  | None =>
      match alookup y H with
      | Some v => if x =? v then Some HBOND else None
      | None => if zmem x R || zmem y R then None else edge_label its x y
      end
  end.

Definition Inv (its p : graph) (H : list (Z * Z)) (R : list Z) : Prop :=
  (forall n, node_attr p n = st_attr its H R n)
  /\ (forall x y, edge_label p x y = st_edge its H R x y)
  /\ wf p.

(* the hydrogens that one pass over the neighbours vs adds, starting at id nid *)
Fixpoint hyd_list (unr vs : list Z) (nid : Z) : list (Z * Z) :=
  match vs with
  | [] => []
  | v :: t => if zmem v unr then hyd_list unr t nid else (nid, v) :: hyd_list unr t (nid + 1)
  end.

Fixpoint all_hyd (its : graph) (unr us : list Z) (nid : Z) : list (Z * Z) :=
  match us with
  | [] => []
  | u :: t =>
      let hl := hyd_list unr (neighbors its u) nid in
      hl ++ all_hyd its unr t (nid + Z.of_nat (List.length hl))
  end.

Lemma hyd_list_snd unr vs nid :
  map snd (hyd_list unr vs nid) = filter (fun v => negb (zmem v unr)) vs.
Proof.
  revert nid. induction vs as [|v t IH]; intros nid; simpl; [reflexivity|].
  destruct (zmem v unr); simpl; [apply IH|]. rewrite IH. reflexivity.
Qed.

Lemma all_hyd_snd its unr us nid : map snd (all_hyd its unr us nid) = map snd (cuts_of its unr us).
Proof.
  revert nid. unfold cuts_of. induction us as [|u t IH]; intros nid; simpl; [reflexivity|].
  rewrite !map_app, IH, hyd_list_snd, map_map. simpl. rewrite map_id. reflexivity.
Qed.

Lemma hyd_list_keys unr vs nid k v :
  In (k, v) (hyd_list unr vs nid) ->
  nid <= k < nid + Z.of_nat (List.length (hyd_list unr vs nid)) /\ In v vs /\ ~ In v unr.
Proof.
  revert nid. induction vs as [|x t IH]; intros nid; simpl; [intros []|].
  destruct (zmem x unr) eqn:Ez.
  - intros H. destruct (IH _ H) as (H1 & H2 & H3). split; [exact H1|]. split; [right; exact H2|exact H3].
  - intros [H|H].
    + injection H as <- <-. split; [simpl List.length; lia|]. split; [left; reflexivity|].
      apply zmem_false. exact Ez.
    + destruct (IH _ H) as (H1 & H2 & H3). split; [simpl List.length; lia|].
      split; [right; exact H2|exact H3].
Qed.

Lemma all_hyd_keys its unr us nid k v :
  In (k, v) (all_hyd its unr us nid) ->
  nid <= k < nid + Z.of_nat (List.length (all_hyd its unr us nid))
  /\ (exists u, In u us /\ In v (neighbors its u)) /\ ~ In v unr.
Proof.
  revert nid. induction us as [|u t IH]; intros nid; simpl; [intros []|].
  rewrite in_app_iff, app_length, Nat2Z.inj_add. intros [H|H].
  - destruct (hyd_list_keys _ _ _ _ _ H) as (H1 & H2 & H3). split; [lia|].
    split; [exists u; split; [left; reflexivity|exact H2]|exact H3].
  - destruct (IH _ H) as (H1 & (u' & Hu' & Hv) & H3). split; [lia|].
    split; [exists u'; split; [right; exact Hu'|exact Hv]|exact H3].
Qed.

Lemma NoDup_app_disj {A} (l1 l2 : list A) :
  NoDup l1 -> NoDup l2 -> (forall x, In x l1 -> ~ In x l2) -> NoDup (l1 ++ l2).
Proof.
  induction l1 as [|a t IH]; simpl; intros H1 H2 Hd; [exact H2|].
  inversion H1 as [|? ? Hni Hnt]; subst. constructor.
  - rewrite in_app_iff. intros [H|H]; [contradiction|]. apply (Hd a); [left; reflexivity|exact H].
  - apply IH; [exact Hnt|exact H2|]. intros x Hx. apply Hd. right. exact Hx.
Qed.

Lemma hyd_list_NoDup unr vs nid : NoDup (map fst (hyd_list unr vs nid)).
Proof.
  revert nid. induction vs as [|x t IH]; intros nid; simpl; [constructor|].
  destruct (zmem x unr); [apply IH|]. simpl. constructor; [|apply IH].
  intros H. apply in_map_iff in H. destruct H as ([k v] & Hk & Hin). simpl in Hk. subst.
  apply hyd_list_keys in Hin. lia.
Qed.

Lemma all_hyd_NoDup its unr us nid : NoDup (map fst (all_hyd its unr us nid)).
Proof.
  revert nid. induction us as [|u t IH]; intros nid; simpl; [constructor|].
  rewrite map_app. apply NoDup_app_disj; [apply hyd_list_NoDup|apply IH|].
  intros k H1 H2. apply in_map_iff in H1. destruct H1 as ([k1 v1] & Hk1 & Hin1).
  apply in_map_iff in H2. destruct H2 as ([k2 v2] & Hk2 & Hin2). simpl in *. subst.
  apply hyd_list_keys in Hin1. apply all_hyd_keys in Hin2. lia.
Qed.

(** * invariant preservation *)

Section Loop.
  Variable its : graph.
  Variable unr : list Z.
  Variable new0 : Z.
  Hypothesis Hwf : wf its.
  Hypothesis Hbound : forall n, has_node its n = true -> n < new0.
  Hypothesis Hunr : forall u, In u unr -> has_node its u = true.

  (* side conditions on the hydrogen list: ids in [new0, nid), attached to kept atoms *)
  Definition SC (H : list (Z * Z)) (nid : Z) : Prop :=
    new0 <= nid
    /\ forall k w, In (k, w) H -> new0 <= k < nid /\ has_node its w = true /\ ~ In w unr.

  Lemma sc_key_none H nid n : SC H nid -> (n < new0 \/ nid <= n) -> alookup n H = None.
  Proof.
    intros (_ & Hs) Hn. destruct (alookup n H) as [w|] eqn:E0; [|reflexivity].
    apply alookup_In in E0. apply Hs in E0. lia.
  Qed.

  Lemma sc_node_none H nid n : SC H nid -> has_node its n = true -> alookup n H = None.
  Proof. intros Hs Hn. eapply sc_key_none; [exact Hs|]. left. apply Hbound. exact Hn. Qed.

  Lemma sc_val H nid k w : SC H nid -> alookup k H = Some w ->
    new0 <= k < nid /\ has_node its w = true /\ ~ In w unr.
  Proof. intros (_ & Hs) E0. apply alookup_In in E0. apply Hs. exact E0. Qed.

  Lemma not_node_attr n : new0 <= n -> node_attr its n = None.
  Proof.
    intros Hn. destruct (node_attr its n) as [a|] eqn:E0; [|reflexivity].
    assert (has_node its n = true) by (apply node_attr_has_node; eauto).
    apply Hbound in H. lia.
  Qed.

  Lemma not_node_edge_l n y : new0 <= n -> edge_label its n y = None.
  Proof.
    intros Hn. destruct (edge_label its n y) as [l|] eqn:E0; [|reflexivity].
    apply edge_label_has_node in E0. apply Hbound in E0. lia.
  Qed.

  Lemma not_node_edge_r n x : new0 <= n -> edge_label its x n = None.
  Proof.
    intros Hn. destruct (edge_label its x n) as [l|] eqn:E0; [|reflexivity].
    destruct Hwf as (_ & _ & Hs). apply Hs in E0. rewrite not_node_edge_l in E0; [discriminate|exact Hn].
  Qed.

  Lemma inv_add p H R nid v :
    Inv its p H R -> SC H nid -> has_node its v = true -> ~ In v unr ->
    (forall u, In u R -> In u unr) ->
    Inv its (add_edge (add_node p nid HSYM) nid v HBOND) (H ++ [(nid, v)]) R
    /\ SC (H ++ [(nid, v)]) (nid + 1).
  Proof.
    intros (Ha & He & Hw) Hsc Hv Hvu HR. pose proof Hsc as (Hn0 & Hs).
    assert (Knid : alookup nid H = None) by (eapply sc_key_none; [exact Hsc|right; lia]).
    assert (Kv : alookup v H = None) by (eapply sc_node_none; eauto).
    assert (Hvn : v <> nid) by (apply Hbound in Hv; lia).
    assert (HvR : zmem v R = false) by (apply zmem_false; intros Hc; apply Hvu; apply HR; exact Hc).
    split; [split; [|split]|].
    - intros n. rewrite node_attr_add_edge, node_attr_add_node, !Ha. unfold st_attr.
      rewrite alookup_app. simpl. destruct (Z.eqb_spec n nid) as [->|Hne].
      + rewrite Knid. rewrite not_node_attr by lia. destruct (zmem nid R); reflexivity.
      + destruct (alookup n H) as [w|] eqn:En; [reflexivity|]. simpl.
        destruct (Z.eqb_spec n v) as [->|Hnv].
        * rewrite HvR. apply node_attr_has_node in Hv. destruct Hv as (a & ->). reflexivity.
        * destruct (zmem n R); [reflexivity|]. destruct (node_attr its n); reflexivity.
    - intros x y. rewrite edge_label_add_edge, edge_label_add_node, He. unfold st_edge.
      rewrite !alookup_app. simpl.
      destruct (Z.eqb_spec x nid) as [->|Hxn].
      + rewrite Knid. destruct (Z.eqb_spec nid v) as [Heq|_]; [congruence|]. simpl.
        rewrite orb_false_r. destruct (Z.eqb_spec y v) as [->|Hyv]; [reflexivity|].
        destruct (alookup y H) as [w|] eqn:Ey.
        * destruct (sc_val _ _ _ _ Hsc Ey) as (_ & Hw' & _). apply Hbound in Hw'.
          destruct (Z.eqb_spec nid w); [lia|reflexivity].
        * rewrite not_node_edge_l by lia. destruct (zmem nid R || zmem y R); reflexivity.
      + simpl. destruct (alookup x H) as [w|] eqn:Ex.
        * destruct (sc_val _ _ _ _ Hsc Ex) as (Hk & _ & _).
          destruct (Z.eqb_spec x v) as [->|_]; [apply Hbound in Hv; lia|]. reflexivity.
        * destruct (alookup y H) as [w|] eqn:Ey.
          -- destruct (sc_val _ _ _ _ Hsc Ey) as (Hk & _ & _).
             destruct (Z.eqb_spec y nid) as [->|_]; [lia|]. rewrite andb_false_r. reflexivity.
          -- destruct (Z.eqb_spec y nid) as [->|Hyn].
             ++ rewrite andb_true_r. destruct (Z.eqb_spec x v) as [->|Hxv]; [reflexivity|].
                rewrite not_node_edge_r by lia. destruct (zmem x R || zmem nid R); reflexivity.
             ++ rewrite andb_false_r. reflexivity.
    - apply wf_add_edge. apply wf_add_node. exact Hw.
    - split; [lia|]. intros k w Hin. apply in_app_or in Hin. destruct Hin as [Hin|[Hin|[]]].
      + destruct (Hs k w Hin) as (H1 & H2 & H3). split; [lia|]. split; assumption.
      + injection Hin as <- <-. split; [lia|]. split; assumption.
  Qed.

  Lemma inv_remove p H R nid u :
    Inv its p H R -> SC H nid -> In u unr -> Inv its (remove_node p u) H (u :: R).
  Proof.
    intros (Ha & He & Hw) Hsc Hu.
    assert (Ku : alookup u H = None) by (eapply sc_node_none; eauto).
    assert (Hval : forall k w, alookup k H = Some w -> w <> u).
    { intros k w Ek. destruct (sc_val _ _ _ _ Hsc Ek) as (_ & _ & Hn). intros ->. contradiction. }
    split; [|split].
    - intros n. rewrite node_attr_remove_node, Ha. unfold st_attr. simpl.
      destruct (Z.eqb_spec n u) as [->|Hne]; [rewrite Ku; reflexivity|reflexivity].
    - intros x y. rewrite edge_label_remove_node, He. unfold st_edge. simpl.
      destruct (Z.eqb_spec x u) as [->|Hxu]; simpl.
      + rewrite Ku. destruct (alookup y H) as [w|] eqn:Ey; [|reflexivity].
        destruct (Z.eqb_spec u w) as [->|_]; [exfalso; eapply Hval; eauto|reflexivity].
      + destruct (Z.eqb_spec y u) as [->|Hyu]; simpl.
        * destruct (alookup x H) as [w|] eqn:Ex.
          -- destruct (Z.eqb_spec u w) as [->|_]; [exfalso; eapply Hval; eauto|reflexivity].
          -- rewrite Ku, orb_true_r. reflexivity.
        * reflexivity.
    - apply wf_remove_node. exact Hw.
  Qed.

  Lemma hyd_loop_inv vs : forall p nid H R,
    Inv its p H R -> SC H nid ->
    (forall v, In v vs -> has_node its v = true) ->
    (forall u, In u R -> In u unr) ->
    let hl := hyd_list unr vs nid in
    Inv its (fst (hyd_loop unr vs p nid)) (H ++ hl) R
    /\ snd (hyd_loop unr vs p nid) = nid + Z.of_nat (List.length hl)
    /\ SC (H ++ hl) (nid + Z.of_nat (List.length hl)).
  Proof.
    induction vs as [|v t IH]; intros p nid H R Hinv Hsc Hvs HR; simpl.
    - rewrite app_nil_r, Z.add_0_r. auto.
    - destruct (zmem v unr) eqn:Ez.
      + apply IH; auto. intros w Hw. apply Hvs. right. exact Hw.
      + assert (Hv : has_node its v = true) by (apply Hvs; left; reflexivity).
        assert (Hvu : ~ In v unr) by (apply zmem_false; exact Ez).
        destruct (inv_add p H R nid v Hinv Hsc Hv Hvu HR) as (Hinv' & Hsc').
        assert (Hvs' : forall w, In w t -> has_node its w = true)
          by (intros w Hw; apply Hvs; right; exact Hw).
        destruct (IH _ _ _ _ Hinv' Hsc' Hvs' HR) as (H1 & H2 & H3).
        rewrite <- app_assoc in H1, H3. simpl in H1, H3. simpl List.length.
        replace (nid + Z.of_nat (S (List.length (hyd_list unr t (nid + 1)))))
          with (nid + 1 + Z.of_nat (List.length (hyd_list unr t (nid + 1)))) by lia.
        auto.
  Qed.

  Lemma neighbors_nodes u v : In v (neighbors its u) -> has_node its v = true.
  Proof.
    unfold neighbors. intros H. apply in_map_iff in H. destruct H as ([v' l] & Hv & Hin).
    simpl in Hv. subst. apply In_adj_edge_label in Hin; [|exact Hwf].
    eapply wf_edge_nodes; eauto.
  Qed.

  Lemma prune_loop_inv (ih : bool) us : forall p nid H R,
    Inv its p H R -> SC H nid ->
    (forall u, In u us -> In u unr) ->
    (forall u, In u R -> In u unr) ->
    Inv its (prune_loop its ih unr us p nid)
        (H ++ (if ih then all_hyd its unr us nid else [])) (rev us ++ R).
  Proof.
    induction us as [|u t IH]; intros p nid H R Hinv Hsc Hus HR.
    - simpl. destruct ih; rewrite app_nil_r; exact Hinv.
    - assert (Hu : In u unr) by (apply Hus; left; reflexivity).
      assert (Hus' : forall w, In w t -> In w unr) by (intros w Hw; apply Hus; right; exact Hw).
      assert (HR' : forall w, In w (u :: R) -> In w unr) by (intros w [<-|Hw]; auto).
      simpl prune_loop. simpl rev. rewrite <- app_assoc. simpl app.
      destruct ih.
      + pose proof (hyd_loop_inv (neighbors its u) p nid H R Hinv Hsc (neighbors_nodes u) HR)
          as (H1 & H2 & H3). cbv zeta in H1, H2, H3.
        destruct (hyd_loop unr (neighbors its u) p nid) as [p1 nid1]. simpl in H1, H2. subst nid1.
        pose proof (inv_remove _ _ _ _ u H1 H3 Hu) as H4.
        specialize (IH _ _ _ _ H4 H3 Hus' HR'). simpl all_hyd. rewrite app_assoc. exact IH.
      + pose proof (inv_remove _ _ _ _ u Hinv Hsc Hu) as H4.
        specialize (IH _ _ _ _ H4 Hsc Hus' HR'). exact IH.
  Qed.
End Loop.

(** * from the invariant to the specification *)

Lemma zmem_rev n l : zmem n (rev l ++ []) = zmem n l.
Proof.
  apply eq_true_iff_eq. rewrite !zmem_In, app_nil_r. symmetry. apply in_rev.
Qed.

Lemma sorted_lt_NoDup l : StronglySorted Z.lt l -> NoDup l.
Proof.
  induction l as [|x t IH]; intros H; [constructor|].
  inversion H as [|? ? Hs Hall]; subst. constructor; [|apply IH; exact Hs].
  intros Hin. rewrite Forall_forall in Hall. specialize (Hall x Hin). lia.
Qed.

Lemma in_neighbors_has_edge g u v : In v (neighbors g u) <-> has_edge g u v = true.
Proof.
  unfold neighbors, has_edge, edge_label. split.
  - intros H. apply In_alookup in H. destruct H as (l & ->). reflexivity.
  - destruct (alookup v (adj g u)) as [l|] eqn:E0; [|discriminate]. intros _.
    eapply alookup_Some_key. exact E0.
Qed.

Lemma in_cuts_of its unr us u v :
  In (u, v) (cuts_of its unr us) <-> In u us /\ In v (neighbors its u) /\ ~ In v unr.
Proof.
  unfold cuts_of. rewrite in_flat_map. split.
  - intros (u' & Hu' & Hin). apply in_map_iff in Hin. destruct Hin as (v' & Heq & Hf).
    injection Heq as -> ->. apply filter_In in Hf. destruct Hf as (Hn & Hz).
    split; [exact Hu'|]. split; [exact Hn|]. apply zmem_false. apply negb_true_iff. exact Hz.
  - intros (Hu & Hn & Hz). exists u. split; [exact Hu|]. apply in_map_iff. exists v.
    split; [reflexivity|]. apply filter_In. split; [exact Hn|].
    apply negb_true_iff. apply zmem_false. exact Hz.
Qed.

Lemma cuts_of_NoDup its unr us :
  NoDup us -> (forall u, NoDup (neighbors its u)) -> NoDup (cuts_of its unr us).
Proof.
  intros Hus Hn. unfold cuts_of. induction us as [|u t IH]; simpl; [constructor|].
  inversion Hus as [|? ? Hni Hnt]; subst. apply NoDup_app_disj.
  - assert (Hf : NoDup (filter (fun v => negb (zmem v unr)) (neighbors its u)))
      by (apply NoDup_filter; apply Hn).
    clear -Hf. induction Hf as [|x l Hx Hl IHl]; simpl; constructor; [|exact IHl].
    intros Hin. apply in_map_iff in Hin. destruct Hin as (y & Heq & Hy). injection Heq as ->.
    contradiction.
  - apply IH. exact Hnt.
  - intros [a b] H1 H2. apply in_map_iff in H1. destruct H1 as (y & Heq & _). injection Heq as <- <-.
    apply in_flat_map in H2. destruct H2 as (u' & Hu' & Hin). apply in_map_iff in Hin.
    destruct Hin as (y' & Heq & _). injection Heq as -> _. contradiction.
Qed.

Lemma Forall_to_Forall2 (P : Z -> Z -> Prop) (Hl cuts : list (Z * Z)) :
  Forall (fun kv => P (fst kv) (snd kv)) Hl -> map snd Hl = map snd cuts ->
  Forall2 (fun n c => P n (snd c)) (map fst Hl) cuts.
Proof.
  revert cuts. induction Hl as [|[k w] t IH]; intros cuts HF Hm.
  - destruct cuts; [constructor|discriminate].
  - destruct cuts as [|c cs]; [discriminate|]. simpl in Hm. injection Hm as Hw Hm.
    inversion HF as [|? ? Hh Ht]; subst. simpl. constructor.
    + simpl in Hh. exact Hh.
    + apply IH; assumption.
Qed.

Section Final.
  Variable its : graph.
  Variable r : nat.
  Hypothesis Hwf : wf its.

  Lemma rc_node_has_node s : rc_node its s -> has_node its s = true.
  Proof. intros (v & l & He & _). eapply edge_label_has_node. exact He. Qed.

  Lemma in_ctx_has_node v : in_ctx its r v -> has_node its v = true.
  Proof.
    intros (s & Hs & Hr). eapply greach_has_node; [exact Hwf|apply rc_node_has_node; exact Hs|exact Hr].
  Qed.

  Variable rc : graph.
  Variable unr : list Z.
  Hypothesis Hrc : get_rc its = Ok rc.
  Hypothesis Hun : get_unreachable_nodes its (nodes rc) r = Ok unr.

  Lemma rc_nodes_iff s : In s (nodes rc) <-> rc_node its s.
  Proof.
    destruct (rc_spec_holds its Hwf rc Hrc) as (_ & He & Hn). rewrite <- has_node_In. split.
    - intros H. apply node_attr_has_node in H. destruct H as (a & Ha). apply Hn in Ha. apply Ha.
    - intros (v & l & Hr). apply He in Hr. eapply edge_label_has_node. exact Hr.
  Qed.

  Lemma unr_iff v : In v unr <-> has_node its v = true /\ ~ in_ctx its r v.
  Proof.
    destruct (unreachable_spec_holds its (nodes rc) r unr Hwf Hun) as (Hs & _).
    rewrite Hs. split; intros (Hv & Hno); (split; [exact Hv|]).
    - intros (s & Hrs & Hr). apply (Hno s); [apply rc_nodes_iff; exact Hrs|exact Hr].
    - intros s Hsn Hr. apply Hno. exists s. split; [apply rc_nodes_iff; exact Hsn|exact Hr].
  Qed.

  Lemma not_unr_ctx v : has_node its v = true -> ~ In v unr -> in_ctx its r v.
  Proof.
    intros Hv Hni.
    destruct (unreachable_complement its (nodes rc) r unr v Hwf Hun Hv Hni) as (s & Hs & Hr).
    exists s. split; [apply rc_nodes_iff; exact Hs|exact Hr].
  Qed.

  Lemma ctx_not_unr v : in_ctx its r v -> ~ In v unr.
  Proof. intros Hc Hin. apply unr_iff in Hin. destruct Hin as (_ & Hn). contradiction. Qed.

  Lemma unr_NoDup : NoDup unr.
  Proof.
    destruct (unreachable_spec_holds its (nodes rc) r unr Hwf Hun) as (_ & Hs).
    apply sorted_lt_NoDup. exact Hs.
  Qed.

  Lemma in_cuts_cut_bond u v : In (u, v) (cuts_of its unr unr) <-> cut_bond its r u v.
  Proof.
    rewrite in_cuts_of, in_neighbors_has_edge, unr_iff. unfold cut_bond. split.
    - intros ((Hu & Hnu) & He & Hv). split; [exact Hu|]. split; [exact Hnu|].
      split; [|exact He]. apply not_unr_ctx; [|exact Hv].
      unfold has_edge in He. destruct (edge_label its u v) as [l|] eqn:El; [|discriminate].
      eapply wf_edge_nodes; eauto.
    - intros (Hu & Hnu & Hv & He). split; [split; assumption|]. split; [exact He|].
      apply ctx_not_unr. exact Hv.
  Qed.
End Final.

(** * the main theorem *)

Lemma has_node_node_attr g n : has_node g n = true <-> node_attr g n <> None.
Proof.
  rewrite node_attr_has_node. split.
  - intros (a & ->). discriminate.
  - destruct (node_attr g n) as [a|]; [eauto|congruence].
Qed.

Theorem prune_spec_holds its r ih out :
  wf its -> prune_its_to_rc its r ih = Ok out -> prune_spec its r ih out.
Proof.
  intros Hwf H. unfold prune_its_to_rc in H.
  destruct (get_rc its) as [rc|e] eqn:Hrc; [|discriminate].
  destruct (get_unreachable_nodes its (nodes rc) r) as [unr|e] eqn:Hun; [|discriminate].
  destruct (nodes its) as [|x0 t0] eqn:En; [discriminate|]. injection H as Hout.
  set (new0 := zmax_list x0 t0 + 1) in *.
  assert (Hbound : forall n, has_node its n = true -> n < new0).
  { intros n Hn. apply has_node_In in Hn. rewrite En in Hn. unfold new0.
    destruct Hn as [<-|Hn]; [pose proof (zmax_list_ge x0 t0); lia|].
    pose proof (zmax_list_In x0 t0 n Hn). lia. }
  pose proof (unr_iff its r Hwf rc unr Hrc Hun) as Hunr.
  assert (Hunr_node : forall u, In u unr -> has_node its u = true) by (intros u Hu; apply Hunr; exact Hu).
  set (Hfin := if ih then all_hyd its unr unr new0 else []).
  assert (Hinv : Inv its out ([] ++ Hfin) (rev unr ++ [])).
  { rewrite <- Hout. apply (prune_loop_inv its unr new0 Hwf Hbound Hunr_node ih unr).
    - split; [|split].
      + intros n. unfold st_attr. simpl. apply node_attr_copy. exact Hwf.
      + intros x y. unfold st_edge. simpl. apply edge_label_copy. exact Hwf.
      + apply wf_copy.
    - split; [lia|]. intros k w [].
    - auto.
    - intros u []. }
  simpl app in Hinv. destruct Hinv as (Ha & He & Hw).
  assert (Hkeys : forall k w, In (k, w) Hfin -> new0 <= k /\ has_node its w = true /\ ~ In w unr).
  { intros k w Hin. unfold Hfin in Hin. destruct ih; [|destruct Hin].
    destruct (all_hyd_keys _ _ _ _ _ _ Hin) as (H1 & (u & _ & Hn) & H3).
    split; [lia|]. split; [eapply neighbors_nodes; eauto|exact H3]. }
  assert (Hnd : NoDup (map fst Hfin)).
  { unfold Hfin. destruct ih; [apply all_hyd_NoDup|constructor]. }
  assert (Knode : forall n, has_node its n = true -> alookup n Hfin = None).
  { intros n Hn. destruct (alookup n Hfin) as [w|] eqn:E0; [|reflexivity].
    apply alookup_In in E0. apply Hkeys in E0. apply Hbound in Hn. lia. }
  (* A1, A2: old nodes; A3: hydrogens; A4: nothing else *)
  assert (A1 : forall n, has_node its n = true ->
                 node_attr out n = if zmem n unr then None else node_attr its n).
  { intros n Hn. rewrite Ha. unfold st_attr. rewrite (Knode n Hn), zmem_rev. reflexivity. }
  assert (A2 : forall x y, has_node its x = true -> has_node its y = true ->
                 edge_label out x y = if zmem x unr || zmem y unr then None else edge_label its x y).
  { intros x y Hx Hy. rewrite He. unfold st_edge. rewrite (Knode x Hx), (Knode y Hy), !zmem_rev.
    reflexivity. }
  assert (A3 : forall k w, In (k, w) Hfin ->
                 node_attr out k = Some HSYM
                 /\ forall y, edge_label out k y = if y =? w then Some HBOND else None).
  { intros k w Hin. pose proof (NoDup_alookup k w Hfin Hnd Hin) as Ek. split.
    - rewrite Ha. unfold st_attr. rewrite Ek. reflexivity.
    - intros y. rewrite He. unfold st_edge. rewrite Ek. reflexivity. }
  assert (A4 : forall n, has_node out n = true -> has_node its n = true \/ In n (map fst Hfin)).
  { intros n Hn. apply has_node_node_attr in Hn. rewrite Ha in Hn. unfold st_attr in Hn.
    destruct (alookup n Hfin) as [w|] eqn:E0.
    - right. eapply alookup_Some_key. exact E0.
    - left. destruct (zmem n (rev unr ++ [])); [congruence|]. apply has_node_node_attr. exact Hn. }
  assert (Zin : forall v, in_ctx its r v -> zmem v unr = false).
  { intros v Hc. apply zmem_false. exact (ctx_not_unr its r Hwf rc unr Hrc Hun v Hc). }
  assert (Zout : forall v, has_node its v = true -> zmem v unr = false -> in_ctx its r v).
  { intros v Hv Hz. apply zmem_false in Hz. exact (not_unr_ctx its r Hwf rc unr Hrc Hun v Hv Hz). }
  split; [exact Hw|]. split; [|split; [|split; [|split]]].
  - intros v Hv. rewrite has_node_node_attr, (A1 v Hv). destruct (zmem v unr) eqn:Ez.
    + split; [congruence|]. intros Hc. rewrite (Zin v Hc) in Ez. discriminate.
    + split; [intros _|intros _; apply has_node_node_attr; exact Hv].
      apply Zout; assumption.
  - intros v Hc. rewrite (A1 v (in_ctx_has_node its r Hwf v Hc)), (Zin v Hc). reflexivity.
  - intros u v Hu Hv.
    rewrite (A2 u v (in_ctx_has_node its r Hwf u Hu) (in_ctx_has_node its r Hwf v Hv)).
    rewrite (Zin u Hu), (Zin v Hv). reflexivity.
  - intros u v Hu Hv Hedge. unfold has_edge in Hedge. rewrite (A2 u v Hu Hv) in Hedge.
    destruct (zmem u unr) eqn:Eu; [discriminate|]. destruct (zmem v unr) eqn:Ev; [discriminate|].
    split; apply Zout; assumption.
  - destruct ih.
    + exists (map fst Hfin), (cuts_of its unr unr).
      split; [exact Hnd|]. split; [|split; [|split; [|split]]].
      * intros n. split.
        -- intros Hin. apply in_map_iff in Hin. destruct Hin as ([k w] & Hk & Hin). simpl in Hk. subst k.
           destruct (A3 n w Hin) as (Hattr & _). split.
           ++ apply node_attr_has_node. eauto.
           ++ destruct (has_node its n) eqn:Hn; [|reflexivity].
              apply Hbound in Hn. apply Hkeys in Hin. lia.
        -- intros (Ho & Hi). destruct (A4 n Ho) as [Hc|Hc]; [congruence|exact Hc].
      * apply cuts_of_NoDup; [exact (unr_NoDup its r Hwf rc unr Hun)|]. intros u. apply Hwf.
      * intros u v. exact (in_cuts_cut_bond its r Hwf rc unr Hrc Hun u v).
      * apply (Forall_to_Forall2
                 (fun n w => node_attr out n = Some HSYM
                             /\ forall y, edge_label out n y = if y =? w then Some HBOND else None)).
        -- apply Forall_forall. intros [k w] Hin. simpl. apply A3. exact Hin.
        -- unfold Hfin. apply all_hyd_snd.
      * intros n m Hin Hm. apply in_map_iff in Hin. destruct Hin as ([k w] & Hk & Hin).
        simpl in Hk. subst k. apply Hkeys in Hin. apply Hbound in Hm. lia.
    + intros n Hn. destruct (A4 n Hn) as [Hc|[]]. exact Hc.
Qed.

(* exceptions of prune_its_to_rc: those of get_rc, or the empty graph *)
Theorem prune_error its r ih e :
  wf its -> prune_its_to_rc its r ih = Err e ->
  get_rc its = Err e \/ (e = NetworkXError /\ nodes its = []).
Proof.
  intros Hwf H. unfold prune_its_to_rc in H.
  destruct (get_rc its) as [rc|e'] eqn:Hrc; [|left; exact H]. right.
  pose proof (unreachable_result its (nodes rc) r Hwf) as Hres.
  destruct (get_unreachable_nodes its (nodes rc) r) as [unr|e'] eqn:Hun.
  - destruct Hres as (Hne & _). destruct (nodes its); [congruence|discriminate].
  - injection H as <-. destruct e'; try contradiction.
    + exfalso. destruct Hres as (_ & s & Hs & Hn).
      apply (rc_nodes_iff its Hwf rc Hrc) in Hs. apply rc_node_has_node in Hs. congruence.
    + split; [reflexivity|exact Hres].
Qed.

(* on the ITS domain (non-empty graph, tuple/list labels, reaction-centre atoms carry a symbol)
   pruning never raises *)
Theorem prune_total its r ih :
  wf its -> nodes its <> [] ->
  (forall u v l, edge_label its u v = Some l -> lab_differs l <> None) ->
  (forall n, rc_node its n -> sym_of its n <> None) ->
  exists out, prune_its_to_rc its r ih = Ok out.
Proof.
  intros Hwf Hne Hl Hs. destruct (rc_total its Hwf Hl Hs) as (rc & Hrc).
  unfold prune_its_to_rc. rewrite Hrc.
  pose proof (unreachable_result its (nodes rc) r Hwf) as Hres.
  destruct (get_unreachable_nodes its (nodes rc) r) as [unr|e] eqn:Hun.
  - destruct (nodes its) as [|x t]; [congruence|]. eauto.
  - exfalso. destruct e; try contradiction.
    destruct Hres as (_ & s & Hin & Hn).
    apply (rc_nodes_iff its Hwf rc Hrc) in Hin. apply rc_node_has_node in Hin. congruence.
Qed.
