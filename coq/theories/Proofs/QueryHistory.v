(** C06 on the model: the answer of FGQuery.get does not depend on earlier get() calls on the
    same object.  The only state is the provider's cached tree. *)
From Coq Require Import ZArith List Bool String.
From FGV Require Import Base.Util Base.Bond Base.NX Model.Permute Model.Match Model.FGTree Model.Query.
Import ListNotations.

(* the object after a history of earlier calls (their answers are discarded) *)
Definition run_history (q : fgquery) (hist : list graph) : fgquery :=
  fold_left (fun q h => snd (get q h)) hist q.

(* the cached tree, if any, is the one a fresh object would build *)
Definition coherent (q : fgquery) : Prop :=
  match q_tree q with
  | None => True
  | Some tr => build_config_tree_from_list (q_mapper q) (q_configs q) = Good tr
  end.

Definition same_params (q q' : fgquery) : Prop :=
  q_mapper q' = q_mapper q /\ q_configs q' = q_configs q /\ q_req_h q' = q_req_h q.

Lemma get_step q g :
  coherent q ->
  fst (get q g) = query (q_mapper q) (q_configs q) (q_req_h q) g
  /\ coherent (snd (get q g)) /\ same_params q (snd (get q g)).
Proof.
  intros Hc. unfold query, get, get_tree, fresh_query, coherent, same_params in *.
  cbn [q_tree q_mapper q_configs q_req_h].
  destruct (q_tree q) as [tr|] eqn:Et.
  - rewrite Hc. cbn [fst snd]. rewrite Et. auto.
  - destruct (build_config_tree_from_list (q_mapper q) (q_configs q)) as [tr|e] eqn:Eb; cbn [fst snd q_tree q_mapper q_configs q_req_h].
    + auto.
    + rewrite Et. auto.
Qed.

Lemma run_history_inv hist : forall q,
  coherent q -> coherent (run_history q hist) /\ same_params q (run_history q hist).
Proof.
  induction hist as [|h t IH]; intros q Hc; simpl.
  - split; auto. unfold same_params. auto.
  - destruct (get_step q h Hc) as [_ [Hc' [Hm [Hcf Hr]]]].
    destruct (IH _ Hc') as [Hc'' [Hm' [Hcf' Hr']]].
    split; auto. unfold same_params. rewrite Hm', Hcf', Hr'. auto.
Qed.

Lemma fresh_coherent mp cfgs req_h : coherent (fresh_query mp cfgs req_h).
Proof. exact I. Qed.

(* any history of earlier get() calls on the same object: the answer equals that of a fresh object *)
Theorem history_independent mp cfgs req_h hist g :
  fst (get (run_history (fresh_query mp cfgs req_h) hist) g) = query mp cfgs req_h g.
Proof.
  destruct (run_history_inv hist (fresh_query mp cfgs req_h) (fresh_coherent mp cfgs req_h)) as [Hc [Hm [Hcf Hr]]].
  destruct (get_step _ g Hc) as [E _]. rewrite E, Hm, Hcf, Hr. reflexivity.
Qed.

(* asking again gives the same answer *)
Corollary ask_twice mp cfgs req_h g :
  let q := fresh_query mp cfgs req_h in
  fst (get (snd (get q g)) g) = fst (get q g).
Proof.
  intros q. exact (history_independent mp cfgs req_h [g] g).
Qed.

(* the answer is a function of (mapper, configuration list, flag, molecule) alone: two objects
   built from equal arguments agree, whatever was asked of them before *)
Corollary two_objects_agree mp cfgs req_h hist hist' g :
  fst (get (run_history (fresh_query mp cfgs req_h) hist) g)
  = fst (get (run_history (fresh_query mp cfgs req_h) hist') g).
Proof. rewrite !history_independent. reflexivity. Qed.

(* a failed tree construction caches nothing: the next call fails the same way *)
Lemma failed_build_not_cached mp cfgs req_h e g :
  build_config_tree_from_list mp cfgs = Bad e ->
  get (fresh_query mp cfgs req_h) g = (Bad e, fresh_query mp cfgs req_h).
Proof.
  intros H. unfold get, get_tree, fresh_query. cbn [q_tree q_mapper q_configs q_req_h]. rewrite H. reflexivity.
Qed.
