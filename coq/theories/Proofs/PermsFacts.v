(** Facts about [selects] and [perms] (Model/Permute.v): [perms l] enumerates exactly the
    permutations of [l], without repetition when [l] has none. Generic list lemmas used by the
    C08 proofs are collected here as well. *)
From Coq Require Import ZArith List Bool Lia Permutation.
From FGV Require Import Base.Util Model.Permute.
Import ListNotations.
Open Scope nat_scope.

(** * generic list lemmas *)

Lemma NoDup_app_intro {A} (l1 l2 : list A) :
  NoDup l1 -> NoDup l2 -> (forall x, In x l1 -> ~ In x l2) -> NoDup (l1 ++ l2).
Proof.
  induction l1 as [|a t IH]; simpl; intros H1 H2 Hd; [exact H2|].
  inversion H1 as [|? ? Hni Hnd]; subst. constructor.
  - rewrite in_app_iff. intros [H|H]; [auto | apply (Hd a); auto].
  - apply IH; auto.
Qed.

Lemma NoDup_app_inv {A} (l1 l2 : list A) :
  NoDup (l1 ++ l2) -> NoDup l1 /\ NoDup l2 /\ (forall x, In x l1 -> ~ In x l2).
Proof.
  induction l1 as [|a t IH]; simpl; intros H.
  - split; [constructor|]. split; [exact H|]. intros x [].
  - inversion H as [|? ? Hni Hnd]; subst. destruct (IH Hnd) as (H1 & H2 & H3).
    split; [constructor; [intros Hin; apply Hni; apply in_or_app; auto | exact H1]|].
    split; [exact H2|]. intros x [->|Hx]; [intros Hin; apply Hni; apply in_or_app; auto | auto].
Qed.

Lemma NoDup_flat_map_key {A B K} (g : A -> list B) (kb : B -> K) (ka : A -> K) (l : list A) :
  NoDup (map ka l) ->
  (forall a, In a l -> NoDup (g a)) ->
  (forall a b, In a l -> In b (g a) -> kb b = ka a) ->
  NoDup (flat_map g l).
Proof.
  induction l as [|a t IH]; simpl; intros Hk Hg Hkey; [constructor|].
  inversion Hk as [|? ? Hni Hnd]; subst. apply NoDup_app_intro.
  - apply Hg; auto.
  - apply IH; auto.
  - intros b Hb Hb'. apply in_flat_map in Hb'. destruct Hb' as (a' & Ha' & Hb').
    apply Hni. apply in_map_iff. exists a'. split; [|exact Ha'].
    rewrite <- (Hkey a b), <- (Hkey a' b); auto.
Qed.

Lemma NoDup_firstn {A} n (l : list A) : NoDup l -> NoDup (firstn n l).
Proof.
  intros H. rewrite <- (firstn_skipn n l) in H. apply NoDup_app_inv in H. tauto.
Qed.

(** * selects *)

Lemma selects_In {A} (l : list A) x r :
  In (x, r) (selects l) <-> exists l1 l2, l = l1 ++ x :: l2 /\ r = l1 ++ l2.
Proof.
  revert x r. induction l as [|y t IH]; intros x r; simpl.
  - split; [tauto|]. intros (l1 & l2 & H & _). destruct l1; discriminate.
  - split.
    + intros [H|H].
      * injection H as <- <-. exists [], t. auto.
      * apply in_map_iff in H. destruct H as ([z r'] & Heq & Hin). injection Heq as <- <-.
        apply IH in Hin. destruct Hin as (l1 & l2 & -> & ->). exists (y :: l1), l2. auto.
    + intros (l1 & l2 & H & ->). destruct l1 as [|a l1]; simpl in H; injection H as -> ->.
      * left. reflexivity.
      * right. apply in_map_iff. exists (x, l1 ++ l2). split; [reflexivity|].
        apply IH. exists l1, l2. auto.
Qed.

Lemma selects_perm {A} (l : list A) x r : In (x, r) (selects l) -> Permutation l (x :: r).
Proof.
  intros H. apply selects_In in H. destruct H as (l1 & l2 & -> & ->).
  symmetry. apply Permutation_middle.
Qed.

Lemma selects_length {A} (l : list A) x r : In (x, r) (selects l) -> length l = S (length r).
Proof. intros H. apply selects_perm in H. apply Permutation_length in H. exact H. Qed.

Lemma selects_fst {A} (l : list A) : map fst (selects l) = l.
Proof.
  induction l as [|y t IH]; simpl; [reflexivity|]. f_equal.
  rewrite map_map. rewrite <- IH at 2. apply map_ext. intros [z r]. reflexivity.
Qed.

Lemma selects_exists {A} (l : list A) x : In x l -> exists r, In (x, r) (selects l).
Proof.
  intros H. apply in_split in H. destruct H as (l1 & l2 & ->).
  exists (l1 ++ l2). apply selects_In. eauto.
Qed.

Lemma selects_NoDup {A} (l : list A) x r : NoDup l -> In (x, r) (selects l) -> NoDup r.
Proof.
  intros Hnd H. apply selects_In in H. destruct H as (l1 & l2 & -> & ->).
  apply NoDup_remove_1 in Hnd. exact Hnd.
Qed.

(** * perms *)

Lemma perms_fuel_In {A} fuel : forall (l l' : list A), length l <= fuel ->
  (In l' (perms_fuel fuel l) <-> Permutation l l').
Proof.
  induction fuel as [|f IH]; intros l l' Hlen.
  - destruct l; [|simpl in Hlen; lia]. simpl. split.
    + intros [<-|[]]. constructor.
    + intros H. apply Permutation_nil in H. auto.
  - destruct l as [|a t].
    + simpl. split; [intros [<-|[]]; constructor | intros H; apply Permutation_nil in H; auto].
    + cbn [perms_fuel]. rewrite in_flat_map. split.
      * intros ([x r] & Hsel & Hin). apply in_map_iff in Hin. destruct Hin as (l'' & <- & Hin).
        pose proof (selects_length _ _ _ Hsel) as Hl. apply IH in Hin; [|simpl in *; lia].
        apply selects_perm in Hsel. rewrite Hsel. apply perm_skip. exact Hin.
      * intros Hp. destruct l' as [|x l''].
        { apply Permutation_sym, Permutation_nil in Hp. discriminate. }
        assert (Hx : In x (a :: t)).
        { apply (Permutation_in x (Permutation_sym Hp)). left. reflexivity. }
        destruct (selects_exists _ _ Hx) as (r & Hsel). exists (x, r). split; [exact Hsel|].
        apply in_map. pose proof (selects_length _ _ _ Hsel) as Hl. apply IH; [simpl in *; lia|].
        apply selects_perm in Hsel. rewrite Hsel in Hp. apply Permutation_cons_inv in Hp. exact Hp.
Qed.

(* the list returned for [l] holds exactly the permutations of [l] *)
Theorem perms_In {A} (l l' : list A) : In l' (perms l) <-> Permutation l l'.
Proof. unfold perms. apply perms_fuel_In. lia. Qed.

Lemma perms_fuel_NoDup {A} fuel : forall (l : list A), NoDup l -> NoDup (perms_fuel fuel l).
Proof.
  induction fuel as [|f IH]; intros l Hnd.
  - simpl. constructor; [intros []|constructor].
  - destruct l as [|a t]; [simpl; constructor; [intros []|constructor]|].
    cbn [perms_fuel].
    apply (NoDup_flat_map_key _ (@hd_error A) (fun xr => Some (fst xr))).
    + rewrite <- map_map. rewrite selects_fst.
      apply FinFun.Injective_map_NoDup; [intros x y H; injection H; auto | exact Hnd].
    + intros [x r] Hsel. apply FinFun.Injective_map_NoDup; [intros u v H; injection H; auto|].
      apply IH. apply (selects_NoDup _ _ _ Hnd Hsel).
    + intros [x r] b _ Hb. apply in_map_iff in Hb. destruct Hb as (l'' & <- & _). reflexivity.
Qed.

(* no permutation is listed twice when the elements are pairwise distinct *)
Theorem perms_NoDup {A} (l : list A) : NoDup l -> NoDup (perms l).
Proof. apply perms_fuel_NoDup. Qed.

Lemma perms_length {A} (l l' : list A) : In l' (perms l) -> length l' = length l.
Proof. intros H. apply perms_In in H. symmetry. apply Permutation_length. exact H. Qed.
