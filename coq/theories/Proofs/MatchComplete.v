(** The search of Model/Match.v never raises on graphs whose nodes all carry a symbol,
    and it finds a result whenever an embedding exists (C03).  The facts about [permute]
    are premises about the mapper at hand. *)
From Coq Require Import ZArith List Bool String Lia.
From FGV Require Import Base.Util Base.UtilFacts Base.Bond Base.NX Base.Sym Model.Permute Model.Match
  Spec.Embedding Spec.PermuteAssign Proofs.NXLookup Proofs.EmbeddingFacts Proofs.MatchBasics
  Proofs.PermuteShape Proofs.MatchProofs.
Import ListNotations.
Open Scope Z_scope.
Open Scope list_scope.

(** * list helpers *)

Fixpoint index_of (x : Z) (l : list Z) : nat :=
  match l with
  | [] => 0
  | y :: t => if x =? y then 0 else S (index_of x t)
  end.

Lemma index_of_nth x l : In x l -> nth_error l (index_of x l) = Some x.
Proof.
  induction l as [|y t IH]; simpl; [tauto|]. intros H.
  destruct (Z.eqb_spec x y) as [->|Hne]; [reflexivity|].
  destruct H as [->|H]; [contradiction|]. simpl. apply IH. exact H.
Qed.

Lemma index_of_lt x l : In x l -> (index_of x l < List.length l)%nat.
Proof. intros H. apply nth_error_Some. rewrite index_of_nth by exact H. discriminate. Qed.

Lemma nth_error_map_fst {A B} (l : list (A * B)) t x :
  nth_error (map fst l) t = Some x -> exists y, nth_error l t = Some (x, y).
Proof.
  rewrite nth_error_map. destruct (nth_error l t) as [[a b]|]; simpl; [|discriminate].
  intros [= <-]. eauto.
Qed.

Lemma map_fst_combine {A B} (l1 : list A) (l2 : list B) :
  List.length l1 = List.length l2 -> map fst (combine l1 l2) = l1.
Proof.
  revert l2. induction l1 as [|x t IH]; intros [|y r]; simpl; intros H; try discriminate; [reflexivity|].
  f_equal. apply IH. lia.
Qed.

Lemma map_snd_combine {A B} (l1 : list A) (l2 : list B) :
  List.length l1 = List.length l2 -> map snd (combine l1 l2) = l2.
Proof.
  revert l2. induction l1 as [|x t IH]; intros [|y r]; simpl; intros H; try discriminate; [reflexivity|].
  f_equal. apply IH. lia.
Qed.

Lemma In_combine_nth {A B} (l1 : list A) (l2 : list B) x y :
  In (x, y) (combine l1 l2) -> exists t, nth_error l1 t = Some x /\ nth_error l2 t = Some y.
Proof.
  revert l2. induction l1 as [|a t IH]; intros [|b r]; simpl; try tauto.
  intros [H|H].
  - injection H as -> ->. exists 0%nat. auto.
  - destruct (IH r H) as (k & H1 & H2). exists (S k). auto.
Qed.

Lemma nth_error_zseq n t x : nth_error (zseq n) t = Some x -> x = Z.of_nat t /\ (t < n)%nat.
Proof.
  unfold zseq. rewrite nth_error_map. destruct (nth_error (seq 0 n) t) as [k|] eqn:E; [|discriminate].
  simpl. intros [= <-].
  assert (Hlt : (t < List.length (seq 0 n))%nat) by (apply nth_error_Some; congruence).
  rewrite seq_length in Hlt. apply (nth_error_nth _ _ 0%nat) in E. rewrite seq_nth in E by lia.
  subst k. split; [reflexivity|lia].
Qed.

Lemma NoDup_map_on {A B} (g : A -> B) (l : list A) :
  NoDup l -> (forall x y, In x l -> In y l -> g x = g y -> x = y) -> NoDup (map g l).
Proof.
  induction 1 as [|x t Hni Hnd IH]; simpl; intros Hinj; [constructor|]. constructor.
  - intros Hin. apply in_map_iff in Hin. destruct Hin as (y & Hy & Hin).
    assert (y = x) by (apply Hinj; [right; exact Hin | left; reflexivity | exact Hy]). subst. contradiction.
  - apply IH. intros; apply Hinj; try right; assumption.
Qed.

Lemma filter_all {A} (f : A -> bool) l : (forall x, In x l -> f x = true) -> filter f l = l.
Proof.
  induction l as [|x t IH]; simpl; intros H; [reflexivity|].
  rewrite (H x (or_introl eq_refl)). f_equal. apply IH. intros; apply H; right; assumption.
Qed.

Section Total.
  Variables G P : graph.
  Variable mp : mapper.
  Hypothesis HwfP : wfb P = true.
  Hypothesis HwfG : wfb G = true.
  Hypothesis HsymP : has_syms P.
  Hypothesis HsymG : has_syms G.
  Hypothesis Hsound : permute_sound_for mp.

  Lemma scan_total idx pidx m :
    exists r, (r = ScanStop \/ exists pnn, r = ScanOk pnn) /\ scan G P idx pidx m (neighbors P pidx) = r.
  Proof.
    destruct (scan G P idx pidx m (neighbors P pidx)) as [e| |pnn] eqn:E; [exfalso|eauto|eauto].
    revert E. apply scan_no_raise.
    - intros q Hq. apply HsymP. eapply wfb_neighbor_node; eauto.
    - intros q Hq. apply neighbors_edge_label. exact Hq.
  Qed.

  Lemma get_neighbors_total idx used : exists nn, get_neighbors G idx used = Some nn.
  Proof.
    apply with_syms_total. intros n Hn. apply filter_In in Hn. destruct Hn as [Hn _].
    apply HsymG. eapply wfb_neighbor_node; eauto.
  Qed.

  Lemma assign_ok_total idx pidx m used pnn nn a : forall m0 u td,
    scan G P idx pidx m (neighbors P pidx) = ScanOk pnn ->
    get_neighbors G idx used = Some nn ->
    assign_ok mp (map snd pnn) (map snd nn) a ->
    exists o, assign G P idx pidx pnn nn a m0 u td = Ok o.
  Proof.
    intros m0 u td Hscan Hnn (Hfst & _ & Hadm). rewrite !map_length in *.
    apply scan_spec in Hscan. destruct Hscan as (Hk & _ & _).
    apply assign_no_raise. intros pi ni Hin.
    assert (Hpi : In pi (zseq (List.length pnn))) by (rewrite <- Hfst; apply (in_map fst) in Hin; exact Hin).
    apply in_zseq in Hpi. destruct Hpi as (t & -> & Ht).
    destruct (nth_error pnn t) as [[q s]|] eqn:Eq; [|apply nth_error_None in Eq; lia].
    exists q, s. rewrite py_index_nat. split; [exact Eq|]. split.
    - apply neighbors_edge_label.
      assert (Hq : In q (map fst pnn)) by (apply nth_error_In in Eq; apply (in_map fst) in Eq; exact Eq).
      rewrite Hk in Hq. apply filter_In in Hq. tauto.
    - destruct (Hadm _ _ Hin) as [?|[Hr _]]; [left; assumption|right].
      rewrite py_index_nonneg by lia.
      destruct (nth_error nn (Z.to_nat ni)) as [[n s']|] eqn:En; [|apply nth_error_None in En; lia].
      exists n, s'. split; [reflexivity|]. apply neighbors_edge_label.
      assert (Hn : In n (map fst nn)) by (apply nth_error_In in En; apply (in_map fst) in En; exact En).
      apply (get_neighbors_In _ _ _ _ n Hnn) in Hn. tauto.
  Qed.

  Theorem search_total : forall fuel todo m used,
    (mu P todo m < fuel)%nat -> exists o, search G P mp fuel todo m used = Ok o.
  Proof.
    induction fuel as [|f IH]; intros todo m used Hmu; [lia|].
    destruct todo as [|[idx pidx] todo']; simpl; [eauto|].
    assert (Hmu' : (List.length todo' + unmapped_in (nodes P) m < f)%nat)
      by (unfold mu in Hmu; simpl in Hmu; lia).
    destruct (scan_total idx pidx m) as (r & [->|[pnn ->]] & Hscan); rewrite Hscan; [eauto|].
    destruct pnn as [|x r]; [apply IH; exact Hmu'|].
    destruct (get_neighbors_total idx used) as [nn Hnn]. rewrite Hnn.
    apply first_result_ok. intros a Ha.
    destruct (assign_ok_total _ _ _ _ _ _ _ m used todo' Hscan Hnn (Hsound _ _ _ Ha)) as [o Ho].
    rewrite Ho. destruct o as [[[m1 u1] td1]|]; [|eauto].
    apply IH. pose proof (step_measure G P mp HwfP _ _ _ _ _ _ _ _ _ _ _ Hscan Ha Ho). lia.
  Qed.
End Total.

Section Complete.
  Variables G P : graph.
  Variable mp : mapper.
  Variables (w : option string) (ic : bool).
  Hypothesis Hw : m_wildcard mp = w.
  Hypothesis Hic : m_ignore_case mp = ic.
  Hypothesis HwfP : wfb P = true.
  Hypothesis HwfG : wfb G = true.
  Hypothesis HsymG : has_syms G.
  Hypothesis Hsound : permute_sound_for mp.
  Hypothesis Hcomplete : permute_complete_for mp.

  Variables (a pa : Z) (f : Z -> option Z).
  Hypothesis E : Embedding w ic G a P pa f.

  Lemma emb_has_syms : has_syms P.
  Proof.
    intros p Hp. destruct (emb_total _ _ _ _ _ _ _ E p Hp) as [n Hn].
    destruct (emb_adm _ _ _ _ _ _ _ E p n Hp Hn) as (ps & _ & H & _). eauto.
  Qed.

  Lemma f_img p : In p (nodes P) -> f p = Some (img f p).
  Proof. intros Hp. destruct (emb_total _ _ _ _ _ _ _ E p Hp) as [n Hn]. unfold img. rewrite Hn. reflexivity. Qed.

  Record CInv (todo : list (Z * Z)) (m : mapping) (used : list Z) : Prop := {
    ci_map  : forall p v, alookup p m = Some v -> In p (nodes P) /\ v = f p;
    ci_used : forall n, In n used -> exists p, alookup p m = Some (Some n);
    ci_todo : forall n p, In (n, p) todo -> alookup p m = Some (Some n)
  }.

  (* what the embedding says about one collected pattern neighbour *)
  Definition good (idx pidx : Z) (nn : list (Z * string)) (qs : Z * string) : Prop :=
    let q := fst qs in
    exists s' lab,
      nth_error nn (index_of (img f q) (map fst nn)) = Some (img f q, s') /\
      edge_label P pidx q = Some lab /\ edge_label G idx (img f q) = Some lab /\
      sym_of P q = Some (snd qs) /\ sym_of G (img f q) = Some s' /\ adm w ic (snd qs) s' = true /\
      In q (nodes P).

  Definition posf (nn : list (Z * string)) (qs : Z * string) : Z :=
    Z.of_nat (index_of (img f (fst qs)) (map fst nn)).
  Definition actf (qs : Z * string) : Z * option Z := (fst qs, Some (img f (fst qs))).

  Lemma build_rel idx pidx pnn nn : forall pnn' off,
    (forall t, nth_error pnn' t = nth_error pnn (off + t)) ->
    (forall qs, In qs pnn' -> good idx pidx nn qs) ->
    Forall2 (act_rel G P idx pidx pnn nn)
            (combine (map Z.of_nat (seq off (List.length pnn'))) (map (posf nn) pnn'))
            (map actf pnn').
  Proof.
    induction pnn' as [|[q s] r IH]; intros off Hn Hg; simpl; [constructor|].
    constructor.
    - destruct (Hg (q, s) (or_introl eq_refl)) as (s' & lab & H1 & H2 & H3 & _). simpl in *.
      split; simpl.
      + exists s. rewrite py_index_nat. specialize (Hn 0%nat). simpl in Hn. rewrite Nat.add_0_r in Hn. auto.
      + right. split; [unfold posf; lia|]. exists (img f q), s', lab.
        unfold posf. simpl. rewrite py_index_nat. auto.
    - apply IH; [|intros; apply Hg; right; assumption].
      intros k. specialize (Hn (S k)). simpl in Hn. rewrite Hn. f_equal. lia.
  Qed.

  Theorem search_complete : forall fuel todo m used,
    (mu P todo m < fuel)%nat -> CInv todo m used ->
    exists r, search G P mp fuel todo m used = Ok (Some r).
  Proof.
    pose proof emb_has_syms as HsymP.
    induction fuel as [|fu IH]; intros todo m used Hmu I; [lia|].
    destruct todo as [|[idx pidx] todo']; simpl; [eauto|].
    assert (Hmu' : (List.length todo' + unmapped_in (nodes P) m < fu)%nat)
      by (unfold mu in Hmu; simpl in Hmu; lia).
    destruct I as [I1 I2 I3].
    assert (Hpop : alookup pidx m = Some (Some idx)) by (apply I3; left; reflexivity).
    destruct (I1 _ _ Hpop) as [Npidx Fpidx]. symmetry in Fpidx.
    (* the scan succeeds *)
    destruct (scan_complete G P idx pidx m (neighbors P pidx)) as [pnn Hscan].
    { intros q Hq _. apply HsymP. eapply wfb_neighbor_node; eauto. }
    { intros q n Hq Hm. destruct (I1 _ _ Hm) as [Nq Fq]. symmetry in Fq.
      apply neighbors_edge_label in Hq. destruct Hq as [lab Hl]. exists lab. split; [|exact Hl].
      eapply (emb_edges _ _ _ _ _ _ _ E); eauto. }
    rewrite Hscan.
    assert (I' : CInv todo' m used).
    { constructor; [exact I1 | exact I2 | intros; apply I3; right; assumption]. }
    destruct pnn as [|x r]; [apply IH; assumption|].
    set (pnn := x :: r) in *.
    destruct (get_neighbors_total G HwfG HsymG idx used) as [nn Hnn]. rewrite Hnn.
    pose proof (scan_spec _ _ _ _ _ _ _ Hscan) as (Hk & HsymPnn & _).
    pose proof (get_neighbors_spec _ _ _ _ Hnn) as [Hnnk HsymGnn].
    assert (HndK : NoDup (map fst pnn)).
    { rewrite Hk. apply NoDup_filter. apply wfb_neighbors_nodup. exact HwfP. }
    (* every collected neighbour is good *)
    assert (Hgood : forall qs, In qs pnn -> good idx pidx nn qs).
    { intros [q s] Hin. unfold good. simpl.
      assert (Hq : In q (map fst pnn)) by (apply (in_map fst) in Hin; exact Hin).
      rewrite Hk in Hq. apply filter_In in Hq. destruct Hq as [Hq Hu].
      assert (Nq : In q (nodes P)) by (eapply wfb_neighbor_node; eauto).
      pose proof (f_img q Nq) as Fq.
      apply neighbors_edge_label in Hq. destruct Hq as [lab Hl].
      pose proof (emb_edges _ _ _ _ _ _ _ E _ _ _ _ _ Hl Fpidx Fq) as Hgl.
      assert (Hin_nn : In (img f q) (map fst nn)).
      { apply (get_neighbors_In _ _ _ _ (img f q) Hnn). split; [apply neighbors_edge_label; eauto|].
        intros Hused. destruct (I2 _ Hused) as [p Hp]. destruct (I1 _ _ Hp) as [Np Fp]. symmetry in Fp.
        assert (p = q) by (eapply (emb_inj _ _ _ _ _ _ _ E); eauto). subst p.
        unfold unmappedb in Hu. rewrite Hp in Hu. discriminate. }
      pose proof (index_of_nth _ _ Hin_nn) as Hnth. apply nth_error_map_fst in Hnth. destruct Hnth as [s' Hnth].
      destruct (emb_adm _ _ _ _ _ _ _ E q _ Nq Fq) as (ps & s0 & Hps & Hs0 & Hadm).
      rewrite Forall_forall in HsymPnn, HsymGnn.
      pose proof (HsymPnn _ Hin) as Hs. simpl in Hs.
      pose proof (HsymGnn _ (nth_error_In _ _ Hnth)) as Hs'. simpl in Hs'.
      exists s', lab. repeat split; auto; congruence. }
    set (astar := combine (zseq (List.length pnn)) (map (posf nn) pnn)).
    assert (Hrel : Forall2 (act_rel G P idx pidx pnn nn) astar (map actf pnn)).
    { apply (build_rel idx pidx pnn nn pnn 0%nat); auto. }
    assert (Hlen : List.length (zseq (List.length pnn)) = List.length (map (posf nn) pnn))
      by (rewrite zseq_length, map_length; reflexivity).
    (* the assignment induced by the embedding is admissible, hence returned by permute *)
    assert (Htot : assign_total astar).
    { intros i j Hin. apply In_combine_nth in Hin. destruct Hin as (t & _ & Hj).
      rewrite nth_error_map in Hj. destruct (nth_error pnn t); [|discriminate]. injection Hj as <-.
      unfold posf. lia. }
    assert (Hok : assign_ok mp (map snd pnn) (map snd nn) astar).
    { split; [|split].
      - unfold astar. rewrite map_fst_combine by exact Hlen. rewrite map_length. reflexivity.
      - unfold astar. rewrite map_snd_combine by exact Hlen.
        rewrite filter_all.
        + replace (map (posf nn) pnn) with (map (fun q => Z.of_nat (index_of (img f q) (map fst nn))) (map fst pnn))
            by (rewrite map_map; reflexivity).
          apply NoDup_map_on; [exact HndK|]. intros q q' Hq Hq' Heq.
          apply in_map_iff in Hq, Hq'. destruct Hq as ([q0 s] & <- & Hq), Hq' as ([q0' s0] & <- & Hq'). simpl in *.
          destruct (Hgood _ Hq) as (s1 & _ & N1 & _ & _ & _ & _ & _ & Nq).
          destruct (Hgood _ Hq') as (s2 & _ & N2 & _ & _ & _ & _ & _ & Nq'). simpl in *.
          assert (Hi : index_of (img f q0) (map fst nn) = index_of (img f q0') (map fst nn)) by lia.
          rewrite Hi in N1. rewrite N1 in N2. injection N2 as Himg _.
          eapply (emb_inj _ _ _ _ _ _ _ E q0 q0'); eauto using f_img. rewrite Himg. apply f_img. exact Nq'.
        + intros j Hj. apply in_map_iff in Hj. destruct Hj as (qs & <- & _). unfold posf.
          destruct (Z.eqb_spec (Z.of_nat (index_of (img f (fst qs)) (map fst nn))) (-1)); [lia|reflexivity].
      - intros i j Hin. right. apply In_combine_nth in Hin. destruct Hin as (t & Hi & Hj).
        apply nth_error_zseq in Hi. destruct Hi as [-> Ht].
        rewrite nth_error_map in Hj. destruct (nth_error pnn t) as [[q s]|] eqn:Eq; [|discriminate].
        injection Hj as <-. destruct (Hgood _ (nth_error_In _ _ Eq)) as (s' & lab & N & _ & _ & _ & _ & Hadm & _).
        cbn [fst snd] in *. unfold posf. cbn [fst snd]. split.
        + rewrite map_length. assert (Hlt : (index_of (img f q) (map fst nn) < List.length nn)%nat)
            by (apply nth_error_Some; congruence). lia.
        + rewrite (snth_map_snd _ _ _ _ Eq), (snth_map_snd _ _ _ _ N), Hw, Hic. exact Hadm. }
    assert (Hin : In astar (permute mp (map snd pnn) (map snd nn))).
    { apply Hcomplete; [discriminate | exact Hok | exact Htot]. }
    (* running it keeps the invariant *)
    pose proof (assign_complete G P idx pidx pnn nn astar (map actf pnn) Hrel m used todo') as Has.
    assert (Hkeys : map fst (map actf pnn) = map fst pnn) by (rewrite map_map; reflexivity).
    assert (Hnd' : NoDup (map fst (map actf pnn))) by (rewrite Hkeys; exact HndK).
    assert (Hlook : forall p, alookup p (acts_map (map actf pnn) m)
                     = match alookup p (map actf pnn) with Some v => Some v | None => alookup p m end)
      by (intros p; apply alookup_acts_map; exact Hnd').
    assert (Hold : forall p v, alookup p m = Some v -> alookup p (map actf pnn) = None).
    { intros p v Hp. destruct (alookup p (map actf pnn)) eqn:Ep; [|reflexivity]. exfalso.
      apply alookup_Some_key in Ep. unfold akeys in Ep. rewrite Hkeys, Hk in Ep. apply filter_In in Ep.
      destruct Ep as [_ Hu]. unfold unmappedb in Hu. rewrite Hp in Hu. discriminate. }
    assert (Hacts : forall q v, In (q, v) (map actf pnn) -> In q (nodes P) /\ v = f q).
    { intros q v Hqv. apply in_map_iff in Hqv. destruct Hqv as ([q0 s] & Heq & Hq0). unfold actf in Heq.
      simpl in Heq. injection Heq as <- <-.
      destruct (Hgood _ Hq0) as (_ & _ & _ & _ & _ & _ & _ & _ & Nq). simpl in Nq.
      split; [exact Nq | symmetry; apply f_img; exact Nq]. }
    assert (I'' : CInv (todo' ++ acts_todo (map actf pnn)) (acts_map (map actf pnn) m)
                       (acts_used (map actf pnn) used)).
    { constructor.
      - intros p v Hp. rewrite Hlook in Hp. destruct (alookup p (map actf pnn)) as [v'|] eqn:Ep.
        + injection Hp as ->. apply alookup_In in Ep. apply Hacts. exact Ep.
        + apply I1. exact Hp.
      - intros n Hn. apply acts_used_In in Hn. destruct Hn as [Hn|Hn].
        + destruct (I2 _ Hn) as [p Hp]. exists p. rewrite Hlook, (Hold _ _ Hp). exact Hp.
        + apply somes_In in Hn. destruct Hn as [q Hq]. exists q. rewrite Hlook.
          rewrite (alookup_acts_In _ _ _ Hnd' Hq). reflexivity.
      - intros n p Hnp. apply in_app_or in Hnp. destruct Hnp as [Hnp|Hnp].
        + pose proof (I3 n p (or_intror Hnp)) as Hp. rewrite Hlook, (Hold _ _ Hp). exact Hp.
        + apply acts_todo_In in Hnp. rewrite Hlook, (alookup_acts_In _ _ _ Hnd' Hnp). reflexivity. }
    pose proof (step_measure G P mp HwfP _ _ _ _ _ _ _ _ _ _ _ Hscan Hin Has) as Hstep.
    assert (Hlt : (mu P (todo' ++ acts_todo (map actf pnn)) (acts_map (map actf pnn) m) < fu)%nat) by lia.
    destruct (IH _ _ _ Hlt I'') as [r' Hr'].
    (* every other branch terminates normally, so the first result exists *)
    eapply first_result_find; [|exact Hin|rewrite Has; exact Hr'].
    intros a0 Ha0.
    destruct (assign_ok_total G P mp _ _ _ _ _ _ _ m used todo' Hscan Hnn (Hsound _ _ _ Ha0)) as [o Ho].
    rewrite Ho. destruct o as [[[m1 u1] td1]|]; [|eauto].
    apply (search_total G P mp HwfP HwfG HsymP HsymG Hsound).
    pose proof (step_measure G P mp HwfP _ _ _ _ _ _ _ _ _ _ _ Hscan Ha0 Ho). lia.
  Qed.
End Complete.
