(** C18: outside the domain of the property (an untabulated or missing symbol, a scalar label,
    no edge) the round trip raises -- the model returns an error value, never a graph. Together
    with [torch_roundtrip] this says the decided domain [its_domainb] is exactly where the round
    trip succeeds (for well-formed graphs). *)
From Coq Require Import ZArith List Bool String Lia.
From FGV Require Import Base.Util Base.UtilFacts Base.Bond Base.NX Base.NXFacts
  Model.Torch Spec.PeriodicRef Spec.TorchSpec Spec.TorchCheck
  Proofs.TorchTables Proofs.TorchUtil Proofs.TorchRound Proofs.TorchBatch Proofs.TorchCheckSound.
Import ListNotations.
Open Scope Z_scope.

Lemma mapM_err {A B} (f : A -> res B) l a e0 :
  In a l -> f a = Err e0 -> exists e, mapM f l = Err e.
Proof.
  induction l as [|b t IH]; intros Hin Hf; [contradiction|]. simpl.
  destruct Hin as [->|Hin].
  - rewrite Hf. simpl. eauto.
  - destruct (f b) as [y|e1]; simpl; [|eauto]. destruct (IH Hin Hf) as (e & He). rewrite He. simpl. eauto.
Qed.

Lemma forallb_false_ex {A} (p : A -> bool) l : forallb p l = false -> exists x, In x l /\ p x = false.
Proof.
  induction l as [|x t IH]; simpl; [discriminate|]. intros E. apply andb_false_iff in E. destruct E as [E|E].
  - exists x. auto.
  - destruct (IH E) as (y & Hy & Hp). exists y. auto.
Qed.

Theorem to_torch_refuses g :
  wf g -> tabulatedb g && pair_labelledb g = false -> exists e, its_to_torch1 g = Err e.
Proof.
  intros Hwf Hd. unfold its_to_torch1. apply andb_false_iff in Hd.
  destruct (mapM (fun e : Z * (nattr * adjl) => node_feature_its2torch (fst (snd e))) g) as [x|e] eqn:Ex;
    cbn [bind]; [|eauto].
  destruct Hd as [Hd|Hd].
  - exfalso. unfold tabulatedb in Hd. apply forallb_false_ex in Hd. destruct Hd as ([n [a ad]] & Hin & Hp).
    cbn [fst snd] in Hp.
    assert (Herr : node_feature_its2torch a = Err KeyError).
    { unfold node_feature_its2torch. destruct (a_sym a) as [s|]; [|reflexivity].
      rewrite sym2num_ref. destruct (ref_atomic_number s); [discriminate | reflexivity]. }
    destruct (mapM_err (fun e : Z * (nattr * adjl) => node_feature_its2torch (fst (snd e))) g _ KeyError Hin Herr) as (e & He).
    congruence.
  - unfold pair_labelledb in Hd. apply forallb_false_ex in Hd. destruct Hd as ([n [a ad]] & Hin & Hp).
    cbn [fst snd] in Hp. apply forallb_false_ex in Hp. destruct Hp as ([v l] & Hvl & Hl). cbn [snd] in Hl.
    assert (Hlab : edge_label g n v = Some l).
    { apply In_adj_edge_label; [exact Hwf|]. rewrite (adj_of_entry g n a ad Hwf Hin). exact Hvl. }
    assert (Hent : forall u w, exists e0, edge_entry (node_idx g) (u, w, l) = Err e0).
    { intros u w. unfold edge_entry. destruct (alookup u (node_idx g)); [|eauto].
      destruct (alookup w (node_idx g)); [|eauto]. destruct l; simpl in *; try discriminate. eauto. }
    destruct (edges_complete g n v l Hwf Hlab) as [He|He].
    + destruct (Hent n v) as (e0 & H0). destruct (mapM_err _ _ _ e0 He H0) as (e & Hm). rewrite Hm. simpl. eauto.
    + destruct (Hent v n) as (e0 & H0). destruct (mapM_err _ _ _ e0 He H0) as (e & Hm). rewrite Hm. simpl. eauto.
Qed.

Lemma no_edge_edges g : has_edgeb g = false -> edges g = [].
Proof.
  unfold has_edgeb, edges. generalize (@nil Z). induction g as [|[n [a ad]] t IH]; intros seen H; [reflexivity|].
  simpl in H. apply orb_false_iff in H. destruct H as [H1 H2]. destruct ad as [|c r]; [|discriminate].
  simpl. apply IH. exact H2.
Qed.

(** outside the decided domain the round trip is an error value *)
Theorem roundtrip_refuses g :
  wfb g = true -> its_domainb g = false -> exists e, bind (its_to_torch1 g) its_from_torch = Err e.
Proof.
  intros Hb Hd. pose proof (wfb_wf g Hb) as Hwf.
  unfold its_domainb, to_torch_domainb in Hd. rewrite Hb in Hd. cbn [andb] in Hd.
  destruct (tabulatedb g && pair_labelledb g) eqn:Etp.
  - cbn [andb] in Hd. pose proof (no_edge_edges g Hd) as He.
    destruct (its_to_torch1 g) as [t|e] eqn:Et; cbn [bind]; [|eauto].
    apply (torch_roundtrip_no_edge g t He Et).
  - destruct (to_torch_refuses g Hwf Etp) as (e & He). rewrite He. cbn [bind]. eauto.
Qed.
