(** C14: proofs about the expansion loop (count, termination, ids, no leftover group nodes).
    The facts about replace_node_multi (C13) and MultiGraph.copy() are hypotheses of the section
    [Expansion]; everything else is proved here. *)
From Coq Require Import ZArith List Bool String Lia Permutation Arith.
From FGV Require Import Base.Util Base.UtilFacts Base.Bond Base.NX Base.NXFacts Base.NXMulti Model.Aam Model.Proxy
  Model.ProxyGen Spec.ProxySpec Spec.ProxyCheck Spec.ProxyGenSpec Proofs.ProxyGenUtil.
Import ListNotations.
Open Scope Z_scope.

(** * measures as sums / products over the attribute list *)

Definition nwt (gw : string -> nat) (gs : groups) (a : nattr) : nat :=
  match node_group gs a with Some nm => gw nm | None => O end.
Definition ncnt (gc : string -> nat) (gs : groups) (a : nattr) : nat :=
  match node_group gs a with Some nm => gc nm | None => 1%nat end.
Definition onwt gw gs (o : option nattr) : nat := match o with Some a => nwt gw gs a | None => O end.
Definition oncnt gc gs (o : option nattr) : nat := match o with Some a => ncnt gc gs a | None => 1%nat end.

Lemma pweight_alist gw gs g : pweight gw gs g = list_sum (map (onwt gw gs) (map Some (alist g))).
Proof.
  unfold pweight, alist. induction g as [|e t IH]; simpl; [reflexivity|]. rewrite IH. reflexivity.
Qed.

Lemma pcount_alist gc gs g : pcount gc gs g = lprod (map (oncnt gc gs) (map Some (alist g))).
Proof.
  unfold pcount, alist. induction g as [|e t IH]; simpl; [reflexivity|]. rewrite IH. reflexivity.
Qed.

Lemma pcount_ext gc1 gc2 gs g :
  (forall n a ad nm, In (n, (a, ad)) g -> node_group gs a = Some nm -> gc1 nm = gc2 nm) ->
  pcount gc1 gs g = pcount gc2 gs g.
Proof.
  unfold pcount. induction g as [|[n [a ad]] t IH]; simpl; intros H; [reflexivity|].
  rewrite IH by (intros; eapply H; eauto). destruct (node_group gs a) eqn:E; [|reflexivity].
  rewrite (H n a ad s); auto.
Qed.

Lemma pweight_ext gw1 gw2 gs g :
  (forall n a ad nm, In (n, (a, ad)) g -> node_group gs a = Some nm -> gw1 nm = gw2 nm) ->
  pweight gw1 gs g = pweight gw2 gs g.
Proof.
  unfold pweight. induction g as [|[n [a ad]] t IH]; simpl; intros H; [reflexivity|].
  rewrite IH by (intros; eapply H; eauto). destruct (node_group gs a) eqn:E; [|reflexivity].
  rewrite (H n a ad s); auto.
Qed.

Lemma pcount_final gc gs g :
  (forall e, In e g -> is_group_attr gs (fst (snd e)) = false) -> pcount gc gs g = 1%nat.
Proof.
  unfold pcount. induction g as [|e t IH]; simpl; intros H; [reflexivity|].
  rewrite IH by auto. rewrite node_group_none by auto. reflexivity.
Qed.

(** * the counts and weights do not depend on the depth above the rank *)

Section Ranked.
Variable gs : groups.
Variable rks : list (string * nat).
Hypothesis Hrk : ranked gs rks.

Lemma gcount_stable d1 : forall d2 nm,
  (rank_of rks nm < d1)%nat -> (rank_of rks nm < d2)%nat -> gcount d1 gs nm = gcount d2 gs nm.
Proof.
  induction d1 as [|d1 IH]; intros d2 nm H1 H2; [lia|].
  destruct d2 as [|d2]; [lia|]. simpl.
  destruct (glookup nm gs) as [grp|] eqn:E; [|reflexivity].
  destruct (Hrk nm grp E) as [_ Hrefs]. f_equal. apply map_ext_in. intros sg Hsg.
  rewrite Forall_forall in Hrefs. specialize (Hrefs sg Hsg).
  apply pcount_ext. intros n a ad nm' Hin Hng.
  specialize (Hrefs n a ad nm' Hin Hng). apply IH; lia.
Qed.

Lemma gweight_stable d1 : forall d2 nm,
  (rank_of rks nm < d1)%nat -> (rank_of rks nm < d2)%nat -> gweight d1 gs nm = gweight d2 gs nm.
Proof.
  induction d1 as [|d1 IH]; intros d2 nm H1 H2; [lia|].
  destruct d2 as [|d2]; [lia|]. simpl.
  destruct (glookup nm gs) as [grp|] eqn:E; [|reflexivity].
  destruct (Hrk nm grp E) as [_ Hrefs]. f_equal. f_equal. apply map_ext_in. intros sg Hsg.
  rewrite Forall_forall in Hrefs. specialize (Hrefs sg Hsg).
  apply pweight_ext. intros n a ad nm' Hin Hng.
  specialize (Hrefs n a ad nm' Hin Hng). apply IH; lia.
Qed.

Definition GC : string -> nat := gcount (cfg_depth gs) gs.
Definition GW : string -> nat := gweight (cfg_depth gs) gs.

Lemma GC_unfold nm grp :
  glookup nm gs = Some grp -> GC nm = list_sum (map (fun sg => pcount GC gs (pg_graph sg)) (gr_graphs grp)).
Proof.
  intros E. unfold GC at 1, cfg_depth. simpl. rewrite E. f_equal. apply map_ext_in. intros sg Hsg.
  destruct (Hrk nm grp E) as [Hlt Hrefs]. rewrite Forall_forall in Hrefs. specialize (Hrefs sg Hsg).
  apply pcount_ext. intros n a ad nm' Hin Hng. specialize (Hrefs n a ad nm' Hin Hng).
  unfold GC, cfg_depth. apply gcount_stable; lia.
Qed.

Lemma GW_unfold nm grp :
  glookup nm gs = Some grp -> GW nm = S (list_max (map (fun sg => pweight GW gs (pg_graph sg)) (gr_graphs grp))).
Proof.
  intros E. unfold GW at 1, cfg_depth. simpl. rewrite E. f_equal. f_equal. apply map_ext_in. intros sg Hsg.
  destruct (Hrk nm grp E) as [Hlt Hrefs]. rewrite Forall_forall in Hrefs. specialize (Hrefs sg Hsg).
  apply pweight_ext. intros n a ad nm' Hin Hng. specialize (Hrefs n a ad nm' Hin Hng).
  unfold GW, cfg_depth. apply gweight_stable; lia.
Qed.

Lemma GW_graph_lt nm grp sg :
  glookup nm gs = Some grp -> In sg (gr_graphs grp) -> (pweight GW gs (pg_graph sg) < GW nm)%nat.
Proof.
  intros E Hsg. rewrite (GW_unfold nm grp E).
  assert (H : (pweight GW gs (pg_graph sg) <= list_max (map (fun sg => pweight GW gs (pg_graph sg)) (gr_graphs grp)))%nat).
  { apply list_max_ge. apply in_map_iff. exists sg. split; [reflexivity|exact Hsg]. }
  lia.
Qed.

End Ranked.

(** * one substitution step *)

Lemma mnumber_nodes (g : mgraph) : mnumber_of_nodes g = Z.of_nat (List.length (mnodes g)).
Proof. unfold mnumber_of_nodes, mnodes. rewrite map_length. reflexivity. Qed.

(* the attributes of all nodes but [anchor], by id *)
Definition rest_of (g : mgraph) (anchor : Z) : list (option nattr) :=
  map (mnode_attr g) (zseq 0 anchor) ++ map (mnode_attr g) (zseq (anchor + 1) (mnumber_of_nodes g)).

Lemma alist_split gs g anchor a :
  pattern_ok gs g -> mnode_attr g anchor = Some a ->
  Permutation (map Some (alist g)) (Some a :: rest_of g anchor).
Proof.
  intros [[Hnd _] [Hr _]] Ha.
  assert (Hanc : 0 <= anchor < mnumber_of_nodes g) by (apply Hr; eapply mnode_attr_in_nodes; eauto).
  eapply Permutation_trans; [apply (alist_by_ids g _ Hnd Hr)|].
  rewrite (zseq_app 0 anchor (mnumber_of_nodes g)) by lia.
  rewrite (zseq_cons anchor (mnumber_of_nodes g)) by lia.
  rewrite map_app. simpl. rewrite Ha. unfold rest_of.
  apply Permutation_sym, Permutation_middle.
Qed.

Section Expansion.
Variable gs : groups.
Variable rks : list (string * nat).
Hypothesis Hrk : ranked gs rks.
Hypothesis Hgs : Forall (fun kg => Forall (pgraph_ok gs) (gr_graphs (snd kg))) gs.

(* C13, multigraph form (Proofs/ProxyMultiProofs.v of the C13 development) *)
Hypothesis H13 : forall g node h anchors,
  replace_multi_pre g node h anchors ->
  exists g', replace_node_multi g node h anchors = POk g' /\ replace_multi_spec g node h anchors g'.
(* MultiGraph.copy() keeps well-formedness, the node list and the attributes *)
Hypothesis Hcopy : forall g,
  mwf g -> mwf (mcopy g) /\ mnodes (mcopy g) = mnodes g /\ (forall x, mnode_attr (mcopy g) x = mnode_attr g x).

Lemma step_facts g anchor a sg :
  pattern_ok gs g -> mnode_attr g anchor = Some a -> pgraph_ok gs sg ->
  exists g',
    replace_node_multi (mcopy g) anchor (mshift (mnumber_of_nodes (mcopy g)) (pg_graph sg)) (pg_anchor sg) = POk g'
    /\ pattern_ok gs g'
    /\ Permutation (map Some (alist g')) (rest_of g anchor ++ map Some (alist (pg_graph sg))).
Proof.
  intros [Hwf [Hr Hok]] Ha [[Hpwf [Hpr Hpok]] Hanch].
  destruct (Hcopy g Hwf) as [Hcwf [Hcn Hca]].
  assert (Hm : mnumber_of_nodes (mcopy g) = mnumber_of_nodes g) by (rewrite !mnumber_nodes, Hcn; reflexivity).
  rewrite Hm.
  remember (mcopy g) as c eqn:Ec. remember (pg_graph sg) as p eqn:Ep.
  remember (mnumber_of_nodes g) as m eqn:Em. remember (mnumber_of_nodes p) as k eqn:Ek.
  assert (Hanc : 0 <= anchor < m) by (apply Hr; eapply mnode_attr_in_nodes; eauto).
  assert (Hk : 0 <= k) by (subst k; unfold mnumber_of_nodes; lia).
  assert (Hpre : replace_multi_pre c anchor (mshift m p) (pg_anchor sg)).
  { unfold replace_multi_pre. rewrite Hm, mnumber_mshift, <- Ek.
    split; [exact Hcwf|]. split; [apply mwf_mshift; exact Hpwf|].
    split; [rewrite Hcn; exact Hr|]. split; [apply ids_range_mshift; exact Hpr|].
    split; [exact Hanc|]. exact Hanch. }
  destruct (H13 _ _ _ _ Hpre) as [g' [Hrun Hspec]].
  exists g'. split; [exact Hrun|].
  unfold replace_multi_spec in Hspec. cbv zeta in Hspec. rewrite Hm, mnumber_mshift, <- Ek in Hspec.
  destruct Hspec as [Hwf' [Hr' [Hpar [Hsub _]]]].
  assert (Hnd' : NoDup (mnodes g')) by (destruct Hwf' as [H _]; exact H).
  assert (A1 : forall x, 0 <= x < anchor -> mnode_attr g' x = mnode_attr g x).
  { intros x Hx. rewrite <- Hca. rewrite <- (Hpar x) by lia. unfold renum.
    destruct (Z.ltb_spec x anchor); [reflexivity|lia]. }
  assert (A2 : forall x, anchor <= x < m - 1 -> mnode_attr g' x = mnode_attr g (x + 1)).
  { intros x Hx. rewrite <- Hca. rewrite <- (Hpar (x + 1)) by lia. unfold renum.
    destruct (Z.ltb_spec (x + 1) anchor); [lia|]. f_equal. lia. }
  assert (A3 : forall x, m - 1 <= x < m + k - 1 -> mnode_attr g' x = mnode_attr p (x + 1 - m)).
  { intros x Hx. rewrite <- (mnode_attr_mshift m p (x + 1 - m)). replace (x + 1 - m + m) with (x + 1) by lia.
    rewrite <- (Hsub (x + 1)) by lia. unfold renum.
    destruct (Z.ltb_spec (x + 1) anchor); [lia|]. f_equal. lia. }
  assert (Hn' : mnumber_of_nodes g' = m + k - 1).
  { rewrite mnumber_nodes. rewrite (ids_range_length _ _ _ Hnd' Hr'). lia. }
  split.
  - (* the invariant *)
    split; [exact Hwf'|]. split; [rewrite Hn'; exact Hr'|].
    intros n a' ad Hin.
    assert (Hat : mnode_attr g' n = Some a') by (eapply entry_mnode_attr; eauto).
    assert (Hn : 0 <= n < m + k - 1) by (apply Hr'; apply (in_map fst) in Hin; exact Hin).
    destruct (Z.lt_ge_cases n anchor) as [H1|H1].
    + rewrite A1 in Hat by lia. destruct (mnode_attr_entry _ _ _ Hat) as [ad' Hin']. eapply Hok; eauto.
    + destruct (Z.lt_ge_cases n (m - 1)) as [H2|H2].
      * rewrite A2 in Hat by lia. destruct (mnode_attr_entry _ _ _ Hat) as [ad' Hin']. eapply Hok; eauto.
      * rewrite A3 in Hat by lia. destruct (mnode_attr_entry _ _ _ Hat) as [ad' Hin']. eapply Hpok; eauto.
  - (* the attribute multiset *)
    assert (E1 : map (mnode_attr g') (zseq 0 anchor) = map (mnode_attr g) (zseq 0 anchor)).
    { apply map_ext_in. intros x Hx. apply in_zseq in Hx. apply A1. lia. }
    assert (E2 : map (mnode_attr g') (zseq anchor (m - 1)) = map (mnode_attr g) (zseq (anchor + 1) m)).
    { replace (zseq (anchor + 1) m) with (zseq (anchor + 1) (m - 1 + 1)) by (f_equal; lia).
      rewrite map_zseq_shift. apply map_ext_in. intros x Hx. apply in_zseq in Hx. apply A2. lia. }
    assert (E3 : map (mnode_attr g') (zseq (m - 1) (m + k - 1)) = map (mnode_attr p) (zseq 0 k)).
    { replace (zseq (m - 1) (m + k - 1)) with (zseq (0 + (m - 1)) (k + (m - 1))) by (f_equal; lia).
      rewrite map_zseq_shift. apply map_ext_in. intros x Hx. apply in_zseq in Hx.
      rewrite A3 by lia. f_equal. lia. }
    eapply Permutation_trans; [apply (alist_by_ids g' _ Hnd' Hr')|].
    rewrite (zseq_app 0 anchor (m + k - 1)) by lia.
    rewrite (zseq_app anchor (m - 1) (m + k - 1)) by lia.
    rewrite !map_app, E1, E2, E3. unfold rest_of. rewrite <- Em, <- app_assoc.
    apply Permutation_app_head. apply Permutation_app_head.
    apply Permutation_sym. apply (alist_by_ids p k); [destruct Hpwf as [H _]; exact H|exact Hpr].
Qed.

(** * the next group node *)

Definition final (g : mgraph) : Prop := forall e, In e g -> is_group_attr gs (fst (snd e)) = false.

Lemma next_spec_aux g l :
  NoDup (mnodes g) -> nodes_ok gs g -> incl l g ->
  (next_group_node gs g l = GOk None /\ forall e, In e l -> is_group_attr gs (fst (snd e)) = false)
  \/ (exists anchor a, next_group_node gs g l = GOk (Some anchor) /\ mnode_attr g anchor = Some a
                       /\ is_group_attr gs a = true).
Proof.
  intros Hnd Hok. induction l as [|[n [a ad]] t IH]; intros Hincl.
  - left. split; [reflexivity|]. intros e [].
  - assert (Hin : In (n, (a, ad)) g) by (apply Hincl; left; reflexivity).
    assert (Hat : mnode_attr g n = Some a) by (eapply entry_mnode_attr; eauto).
    destruct (Hok n a ad Hin) as [Hkey _].
    simpl. unfold is_group_node. rewrite Hat.
    destruct (group_attr_e gs a) as [[|]|] eqn:E.
    + right. exists n, a. split; [reflexivity|]. split; [exact Hat|]. unfold is_group_attr. rewrite E. reflexivity.
    + destruct IH as [[Hn Hall]|Hsome].
      * intros x Hx. apply Hincl. right. exact Hx.
      * left. split; [exact Hn|]. intros e [<-|He]; [|auto]. simpl. unfold is_group_attr. rewrite E. reflexivity.
      * right. exact Hsome.
    + congruence.
Qed.

Lemma next_spec g :
  pattern_ok gs g ->
  (get_next_group_node gs g = GOk None /\ final g)
  \/ (exists anchor a, get_next_group_node gs g = GOk (Some anchor) /\ mnode_attr g anchor = Some a
                       /\ is_group_attr gs a = true).
Proof.
  intros [[Hnd _] [_ Hok]]. apply next_spec_aux; [exact Hnd|exact Hok|apply incl_refl].
Qed.

(** * replace_next_node *)

(* g' is what replace_next_node makes of g for the graph sg of the group of the node [anchor] *)
Definition child_of (g : mgraph) (anchor : Z) (sg : pgraph) (g' : mgraph) : Prop :=
  replace_node_multi (mcopy g) anchor (mshift (mnumber_of_nodes (mcopy g)) (pg_graph sg)) (pg_anchor sg) = POk g'
  /\ pattern_ok gs g'
  /\ Permutation (map Some (alist g')) (rest_of g anchor ++ map Some (alist (pg_graph sg))).

Lemma replace_each_ok g anchor a subs :
  pattern_ok gs g -> mnode_attr g anchor = Some a -> Forall (pgraph_ok gs) subs ->
  exists l, replace_each g anchor subs = GOk l /\ Forall2 (child_of g anchor) subs l.
Proof.
  intros Hg Ha. induction subs as [|sg t IH]; intros Hsubs.
  - exists []. split; [reflexivity|constructor].
  - inversion Hsubs as [|? ? Hsg Ht]; subst.
    destruct (step_facts g anchor a sg Hg Ha Hsg) as [g' [Hrun [Hok' Hperm]]].
    destruct (IH Ht) as [l [Hl Hall]].
    exists (g' :: l). split.
    + simpl. rewrite Hrun, Hl. reflexivity.
    + constructor; [split; [exact Hrun|split; assumption]|exact Hall].
Qed.

Lemma groups_graphs_ok nm grp : glookup nm gs = Some grp -> Forall (pgraph_ok gs) (gr_graphs grp).
Proof.
  intros E. apply glookup_In in E. rewrite Forall_forall in Hgs. exact (Hgs _ E).
Qed.

Lemma rnn g :
  pattern_ok gs g ->
  (get_next_group_node gs g = GOk None /\ replace_next_node gs g = GOk None /\ final g)
  \/ (exists anchor a nm grp l,
        get_next_group_node gs g = GOk (Some anchor)
        /\ replace_next_node gs g = GOk (Some l) /\ mnode_attr g anchor = Some a
        /\ node_group gs a = Some nm /\ glookup nm gs = Some grp
        /\ Forall2 (child_of g anchor) (gr_graphs grp) l).
Proof.
  intros Hg. unfold replace_next_node.
  destruct (next_spec g Hg) as [[Hn Hfin]|[anchor [a [Hn [Ha Hgrp]]]]].
  - left. rewrite Hn. split; [reflexivity|]. split; [reflexivity|exact Hfin].
  - right. rewrite Hn, Ha.
    destruct Hg as [Hwf [Hr Hok]].
    destruct (mnode_attr_entry _ _ _ Ha) as [ad Hin].
    destruct (Hok _ _ _ Hin) as [_ Hone]. destruct (Hone Hgrp) as [nm [grp [Hfil [Hlk Hname]]]].
    rewrite Hfil, Hlk, Hname, String.eqb_refl. simpl.
    destruct (replace_each_ok g anchor a (gr_graphs grp) (conj Hwf (conj Hr Hok)) Ha (groups_graphs_ok nm grp Hlk))
      as [l [Hl Hall]].
    rewrite Hl. exists anchor, a, nm, grp, l. split; [reflexivity|]. split; [reflexivity|]. split; [exact Ha|].
    split; [|split; [exact Hlk|exact Hall]].
    unfold node_group. rewrite Hgrp, Hfil. reflexivity.
Qed.

(** * counts and weights across a step *)

Definition cnt (g : mgraph) : nat := pcount (GC gs) gs g.
Definition wt (g : mgraph) : nat := pweight (GW gs) gs g.

Lemma Forall2_in_r {A B} (P : A -> B -> Prop) la lb b :
  Forall2 P la lb -> In b lb -> exists a, In a la /\ P a b.
Proof.
  induction 1 as [|x y la' lb' Hxy _ IH]; simpl; [tauto|].
  intros [<-|Hin]; [exists x; auto|]. destruct (IH Hin) as [a [Ha Hp]]. exists a; auto.
Qed.

Lemma Forall2_in_l {A B} (P : A -> B -> Prop) la lb a :
  Forall2 P la lb -> In a la -> exists b, In b lb /\ P a b.
Proof.
  induction 1 as [|x y la' lb' Hxy _ IH]; simpl; [tauto|].
  intros [<-|Hin]; [exists y; auto|]. destruct (IH Hin) as [b [Hb Hp]]. exists b; auto.
Qed.

Lemma rnn_full g :
  pattern_ok gs g ->
  (get_next_group_node gs g = GOk None /\ replace_next_node gs g = GOk None /\ final g /\ cnt g = 1%nat)
  \/ (exists l, replace_next_node gs g = GOk (Some l) /\ list_sum (map cnt l) = cnt g
                /\ Forall (fun g' => pattern_ok gs g' /\ (wt g' < wt g)%nat /\ exists sg, step gs g sg g') l
                /\ (forall sg g', step gs g sg g' -> In g' l)).
Proof.
  intros Hg. destruct (rnn g Hg) as [[Hn0 [Hn Hfin]]|[anchor [a [nm [grp [l [Hn0 [Hn [Ha [Hng [Hlk Hall]]]]]]]]]]].
  - left. split; [exact Hn0|]. split; [exact Hn|]. split; [exact Hfin|]. apply pcount_final. exact Hfin.
  - right. exists l. split; [exact Hn|].
    pose proof (alist_split gs g anchor a Hg Ha) as Hsplit.
    set (R := lprod (map (oncnt (GC gs) gs) (rest_of g anchor))).
    set (SR := list_sum (map (onwt (GW gs) gs) (rest_of g anchor))).
    assert (Hcg : cnt g = (GC gs nm * R)%nat).
    { unfold cnt. rewrite pcount_alist.
      rewrite (lprod_perm _ _ (Permutation_map (oncnt (GC gs) gs) Hsplit)). simpl.
      unfold ncnt. rewrite Hng. reflexivity. }
    assert (Hwg : wt g = (GW gs nm + SR)%nat).
    { unfold wt. rewrite pweight_alist.
      rewrite (list_sum_perm _ _ (Permutation_map (onwt (GW gs) gs) Hsplit)). simpl.
      unfold nwt. rewrite Hng. reflexivity. }
    assert (Hchild : forall sg g', child_of g anchor sg g' ->
              cnt g' = (R * cnt (pg_graph sg))%nat /\ wt g' = (SR + wt (pg_graph sg))%nat).
    { intros sg g' [_ [_ Hperm]]. split.
      - unfold cnt at 1. rewrite pcount_alist.
        rewrite (lprod_perm _ _ (Permutation_map (oncnt (GC gs) gs) Hperm)).
        rewrite map_app, lprod_app. unfold cnt. rewrite pcount_alist. reflexivity.
      - unfold wt at 1. rewrite pweight_alist.
        rewrite (list_sum_perm _ _ (Permutation_map (onwt (GW gs) gs) Hperm)).
        rewrite map_app, list_sum_app. unfold wt. rewrite pweight_alist. reflexivity. }
    split; [|split].
    + rewrite Hcg, (GC_unfold gs rks Hrk nm grp Hlk).
      assert (Hsum : list_sum (map cnt l) = (R * list_sum (map (fun sg => cnt (pg_graph sg)) (gr_graphs grp)))%nat).
      { clear -Hall Hchild. induction Hall as [|sg g' t t' Hc _ IH]; simpl; [lia|].
        destruct (Hchild sg g' Hc) as [-> _]. rewrite IH. lia. }
      rewrite Hsum. unfold cnt. lia.
    + apply Forall_forall. intros g' Hin.
      destruct (Forall2_in_r _ _ _ _ Hall Hin) as [sg [Hsg Hc]].
      split; [destruct Hc as [_ [H _]]; exact H|]. split.
      * destruct (Hchild sg g' Hc) as [_ ->]. rewrite Hwg.
        pose proof (GW_graph_lt gs rks Hrk nm grp sg Hlk Hsg) as Hlt. unfold wt. lia.
      * exists sg. destruct Hc as [Hrun _]. exact (step_intro gs g sg g' anchor a nm grp Hn0 Ha Hng Hlk Hsg Hrun).
    + intros sg g' Hstep. destruct Hstep as [anchor' a' nm' grp' Hn0' Ha' Hng' Hlk' Hsg' Hrun'].
      rewrite Hn0 in Hn0'. inversion Hn0'; subst anchor'.
      rewrite Ha in Ha'. inversion Ha'; subst a'.
      rewrite Hng in Hng'. inversion Hng'; subst nm'.
      rewrite Hlk in Hlk'. inversion Hlk'; subst grp'.
      destruct (Forall2_in_l _ _ _ _ Hall Hsg') as [g'' [Hin [Hrun'' _]]].
      rewrite Hrun' in Hrun''. inversion Hrun''; subst. exact Hin.
Qed.

(** * one pass over the working set, the loop *)

Lemma round_ok ws :
  Forall (pattern_ok gs) ws ->
  exists res nws, build_round gs ws = GOk (res, nws)
    /\ (List.length res + list_sum (map cnt nws) = list_sum (map cnt ws))%nat
    /\ Forall (fun r => pattern_ok gs r /\ final r /\ In r ws /\ get_next_group_node gs r = GOk None) res
    /\ Forall (fun g' => pattern_ok gs g' /\ exists g, In g ws /\ (wt g' < wt g)%nat /\ exists sg, step gs g sg g') nws
    /\ (forall g, In g ws -> (get_next_group_node gs g = GOk None -> In g res)
                             /\ (forall sg g', step gs g sg g' -> In g' nws)).
Proof.
  induction ws as [|g t IH]; intros Hws.
  - exists [], []. simpl. split; [reflexivity|]. split; [reflexivity|]. split; [constructor|].
    split; [constructor|]. intros g [].
  - inversion Hws as [|? ? Hg Ht]; subst.
    destruct (IH Ht) as [res [nws [Hrun [Hsum [Hres [Hnws Hcomp]]]]]].
    assert (Hres' : Forall (fun r => pattern_ok gs r /\ final r /\ In r (g :: t) /\ get_next_group_node gs r = GOk None) res).
    { eapply Forall_impl; [|exact Hres]. intros r [H1 [H2 [H3 H4]]]. split; [exact H1|]. split; [exact H2|]. split; [right; exact H3|exact H4]. }
    assert (Hnws' : Forall (fun g' => pattern_ok gs g' /\ exists g0, In g0 (g :: t) /\ (wt g' < wt g0)%nat
                                        /\ exists sg, step gs g0 sg g') nws).
    { eapply Forall_impl; [|exact Hnws]. intros g' [Hok [g0 [Hin [Hlt Hst]]]]. split; [exact Hok|].
      exists g0. split; [right; exact Hin|]. split; [exact Hlt|exact Hst]. }
    simpl. destruct (rnn_full g Hg) as [[Hn0 [Hn [Hfin Hc]]]|[l [Hn [Hc [Hl Hcl]]]]]; rewrite Hn, Hrun.
    + exists (g :: res), nws. split; [reflexivity|]. split; [simpl; lia|].
      split; [constructor; [|exact Hres']; split; [exact Hg|]; split; [exact Hfin|]; split; [left; reflexivity|exact Hn0]|].
      split; [exact Hnws'|].
      intros g0 [<-|Hin].
      * split; [intros _; left; reflexivity|].
        intros sg g' Hst. destruct Hst as [anchor a nm grp H0 _ _ _ _ _]. rewrite Hn0 in H0. discriminate.
      * destruct (Hcomp g0 Hin) as [H1 H2]. split; [intros H; right; exact (H1 H)|exact H2].
    + exists res, (l ++ nws). split; [reflexivity|]. split; [rewrite map_app, list_sum_app; simpl; lia|].
      split; [exact Hres'|]. split.
      * apply Forall_app. split; [|exact Hnws'].
        eapply Forall_impl; [|exact Hl]. intros g' [Hok [Hlt Hst]]. split; [exact Hok|].
        exists g. split; [left; reflexivity|]. split; [exact Hlt|exact Hst].
      * intros g0 [<-|Hin].
        -- split.
           ++ intros H0. exfalso. unfold replace_next_node in Hn. rewrite H0 in Hn. discriminate.
           ++ intros sg g' Hst. apply in_or_app. left. exact (Hcl sg g' Hst).
        -- destruct (Hcomp g0 Hin) as [H1 H2]. split; [exact H1|].
           intros sg g' Hst. apply in_or_app. right. exact (H2 sg g' Hst).
Qed.

Lemma loop_ok fuel : forall ws rs,
  Forall (fun g => pattern_ok gs g /\ (wt g < fuel)%nat) ws ->
  exists out, build_loop fuel gs ws rs = GOk out
    /\ List.length out = (List.length rs + list_sum (map cnt ws))%nat
    /\ (forall r, In r out -> In r rs \/ (pattern_ok gs r /\ final r /\ exists g cs, In g ws /\ derives gs g cs r))
    /\ (forall r, In r rs -> In r out)
    /\ (forall g cs r, In g ws -> derives gs g cs r -> In r out).
Proof.
  induction fuel as [|f IH]; intros ws rs Hws.
  - destruct ws as [|g t].
    + exists rs. simpl. split; [reflexivity|]. split; [lia|]. split; [intros r Hr; left; exact Hr|].
      split; [auto|]. intros g cs r [].
    + inversion Hws as [|? ? [_ Hlt] _]; subst. lia.
  - destruct ws as [|g t].
    + exists rs. simpl. split; [reflexivity|]. split; [lia|]. split; [intros r Hr; left; exact Hr|].
      split; [auto|]. intros g cs r [].
    + assert (Hok : Forall (pattern_ok gs) (g :: t)).
      { eapply Forall_impl; [|exact Hws]. intros x [H _]. exact H. }
      destruct (round_ok (g :: t) Hok) as [res [nws [Hrun [Hsum [Hres [Hnws Hcomp]]]]]].
      assert (Hnws' : Forall (fun g' => pattern_ok gs g' /\ (wt g' < f)%nat) nws).
      { eapply Forall_impl; [|exact Hnws]. intros g' [Hg' [g0 [Hin [Hlt _]]]]. split; [exact Hg'|].
        rewrite Forall_forall in Hws. destruct (Hws g0 Hin) as [_ Hlt0]. lia. }
      destruct (IH nws (rs ++ res) Hnws') as [out [Hout [Hlen [Hsound [Hrs Hcompl]]]]].
      exists out. split; [cbn [build_loop]; rewrite Hrun; exact Hout|].
      split; [rewrite Hlen, app_length; lia|]. split; [|split].
      * intros r Hr. destruct (Hsound r Hr) as [Hin|[Hp [Hf [g' [cs [Hg' Hd]]]]]].
        -- apply in_app_or in Hin. destruct Hin as [Hin|Hin]; [left; exact Hin|right].
           rewrite Forall_forall in Hres. destruct (Hres r Hin) as [H1 [H2 [H3 H4]]].
           split; [exact H1|]. split; [exact H2|]. exists r, []. split; [exact H3|]. constructor. exact H4.
        -- right. split; [exact Hp|]. split; [exact Hf|].
           rewrite Forall_forall in Hnws. destruct (Hnws g' Hg') as [_ [g0 [Hin0 [_ [sg Hst]]]]].
           exists g0, (sg :: cs). split; [exact Hin0|]. econstructor; eauto.
      * intros r Hr. apply Hrs. apply in_or_app. left. exact Hr.
      * intros g0 cs r Hin Hd. destruct (Hcomp g0 Hin) as [H1 H2].
        inversion Hd as [? Hnone|? sg g' cs' ? Hst Hd']; subst.
        -- apply Hrs. apply in_or_app. right. exact (H1 Hnone).
        -- exact (Hcompl g' cs' r (H2 sg g' Hst) Hd').
Qed.

Lemma build_graphs_ok core :
  pattern_ok gs (pg_graph core) ->
  exists out, build_graphs gs core = GOk out /\ List.length out = cnt (pg_graph core)
              /\ Forall (fun r => pattern_ok gs r /\ final r /\ exists cs, derives gs (pg_graph core) cs r) out
              /\ (forall cs r, derives gs (pg_graph core) cs r -> In r out).
Proof.
  intros Hc. unfold build_graphs, build_fuel.
  destruct (loop_ok (S (wt (pg_graph core))) [pg_graph core] []) as [out [Hrun [Hlen [Hsound [_ Hcompl]]]]].
  - constructor; [|constructor]. split; [exact Hc|lia].
  - exists out. split; [exact Hrun|]. split; [rewrite Hlen; simpl; lia|]. split.
    + apply Forall_forall. intros r Hr. destruct (Hsound r Hr) as [[]|[H1 [H2 [g [cs [[<-|[]] Hd]]]]]].
      split; [exact H1|]. split; [exact H2|]. exists cs. exact Hd.
    + intros cs r Hd. apply (Hcompl (pg_graph core) cs r); [left; reflexivity|exact Hd].
Qed.

(** * conservation of the atom symbols along a derivation *)

Definition osyms (o : option nattr) : list (option string) :=
  match o with
  | Some a => if is_group_attr gs a then [] else [a_sym a]
  | None => []
  end.

Lemma plain_symbols_alist g : plain_symbols gs g = flat_map osyms (map Some (alist g)).
Proof.
  unfold plain_symbols, alist. induction g as [|[n [a ad]] t IH]; simpl; [reflexivity|].
  destruct (is_group_attr gs a); simpl; rewrite IH; reflexivity.
Qed.

Lemma step_child g sg g' :
  pattern_ok gs g -> step gs g sg g' ->
  exists anchor a, mnode_attr g anchor = Some a /\ is_group_attr gs a = true /\ child_of g anchor sg g'.
Proof.
  intros Hg [anchor a nm grp Hn0 Ha Hng Hlk Hsg Hrun].
  exists anchor, a. split; [exact Ha|]. split; [eapply node_group_is_group; eauto|].
  pose proof (groups_graphs_ok nm grp Hlk) as Hall. rewrite Forall_forall in Hall.
  destruct (step_facts g anchor a sg Hg Ha (Hall sg Hsg)) as [g'' [Hrun'' [Hok Hperm]]].
  rewrite Hrun in Hrun''. inversion Hrun''; subst g''.
  split; [exact Hrun|]. split; assumption.
Qed.

Lemma step_plain_symbols g sg g' :
  pattern_ok gs g -> step gs g sg g' ->
  pattern_ok gs g' /\ Permutation (plain_symbols gs g') (plain_symbols gs g ++ plain_symbols gs (pg_graph sg)).
Proof.
  intros Hg Hst. destruct (step_child g sg g' Hg Hst) as [anchor [a [Ha [Hgrp [_ [Hok Hperm]]]]]].
  split; [exact Hok|].
  pose proof (alist_split gs g anchor a Hg Ha) as Hsplit.
  rewrite !plain_symbols_alist.
  eapply Permutation_trans; [apply (Permutation_flat_map osyms Hperm)|].
  rewrite flat_map_app. apply Permutation_app_tail.
  eapply Permutation_trans; [|apply Permutation_sym; apply (Permutation_flat_map osyms Hsplit)].
  simpl. rewrite Hgrp. simpl. apply Permutation_refl.
Qed.

Lemma final_symbols g : final g -> msymbols g = plain_symbols gs g.
Proof.
  unfold msymbols, plain_symbols. intros Hfin. induction g as [|e t IH]; simpl; [reflexivity|].
  rewrite (Hfin e (or_introl eq_refl)). simpl. f_equal. apply IH. intros x Hx. apply Hfin. right. exact Hx.
Qed.

Lemma final_of_next g : pattern_ok gs g -> get_next_group_node gs g = GOk None -> final g.
Proof.
  intros Hg Hn. destruct (next_spec g Hg) as [[_ Hf]|[anchor [a [Hn' _]]]]; [exact Hf|congruence].
Qed.

Theorem derivation_symbols g cs r :
  derives gs g cs r -> pattern_ok gs g ->
  Permutation (msymbols r) (plain_symbols gs g ++ flat_map (fun sg => plain_symbols gs (pg_graph sg)) cs).
Proof.
  induction 1 as [g Hn|g sg g' cs r Hst Hd IH]; intros Hg.
  - simpl. rewrite app_nil_r. rewrite (final_symbols g (final_of_next g Hg Hn)). apply Permutation_refl.
  - destruct (step_plain_symbols g sg g' Hg Hst) as [Hg' Hperm].
    eapply Permutation_trans; [apply (IH Hg')|]. simpl. rewrite app_assoc.
    apply Permutation_app_tail. exact Hperm.
Qed.

End Expansion.
