(** The sort key (pattern_len, len(pattern), number_of_edges, pattern_str) is compared by a
    strict total order: Python's tuple/str "<" as modelled by Model.FGTree.key_ltb. *)
From Coq Require Import ZArith List Bool String Ascii Lia NArith.
From FGV Require Import Model.FGTree Proofs.SortFacts.
Import ListNotations.
Open Scope Z_scope.

Lemma ascii_compare_refl c : Ascii.compare c c = Eq.
Proof. unfold Ascii.compare. apply N.compare_refl. Qed.

Lemma ascii_compare_lt_trans a b c :
  Ascii.compare a b = Lt -> Ascii.compare b c = Lt -> Ascii.compare a c = Lt.
Proof. unfold Ascii.compare. rewrite !N.compare_lt_iff. lia. Qed.

Lemma string_compare_refl s : String.compare s s = Eq.
Proof. induction s as [|c t IH]; simpl; auto. rewrite ascii_compare_refl. exact IH. Qed.

Lemma string_compare_lt_trans : forall a b c,
  String.compare a b = Lt -> String.compare b c = Lt -> String.compare a c = Lt.
Proof.
  induction a as [|x a IH]; intros [|y b] [|z c]; simpl; try discriminate; auto.
  destruct (Ascii.compare x y) eqn:Exy; try discriminate.
  - apply Ascii.compare_eq_iff in Exy. subst y.
    destruct (Ascii.compare x z) eqn:Exz; try discriminate; auto. apply IH.
  - intros _. destruct (Ascii.compare y z) eqn:Eyz; try discriminate.
    + apply Ascii.compare_eq_iff in Eyz. subst z. rewrite Exy. reflexivity.
    + rewrite (ascii_compare_lt_trans _ _ _ Exy Eyz). reflexivity.
Qed.

Lemma str_ltb_irrefl s : str_ltb s s = false.
Proof. unfold str_ltb. rewrite string_compare_refl. reflexivity. Qed.

Lemma str_ltb_trans a b c : str_ltb a b = true -> str_ltb b c = true -> str_ltb a c = true.
Proof.
  unfold str_ltb.
  destruct (String.compare a b) eqn:E1; try discriminate.
  destruct (String.compare b c) eqn:E2; try discriminate.
  rewrite (string_compare_lt_trans _ _ _ E1 E2). reflexivity.
Qed.

Lemma str_ltb_total a b : a = b \/ str_ltb a b = true \/ str_ltb b a = true.
Proof.
  unfold str_ltb. destruct (String.compare a b) eqn:E.
  - left. apply String.compare_eq_iff. exact E.
  - auto.
  - right. right. rewrite String.compare_antisym, E. reflexivity.
Qed.

Lemma key_ltb_irrefl k : key_ltb k k = false.
Proof.
  destruct k as [[[a b] c] d]. unfold key_ltb. rewrite !Z.eqb_refl. simpl. apply str_ltb_irrefl.
Qed.

Lemma key_ltb_trans x y z : key_ltb x y = true -> key_ltb y z = true -> key_ltb x z = true.
Proof.
  destruct x as [[[a1 a2] a3] a4], y as [[[b1 b2] b3] b4], z as [[[c1 c2] c3] c4]. unfold key_ltb.
  destruct (a1 =? b1) eqn:E1; simpl.
  - apply Z.eqb_eq in E1. subst b1.
    destruct (a2 =? b2) eqn:E2; simpl.
    + apply Z.eqb_eq in E2. subst b2.
      destruct (a3 =? b3) eqn:E3; simpl.
      * apply Z.eqb_eq in E3. subst b3.
        intros H1. destruct (a1 =? c1); simpl; auto. destruct (a2 =? c2); simpl; auto.
        destruct (a3 =? c3); simpl; auto. apply str_ltb_trans. exact H1.
      * intros H1. destruct (a1 =? c1) eqn:F1; simpl; auto. destruct (a2 =? c2) eqn:F2; simpl; auto.
        destruct (b3 =? c3) eqn:F3; simpl.
        -- apply Z.eqb_eq in F3. subst c3. rewrite E3. simpl. auto.
        -- intros H2. apply Z.ltb_lt in H1, H2.
           assert (a3 =? c3 = false) by (apply Z.eqb_neq; lia). rewrite H. simpl. apply Z.ltb_lt. lia.
    + intros H1. destruct (a1 =? c1) eqn:F1; simpl; auto.
      destruct (b2 =? c2) eqn:F2; simpl.
      * apply Z.eqb_eq in F2. subst c2. rewrite E2. simpl. auto.
      * intros H2. apply Z.ltb_lt in H1, H2.
        assert (a2 =? c2 = false) by (apply Z.eqb_neq; lia). rewrite H. simpl. apply Z.ltb_lt. lia.
  - intros H1. destruct (b1 =? c1) eqn:F1; simpl.
    + apply Z.eqb_eq in F1. subst c1. rewrite E1. simpl. auto.
    + intros H2. apply Z.ltb_lt in H1, H2.
      assert (a1 =? c1 = false) by (apply Z.eqb_neq; lia). rewrite H. simpl. apply Z.ltb_lt. lia.
Qed.

Lemma key_ltb_total x y : x = y \/ key_ltb x y = true \/ key_ltb y x = true.
Proof.
  destruct x as [[[a1 a2] a3] a4], y as [[[b1 b2] b3] b4]. unfold key_ltb.
  destruct (Z.lt_total a1 b1) as [H|[H|H]].
  - right. left. assert (E : a1 =? b1 = false) by (apply Z.eqb_neq; lia). rewrite E. simpl. apply Z.ltb_lt. exact H.
  - subst b1. rewrite Z.eqb_refl. simpl.
    destruct (Z.lt_total a2 b2) as [H|[H|H]].
    + right. left. assert (E : a2 =? b2 = false) by (apply Z.eqb_neq; lia). rewrite E. simpl. apply Z.ltb_lt. exact H.
    + subst b2. rewrite Z.eqb_refl. simpl.
      destruct (Z.lt_total a3 b3) as [H|[H|H]].
      * right. left. assert (E : a3 =? b3 = false) by (apply Z.eqb_neq; lia). rewrite E. simpl. apply Z.ltb_lt. exact H.
      * subst b3. rewrite Z.eqb_refl. simpl.
        destruct (str_ltb_total a4 b4) as [->|H]; auto.
      * right. right. assert (E : b3 =? a3 = false) by (apply Z.eqb_neq; lia). rewrite E. simpl. apply Z.ltb_lt. exact H.
    + right. right. assert (E : b2 =? a2 = false) by (apply Z.eqb_neq; lia). rewrite E. simpl. apply Z.ltb_lt. exact H.
  - right. right. assert (E : b1 =? a1 = false) by (apply Z.eqb_neq; lia). rewrite E. simpl. apply Z.ltb_lt. exact H.
Qed.

(** the comparison of configurations *)
Lemma cfg_ltb_irrefl c : cfg_ltb c c = false.
Proof. apply key_ltb_irrefl. Qed.

Lemma cfg_ltb_trans a b c : cfg_ltb a b = true -> cfg_ltb b c = true -> cfg_ltb a c = true.
Proof. apply key_ltb_trans. Qed.

(* pairwise distinct keys make the comparison total on the list *)
Lemma cfg_ltb_total l : NoDup (map order_key l) -> total_on cfg_ltb l.
Proof.
  intros Hnd a b Ha Hb. unfold cfg_ltb.
  destruct (key_ltb_total (order_key a) (order_key b)) as [E|H]; auto.
  left. revert Hnd a b Ha Hb E. induction l as [|x t IH]; intros Hnd a b Ha Hb E; [destruct Ha|].
  simpl in Hnd. inversion Hnd as [|? ? Hx Ht]; subst.
  destruct Ha as [<-|Ha], Hb as [<-|Hb]; auto.
  - exfalso. apply Hx. rewrite E. apply in_map. exact Hb.
  - exfalso. apply Hx. rewrite <- E. apply in_map. exact Ha.
Qed.

Lemma distinct_keys_nodup l : NoDup (map order_key l) -> NoDup l.
Proof. apply NoDup_map_inv. Qed.

(** a decidable test for pairwise distinct keys *)
Definition skey_eqb (x y : skey) : bool :=
  let '(a1, a2, a3, a4) := x in
  let '(b1, b2, b3, b4) := y in
  (a1 =? b1) && (a2 =? b2) && (a3 =? b3) && String.eqb a4 b4.

Lemma skey_eqb_eq x y : skey_eqb x y = true <-> x = y.
Proof.
  destruct x as [[[a1 a2] a3] a4], y as [[[b1 b2] b3] b4]. unfold skey_eqb.
  rewrite !andb_true_iff, !Z.eqb_eq, String.eqb_eq. split.
  - intros [[[-> ->] ->] ->]. reflexivity.
  - intros [= -> -> -> ->]. auto.
Qed.

Fixpoint keys_distinctb (l : list skey) : bool :=
  match l with
  | [] => true
  | x :: t => negb (existsb (skey_eqb x) t) && keys_distinctb t
  end.

Lemma keys_distinctb_NoDup l : keys_distinctb l = true -> NoDup l.
Proof.
  induction l as [|x t IH]; simpl; [constructor|].
  rewrite andb_true_iff, negb_true_iff. intros [H1 H2]. constructor; auto.
  intros Hin. assert (existsb (skey_eqb x) t = true).
  { apply existsb_exists. exists x. split; auto. apply skey_eqb_eq. reflexivity. }
  congruence.
Qed.
