(** C14: what nx.Graph(multigraph) keeps of the bonds. The bond between u and v in the collapsed graph
    is the label of the last key of the bundle; when no two atoms are joined by more than one bond
    the multiset of bond labels is unchanged. *)
From Coq Require Import ZArith List Bool String Lia Permutation Arith.
From FGV Require Import Base.Util Base.UtilFacts Base.Bond Base.NX Base.NXFacts Base.NXMulti Model.Aam Model.Proxy
  Model.ProxyGen Spec.ProxySpec Spec.ProxyCheck Spec.ProxyGenSpec Spec.ProxyBondSpec
  Proofs.ProxyGenUtil Proofs.ProxyGenFinish Proofs.ProxyBonds Proofs.ReactionProofs.
Import ListNotations.
Open Scope Z_scope.

(** * the label that survives *)

Definition olast (kd : keyd) : option label :=
  match kd with [] => None | _ => Some (last (map snd kd) (Scalar 0)) end.

Definition pmatch (u v x y : Z) : bool := ((x =? u) && (y =? v)) || ((x =? v) && (y =? u)).

Lemma edge_label_add_bundle u v x y (kd : keyd) : forall G,
  edge_label (add_edges_from G (map (fun '(_, l) => (u, v, l)) kd)) x y
  = if pmatch u v x y then (match olast kd with Some l => Some l | None => edge_label G x y end)
    else edge_label G x y.
Proof.
  unfold add_edges_from. induction kd as [|[k l] t IH]; intros G.
  - simpl. destruct (pmatch u v x y); reflexivity.
  - cbn [map fold_left]. rewrite IH. rewrite edge_label_add_edge. fold (pmatch u v x y).
    destruct (pmatch u v x y); [|reflexivity].
    destruct t as [|[k2 l2] t2]; reflexivity.
Qed.

(** * the invariant of the double loop of to_simple *)

Section Collapse.
Variable g : mgraph.
Hypothesis Hwf : mwf g.

Definition Inv (st : list (Z * Z) * graph) (S : Z -> Z -> Prop) : Prop :=
  (forall x y, S x y \/ S y x -> edge_label (snd st) x y = olast (mkeyd g x y))
  /\ (forall x y, ~ (S x y \/ S y x) -> edge_label (snd st) x y = None)
  /\ (forall x y, mem2 (x, y) (fst st) = true -> S y x).

Lemma Inv_ext st S S' : (forall x y, S x y <-> S' x y) -> Inv st S -> Inv st S'.
Proof.
  intros E [H1 [H2 H3]]. split; [|split].
  - intros x y H. apply H1. rewrite !E. exact H.
  - intros x y H. apply H2. rewrite !E. exact H.
  - intros x y H. apply E. apply H3. exact H.
Qed.

Lemma mem2_cons p q l : mem2 p (q :: l) = ((fst p =? fst q) && (snd p =? snd q)) || mem2 p l.
Proof. reflexivity. Qed.

Lemma pmatch_iff u v x y : pmatch u v x y = true <-> (x = u /\ y = v) \/ (x = v /\ y = u).
Proof. unfold pmatch. rewrite orb_true_iff, !andb_true_iff, !Z.eqb_eq. tauto. Qed.

Lemma inner_step u v kd st S :
  Inv st S -> mkeyd g u v = kd -> kd <> [] ->
  Inv (ts_inner u st (v, kd)) (fun x y => S x y \/ (x = u /\ y = v)).
Proof.
  intros [H1 [H2 H3]] Hkd Hne. destruct st as [seen G]. unfold ts_inner.
  assert (Hsym : mkeyd g v u = kd) by (rewrite <- (mkeyd_sym g u v Hwf); exact Hkd).
  destruct (mem2 (u, v) seen) eqn:Es.
  - (* already added from the other side *)
    pose proof (H3 u v Es) as Hvu. unfold Inv. cbn [fst snd] in *.
    split; [|split].
    + intros x y [[H|[-> ->]]|[H|[-> ->]]]; try (apply H1; tauto).
    + intros x y H. apply H2. tauto.
    + intros x y H. left. apply H3. exact H.
  - unfold Inv. cbn [fst snd] in *. split; [|split].
    + intros x y H. rewrite edge_label_add_bundle.
      destruct (pmatch u v x y) eqn:Ep.
      * apply pmatch_iff in Ep. destruct kd as [|e t]; [congruence|].
        destruct Ep as [[-> ->]|[-> ->]]; [rewrite Hkd|rewrite Hsym]; reflexivity.
      * assert (Hn : ~ ((x = u /\ y = v) \/ (x = v /\ y = u))) by (rewrite <- pmatch_iff, Ep; discriminate).
        apply H1. tauto.
    + intros x y H. rewrite edge_label_add_bundle.
      destruct (pmatch u v x y) eqn:Ep.
      * apply pmatch_iff in Ep. exfalso. apply H. tauto.
      * apply H2. tauto.
    + intros x y H. rewrite mem2_cons in H. cbn [fst snd] in H. apply orb_true_iff in H. destruct H as [H|H].
      * apply andb_true_iff in H. destruct H as [Ex Ey]. apply Z.eqb_eq in Ex. apply Z.eqb_eq in Ey. subst.
        right. split; reflexivity.
      * left. apply H3. exact H.
Qed.

Lemma inner_fold u ad : forall st S,
  Inv st S -> (forall v kd, In (v, kd) ad -> mkeyd g u v = kd /\ kd <> []) ->
  Inv (fold_left (ts_inner u) ad st) (fun x y => S x y \/ (x = u /\ exists kd, In (y, kd) ad)).
Proof.
  induction ad as [|[v kd] t IH]; intros st S HI Had.
  - simpl. eapply Inv_ext; [|exact HI]. intros x y. split; [tauto|]. intros [H|[_ [kd []]]]. exact H.
  - simpl. destruct (Had v kd (or_introl eq_refl)) as [Hk Hne].
    eapply Inv_ext; [|apply (IH _ _ (inner_step u v kd st S HI Hk Hne))].
    + intros x y. split.
      * intros [[H|[-> ->]]|[-> [kd' Hin]]]; [left; exact H| |].
        -- right. split; [reflexivity|]. exists kd. left. reflexivity.
        -- right. split; [reflexivity|]. exists kd'. right. exact Hin.
      * intros [H|[-> [kd' [Hin|Hin]]]]; [left; left; exact H| |].
        -- inversion Hin; subst. left. right. split; reflexivity.
        -- right. split; [reflexivity|]. exists kd'. exact Hin.
    + intros v' kd' Hin. apply Had. right. exact Hin.
Qed.

Lemma outer_fold (l : mgraph) : forall st S,
  Inv st S ->
  (forall u a ad v kd, In (u, (a, ad)) l -> In (v, kd) ad -> mkeyd g u v = kd /\ kd <> []) ->
  Inv (fold_left (fun st '(u, (_, ad)) => fold_left (ts_inner u) ad st) l st)
      (fun x y => S x y \/ exists a ad kd, In (x, (a, ad)) l /\ In (y, kd) ad).
Proof.
  induction l as [|[u [a ad]] t IH]; intros st S HI Hl.
  - simpl. eapply Inv_ext; [|exact HI]. intros x y. split; [tauto|]. intros [H|[? [? [? [[] _]]]]]. exact H.
  - simpl.
    eapply Inv_ext; [|apply (IH _ _ (inner_fold u ad st S HI (fun v kd Hin => Hl u a ad v kd (or_introl eq_refl) Hin)))].
    + intros x y. split.
      * intros [[H|[-> [kd Hin]]]|[a' [ad' [kd [Hin1 Hin2]]]]]; [left; exact H| |].
        -- right. exists a, ad, kd. split; [left; reflexivity|exact Hin].
        -- right. exists a', ad', kd. split; [right; exact Hin1|exact Hin2].
      * intros [H|[a' [ad' [kd [[Heq|Hin1] Hin2]]]]]; [left; left; exact H| |].
        -- inversion Heq; subst. left. right. split; [reflexivity|]. exists kd. exact Hin2.
        -- right. exists a', ad', kd. split; assumption.
    + intros u' a' ad' v kd Hin1 Hin2. apply (Hl u' a' ad' v kd); [right; exact Hin1|exact Hin2].
Qed.

Lemma edge_label_final_attrs (l : list (Z * nattr)) : forall G x y,
  edge_label (fold_left (fun acc '(n, a) => add_node acc n a) l G) x y = edge_label G x y.
Proof.
  induction l as [|[n a] t IH]; intros G x y; simpl; [reflexivity|].
  rewrite IH. apply edge_label_add_node.
Qed.

Lemma edge_label_add_nodes_from (l : list (Z * nattr)) : forall G x y,
  edge_label (add_nodes_from G l) x y = edge_label G x y.
Proof. unfold add_nodes_from. apply edge_label_final_attrs. Qed.

Theorem edge_label_to_simple x y : edge_label (to_simple g) x y = olast (mkeyd g x y).
Proof.
  pose proof Hwf as [Hnd [Hadj Hsym]].
  unfold to_simple. rewrite edge_label_final_attrs.
  set (G0 := add_nodes_from empty_graph (map (fun '(n, _) => (n, na_empty)) (mnodes_data g))).
  assert (H0 : Inv ([], G0) (fun _ _ => False)).
  { split; [|split].
    - intros a b [[]|[]].
    - intros a b _. simpl. unfold G0. rewrite edge_label_add_nodes_from. reflexivity.
    - intros a b H. discriminate. }
  assert (Hl : forall u a ad v kd, In (u, (a, ad)) g -> In (v, kd) ad -> mkeyd g u v = kd /\ kd <> []).
  { intros u a ad v kd Hin1 Hin2.
    assert (Ead : madj g u = ad) by (unfold madj; rewrite (NoDup_alookup u (a, ad) g Hnd Hin1); reflexivity).
    assert (Ekd : alookup v (madj g u) = Some kd).
    { rewrite Ead. apply NoDup_alookup; [|exact Hin2]. rewrite <- Ead. apply Hadj. }
    split; [unfold mkeyd; rewrite Ekd; reflexivity|]. destruct (Hsym u v kd Ekd) as [H _]. exact H. }
  destruct (outer_fold g ([], G0) (fun _ _ => False) H0 Hl) as [H1 [H2 _]].
  destruct (mkeyd g x y) as [|e t] eqn:Ek.
  - (* not bonded: either clause gives None *)
    destruct (alookup y (madj g x)) as [kd|] eqn:E.
    + exfalso. destruct (Hsym x y kd E) as [Hne _]. unfold mkeyd in Ek. rewrite E in Ek. congruence.
    + apply H2. intros [[[]|[a [ad [kd [Hin1 Hin2]]]]]|[[]|[a [ad [kd [Hin1 Hin2]]]]]].
      * destruct (Hl _ _ _ _ _ Hin1 Hin2) as [Hk Hne]. congruence.
      * destruct (Hl _ _ _ _ _ Hin1 Hin2) as [Hk Hne]. rewrite (mkeyd_sym g y x Hwf) in Hk. congruence.
  - rewrite <- Ek. apply H1. left. right.
    unfold mkeyd in Ek. destruct (alookup y (madj g x)) as [kd|] eqn:E; [|discriminate].
    unfold madj in E. destruct (alookup x g) as [[a ad]|] eqn:Ex; [|discriminate].
    exists a, ad, kd. split; [apply alookup_In; exact Ex|apply alookup_In; exact E].
Qed.

End Collapse.

(** * the bonds of a simple graph as a double sum *)

Definition Ms (G : graph) (l : label) (u v : Z) : nat :=
  match edge_label G u v with
  | Some lb => if label_eqb l lb then 1%nat else O
  | None => O
  end.

Lemma edges_aux_count G l : forall rest seen,
  NoDup (seen ++ map fst rest) ->
  (forall u a ad, In (u, (a, ad)) rest -> ad = adj G u) ->
  (forall u v, In u (map fst rest) -> In v (neighbors G u) -> In v (seen ++ map fst rest)) ->
  (forall u, NoDup (map fst (adj G u))) ->
  lcount l (map (fun e => snd e) (edges_aux seen rest)) = upper (Ms G l) (map fst rest).
Proof.
  induction rest as [|[u [a ad]] t IH]; intros seen Hnd Had Hcl Hadj; [reflexivity|].
  cbn [edges_aux map fst upper]. rewrite map_app, lcount_app.
  assert (Ead : ad = adj G u) by (eapply Had; left; reflexivity). subst ad.
  rewrite (IH (u :: seen)).
  - f_equal. rewrite map_map.
    rewrite (map_ext (fun x : Z * label => snd (let '(v, l0) := x in (u, v, l0))) (fun x => snd x))
      by (intros [v lb]; reflexivity).
    rewrite (lcount_filter_map l (fun x : Z * label => snd x)).
    rewrite (msum_ext _ (fun e => (fun v lb => if zmem v seen then O else if label_eqb l lb then 1%nat else O) (fst e) (snd e))).
    2:{ intros [v lb] _. simpl. destruct (zmem v seen); reflexivity. }
    assert (Hsub : forall v, In v (map fst (adj G u)) -> In v (seen ++ u :: map fst t)).
    { intros v Hv. apply (Hcl u v); [left; reflexivity|exact Hv]. }
    pose proof (msum_alist (fun v (lb : label) => if zmem v seen then O else if label_eqb l lb then 1%nat else O)
                           (adj G u) (seen ++ u :: map fst t) (Hadj u) Hnd Hsub) as E.
    cbv beta in E. rewrite E. clear E.
    rewrite msum_app. rewrite msum_zero.
    2:{ intros v Hv. destruct (alookup v (adj G u)); [|reflexivity].
        rewrite (proj2 (zmem_In v seen) Hv). reflexivity. }
    assert (Hns : forall v, In v (u :: map fst t) -> zmem v seen = false).
    { intros v Hv. apply zmem_false. intros Hs. apply NoDup_app_disjoint with (1 := Hnd) (x := v); assumption. }
    rewrite (msum_ext _ (Ms G l u) (u :: map fst t)).
    2:{ intros v Hv. rewrite (Hns v Hv). unfold Ms, edge_label. destruct (alookup v (adj G u)); reflexivity. }
    rewrite msum_cons. reflexivity.
  - simpl. apply NoDup_move_middle. exact Hnd.
  - intros u' a' ad' Hin. apply (Had u' a' ad'). right. exact Hin.
  - intros u' v Hu' Hv. specialize (Hcl u' v (or_intror Hu') Hv).
    apply in_app_or in Hcl. destruct Hcl as [H|[H|H]].
    + right. apply in_or_app. left. exact H.
    + left. simpl in H. exact H.
    + right. apply in_or_app. right. exact H.
  - exact Hadj.
Qed.

Theorem sbonds_double_sum G n l :
  wf G -> (forall x, edge_label G x x = None) -> ids_range (nodes G) 0 n ->
  (2 * lcount l (bonds G) = msum (fun x => msum (fun y => Ms G l x y) (zseq 0 n)) (zseq 0 n))%nat.
Proof.
  intros Hwf Hlf Hr. pose proof Hwf as [Hnd [Hadj Hsym]].
  unfold bonds, edges.
  rewrite (edges_aux_count G l G []).
  - change (map fst G) with (nodes G).
    assert (HMsym : forall u v, Ms G l u v = Ms G l v u).
    { intros u v. unfold Ms. destruct (edge_label G u v) as [lb|] eqn:E1.
      - rewrite (Hsym u v lb E1). reflexivity.
      - destruct (edge_label G v u) as [lb|] eqn:E2; [|reflexivity]. rewrite (Hsym v u lb E2) in E1. discriminate. }
    rewrite <- (full_upper (Ms G l) (nodes G) HMsym).
    rewrite (msum_zero (fun u => Ms G l u u)) by (intros u _; unfold Ms; rewrite Hlf; reflexivity).
    rewrite Nat.add_0_r.
    pose proof (ids_range_perm _ _ _ Hnd Hr) as Hp.
    rewrite (msum_perm _ _ _ Hp). apply msum_ext. intros x _. apply (msum_perm _ _ _ Hp).
  - simpl. exact Hnd.
  - intros u a ad Hin. unfold adj. rewrite (NoDup_alookup u (a, ad) G Hnd Hin). reflexivity.
  - intros u v _ Hv. simpl. unfold neighbors in Hv. destruct (In_alookup v (adj G u) Hv) as [lb E].
    apply has_node_In. exact (proj2 (wf_edge_nodes G u v lb Hwf E)).
  - exact Hadj.
Qed.

(** * set_aam_all keeps the bonds *)

Lemma mkeyd_set_aam_all g x y : mkeyd (set_aam_all g) x y = mkeyd g x y.
Proof. unfold mkeyd. rewrite madj_set_aam_all. reflexivity. Qed.

Lemma mwf_set_aam_all g : mwf g -> mwf (set_aam_all g).
Proof.
  intros [Hnd [Hadj Hsym]]. split; [rewrite mnodes_set_aam_all; exact Hnd|]. split.
  - intros u. rewrite madj_set_aam_all. apply Hadj.
  - intros u v kd. unfold mkd in *. rewrite !madj_set_aam_all. apply Hsym.
Qed.

Lemma medges_aux_set_aam_all g : forall seen, medges_aux seen (set_aam_all g) = medges_aux seen g.
Proof.
  induction g as [|[n [a ad]] t IH]; intros seen; [reflexivity|].
  cbn [set_aam_all map medges_aux]. f_equal. apply IH.
Qed.

Lemma mbonds_set_aam_all g : mbonds (set_aam_all g) = mbonds g.
Proof. unfold mbonds, medges. rewrite medges_aux_set_aam_all. reflexivity. Qed.

(** * without parallel bonds the collapse keeps the multiset of bond labels *)

Theorem collapse_bonds gs aam g :
  pattern_ok gs g -> loopfree g -> no_parallel g ->
  Permutation (bonds (finish aam g)) (mbonds g).
Proof.
  intros [Hwf [Hr _]] Hlf Hnp.
  set (g1 := if aam then set_aam_all g else g).
  assert (Hwf1 : mwf g1) by (unfold g1; destruct aam; [apply mwf_set_aam_all|]; exact Hwf).
  assert (Hk1 : forall x y, mkeyd g1 x y = mkeyd g x y) by (intros; unfold g1; destruct aam; [apply mkeyd_set_aam_all|reflexivity]).
  assert (Hn1 : mnodes g1 = mnodes g) by (unfold g1; destruct aam; [apply mnodes_set_aam_all|reflexivity]).
  assert (Hb1 : mbonds g1 = mbonds g) by (unfold g1; destruct aam; [apply mbonds_set_aam_all|reflexivity]).
  unfold finish. fold g1.
  destruct (to_simple_nodes_attrs g1) as [Hns _].
  { rewrite Hn1. destruct Hwf as [H _]. exact H. }
  { apply mwf_closed. exact Hwf1. }
  apply perm_of_lcount. intros l.
  assert (E : (2 * lcount l (bonds (to_simple g1)) = 2 * lcount l (mbonds g))%nat); [|lia].
  rewrite (sbonds_double_sum (to_simple g1) (mnumber_of_nodes g) l).
  - rewrite (bonds_double_sum g (mnumber_of_nodes g) l Hwf Hlf Hr). unfold D.
    apply msum_ext. intros x _. apply msum_ext. intros y _.
    unfold Ms. rewrite (edge_label_to_simple g1 Hwf1), Hk1. rewrite mcount_kcount.
    specialize (Hnp x y). destruct (mkeyd g x y) as [|[k lb] [|e t]]; [reflexivity| |simpl in Hnp; lia].
    unfold olast, kcount, lcount. simpl. destruct (label_eqb l lb); reflexivity.
  - apply wf_to_simple.
  - intros x. rewrite (edge_label_to_simple g1 Hwf1), Hk1, Hlf. reflexivity.
  - rewrite Hns, Hn1. exact Hr.
Qed.
