(** C17: the decidable reference [connected_sets] decides the declarative specification, and
    the checker [cis_okb] run on implementation outputs is sound. *)
From Coq Require Import ZArith List Bool Lia.
From FGV Require Import Base.Util Base.UtilFacts Base.Bond Base.NX Model.Cis Spec.CisSpec Spec.CisCheck
  Proofs.CisCore Proofs.CisRelabel Proofs.CisTop.
Import ListNotations.
Open Scope Z_scope.

(** * Boolean set operations *)

Lemma inclb_incl X Y : inclb X Y = true <-> incl X Y.
Proof.
  unfold inclb. rewrite forallb_forall. split; intros Hi x Hx; [apply zmem_In | apply zmem_In]; apply Hi; exact Hx.
Qed.

Lemma same_setb_same_set X Y : same_setb X Y = true <-> same_set X Y.
Proof.
  unfold same_setb. rewrite andb_true_iff, !inclb_incl. split.
  - intros (H1 & H2) x. split; [apply H1 | apply H2].
  - intros Hs. split; intros x Hx; apply Hs; exact Hx.
Qed.

Lemma same_set_sym X Y : same_set X Y -> same_set Y X.
Proof. intros Hs x. symmetry. apply Hs. Qed.

Lemma same_set_trans X Y Z : same_set X Y -> same_set Y Z -> same_set X Z.
Proof. intros H1 H2 x. rewrite (H1 x). apply H2. Qed.

Lemma connected_same_set G S S' : same_set S S' -> connected G S -> connected G S'.
Proof.
  intros Hs (Hne & Hc). split.
  - intros ->. destruct S as [|x t]; [congruence|]. apply (Hs x). left. reflexivity.
  - intros u v Hu Hv. apply (walk_same_set _ S S' _ _ Hs). apply Hc; apply Hs; assumption.
Qed.

(** * Sublists *)

Lemma sublists_filter p l : In (filter p l) (sublists l).
Proof.
  induction l as [|x t IH]; simpl; [left; reflexivity|].
  apply in_or_app. destruct (p x); [left; apply in_map; exact IH | right; exact IH].
Qed.

Lemma sublists_incl l : forall T, In T (sublists l) -> incl T l /\ (NoDup l -> NoDup T).
Proof.
  induction l as [|x t IH]; intros T HT.
  - destruct HT as [<-|[]]. split; [apply incl_refl | auto].
  - simpl in HT. apply in_app_or in HT. destruct HT as [HT|HT].
    + apply in_map_iff in HT. destruct HT as (T' & <- & HT'). destruct (IH _ HT') as (Hi & Hn). split.
      * intros y [<-|Hy]; [left; reflexivity | right; apply Hi; exact Hy].
      * intros Hnd. inversion Hnd as [|? ? Hni Hnd']; subst. constructor; [|apply Hn; exact Hnd'].
        intros Hin. apply Hni. apply Hi. exact Hin.
    + destruct (IH _ HT) as (Hi & Hn). split.
      * intros y Hy. right. apply Hi. exact Hy.
      * intros Hnd. inversion Hnd; subst. apply Hn. assumption.
Qed.

(** * The breadth-first connectivity test *)

Lemma filter_length_le' {A} (p : A -> bool) l : (List.length (filter p l) <= List.length l)%nat.
Proof. induction l as [|x t IH]; simpl; [lia|]. destruct (p x); simpl; lia. Qed.

Section Bfs.
Variable G : graph.
Variable S : list Z.
Variable a : Z.
Hypothesis HaS : In a S.

Fixpoint rk (k : nat) : list Z :=
  match k with O => filter (Z.eqb a) S | Datatypes.S k' => expand G S (rk k') end.

Lemma iter_rk k : forall R, iter k (expand G S) R =
  (fix go j := match j with O => R | Datatypes.S j' => expand G S (go j') end) k.
Proof.
  induction k as [|k IH]; intros R; [reflexivity|].
  simpl. rewrite IH. clear IH. induction k as [|k IH]; [reflexivity|]. rewrite IH. reflexivity.
Qed.

Lemma reach_set_rk : reach_set G S a = rk (List.length S).
Proof.
  unfold reach_set. rewrite iter_rk. generalize (List.length S). intros k.
  induction k as [|k IH]; [reflexivity|]. simpl. rewrite IH. reflexivity.
Qed.

Lemma expand_In R x : In x (expand G S R) <->
  In x S /\ (In x R \/ exists u, In u R /\ In x (neighbors G u)).
Proof.
  unfold expand. rewrite filter_In, orb_true_iff, zmem_In, existsb_exists.
  split; intros (H1 & [H2|(u & Hu & H2)]); (split; [exact H1|]); [left; exact H2 | right | left; exact H2 | right];
    exists u; (split; [exact Hu|]); apply zmem_In; exact H2.
Qed.

Lemma rk0_In x : In x (rk 0) <-> x = a.
Proof.
  simpl. rewrite filter_In, Z.eqb_eq. split; [intros (_ & ->); reflexivity | intros ->; tauto].
Qed.

Lemma rk_sub k x : In x (rk k) -> In x S.
Proof.
  destruct k; simpl; [rewrite filter_In; tauto | rewrite expand_In; tauto].
Qed.

Lemma rk_mono k x : In x (rk k) -> In x (rk (Datatypes.S k)).
Proof. intros Hx. simpl. apply expand_In. split; [eapply rk_sub; exact Hx | left; exact Hx]. Qed.

Lemma rk_mono_le k j x : (k <= j)%nat -> In x (rk k) -> In x (rk j).
Proof. induction 1 as [|j Hle IH]; [auto|]. intros Hx. apply rk_mono. apply IH. exact Hx. Qed.

Lemma rk_walk k : forall x, In x (rk k) -> walk G S a x.
Proof.
  induction k as [|k IH]; intros x Hx.
  - apply rk0_In in Hx. subst. apply walk_refl. exact HaS.
  - simpl in Hx. apply expand_In in Hx. destruct Hx as (HxS & [Hx|(u & Hu & Hadj)]); [apply IH; exact Hx|].
    eapply walk_step; [apply IH; exact Hu | exact HxS | exact Hadj].
Qed.

Lemma rk_filter k : exists p, rk k = filter p S.
Proof. destruct k; simpl; [exists (Z.eqb a) | unfold expand]; eauto. Qed.

Lemma filter_len_le (p q : Z -> bool) l : (forall x, In x l -> p x = true -> q x = true) ->
  (List.length (filter p l) <= List.length (filter q l))%nat /\
  (List.length (filter p l) = List.length (filter q l) -> forall x, In x l -> q x = true -> p x = true).
Proof.
  induction l as [|y t IH]; intros Hpq; [simpl; split; [lia | intros _ x []]|].
  destruct IH as (IH1 & IH2); [intros x Hx; apply Hpq; right; exact Hx|].
  pose proof (Hpq y (or_introl eq_refl)) as Hy.
  pose proof (filter_length_le' q t) as Hq.
  simpl. destruct (p y) eqn:Ep, (q y) eqn:Eq; simpl.
  - split; [lia|]. intros Hlen x [<-|Hx] Hqx; [exact Ep | apply IH2; [lia | exact Hx | exact Hqx]].
  - specialize (Hy eq_refl). discriminate.
  - split; [lia|]. intros Hlen. exfalso. lia.
  - split; [lia|]. intros Hlen x [<-|Hx] Hqx; [congruence | apply IH2; [lia | exact Hx | exact Hqx]].
Qed.

Lemma expand_len R p : R = filter p S ->
  (List.length R <= List.length (expand G S R))%nat /\
  (List.length (expand G S R) = List.length R -> forall x, In x (expand G S R) -> In x R).
Proof.
  intros ER.
  set (q := fun v => zmem v R || existsb (fun u => zmem v (neighbors G u)) R).
  assert (Hsub : forall y, In y S -> p y = true -> q y = true).
  { intros y Hy Hp. unfold q. apply orb_true_iff. left. apply zmem_In. rewrite ER. apply filter_In. tauto. }
  destruct (filter_len_le p q S Hsub) as (Hle & Heq).
  assert (ElenR : List.length R = List.length (filter p S)) by (rewrite <- ER; reflexivity).
  change (expand G S R) with (filter q S). split; [rewrite ElenR; exact Hle|].
  intros Hlen x Hx. rewrite ElenR in Hlen. apply filter_In in Hx. destruct Hx as (HxS & Hq).
  rewrite ER. apply filter_In.
  split; [exact HxS|]. apply Heq; [symmetry; exact Hlen | exact HxS | exact Hq].
Qed.

(* a round that adds nothing: the reached set is closed under adjacency inside S *)
Lemma rk_stable k : List.length (rk (Datatypes.S k)) = List.length (rk k) ->
  forall x, In x (rk (Datatypes.S k)) -> In x (rk k).
Proof.
  destruct (rk_filter k) as (p & Ep). exact (proj2 (expand_len (rk k) p Ep)).
Qed.

Lemma rk_grow k : (exists j, (j <= k)%nat /\ List.length (rk (Datatypes.S j)) = List.length (rk j)) \/
                  (List.length (rk 0) + k <= List.length (rk k))%nat.
Proof.
  induction k as [|k [(j & Hj & Hl)|IH]]; [right; lia | left; exists j; split; [lia|exact Hl] |].
  destruct (rk_filter k) as (p & Ep).
  pose proof (proj1 (expand_len (rk k) p Ep)) as Hle. change (expand G S (rk k)) with (rk (Datatypes.S k)) in Hle.
  destruct (Nat.eq_dec (List.length (rk (Datatypes.S k))) (List.length (rk k))) as [Heq|Hne].
  - left. exists k. split; [lia | exact Heq].
  - right. lia.
Qed.

(* every walk from a inside S ends in the set reached after |S| rounds *)
Lemma rk_complete x : walk G S a x -> In x (rk (List.length S)).
Proof.
  intros Hw.
  assert (H0 : (1 <= List.length (rk 0))%nat).
  { assert (Hin : In a (rk 0)) by (apply rk0_In; reflexivity).
    destruct (rk 0); [contradiction | simpl; lia]. }
  destruct (rk_grow (List.length S)) as [(j & Hj & Hl)|Hbig].
  - apply (rk_mono_le j); [exact Hj|].
    pose proof (rk_stable j Hl) as Hclosed.
    induction Hw as [_|u w Hw IH HwS Hadj].
    + apply (rk_mono_le 0); [lia | apply rk0_In; reflexivity].
    + apply Hclosed. simpl. apply expand_In. split; [exact HwS|]. right. exists u. split; [exact IH | exact Hadj].
  - exfalso. destruct (rk_filter (List.length S)) as (p & Ep).
    pose proof (filter_length_le' p S) as Hle. rewrite <- Ep in Hle. lia.
Qed.
End Bfs.

(* connb decides: "every member of S is reached from the head of S by a walk inside S" *)
Lemma connb_anchored G a t :
  connb G (a :: t) = true <-> forall x, In x (a :: t) -> walk G (a :: t) a x.
Proof.
  assert (HaS : In a (a :: t)) by (left; reflexivity).
  unfold connb. rewrite inclb_incl, (reach_set_rk G (a :: t) a). split.
  - intros Hi x Hx. eapply rk_walk; [exact HaS | apply Hi; exact Hx].
  - intros Hall x Hx. apply rk_complete; [exact HaS | apply Hall; exact Hx].
Qed.

Theorem connb_connected G S : wfb G = true -> (connb G S = true <-> connected G S).
Proof.
  intros Hw. destruct S as [|a t].
  - simpl. split; [discriminate | intros (Hne & _); congruence].
  - rewrite connb_anchored. split.
    + intros Hall. apply (connected_of_anchored G _ a Hw); [left; reflexivity | exact Hall].
    + intros (_ & Hc) x Hx. apply Hc; [left; reflexivity | exact Hx].
Qed.

(** * The reference enumeration decides the specification *)

Theorem connected_sets_sound G anchor S : wfb G = true -> In S (connected_sets G anchor) ->
  In anchor (nodes G) /\ NoDup S /\ In anchor S /\ incl S (nodes G) /\ connected G S.
Proof.
  intros Hw HS. unfold connected_sets in HS. destruct (has_node G anchor) eqn:Eh; [|contradiction].
  apply has_node_In in Eh. apply filter_In in HS. destruct HS as (HS & Hc).
  apply in_map_iff in HS. destruct HS as (T & <- & HT).
  apply sublists_incl in HT. destruct HT as (Hi & Hn).
  split; [exact Eh|]. split; [|split; [left; reflexivity|split]].
  - constructor.
    + intros Hin. apply Hi in Hin. apply filter_In in Hin. destruct Hin as (_ & Hne).
      rewrite Z.eqb_refl in Hne. discriminate.
    + apply Hn. apply NoDup_filter. apply wfb_nodup. exact Hw.
  - intros x [<-|Hx]; [exact Eh|]. apply Hi in Hx. apply filter_In in Hx. tauto.
  - apply connb_connected; assumption.
Qed.

Theorem connected_sets_complete G anchor S : wfb G = true -> In anchor (nodes G) ->
  In anchor S -> connected G S -> exists S', In S' (connected_sets G anchor) /\ same_set S' S.
Proof.
  intros Hw Ha HaS Hc.
  set (base := filter (fun n => negb (n =? anchor)) (nodes G)).
  set (S' := anchor :: filter (fun n => zmem n S) base).
  assert (Hs : same_set S' S).
  { intros x. unfold S'. simpl. rewrite filter_In, zmem_In. unfold base. rewrite filter_In, negb_true_iff, Z.eqb_neq.
    split; [intros [<-|(_ & Hx)]; assumption|]. intros Hx.
    destruct (Z.eq_dec anchor x) as [Heq|Hne]; [left; exact Heq|]. right.
    split; [|exact Hx]. split; [|congruence].
    apply (walk_nodes G S anchor x Hw Ha). apply Hc; assumption. }
  exists S'. split; [|exact Hs].
  unfold connected_sets. replace (has_node G anchor) with true by (symmetry; apply has_node_In; exact Ha).
  apply filter_In. split.
  - apply in_map. apply sublists_filter.
  - apply connb_connected; [exact Hw|]. apply (connected_same_set G S S'); [apply same_set_sym; exact Hs | exact Hc].
Qed.

(** * Soundness of the checker *)

Lemma filter_one_unique {A} (p : A -> bool) l : List.length (filter p l) = 1%nat ->
  forall i j x y, nth_error l i = Some x -> nth_error l j = Some y -> p x = true -> p y = true -> i = j.
Proof.
  induction l as [|a t IH]; intros Hlen i j x y Hi Hj Hx Hy; [destruct i; discriminate|].
  simpl in Hlen. destruct (p a) eqn:Ea.
  - simpl in Hlen. assert (Hnil : filter p t = []) by (destruct (filter p t); [reflexivity | simpl in Hlen; lia]).
    assert (Hnone : forall k z, nth_error t k = Some z -> p z = true -> False).
    { intros k z Hk Hz. apply nth_error_In in Hk.
      assert (Hin : In z (filter p t)) by (apply filter_In; tauto). rewrite Hnil in Hin. exact Hin. }
    destruct i as [|i], j as [|j]; simpl in Hi, Hj; [reflexivity | | |]; exfalso; eauto.
  - destruct i as [|i], j as [|j]; simpl in Hi, Hj.
    + reflexivity.
    + injection Hi as <-. congruence.
    + injection Hj as <-. congruence.
    + f_equal. eapply IH; eauto.
Qed.

Lemma filter_one_exists {A} (p : A -> bool) l : List.length (filter p l) = 1%nat ->
  exists x, In x l /\ p x = true.
Proof.
  intros Hlen. destruct (filter p l) as [|x t] eqn:E; [discriminate|].
  exists x. apply filter_In. rewrite E. left. reflexivity.
Qed.

Theorem cis_okb_sound G anchor out : wfb G = true -> cis_okb G anchor out = true ->
  match out with
  | Ok l => In anchor (nodes G) /\ cis_spec G anchor l
  | Err e => e = ENode /\ ~ In anchor (nodes G)
  end.
Proof.
  intros Hw Hok. destruct out as [l|e].
  2:{ destruct e; try discriminate. split; [reflexivity|]. simpl in Hok.
      apply negb_true_iff in Hok. intros Hin. apply has_node_In in Hin. congruence. }
  simpl in Hok. apply andb_true_iff in Hok. destruct Hok as (Hok & Hcount).
  apply andb_true_iff in Hok. destruct Hok as (Hnode & Hsound).
  apply has_node_In in Hnode. rewrite forallb_forall in Hsound, Hcount.
  assert (HS : cis_sound G anchor l).
  { intros Y HY. specialize (Hsound Y HY).
    apply andb_true_iff in Hsound. destruct Hsound as (Hs & Hc).
    apply andb_true_iff in Hs. destruct Hs as (Hs & Hi).
    apply andb_true_iff in Hs. destruct Hs as (Hn & Hz).
    split; [apply nodupb_NoDup; exact Hn|]. split; [apply zmem_In; exact Hz|].
    split; [apply inclb_incl; exact Hi | apply connb_connected; assumption]. }
  split; [exact Hnode|]. split; [exact HS|]. split.
  - intros i j X Y Hi Hj Hs.
    destruct (HS X (nth_error_In _ _ Hi)) as (_ & HaX & _ & HcX).
    destruct (connected_sets_complete G anchor X Hw Hnode HaX HcX) as (S' & HS' & HsX).
    specialize (Hcount S' HS'). apply Nat.eqb_eq in Hcount.
    apply (filter_one_unique _ _ Hcount i j X Y Hi Hj); apply same_setb_same_set.
    + exact HsX.
    + eapply same_set_trans; [exact HsX | exact Hs].
  - intros S HaS Hc.
    destruct (connected_sets_complete G anchor S Hw Hnode HaS Hc) as (S' & HS' & HsS).
    specialize (Hcount S' HS'). apply Nat.eqb_eq in Hcount.
    destruct (filter_one_exists _ _ Hcount) as (Y & HY & Hp). apply same_setb_same_set in Hp.
    exists Y. split; [exact HY|]. eapply same_set_trans; [apply same_set_sym; exact Hp | exact HsS].
Qed.

(** * Bounded version, by exhaustive evaluation (independent of the general proof) *)

Lemma bounded_okb_spec n : bounded_okb n = true ->
  forall G anchor, In G (all_graphs n) -> In anchor (nodes G) ->
  wfb G = true /\ exists out, node_induced_connected_subgraphs G anchor = Ok out /\ cis_spec G anchor out.
Proof.
  unfold bounded_okb. rewrite forallb_forall. intros Hall G anchor HG Ha.
  specialize (Hall G HG). apply andb_true_iff in Hall. destruct Hall as (Hw & Hall).
  rewrite forallb_forall in Hall. specialize (Hall anchor Ha).
  split; [exact Hw|]. pose proof (cis_okb_sound G anchor _ Hw Hall) as Hs.
  destruct (node_induced_connected_subgraphs G anchor) as [l|e]; [exists l; tauto|].
  destruct Hs as (_ & Hni). contradiction.
Qed.

Theorem C17_bounded_5 : forall n G anchor, (n <= 5)%nat -> In G (all_graphs n) -> In anchor (nodes G) ->
  wfb G = true /\ exists out, node_induced_connected_subgraphs G anchor = Ok out /\ cis_spec G anchor out.
Proof.
  intros n G anchor Hn. apply bounded_okb_spec.
  destruct n as [|[|[|[|[|[|n]]]]]]; try (vm_compute; reflexivity). lia.
Qed.
