(** The lexer: the matcher is sound, [tokenize] never runs out of fuel, and the text of a
    list of valid tokens in which no token runs into the next one is tokenised back to that
    list ([tokenize_text]); hence [tokenize (print t) = Some (tokens t)] for well-formed chains. *)
From Coq Require Import ZArith List Bool Ascii String Lia.
From FGV Require Import Base.Util Base.Regex Base.Str Gen.Lexer Model.Parse Spec.LexerRef Spec.ParseSpec
                        Proofs.StrFacts Proofs.ParseMachine.
Import ListNotations.
Open Scope string_scope.

(** ** soundness of the matcher: the match is a prefix, the rest is the rest *)

Lemma strip_prefix_sound p : forall s r, strip_prefix p s = Some r -> s = p ++ r.
Proof.
  induction p as [|a p IH]; simpl; intros s r H.
  - congruence.
  - destruct s as [|b s]; [discriminate|]. destruct (Ascii.eqb_spec a b) as [->|]; [|discriminate].
    f_equal. apply IH. exact H.
Qed.

Lemma span_sound cs s : forall m r, span cs s = (m, r) -> s = m ++ r.
Proof.
  induction s as [|c t IH]; simpl; intros m r H.
  - injection H as <- <-. reflexivity.
  - destruct (cset_mem cs c).
    + destruct (span cs t) as [m' r'] eqn:E. injection H as <- <-. simpl. f_equal. apply IH. reflexivity.
    + injection H as <- <-. reflexivity.
Qed.

Lemma re_match_sound r : forall s m rest, re_match r s = Some (m, rest) -> s = m ++ rest.
Proof.
  induction r as [l|cs|cs|cs|a IHa b IHb|a IHa b IHb]; simpl; intros s m rest H.
  - destruct (strip_prefix l s) as [x|] eqn:E; [|discriminate]. injection H as <- <-.
    apply strip_prefix_sound. exact E.
  - destruct s as [|c t]; [discriminate|]. destruct (cset_mem cs c); [|discriminate].
    injection H as <- <-. reflexivity.
  - destruct (span cs s) as [m' r'] eqn:E. destruct m'; [discriminate|].
    injection H as <- <-. apply span_sound with (cs := cs). exact E.
  - injection H as H. apply span_sound with (cs := cs). exact H.
  - destruct (re_match a s) as [[m1 r1]|] eqn:Ea; [|discriminate].
    destruct (re_match b r1) as [[m2 r2]|] eqn:Eb; [|discriminate].
    injection H as <- <-. rewrite string_app_assoc.
    rewrite <- (IHb _ _ _ Eb). apply IHa. exact Ea.
  - destruct (re_match a s) as [x|] eqn:Ea.
    + injection H as ->. apply IHa. exact Ea.
    + apply IHb. exact H.
Qed.

Lemma first_match_sound spec : forall s k m rest,
  first_match spec s = Some (k, m, rest) -> s = m ++ rest.
Proof.
  induction spec as [|[name r] t IH]; simpl; intros s k m rest H; [discriminate|].
  destruct (re_match r s) as [[m' r']|] eqn:E.
  - injection H as <- <- <-. eapply re_match_sound. exact E.
  - eapply IH. exact H.
Qed.

(** ** the fuel of [tokenize] suffices *)

Lemma tokenize_fuel_total : forall fuel s,
  (String.length s < fuel)%nat -> exists l, tokenize_fuel fuel s = Some l.
Proof.
  induction fuel as [|f IH]; intros s Hlen; [lia|].
  destruct s as [|c t]; cbn [tokenize_fuel]; [eauto|].
  destruct (first_match token_spec (String c t)) as [[[k m] rest]|] eqn:E.
  - destruct m as [|mc mt]; [eexists; reflexivity|].
    apply first_match_sound in E.
    assert (Hl : (String.length rest < f)%nat).
    { apply (f_equal String.length) in E. rewrite string_length_app in E. simpl in E, Hlen. lia. }
    destruct (IH rest Hl) as [l ->]. simpl. eauto.
  - apply IH. simpl in Hlen. lia.
Qed.

Theorem tokenize_total s : exists l, tokenize s = Some l.
Proof. apply tokenize_fuel_total. lia. Qed.

(** ** valid tokens *)

Inductive tok_valid : token -> Prop :=
| TV_atom s : In s ref_atoms -> tok_valid ("ATOM", s)
| TV_bond c : In c ref_bond_chars -> tok_valid ("BOND", c)
| TV_open : tok_valid ("BRANCH_START", "(")
| TV_close : tok_valid ("BRANCH_END", ")")
| TV_ring l : digits l = true -> l <> "" -> tok_valid ("RING_NUM", l)
| TV_wild : tok_valid ("WILDCARD", "R")
| TV_rc g h : digits g = true -> digits h = true ->
              tok_valid ("RC_BOND", String "<" (g ++ String "," (h ++ ">")))
| TV_label body : all_chars (cset_mem ref_label_class) body = true -> body <> "" ->
                  tok_valid ("NODE_LABEL", String "{" (body ++ "}")).

(* what may come after a token: the end of the text, or a character that does not extend it *)
Definition follows (tok : token) (s : string) : Prop :=
  s = "" \/ exists c s', s = String c s' /\ follow_ok tok c = true.

Lemma span_app cs m rest :
  all_chars (cset_mem cs) m = true ->
  (rest = "" \/ exists c r, rest = String c r /\ cset_mem cs c = false) ->
  span cs (m ++ rest) = (m, rest).
Proof.
  intros Hm Hr. induction m as [|a t IH]; simpl.
  - destruct Hr as [->|(c & r & -> & Hc)]; simpl; [reflexivity|]. rewrite Hc. reflexivity.
  - simpl in Hm. apply andb_true_iff in Hm. destruct Hm as [Ha Ht]. rewrite Ha, (IH Ht). reflexivity.
Qed.

Lemma digit_cases d : is_digit d = true ->
  d = "0"%char \/ d = "1"%char \/ d = "2"%char \/ d = "3"%char \/ d = "4"%char \/
  d = "5"%char \/ d = "6"%char \/ d = "7"%char \/ d = "8"%char \/ d = "9"%char.
Proof.
  destruct d as [b0 b1 b2 b3 b4 b5 b6 b7].
  destruct b0, b1, b2, b3, b4, b5, b6, b7; vm_compute; intros H; try discriminate H; tauto.
Qed.

(* resolve the character tests left by symbolic evaluation of the lexer: constants are
   computed, a test against the follower c is decided with the [follow_ok] hypothesis *)
Ltac lex_consts :=
  repeat match goal with
  | |- context [Ascii.eqb ?a ?b] =>
      let v := eval vm_compute in (Ascii.eqb a b) in
      match v with true => idtac | false => idtac end;
      change (Ascii.eqb a b) with v; cbn -[Ascii.eqb span]
  end.

Ltac lex_follow Hf c :=
  repeat (lex_consts;
          match goal with
          | |- context [Ascii.eqb ?a c] =>
              destruct (Ascii.eqb_spec a c) as [?E|?E];
              [subst c; vm_compute in Hf; discriminate Hf|]; cbn -[Ascii.eqb span]
          end); lex_consts.

Lemma lex_atom w : In w ref_atoms -> forall s, follows ("ATOM", w) s ->
  first_match token_spec (w ++ s) = Some ("ATOM", w, s).
Proof.
  intros Hw. simpl in Hw.
  repeat (destruct Hw as [<-|Hw]; [intros s [->|(c & s' & -> & Hf)];
    [vm_compute; reflexivity
    |unfold token_spec; cbn -[Ascii.eqb span]; lex_follow Hf c; reflexivity]|]).
  contradiction.
Qed.

Lemma lex_bond w : In w ref_bond_chars -> forall s,
  first_match token_spec (w ++ s) = Some ("BOND", w, s).
Proof.
  intros Hw. simpl in Hw.
  repeat (destruct Hw as [<-|Hw]; [intros s; unfold token_spec; cbn -[Ascii.eqb span]; lex_consts; reflexivity|]).
  contradiction.
Qed.

Lemma lex_open s : first_match token_spec ("(" ++ s) = Some ("BRANCH_START", "(", s).
Proof. unfold token_spec; cbn -[Ascii.eqb span]; lex_consts; reflexivity. Qed.

Lemma lex_close s : first_match token_spec (")" ++ s) = Some ("BRANCH_END", ")", s).
Proof. unfold token_spec; cbn -[Ascii.eqb span]; lex_consts; reflexivity. Qed.

Lemma lex_wild s : first_match token_spec ("R" ++ s) = Some ("WILDCARD", "R", s).
Proof. unfold token_spec; cbn -[Ascii.eqb span]; lex_consts; reflexivity. Qed.

Lemma follows_ring_rest l s : follows ("RING_NUM", l) s ->
  s = "" \/ exists c r, s = String c r /\ cset_mem CDigit c = false.
Proof.
  intros [->|(c & r & -> & Hf)]; [left; reflexivity|]. right. exists c, r. split; [reflexivity|].
  unfold follow_ok in Hf. simpl in Hf. apply negb_true_iff in Hf. exact Hf.
Qed.

Lemma lex_ring l s : digits l = true -> l <> "" -> follows ("RING_NUM", l) s ->
  first_match token_spec (l ++ s) = Some ("RING_NUM", l, s).
Proof.
  intros Hd Hne Hf. destruct l as [|d l']; [congruence|].
  unfold digits in Hd. simpl in Hd. apply andb_true_iff in Hd. destruct Hd as [Hd Hl'].
  pose proof (span_app CDigit l' s Hl' (follows_ring_rest _ _ Hf)) as Hspan.
  change (String d l' ++ s) with (String d (l' ++ s)).
  assert (Hspan2 : span CDigit (String d (l' ++ s)) = (String d l', s)).
  { cbn [span]. change (cset_mem CDigit d) with (is_digit d). rewrite Hd, Hspan. reflexivity. }
  destruct (digit_cases d Hd) as [->|[->|[->|[->|[->|[->|[->|[->|[->| ->]]]]]]]]];
    unfold token_spec; cbn -[Ascii.eqb span]; lex_consts; rewrite Hspan2; reflexivity.
Qed.

Lemma lex_rc g h s : digits g = true -> digits h = true ->
  first_match token_spec (String "<" (g ++ String "," (h ++ ">")) ++ s)
  = Some ("RC_BOND", String "<" (g ++ String "," (h ++ ">")), s).
Proof.
  intros Hg Hh.
  assert (E : String "<" (g ++ String "," (h ++ ">")) ++ s = String "<" (g ++ String "," (h ++ String ">" s))).
  { simpl. f_equal. rewrite string_app_assoc. simpl. f_equal. f_equal. rewrite string_app_assoc. reflexivity. }
  rewrite E.
  assert (S1 : span CDigit (g ++ String "," (h ++ String ">" s)) = (g, String "," (h ++ String ">" s))).
  { apply span_app; [exact Hg|]. right. eexists _, _. split; reflexivity. }
  assert (S2 : span CDigit (h ++ String ">" s) = (h, String ">" s)).
  { apply span_app; [exact Hh|]. right. eexists _, _. split; reflexivity. }
  unfold token_spec. cbn -[Ascii.eqb span]. lex_consts.
  rewrite S1. cbn -[Ascii.eqb span]. lex_consts. rewrite S2. cbn -[Ascii.eqb span]. lex_consts.
  reflexivity.
Qed.

Lemma lex_label body s : all_chars (cset_mem ref_label_class) body = true -> body <> "" ->
  first_match token_spec (String "{" (body ++ "}") ++ s)
  = Some ("NODE_LABEL", String "{" (body ++ "}"), s).
Proof.
  intros Hb Hne.
  assert (E : String "{" (body ++ "}") ++ s = String "{" (body ++ String "}" s)).
  { simpl. f_equal. rewrite string_app_assoc. reflexivity. }
  rewrite E.
  assert (S1 : span ref_label_class (body ++ String "}" s) = (body, String "}" s)).
  { apply span_app; [exact Hb|]. right. eexists _, _. split; reflexivity. }
  unfold token_spec. cbn -[Ascii.eqb span]. lex_consts.
  change (CClass [("a"%char, "z"%char); ("A"%char, "Z"%char); ("0"%char, "9"%char);
                  ("_"%char, "_"%char); (","%char, ","%char); ("-"%char, "-"%char)]) with ref_label_class.
  rewrite S1. destruct body as [|b0 body']; [congruence|].
  cbn -[Ascii.eqb span]. lex_consts. reflexivity.
Qed.

Lemma lex_one tok s : tok_valid tok -> follows tok s ->
  first_match token_spec (snd tok ++ s) = Some (fst tok, snd tok, s).
Proof.
  intros Hv Hf. destruct Hv; simpl fst; simpl snd.
  - apply lex_atom; assumption.
  - apply lex_bond; assumption.
  - apply lex_open.
  - apply lex_close.
  - apply lex_ring; assumption.
  - apply lex_wild.
  - apply lex_rc; assumption.
  - apply lex_label; assumption.
Qed.

Lemma tok_valid_nonempty tok : tok_valid tok -> exists c w, snd tok = String c w.
Proof.
  intros Hv. destruct Hv; simpl; try (eexists _, _; reflexivity).
  - simpl in H. repeat (destruct H as [<-|H]; [eexists _, _; reflexivity|]). contradiction.
  - simpl in H. repeat (destruct H as [<-|H]; [eexists _, _; reflexivity|]). contradiction.
  - destruct l; [congruence|]. eexists _, _; reflexivity.
Qed.

(** ** texts of valid, non-colliding tokens are tokenised back *)

Lemma tokenize_fuel_text : forall l,
  Forall tok_valid l -> adj_ok l = true ->
  forall fuel, (String.length (text_of l) < fuel)%nat -> tokenize_fuel fuel (text_of l) = Some l.
Proof.
  induction l as [|tok l IH]; intros Hv Hadj fuel Hlen.
  - destruct fuel; [simpl in Hlen; lia|]. reflexivity.
  - inversion Hv as [|? ? Htok Hl]; subst.
    assert (Hfol : follows tok (text_of l)).
    { destruct l as [|t2 l2]; [left; reflexivity|]. right.
      simpl in Hadj. apply andb_true_iff in Hadj. destruct Hadj as [Hh _].
      destruct (snd t2) as [|c x] eqn:E2; simpl in Hh; [discriminate|].
      exists c, (x ++ text_of l2). split; [|exact Hh]. simpl. rewrite E2. reflexivity. }
    assert (Hadj' : adj_ok l = true).
    { destruct l as [|t2 l2]; [reflexivity|]. simpl in Hadj. apply andb_true_iff in Hadj. tauto. }
    pose proof (lex_one tok (text_of l) Htok Hfol) as Hlex.
    destruct (tok_valid_nonempty tok Htok) as (c & w & Ew).
    destruct tok as [k v]. cbn [fst snd] in *. subst v.
    destruct fuel as [|f]; [lia|].
    change (String c w ++ text_of l) with (String c (w ++ text_of l)) in *.
    change (text_of ((k, String c w) :: l)) with (String c (w ++ text_of l)) in *.
    cbn [tokenize_fuel]. rewrite Hlex.
    rewrite (IH Hl Hadj' f).
    + reflexivity.
    + simpl in Hlen. rewrite string_length_app in Hlen. lia.
Qed.

Theorem tokenize_text l :
  Forall tok_valid l -> adj_ok l = true -> tokenize (text_of l) = Some l.
Proof. intros Hv Hadj. apply tokenize_fuel_text; [assumption|assumption|lia]. Qed.

(** ** the tokens of a syntactically valid chain are valid *)

Lemma str_mem_In x l : str_mem x l = true -> In x l.
Proof.
  unfold str_mem. rewrite existsb_exists. intros (y & Hy & E).
  apply String.eqb_eq in E. subst. exact Hy.
Qed.

Lemma atom_tok_valid a : atom_ok a = true -> tok_valid (atom_tok a).
Proof.
  destruct a as [s| |ls]; simpl atom_tok; intros H.
  - apply TV_atom. apply str_mem_In. exact H.
  - apply TV_wild.
  - unfold atom_ok in H. rewrite !andb_true_iff in H. destruct H as [[_ Hall] Hne].
    apply (TV_label (join "," ls)).
    + apply all_chars_join; [reflexivity|].
      rewrite forallb_forall in *. intros x Hx. specialize (Hall x Hx).
      eapply all_chars_impl; [|exact Hall]. intros c Hc. unfold label_char_ok in Hc.
      apply andb_true_iff in Hc. tauto.
    + apply negb_true_iff in Hne. intros E. rewrite E in Hne. discriminate.
Qed.

Lemma bond_key_char c : is_some (slookup c ref_bond_orders) = true -> In c ref_bond_chars.
Proof.
  unfold ref_bond_orders. cbn [slookup].
  repeat match goal with
  | |- context [String.eqb c ?k] =>
      destruct (String.eqb_spec c k) as [->|_]; [intros _; simpl; tauto|]
  end.
  intros H; discriminate H.
Qed.

Lemma bsym_toks_valid b : bsym_ok b = true -> Forall tok_valid (bsym_toks b).
Proof.
  destruct b as [| |c|g h]; simpl bsym_toks; intros H.
  - constructor.
  - constructor; [|constructor]. apply TV_bond. simpl. tauto.
  - constructor; [|constructor]. apply TV_bond. apply bond_key_char. exact H.
  - simpl in H. apply andb_true_iff in H. destruct H. constructor; [|constructor].
    apply TV_rc; assumption.
Qed.

Lemma tokens_valid :
  (forall t, syntax_ok t = true -> Forall tok_valid (tokens t)) /\
  (forall r, rest_syntax_ok r = true -> Forall tok_valid (rest_tokens r)).
Proof.
  apply chain_rest_ind; simpl syntax_ok; simpl rest_syntax_ok; simpl tokens; simpl rest_tokens; intros.
  - apply andb_true_iff in H0. destruct H0 as [Ha Hr]. constructor; [apply atom_tok_valid; exact Ha|auto].
  - constructor.
  - rewrite !andb_true_iff in H0. destruct H0 as [[Hb Hl] Hr].
    apply Forall_app. split; [apply bsym_toks_valid; exact Hb|].
    constructor; [|auto]. unfold ring_label_ok in Hl. apply andb_true_iff in Hl. destruct Hl as [Hd Hne].
    apply TV_ring; [exact Hd|]. apply negb_true_iff in Hne. intros E. rewrite E in Hne. discriminate.
  - rewrite !andb_true_iff in H1. destruct H1 as [[Hb Hc] Hr].
    constructor; [apply TV_open|]. apply Forall_app. split; [apply bsym_toks_valid; exact Hb|].
    apply Forall_app. split; [auto|]. constructor; [apply TV_close|auto].
  - rewrite !andb_true_iff in H0. destruct H0 as [Hb Hc].
    apply Forall_app. split; [apply bsym_toks_valid; exact Hb|auto].
Qed.

(* lexer round trip *)
Theorem lexer_roundtrip t :
  syntax_ok t = true -> wf_lex t = true -> tokenize (print t) = Some (tokens t).
Proof.
  intros Hs Hl. unfold print. apply tokenize_text; [apply (proj1 tokens_valid); exact Hs|exact Hl].
Qed.

(** ** which adjacent valid tokens collide: exactly DESIGN's two lexical side conditions *)

Ltac head_concrete E c Hf :=
  injection E as ?Ec ?Ew; subst c; vm_compute in Hf; discriminate Hf.

Lemma collision_cases t1 t2 c w2 :
  tok_valid t1 -> tok_valid t2 -> snd t2 = String c w2 -> follow_ok t1 c = false ->
  (t1 = ("ATOM", "S") /\ t2 = ("ATOM", "n")) \/ (fst t1 = "RING_NUM" /\ fst t2 = "RING_NUM").
Proof.
  intros Hv1 Hv2 E Hf.
  destruct Hv1 as [w Hw|b1 Hb1| | |l1 Hd1 Hne1| |g1 h1 Hg1 Hh1|body1 Hbd1 Hne1];
    try (vm_compute in Hf; discriminate Hf).
  - (* an element symbol extended by the next character: only "S" + "n" *)
    simpl in Hw.
    repeat (destruct Hw as [<-|Hw]; [
      destruct Hv2 as [w' Hw'|b Hb| | |l Hd Hne| |g h Hg Hh|body Hb Hne]; cbn [snd] in E;
      [ simpl in Hw';
        repeat (destruct Hw' as [<-|Hw'];
                [injection E as Ec Ew; subst c;
                 first [vm_compute in Hf; discriminate Hf | left; split; reflexivity]|]);
        contradiction
      | simpl in Hb;
        repeat (destruct Hb as [<-|Hb]; [head_concrete E c Hf|]); contradiction
      | head_concrete E c Hf
      | head_concrete E c Hf
      | subst l; unfold digits in Hd; simpl in Hd; apply andb_true_iff in Hd; destruct Hd as [Hd _];
        destruct (digit_cases c Hd) as [->|[->|[->|[->|[->|[->|[->|[->|[->| ->]]]]]]]]];
        vm_compute in Hf; discriminate Hf
      | head_concrete E c Hf
      | head_concrete E c Hf
      | head_concrete E c Hf ] |]).
    contradiction.
  - (* digits running into a ring label: the next token is a ring label too *)
    right. split; [reflexivity|].
    assert (Hc : is_digit c = true).
    { unfold follow_ok in Hf. simpl in Hf. apply negb_false_iff in Hf. exact Hf. }
    destruct Hv2 as [w' Hw'|b Hb| | |l Hd Hne| |g h Hg Hh|body Hb Hne]; cbn [snd] in E;
      try reflexivity; try (injection E as Ec Ew; subst c; vm_compute in Hc; discriminate Hc).
    + simpl in Hw'.
      repeat (destruct Hw' as [<-|Hw']; [injection E as Ec Ew; subst c; vm_compute in Hc; discriminate Hc|]).
      contradiction.
    + simpl in Hb.
      repeat (destruct Hb as [<-|Hb]; [injection E as Ec Ew; subst c; vm_compute in Hc; discriminate Hc|]).
      contradiction.
Qed.

Definition collides (t1 t2 : token) : bool :=
  (token_eqb t1 ("ATOM", "S") && token_eqb t2 ("ATOM", "n"))
  || (String.eqb (fst t1) "RING_NUM" && String.eqb (fst t2) "RING_NUM").

Fixpoint no_collision (l : list token) : bool :=
  match l with
  | t1 :: ((t2 :: _) as r) => negb (collides t1 t2) && no_collision r
  | _ => true
  end.

Lemma token_eqb_eq a b : token_eqb a b = true -> a = b.
Proof.
  destruct a, b. unfold token_eqb. simpl. rewrite andb_true_iff, !String.eqb_eq. intros [-> ->]. reflexivity.
Qed.

(* for valid tokens, "no token runs into the next" means exactly: no "S" directly before "n",
   no two ring labels next to each other *)
Theorem adj_ok_iff l : Forall tok_valid l -> (adj_ok l = true <-> no_collision l = true).
Proof.
  induction l as [|t1 l IH]; intros Hv; [tauto|].
  inversion Hv as [|? ? Hv1 Hvl]; subst. destruct l as [|t2 l']; [tauto|].
  inversion Hvl as [|? ? Hv2 _]; subst. specialize (IH Hvl).
  destruct (tok_valid_nonempty t2 Hv2) as (c & w2 & E2).
  change (adj_ok (t1 :: t2 :: l')) with
    (match head_char (snd t2) with Some c => follow_ok t1 c | None => false end && adj_ok (t2 :: l')).
  change (no_collision (t1 :: t2 :: l')) with (negb (collides t1 t2) && no_collision (t2 :: l')).
  rewrite E2. cbn [head_char]. rewrite !andb_true_iff, IH, negb_true_iff.
  assert (Hiff : follow_ok t1 c = true <-> collides t1 t2 = false).
  { split.
    - intros Hf. destruct (collides t1 t2) eqn:Ec; [exfalso|reflexivity].
      unfold collides in Ec. apply orb_true_iff in Ec. rewrite !andb_true_iff in Ec.
      destruct Ec as [[E1 E3]|[E1 E3]].
      + apply token_eqb_eq in E1, E3. subst. simpl in E2. injection E2 as <- _.
        vm_compute in Hf. discriminate Hf.
      + apply String.eqb_eq in E1, E3. destruct t1 as [k1 v1], t2 as [k2 v2]. simpl in *. subst.
        inversion Hv2; subst. unfold digits in H0. simpl in H0. apply andb_true_iff in H0.
        destruct H0 as [Hd _]. unfold follow_ok in Hf. simpl in Hf. rewrite Hd in Hf. discriminate Hf.
    - intros Hc. destruct (follow_ok t1 c) eqn:Ef; [reflexivity|exfalso].
      destruct (collision_cases t1 t2 c w2 Hv1 Hv2 E2 Ef) as [[-> ->]|[E1 E3]].
      + vm_compute in Hc. discriminate Hc.
      + unfold collides in Hc. rewrite E1, E3 in Hc. simpl in Hc. rewrite orb_true_r in Hc. discriminate Hc. }
  rewrite Hiff. tauto.
Qed.

Theorem wf_lex_iff t : syntax_ok t = true -> (wf_lex t = true <-> no_collision (tokens t) = true).
Proof. intros Hs. apply adj_ok_iff. apply (proj1 tokens_valid). exact Hs. Qed.
