(** C18: node- and edge-induced tensor subgraphs. *)
From Coq Require Import ZArith List Bool String Lia.
From FGV Require Import Base.Util Base.UtilFacts Base.Bond Base.NX Base.NXFacts
  Model.Torch Spec.PeriodicRef Spec.TorchSpec Proofs.TorchUtil Proofs.TorchBatch.
Import ListNotations.
Open Scope Z_scope.

(** * helpers *)

Lemma nth_res_ok {A} (l : list A) v d :
  0 <= v < Z.of_nat (List.length l) -> nth_res l v = Ok (nth (Z.to_nat v) l d).
Proof.
  intros Hv. unfold nth_res. destruct (Z.ltb_spec v 0); [lia|].
  destruct (nth_error l (Z.to_nat v)) as [a|] eqn:E.
  - f_equal. symmetry. apply nth_error_nth. exact E.
  - apply nth_error_None in E. lia.
Qed.

Lemma any_negative_false l : (forall v, In v l -> 0 <= v) -> any_negative l = false.
Proof.
  intros H. unfold any_negative. apply not_true_is_false. intros E. apply existsb_exists in E.
  destruct E as (v & Hv & Hlt). apply Z.ltb_lt in Hlt. specialize (H v Hv). lia.
Qed.

Lemma both_in_spec s p : both_in s p = true <-> In (fst p) s /\ In (snd p) s.
Proof. unfold both_in. rewrite andb_true_iff, !zmem_In. tauto. Qed.

Lemma renum_ok s p :
  NoDup s -> both_in s p = true ->
  (map_get (zdict_of (combine s (znats (List.length s)))) (fst p),
   map_get (zdict_of (combine s (znats (List.length s)))) (snd p)) = renumber s p.
Proof.
  intros Hnd Hb. apply both_in_spec in Hb. destruct Hb as [H1 H2].
  unfold renumber. rewrite !map_get_zdict by assumption. reflexivity.
Qed.

Lemma filter_combine_fst {A B} (P : A -> bool) (l : list A) : forall (l' : list B),
  List.length l = List.length l' ->
  map fst (filter (fun c : A * B => P (fst c)) (combine l l')) = filter P l.
Proof.
  induction l as [|a t IH]; intros [|b t'] H; simpl in *; try discriminate; [reflexivity|].
  destruct (P a); simpl; [f_equal|]; apply IH; lia.
Qed.

Lemma filter_map_snd {A B} (P : B -> bool) (l : list (A * B)) :
  map snd (filter (fun c : A * B => P (snd c)) l) = filter P (map snd l).
Proof.
  induction l as [|[a b] t IH]; simpl; [reflexivity|]. destruct (P b); simpl; [f_equal|]; exact IH.
Qed.

Lemma enumerate_zr {A} (l : list A) : enumerate l = combine (zr 0 (List.length l)) l.
Proof. reflexivity. Qed.

(* the feature rows of the selected columns *)
Lemma sel_attr {A B} (Q : A -> bool) (d : B) : forall (ei : list A) (ea pre : list B) a,
  List.length ea = List.length ei -> List.length pre = a ->
  mapM (fun c : Z * A => nth_res (pre ++ ea) (fst c))
       (filter (fun c : Z * A => Q (snd c)) (combine (zr a (List.length ei)) ei))
  = Ok (map snd (filter (fun c : A * B => Q (fst c)) (combine ei ea))).
Proof.
  induction ei as [|p r IH]; intros [|row ea'] pre a Hlen Hpre; simpl in *; try discriminate; [reflexivity|].
  assert (Hrest : mapM (fun c : Z * A => nth_res (pre ++ row :: ea') (fst c))
                    (filter (fun c : Z * A => Q (snd c)) (combine (map Z.of_nat (seq (S a) (List.length r))) r))
                  = Ok (map snd (filter (fun c : A * B => Q (fst c)) (combine r ea')))).
  { replace (pre ++ row :: ea') with ((pre ++ [row]) ++ ea') by (rewrite <- app_assoc; reflexivity).
    apply (IH ea' (pre ++ [row]) (S a)); [lia | rewrite app_length; simpl; lia]. }
  destruct (Q p); simpl.
  - assert (Hn : nth_res (pre ++ row :: ea') (Z.of_nat a) = Ok row).
    { unfold nth_res. destruct (Z.ltb_spec (Z.of_nat a) 0); [lia|].
      rewrite Nat2Z.id, nth_error_app2, Hpre, Nat.sub_diag by lia. reflexivity. }
    rewrite Hn. simpl. unfold zr in Hrest. rewrite Hrest. reflexivity.
  - exact Hrest.
Qed.

(** * strictly ascending lists *)

Fixpoint ssorted (l : list Z) : Prop :=
  match l with
  | [] => True
  | x :: t => (forall y, In y t -> x < y) /\ ssorted t
  end.

Lemma ssorted_NoDup l : ssorted l -> NoDup l.
Proof.
  induction l as [|x t IH]; intros H; [constructor|]. destruct H as [H1 H2].
  constructor; [|auto]. intros Hin. specialize (H1 x Hin). lia.
Qed.

Lemma ssorted_ascending l : ssorted l -> strictly_ascending l.
Proof.
  induction l as [|x t IH]; intros H i j Hij; simpl in *; [lia|]. destruct H as [H1 H2].
  destruct j as [|j]; [lia|]. destruct i as [|i].
  - apply H1. apply nth_In. lia.
  - apply (IH H2 i j). lia.
Qed.

Lemma ssorted_filter f l : ssorted l -> ssorted (filter f l).
Proof.
  induction l as [|x t IH]; intros H; simpl; [exact I|]. destruct H as [H1 H2].
  destruct (f x); [|auto]. split; [|auto]. intros y Hy. apply filter_In in Hy. apply H1. tauto.
Qed.

Lemma ssorted_zr a n : ssorted (zr a n).
Proof.
  unfold zr. revert a. induction n as [|n IH]; intros a; simpl; [exact I|]. split; [|apply IH].
  intros y Hy. apply in_map_iff in Hy. destruct Hy as (i & <- & Hi). apply in_seq in Hi. lia.
Qed.

Lemma insert_u_In v l x : In x (insert_u v l) <-> x = v \/ In x l.
Proof.
  induction l as [|w t IH]; simpl; [intuition|].
  destruct (v <? w); [simpl; intuition|]. destruct (Z.eqb_spec v w) as [->|Hne]; simpl; [intuition|].
  rewrite IH. intuition.
Qed.

Lemma insert_u_ssorted v l : ssorted l -> ssorted (insert_u v l).
Proof.
  induction l as [|w t IH]; intros H; simpl; [split; [intros y []|exact I]|].
  destruct H as [H1 H2]. destruct (Z.ltb_spec v w) as [Hlt|Hge].
  - split; [|split; assumption]. intros y [<-|Hy]; [exact Hlt | specialize (H1 y Hy); lia].
  - destruct (Z.eqb_spec v w) as [->|Hne]; [split; assumption|].
    split; [|apply IH; exact H2]. intros y Hy. apply insert_u_In in Hy. destruct Hy as [->|Hy]; [lia | auto].
Qed.

Lemma unique_sorted_In l x : In x (unique_sorted l) <-> In x l.
Proof.
  unfold unique_sorted. induction l as [|a t IH]; simpl; [tauto|]. rewrite insert_u_In, IH. intuition.
Qed.

Lemma unique_sorted_ssorted l : ssorted (unique_sorted l).
Proof.
  unfold unique_sorted. induction l as [|a t IH]; simpl; [exact I|]. apply insert_u_ssorted. exact IH.
Qed.

(** * node-induced subgraph: the tensor form of the induced subgraph, new numbers = positions
    in the given node list *)
Theorem node_induced_ok t ns :
  NoDup ns -> ns <> [] ->
  (forall v, In v ns -> 0 <= v < Z.of_nat (List.length (t_x t))) ->
  (t_ea t = None \/
   exists ea, t_ea t = Some ea /\ List.length ea = List.length (t_ei t) /\ filter (both_in ns) (t_ei t) <> []) ->
  node_induced_subgraph t ns = Ok (induced_tensor t ns).
Proof.
  intros Hnd Hne Hrange Hea. unfold node_induced_subgraph.
  rewrite any_negative_false by (intros v Hv; specialize (Hrange v Hv); lia).
  set (node_map := zdict_of (combine ns (znats (List.length ns)))).
  change (fun c : Z * (Z * Z) => zmem (fst (snd c)) ns && zmem (snd (snd c)) ns)
    with (fun c : Z * (Z * Z) => both_in ns (snd c)).
  set (sel := filter (fun c : Z * (Z * Z) => both_in ns (snd c)) (enumerate (t_ei t))).
  assert (Hsel : map snd sel = filter (both_in ns) (t_ei t)).
  { unfold sel. rewrite (filter_map_snd (both_in ns)), enumerate_snd. reflexivity. }
  assert (Hei : map (fun c : Z * (Z * Z) => (map_get node_map (fst (snd c)), map_get node_map (snd (snd c)))) sel
                = map (renumber ns) (filter (both_in ns) (t_ei t))).
  { rewrite <- Hsel, map_map. apply map_ext_in. intros c Hc.
    apply (renum_ok ns (snd c) Hnd).
    assert (Hin : In (snd c) (map snd sel)) by (apply in_map; exact Hc).
    rewrite Hsel in Hin. apply filter_In in Hin. tauto. }
  rewrite Hei.
  assert (Hx : mapM (nth_res (t_x t)) ns = Ok (map (fun v => nth (Z.to_nat v) (t_x t) []) ns)).
  { apply mapM_map. intros v Hv. apply nth_res_ok. apply Hrange. exact Hv. }
  destruct ns as [|n0 ns']; [contradiction|]. rewrite Hx. cbn [bind].
  destruct Hea as [Hnone|(ea & Hsome & Hlen & Hkept)].
  - rewrite Hnone. unfold induced_tensor. rewrite Hnone. reflexivity.
  - rewrite Hsome.
    destruct sel as [|c0 sel'] eqn:Esel; [simpl in Hsel; congruence|].
    rewrite <- Esel. unfold sel. rewrite enumerate_zr.
    pose proof (sel_attr (both_in (n0 :: ns')) [] (t_ei t) ea [] 0 Hlen eq_refl) as Hattr.
    change ([] ++ ea) with ea in Hattr. rewrite Hattr.
    cbn [bind]. unfold induced_tensor. rewrite Hsome. reflexivity.
Qed.

(** * edge-induced subgraph *)

Theorem edge_induced_ok t es :
  es <> [] ->
  (forall e, In e es -> 0 <= e < Z.of_nat (List.length (t_ei t))) ->
  cols_in_range t ->
  (t_ea t = None \/ exists ea, t_ea t = Some ea /\ List.length ea = List.length (t_ei t)) ->
  exists t', edge_induced_subgraph t es = Ok t' /\ edge_induced_spec t es t'.
Proof.
  intros Hne Hes Hrange Hea. unfold edge_induced_subgraph.
  rewrite any_negative_false by (intros v Hv; specialize (Hes v Hv); lia).
  destruct es as [|e0 es'] eqn:Ees; [contradiction|]. rewrite <- Ees in *. clear Hne.
  assert (Hcols : mapM (nth_res (t_ei t)) es = Ok (map (fun e => nth (Z.to_nat e) (t_ei t) (0, 0)) es)).
  { apply mapM_map. intros e He. apply nth_res_ok. apply Hes. exact He. }
  rewrite Hcols. cbn [bind].
  set (cols := map (fun e => nth (Z.to_nat e) (t_ei t) (0, 0)) es).
  set (sel := unique_sorted (flat_map (fun p : Z * Z => [fst p; snd p]) cols)).
  assert (Hcol_in : forall p, In p cols -> In p (t_ei t)).
  { intros p Hp. unfold cols in Hp. apply in_map_iff in Hp. destruct Hp as (e & <- & He).
    apply nth_In. specialize (Hes e He). lia. }
  assert (Hsel_in : forall v, In v sel <-> exists p, In p cols /\ (v = fst p \/ v = snd p)).
  { intros v. unfold sel. rewrite unique_sorted_In, in_flat_map. split.
    - intros (p & Hp & Hv). exists p. split; [exact Hp|]. simpl in Hv. intuition.
    - intros (p & Hp & Hv). exists p. split; [exact Hp|]. simpl. intuition. }
  assert (Hss : ssorted sel) by apply unique_sorted_ssorted.
  assert (Hsel_range : forall v, In v sel -> 0 <= v < Z.of_nat (List.length (t_x t))).
  { intros v Hv. apply Hsel_in in Hv. destruct Hv as (p & Hp & Hv).
    destruct (Hrange p (Hcol_in p Hp)) as [H1 H2]. destruct Hv as [->| ->]; assumption. }
  rewrite any_negative_false by (intros v Hv; specialize (Hsel_range v Hv); lia).
  assert (Hx : mapM (nth_res (t_x t)) sel = Ok (map (fun v => nth (Z.to_nat v) (t_x t) []) sel)).
  { apply mapM_map. intros v Hv. apply nth_res_ok. apply Hsel_range. exact Hv. }
  rewrite Hx. cbn [bind].
  assert (Hei : map (fun p : Z * Z => (map_get (zdict_of (combine sel (znats (List.length sel)))) (fst p),
                                        map_get (zdict_of (combine sel (znats (List.length sel)))) (snd p))) cols
                = map (fun e => renumber sel (nth (Z.to_nat e) (t_ei t) (0, 0))) es).
  { unfold cols. rewrite map_map. apply map_ext_in. intros e He.
    apply (renum_ok sel _ (ssorted_NoDup sel Hss)). apply both_in_spec.
    split; apply Hsel_in; exists (nth (Z.to_nat e) (t_ei t) (0, 0));
      (split; [unfold cols; apply (in_map (fun e1 => nth (Z.to_nat e1) (t_ei t) (0, 0))); exact He | auto]). }
  assert (Hspec_sel : forall v, In v sel <->
            exists e, In e es /\ exists p, nth_error (t_ei t) (Z.to_nat e) = Some p /\ (v = fst p \/ v = snd p)).
  { intros v. rewrite Hsel_in. split.
    - intros (p & Hp & Hv). unfold cols in Hp. apply in_map_iff in Hp. destruct Hp as (e & <- & He).
      exists e. split; [exact He|]. eexists. split; [|exact Hv].
      apply nth_error_nth'. specialize (Hes e He). lia.
    - intros (e & He & p & Hp & Hv). exists p. split; [|exact Hv].
      unfold cols. apply in_map_iff. exists e. split; [|exact He]. apply nth_error_nth. exact Hp. }
  destruct Hea as [Hnone|(ea & Hsome & Hlen)].
  - rewrite Hnone. eexists. split; [reflexivity|]. exists sel. cbn [t_x t_ei t_ea t_batch].
    split; [apply ssorted_ascending; exact Hss|]. split; [exact Hspec_sel|]. split; [reflexivity|].
    split; [exact Hei|]. rewrite Hnone. split; reflexivity.
  - rewrite Hsome.
    assert (Hattr : mapM (nth_res ea) es = Ok (map (fun e => nth (Z.to_nat e) ea []) es)).
    { apply mapM_map. intros e He. apply nth_res_ok. rewrite Hlen. apply Hes. exact He. }
    rewrite Hattr. cbn [bind]. eexists. split; [reflexivity|]. exists sel. cbn [t_x t_ei t_ea t_batch].
    split; [apply ssorted_ascending; exact Hss|]. split; [exact Hspec_sel|]. split; [reflexivity|].
    split; [exact Hei|]. rewrite Hsome. split; reflexivity.
Qed.
