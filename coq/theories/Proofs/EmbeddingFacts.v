(** Exactness of the decidable embedding test and of the reference decision procedure
    of Spec/Embedding.v. *)
From Coq Require Import ZArith List Bool String Lia.
From FGV Require Import Base.Util Base.UtilFacts Base.Bond Base.NX Base.Sym Spec.Embedding Proofs.NXLookup.
Import ListNotations.
Open Scope Z_scope.

(** * pair lists as maps *)

Lemma pair_fun_In m p h : pair_fun m p = Some h -> In (h, p) m.
Proof.
  unfold pair_fun. destruct (find _ m) as [[h' p']|] eqn:E; simpl; [|discriminate].
  intros [= <-]. apply find_some in E. destruct E as [Hin Hp]. simpl in Hp.
  apply Z.eqb_eq in Hp. subst. exact Hin.
Qed.

Lemma pair_fun_None m p : pair_fun m p = None <-> ~ In p (map snd m).
Proof.
  unfold pair_fun. destruct (find _ m) as [[h' p']|] eqn:E; simpl.
  - split; [discriminate|]. intros H. exfalso. apply H. apply find_some in E.
    destruct E as [Hin Hp]. simpl in Hp. apply Z.eqb_eq in Hp. subst.
    apply (in_map snd) in Hin. exact Hin.
  - split; [|reflexivity]. intros _ Hin. apply in_map_iff in Hin. destruct Hin as ([h q] & Hq & Hin).
    simpl in Hq. subst. pose proof (find_none _ _ E _ Hin) as Hf. simpl in Hf.
    rewrite Z.eqb_refl in Hf. discriminate.
Qed.

Lemma pair_fun_NoDup m p h : NoDup (map snd m) -> In (h, p) m -> pair_fun m p = Some h.
Proof.
  induction m as [|[h' p'] t IH]; simpl; [tauto|]. intros Hnd [Hin|Hin].
  - inversion Hin; subst. unfold pair_fun. simpl. rewrite Z.eqb_refl. reflexivity.
  - inversion Hnd as [|? ? Hni Hnd']; subst. unfold pair_fun. simpl.
    destruct (Z.eqb_spec p' p) as [->|Hne].
    + exfalso. apply Hni. apply (in_map snd) in Hin. exact Hin.
    + apply IH; assumption.
Qed.

Lemma NoDup_fst_of_pairs (m : list (Z * Z)) :
  NoDup (map snd m) -> (forall h p q, In (h, p) m -> In (h, q) m -> p = q) -> NoDup (map fst m).
Proof.
  induction m as [|[h p] t IH]; simpl; intros Hnd Hinj; [constructor|].
  inversion Hnd as [|? ? Hni Hnd']; subst. constructor.
  - intros Hin. apply in_map_iff in Hin. destruct Hin as ([h' q] & Hh & Hin). simpl in Hh. subst h'.
    assert (p = q) by (eapply Hinj; [left; reflexivity | right; exact Hin]). subst q.
    apply Hni. apply (in_map snd) in Hin. exact Hin.
  - apply IH; [exact Hnd'|]. intros h' p' q' H1 H2. eapply Hinj; right; eassumption.
Qed.

Lemma option_label_eqb l1 l2 : option_eqb label_eqb l1 l2 = true <-> l1 = l2.
Proof.
  destruct l1, l2; simpl; try (split; [discriminate|congruence]); [|tauto].
  rewrite label_eqb_eq. split; congruence.
Qed.

Lemma sym_okb_spec w ic G P h p :
  sym_okb w ic G P h p = true <->
  exists ps s, sym_of P p = Some ps /\ sym_of G h = Some s /\ adm w ic ps s = true.
Proof.
  unfold sym_okb. destruct (sym_of P p) as [ps|], (sym_of G h) as [s|]; split;
    try discriminate; try (intros (ps' & s' & H1 & H2 & _); discriminate).
  - intros H. exists ps, s. auto.
  - intros (ps' & s' & [= <-] & [= <-] & H). exact H.
Qed.

(** * [is_embedding] is exact *)

Section IsEmb.
  Variables (w : option string) (ic : bool) (G : graph) (a : Z) (P : graph) (pa : Z).

  Theorem is_embedding_sound m :
    is_embedding w ic G a P pa m = true -> covers P m /\ Embedding w ic G a P pa (pair_fun m).
  Proof.
    unfold is_embedding. rewrite !andb_true_iff.
    intros [[[[[[H1 H2] H3] H4] H5] H6] H7].
    apply nodupb_NoDup in H1. apply nodupb_NoDup in H2.
    rewrite forallb_forall in H3, H4, H6, H7.
    assert (Hcov : forall p, In p (map snd m) <-> In p (nodes P)).
    { intros p. split; intros H.
      - apply zmem_In. apply H4. exact H.
      - apply zmem_In. apply H3. exact H. }
    split; [split; [exact H1 | split; [exact H2 | exact Hcov]]|].
    constructor.
    - apply existsb_exists in H5. destruct H5 as ([h p] & Hin & Hhp). simpl in Hhp.
      apply andb_true_iff in Hhp. destruct Hhp as [Ea Ep]. apply Z.eqb_eq in Ea, Ep. subst.
      split; [apply Hcov; apply (in_map snd) in Hin; exact Hin | apply pair_fun_NoDup; assumption].
    - intros p Hp. apply Hcov in Hp. destruct (pair_fun m p) as [n|] eqn:E; [eauto|].
      apply pair_fun_None in E. contradiction.
    - intros p q n _ _ Hp Hq. apply pair_fun_In in Hp, Hq.
      clear -H2 Hp Hq. induction m as [|[h r] t IH]; simpl in *; [tauto|].
      inversion H2 as [|? ? Hni Hnd]; subst.
      destruct Hp as [Hp|Hp], Hq as [Hq|Hq].
      + congruence.
      + inversion Hp; subst. exfalso. apply Hni. apply (in_map fst) in Hq. exact Hq.
      + inversion Hq; subst. exfalso. apply Hni. apply (in_map fst) in Hp. exact Hp.
      + auto.
    - intros p n _ Hp. apply pair_fun_In in Hp. specialize (H6 _ Hp). simpl in H6.
      apply sym_okb_spec. exact H6.
    - intros p q l n n' Hl Hp Hq. apply pair_fun_In in Hp. specialize (H7 _ Hp). simpl in H7.
      rewrite forallb_forall in H7. apply edge_label_In in Hl. specialize (H7 _ Hl). simpl in H7.
      rewrite Hq in H7. apply option_label_eqb. exact H7.
  Qed.

  Theorem is_embedding_complete m :
    (forall n, NoDup (neighbors P n)) ->
    NoDup (map snd m) -> (forall p, In p (map snd m) <-> In p (nodes P)) ->
    Embedding w ic G a P pa (pair_fun m) -> is_embedding w ic G a P pa m = true.
  Proof.
    intros Hadj Hnd Hcov E. destruct E as [[Ha1 Ha2] Htot Hinj Hadm Hedge].
    unfold is_embedding. rewrite !andb_true_iff. repeat split.
    - apply nodupb_NoDup. exact Hnd.
    - apply nodupb_NoDup.
      assert (Hall : forall h p, In (h, p) m -> pair_fun m p = Some h /\ In p (nodes P)).
      { intros h p Hin. split; [apply pair_fun_NoDup; assumption|].
        apply Hcov. apply (in_map snd) in Hin. exact Hin. }
      apply NoDup_fst_of_pairs; [exact Hnd|].
      intros h p q Hp Hq. destruct (Hall h p Hp) as [F1 N1]. destruct (Hall h q Hq) as [F2 N2].
      eapply Hinj; eauto.
    - apply forallb_forall. intros p Hp. apply zmem_In. apply Hcov. exact Hp.
    - apply forallb_forall. intros p Hp. apply zmem_In. apply Hcov. exact Hp.
    - apply existsb_exists. exists (a, pa). split; [apply pair_fun_In; exact Ha2|].
      simpl. rewrite !Z.eqb_refl. reflexivity.
    - apply forallb_forall. intros [h p] Hin. simpl. apply sym_okb_spec.
      apply Hadm; [apply Hcov; apply (in_map snd) in Hin; exact Hin | apply pair_fun_NoDup; assumption].
    - apply forallb_forall. intros [h p] Hin. simpl. apply forallb_forall. intros [q l] Hq. simpl.
      destruct (pair_fun m q) as [h'|] eqn:Eq; [|reflexivity].
      apply option_label_eqb. eapply Hedge; [|apply pair_fun_NoDup; eassumption|exact Eq].
      unfold edge_label. apply NoDup_alookup; [apply (Hadj p) | exact Hq].
  Qed.
End IsEmb.

(** * [is_partial_embedding] is sound *)

Theorem is_partial_embedding_sound w ic G a P pa m vp :
  is_partial_embedding w ic G a P pa m vp = true ->
  PartialEmbedding w ic G a P pa m /\
  (forall n p q, In (n, p) m -> In q (neighbors P p) -> In q vp) /\
  (forall p, In p (map snd m) -> In p vp).
Proof.
  unfold is_partial_embedding. rewrite !andb_true_iff.
  intros [[[[[[H1 H2] H3] H4] H5] H6] H7].
  apply nodupb_NoDup in H1. apply nodupb_NoDup in H2.
  rewrite forallb_forall in H4, H5, H6, H7.
  split; [constructor|split].
  - exact H1.
  - exact H2.
  - apply existsb_exists in H3. destruct H3 as ([h p] & Hin & Hhp). simpl in Hhp.
    apply andb_true_iff in Hhp. destruct Hhp as [Ea Ep]. apply Z.eqb_eq in Ea, Ep. subst. exact Hin.
  - intros n p Hin. specialize (H4 _ Hin). simpl in H4. apply andb_true_iff in H4. destruct H4 as [N S].
    split; [apply zmem_In; exact N | apply sym_okb_spec; exact S].
  - intros n p n' q l Hp Hq Hl. specialize (H5 _ Hp). simpl in H5. rewrite forallb_forall in H5.
    apply edge_label_In in Hl. specialize (H5 _ Hl). simpl in H5.
    rewrite (pair_fun_NoDup _ _ _ H1 Hq) in H5. apply option_label_eqb. exact H5.
  - intros n p q Hin Hq. specialize (H6 _ Hin). simpl in H6. rewrite forallb_forall in H6.
    apply zmem_In. apply H6. exact Hq.
  - intros p Hp. apply zmem_In. apply H7. exact Hp.
Qed.

(** an embedding only matters on the pattern's nodes *)
Lemma Embedding_ext w ic G a P pa f g :
  (forall p, In p (nodes P) -> g p = f p) -> (forall p, ~ In p (nodes P) -> g p = None) ->
  Embedding w ic G a P pa f -> Embedding w ic G a P pa g.
Proof.
  intros Hin Hout [[Ha1 Ha2] Htot Hinj Hadm Hedge]. constructor.
  - split; [exact Ha1 | rewrite Hin; assumption].
  - intros p Hp. rewrite Hin by exact Hp. auto.
  - intros p q n Hp Hq. rewrite !Hin by assumption. apply Hinj; assumption.
  - intros p n Hp. rewrite Hin by exact Hp. apply Hadm; assumption.
  - intros p q l n n' Hl Hp Hq.
    assert (Np : In p (nodes P)) by (eapply edge_label_node; eauto).
    rewrite Hin in Hp by exact Np.
    destruct (in_dec Z.eq_dec q (nodes P)) as [Nq|Nq].
    + rewrite Hin in Hq by exact Nq. eapply Hedge; eauto.
    + rewrite Hout in Hq by exact Nq. discriminate.
Qed.

(** * [exists_embedding] is exact *)

Section Exists.
  Variables (w : option string) (ic : bool) (G : graph) (a : Z) (P : graph) (pa : Z).

  Theorem exists_embedding_sound :
    exists_embedding w ic G a P pa = true -> exists f, Embedding w ic G a P pa f.
  Proof.
    unfold exists_embedding. intros H. apply existsb_exists in H. destruct H as (m & _ & H).
    apply is_embedding_sound in H. exists (pair_fun m). tauto.
  Qed.

  Definition img (f : Z -> option Z) (p : Z) : Z := match f p with Some n => n | None => 0 end.

  Lemma inj_maps_complete f cand l :
    NoDup l -> (forall p, In p l -> In (img f p) (cand p)) ->
    (forall p q, In p l -> In q l -> img f p = img f q -> p = q) ->
    In (map (fun p => (img f p, p)) l) (inj_maps cand l).
  Proof.
    induction l as [|p t IH]; intros Hnd Hc Hinj; simpl; [auto|].
    inversion Hnd as [|? ? Hni Hnd']; subst.
    apply in_flat_map. exists (map (fun q => (img f q, q)) t). split.
    - apply IH; [exact Hnd' | intros; apply Hc; right; assumption |
                 intros; apply Hinj; try right; assumption].
    - apply in_flat_map. exists (img f p). split; [apply Hc; left; reflexivity|].
      destruct (zmem (img f p) (map fst (map (fun q => (img f q, q)) t))) eqn:E; [|left; reflexivity].
      exfalso. apply zmem_In in E. rewrite map_map in E. simpl in E. apply in_map_iff in E.
      destruct E as (q & Hq & Hin). assert (q = p) by (apply Hinj; [right; exact Hin | left; reflexivity | exact Hq]).
      subst. contradiction.
  Qed.

  Theorem exists_embedding_complete f :
    NoDup (nodes P) -> (forall n, NoDup (neighbors P n)) ->
    Embedding w ic G a P pa f -> exists_embedding w ic G a P pa = true.
  Proof.
    intros Hnd Hadj E. unfold exists_embedding. apply existsb_exists.
    set (m := map (fun p => (img f p, p)) (nodes P)).
    assert (Hsnd : map snd m = nodes P).
    { unfold m. rewrite map_map. simpl. apply map_id. }
    assert (Himg : forall p, In p (nodes P) -> f p = Some (img f p)).
    { intros p Hp. destruct (emb_total _ _ _ _ _ _ _ E p Hp) as [n Hn]. unfold img. rewrite Hn. reflexivity. }
    exists m. split.
    - apply inj_maps_complete; [exact Hnd | |].
      + intros p Hp. unfold candidates. apply filter_In.
        pose proof (Himg p Hp) as Hf.
        destruct (emb_adm _ _ _ _ _ _ _ E p _ Hp Hf) as (ps & s & H1 & H2 & H3).
        split; [eapply sym_of_node; eauto|]. apply andb_true_iff. split.
        * destruct (Z.eqb_spec p pa) as [->|]; [|reflexivity].
          destruct (emb_anchor _ _ _ _ _ _ _ E) as [_ Ha]. rewrite Ha in Hf. injection Hf as <-.
          apply Z.eqb_refl.
        * apply sym_okb_spec. eauto.
      + intros p q Hp Hq Heq. eapply (emb_inj _ _ _ _ _ _ _ E p q); eauto.
        rewrite Heq. apply Himg. exact Hq.
    - apply is_embedding_complete; [exact Hadj | rewrite Hsnd; exact Hnd | rewrite Hsnd; tauto |].
      eapply Embedding_ext; [| |exact E].
      + intros p Hp. rewrite (Himg p Hp). apply pair_fun_NoDup; [rewrite Hsnd; exact Hnd|].
        unfold m. apply in_map_iff. exists p. auto.
      + intros p Hp. apply pair_fun_None. rewrite Hsnd. exact Hp.
  Qed.
End Exists.

Theorem exists_embedding_exact w ic G a P pa :
  wfb P = true ->
  (exists_embedding w ic G a P pa = true <-> exists f, Embedding w ic G a P pa f).
Proof.
  intros Hwf. split; [apply exists_embedding_sound|]. intros [f E].
  eapply exists_embedding_complete; [apply wfb_nodes_nodup; exact Hwf | intros n; apply wfb_neighbors_nodup; exact Hwf | exact E].
Qed.

Lemma has_symsb_spec g : has_symsb g = true <-> has_syms g.
Proof.
  unfold has_symsb, has_syms. rewrite forallb_forall. split; intros H n Hn; specialize (H n Hn).
  - destruct (sym_of g n); [eauto|discriminate].
  - destruct H as [s ->]. reflexivity.
Qed.
