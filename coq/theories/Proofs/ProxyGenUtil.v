(** Utility lemmas for the C14 / C15 proofs: integer ranges, permutations, sums and products,
    the shifted pattern graph, the group lookup. *)
From Coq Require Import ZArith List Bool String Lia Permutation Arith.
From FGV Require Import Base.Util Base.UtilFacts Base.Bond Base.NX Base.NXFacts Base.NXMulti Model.Aam Model.Proxy
  Model.ProxyGen Spec.ProxySpec Spec.ProxyCheck Spec.ProxyGenSpec.
Import ListNotations.
Open Scope Z_scope.

(** * zseq *)

Lemma zseq_nil lo hi : hi <= lo -> zseq lo hi = [].
Proof. intros H. unfold zseq. replace (Z.to_nat (hi - lo)) with O by lia. reflexivity. Qed.

Lemma in_zseq lo hi x : In x (zseq lo hi) <-> lo <= x < hi.
Proof.
  unfold zseq. rewrite in_map_iff. split.
  - intros [i [<- Hi]]. apply in_seq in Hi. lia.
  - intros H. exists (Z.to_nat (x - lo)). split; [lia|]. apply in_seq. lia.
Qed.

Lemma NoDup_zseq lo hi : NoDup (zseq lo hi).
Proof.
  unfold zseq. apply FinFun.Injective_map_NoDup; [|apply seq_NoDup].
  intros a b H. lia.
Qed.

Lemma length_zseq lo hi : List.length (zseq lo hi) = Z.to_nat (hi - lo).
Proof. unfold zseq. rewrite map_length, seq_length. reflexivity. Qed.

Lemma zseq_cons lo hi : lo < hi -> zseq lo hi = lo :: zseq (lo + 1) hi.
Proof.
  intros H. unfold zseq. replace (Z.to_nat (hi - lo)) with (S (Z.to_nat (hi - (lo + 1)))) by lia.
  simpl. f_equal; [lia|]. rewrite <- seq_shift, map_map. apply map_ext. intros a. lia.
Qed.

Lemma zseq_app lo mid hi : lo <= mid <= hi -> zseq lo hi = zseq lo mid ++ zseq mid hi.
Proof.
  intros H. remember (Z.to_nat (mid - lo)) as n eqn:En. revert lo H En.
  induction n as [|n IH]; intros lo H En.
  - assert (mid = lo) by lia. subst. rewrite (zseq_nil lo lo) by lia. reflexivity.
  - rewrite (zseq_cons lo hi) by lia. rewrite (zseq_cons lo mid) by lia. simpl. f_equal.
    apply IH; lia.
Qed.

Lemma map_zseq_shift {A} (f : Z -> A) lo hi d :
  map f (zseq (lo + d) (hi + d)) = map (fun x => f (x + d)) (zseq lo hi).
Proof.
  unfold zseq. rewrite !map_map. replace (hi + d - (lo + d)) with (hi - lo) by lia.
  apply map_ext. intros a. f_equal. lia.
Qed.

Lemma ids_range_perm ns lo hi : NoDup ns -> ids_range ns lo hi -> Permutation ns (zseq lo hi).
Proof.
  intros Hnd Hr. apply NoDup_Permutation; [exact Hnd|apply NoDup_zseq|].
  intros x. rewrite in_zseq. apply Hr.
Qed.

Lemma ids_range_length ns lo hi : NoDup ns -> ids_range ns lo hi -> Z.of_nat (List.length ns) = Z.max 0 (hi - lo).
Proof.
  intros Hnd Hr. rewrite (Permutation_length (ids_range_perm _ _ _ Hnd Hr)), length_zseq. lia.
Qed.

(** * sums and products over permutations *)

Definition lprod (l : list nat) : nat := fold_right Nat.mul 1%nat l.

Lemma list_sum_perm l l' : Permutation l l' -> list_sum l = list_sum l'.
Proof. induction 1; simpl; lia. Qed.

Lemma lprod_perm l l' : Permutation l l' -> lprod l = lprod l'.
Proof. induction 1; simpl; try lia; nia. Qed.

Lemma lprod_app l l' : lprod (l ++ l') = (lprod l * lprod l')%nat.
Proof. induction l; simpl; [lia|]. rewrite IHl. lia. Qed.

Lemma list_sum_map_mul {A} (f : A -> nat) c l :
  list_sum (map (fun x => (f x * c)%nat) l) = (list_sum (map f l) * c)%nat.
Proof. induction l; simpl; [reflexivity|]. rewrite IHl. lia. Qed.

Lemma list_max_ge l x : In x l -> (x <= list_max l)%nat.
Proof.
  induction l as [|y t IH]; simpl; [tauto|]. intros [->|H]; [lia|]. specialize (IH H). lia.
Qed.

(** * glookup / in_groups *)

Lemma in_groups_lookup gs nm : in_groups gs nm = true <-> exists grp, glookup nm gs = Some grp.
Proof.
  unfold in_groups. destruct (glookup nm gs); simpl; split; eauto; try discriminate.
  intros [? ?]; discriminate.
Qed.

Lemma glookup_In nm gs grp : glookup nm gs = Some grp -> In (nm, grp) gs.
Proof.
  induction gs as [|[k g] t IH]; simpl; [discriminate|].
  destruct (String.eqb_spec nm k) as [->|Hne].
  - intros [= ->]. left; reflexivity.
  - intros H. right. exact (IH H).
Qed.

Lemma node_group_in gs a nm : node_group gs a = Some nm -> exists grp, glookup nm gs = Some grp.
Proof.
  unfold node_group. destruct (is_group_attr gs a); [|discriminate].
  destruct (filter (in_groups gs) (node_labels a)) as [|x t] eqn:E; simpl; [discriminate|].
  intros [= ->]. apply in_groups_lookup.
  assert (Hin : In nm (filter (in_groups gs) (node_labels a))) by (rewrite E; left; reflexivity).
  apply filter_In in Hin. tauto.
Qed.

Lemma node_group_is_group gs a nm : node_group gs a = Some nm -> is_group_attr gs a = true.
Proof. unfold node_group. destruct (is_group_attr gs a); [reflexivity|discriminate]. Qed.

Lemma node_group_none gs a : is_group_attr gs a = false -> node_group gs a = None.
Proof. unfold node_group. intros ->. reflexivity. Qed.

(** * the shifted pattern graph *)

Lemma alookup_shift_map {A B} (f : A -> B) m k (l : list (Z * A)) :
  alookup (k + m) (map (fun e => (fst e + m, f (snd e))) l) = option_map f (alookup k l).
Proof.
  induction l as [|[k' a] t IH]; simpl; [reflexivity|].
  destruct (Z.eqb_spec k k') as [->|Hne].
  - rewrite Z.eqb_refl. reflexivity.
  - destruct (Z.eqb_spec (k + m) (k' + m)); [lia|]. exact IH.
Qed.

Lemma mshift_as_map m g :
  mshift m g = map (fun e => (fst e + m, (fun x => (fst x, map (fun y => (fst y + m, snd y)) (snd x))) (snd e))) g.
Proof.
  unfold mshift. apply map_ext. intros [n [a ad]]. simpl. f_equal. f_equal.
  apply map_ext. intros [v kd]. reflexivity.
Qed.

Lemma mnodes_mshift m g : mnodes (mshift m g) = map (fun n => n + m) (mnodes g).
Proof.
  unfold mnodes, mshift. rewrite !map_map. apply map_ext. intros [n [a ad]]. reflexivity.
Qed.

Lemma mnumber_mshift m g : mnumber_of_nodes (mshift m g) = mnumber_of_nodes g.
Proof. unfold mnumber_of_nodes, mshift. rewrite map_length. reflexivity. Qed.

Lemma alookup_mshift m g x :
  alookup (x + m) (mshift m g)
  = option_map (fun p => (fst p, map (fun y => (fst y + m, snd y)) (snd p))) (alookup x g).
Proof.
  rewrite mshift_as_map.
  exact (alookup_shift_map (fun p : nattr * madjl => (fst p, map (fun y : Z * keyd => (fst y + m, snd y)) (snd p))) m x g).
Qed.

Lemma mnode_attr_mshift m g x : mnode_attr (mshift m g) (x + m) = mnode_attr g x.
Proof.
  unfold mnode_attr. rewrite alookup_mshift. destruct (alookup x g) as [[a ad]|]; reflexivity.
Qed.

Lemma madj_mshift m g x : madj (mshift m g) (x + m) = map (fun y => (fst y + m, snd y)) (madj g x).
Proof.
  unfold madj. rewrite alookup_mshift. destruct (alookup x g) as [[a ad]|]; reflexivity.
Qed.

Lemma alookup_mshift_none m g x : ~ In (x - m) (mnodes g) -> alookup x (mshift m g) = None.
Proof.
  intros H. apply alookup_None. unfold akeys. change (map fst (mshift m g)) with (mnodes (mshift m g)).
  rewrite mnodes_mshift. rewrite in_map_iff. intros [y [Hy Hin]]. apply H.
  replace (x - m) with y by lia. exact Hin.
Qed.

Lemma alookup_adj_shift m (ad : madjl) v :
  alookup (v + m) (map (fun y => (fst y + m, snd y)) ad) = alookup v ad.
Proof.
  rewrite (alookup_shift_map (fun kd : keyd => kd) m v ad).
  destruct (alookup v ad); reflexivity.
Qed.

Lemma alookup_adj_shift_inv m (ad : madjl) v kd :
  alookup v (map (fun y => (fst y + m, snd y)) ad) = Some kd -> alookup (v - m) ad = Some kd.
Proof.
  intros H. rewrite <- (alookup_adj_shift m). replace (v - m + m) with v by lia. exact H.
Qed.

Lemma mwf_mshift m g : mwf g -> mwf (mshift m g).
Proof.
  intros [Hnd [Hadj Hsym]]. unfold mkd in *. split; [|split].
  - rewrite mnodes_mshift. apply FinFun.Injective_map_NoDup; [|exact Hnd]. intros a b H; lia.
  - intros u. destruct (in_dec Z.eq_dec (u - m) (mnodes g)) as [Hin|Hni].
    + replace u with (u - m + m) by lia. rewrite madj_mshift, map_map. simpl.
      rewrite <- (map_map fst (fun x => x + m)).
      apply FinFun.Injective_map_NoDup; [intros a b H; lia|apply Hadj].
    + unfold madj. rewrite alookup_mshift_none by exact Hni. constructor.
  - intros u v kd H. unfold mkd in *.
    destruct (in_dec Z.eq_dec (u - m) (mnodes g)) as [Hin|Hni].
    + replace u with (u - m + m) in H by lia. rewrite madj_mshift in H.
      apply alookup_adj_shift_inv in H. destruct (Hsym _ _ _ H) as [Hne [Hk Hback]].
      split; [exact Hne|split; [exact Hk|]].
      replace v with (v - m + m) by lia. rewrite madj_mshift.
      replace u with (u - m + m) by lia. rewrite alookup_adj_shift.
      replace (v - m + m - m) with (v - m) by lia. exact Hback.
    + unfold madj in H. rewrite alookup_mshift_none in H by exact Hni. discriminate.
Qed.

Lemma ids_range_mshift m g k : ids_range (mnodes g) 0 k -> ids_range (mnodes (mshift m g)) m (m + k).
Proof.
  intros H x. rewrite mnodes_mshift, in_map_iff. split.
  - intros [y [<- Hy]]. apply H in Hy. lia.
  - intros Hx. exists (x - m). split; [lia|]. apply H. lia.
Qed.

Lemma mkeyd_mshift m g x y : mkeyd (mshift m g) (x + m) (y + m) = mkeyd g x y.
Proof. unfold mkeyd. rewrite madj_mshift, alookup_adj_shift. reflexivity. Qed.

(** * entries of a graph with distinct node ids *)

Lemma entry_mnode_attr (g : mgraph) n a ad : NoDup (mnodes g) -> In (n, (a, ad)) g -> mnode_attr g n = Some a.
Proof.
  intros Hnd Hin. unfold mnode_attr. rewrite (NoDup_alookup n (a, ad) g Hnd Hin). reflexivity.
Qed.

Lemma mnode_attr_entry (g : mgraph) n a : mnode_attr g n = Some a -> exists ad, In (n, (a, ad)) g.
Proof.
  unfold mnode_attr. destruct (alookup n g) as [[a' ad]|] eqn:E; [|discriminate].
  intros [= ->]. exists ad. apply alookup_In. exact E.
Qed.

Lemma mnode_attr_in_nodes (g : mgraph) n a : mnode_attr g n = Some a -> In n (mnodes g).
Proof.
  intros H. destruct (mnode_attr_entry g n a H) as [ad Hin]. apply (in_map fst) in Hin. exact Hin.
Qed.

Lemma in_nodes_mnode_attr (g : mgraph) n : In n (mnodes g) -> exists a, mnode_attr g n = Some a.
Proof.
  intros H. destruct (In_alookup n g H) as [[a ad] E]. exists a. unfold mnode_attr. rewrite E. reflexivity.
Qed.

(* attributes in node order *)
Definition alist (g : mgraph) : list nattr := map (fun e => fst (snd e)) g.

Lemma map_attr_nodes (g : mgraph) : NoDup (mnodes g) -> map (mnode_attr g) (mnodes g) = map Some (alist g).
Proof.
  intros Hnd. unfold mnodes, alist. rewrite !map_map. apply map_ext_in. intros [n [a ad]] Hin. simpl.
  apply (entry_mnode_attr g n a ad Hnd Hin).
Qed.

Lemma alist_by_ids (g : mgraph) n :
  NoDup (mnodes g) -> ids_range (mnodes g) 0 n ->
  Permutation (map Some (alist g)) (map (mnode_attr g) (zseq 0 n)).
Proof.
  intros Hnd Hr. rewrite <- map_attr_nodes by exact Hnd. apply Permutation_map.
  apply ids_range_perm; assumption.
Qed.

Lemma mnumber_nodes_eq (g : mgraph) : mnumber_of_nodes g = Z.of_nat (List.length (mnodes g)).
Proof. unfold mnumber_of_nodes, mnodes. rewrite map_length. reflexivity. Qed.
