(** What Proxy.__generate does to a finished MultiGraph: aam = id + 1, nx.Graph(multigraph).
    Node list and node attributes of [to_simple]; proved from the definitions in Base/NXMulti.v. *)
From Coq Require Import ZArith List Bool String Lia Permutation Arith.
From FGV Require Import Base.Util Base.UtilFacts Base.Bond Base.NX Base.NXFacts Base.NXMulti Model.Aam Model.Proxy
  Model.ProxyGen Spec.ProxySpec Spec.ProxyCheck Spec.ProxyGenSpec Proofs.ProxyGenUtil.
Import ListNotations.
Open Scope Z_scope.

(* every neighbour is a node *)
Definition closed_adj (g : mgraph) : Prop := forall u v, In v (mneighbors g u) -> In v (mnodes g).

Lemma madj_nonempty_node (g : mgraph) v : madj g v <> [] -> In v (mnodes g).
Proof.
  unfold madj. destruct (alookup v g) as [[a ad]|] eqn:E; [|congruence].
  intros _. apply alookup_Some_key in E. exact E.
Qed.

Lemma mwf_closed g : mwf g -> closed_adj g.
Proof.
  intros [_ [_ Hsym]] u v Hin. unfold mkd in *. unfold mneighbors in Hin.
  destruct (In_alookup v (madj g u) Hin) as [kd E].
  destruct (Hsym u v kd E) as [_ [_ Hback]].
  apply madj_nonempty_node. intros Hnil. rewrite Hnil in Hback. discriminate.
Qed.

(* a graph on the node list [ns] whose nodes all carry the empty attribute dict *)
Definition plain (G : graph) (ns : list Z) : Prop :=
  nodes G = ns /\ forall n, In n ns -> node_attr G n = Some na_empty.

Lemma node_attr_not_node (G : graph) n : ~ In n (nodes G) -> node_attr G n = None.
Proof.
  intros H. destruct (node_attr G n) eqn:E; [|reflexivity].
  exfalso. apply H. apply has_node_In. apply node_attr_has_node. eauto.
Qed.

Lemma plain_init l : forall G ns,
  plain G ns -> NoDup (ns ++ l) -> plain (add_nodes_from G (map (fun n => (n, na_empty)) l)) (ns ++ l).
Proof.
  induction l as [|x t IH]; intros G ns [Hn Ha] Hnd.
  - rewrite app_nil_r. split; assumption.
  - assert (Hx : ~ In x ns).
    { pose proof (NoDup_remove_2 _ _ _ Hnd) as H. intros Hin. apply H. apply in_or_app. left. exact Hin. }
    simpl. replace (ns ++ x :: t) with ((ns ++ [x]) ++ t) by (rewrite <- app_assoc; reflexivity).
    replace (ns ++ x :: t) with ((ns ++ [x]) ++ t) in Hnd by (rewrite <- app_assoc; reflexivity).
    apply IH; [|exact Hnd].
    split.
    + rewrite nodes_add_node. destruct (has_node G x) eqn:E.
      * apply has_node_In in E. rewrite Hn in E. contradiction.
      * rewrite Hn. reflexivity.
    + intros n Hin. rewrite node_attr_add_node. destruct (Z.eqb_spec n x) as [->|Hne].
      * rewrite node_attr_not_node by (rewrite Hn; exact Hx). reflexivity.
      * apply Ha. apply in_app_or in Hin. destruct Hin as [H|[H|[]]]; [exact H|congruence].
Qed.

Lemma plain_add_edge G ns u v l : plain G ns -> In u ns -> In v ns -> plain (add_edge G u v l) ns.
Proof.
  intros [Hn Ha] Hu Hv. split.
  - rewrite nodes_add_edge. cbv zeta.
    assert (Eu : has_node G u = true) by (apply has_node_In; rewrite Hn; exact Hu).
    assert (Ev : has_node G v = true) by (apply has_node_In; rewrite Hn; exact Hv).
    rewrite Eu, Ev. simpl. exact Hn.
  - intros n Hin. rewrite node_attr_add_edge, (Ha n Hin). reflexivity.
Qed.

Lemma plain_add_edges G ns es :
  plain G ns -> (forall u v l, In (u, v, l) es -> In u ns /\ In v ns) -> plain (add_edges_from G es) ns.
Proof.
  unfold add_edges_from. revert G. induction es as [|[[u v] l] t IH]; intros G HG Hes; simpl; [exact HG|].
  apply IH.
  - destruct (Hes u v l (or_introl eq_refl)) as [Hu Hv]. apply plain_add_edge; assumption.
  - intros u' v' l' Hin. apply (Hes u' v' l'). right. exact Hin.
Qed.

Lemma plain_inner ns u ad : forall st,
  plain (snd st) ns -> In u ns -> (forall v kd, In (v, kd) ad -> In v ns) ->
  plain (snd (fold_left (ts_inner u) ad st)) ns.
Proof.
  induction ad as [|[v kd] t IH]; intros [seen G] HG Hu Had; simpl; [exact HG|].
  apply IH; [|exact Hu|intros v' kd' Hin; apply (Had v' kd'); right; exact Hin].
  destruct (mem2 (u, v) seen); simpl; [exact HG|].
  apply plain_add_edges; [exact HG|].
  intros u' v' l' Hin. apply in_map_iff in Hin. destruct Hin as [[k l0] [Heq _]]. inversion Heq; subst.
  split; [exact Hu|]. apply (Had v' kd). left. reflexivity.
Qed.

Lemma plain_outer ns (l : mgraph) : forall st,
  plain (snd st) ns ->
  (forall u a ad, In (u, (a, ad)) l -> In u ns /\ forall v kd, In (v, kd) ad -> In v ns) ->
  plain (snd (fold_left (fun st '(u, (_, ad)) => fold_left (ts_inner u) ad st) l st)) ns.
Proof.
  induction l as [|[u [a ad]] t IH]; intros st HG Hl; simpl; [exact HG|].
  apply IH.
  - destruct (Hl u a ad (or_introl eq_refl)) as [Hu Had]. apply plain_inner; assumption.
  - intros u' a' ad' Hin. apply (Hl u' a' ad'). right. exact Hin.
Qed.

Lemma na_update_empty a : na_update na_empty a = a.
Proof. destruct a as [[s|] [k|] [ls|] [b|] [im|]]; reflexivity. Qed.

Lemma final_attrs (l : list (Z * nattr)) : forall G,
  NoDup (map fst l) -> (forall n, In n (map fst l) -> In n (nodes G)) ->
  let G' := fold_left (fun acc '(n, a) => add_node acc n a) l G in
  nodes G' = nodes G
  /\ forall n, node_attr G' n = match alookup n l with
                                | Some a => option_map (fun a0 => na_update a0 a) (node_attr G n)
                                | None => node_attr G n
                                end.
Proof.
  induction l as [|[x a] t IH]; intros G Hnd Hin; simpl; [split; reflexivity|].
  inversion Hnd as [|? ? Hx Hnd']; subst.
  assert (Hxn : has_node G x = true) by (apply has_node_In; apply Hin; left; reflexivity).
  assert (Hnodes : nodes (add_node G x a) = nodes G) by (rewrite nodes_add_node, Hxn; reflexivity).
  destruct (IH (add_node G x a) Hnd') as [IHn IHa].
  { intros n Hn. rewrite Hnodes. apply Hin. right. exact Hn. }
  split; [rewrite IHn; exact Hnodes|].
  intros n. rewrite IHa. rewrite node_attr_add_node.
  destruct (Z.eqb_spec n x) as [->|Hne].
  - rewrite (proj2 (alookup_None x t)) by exact Hx.
    apply node_attr_has_node in Hxn. destruct Hxn as [a0 E]. rewrite E. reflexivity.
  - reflexivity.
Qed.

Lemma alookup_mnodes_data (g : mgraph) n : alookup n (mnodes_data g) = mnode_attr g n.
Proof.
  unfold mnodes_data, mnode_attr. induction g as [|[k [a ad]] t IH]; simpl; [reflexivity|].
  destruct (n =? k); [reflexivity|exact IH].
Qed.

Lemma map_fst_mnodes_data (g : mgraph) : map fst (mnodes_data g) = mnodes g.
Proof.
  unfold mnodes_data, mnodes. rewrite map_map. apply map_ext. intros [k [a ad]]. reflexivity.
Qed.

Theorem to_simple_nodes_attrs g :
  NoDup (mnodes g) -> closed_adj g ->
  nodes (to_simple g) = mnodes g /\ forall n, node_attr (to_simple g) n = mnode_attr g n.
Proof.
  intros Hnd Hcl. unfold to_simple.
  set (G0 := add_nodes_from empty_graph (map (fun '(n, _) => (n, na_empty)) (mnodes_data g))).
  assert (H0 : plain G0 (mnodes g)).
  { unfold G0. replace (map (fun '(n, _) => (n, na_empty)) (mnodes_data g))
      with (map (fun n => (n, na_empty)) (mnodes g)).
    - apply (plain_init (mnodes g) empty_graph []); [split; [reflexivity|intros n []]|exact Hnd].
    - rewrite <- map_fst_mnodes_data, map_map. apply map_ext. intros [n a]. reflexivity. }
  set (G1 := snd (fold_left (fun st '(u, (_, ad)) => fold_left (ts_inner u) ad st) g ([], G0))).
  assert (H1 : plain G1 (mnodes g)).
  { unfold G1. apply plain_outer; [exact H0|].
    intros u a ad Hin. split.
    - apply (in_map fst) in Hin. exact Hin.
    - intros v kd Hv. apply (Hcl u). unfold mneighbors, madj.
      rewrite (NoDup_alookup u (a, ad) g Hnd Hin). apply (in_map fst) in Hv. exact Hv. }
  destruct H1 as [Hn1 Ha1].
  destruct (final_attrs (mnodes_data g) G1) as [Hn Ha].
  - rewrite map_fst_mnodes_data. exact Hnd.
  - intros n Hin. rewrite map_fst_mnodes_data in Hin. rewrite Hn1. exact Hin.
  - split; [rewrite Hn; exact Hn1|].
    intros n. rewrite Ha, alookup_mnodes_data.
    destruct (mnode_attr g n) as [a|] eqn:E.
    + rewrite Ha1 by (eapply mnode_attr_in_nodes; eauto). simpl. rewrite na_update_empty. reflexivity.
    + apply node_attr_not_node. rewrite Hn1. intros Hin.
      destruct (in_nodes_mnode_attr g n Hin) as [a Ea]. congruence.
Qed.

(** * set_aam_all *)

Lemma mnodes_set_aam_all g : mnodes (set_aam_all g) = mnodes g.
Proof. unfold mnodes, set_aam_all. rewrite map_map. apply map_ext. intros [n [a ad]]. reflexivity. Qed.

Lemma mnode_attr_set_aam_all g n :
  mnode_attr (set_aam_all g) n = option_map (fun a => set_aam a (n + 1)) (mnode_attr g n).
Proof.
  unfold mnode_attr, set_aam_all. induction g as [|[k [a ad]] t IH]; simpl; [reflexivity|].
  destruct (Z.eqb_spec n k) as [->|Hne]; [reflexivity|exact IH].
Qed.

Lemma madj_set_aam_all g n : madj (set_aam_all g) n = madj g n.
Proof.
  unfold madj, set_aam_all. induction g as [|[k [a ad]] t IH]; simpl; [reflexivity|].
  destruct (Z.eqb_spec n k) as [->|Hne]; [reflexivity|exact IH].
Qed.

Lemma closed_set_aam_all g : closed_adj g -> closed_adj (set_aam_all g).
Proof.
  intros H u v Hin. rewrite mnodes_set_aam_all. apply (H u). unfold mneighbors in *.
  rewrite madj_set_aam_all in Hin. exact Hin.
Qed.

Lemma is_group_attr_set_aam gs a k : is_group_attr gs (set_aam a k) = is_group_attr gs a.
Proof. reflexivity. Qed.

(** * the finished graph *)

Theorem finish_facts gs aam g :
  pattern_ok gs g -> (forall e, In e g -> is_group_attr gs (fst (snd e)) = false) ->
  contiguous (finish aam g) /\ no_group_node gs (finish aam g)
  /\ (aam = true -> forall n a, node_attr (finish aam g) n = Some a -> a_aam a = Some (n + 1))
  /\ (forall n, option_map a_sym (node_attr (finish aam g) n) = option_map a_sym (mnode_attr g n)).
Proof.
  intros [Hwf [Hr Hok]] Hfin.
  assert (Hnd : NoDup (mnodes g)) by (destruct Hwf as [H _]; exact H).
  pose proof (mwf_closed g Hwf) as Hcl.
  set (g1 := if aam then set_aam_all g else g).
  assert (Hn1 : mnodes g1 = mnodes g) by (unfold g1; destruct aam; [apply mnodes_set_aam_all|reflexivity]).
  assert (Hcl1 : closed_adj g1) by (unfold g1; destruct aam; [apply closed_set_aam_all; exact Hcl|exact Hcl]).
  destruct (to_simple_nodes_attrs g1) as [Hn Ha]; [rewrite Hn1; exact Hnd|exact Hcl1|].
  unfold finish. fold g1.
  assert (Hattr : forall n a, node_attr (to_simple g1) n = Some a ->
            exists a0, mnode_attr g n = Some a0 /\ a = (if aam then set_aam a0 (n + 1) else a0)).
  { intros n a E. rewrite Ha in E. unfold g1 in E. destruct aam.
    - rewrite mnode_attr_set_aam_all in E. destruct (mnode_attr g n) as [a0|]; [|discriminate].
      simpl in E. inversion E. exists a0. split; reflexivity.
    - exists a. split; [exact E|reflexivity]. }
  split; [|split; [|split]].
  - split.
    + unfold number_of_nodes. rewrite <- (map_length fst (to_simple g1)). fold (nodes (to_simple g1)).
      rewrite Hn, Hn1, <- mnumber_nodes_eq. exact Hr.
    + rewrite Hn, Hn1. exact Hnd.
  - intros n a E. destruct (Hattr n a E) as [a0 [E0 ->]].
    destruct (mnode_attr_entry g n a0 E0) as [ad Hin].
    specialize (Hfin _ Hin). simpl in Hfin. destruct aam; [rewrite is_group_attr_set_aam|]; exact Hfin.
  - intros -> n a E. destruct (Hattr n a E) as [a0 [E0 ->]]. reflexivity.
  - intros n. rewrite Ha. unfold g1. destruct aam; [|reflexivity].
    rewrite mnode_attr_set_aam_all. destruct (mnode_attr g n); reflexivity.
Qed.

(** * the atom symbols survive the collapse, in node order *)

Lemma symbols_by_nodes (r : graph) :
  NoDup (nodes r) ->
  symbols r = map (fun n => match node_attr r n with Some a => a_sym a | None => None end) (nodes r).
Proof.
  intros Hnd. unfold symbols, nodes. rewrite map_map. apply map_ext_in. intros [n [a ad]] Hin. simpl.
  unfold node_attr. rewrite (NoDup_alookup n (a, ad) r Hnd Hin). reflexivity.
Qed.

Lemma msymbols_by_nodes (g : mgraph) :
  NoDup (mnodes g) ->
  msymbols g = map (fun n => match mnode_attr g n with Some a => a_sym a | None => None end) (mnodes g).
Proof.
  intros Hnd. unfold msymbols, mnodes. rewrite map_map. apply map_ext_in. intros [n [a ad]] Hin. simpl.
  rewrite (entry_mnode_attr g n a ad Hnd Hin). reflexivity.
Qed.

Theorem finish_symbols gs aam g :
  pattern_ok gs g -> (forall e, In e g -> is_group_attr gs (fst (snd e)) = false) ->
  symbols (finish aam g) = msymbols g.
Proof.
  intros Hg Hfin. destruct (finish_facts gs aam g Hg Hfin) as [[Hr Hnd] [_ [_ Hsym]]].
  assert (Hwf : mwf g) by (destruct Hg as [H _]; exact H).
  assert (Hndg : NoDup (mnodes g)) by (destruct Hwf as [H _]; exact H).
  rewrite (symbols_by_nodes _ Hnd), (msymbols_by_nodes _ Hndg).
  assert (Hn : nodes (finish aam g) = mnodes g).
  { unfold finish. set (g1 := if aam then set_aam_all g else g).
    assert (Hn1 : mnodes g1 = mnodes g) by (unfold g1; destruct aam; [apply mnodes_set_aam_all|reflexivity]).
    destruct (to_simple_nodes_attrs g1) as [H _].
    - rewrite Hn1. exact Hndg.
    - unfold g1. destruct aam; [apply closed_set_aam_all|]; apply mwf_closed; exact Hwf.
    - rewrite H. exact Hn1. }
  rewrite Hn. apply map_ext. intros n. specialize (Hsym n).
  destruct (node_attr (finish aam g) n), (mnode_attr g n); simpl in Hsym; congruence.
Qed.
