(** The shipped Diels-Alder configuration: over the whole enumeration of the model the multiset of
    (atom symbols, bond labels) signatures equals the one the reference expander computes from the
    configuration, no expansion has parallel bonds (nx.Graph(multigraph) loses nothing), by evaluation
    in the kernel (several minutes). *)
From Coq Require Import ZArith List Bool String.
From FGV Require Import Base.Util Base.Bond Base.NX Base.NXMulti Model.Proxy Model.Its Model.ProxyGen
  Spec.ProxyGenSpec Spec.ProxyGenCheck Spec.ProxyRefCheck Gen.ProxyDA.
Import ListNotations.

Lemma DA_pos_signatures : C14_full_okb DA_pos (fst (proxy_all DA_pos)) = true.
Proof. vm_cast_no_check (eq_refl true). Qed.
Lemma DA_neg_signatures : C14_full_okb DA_neg (fst (proxy_all DA_neg)) = true.
Proof. vm_cast_no_check (eq_refl true). Qed.
Lemma DA_no_parallel : C14_parallel_leaf DA_pos = false /\ C14_parallel_leaf DA_neg = false.
Proof. split; vm_cast_no_check (eq_refl false). Qed.
Lemma DA_patterns_ordered : patterns_ordered DA_pos = true /\ patterns_ordered DA_neg = true.
Proof. split; vm_compute; reflexivity. Qed.
