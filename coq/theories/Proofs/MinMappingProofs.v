(** C08 extension: MappingMatrix.min_mapping_symbol (Model/MapMatrix.v) satisfies min_mapping_spec
    (Spec/MinMappingSpec.v) for EVERY row numbering of the matrix; the count of the reported pair does not
    depend on the numbering; the decidable check is sound. *)
From Coq Require Import ZArith List Bool String Lia.
From FGV Require Import Base.Util Base.UtilFacts Base.Bond Base.NX Base.Sym Model.Permute Model.MapMatrix
     Model.Match Model.MapSubgraph2 Spec.Embedding Spec.PermuteSpec Spec.PermuteCheck Spec.MinMappingSpec
     Proofs.PermuteProofs Proofs.PermuteCheckProofs Proofs.MapMatrixProofs.
Import ListNotations.
Open Scope Z_scope.
Open Scope list_scope.

Lemma cell_dec (c d : string * string) : {c = d} + {c <> d}.
Proof. decide equality; apply string_dec. Qed.

(** * sums *)

Lemma zsum_add {A} (f g : A -> Z) l : zsum (fun a => f a + g a) l = zsum f l + zsum g l.
Proof. induction l as [|a l IH]; simpl; [reflexivity|]. rewrite IH. lia. Qed.

Lemma zsum_ext {A} (f g : A -> Z) l : (forall a, In a l -> f a = g a) -> zsum f l = zsum g l.
Proof.
  induction l as [|a l IH]; simpl; intros H; [reflexivity|]. rewrite (H a) by auto. rewrite IH; [reflexivity|].
  intros b Hb. apply H. auto.
Qed.

Lemma zsum_zero {A} (l : list A) : zsum (fun _ => 0) l = 0.
Proof. induction l; simpl; auto. Qed.

Lemma zsum_indicator (f : string -> Z) (x : string) ord : NoDup ord -> In x ord ->
  zsum (fun j => f j * (if String.eqb j x then 1 else 0)) ord = f x.
Proof.
  induction 1 as [|c ord Hni Hnd IH]; intros Hin; [destruct Hin|]. simpl.
  destruct (String.eqb_spec c x) as [->|Hne].
  - rewrite (zsum_ext _ (fun _ => 0)); [rewrite zsum_zero; lia|].
    intros j Hj. destruct (String.eqb_spec j x) as [->|_]; [contradiction|lia].
  - destruct Hin as [->|Hin]; [contradiction|]. rewrite IH by exact Hin. lia.
Qed.

Lemma count_sym_cons c x l : count_sym c (x :: l) = (if String.eqb c x then 1 else 0) + count_sym c l.
Proof. unfold count_sym. simpl. destruct (String.eqb c x); simpl List.length; lia. Qed.

(* sum over the rows j of f j * Counter(l)[j]  =  sum of f over the list l itself *)
Lemma zsum_count (f : string -> Z) ord l : NoDup ord -> (forall x, In x l -> In x ord) ->
  zsum (fun j => f j * count_sym j l) ord = zsum f l.
Proof.
  intros Hnd. induction l as [|x l IH]; intros Hin.
  - simpl. rewrite (zsum_ext _ (fun _ => 0)); [apply zsum_zero|]. intros j _. unfold count_sym. simpl. lia.
  - simpl. rewrite <- IH by (intros y Hy; apply Hin; right; exact Hy).
    rewrite <- (zsum_indicator f x ord Hnd) by (apply Hin; left; reflexivity).
    rewrite <- zsum_add. apply zsum_ext. intros j _. rewrite count_sym_cons. lia.
Qed.

Lemma zsum_bool_length {A} (b : A -> bool) l :
  zsum (fun x => if b x then 1 else 0) l = Z.of_nat (List.length (filter b l)).
Proof. induction l as [|a l IH]; simpl; [reflexivity|]. rewrite IH. destruct (b a); simpl List.length; lia. Qed.

(** * the matrix products *)

Section Products.
  Variable ord : list string.
  Variable m : matrix.
  Variables ps ss : list string.
  Hypothesis Hnd : NoDup ord.
  Hypothesis Hps : forall x, In x ps -> In x ord.
  Hypothesis Hss : forall x, In x ss -> In x ord.

  Lemma row_total_spec i : row_total ord m (fun c => count_sym c ss) i = compat_structs m i ss.
  Proof.
    unfold row_total, compat_structs. rewrite (zsum_count (vcell m i) ord ss Hnd Hss).
    unfold vcell. apply zsum_bool_length.
  Qed.

  Lemma col_total_spec j : col_total ord m (fun c => count_sym c ps) j = compat_patterns m j ps.
  Proof.
    unfold col_total, compat_patterns.
    rewrite (zsum_ext _ (fun i => vcell m i j * count_sym i ps)) by (intros; lia).
    rewrite (zsum_count (fun i => vcell m i j) ord ps Hnd Hps).
    unfold vcell. apply (zsum_bool_length (fun y => cell_mem y j (mm_valid m))).
  Qed.

  Lemma m_cnt_spec c :
    m_cnt ord m (fun c => count_sym c ps) (fun c => count_sym c ss) c = anchor_count m ps ss c.
  Proof.
    unfold m_cnt, anchor_count. rewrite row_total_spec, col_total_spec. unfold vcell.
    destruct (cell_mem (fst c) (snd c) (mm_valid m)); lia.
  Qed.
End Products.

Lemma anchor_count_nonneg m ps ss c : 0 <= anchor_count m ps ss c.
Proof. unfold anchor_count, compat_structs, compat_patterns. destruct (cell_mem _ _ _); lia. Qed.

(** * minimum and first minimal cell *)

Lemma zmin_of_spec : forall l d, In (zmin_of d l) (d :: l) /\ forall y, In y (d :: l) -> zmin_of d l <= y.
Proof.
  induction l as [|x l IH]; intros d; simpl.
  - split; [auto|]. intros y [<-|[]]. lia.
  - destruct (IH (Z.min d x)) as (H1 & H2). split.
    + destruct H1 as [H1|H1]; [|auto]. rewrite <- H1. destruct (Z.min_spec d x) as [[_ ->]|[_ ->]]; auto.
    + intros y [<-|[<-|Hy]].
      * specialize (H2 (Z.min d x) (or_introl eq_refl)). lia.
      * specialize (H2 (Z.min d x) (or_introl eq_refl)). lia.
      * apply H2. right. exact Hy.
Qed.

Lemma all_cells_In ord p s : In (p, s) (all_cells ord) <-> In p ord /\ In s ord.
Proof.
  unfold all_cells. rewrite in_flat_map. split.
  - intros (i & Hi & Hin). apply in_map_iff in Hin. destruct Hin as (j & Heq & Hj). injection Heq as <- <-. auto.
  - intros (Hp & Hs). exists p. split; [exact Hp|]. apply in_map. exact Hs.
Qed.

(* first cell attaining the least non-zero value of a non-negative function *)
Lemma first_min_spec {A} (cnt : A -> Z) (cells : list A) : (forall c, 0 <= cnt c) ->
  match filter (fun x => negb (x =? 0)) (map cnt cells) with
  | [] => forall c, In c cells -> cnt c = 0
  | x :: t => exists c, find (fun c => cnt c =? zmin_of x t) cells = Some c /\ In c cells /\ 0 < cnt c /\
                        forall c', In c' cells -> 0 < cnt c' -> cnt c <= cnt c'
  end.
Proof.
  intros Hnn. destruct (filter _ (map cnt cells)) as [|x t] eqn:E.
  - intros c Hc. destruct (Z.eqb_spec (cnt c) 0) as [H0|H0]; [exact H0|exfalso].
    assert (Hin : In (cnt c) (filter (fun x => negb (x =? 0)) (map cnt cells))).
    { apply filter_In. split; [apply in_map; exact Hc|]. destruct (Z.eqb_spec (cnt c) 0); [contradiction|reflexivity]. }
    rewrite E in Hin. destruct Hin.
  - destruct (zmin_of_spec t x) as (Hmin_in & Hmin_le). rewrite <- E in Hmin_in.
    apply filter_In in Hmin_in. destruct Hmin_in as (Hmap & Hnz). apply in_map_iff in Hmap.
    destruct Hmap as (c0 & Hc0 & Hin0).
    destruct (find (fun c => cnt c =? zmin_of x t) cells) as [c|] eqn:Ef.
    + apply find_some in Ef. destruct Ef as (Hin & Heq). apply Z.eqb_eq in Heq. exists c.
      split; [reflexivity|]. split; [exact Hin|]. split.
      * rewrite Heq. specialize (Hnn c0). destruct (Z.eqb_spec (zmin_of x t) 0); [discriminate|lia].
      * intros c' Hc' Hpos. rewrite Heq. apply Hmin_le. rewrite <- E. apply filter_In.
        split; [apply in_map; exact Hc'|]. destruct (Z.eqb_spec (cnt c') 0); [lia|reflexivity].
    + exfalso. pose proof (find_none _ _ Ef c0 Hin0) as Hn. simpl in Hn. rewrite Hc0, Z.eqb_refl in Hn. discriminate.
Qed.

(** * the specification holds for every numbering *)

Lemma registered_In m l : registered m l = true -> forall x, In x l -> In x (mm_syms m).
Proof. unfold registered. rewrite forallb_forall. intros H x Hx. apply sym_mem_In. apply H. exact Hx. Qed.

Lemma anchor_count_unregistered m ps ss c : mm_wf m ->
  ~ (In (fst c) (mm_syms m) /\ In (snd c) (mm_syms m)) -> anchor_count m ps ss c = 0.
Proof.
  intros Hwf Hn. unfold anchor_count. destruct (cell_mem (fst c) (snd c) (mm_valid m)) eqn:E; [|reflexivity].
  exfalso. apply Hn. apply cell_mem_In in E. apply (Hwf _ _ E).
Qed.

Theorem min_mapping_symbol_spec ord m ps ss :
  set_order ord (mm_syms m) -> mm_wf m ->
  min_mapping_spec m ps ss (min_mapping_symbol ord m ps ss).
Proof.
  intros (Hnd & Hord) Hwf. unfold min_mapping_spec, min_mapping_symbol.
  destruct (List.length ss <? List.length ps)%nat; [reflexivity|].
  unfold setup_vec. fold (registered m ps). fold (registered m ss).
  destruct (registered m ps) eqn:Eps; [|reflexivity].
  destruct (registered m ss) eqn:Ess; [|reflexivity]. cbn [andb negb].
  assert (Hps : forall x, In x ps -> In x ord) by (intros x Hx; apply Hord; apply (registered_In m ps Eps x Hx)).
  assert (Hss : forall x, In x ss -> In x ord) by (intros x Hx; apply Hord; apply (registered_In m ss Ess x Hx)).
  set (cnt := m_cnt ord m (fun c => count_sym c ps) (fun c => count_sym c ss)).
  assert (Hcnt : forall c, cnt c = anchor_count m ps ss c) by (intros c; apply (m_cnt_spec ord m ps ss Hnd Hps Hss)).
  assert (Hnn : forall c, 0 <= cnt c) by (intros c; rewrite Hcnt; apply anchor_count_nonneg).
  pose proof (first_min_spec cnt (all_cells ord) Hnn) as Hfm.
  assert (Hout : forall c, ~ In c (all_cells ord) -> anchor_count m ps ss c = 0).
  { intros [p s] Hn. apply anchor_count_unregistered; [exact Hwf|]. simpl. intros (Hp & Hs). apply Hn.
    apply all_cells_In. split; apply Hord; assumption. }
  destruct (filter _ (map cnt (all_cells ord))) as [|x t].
  - intros c. destruct (in_dec cell_dec c (all_cells ord)) as [Hin|Hin]; [|apply Hout; exact Hin].
    rewrite <- Hcnt. apply Hfm. exact Hin.
  - destruct Hfm as ([p s] & -> & Hin & Hpos & Hmin). apply all_cells_In in Hin. destruct Hin as (Hp & Hs).
    rewrite Hcnt in Hpos. split.
    + unfold is_mapping. apply Hord in Hp. apply Hord in Hs. apply sym_mem_In in Hp. apply sym_mem_In in Hs.
      simpl. rewrite Hp, Hs. simpl. f_equal. unfold anchor_count in Hpos. simpl in Hpos.
      destruct (cell_mem p s (mm_valid m)); [reflexivity|lia].
    + split; [exact Hpos|]. intros c' Hc'.
      destruct (in_dec cell_dec c' (all_cells ord)) as [Hin'|Hin'].
      * rewrite <- !Hcnt. apply Hmin; [exact Hin'|]. rewrite Hcnt. exact Hc'.
      * rewrite (Hout c' Hin') in Hc'. lia.
Qed.

(** * consequences *)

Lemma dsyms_order m : set_order (dsyms m) (mm_syms m).
Proof. unfold set_order, dsyms. split; [apply NoDup_nodup|]. intros x. apply nodup_In. Qed.

(* the reported pair may depend on the numbering, its count does not; errors and None do not either *)
Theorem min_mapping_order_independent ord1 ord2 m ps ss :
  set_order ord1 (mm_syms m) -> set_order ord2 (mm_syms m) -> mm_wf m ->
  match min_mapping_symbol ord1 m ps ss, min_mapping_symbol ord2 m ps ss with
  | MMSOk (Some c1), MMSOk (Some c2) => anchor_count m ps ss c1 = anchor_count m ps ss c2
  | MMSOk None, MMSOk None | MMSValueError, MMSValueError | MMSKeyError, MMSKeyError => True
  | _, _ => False
  end.
Proof.
  intros H1 H2 Hwf.
  pose proof (min_mapping_symbol_spec ord1 m ps ss H1 Hwf) as S1.
  pose proof (min_mapping_symbol_spec ord2 m ps ss H2 Hwf) as S2.
  unfold min_mapping_spec in *.
  destruct (List.length ss <? List.length ps)%nat; [rewrite S1, S2; exact I|].
  destruct (negb (registered m ps && registered m ss)); [rewrite S1, S2; exact I|].
  destruct (min_mapping_symbol ord1 m ps ss) as [| |[c1|]], (min_mapping_symbol ord2 m ps ss) as [| |[c2|]];
    try contradiction; try exact I.
  - destruct S1 as (_ & P1 & M1), S2 as (_ & P2 & M2). specialize (M1 c2 P2). specialize (M2 c1 P1). lia.
  - destruct S1 as (_ & P1 & _). rewrite (S2 c1) in P1. lia.
  - destruct S2 as (_ & P2 & _). rewrite (S1 c2) in P2. lia.
Qed.

(* matrices built by the constructor *)
Lemma mm_init_wf mp psyms ssyms m : mm_init mp psyms ssyms = Some m ->
  mm_wf m /\ mm_syms m = psyms ++ ssyms /\
  forall p s, In (p, s) (mm_valid m) <-> In p psyms /\ In s ssyms /\ single_match mp p s = true.
Proof.
  rewrite mm_init_ok. intros [= <-]. simpl. split; [|split; [reflexivity|]].
  - intros p s Hin. simpl in *. apply valid_cells_In in Hin. rewrite !in_app_iff. tauto.
  - intros p s. apply valid_cells_In.
Qed.

(* for the matrix built from the very lists that are queried (what map_subgraph2 does) the reported
   symbols occur in the lists, the pattern symbol can be mapped to the structure symbol according to the
   mapper, and nothing is reported only if no pattern symbol can be mapped to any structure symbol *)
Theorem min_mapping_init ord mp ps ss m :
  mm_init mp ps ss = Some m -> set_order ord (ps ++ ss) ->
  match min_mapping_symbol ord m ps ss with
  | MMSValueError => (List.length ss < List.length ps)%nat
  | MMSKeyError => False
  | MMSOk None => forall p s, In p ps -> In s ss -> permute mp [p] [s] = []
  | MMSOk (Some c) => In (fst c) ps /\ In (snd c) ss /\ permute mp [fst c] [snd c] <> [] /\ minimal_pair m ps ss c
  end.
Proof.
  intros Hm Hord. destruct (mm_init_wf _ _ _ _ Hm) as (Hwf & Hsyms & Hvalid).
  rewrite <- Hsyms in Hord. pose proof (min_mapping_symbol_spec ord m ps ss Hord Hwf) as S.
  unfold min_mapping_spec in S.
  destruct (Nat.ltb_spec (List.length ss) (List.length ps)) as [Hlt|Hge]; [rewrite S; exact Hlt|].
  assert (Hreg : registered m ps && registered m ss = true).
  { unfold registered. rewrite Hsyms. apply andb_true_iff. split; apply forallb_forall; intros x Hx;
      apply sym_mem_In, in_or_app; auto. }
  rewrite Hreg in S. cbn [negb] in S.
  destruct (min_mapping_symbol ord m ps ss) as [| |[c|]]; try contradiction.
  - destruct S as (Hmap & Hmin). pose proof (proj1 Hmin) as Hpos. unfold anchor_count in Hpos.
    destruct (cell_mem (fst c) (snd c) (mm_valid m)) eqn:E; [|lia]. apply cell_mem_In in E. apply Hvalid in E.
    destruct E as (Hp & Hs & Hsm). split; [exact Hp|]. split; [exact Hs|]. split; [|exact Hmin].
    rewrite single_match_permute in Hsm. destruct (permute mp [fst c] [snd c]); [discriminate|discriminate].
  - intros p s Hp Hs. specialize (S (p, s)). unfold anchor_count in S. simpl in S.
    destruct (cell_mem p s (mm_valid m)) eqn:E.
    + exfalso. unfold compat_structs, compat_patterns in S.
      assert (H1 : In s (filter (fun x => cell_mem p x (mm_valid m)) ss)) by (apply filter_In; auto).
      assert (H2 : In p (filter (fun y => cell_mem y s (mm_valid m)) ps)) by (apply filter_In; auto).
      destruct (filter (fun x => cell_mem p x (mm_valid m)) ss); [destruct H1|].
      destruct (filter (fun y => cell_mem y s (mm_valid m)) ps); [destruct H2|]. simpl List.length in S. lia.
    + destruct (permute mp [p] [s]) eqn:Ep; [reflexivity|exfalso].
      assert (Hsm : single_match mp p s = true) by (rewrite single_match_permute, Ep; reflexivity).
      assert (Hin : In (p, s) (mm_valid m)) by (apply Hvalid; auto). apply cell_mem_In in Hin. congruence.
Qed.

(** * the decidable check *)

Lemma mms_eqb_eq a b : mms_eqb a b = true <-> a = b.
Proof.
  destruct a as [| |[[a1 a2]|]], b as [| |[[b1 b2]|]]; simpl; try (split; [discriminate|congruence]); try tauto.
  rewrite andb_true_iff, !String.eqb_eq. split; [intros [-> ->]; reflexivity | intros [= -> ->]; auto].
Qed.

Lemma minimal_pairb_true m ps ss c : mm_wf m -> minimal_pairb m ps ss c = true -> minimal_pair m ps ss c.
Proof.
  intros Hwf. unfold minimal_pairb. rewrite andb_true_iff, Z.ltb_lt, forallb_forall. intros (Hpos & Hall).
  split; [exact Hpos|]. intros [p s] Hc'.
  destruct (in_dec cell_dec (p, s) (all_cells (dsyms m))) as [Hin|Hin].
  - specialize (Hall _ Hin). apply orb_true_iff in Hall. rewrite !Z.leb_le in Hall. lia.
  - rewrite anchor_count_unregistered in Hc'; [lia | exact Hwf|]. simpl. intros (Hp & Hs). apply Hin.
    apply all_cells_In. destruct (dsyms_order m) as (_ & Ho). split; apply Ho; assumption.
Qed.

Lemma all_zero_true m ps ss : mm_wf m ->
  forallb (fun c => anchor_count m ps ss c =? 0) (all_cells (dsyms m)) = true -> forall c, anchor_count m ps ss c = 0.
Proof.
  intros Hwf H [p s]. rewrite forallb_forall in H.
  destruct (in_dec cell_dec (p, s) (all_cells (dsyms m))) as [Hin|Hin].
  - apply Z.eqb_eq. apply H. exact Hin.
  - apply anchor_count_unregistered; [exact Hwf|]. simpl. intros (Hp & Hs). apply Hin.
    apply all_cells_In. destruct (dsyms_order m) as (_ & Ho). split; apply Ho; assumption.
Qed.

Theorem min_mapping_okb_sound m ps ss r : mm_wf m ->
  min_mapping_okb m ps ss r = true -> min_mapping_spec m ps ss r.
Proof.
  intros Hwf. unfold min_mapping_okb, min_mapping_spec.
  destruct (List.length ss <? List.length ps)%nat; [apply mms_eqb_eq|].
  destruct (negb (registered m ps && registered m ss)); [apply mms_eqb_eq|].
  destruct r as [| |[c|]]; try discriminate.
  - rewrite !andb_true_iff. intros (((Hp & Hs) & Hc) & Hmin). split; [|apply minimal_pairb_true; assumption].
    unfold is_mapping. rewrite Hp, Hs, Hc. reflexivity.
  - apply all_zero_true. exact Hwf.
Qed.

Theorem minmap_okb_sound mp psyms ssyms ps ss r :
  minmap_okb mp psyms ssyms ps ss r = true ->
  exists m, mm_init mp psyms ssyms = Some m /\ min_mapping_spec m ps ss r.
Proof.
  unfold minmap_okb. destruct (mm_init mp psyms ssyms) as [m|] eqn:E; [|discriminate]. intros H.
  exists m. split; [reflexivity|]. apply min_mapping_okb_sound; [|exact H]. apply (mm_init_wf _ _ _ _ E).
Qed.
