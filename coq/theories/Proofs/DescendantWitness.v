(** C05, "no more specific group": the descendant form is FALSE for user-supplied configurations
    whose intermediate group does not list the anchoring atom among its group_atoms.  Witness:
    carbonyl C=O (all atoms), acyl RC=O with group_atoms [1] (the carbon only), ketone RC(R)=O with
    group_atoms [1, 3]; acetone CC(=O)C.  The descent from carbonyl stops at acyl (whose match does
    not put a group atom on the oxygen), although its child ketone is witnessed on the oxygen. *)
From Coq Require Import ZArith List Bool String.
From FGV Require Import Base.Util Base.Bond Base.NX Model.Permute Model.Match Model.FGTree Model.FGDefaultCfg
                        Model.Query Spec.Embedding Spec.FGCheck Spec.QuerySpec Proofs.FGDefaultTree.
Import ListNotations.
Open Scope string_scope.
Open Scope Z_scope.

Definition wit_CO : graph :=
  [(0, (na_sym "C", [(1, Scalar 4)])); (1, (na_sym "O", [(0, Scalar 4)]))].
Definition wit_RCO : graph :=
  [(0, (na_sym "R", [(1, Scalar 2)])); (1, (na_sym "C", [(0, Scalar 2); (2, Scalar 4)]));
   (2, (na_sym "O", [(1, Scalar 4)]))].
Definition wit_RCRO : graph :=
  [(0, (na_sym "R", [(1, Scalar 2)])); (1, (na_sym "C", [(0, Scalar 2); (2, Scalar 2); (3, Scalar 4)]));
   (2, (na_sym "R", [(1, Scalar 2)])); (3, (na_sym "O", [(1, Scalar 4)]))].

Definition wit_cfgs : list fgconfig :=
  [ fgconfig_init "carbonyl" "C=O" wit_CO None [] None ["R"];
    fgconfig_init "acyl" "RC=O" wit_RCO (Some [1]) [] None ["R"];
    fgconfig_init "ketone" "RC(R)=O" wit_RCRO (Some [1; 3]) [] None ["R"] ].

Definition acetone : graph :=
  [(0, (na_sym "C", [(1, Scalar 2)])); (1, (na_sym "C", [(0, Scalar 2); (2, Scalar 4); (3, Scalar 2)]));
   (2, (na_sym "O", [(1, Scalar 4)])); (3, (na_sym "C", [(1, Scalar 2)]))].

Lemma descendant_witness :
  (* the answer of the model (and of the implementation: corpus case of harness/props/c05.py) *)
  query default_mapper wit_cfgs false acetone = Good [("carbonyl", [1; 2])]
  (* the tree: carbonyl -> acyl -> ketone *)
  /\ res_map tree_view (build_config_tree_from_list default_mapper wit_cfgs)
     = Good (["carbonyl"], [("carbonyl", (["acyl"], [])); ("acyl", (["ketone"], ["carbonyl"])); ("ketone", ([], ["acyl"]))])
  (* the child clause holds: the checker with "no CHILD witnessed" accepts *)
  /\ C05_child_okb default_mapper wit_cfgs false acetone (Good [("carbonyl", [1; 2])]) = true
  (* the descendant clause fails: ketone (a descendant of carbonyl) is witnessed on the oxygen, atom 2 *)
  /\ C05_okb default_mapper wit_cfgs false acetone (Good [("carbonyl", [1; 2])]) = false
  /\ witnessedb (Some "R") true acetone (fgconfig_init "ketone" "RC(R)=O" wit_RCRO (Some [1; 3]) [] None ["R"]) 2 = true
  /\ witnessedb (Some "R") true acetone (fgconfig_init "acyl" "RC=O" wit_RCO (Some [1]) [] None ["R"]) 2 = false.
Proof. repeat split; vm_compute; reflexivity. Qed.

(* the witness configuration is in the class of the known finding (both forms), the default
   configuration is outside both *)
Lemma witness_in_class :
  match build_config_tree_from_list default_mapper wit_cfgs with
  | Good tr => partial_group_atoms_classb (Some "R") true tr && path_open_classb (Some "R") true tr
  | Bad _ => false
  end = true.
Proof. vm_compute. reflexivity. Qed.

Lemma default_outside_class : kf_descendant_classb (Some "R") true default_tree_val = false.
Proof. vm_compute. reflexivity. Qed.
