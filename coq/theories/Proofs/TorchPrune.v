(** C18: tensor pruning keeps exactly the nodes within [radius] steps of a start node (start nodes
    included), in ascending order, with the columns and feature rows among them. *)
From Coq Require Import ZArith List Bool String Lia.
From FGV Require Import Base.Util Base.UtilFacts Base.Bond Base.NX
  Model.Torch Spec.PeriodicRef Spec.TorchSpec Proofs.TorchUtil Proofs.TorchBatch Proofs.TorchInduced Proofs.WalkT.
Import ListNotations.
Open Scope Z_scope.

Lemma index_ok_ok n v : 0 <= v < Z.of_nat n -> index_ok n v = Ok tt.
Proof.
  intros H. unfold index_ok. destruct (Z.ltb_spec v 0); [lia|]. destruct (Z.ltb_spec v (Z.of_nat n)); [reflexivity|lia].
Qed.

Lemma adjacency_ok t :
  cols_in_range t -> get_adjacency_matrix t = Ok (adjm (List.length (t_x t)) (t_ei t)).
Proof.
  intros Hr. unfold get_adjacency_matrix.
  rewrite (mapM_map _ (fun _ => tt)).
  - reflexivity.
  - intros p Hp. destruct (Hr p Hp) as [H1 H2]. rewrite (index_ok_ok _ _ H1). simpl. apply index_ok_ok. exact H2.
Qed.

Lemma ssorted_filter_fst {B} (P : Z * B -> bool) (l : list (Z * B)) :
  ssorted (map fst l) -> ssorted (map fst (filter P l)).
Proof.
  induction l as [|[k b] t IH]; simpl; intros H; [exact I|]. destruct H as [H1 H2].
  destruct (P (k, b)); simpl; [|auto]. split; [|auto].
  intros y Hy. apply H1. apply in_map_iff in Hy. destruct Hy as (c & <- & Hc).
  apply filter_In in Hc. apply in_map. tauto.
Qed.

Lemma positive_positions_sorted cp : ssorted (positive_positions cp).
Proof.
  unfold positive_positions. apply ssorted_filter_fst.
  rewrite enumerate_fst. apply (ssorted_zr 0).
Qed.

Lemma positive_positions_In cp v :
  In v (positive_positions cp) <-> 0 <= v /\ exists c, nth_error cp (Z.to_nat v) = Some c /\ 0 < c.
Proof.
  unfold positive_positions. rewrite in_map_iff. split.
  - intros ([v' c] & <- & Hc). apply filter_In in Hc. destruct Hc as [Hin Hpos]. simpl in *.
    apply enumerate_In in Hin. destruct Hin as [H0 Hn]. split; [exact H0|]. exists c. split; [exact Hn|].
    apply Z.ltb_lt. exact Hpos.
  - intros (H0 & c & Hn & Hpos). exists (v, c). split; [reflexivity|]. apply filter_In. split.
    + apply enumerate_In. auto.
    + simpl. apply Z.ltb_lt. exact Hpos.
Qed.

Lemma nth_error_map_seq {A} (F : nat -> A) n k : (k < n)%nat -> nth_error (map F (seq 0 n)) k = Some (F k).
Proof.
  intros Hk. erewrite map_nth_error; [reflexivity|]. rewrite nth_error_nth' with (d := 0%nat) by (rewrite seq_length; exact Hk).
  rewrite seq_nth by exact Hk. reflexivity.
Qed.

(** the kept node list *)
Theorem reachable_ok t start radius :
  cols_in_range t ->
  (forall s, In s start -> 0 <= s < Z.of_nat (List.length (t_x t))) ->
  exists r, reachable_nodes t start radius = Ok r /\ ssorted r /\
    forall v, In v r <-> 0 <= v < Z.of_nat (List.length (t_x t)) /\ reach t start (Z.to_nat radius) v.
Proof.
  intros Hr Hs. unfold reachable_nodes. rewrite (adjacency_ok t Hr). cbn [bind].
  rewrite (mapM_map _ (fun _ => tt)) by (intros s Hin; apply index_ok_ok; apply Hs; exact Hin).
  cbn [bind]. eexists. split; [reflexivity|]. split; [apply positive_positions_sorted|].
  set (n := List.length (t_x t)).
  set (dsum := power_sum n (adjm n (t_ei t)) (Z.to_nat radius) (eye n) (eye n)).
  pose proof (power_sum_walks n (t_ei t) Hr (Z.to_nat radius)) as Hok. fold dsum in Hok.
  intros v. rewrite positive_positions_In. unfold center_paths. split.
  - intros (H0 & c & Hn & Hpos).
    assert (Hv : (Z.to_nat v < n)%nat).
    { match type of Hn with nth_error ?l _ = _ =>
        assert (Hl : (Z.to_nat v < List.length l)%nat) by (apply nth_error_Some; congruence) end.
      rewrite map_length, seq_length in Hl. exact Hl. }
    rewrite nth_error_map_seq in Hn by exact Hv. injection Hn as <-.
    split; [lia|].
    apply sum_list_pos in Hpos.
    + destruct Hpos as (x & Hx & Hx0). apply in_map_iff in Hx. destruct Hx as (s & <- & Hin).
      specialize (Hs s Hin).
      destruct (Hok (Z.to_nat s) (Z.to_nat v)) as [_ Hiff]; [lia | exact Hv|].
      apply Hiff in Hx0. destruct Hx0 as (q & Hq & Hw). exists s, q. split; [exact Hin|]. split; [exact Hq|].
      unfold WK in Hw. rewrite !Z2Nat.id in Hw by lia. exact Hw.
    + intros x Hx. apply in_map_iff in Hx. destruct Hx as (s & <- & Hin). specialize (Hs s Hin).
      apply (Hok (Z.to_nat s) (Z.to_nat v)); [lia | exact Hv].
  - intros (Hv & s & q & Hin & Hq & Hw). split; [lia|].
    assert (Hvn : (Z.to_nat v < n)%nat) by (unfold n; lia).
    eexists. split; [apply nth_error_map_seq; exact Hvn|].
    apply sum_list_pos.
    + intros x Hx. apply in_map_iff in Hx. destruct Hx as (s' & <- & Hin'). specialize (Hs s' Hin').
      apply (Hok (Z.to_nat s') (Z.to_nat v)); [lia | exact Hvn].
    + exists (mget dsum (Z.to_nat s) (Z.to_nat v)). split; [apply in_map_iff; exists s; auto|].
      specialize (Hs s Hin).
      destruct (Hok (Z.to_nat s) (Z.to_nat v)) as [_ Hiff]; [lia | exact Hvn|].
      apply Hiff. exists q. split; [exact Hq|]. unfold WK. rewrite !Z2Nat.id by lia. exact Hw.
Qed.

(** * the pruned tensors *)
Theorem torch_prune_ok t start radius :
  cols_in_range t ->
  (forall s, In s start -> 0 <= s < Z.of_nat (List.length (t_x t))) ->
  (t_ea t = None \/ exists ea, t_ea t = Some ea /\ List.length ea = List.length (t_ei t)) ->
  exists t', prune t start radius = Ok t' /\ prune_spec t start radius t'.
Proof.
  intros Hr Hs Hea. destruct (reachable_ok t start radius Hr Hs) as (r & Hreach & Hss & Hin).
  unfold prune. rewrite Hreach. cbn [bind].
  pose proof (ssorted_NoDup r Hss) as Hnd.
  assert (Hx : mapM (nth_res (t_x t)) r = Ok (map (fun v => nth (Z.to_nat v) (t_x t) []) r)).
  { apply mapM_map. intros v Hv. apply nth_res_ok. apply Hin in Hv. tauto. }
  assert (Hkeep : forall p : Z * Z, (zmem (fst p) r && zmem (snd p) r) = both_in r p) by reflexivity.
  exists (induced_tensor t r). split.
  - destruct Hea as [Hnone|(ea & Hsome & Hlen)].
    + rewrite Hnone, Hx. cbn [bind]. unfold induced_tensor. rewrite Hnone. cbn [option_map]. do 2 f_equal.
      apply map_ext_in. intros p Hp. apply filter_In in Hp. destruct Hp as [_ Hp].
      apply (renum_ok r p Hnd). exact Hp.
    + rewrite Hsome, Hx. cbn [bind]. unfold induced_tensor. rewrite Hsome. cbn [option_map]. do 2 f_equal.
      rewrite <- (filter_combine_fst (both_in r) (t_ei t) ea) by (symmetry; exact Hlen).
      rewrite map_map. apply map_ext_in. intros c Hc. apply filter_In in Hc. destruct Hc as [_ Hc].
      apply (renum_ok r (fst c) Hnd). exact Hc.
  - exists r. split; [apply ssorted_ascending; exact Hss|]. split; [exact Hin | reflexivity].
Qed.

(** pruning is the node-induced subgraph on the kept nodes *)
Corollary prune_is_node_induced t start radius r :
  cols_in_range t ->
  (forall s, In s start -> 0 <= s < Z.of_nat (List.length (t_x t))) ->
  t_ea t = None ->
  reachable_nodes t start radius = Ok r -> r <> [] ->
  prune t start radius = node_induced_subgraph t r.
Proof.
  intros Hr Hs Hnone Hreach Hne.
  destruct (reachable_ok t start radius Hr Hs) as (r' & Hreach' & Hss & Hin).
  rewrite Hreach in Hreach'. injection Hreach' as <-.
  destruct (torch_prune_ok t start radius Hr Hs (or_introl Hnone)) as (t' & Hp & (r2 & _ & _ & _)).
  rewrite (node_induced_ok t r (ssorted_NoDup r Hss) Hne); [|intros v Hv; apply Hin in Hv; tauto | left; exact Hnone].
  unfold prune. rewrite Hreach. cbn [bind]. rewrite Hnone.
  assert (Hx : mapM (nth_res (t_x t)) r = Ok (map (fun v => nth (Z.to_nat v) (t_x t) []) r)).
  { apply mapM_map. intros v Hv. apply nth_res_ok. apply Hin in Hv. tauto. }
  rewrite Hx. cbn [bind]. unfold induced_tensor. rewrite Hnone. cbn [option_map]. do 2 f_equal.
  apply map_ext_in. intros p Hp'. apply filter_In in Hp'. destruct Hp' as [_ Hp'].
  apply (renum_ok r p (ssorted_NoDup r Hss)). exact Hp'.
Qed.
