(** C13 for simple graphs: the model of fgutils.proxy.replace_node satisfies the specification
    Spec/ProxySpec.v for every input that meets the explicit hypotheses [replace_pre]. *)
From Coq Require Import ZArith List Bool String Lia Sorting.Sorted Sorting.Permutation.
From FGV Require Import Base.Util Base.UtilFacts Base.Bond Base.NX Base.NXFacts Base.NXMulti
  Model.Proxy Spec.ProxySpec Proofs.NXComposeFacts.
Import ListNotations.
Open Scope Z_scope.

(** * sorted(nodes) and the renumbering *)

Lemma In_zinsert x y l : In x (zinsert y l) <-> x = y \/ In x l.
Proof.
  induction l as [|z t IH]; simpl; [intuition|].
  destruct (y <=? z); simpl; [intuition|]. rewrite IH. intuition.
Qed.

Lemma zinsert_sorted x l : StronglySorted Z.lt l -> ~ In x l -> StronglySorted Z.lt (zinsert x l).
Proof.
  induction l as [|y t IH]; intros Hs Hni; simpl.
  - constructor; constructor.
  - apply StronglySorted_inv in Hs. destruct Hs as [Hst Hall].
    destruct (Z.leb_spec x y) as [Hle|Hgt].
    + assert (x < y) by (assert (x <> y) by (intros ->; apply Hni; left; reflexivity); lia).
      constructor; [constructor; assumption|]. constructor; [assumption|].
      rewrite Forall_forall in *. intros z Hz. specialize (Hall z Hz). lia.
    + constructor.
      * apply IH; [exact Hst|]. intros Hin. apply Hni. right. exact Hin.
      * rewrite Forall_forall in *. intros z Hz. apply In_zinsert in Hz.
        destruct Hz as [->|Hz]; [lia|apply Hall; exact Hz].
Qed.

Lemma In_zsort x l : In x (zsort l) <-> In x l.
Proof.
  induction l as [|y t IH]; simpl; [reflexivity|]. rewrite In_zinsert, IH. intuition.
Qed.

Lemma zsort_sorted l : NoDup l -> StronglySorted Z.lt (zsort l).
Proof.
  induction 1 as [|x t Hni Hnd IH]; simpl; [constructor|].
  apply zinsert_sorted; [exact IH|]. rewrite In_zsort. exact Hni.
Qed.

Lemma sorted_unique l1 : forall l2,
  StronglySorted Z.lt l1 -> StronglySorted Z.lt l2 -> (forall x, In x l1 <-> In x l2) -> l1 = l2.
Proof.
  induction l1 as [|a t1 IH]; intros l2 H1 H2 Heq.
  - destruct l2 as [|b t2]; [reflexivity|]. exfalso. apply (Heq b). left. reflexivity.
  - destruct l2 as [|b t2]; [exfalso; apply (Heq a); left; reflexivity|].
    apply StronglySorted_inv in H1. destruct H1 as [Hs1 Ha1].
    apply StronglySorted_inv in H2. destruct H2 as [Hs2 Ha2].
    rewrite Forall_forall in Ha1, Ha2.
    assert (a = b).
    { assert (Hab : In a (b :: t2)) by (apply Heq; left; reflexivity).
      assert (Hba : In b (a :: t1)) by (apply Heq; left; reflexivity).
      destruct Hab as [->|Hab]; [reflexivity|]. destruct Hba as [->|Hba]; [reflexivity|].
      specialize (Ha1 _ Hba). specialize (Ha2 _ Hab). lia. }
    subst b. f_equal. apply IH; [exact Hs1|exact Hs2|].
    intros x. split; intros Hx.
    + assert (Hx' : In x (a :: t2)) by (apply Heq; right; exact Hx).
      destruct Hx' as [->|Hx']; [|exact Hx']. specialize (Ha1 _ Hx). lia.
    + assert (Hx' : In x (a :: t1)) by (apply Heq; right; exact Hx).
      destruct Hx' as [->|Hx']; [|exact Hx']. specialize (Ha2 _ Hx). lia.
Qed.

Definition unrenum (node i : Z) : Z := if i <? node then i else i + 1.

Ltac zb := repeat match goal with |- context [?a <? ?b] => destruct (Z.ltb_spec a b) end; try lia.

Lemma renum_unrenum node i : renum node (unrenum node i) = i.
Proof. unfold renum, unrenum. zb. Qed.

Lemma unrenum_renum node x : x <> node -> unrenum node (renum node x) = x.
Proof. unfold renum, unrenum. intros H. zb. Qed.

Lemma unrenum_mono node i j : i < j -> unrenum node i < unrenum node j.
Proof. unfold unrenum. destruct (Z.ltb_spec i node); destruct (Z.ltb_spec j node); lia. Qed.

Lemma renum_inj node x y : x <> node -> y <> node -> renum node x = renum node y -> x = y.
Proof. unfold renum. destruct (Z.ltb_spec x node); destruct (Z.ltb_spec y node); lia. Qed.

Lemma mono_map_sorted (phi : Z -> Z) c : forall s,
  (forall i j, i < j -> phi i < phi j) ->
  StronglySorted Z.lt (map (fun i => phi (Z.of_nat i)) (seq s c)).
Proof.
  induction c as [|c IH]; intros s Hm; simpl; [constructor|].
  constructor; [apply IH; exact Hm|].
  rewrite Forall_forall. intros z Hz. apply in_map_iff in Hz. destruct Hz as (j & <- & Hj).
  apply in_seq in Hj. apply Hm. lia.
Qed.

Lemma alookup_combine_seq (phi psi : nat -> Z) c : forall s i,
  (forall a b, phi a = phi b -> a = b) -> (s <= i < s + c)%nat ->
  alookup (phi i) (combine (map phi (seq s c)) (map psi (seq s c))) = Some (psi i).
Proof.
  induction c as [|c IH]; intros s i Hinj Hi; [lia|].
  simpl. destruct (Z.eqb_spec (phi i) (phi s)) as [E|E].
  - apply Hinj in E. subst. reflexivity.
  - apply IH; [exact Hinj|]. assert (i <> s) by (intros ->; apply E; reflexivity). lia.
Qed.

Lemma relabel_mapping_renum ns node n :
  NoDup ns -> (forall x, In x ns <-> (0 <= x < n /\ x <> node)) -> 0 <= node < n ->
  forall x, In x ns -> alookup x (relabel_mapping ns 0) = Some (renum node x).
Proof.
  intros Hnd Hset Hnode x Hx.
  set (c := Z.to_nat (n - 1)).
  set (phi := fun i : nat => unrenum node (Z.of_nat i)).
  assert (Hcanon : zsort ns = map phi (seq 0 c)).
  { apply sorted_unique.
    - apply zsort_sorted. exact Hnd.
    - apply (mono_map_sorted (unrenum node) c 0%nat). apply unrenum_mono.
    - intros y. rewrite In_zsort, Hset, in_map_iff. split.
      + intros [Hy Hne]. exists (Z.to_nat (renum node y)). split.
        * unfold phi. rewrite Z2Nat.id; [apply unrenum_renum; exact Hne|].
          unfold renum. destruct (Z.ltb_spec y node); lia.
        * apply in_seq. unfold c, renum. destruct (Z.ltb_spec y node); lia.
      + intros (i & <- & Hi). apply in_seq in Hi. unfold phi, unrenum, c in *.
        destruct (Z.ltb_spec (Z.of_nat i) node); lia. }
  unfold relabel_mapping. rewrite Hcanon, map_length, seq_length.
  apply Hset in Hx. destruct Hx as [Hx Hne].
  assert (Hr : 0 <= renum node x < n - 1) by (unfold renum; destruct (Z.ltb_spec x node); lia).
  replace x with (phi (Z.to_nat (renum node x))) at 1
    by (unfold phi; rewrite Z2Nat.id by lia; apply unrenum_renum; exact Hne).
  rewrite (alookup_combine_seq phi (fun i => Z.of_nat i + 0) c 0 (Z.to_nat (renum node x))).
  - f_equal. rewrite Z2Nat.id by lia. lia.
  - intros a b Hab. unfold phi in Hab.
    assert (Z.of_nat a = Z.of_nat b).
    { rewrite <- (renum_unrenum node (Z.of_nat a)), <- (renum_unrenum node (Z.of_nat b)), Hab. reflexivity. }
    lia.
  - unfold c. lia.
Qed.

(** * the attach loop is add_edges_from *)

Lemma anchor_at_of anchors i : anchors <> [] -> anchor_at anchors i = Some (anchor_of anchors i).
Proof.
  intros Hne. unfold anchor_at, anchor_of.
  assert (Hlen : (0 < List.length anchors)%nat) by (destruct anchors; [congruence|simpl; lia]).
  destruct (Nat.leb_spec (List.length anchors) i) as [Hle|Hgt].
  - destruct (Z.ltb_spec (Z.of_nat (List.length anchors) - 1) 0) as [Hneg|_]; [lia|].
    replace (Z.to_nat (Z.of_nat (List.length anchors) - 1)) with (List.length anchors - 1)%nat by lia.
    rewrite Nat.min_r by lia. apply nth_error_nth'. lia.
  - destruct (Z.ltb_spec (Z.of_nat i) 0) as [Hneg|_]; [lia|].
    rewrite Nat2Z.id, Nat.min_l by lia. apply nth_error_nth'. lia.
Qed.

Lemma anchor_of_In anchors i : anchors <> [] -> In (anchor_of anchors i) anchors.
Proof.
  intros Hne. unfold anchor_of. apply nth_In.
  assert (Hlen : (0 < List.length anchors)%nat) by (destruct anchors; [congruence|simpl; lia]).
  lia.
Qed.

Definition attach_edges (off : Z) (anchors : list Z) (inc : list (Z * Z * label)) (i : nat)
  : list (Z * Z * label) :=
  map (fun p => (off + anchor_of anchors (fst p), snd (fst (snd p)), snd (snd p)))
      (combine (seq i (List.length inc)) inc).

Lemma attach_eq off anchors : anchors <> [] -> forall inc g i,
  attach g off anchors inc i = POk (add_edges_from g (attach_edges off anchors inc i)).
Proof.
  intros Hne. induction inc as [|[[w v] l] t IH]; intros g i; [reflexivity|].
  cbn [attach]. rewrite (anchor_at_of _ _ Hne), IH. reflexivity.
Qed.

Lemma In_attach_edges off anchors inc : forall i u v l,
  In (u, v, l) (attach_edges off anchors inc i) <->
  exists j w, nth_error inc j = Some (w, v, l) /\ u = off + anchor_of anchors (i + j).
Proof.
  unfold attach_edges. induction inc as [|[[w0 v0] l0] t IH]; intros i u v l.
  - simpl. split; [intros []|]. intros (j & w & H & _). destruct j; discriminate.
  - cbn [List.length seq combine map fst snd In]. rewrite IH. split.
    + intros [[= <- <- <-]|(j & w & Hj & ->)].
      * exists 0%nat, w0. rewrite Nat.add_0_r. split; reflexivity.
      * exists (S j), w. split; [exact Hj|]. f_equal. f_equal. lia.
    + intros ([|j] & w & Hj & ->).
      * left. cbn [nth_error] in Hj. injection Hj as -> -> ->. rewrite Nat.add_0_r. reflexivity.
      * right. exists j, w. split; [exact Hj|]. f_equal. f_equal. lia.
Qed.

Lemma nth_error_incident g node j w v l :
  nth_error (incident g node) j = Some (w, v, l) -> w = node /\ In (v, l) (adj g node).
Proof.
  unfold incident. intros H. apply nth_error_In in H. apply in_map_iff in H.
  destruct H as ([v' l'] & [= <- <- <-] & Hin). auto.
Qed.

Lemma In_nth_error_incident g node v l :
  In (v, l) (adj g node) -> exists j, nth_error (incident g node) j = Some (node, v, l).
Proof.
  intros H. apply (in_map (fun '(v, l) => (node, v, l))) in H. apply In_nth_error in H. exact H.
Qed.

(** * main theorem *)

Lemma number_of_nodes_nonneg g : 0 <= number_of_nodes g.
Proof. unfold number_of_nodes. lia. Qed.

Theorem replace_node_spec g node h anchors :
  replace_pre g node h anchors ->
  exists g', replace_node g node h anchors = POk g' /\ replace_spec g node h anchors g'.
Proof.
  intros (Hg & Hh & Rg & Rh & Hnode & Hanch).
  unfold replace_spec, replace_node. cbv zeta.
  pose proof (number_of_nodes_nonneg g) as Hm0. pose proof (number_of_nodes_nonneg h) as Hk0.
  set (m := number_of_nodes g) in *. set (k := number_of_nodes h) in *.
  set (r := renum node).
  (* membership in terms of ranges *)
  assert (Hgn : forall x, has_node g x = true <-> 0 <= x < m).
  { intros x. rewrite has_node_In. apply Rg. }
  assert (Hhn : forall x, has_node h x = true <-> m <= x < m + k).
  { intros x. rewrite has_node_In. apply Rh. }
  assert (Hgn' : forall x, ~ (0 <= x < m) -> has_node g x = false).
  { intros x Hx. destruct (has_node g x) eqn:E; [|reflexivity]. apply Hgn in E. contradiction. }
  assert (Hhn' : forall x, ~ (m <= x < m + k) -> has_node h x = false).
  { intros x Hx. destruct (has_node h x) eqn:E; [|reflexivity]. apply Hhn in E. contradiction. }
  assert (Hnode_in : has_node g node = true) by (apply Hgn; exact Hnode).
  rewrite Hnode_in. cbn [negb].
  (* compose *)
  set (g1 := compose g h).
  assert (W1 : wf g1) by apply wf_compose.
  assert (N1 : forall x, has_node g1 x = true <-> 0 <= x < m + k).
  { intros x. unfold g1. rewrite (has_node_compose g h Hg Hh), orb_true_iff, Hgn, Hhn. lia. }
  assert (A1g : forall x, 0 <= x < m -> node_attr g1 x = node_attr g x).
  { intros x Hx. unfold g1. rewrite (node_attr_compose g h Hg Hh).
    rewrite (has_node_false_attr h x); [reflexivity|]. apply Hhn'. lia. }
  assert (A1h : forall x, m <= x < m + k -> node_attr g1 x = node_attr h x).
  { intros x Hx. unfold g1. rewrite (node_attr_compose g h Hg Hh).
    rewrite (has_node_false_attr g x); [|apply Hgn'; lia].
    destruct (node_attr h x); reflexivity. }
  assert (E1 : forall x y, edge_label g1 x y =
                match edge_label h x y with Some l => Some l | None => edge_label g x y end).
  { intros x y. unfold g1. apply edge_label_compose; assumption. }
  (* the attached edges *)
  set (inc := incident g node).
  set (AE := if 0 <? k then attach_edges m anchors inc 0 else []).
  set (g2 := add_edges_from g1 AE).
  assert (Hatt : (if 0 <? k then attach g1 m anchors inc 0 else POk g1) = POk g2).
  { unfold g2, AE. destruct (Z.ltb_spec 0 k) as [Hk|Hk]; [|reflexivity].
    destruct (Hanch Hk) as [Hne _]. apply attach_eq. exact Hne. }
  rewrite Hatt.
  assert (HAE : forall u v l, In (u, v, l) AE ->
            0 < k /\ m <= u < m + k /\ 0 <= v < m /\ edge_label g node v = Some l
            /\ exists j, nth_error inc j = Some (node, v, l) /\ u = m + anchor_of anchors j).
  { intros u v l Hin. unfold AE in Hin. destruct (Z.ltb_spec 0 k) as [Hk|Hk]; [|contradiction].
    destruct (Hanch Hk) as [Hne Hall].
    apply In_attach_edges in Hin. destruct Hin as (j & w & Hj & ->). rewrite Nat.add_0_l.
    destruct (nth_error_incident _ _ _ _ _ _ Hj) as [-> Hadj].
    pose proof (In_adj_edge_label _ _ _ _ Hg Hadj) as Hel.
    destruct (wf_edge_nodes _ _ _ _ Hg Hel) as [_ Hv]. apply Hgn in Hv.
    rewrite Forall_forall in Hall. pose proof (Hall _ (anchor_of_In anchors j Hne)) as Ha.
    split; [exact Hk|]. split; [lia|]. split; [exact Hv|]. split; [exact Hel|].
    exists j. auto. }
  assert (EP : endpoints_in g1 AE).
  { intros u v l Hin. destruct (HAE _ _ _ Hin) as (_ & Hu & Hv & _). split; apply N1; lia. }
  destruct (add_edges_from_existing _ _ EP) as (_ & A2 & N2). fold g2 in A2, N2.
  assert (W2 : wf g2) by (apply wf_add_edges_from; exact W1).
  assert (E2 : forall x y, edge_label g2 x y =
                match elast AE x y with Some l => Some l | None => edge_label g1 x y end).
  { intros x y. unfold g2. apply edge_label_add_edges_from. }
  (* remove the node *)
  set (g3 := remove_node g2 node).
  assert (W3 : wf g3) by (apply wf_remove_node; exact W2).
  assert (N3 : forall x, In x (nodes g3) <-> (0 <= x < m + k /\ x <> node)).
  { intros x. rewrite <- has_node_In. unfold g3. rewrite has_node_remove_node, andb_true_iff, N2, N1.
    rewrite negb_true_iff, Z.eqb_neq. tauto. }
  (* renumber *)
  assert (Hrel : relabel_graph g3 0 = relabel r g3).
  { unfold relabel_graph, relabel_map. apply relabel_ext; [exact W3|]. intros x Hx.
    rewrite (relabel_mapping_renum (nodes g3) node (m + k)); [reflexivity| | |lia|exact Hx].
    - apply W3.
    - exact N3. }
  rewrite Hrel. set (g4 := relabel r g3).
  assert (Rinj : forall x y, In x (nodes g3) -> In y (nodes g3) -> r x = r y -> x = y).
  { intros x y Hx Hy. apply N3 in Hx. apply N3 in Hy. apply renum_inj; tauto. }
  assert (A4 : forall x, 0 <= x < m + k -> x <> node -> node_attr g4 (r x) = node_attr g2 x).
  { intros x Hx Hne. unfold g4. rewrite (node_attr_relabel r g3 W3 Rinj); [|apply N3; auto].
    unfold g3. rewrite node_attr_remove_node. destruct (Z.eqb_spec x node); [contradiction|reflexivity]. }
  assert (E4 : forall x y, 0 <= x < m + k -> x <> node -> 0 <= y < m + k -> y <> node ->
                edge_label g4 (r x) (r y) = edge_label g2 x y).
  { intros x y Hx Hxn Hy Hyn. unfold g4.
    rewrite (edge_label_relabel r g3 W3 Rinj); [|apply N3; auto|apply N3; auto].
    unfold g3. rewrite edge_label_remove_node.
    destruct (Z.eqb_spec x node); [contradiction|]. destruct (Z.eqb_spec y node); [contradiction|]. reflexivity. }
  (* no attached edge inside the parent or inside the sub-pattern *)
  assert (NoAE : forall x y, (0 <= x < m /\ 0 <= y < m) \/ (m <= x /\ m <= y) -> elast AE x y = None).
  { intros x y Hxy. destruct (elast AE x y) as [l|] eqn:E; [|reflexivity]. exfalso.
    destruct (elast_Some _ _ _ _ E) as (u & v & Hin & Hm).
    destruct (HAE _ _ _ Hin) as (_ & Hu & Hv & _). apply ematch_true in Hm. lia. }
  exists g4. split; [reflexivity|].
  split; [unfold g4; apply wf_relabel|].
  split.
  { (* ids *)
    intros z. unfold g4. rewrite (In_nodes_relabel r g3 W3). split.
    - intros (x & Hx & ->). apply N3 in Hx. unfold r, renum. destruct (Z.ltb_spec x node); lia.
    - intros Hz. exists (unrenum node z). split; [|unfold r; rewrite renum_unrenum; reflexivity].
      apply N3. unfold unrenum. destruct (Z.ltb_spec z node); lia. }
  split.
  { intros x Hx Hne. rewrite A4 by lia. rewrite A2. apply A1g. exact Hx. }
  split.
  { intros x Hx. rewrite A4 by lia. rewrite A2. apply A1h. exact Hx. }
  split.
  { intros x y Hx Hy Hxn Hyn. rewrite E4 by lia. rewrite E2, NoAE by lia. rewrite E1.
    rewrite (edge_label_no_node h x y); [reflexivity|]. apply Hhn'. lia. }
  split.
  { intros x y Hx Hy. rewrite E4 by lia. rewrite E2, NoAE by lia. rewrite E1.
    destruct (edge_label h x y); [reflexivity|]. apply edge_label_no_node. apply Hgn'. lia. }
  { intros x y l Hx Hy Hyn. rewrite E4 by lia. rewrite E2.
    assert (G1 : edge_label g1 x y = None).
    { rewrite E1. rewrite (wf_edge_label_no_node_r h x y Hh); [|apply Hhn'; lia].
      apply edge_label_no_node. apply Hgn'. lia. }
    rewrite G1. split.
    - intros Hl. destruct (elast AE x y) as [l'|] eqn:E; [|discriminate]. injection Hl as ->.
      destruct (elast_Some _ _ _ _ E) as (u & v & Hin & Hm).
      destruct (HAE _ _ _ Hin) as (_ & Hu & Hv & _ & j & Hj & Hu').
      apply ematch_true in Hm. destruct Hm as [[-> ->]|[-> ->]]; [|lia].
      exists j. split; [exact Hj|exact Hu'].
    - intros (i & Hi & Hxi).
      assert (Hk : 0 < k) by lia. destruct (Hanch Hk) as [Hne _].
      assert (Hin : In (x, y, l) AE).
      { unfold AE. destruct (Z.ltb_spec 0 k); [|lia]. apply In_attach_edges.
        exists i, node. rewrite Nat.add_0_l. auto. }
      destruct (elast AE x y) as [l'|] eqn:E.
      + destruct (elast_Some _ _ _ _ E) as (u & v & Hin' & Hm).
        destruct (HAE _ _ _ Hin') as (_ & Hu & Hv & Hel' & _).
        apply ematch_true in Hm. destruct Hm as [[-> ->]|[-> ->]]; [|lia].
        destruct (HAE _ _ _ Hin) as (_ & _ & _ & Hel & _). congruence.
      + pose proof (elast_None _ _ _ E _ _ _ Hin) as Hm.
        assert (ematch x y x y = true) by (apply ematch_true; auto). congruence. }
Qed.

(** * relabel_graph always produces the ids 0..n-1 (no hypothesis on the input ids) *)

Lemma alookup_combine_nth (psi : nat -> Z) s : forall st i x,
  NoDup s -> nth_error s i = Some x ->
  alookup x (combine s (map psi (seq st (List.length s)))) = Some (psi (st + i)%nat).
Proof.
  induction s as [|a t IH]; intros st i x Hnd Hi; [destruct i; discriminate|].
  inversion Hnd as [|? ? Hni Hnd']; subst. cbn [List.length seq map combine alookup].
  destruct i as [|i]; cbn [nth_error] in Hi.
  - injection Hi as ->. rewrite Z.eqb_refl, Nat.add_0_r. reflexivity.
  - destruct (Z.eqb_spec x a) as [->|Hne]; [exfalso; apply Hni; eapply nth_error_In; eauto|].
    rewrite (IH (S st) i x Hnd' Hi). f_equal. f_equal. lia.
Qed.

Lemma zinsert_length x l : List.length (zinsert x l) = S (List.length l).
Proof. induction l as [|y t IH]; simpl; [reflexivity|]. destruct (x <=? y); simpl; [reflexivity|]. rewrite IH. reflexivity. Qed.

Lemma zsort_length l : List.length (zsort l) = List.length l.
Proof. induction l as [|x t IH]; simpl; [reflexivity|]. rewrite zinsert_length, IH. reflexivity. Qed.

Lemma sorted_lt_NoDup l : StronglySorted Z.lt l -> NoDup l.
Proof.
  induction 1 as [|a t Hs IH Hall]; constructor; [|exact IH].
  intros Hin. rewrite Forall_forall in Hall. specialize (Hall _ Hin). lia.
Qed.

Definition rank_fun (ns : list Z) : Z -> Z :=
  fun n => match alookup n (relabel_mapping ns 0) with Some x => x | None => n end.

Lemma rank_fun_spec ns : NoDup ns ->
  (forall x, In x ns -> exists i, nth_error (zsort ns) i = Some x /\ rank_fun ns x = Z.of_nat i)
  /\ (forall i x, nth_error (zsort ns) i = Some x -> In x ns /\ rank_fun ns x = Z.of_nat i).
Proof.
  intros Hnd. pose proof (sorted_lt_NoDup _ (zsort_sorted _ Hnd)) as Hnds.
  assert (Hkey : forall i x, nth_error (zsort ns) i = Some x -> rank_fun ns x = Z.of_nat i).
  { intros i x Hi. unfold rank_fun, relabel_mapping.
    rewrite (alookup_combine_nth (fun i => Z.of_nat i + 0) (zsort ns) 0 i x Hnds Hi). simpl. lia. }
  split.
  - intros x Hx. apply In_zsort in Hx. apply In_nth_error in Hx. destruct Hx as (i & Hi).
    exists i. split; [exact Hi|]. apply Hkey. exact Hi.
  - intros i x Hi. split; [|apply Hkey; exact Hi]. apply In_zsort. eapply nth_error_In; eauto.
Qed.

Lemma relabel_graph_ids g : wf g -> ids_range (nodes (relabel_graph g 0)) 0 (number_of_nodes g).
Proof.
  intros Hwf. pose proof Hwf as (Hnd & _).
  destruct (rank_fun_spec _ Hnd) as [R1 R2].
  assert (Hlen : List.length (zsort (nodes g)) = List.length g).
  { rewrite zsort_length. unfold nodes. apply map_length. }
  intros z. unfold relabel_graph, relabel_map. fold (rank_fun (nodes g)).
  rewrite (In_nodes_relabel _ g Hwf). unfold number_of_nodes. split.
  - intros (x & Hx & ->). destruct (R1 x Hx) as (i & Hi & ->).
    assert (i < List.length (zsort (nodes g)))%nat by (apply nth_error_Some; congruence). lia.
  - intros Hz. destruct (nth_error (zsort (nodes g)) (Z.to_nat z)) as [x|] eqn:E.
    + destruct (R2 _ _ E) as [Hx Hr]. exists x. split; [exact Hx|]. rewrite Hr. lia.
    + apply nth_error_None in E. lia.
Qed.

Lemma attach_wf off anchors inc : forall g i g2,
  wf g -> attach g off anchors inc i = POk g2 -> wf g2.
Proof.
  induction inc as [|[[w v] l] t IH]; intros g i g2 Hwf H; cbn [attach] in H.
  - injection H as <-. exact Hwf.
  - destruct (anchor_at anchors i) as [a|]; [|discriminate].
    eapply IH; [|exact H]. apply wf_add_edge. exact Hwf.
Qed.

Lemma ids_range_length l n : NoDup l -> ids_range l 0 n -> Z.of_nat (List.length l) = Z.max 0 n.
Proof.
  intros Hnd Hr.
  set (c := map Z.of_nat (seq 0 (Z.to_nat n))).
  assert (Hc : NoDup c).
  { unfold c. apply NoDup_map_inj_in; [intros x y _ _ H; lia|apply seq_NoDup]. }
  assert (Hp : Permutation l c).
  { apply NoDup_Permutation; [exact Hnd|exact Hc|]. intros x. rewrite (Hr x). unfold c.
    rewrite in_map_iff. split.
    - intros Hx. exists (Z.to_nat x). split; [lia|]. apply in_seq. lia.
    - intros (i & <- & Hi). apply in_seq in Hi. lia. }
  rewrite (Permutation_length Hp). unfold c. rewrite map_length, seq_length. lia.
Qed.

(* result ids are exactly 0..n-1, for every input on which replace_node returns *)
Theorem replace_node_ids g node h anchors g' :
  replace_node g node h anchors = POk g' ->
  ids_range (nodes g') 0 (number_of_nodes g') /\ NoDup (nodes g').
Proof.
  unfold replace_node. cbv zeta. destruct (negb (has_node g node)); [discriminate|].
  set (g1 := compose g h).
  assert (W1 : wf g1) by apply wf_compose.
  destruct (if 0 <? number_of_nodes h then attach g1 (number_of_nodes g) anchors (incident g node) 0 else POk g1)
    as [g2|e] eqn:E; [|discriminate].
  assert (W2 : wf g2).
  { destruct (0 <? number_of_nodes h); [eapply attach_wf; eauto|]. injection E as <-. exact W1. }
  intros [= <-]. pose proof (wf_remove_node g2 node W2) as W3.
  pose proof (relabel_graph_ids _ W3) as Hr.
  assert (Hnd : NoDup (nodes (relabel_graph (remove_node g2 node) 0))).
  { unfold relabel_graph, relabel_map. apply wf_relabel. }
  split; [|exact Hnd].
  pose proof (ids_range_length _ _ Hnd Hr) as Hlen.
  assert (Hn : number_of_nodes (relabel_graph (remove_node g2 node) 0) = number_of_nodes (remove_node g2 node)).
  { pose proof (number_of_nodes_nonneg (remove_node g2 node)).
    unfold number_of_nodes at 1. unfold nodes in Hlen. rewrite map_length in Hlen. lia. }
  rewrite Hn. exact Hr.
Qed.
