(** Elementary facts about the pieces of the matcher model (Model/Match.v):
    first_result, py_index, with_syms / get_neighbors, scan, assign.
    Nothing here depends on the mapper. *)
From Coq Require Import ZArith List Bool String Lia.
From FGV Require Import Base.Util Base.UtilFacts Base.Bond Base.NX Base.Sym Model.Permute Model.Match
  Spec.Embedding Spec.PermuteAssign Proofs.NXLookup.
Import ListNotations.
Open Scope Z_scope.
Open Scope list_scope.

(** * first_result *)

Lemma first_result_some {A B} (F : A -> result (option B)) l r :
  first_result F l = Ok (Some r) -> exists a, In a l /\ F a = Ok (Some r).
Proof.
  induction l as [|x t IH]; simpl; [discriminate|].
  destruct (F x) as [[b|]|e|] eqn:E; intros H; try discriminate.
  - exists x. split; [left; reflexivity|]. congruence.
  - destruct (IH H) as (a & Hin & Ha). exists a. split; [right; exact Hin | exact Ha].
Qed.

Lemma first_result_not {A B} (F : A -> result (option B)) l (bad : result (option B)) :
  (forall o, bad <> Ok o) -> (forall a, In a l -> F a <> bad) -> first_result F l <> bad.
Proof.
  intros Hbad. induction l as [|x t IH]; simpl; intros H; [intros E; apply (Hbad None); symmetry; exact E|].
  pose proof (H x (or_introl eq_refl)) as Hx.
  destruct (F x) as [[b|]|e|] eqn:E; try exact Hx.
  apply IH. intros a Ha. apply H. right. exact Ha.
Qed.

Lemma first_result_find {A B} (F : A -> result (option B)) l a r :
  (forall x, In x l -> exists o, F x = Ok o) -> In a l -> F a = Ok (Some r) ->
  exists r', first_result F l = Ok (Some r').
Proof.
  induction l as [|x t IH]; simpl; intros Hall Hin Ha; [destruct Hin|].
  destruct (Hall x (or_introl eq_refl)) as [o Ho]. rewrite Ho. destruct o as [b|]; [eauto|].
  destruct Hin as [->|Hin]; [congruence|].
  apply IH; [intros y Hy; apply Hall; right; exact Hy | exact Hin | exact Ha].
Qed.

Lemma first_result_ok {A B} (F : A -> result (option B)) l :
  (forall x, In x l -> exists o, F x = Ok o) -> exists o, first_result F l = Ok o.
Proof.
  induction l as [|x t IH]; simpl; intros Hall; [eauto|].
  destruct (Hall x (or_introl eq_refl)) as [o Ho]. rewrite Ho. destruct o as [b|]; [eauto|].
  apply IH. intros y Hy. apply Hall. right. exact Hy.
Qed.

(** * py_index, zseq *)

Lemma py_index_nat {A} (l : list A) (t : nat) : py_index l (Z.of_nat t) = nth_error l t.
Proof.
  unfold py_index. destruct (Z.leb_spec 0 (Z.of_nat t)); [|lia]. rewrite Nat2Z.id. reflexivity.
Qed.

Lemma py_index_nonneg {A} (l : list A) j : 0 <= j -> py_index l j = nth_error l (Z.to_nat j).
Proof. intros H. unfold py_index. destruct (Z.leb_spec 0 j); [reflexivity|lia]. Qed.

Lemma zseq_length n : List.length (zseq n) = n.
Proof. unfold zseq. rewrite map_length, seq_length. reflexivity. Qed.

Lemma snth_map_snd {A} (l : list (A * string)) t x s :
  nth_error l t = Some (x, s) -> snth (map snd l) (Z.of_nat t) = s.
Proof.
  unfold snth. rewrite Nat2Z.id. revert t. induction l as [|y r IH]; intros [|t]; simpl; try discriminate.
  - intros [= ->]. reflexivity.
  - apply IH.
Qed.

(** * with_syms / get_neighbors *)

Lemma with_syms_spec g l r :
  with_syms g l = Some r -> map fst r = l /\ Forall (fun ns => sym_of g (fst ns) = Some (snd ns)) r.
Proof.
  revert r. induction l as [|n t IH]; simpl; intros r H.
  - injection H as <-. split; [reflexivity|constructor].
  - destruct (sym_of g n) as [s|] eqn:Es; [|discriminate].
    destruct (with_syms g t) as [r'|]; [|discriminate]. simpl in H. injection H as <-.
    destruct (IH r' eq_refl) as [H1 H2]. split; [simpl; f_equal; exact H1|].
    constructor; [exact Es | exact H2].
Qed.

Lemma with_syms_total g l :
  (forall n, In n l -> exists s, sym_of g n = Some s) -> exists r, with_syms g l = Some r.
Proof.
  induction l as [|n t IH]; simpl; intros H; [eauto|].
  destruct (H n (or_introl eq_refl)) as [s ->].
  destruct IH as [r ->]; [intros m Hm; apply H; right; exact Hm|]. simpl. eauto.
Qed.

Lemma get_neighbors_spec g idx used nn :
  get_neighbors g idx used = Some nn ->
  map fst nn = filter (fun n => negb (zmem n used)) (neighbors g idx) /\
  Forall (fun ns => sym_of g (fst ns) = Some (snd ns)) nn.
Proof. apply with_syms_spec. Qed.

Lemma get_neighbors_In g idx used nn n :
  get_neighbors g idx used = Some nn -> (In n (map fst nn) <-> In n (neighbors g idx) /\ ~ In n used).
Proof.
  intros H. apply get_neighbors_spec in H. destruct H as [H _]. rewrite H, filter_In.
  rewrite negb_true_iff, zmem_false. tauto.
Qed.

(** * scan *)

Section Scan.
  Variables G P : graph.

  Definition unmappedb (m : mapping) (q : Z) : bool := negb (is_some (alookup q m)).

  Lemma scan_spec idx pidx m l pnn :
    scan G P idx pidx m l = ScanOk pnn ->
    map fst pnn = filter (unmappedb m) l /\
    Forall (fun qs => sym_of P (fst qs) = Some (snd qs)) pnn /\
    forall q nn, In q l -> alookup q m = Some (Some nn) ->
      exists lab, edge_label G idx nn = Some lab /\ edge_label P pidx q = Some lab.
  Proof.
    revert pnn. induction l as [|q t IH]; simpl; intros pnn H.
    - injection H as <-. split; [reflexivity|]. split; [constructor|]. intros q nn [].
    - unfold unmappedb at 1. destruct (alookup q m) as [[nn|]|] eqn:Eq; simpl.
      + destruct (edge_label G idx nn) as [gl|] eqn:Eg; [|discriminate].
        destruct (edge_label P pidx q) as [pl|] eqn:Ep; [|discriminate].
        destruct (label_eqb gl pl) eqn:El; [|discriminate]. apply label_eqb_eq in El. subst pl.
        destruct (IH pnn H) as (H1 & H2 & H3). split; [exact H1|]. split; [exact H2|].
        intros q' nn' [<-|Hin] Hq'; [|eauto].
        rewrite Eq in Hq'. injection Hq' as <-. eauto.
      + destruct (IH pnn H) as (H1 & H2 & H3). split; [exact H1|]. split; [exact H2|].
        intros q' nn' [<-|Hin] Hq'; [congruence|eauto].
      + destruct (sym_of P q) as [s|] eqn:Es; [|discriminate].
        destruct (scan G P idx pidx m t) as [e| |r] eqn:Er; try discriminate.
        injection H as <-. destruct (IH r eq_refl) as (H1 & H2 & H3).
        split; [simpl; f_equal; exact H1|]. split; [constructor; [exact Es|exact H2]|].
        intros q' nn' [<-|Hin] Hq'; [congruence|eauto].
  Qed.

  Lemma scan_complete idx pidx m l :
    (forall q, In q l -> alookup q m = None -> exists s, sym_of P q = Some s) ->
    (forall q nn, In q l -> alookup q m = Some (Some nn) ->
       exists lab, edge_label G idx nn = Some lab /\ edge_label P pidx q = Some lab) ->
    exists pnn, scan G P idx pidx m l = ScanOk pnn.
  Proof.
    induction l as [|q t IH]; simpl; intros Hs He; [eauto|].
    destruct IH as [r Hr]; [intros; apply Hs; auto | intros; eapply He; eauto |].
    destruct (alookup q m) as [[nn|]|] eqn:Eq.
    - destruct (He q nn (or_introl eq_refl) Eq) as (lab & -> & ->).
      rewrite label_eqb_refl. eauto.
    - eauto.
    - destruct (Hs q (or_introl eq_refl) Eq) as [s ->]. rewrite Hr. eauto.
  Qed.

  Lemma scan_no_raise idx pidx m l e :
    (forall q, In q l -> exists s, sym_of P q = Some s) ->
    (forall q, In q l -> exists lab, edge_label P pidx q = Some lab) ->
    scan G P idx pidx m l <> ScanRaise e.
  Proof.
    induction l as [|q t IH]; simpl; intros Hs He; [discriminate|].
    assert (IH' : scan G P idx pidx m t <> ScanRaise e)
      by (apply IH; intros; [apply Hs | apply He]; right; assumption).
    destruct (alookup q m) as [[nn|]|] eqn:Eq.
    - destruct (edge_label G idx nn) as [gl|]; [|discriminate].
      destruct (He q (or_introl eq_refl)) as [lab ->]. destruct (label_eqb gl lab); [exact IH'|discriminate].
    - exact IH'.
    - destruct (Hs q (or_introl eq_refl)) as [s ->].
      destruct (scan G P idx pidx m t) as [e'| |r]; [exact IH'|discriminate|discriminate].
  Qed.
End Scan.

(** * assign: the effect of one assignment as a list of "actions" *)

Section Assign.
  Variables G P : graph.
  Variables idx pidx : Z.
  Variables pnn nn : list (Z * string).

  (* one entry (pattern position, structure position) against the action it causes *)
  Definition act_rel (e : Z * Z) (qv : Z * option Z) : Prop :=
    (exists s, py_index pnn (fst e) = Some (fst qv, s)) /\
    ((snd e = -1 /\ snd qv = None) \/
     (snd e <> -1 /\ exists n s' lab, snd qv = Some n /\ py_index nn (snd e) = Some (n, s') /\
                        edge_label P pidx (fst qv) = Some lab /\ edge_label G idx n = Some lab)).

  Definition acts_map (acts : list (Z * option Z)) (m : mapping) : mapping :=
    fold_left (fun m' qv => aset (fst qv) (snd qv) m') acts m.
  Definition acts_used (acts : list (Z * option Z)) (u : list Z) : list Z :=
    fold_left (fun u' qv => match snd qv with Some n => n :: u' | None => u' end) acts u.
  Definition acts_todo (acts : list (Z * option Z)) : list (Z * Z) :=
    flat_map (fun qv => match snd qv with Some n => [(n, fst qv)] | None => [] end) acts.
  Definition somes (acts : list (Z * option Z)) : list Z :=
    flat_map (fun qv => match snd qv with Some n => [n] | None => [] end) acts.

  Lemma assign_spec a : forall m u td m1 u1 td1,
    assign G P idx pidx pnn nn a m u td = Ok (Some (m1, u1, td1)) ->
    exists acts, Forall2 act_rel a acts /\ m1 = acts_map acts m /\ u1 = acts_used acts u /\
                 td1 = td ++ acts_todo acts.
  Proof.
    induction a as [|[pi ni] t IH]; simpl; intros m u td m1 u1 td1 H.
    - injection H as <- <- <-. exists []. simpl. rewrite app_nil_r. repeat split; constructor.
    - destruct (py_index pnn pi) as [[q s]|] eqn:Eq; [|discriminate].
      destruct (Z.eqb_spec ni (-1)) as [->|Hne].
      + destruct (IH _ _ _ _ _ _ H) as (acts & F & -> & -> & ->).
        exists ((q, None) :: acts). split; [|simpl; auto].
        constructor; [|exact F]. split; simpl; [eauto|left; auto].
      + destruct (py_index nn ni) as [[n s']|] eqn:En; [|discriminate].
        destruct (edge_label P pidx q) as [pl|] eqn:Ep; [|discriminate].
        destruct (edge_label G idx n) as [gl|] eqn:Eg; [|discriminate].
        destruct (label_eqb gl pl) eqn:El; [|discriminate]. apply label_eqb_eq in El. subst gl.
        destruct (IH _ _ _ _ _ _ H) as (acts & F & -> & -> & ->).
        exists ((q, Some n) :: acts). split; [|simpl; rewrite <- app_assoc; auto].
        constructor; [|exact F]. split; simpl; [eauto|right]. split; [exact Hne|].
        exists n, s', pl. auto.
  Qed.

  Lemma assign_complete a acts : Forall2 act_rel a acts -> forall m u td,
    assign G P idx pidx pnn nn a m u td
    = Ok (Some (acts_map acts m, acts_used acts u, td ++ acts_todo acts)).
  Proof.
    induction 1 as [|[pi ni] [q v] t acts' [[s Hq] Hv] F IH]; intros m u td; simpl.
    - rewrite app_nil_r. reflexivity.
    - simpl in Hq, Hv. rewrite Hq. destruct Hv as [[-> ->]|[Hne (n & s' & lab & -> & Hn & Hp & Hg)]].
      + simpl. rewrite IH. reflexivity.
      + destruct (Z.eqb_spec ni (-1)); [contradiction|]. rewrite Hn, Hp, Hg, label_eqb_refl.
        rewrite IH. simpl. rewrite <- app_assoc. reflexivity.
  Qed.

  Lemma assign_no_raise a : forall m u td,
    (forall pi ni, In (pi, ni) a ->
       exists q s, py_index pnn pi = Some (q, s) /\ (exists lab, edge_label P pidx q = Some lab) /\
         (ni = -1 \/ exists n s', py_index nn ni = Some (n, s') /\ exists lab, edge_label G idx n = Some lab)) ->
    exists o, assign G P idx pidx pnn nn a m u td = Ok o.
  Proof.
    induction a as [|[pi ni] t IH]; simpl; intros m u td H; [eauto|].
    destruct (H pi ni (or_introl eq_refl)) as (q & s & -> & [lab ->] & Hn).
    assert (IH' : forall m u td, exists o, assign G P idx pidx pnn nn t m u td = Ok o)
      by (intros; apply IH; intros; apply H; right; assumption).
    destruct (Z.eqb_spec ni (-1)) as [->|Hne]; [apply IH'|].
    destruct Hn as [->|(n & s' & -> & [lab' ->])]; [contradiction|].
    destruct (label_eqb lab' lab); [apply IH' | eauto].
  Qed.

  Lemma assign_not_fuel a : forall m u td, assign G P idx pidx pnn nn a m u td <> OutOfFuel.
  Proof.
    induction a as [|[pi ni] t IH]; simpl; intros m u td; [discriminate|].
    destruct (py_index pnn pi) as [[q s]|]; [|discriminate].
    destruct (ni =? -1); [apply IH|].
    destruct (py_index nn ni) as [[n s']|]; [|discriminate].
    destruct (edge_label P pidx q); [|discriminate].
    destruct (edge_label G idx n); [|discriminate].
    destruct (label_eqb _ _); [apply IH|discriminate].
  Qed.

  (** ** the state after the actions *)

  Lemma acts_used_In acts : forall u x, In x (acts_used acts u) <-> In x u \/ In x (somes acts).
  Proof.
    induction acts as [|[q [n|]] t IH]; simpl; intros u x; [tauto| |].
    - unfold acts_used in *. simpl. rewrite IH. simpl. tauto.
    - unfold acts_used in *. simpl. rewrite IH. tauto.
  Qed.

  Lemma acts_todo_In acts n q : In (n, q) (acts_todo acts) <-> In (q, Some n) acts.
  Proof.
    unfold acts_todo. rewrite in_flat_map. split.
    - intros ([q' [n'|]] & Hin & H); simpl in H; [|destruct H].
      destruct H as [H|[]]. injection H as <- <-. exact Hin.
    - intros H. exists (q, Some n). split; [exact H|]. simpl. auto.
  Qed.

  Lemma somes_In acts n : In n (somes acts) <-> exists q, In (q, Some n) acts.
  Proof.
    unfold somes. rewrite in_flat_map. split.
    - intros ([q [n'|]] & Hin & H); simpl in H; [|destruct H].
      destruct H as [<-|[]]. eauto.
    - intros [q H]. exists (q, Some n). split; [exact H|]. simpl. auto.
  Qed.

  Lemma acts_todo_length acts : (List.length (acts_todo acts) <= List.length acts)%nat.
  Proof.
    induction acts as [|[q [n|]] t IH]; simpl; lia.
  Qed.

  Lemma alookup_acts_map acts : forall m p, NoDup (map fst acts) ->
    alookup p (acts_map acts m) = match alookup p acts with Some v => Some v | None => alookup p m end.
  Proof.
    induction acts as [|[q v] t IH]; simpl; intros m p Hnd; [reflexivity|].
    inversion Hnd as [|? ? Hni Hnd']; subst. unfold acts_map in *. simpl. rewrite IH by exact Hnd'.
    destruct (Z.eqb_spec p q) as [->|Hne].
    - assert (E : alookup q t = None) by (apply alookup_None; exact Hni).
      rewrite E. apply alookup_aset_eq.
    - destruct (alookup p t); [reflexivity|]. apply alookup_aset_neq. exact Hne.
  Qed.

  Lemma acts_map_keys_nodup acts : forall m, NoDup (akeys m) -> NoDup (akeys (acts_map acts m)).
  Proof.
    induction acts as [|[q v] t IH]; simpl; intros m H; [exact H|].
    unfold acts_map in *. simpl. apply IH. apply NoDup_akeys_aset. exact H.
  Qed.

  Lemma alookup_acts_In (acts : list (Z * option Z)) q v : NoDup (map fst acts) -> In (q, v) acts -> alookup q acts = Some v.
  Proof. intros Hnd Hin. apply NoDup_alookup; assumption. Qed.

  Lemma somes_inj acts p q n :
    NoDup (somes acts) -> In (p, Some n) acts -> In (q, Some n) acts ->
    NoDup (map fst acts) -> p = q.
  Proof.
    induction acts as [|[r v] t IH]; simpl; intros Hs Hp Hq Hk; [destruct Hp|].
    inversion Hk as [|? ? Hni Hk']; subst.
    destruct v as [n'|]; simpl in Hs.
    - inversion Hs as [|? ? Hsn Hs']; subst.
      destruct Hp as [Hp|Hp], Hq as [Hq|Hq].
      + congruence.
      + injection Hp as -> ->. exfalso. apply Hsn. apply somes_In. eauto.
      + injection Hq as -> ->. exfalso. apply Hsn. apply somes_In. eauto.
      + eapply IH; eauto.
    - destruct Hp as [Hp|Hp]; [discriminate|]. destruct Hq as [Hq|Hq]; [discriminate|].
      eapply IH; eauto.
  Qed.
End Assign.
