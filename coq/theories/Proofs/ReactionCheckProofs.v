(** Soundness of the decidable C15 checker run on every generated reaction. *)
From Coq Require Import ZArith List Bool String Lia.
From FGV Require Import Base.Util Base.UtilFacts Base.Bond Base.NX Base.NXFacts Base.NXMulti Model.Aam Model.Proxy
  Model.Its Model.ProxyGen Spec.ProxySpec Spec.ProxyCheck Spec.ProxyGenSpec Spec.ProxyGenCheck
  Proofs.ProxyGenUtil Proofs.ProxyGenCheckProofs.
Import ListNotations.
Open Scope Z_scope.

Lemma option_eqb_string x y : option_eqb String.eqb x y = true -> x = y.
Proof.
  destruct x, y; simpl; try discriminate; [|reflexivity]. intros H. apply String.eqb_eq in H. subst. reflexivity.
Qed.

Lemma option_eqb_Z x y : option_eqb Z.eqb x y = true -> x = y.
Proof.
  destruct x, y; simpl; try discriminate; [|reflexivity]. intros H. apply Z.eqb_eq in H. subst. reflexivity.
Qed.

Lemma option_eqb_label x y : option_eqb label_eqb x y = true -> x = y.
Proof.
  destruct x, y; simpl; try discriminate; [|reflexivity]. intros H. apply label_eqb_eq in H. subst. reflexivity.
Qed.

Lemma same_node_setb_sound g h :
  same_node_setb g h = true -> forall n, In n (nodes g) <-> In n (nodes h).
Proof.
  unfold same_node_setb. intros H. apply andb_true_iff in H. destruct H as [H _].
  apply andb_true_iff in H. destruct H as [H _]. apply andb_true_iff in H. destruct H as [H1 H2].
  rewrite forallb_forall in H1, H2. intros n. split; intros Hn.
  - apply has_node_In. apply H1. exact Hn.
  - apply has_node_In. apply H2. exact Hn.
Qed.

(* same atoms on both sides as in the expanded ITS graph, same symbols, atom map id + 1 everywhere,
   and on every atom pair the superposition of the two sides is the ITS bond label *)
Theorem C15_okb_sound its g h :
  C15_okb its g h = true ->
  contiguous its
  /\ (forall n, In n (nodes its) <-> In n (nodes g))
  /\ (forall n, In n (nodes its) <-> In n (nodes h))
  /\ (forall n, In n (nodes its) ->
        exists a b c, node_attr its n = Some a /\ node_attr g n = Some b /\ node_attr h n = Some c
                      /\ a_sym a = a_sym b /\ a_sym a = a_sym c
                      /\ a_aam a = Some (n + 1) /\ a_aam b = Some (n + 1) /\ a_aam c = Some (n + 1))
  /\ (forall u v, In u (nodes its) -> In v (nodes its) ->
        superpose g h u v = norm_its_label (edge_label its u v)).
Proof.
  unfold C15_okb. intros H.
  apply andb_true_iff in H. destruct H as [H HG].
  apply andb_true_iff in H. destruct H as [H HF].
  apply andb_true_iff in H. destruct H as [H HE].
  apply andb_true_iff in H. destruct H as [H HD].
  apply andb_true_iff in H. destruct H as [H HC].
  apply andb_true_iff in H. destruct H as [HA HB].
  split.
  - unfold contiguousb in HA. apply andb_true_iff in HA. destruct HA as [H1 H2].
    split; [apply ids_rangeb_sound; exact H1|apply nodupb_NoDup; exact H2].
  - split; [apply same_node_setb_sound; exact HB|]. split; [apply same_node_setb_sound; exact HC|]. split.
    + intros n Hn. rewrite forallb_forall in HD. specialize (HD n Hn).
      destruct (node_attr its n) as [a|]; [|discriminate].
      destruct (node_attr g n) as [b|]; [|discriminate].
      destruct (node_attr h n) as [c|]; [|discriminate].
      apply andb_true_iff in HD. destruct HD as [HD L5].
      apply andb_true_iff in HD. destruct HD as [HD L4].
      apply andb_true_iff in HD. destruct HD as [HD L3].
      apply andb_true_iff in HD. destruct HD as [L1 L2].
      exists a, b, c. split; [reflexivity|]. split; [reflexivity|]. split; [reflexivity|].
      split; [apply option_eqb_string; exact L1|]. split; [apply option_eqb_string; exact L2|].
      split; [apply option_eqb_Z; exact L3|]. split; [apply option_eqb_Z; exact L4|apply option_eqb_Z; exact L5].
    + intros u v Hu Hv. rewrite forallb_forall in HG. specialize (HG u Hu). rewrite forallb_forall in HG.
      apply option_eqb_label. exact (HG v Hv).
Qed.
