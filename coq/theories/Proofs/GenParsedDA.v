(** Same as Proofs/GenParsed.v for the proxy collections: every pattern graph of Gen/ProxyDA.v (the MultiGraph
    the real Parser(use_multigraph=True) returned inside the translator) equals what the Coq model of the parser
    returns on the pattern string. The two MultiGraph models (Model/NXMulti.v used by the parser model,
    Base/NXMulti.v used by the proxy model) have the same carrier type, so the comparison is direct. *)
From Coq Require Import ZArith List Bool String.
From FGV Require Import Base.Util Base.Bond Base.NX Model.NXMulti Model.Parse Model.ProxyTerms Gen.ProxyDA.
Import ListNotations.
Open Scope string_scope.

Definition da_parsed_is (e : string * Model.NXMulti.mgraph) : bool :=
  Parse.result_eqb Model.NXMulti.mgraph_eqb (parse_multi false 0 (fst e)) (Ok (snd e)).

Definition da_patterns_parsedb : bool := forallb da_parsed_is da_pattern_table.

Lemma da_patterns_parsed : da_patterns_parsedb = true.
Proof. vm_compute. reflexivity. Qed.
