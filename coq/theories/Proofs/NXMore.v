(** Further generic lemmas on association lists and the graph model (list-level equalities
    needed where exact dict order matters), string-keyed dicts, integer ranges, max of the
    node view, and reflection lemmas for the executable equalities. *)
From Coq Require Import ZArith List Bool String Lia.
From FGV Require Import Base.Util Base.UtilFacts Base.StrMap Base.Bond Base.NX Base.NXFacts.
Import ListNotations.
Open Scope list_scope.
Open Scope Z_scope.

(** * aset at list level *)

Lemma aset_absent {A} k (a : A) l : alookup k l = None -> aset k a l = l ++ [(k, a)].
Proof.
  induction l as [|[k' a'] t IH]; simpl; [reflexivity|].
  destruct (k =? k'); [discriminate|]. intros H. rewrite IH by exact H. reflexivity.
Qed.

Lemma aset_same {A} k (a : A) l : alookup k l = Some a -> aset k a l = l.
Proof.
  induction l as [|[k' a'] t IH]; simpl; [discriminate|].
  destruct (Z.eqb_spec k k') as [->|Hne]; [intros [= ->]; reflexivity|].
  intros H. rewrite IH by exact H. reflexivity.
Qed.

Lemma aset_app_present {A} k (a x : A) l1 l2 :
  alookup k l1 = Some x -> aset k a (l1 ++ l2) = aset k a l1 ++ l2.
Proof.
  induction l1 as [|[k' a'] t IH]; simpl; [discriminate|].
  destruct (k =? k'); [reflexivity|]. intros H. rewrite IH by exact H. reflexivity.
Qed.

Lemma aset_app_absent {A} k (a : A) l1 l2 :
  alookup k l1 = None -> aset k a (l1 ++ l2) = l1 ++ aset k a l2.
Proof.
  induction l1 as [|[k' a'] t IH]; simpl; [reflexivity|].
  destruct (k =? k'); [discriminate|]. intros H. rewrite IH by exact H. reflexivity.
Qed.

Lemma aset_aset {A} k (a b : A) l : aset k a (aset k b l) = aset k a l.
Proof.
  induction l as [|[k' a'] t IH]; simpl; [rewrite Z.eqb_refl; reflexivity|].
  destruct (Z.eqb_spec k k') as [->|Hne]; simpl.
  - rewrite Z.eqb_refl. reflexivity.
  - destruct (Z.eqb_spec k k'); [contradiction|]. rewrite IH. reflexivity.
Qed.

Lemma alookup_not_In {A} k (l : list (Z * A)) : ~ In k (map fst l) -> alookup k l = None.
Proof. intros H. apply alookup_None. exact H. Qed.

Lemma alookup_app_l {A} k (l1 l2 : list (Z * A)) x :
  alookup k l1 = Some x -> alookup k (l1 ++ l2) = Some x.
Proof. intros H. rewrite alookup_app, H. reflexivity. Qed.

Lemma alookup_app_r {A} k (l1 l2 : list (Z * A)) :
  alookup k l1 = None -> alookup k (l1 ++ l2) = alookup k l2.
Proof. intros H. rewrite alookup_app, H. reflexivity. Qed.

(** * integer ranges: range(s, s + c) *)

Fixpoint zseq (s : Z) (c : nat) : list Z :=
  match c with O => [] | S c' => s :: zseq (s + 1) c' end.

Lemma zseq_In s c x : In x (zseq s c) <-> s <= x < s + Z.of_nat c.
Proof.
  revert s; induction c as [|c IH]; intros s; simpl; [lia|].
  rewrite IH. lia.
Qed.

Lemma zseq_length s c : List.length (zseq s c) = c.
Proof. revert s; induction c as [|c IH]; intros s; simpl; [reflexivity|]. rewrite IH. reflexivity. Qed.

Lemma zseq_NoDup s c : NoDup (zseq s c).
Proof.
  revert s; induction c as [|c IH]; intros s; simpl; constructor; [|apply IH].
  rewrite zseq_In. lia.
Qed.

Lemma zseq_app s a b : zseq s (a + b) = zseq s a ++ zseq (s + Z.of_nat a) b.
Proof.
  revert s; induction a as [|a IH]; intros s.
  - simpl. f_equal. lia.
  - cbn [Nat.add zseq app]. rewrite IH. do 3 f_equal. lia.
Qed.

Lemma zseq_snoc s c : zseq s (S c) = zseq s c ++ [s + Z.of_nat c].
Proof. replace (S c) with (c + 1)%nat by lia. rewrite zseq_app. reflexivity. Qed.

(** * NoDup of an append *)

Lemma NoDup_app_intro {A} (l1 l2 : list A) :
  NoDup l1 -> NoDup l2 -> (forall x, In x l1 -> ~ In x l2) -> NoDup (l1 ++ l2).
Proof.
  induction l1 as [|x t IH]; simpl; intros H1 H2 H; [exact H2|].
  inversion H1 as [|? ? Hni Hnd]; subst. constructor.
  - rewrite in_app_iff. intros [Hx|Hx]; [contradiction|]. apply (H x); [left; reflexivity | exact Hx].
  - apply IH; auto.
Qed.

Lemma NoDup_app_l {A} (l1 l2 : list A) : NoDup (l1 ++ l2) -> NoDup l1.
Proof.
  induction l1 as [|x t IH]; simpl; intros H; [constructor|].
  inversion H as [|? ? Hni Hnd]; subst. constructor; [|apply IH; exact Hnd].
  intros Hx. apply Hni. apply in_or_app. left. exact Hx.
Qed.

Lemma NoDup_app_disj {A} (l1 l2 : list A) x : NoDup (l1 ++ l2) -> In x l1 -> ~ In x l2.
Proof.
  induction l1 as [|y t IH]; simpl; intros H Hin; [contradiction|].
  inversion H as [|? ? Hni Hnd]; subst. destruct Hin as [->|Hin]; [|apply IH; assumption].
  intros Hx. apply Hni. apply in_or_app. right. exact Hx.
Qed.

(** * max(graph.nodes) *)

Lemma zmax_list_In_or d l : zmax_list d l = d \/ In (zmax_list d l) l.
Proof.
  revert d; induction l as [|x t IH]; intros d; simpl; [left; reflexivity|].
  destruct (IH (Z.max d x)) as [H|H]; [|right; right; exact H].
  rewrite H. destruct (Z.max_spec d x) as [[_ ->]|[_ ->]]; [right; left; reflexivity | left; reflexivity].
Qed.

Definition max_of (l : list Z) : option Z :=
  match l with [] => None | x :: t => Some (zmax_list x t) end.

Lemma max_of_spec l m : In m l -> (forall x, In x l -> x <= m) -> max_of l = Some m.
Proof.
  destruct l as [|x t]; simpl; [contradiction|]. intros Hin Hub. f_equal.
  assert (Hle : zmax_list x t <= m).
  { destruct (zmax_list_In_or x t) as [->|H]; [apply Hub; left; reflexivity | apply Hub; right; exact H]. }
  assert (Hge : m <= zmax_list x t).
  { destruct Hin as [->|Hin]; [apply zmax_list_ge | apply zmax_list_In; exact Hin]. }
  lia.
Qed.

(** * string-keyed dicts *)

Lemma slookup_sset {A} k k2 (a : A) l :
  slookup k2 (sset k a l) = if String.eqb k2 k then Some a else slookup k2 l.
Proof.
  induction l as [|[k' a'] t IH]; simpl.
  - destruct (String.eqb k2 k); reflexivity.
  - destruct (String.eqb_spec k k') as [->|Hne]; simpl.
    + destruct (String.eqb k2 k'); reflexivity.
    + rewrite IH. destruct (String.eqb_spec k2 k') as [->|H2]; [|reflexivity].
      destruct (String.eqb_spec k' k); [congruence|reflexivity].
Qed.

Lemma smem_In k l : smem k l = true <-> In k l.
Proof.
  induction l as [|x t IH]; simpl; [split; [discriminate|tauto]|].
  rewrite orb_true_iff, IH, String.eqb_eq. split; intros [H|H]; auto.
Qed.

Lemma slookup_None_keys {A} k (l : list (string * A)) :
  ~ In k (map fst l) -> slookup k l = None.
Proof.
  induction l as [|[k' a'] t IH]; simpl; [reflexivity|]. intros H.
  destruct (String.eqb_spec k k') as [->|Hne]; [exfalso; apply H; left; reflexivity|].
  apply IH. intros Hin. apply H. right. exact Hin.
Qed.

(* two dicts agree everywhere as soon as they agree on the keys of both *)
Lemma slookup_ext_keys {A} (l1 l2 : list (string * A)) :
  (forall k, In k (map fst l1 ++ map fst l2) -> slookup k l1 = slookup k l2) ->
  forall k, slookup k l1 = slookup k l2.
Proof.
  intros H k. destruct (in_dec string_dec k (map fst l1 ++ map fst l2)) as [Hin|Hni]; [apply H; exact Hin|].
  rewrite !slookup_None_keys; [reflexivity| |]; intros Hk; apply Hni; apply in_or_app; [right|left]; exact Hk.
Qed.

(** * reflection of the executable equalities *)

Lemma option_eqb_true {A} (eqb : A -> A -> bool) :
  (forall a b, eqb a b = true -> a = b) -> forall x y, option_eqb eqb x y = true -> x = y.
Proof. intros H [a|] [b|]; simpl; intros E; try discriminate; [f_equal; auto | reflexivity]. Qed.

Lemma list_eqb_true {A} (eqb : A -> A -> bool) :
  (forall a b, eqb a b = true -> a = b) -> forall x y, list_eqb eqb x y = true -> x = y.
Proof.
  intros H. induction x as [|a x IH]; intros [|b y]; simpl; intros E; try discriminate; [reflexivity|].
  apply andb_true_iff in E. destruct E as [E1 E2]. f_equal; auto.
Qed.

Lemma adjl_eqb_true x y : adjl_eqb x y = true -> x = y.
Proof.
  apply list_eqb_true. intros [a la] [b lb]; simpl. rewrite andb_true_iff, Z.eqb_eq, label_eqb_eq.
  intros [-> ->]. reflexivity.
Qed.

Lemma nattr_eqb_true a b : nattr_eqb a b = true -> a = b.
Proof.
  destruct a as [s1 m1 l1 i1 x1], b as [s2 m2 l2 i2 x2]. unfold nattr_eqb; simpl.
  rewrite !andb_true_iff. intros [[[[Hs Hm] Hl] Hi] Hx].
  apply (option_eqb_true String.eqb) in Hs; [|intros ? ?; apply String.eqb_eq].
  apply (option_eqb_true Z.eqb) in Hm; [|intros ? ?; apply Z.eqb_eq].
  apply (option_eqb_true (list_eqb String.eqb)) in Hl;
    [|apply list_eqb_true; intros ? ?; apply String.eqb_eq].
  apply (option_eqb_true Bool.eqb) in Hi; [|intros ? ?; apply eqb_prop].
  apply (option_eqb_true (fun x y => (fst x =? fst y) && (snd x =? snd y))) in Hx.
  - congruence.
  - intros [p q] [p' q']; simpl. rewrite andb_true_iff, !Z.eqb_eq. intros [-> ->]. reflexivity.
Qed.

(** * graph helpers *)

Lemma has_node_alookup g n : has_node g n = true <-> exists e, alookup n g = Some e.
Proof.
  unfold has_node. destruct (alookup n g) as [e|]; simpl; split; eauto; try discriminate.
  intros [e H]; discriminate.
Qed.

Lemma has_node_false_In g n : has_node g n = false <-> ~ In n (nodes g).
Proof. rewrite <- has_node_In. destruct (has_node g n); split; congruence. Qed.

Lemma nodes_app (g h : graph) : nodes (g ++ h) = nodes g ++ nodes h.
Proof. unfold nodes. apply map_app. Qed.

(* neighbours recorded in a well-formed graph are nodes *)
Lemma wf_adj_has_node g u v l : wf g -> In (v, l) (adj g u) -> has_node g v = true.
Proof.
  intros Hwf Hin. pose proof (In_adj_edge_label g u v l Hwf Hin) as H.
  eapply wf_edge_nodes; eauto.
Qed.

Lemma In_entry_alookup (g : graph) x e : NoDup (nodes g) -> In (x, e) g -> alookup x g = Some e.
Proof. intros Hnd Hin. apply NoDup_alookup; assumption. Qed.

Lemma max_of_Some l m : max_of l = Some m -> In m l /\ forall x, In x l -> x <= m.
Proof.
  destruct l as [|x t]; simpl; [discriminate|]. intros [= <-]. split.
  - destruct (zmax_list_In_or x t) as [->|H]; [left; reflexivity | right; exact H].
  - intros y [->|Hy]; [apply zmax_list_ge | apply zmax_list_In; exact Hy].
Qed.

Lemma max_of_None l : max_of l = None -> l = [].
Proof. destruct l; [reflexivity|discriminate]. Qed.

(** * converse reflection (the executable equalities are reflexive; [wf] implies [wfb]) *)

Lemma option_eqb_refl {A} (eqb : A -> A -> bool) :
  (forall a, eqb a a = true) -> forall x, option_eqb eqb x x = true.
Proof. intros H [a|]; simpl; auto. Qed.

Lemma list_eqb_refl {A} (eqb : A -> A -> bool) :
  (forall a, eqb a a = true) -> forall x, list_eqb eqb x x = true.
Proof. intros H. induction x as [|a x IH]; simpl; [reflexivity|]. rewrite H, IH. reflexivity. Qed.

Lemma adjl_eqb_refl x : adjl_eqb x x = true.
Proof.
  apply list_eqb_refl. intros [v l]. simpl. rewrite Z.eqb_refl, label_eqb_refl. reflexivity.
Qed.

Lemma nattr_eqb_refl a : nattr_eqb a a = true.
Proof.
  unfold nattr_eqb. rewrite !andb_true_iff. repeat split.
  - apply option_eqb_refl. apply String.eqb_refl.
  - apply option_eqb_refl. apply Z.eqb_refl.
  - apply option_eqb_refl. apply list_eqb_refl. apply String.eqb_refl.
  - apply option_eqb_refl. intros []; reflexivity.
  - apply option_eqb_refl. intros [p q]. simpl. rewrite !Z.eqb_refl. reflexivity.
Qed.

Lemma wf_wfb g : wf g -> wfb g = true.
Proof.
  intros Hwf. pose proof Hwf as (Hnd & Hadj & Hsym). unfold wfb. apply andb_true_iff. split.
  - apply nodupb_NoDup. exact Hnd.
  - apply forallb_forall. intros [n [a ad]] Hin. unfold wf_node.
    pose proof (In_entry_adj g n a ad Hnd Hin) as Had. apply andb_true_iff. split.
    + apply nodupb_NoDup. rewrite <- Had. apply Hadj.
    + apply forallb_forall. intros [v l] Hvl.
      assert (He : edge_label g n v = Some l).
      { apply In_adj_edge_label; [exact Hwf|]. rewrite Had. exact Hvl. }
      rewrite (Hsym _ _ _ He). simpl. apply label_eqb_refl.
Qed.
