(** The one fact about [permute] that the fuel bound of the matcher needs, proved for
    every mapper: each returned assignment lists the pattern positions 0..k-1 in order. *)
From Coq Require Import ZArith List Bool String Lia.
From FGV Require Import Base.Util Base.UtilFacts Base.Sym Model.Permute Spec.Embedding Spec.PermuteAssign.
Import ListNotations.
Open Scope Z_scope.
Open Scope list_scope.

Lemma match_perm_fst w : forall pattern i sp m,
  match_perm w i pattern sp = Some m ->
  map fst m = map (fun t => i + Z.of_nat t) (seq 0 (List.length pattern)).
Proof.
  induction pattern as [|p pt IH]; intros i sp m H; simpl in H.
  - injection H as <-. reflexivity.
  - destruct sp as [|[si s] st]; [discriminate|].
    destruct (sym_eqb_opt w p || String.eqb p s)%bool; [|discriminate].
    destruct (match_perm w (i + 1) pt st) as [m'|] eqn:E; [|discriminate].
    simpl in H. injection H as <-. apply IH in E. simpl. rewrite E.
    f_equal; [lia|]. rewrite <- seq_shift, map_map. apply map_ext. intros t. lia.
Qed.

Lemma dedup_In seen l x : In x (dedup seen l) -> In x l.
Proof.
  revert seen. induction l as [|m t IH]; simpl; intros seen H; [exact H|].
  destruct (existsb (list_zz_eqb m) seen).
  - right. eapply IH; eauto.
  - destruct H as [H|H]; [left; exact H | right; eapply IH; eauto].
Qed.

Theorem permute_fst mp ps ss a : In a (permute mp ps ss) -> map fst a = zseq (List.length ps).
Proof.
  unfold permute. destruct (pad _ _ _ _ _) as [s' adds]. intros H. apply dedup_In in H.
  apply in_map_iff in H. destruct H as (m & <- & H).
  assert (Hm : map fst m = zseq (List.length ps)).
  { unfold generate_mapping_permutations in H.
    destruct (map _ ps) as [|p0 pt] eqn:Ep; [destruct H|].
    apply in_flat_map in H. destruct H as (sp & _ & H).
    destruct (match_perm _ 0 (p0 :: pt) sp) as [m'|] eqn:E; [|destruct H].
    destruct H as [<-|[]]. apply match_perm_fst in E. rewrite E, <- Ep, map_length.
    unfold zseq. apply map_ext. intros t. lia. }
  rewrite <- Hm, map_map. apply map_ext. intros [pi si]. destruct (zmem si adds); reflexivity.
Qed.
