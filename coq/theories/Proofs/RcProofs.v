(** get_rc satisfies [rc_spec] for every well-formed ITS graph, any ids; the exceptions it
    raises are characterised. *)
From Coq Require Import ZArith List Bool String Lia.
From FGV Require Import Base.Util Base.UtilFacts Base.Bond Base.NX Base.NXFacts
  Model.Matrix Model.Prune Spec.WalkDef Spec.PruneSpec Spec.PruneCheck Proofs.NXCopyFacts11.
Import ListNotations.
Open Scope Z_scope.

Lemma rc_edgeb_true l : rc_edgeb l = true <-> lab_differs l = Some true.
Proof.
  unfold rc_edgeb. destruct (lab_differs l) as [[|]|]; split; congruence.
Qed.

(* the entries of the edge list that enter the reaction centre *)
Definition dl (es : list (Z * Z * label)) : list (Z * Z * label) :=
  filter (fun '(_, _, l) => rc_edgeb l) es.

Definition endpoint_in (n : Z) (es : list (Z * Z * label)) : bool :=
  existsb (fun '(u, v, _) => (n =? u) || (n =? v)) es.

Lemma dl_cons u v l t : dl ((u, v, l) :: t) = if rc_edgeb l then (u, v, l) :: dl t else dl t.
Proof. reflexivity. Qed.

Lemma na_update_sym s : na_update (na_sym s) (na_sym s) = na_sym s.
Proof. reflexivity. Qed.

Section Rc.
  Variable its : graph.

  (* every node of the partial reaction centre carries exactly the symbol of the ITS atom *)
  Definition sym_only (rc : graph) : Prop :=
    forall n a, node_attr rc n = Some a -> exists s, sym_of its n = Some s /\ a = na_sym s.

  Lemma sym_only_add_node rc n s :
    sym_only rc -> sym_of its n = Some s -> sym_only (add_node rc n (na_sym s)).
  Proof.
    intros HP Hs m a. rewrite node_attr_add_node. destruct (Z.eqb_spec m n) as [->|Hne].
    - intros H. injection H as <-. exists s. split; [exact Hs|].
      destruct (node_attr rc n) as [a0|] eqn:E0; [|reflexivity].
      destruct (HP n a0 E0) as (s' & Hs' & ->). assert (s' = s) by congruence. subst.
      apply na_update_sym.
    - apply HP.
  Qed.

  Lemma rc_loop_ok es : forall rc rc',
    rc_loop its es rc = Ok rc' -> wf rc -> sym_only rc ->
    wf rc' /\ sym_only rc'
    /\ (forall x y, edge_label rc' x y = last_label (dl es) x y (edge_label rc x y))
    /\ (forall n, has_node rc' n = has_node rc n || endpoint_in n (dl es)).
  Proof.
    induction es as [|[[n1 n2] l] t IH]; intros rc rc' H Hwf HP.
    - simpl in H. injection H as <-. split; [exact Hwf|]. split; [exact HP|].
      split; [intros x y; reflexivity|]. intros n. simpl. rewrite orb_false_r. reflexivity.
    - simpl in H. rewrite dl_cons. unfold rc_edgeb.
      destruct (lab_differs l) as [[|]|] eqn:Ed; [| |discriminate].
      + destruct (sym_of its n1) as [s1|] eqn:E1; [|discriminate].
        destruct (sym_of its n2) as [s2|] eqn:E2; [|discriminate].
        set (rc2 := add_node (add_node rc n1 (na_sym s1)) n2 (na_sym s2)) in *.
        assert (Hwf2 : wf rc2) by (unfold rc2; apply wf_add_node; apply wf_add_node; exact Hwf).
        assert (HP2 : sym_only rc2).
        { unfold rc2. apply sym_only_add_node; [apply sym_only_add_node|]; assumption. }
        assert (H1 : has_node rc2 n1 = true).
        { unfold rc2. rewrite !has_node_add_node, Z.eqb_refl. apply orb_true_r. }
        assert (H2 : has_node rc2 n2 = true).
        { unfold rc2. rewrite !has_node_add_node, Z.eqb_refl. reflexivity. }
        assert (HP3 : sym_only (add_edge rc2 n1 n2 l)).
        { intros m a. rewrite node_attr_add_edge. destruct (node_attr rc2 m) as [a0|] eqn:E0.
          - intros Ha. injection Ha as <-. apply HP2. exact E0.
          - destruct (Z.eqb_spec m n1) as [->|].
            + apply node_attr_has_node in H1. destruct H1 as (a1 & Ha1). congruence.
            + destruct (Z.eqb_spec m n2) as [->|]; [|discriminate].
              apply node_attr_has_node in H2. destruct H2 as (a2 & Ha2). congruence. }
        destruct (IH _ _ H (wf_add_edge _ _ _ _ Hwf2) HP3) as (Hw & Hp & Hel & Hhn).
        split; [exact Hw|]. split; [exact Hp|]. split.
        * intros x y. rewrite Hel. simpl. rewrite edge_label_add_edge.
          unfold rc2. rewrite !edge_label_add_node. reflexivity.
        * intros n. rewrite Hhn. simpl. rewrite has_node_add_edge. unfold rc2.
          rewrite !has_node_add_node.
          destruct (n =? n1), (n =? n2), (has_node rc n); reflexivity.
      + apply IH; assumption.
  Qed.

  Lemma rc_loop_err es : forall rc e,
    rc_loop its es rc = Err e ->
    (e = TypeError /\ exists u v l, In (u, v, l) es /\ lab_differs l = None)
    \/ (e = KeyError /\ exists u v l, In (u, v, l) es /\ lab_differs l = Some true
                        /\ (sym_of its u = None \/ sym_of its v = None)).
  Proof.
    induction es as [|[[n1 n2] l] t IH]; intros rc e H; simpl in H; [discriminate|].
    assert (Hrec : forall rc0, rc_loop its t rc0 = Err e ->
      (e = TypeError /\ exists u v l0, In (u, v, l0) ((n1, n2, l) :: t) /\ lab_differs l0 = None)
      \/ (e = KeyError /\ exists u v l0, In (u, v, l0) ((n1, n2, l) :: t) /\ lab_differs l0 = Some true
                        /\ (sym_of its u = None \/ sym_of its v = None))).
    { intros rc0 H0. destruct (IH _ _ H0) as [(He & u & v & l0 & Hin & Hd)|(He & u & v & l0 & Hin & Hd)].
      - left. split; [exact He|]. exists u, v, l0. split; [right; exact Hin|exact Hd].
      - right. split; [exact He|]. exists u, v, l0. split; [right; exact Hin|exact Hd]. }
    destruct (lab_differs l) as [[|]|] eqn:Ed.
    - destruct (sym_of its n1) as [s1|] eqn:E1.
      + destruct (sym_of its n2) as [s2|] eqn:E2.
        * eapply Hrec. exact H.
        * injection H as <-. right. split; [reflexivity|]. exists n1, n2, l.
          split; [left; reflexivity|]. split; [exact Ed|right; exact E2].
      + injection H as <-. right. split; [reflexivity|]. exists n1, n2, l.
        split; [left; reflexivity|]. split; [exact Ed|left; exact E1].
    - eapply Hrec. exact H.
    - injection H as <-. left. split; [reflexivity|]. exists n1, n2, l.
      split; [left; reflexivity|exact Ed].
  Qed.

  Hypothesis Hwf : wf its.

  Lemma dl_edges_consistent u v l :
    In (u, v, l) (dl (edges its)) ->
    edge_label its u v = Some l /\ edge_label its v u = Some l.
  Proof.
    intros H. apply filter_In in H. destruct H as (H & _).
    pose proof (in_edges_label its u v l Hwf H) as He. split; [exact He|].
    destruct Hwf as (_ & _ & Hs). apply Hs. exact He.
  Qed.

  Lemma rc_edge_in_dl u v l :
    rc_edge its u v l -> In (u, v, l) (dl (edges its)) \/ In (v, u, l) (dl (edges its)).
  Proof.
    intros (He & Hd). destruct (edges_complete its u v l Hwf He) as [H|H]; [left|right];
      apply filter_In; (split; [exact H|apply rc_edgeb_true; exact Hd]).
  Qed.

  Lemma in_dl_rc_edge u v l : In (u, v, l) (dl (edges its)) -> rc_edge its u v l /\ rc_edge its v u l.
  Proof.
    intros H. destruct (dl_edges_consistent u v l H) as (H1 & H2).
    apply filter_In in H. destruct H as (_ & Hd). apply rc_edgeb_true in Hd.
    split; split; assumption.
  Qed.

  Lemma endpoint_in_dl n : endpoint_in n (dl (edges its)) = true <-> rc_node its n.
  Proof.
    unfold endpoint_in. rewrite existsb_exists. split.
    - intros ([[u v] l] & Hin & Hm). destruct (in_dl_rc_edge u v l Hin) as (H1 & H2).
      apply orb_true_iff in Hm. destruct Hm as [Hm|Hm]; apply Z.eqb_eq in Hm; subst.
      + exists v, l. exact H1.
      + exists u, l. exact H2.
    - intros (v & l & Hr). destruct (rc_edge_in_dl n v l Hr) as [H|H].
      + exists (n, v, l). split; [exact H|]. rewrite Z.eqb_refl. reflexivity.
      + exists (v, n, l). split; [exact H|]. rewrite Z.eqb_refl. apply orb_true_r.
  Qed.

  Theorem rc_spec_holds rc : get_rc its = Ok rc -> rc_spec its rc.
  Proof.
    intros H. unfold get_rc in H.
    assert (HP0 : sym_only empty_graph) by (intros n a Hn; discriminate).
    destruct (rc_loop_ok (edges its) _ _ H wf_empty HP0) as (Hw & Hp & Hel & Hhn).
    split; [exact Hw|]. split.
    - intros u v l. rewrite Hel.
      rewrite (last_label_consistent (edge_label its))
        by (intros u' v' lb Hin; apply dl_edges_consistent; exact Hin).
      change (edge_label empty_graph u v) with (@None label).
      destruct (existsb _ (dl (edges its))) eqn:Ex.
      + apply existsb_exists in Ex. destruct Ex as ([[u' v'] l'] & Hin & Hm).
        destruct (in_dl_rc_edge u' v' l' Hin) as ((H1 & Hd) & (H2 & _)).
        assert (Hl : edge_label its u v = Some l').
        { apply orb_true_iff in Hm. destruct Hm as [Hm|Hm]; apply andb_true_iff in Hm;
            destruct Hm as (Ha & Hb); apply Z.eqb_eq in Ha; apply Z.eqb_eq in Hb; subst; assumption. }
        split.
        * intros Hu. split; [exact Hu|]. rewrite Hl in Hu. injection Hu as <-. exact Hd.
        * intros (Hu & _). exact Hu.
      + split; [discriminate|]. intros Hr. exfalso.
        assert (Ht : existsb (fun '(u0, v0, _) => (u =? u0) && (v =? v0) || (u =? v0) && (v =? u0))
                       (dl (edges its)) = true).
        { apply existsb_exists. destruct (rc_edge_in_dl u v l Hr) as [Hin|Hin].
          - exists (u, v, l). split; [exact Hin|]. rewrite !Z.eqb_refl. reflexivity.
          - exists (v, u, l). split; [exact Hin|]. rewrite !Z.eqb_refl. apply orb_true_r. }
        congruence.
    - intros n a. split.
      + intros Hn. split; [|apply Hp; exact Hn].
        apply endpoint_in_dl. specialize (Hhn n).
        assert (Hh : has_node rc n = true) by (apply node_attr_has_node; eauto).
        rewrite Hh in Hhn. symmetry. exact Hhn.
      + intros (Hr & s & Hs & ->). apply endpoint_in_dl in Hr. specialize (Hhn n).
        rewrite Hr, orb_true_r in Hhn. apply node_attr_has_node in Hhn.
        destruct Hhn as (a' & Ha'). rewrite Ha'. destruct (Hp n a' Ha') as (s' & Hs' & ->).
        congruence.
  Qed.

  (* which exception, and why *)
  Theorem rc_error e :
    get_rc its = Err e ->
    (e = TypeError /\ exists u v l, edge_label its u v = Some l /\ lab_differs l = None)
    \/ (e = KeyError /\ exists n, rc_node its n /\ sym_of its n = None).
  Proof.
    intros H. destruct (rc_loop_err _ _ _ H) as [(He & u & v & l & Hin & Hd)|(He & u & v & l & Hin & Hd & Hs)].
    - left. split; [exact He|]. exists u, v, l. split; [|exact Hd]. apply in_edges_label; assumption.
    - right. split; [exact He|]. pose proof (in_edges_label its u v l Hwf Hin) as Hl.
      destruct Hs as [Hs|Hs].
      + exists u. split; [|exact Hs]. exists v, l. split; assumption.
      + exists v. split; [|exact Hs]. exists u, l. split; [|exact Hd].
        destruct Hwf as (_ & _ & Hsym). apply Hsym. exact Hl.
  Qed.

  (* on the ITS domain (tuple/list labels, every atom has a symbol) get_rc never raises *)
  Theorem rc_total :
    (forall u v l, edge_label its u v = Some l -> lab_differs l <> None) ->
    (forall n, rc_node its n -> sym_of its n <> None) ->
    exists rc, get_rc its = Ok rc.
  Proof.
    intros Hl Hs. destruct (get_rc its) as [rc|e] eqn:E0; [eauto|]. exfalso.
    destruct (rc_error e E0) as [(_ & u & v & l & H1 & H2)|(_ & n & H1 & H2)].
    - apply (Hl u v l H1 H2).
    - apply (Hs n H1 H2).
  Qed.
End Rc.
