(** C09: the model of get_its satisfies the ITS specification for ALL well-formed G, H with
    injective atom maps; invariance under renaming/reordering; soundness of the checker. *)
From Coq Require Import ZArith List Bool String Lia.
From FGV Require Import Base.Util Base.UtilFacts Base.Bond Base.NX Base.NXFacts.
From FGV Require Import Model.Aam Model.Its Spec.ItsSpec Spec.ItsCheck Proofs.AamProofs Proofs.NXCopyFacts.
Import ListNotations.
Open Scope Z_scope.

(** * usable map number of a node *)

Definition aam_of (a : nattr) : option Z :=
  match a_aam a with Some k => if 0 <=? k then Some k else None | None => None end.

Definition amap (g : graph) (n : Z) : option Z :=
  match node_attr g n with Some a => aam_of a | None => None end.

Lemma aam_of_Some a k : aam_of a = Some k <-> a_aam a = Some k /\ 0 <= k.
Proof.
  unfold aam_of. destruct (a_aam a) as [k0|]; [|split; [discriminate|intros [H _]; discriminate]].
  destruct (Z.leb_spec 0 k0); split.
  - intros [= ->]. split; [reflexivity|assumption].
  - intros [[= ->] _]. reflexivity.
  - discriminate.
  - intros [[= ->] Hk]. lia.
Qed.

Lemma mapped_amap g n k : mapped g n k <-> amap g n = Some k.
Proof.
  unfold mapped, amap. split.
  - intros (a & Ha & Hk & Hpos). rewrite Ha. apply aam_of_Some. split; assumption.
  - destruct (node_attr g n) as [a|]; [|discriminate]. intros H. apply aam_of_Some in H.
    exists a. split; [reflexivity|exact H].
Qed.

Lemma mapped_has_node g n k : mapped g n k -> has_node g n = true.
Proof. intros (a & Ha & _). apply node_attr_has_node. exists a. exact Ha. Qed.

Lemma mapped_nonneg g n k : mapped g n k -> 0 <= k.
Proof. intros (a & _ & _ & H). exact H. Qed.

Lemma mapped_fun g n k k' : mapped g n k -> mapped g n k' -> k = k'.
Proof. rewrite !mapped_amap. congruence. Qed.

Lemma node_attr_In g n a : NoDup (nodes g) -> (node_attr g n = Some a <-> exists ad, In (n, (a, ad)) g).
Proof.
  intros Hnd. unfold node_attr. split.
  - destruct (alookup n g) as [[a0 ad]|] eqn:E; [|discriminate]. intros [= ->].
    exists ad. apply alookup_In. exact E.
  - intros (ad & Hin). rewrite (NoDup_alookup n (a, ad) g Hnd Hin). reflexivity.
Qed.

(** * the eta maps *)

Lemma eta_step_eq acc n a ad :
  eta_step acc (n, (a, ad)) =
  match aam_of a with Some k => (aset n k (fst acc), aset k n (snd acc)) | None => acc end.
Proof.
  destruct acc as [e i]. unfold eta_step, aam_of. destruct (a_aam a) as [k|]; [|reflexivity].
  destruct (0 <=? k); reflexivity.
Qed.

Lemma eta_fwd_fold l : forall acc n, NoDup (map fst l) ->
  alookup n (fst (fold_left eta_step l acc)) =
  match alookup n l with
  | Some (a, _) => match aam_of a with Some k => Some k | None => alookup n (fst acc) end
  | None => alookup n (fst acc)
  end.
Proof.
  induction l as [|[n0 [a0 ad0]] t IH]; intros acc n Hnd; simpl; [reflexivity|].
  inversion Hnd as [|? ? Hni Hnd']; subst. rewrite IH by exact Hnd'. rewrite eta_step_eq.
  destruct (Z.eqb_spec n n0) as [->|Hne].
  - assert (Hnone : alookup n0 t = None) by (apply alookup_None; exact Hni). rewrite Hnone.
    destruct (aam_of a0) as [k|]; simpl; [apply alookup_aset_eq|reflexivity].
  - assert (Hother : alookup n (fst (match aam_of a0 with
                                      | Some k => (aset n0 k (fst acc), aset k n0 (snd acc))
                                      | None => acc end)) = alookup n (fst acc)).
    { destruct (aam_of a0); simpl; [apply alookup_aset_neq; exact Hne|reflexivity]. }
    rewrite Hother. reflexivity.
Qed.

Lemma eta_fwd g n : NoDup (nodes g) -> alookup n (fst (build_eta g)) = amap g n.
Proof.
  intros Hnd. unfold build_eta. rewrite eta_fwd_fold by exact Hnd. simpl.
  unfold amap, node_attr. destruct (alookup n g) as [[a ad]|]; [|reflexivity].
  destruct (aam_of a); reflexivity.
Qed.

Lemma eta_inv_fold_sound l : forall acc k n,
  alookup k (snd (fold_left eta_step l acc)) = Some n ->
  alookup k (snd acc) = Some n \/ exists a ad, In (n, (a, ad)) l /\ aam_of a = Some k.
Proof.
  induction l as [|[n0 [a0 ad0]] t IH]; intros acc k n H; simpl in *; [left; exact H|].
  apply IH in H. destruct H as [H|(a & ad & Hin & Ha)].
  - rewrite eta_step_eq in H. destruct (aam_of a0) as [k0|] eqn:E0; [|left; exact H].
    simpl in H. rewrite alookup_aset in H. destruct (Z.eqb_spec k k0) as [->|Hne]; [|left; exact H].
    injection H as <-. right. exists a0, ad0. split; [left; reflexivity|exact E0].
  - right. exists a, ad. split; [right; exact Hin|exact Ha].
Qed.

Lemma eta_inv_fold_stays l : forall acc k,
  (exists n, alookup k (snd acc) = Some n) ->
  exists n', alookup k (snd (fold_left eta_step l acc)) = Some n'.
Proof.
  induction l as [|[n0 [a0 ad0]] t IH]; intros acc k H; simpl; [exact H|].
  apply IH. rewrite eta_step_eq. destruct (aam_of a0) as [k0|]; [|exact H]. simpl.
  rewrite alookup_aset. destruct (k =? k0); [eexists; reflexivity|exact H].
Qed.

Lemma eta_inv_fold_complete l : forall acc k n a ad,
  In (n, (a, ad)) l -> aam_of a = Some k ->
  exists n', alookup k (snd (fold_left eta_step l acc)) = Some n'.
Proof.
  induction l as [|[n0 [a0 ad0]] t IH]; intros acc k n a ad Hin Ha; simpl; [contradiction|].
  destruct Hin as [Heq|Hin].
  - injection Heq as -> -> ->. apply eta_inv_fold_stays. rewrite eta_step_eq, Ha. simpl.
    exists n. apply alookup_aset_eq.
  - eapply IH; eauto.
Qed.

Lemma eta_inv_sound g k n : NoDup (nodes g) -> alookup k (snd (build_eta g)) = Some n -> mapped g n k.
Proof.
  intros Hnd H. unfold build_eta in H. apply eta_inv_fold_sound in H. simpl in H.
  destruct H as [H|(a & ad & Hin & Ha)]; [discriminate|].
  apply mapped_amap. unfold amap. rewrite (proj2 (node_attr_In g n a Hnd)) by (exists ad; exact Hin).
  exact Ha.
Qed.

Lemma eta_inv_complete g k n : mapped g n k -> exists n', alookup k (snd (build_eta g)) = Some n'.
Proof.
  intros (a & Ha & Hk). unfold node_attr in Ha. destruct (alookup n g) as [[a' ad]|] eqn:E; [|discriminate].
  injection Ha as ->. apply alookup_In in E. unfold build_eta.
  eapply eta_inv_fold_complete; [exact E|]. apply aam_of_Some. exact Hk.
Qed.

Lemma eta_inv_iff g k n : NoDup (nodes g) -> aam_injective g ->
  (alookup k (snd (build_eta g)) = Some n <-> mapped g n k).
Proof.
  intros Hnd Hinj. split; [apply eta_inv_sound; exact Hnd|].
  intros Hm. destruct (eta_inv_complete g k n Hm) as (n' & Hn').
  pose proof (eta_inv_sound g k n' Hnd Hn') as Hm'. rewrite (Hinj n n' k Hm Hm'). exact Hn'.
Qed.

Lemma mk_etas_eq G H :
  mk_etas G H = mkEtas (fst (build_eta G)) (snd (build_eta G)) (fst (build_eta H)) (snd (build_eta H)).
Proof. unfold mk_etas. destruct (build_eta G), (build_eta H). reflexivity. Qed.

Lemma In_entry_unique {A} (l : list (Z * A)) n x y :
  NoDup (map fst l) -> In (n, x) l -> In (n, y) l -> x = y.
Proof.
  intros Hnd Hx Hy. pose proof (NoDup_alookup n x l Hnd Hx) as H1.
  pose proof (NoDup_alookup n y l Hnd Hy) as H2. congruence.
Qed.

(** * get_its under injective atom maps *)

Section GetIts.
  Variables G H : graph.
  Hypothesis HwfG : wf G.
  Hypothesis HwfH : wf H.
  Hypothesis HinjG : aam_injective G.
  Hypothesis HinjH : aam_injective H.

  Let eta := mk_etas G H.

  Lemma etaG_get n : dget (eta_G eta) (Some n) = amap G n.
  Proof. unfold eta. rewrite mk_etas_eq. simpl. apply eta_fwd. apply HwfG. Qed.

  Lemma etaH_get n : dget (eta_H eta) (Some n) = amap H n.
  Proof. unfold eta. rewrite mk_etas_eq. simpl. apply eta_fwd. apply HwfH. Qed.

  Lemma etaGi_iff k n : alookup k (eta_G_inv eta) = Some n <-> mapped G n k.
  Proof. unfold eta. rewrite mk_etas_eq. simpl. apply eta_inv_iff; [apply HwfG|exact HinjG]. Qed.

  Lemma etaHi_iff k n : alookup k (eta_H_inv eta) = Some n <-> mapped H n k.
  Proof. unfold eta. rewrite mk_etas_eq. simpl. apply eta_inv_iff; [apply HwfH|exact HinjH]. Qed.

  Lemma entry_amap g n a ad : wf g -> In (n, (a, ad)) g -> amap g n = aam_of a.
  Proof.
    intros Hwf Hin. unfold amap. destruct Hwf as (Hnd & _).
    rewrite (proj2 (node_attr_In g n a Hnd)) by (exists ad; exact Hin). reflexivity.
  Qed.

  (** ** _add_its_nodes *)

  Definition nodeG_witness (l : graph) (k : Z) (x : nattr) : Prop :=
    exists n a ad m, In (n, (a, ad)) l /\ aam_of a = Some k /\
                     alookup k (eta_H_inv eta) = Some m /\ x = its_node_attr (a_sym a) k (n, m).

  Definition inj_on (l : graph) : Prop :=
    forall n n' a a' ad ad' k, In (n, (a, ad)) l -> In (n', (a', ad')) l ->
                               aam_of a = Some k -> aam_of a' = Some k -> n = n'.

  Definition entry_ok (l : graph) : Prop :=
    forall n a ad, In (n, (a, ad)) l -> dget (eta_G eta) (Some n) = aam_of a.

  Lemma node_step_G_attr its n0 a0 ad0 k x :
    dget (eta_G eta) (Some n0) = aam_of a0 ->
    (forall k0, aam_of a0 = Some k0 -> node_attr its k0 = None) ->
    (node_attr (its_node_step_G eta its (n0, (a0, ad0))) k = Some x <->
     node_attr its k = Some x \/ nodeG_witness [(n0, (a0, ad0))] k x).
  Proof.
    intros Hok Hfresh. unfold its_node_step_G. rewrite Hok.
    destruct (aam_of a0) as [k0|] eqn:E0.
    - simpl dget. destruct (alookup k0 (eta_H_inv eta)) as [m0|] eqn:Em.
      + rewrite node_attr_add_node. destruct (Z.eqb_spec k k0) as [->|Hne].
        * rewrite (Hfresh k0 eq_refl). split.
          -- intros [= <-]. right. exists n0, a0, ad0, m0.
             split; [left; reflexivity|]. split; [exact E0|]. split; [exact Em|reflexivity].
          -- intros [Hx|(n & a & ad & m & Hin & Ha & Hm & ->)]; [discriminate|].
             destruct Hin as [Heq|[]]. injection Heq as <- <- <-. congruence.
        * split; [intros Hx; left; exact Hx|].
          intros [Hx|(n & a & ad & m & Hin & Ha & _)]; [exact Hx|].
          destruct Hin as [Heq|[]]. injection Heq as <- <- <-. congruence.
      + split; [intros Hx; left; exact Hx|].
        intros [Hx|(n & a & ad & m & Hin & Ha & Hm & _)]; [exact Hx|].
        destruct Hin as [Heq|[]]. injection Heq as <- <- <-. congruence.
    - simpl dget. split; [intros Hx; left; exact Hx|].
      intros [Hx|(n & a & ad & m & Hin & Ha & _)]; [exact Hx|].
      destruct Hin as [Heq|[]]. injection Heq as <- <- <-. congruence.
  Qed.

  Lemma nodes_G_loop l : forall its,
    NoDup (map fst l) -> inj_on l -> entry_ok l ->
    (forall n a ad k, In (n, (a, ad)) l -> aam_of a = Some k -> node_attr its k = None) ->
    forall k x, node_attr (fold_left (its_node_step_G eta) l its) k = Some x <->
                node_attr its k = Some x \/ nodeG_witness l k x.
  Proof.
    induction l as [|[n0 [a0 ad0]] t IH]; intros its Hnd Hinj Hok Hfresh k x; cbn [fold_left].
    - split; [intros Hx; left; exact Hx|]. intros [Hx|(n & a & ad & m & [] & _)]. exact Hx.
    - inversion Hnd as [|? ? Hni Hnd']; subst.
      assert (Hok0 : dget (eta_G eta) (Some n0) = aam_of a0) by (apply (Hok n0 a0 ad0); left; reflexivity).
      assert (Hfresh0 : forall k0, aam_of a0 = Some k0 -> node_attr its k0 = None).
      { intros k0 Hk0. apply (Hfresh n0 a0 ad0 k0); [left; reflexivity|exact Hk0]. }
      rewrite IH.
      + rewrite (node_step_G_attr its n0 a0 ad0 k x Hok0 Hfresh0). split.
        * intros [[Hx|(n & a & ad & m & Hin & Hr)]|(n & a & ad & m & Hin & Hr)].
          -- left. exact Hx.
          -- right. exists n, a, ad, m. split; [|exact Hr]. destruct Hin as [Heq|[]]. left. exact Heq.
          -- right. exists n, a, ad, m. split; [right; exact Hin|exact Hr].
        * intros [Hx|(n & a & ad & m & [Heq|Hin] & Hr)].
          -- left. left. exact Hx.
          -- left. right. exists n, a, ad, m. split; [left; exact Heq|exact Hr].
          -- right. exists n, a, ad, m. split; [exact Hin|exact Hr].
      + exact Hnd'.
      + intros n n' a a' ad ad' k0 H1 H2. apply (Hinj n n' a a' ad ad' k0); right; assumption.
      + intros n a ad Hin. apply (Hok n a ad). right. exact Hin.
      + intros n a ad k0 Hin Ha.
        destruct (node_attr (its_node_step_G eta its (n0, (a0, ad0))) k0) as [y|] eqn:Ey; [|reflexivity].
        exfalso. apply (node_step_G_attr its n0 a0 ad0 k0 y Hok0 Hfresh0) in Ey.
        destruct Ey as [Ey|(n1 & a1 & ad1 & m1 & [Heq|[]] & Ha1 & _)].
        * rewrite (Hfresh n a ad k0) in Ey; [discriminate|right; exact Hin|exact Ha].
        * injection Heq as <- <- <-.
          assert (n0 = n) by (apply (Hinj n0 n a0 a ad0 ad k0); [left; reflexivity|right; exact Hin|exact Ha1|exact Ha]).
          subst n. apply Hni. apply (in_map fst) in Hin. exact Hin.
  Qed.

  Lemma inj_on_G : inj_on G.
  Proof.
    intros n n' a a' ad ad' k H1 H2 Ha Ha'. apply (HinjG n n' k); apply mapped_amap.
    - rewrite (entry_amap G n a ad HwfG H1). exact Ha.
    - rewrite (entry_amap G n' a' ad' HwfG H2). exact Ha'.
  Qed.

  Lemma entry_ok_G : entry_ok G.
  Proof. intros n a ad Hin. rewrite etaG_get. apply (entry_amap G n a ad HwfG Hin). Qed.

  Definition both_mapped (k : Z) (x : nattr) : Prop :=
    exists n m, mapped G n k /\ mapped H m k /\ x = its_node_attr (sym_of G n) k (n, m).

  Lemma nodeG_witness_G k x : nodeG_witness G k x <-> both_mapped k x.
  Proof.
    split.
    - intros (n & a & ad & m & Hin & Ha & Hm & ->). exists n, m.
      assert (Hna : node_attr G n = Some a).
      { apply node_attr_In; [apply HwfG|]. exists ad. exact Hin. }
      split; [|split].
      + apply mapped_amap. unfold amap. rewrite Hna. exact Ha.
      + apply etaHi_iff. exact Hm.
      + unfold sym_of. rewrite Hna. reflexivity.
    - intros (n & m & HG & HH & ->). pose proof HG as (a & Hna & Hk).
      apply node_attr_In in Hna; [|apply HwfG]. destruct Hna as (ad & Hin).
      exists n, a, ad, m. split; [exact Hin|]. split; [apply aam_of_Some; exact Hk|].
      split; [apply etaHi_iff; exact HH|]. unfold sym_of.
      rewrite (proj2 (node_attr_In G n a (proj1 HwfG))) by (exists ad; exact Hin). reflexivity.
  Qed.

  Let itsG := fold_left (its_node_step_G eta) G empty_graph.

  Lemma nodes_after_G k x : node_attr itsG k = Some x <-> both_mapped k x.
  Proof.
    unfold itsG. rewrite nodes_G_loop.
    - rewrite nodeG_witness_G. split; [intros [Hx|Hx]; [discriminate|exact Hx]|intros Hx; right; exact Hx].
    - apply HwfG.
    - exact inj_on_G.
    - exact entry_ok_G.
    - intros. reflexivity.
  Qed.

  Lemma node_step_H_noop its e :
    (forall k n m, mapped G n k -> mapped H m k -> has_node its k = true) ->
    its_node_step_H eta its e = its.
  Proof.
    intros Hhas. destruct e as [n [a ad]]. unfold its_node_step_H. rewrite etaH_get.
    destruct (amap H n) as [k|] eqn:Ek; [|reflexivity]. simpl dget.
    destruct (alookup k (eta_G_inv eta)) as [nG|] eqn:Eg; [|reflexivity].
    apply etaGi_iff in Eg. apply mapped_amap in Ek. rewrite (Hhas k nG n Eg Ek). reflexivity.
  Qed.

  Lemma nodes_H_loop l its :
    (forall k n m, mapped G n k -> mapped H m k -> has_node its k = true) ->
    fold_left (its_node_step_H eta) l its = its.
  Proof.
    intros Hhas. induction l as [|e t IH]; simpl; [reflexivity|].
    rewrite node_step_H_noop by exact Hhas. exact IH.
  Qed.

  Lemma add_its_nodes_eq : add_its_nodes empty_graph G H eta = itsG.
  Proof.
    unfold add_its_nodes. fold itsG. apply nodes_H_loop. intros k n m HG HH.
    apply node_attr_has_node. exists (its_node_attr (sym_of G n) k (n, m)).
    apply nodes_after_G. exists n, m. split; [exact HG|]. split; [exact HH|reflexivity].
  Qed.

  Lemma node_step_G_edges its e u v : edge_label (its_node_step_G eta its e) u v = edge_label its u v.
  Proof.
    destruct e as [n [a ad]]. unfold its_node_step_G.
    destruct (dget (eta_G eta) (Some n)) as [k|]; [|reflexivity].
    destruct (dget (eta_H_inv eta) (Some k)); [apply edge_label_add_node|reflexivity].
  Qed.

  Lemma node_step_G_wf its e : wf its -> wf (its_node_step_G eta its e).
  Proof.
    intros Hwf. destruct e as [n [a ad]]. unfold its_node_step_G.
    destruct (dget (eta_G eta) (Some n)) as [k|]; [|exact Hwf].
    destruct (dget (eta_H_inv eta) (Some k)); [apply wf_add_node|]; exact Hwf.
  Qed.

  Lemma itsG_no_edges u v : edge_label itsG u v = None.
  Proof.
    unfold itsG. assert (Hgen : forall l its, edge_label (fold_left (its_node_step_G eta) l its) u v = edge_label its u v).
    { induction l as [|e t IH]; intros its; simpl; [reflexivity|]. rewrite IH. apply node_step_G_edges. }
    rewrite Hgen. reflexivity.
  Qed.

  Lemma itsG_wf : wf itsG.
  Proof.
    unfold itsG. assert (Hgen : forall l its, wf its -> wf (fold_left (its_node_step_G eta) l its)).
    { induction l as [|e t IH]; intros its Hw; simpl; [exact Hw|]. apply IH. apply node_step_G_wf. exact Hw. }
    apply Hgen. apply wf_empty.
  Qed.

  (** ** _add_its_edges: both loops as folds over candidate lists *)

  Definition candG (e : Z * Z * label) : list (Z * Z * label) :=
    let '(n1, n2, lb) := e in
    match amap G n1, amap G n2 with
    | Some k1, Some k2 =>
        match alookup k1 (eta_H_inv eta), alookup k2 (eta_H_inv eta) with
        | Some h1, Some h2 =>
            if (0 <? k1) && (0 <? k2) then [(k1, k2, Pair (order_of lb) (order_in H h1 h2))] else []
        | _, _ => []
        end
    | _, _ => []
    end.

  Definition candH (e : Z * Z * label) : list (Z * Z * label) :=
    let '(n1, n2, lb) := e in
    match amap H n1, amap H n2 with
    | Some k1, Some k2 =>
        match alookup k1 (eta_G_inv eta), alookup k2 (eta_G_inv eta) with
        | Some g1, Some g2 =>
            if negb (has_edge G g1 g2) && (0 <? k1) && (0 <? k2) then [(k1, k2, Pair 0 (order_of lb))] else []
        | _, _ => []
        end
    | _, _ => []
    end.

  Lemma edge_step_G_eq its e : its_edge_step_G eta H its e = fold_left add_edge_if_absent (candG e) its.
  Proof.
    destruct e as [[n1 n2] lb]. unfold its_edge_step_G, candG. rewrite !etaG_get.
    destruct (amap G n1) as [k1|]; destruct (amap G n2) as [k2|]; simpl dget.
    - destruct (alookup k1 (eta_H_inv eta)) as [h1|]; destruct (alookup k2 (eta_H_inv eta)) as [h2|];
        try reflexivity.
      simpl ohas_edge. simpl opos.
      destruct (0 <? k1); destruct (0 <? k2); simpl; destruct (has_edge its k1 k2); reflexivity.
    - destruct (alookup k1 (eta_H_inv eta)); reflexivity.
    - reflexivity.
    - reflexivity.
  Qed.

  Lemma G_loop_eq es : forall its,
    fold_left (its_edge_step_G eta H) es its = add_edges_first its (flat_map candG es).
  Proof.
    unfold add_edges_first. induction es as [|e t IH]; intros its; simpl; [reflexivity|].
    rewrite fold_left_app, edge_step_G_eq. apply IH.
  Qed.

  Lemma edge_step_H_eq its e : its_edge_step_H eta G its e = add_edges_from its (candH e).
  Proof.
    destruct e as [[n1 n2] lb]. unfold its_edge_step_H, candH, add_edges_from. rewrite !etaH_get.
    destruct (amap H n1) as [k1|]; destruct (amap H n2) as [k2|]; simpl dget.
    - destruct (alookup k1 (eta_G_inv eta)) as [g1|]; destruct (alookup k2 (eta_G_inv eta)) as [g2|];
        try reflexivity.
      simpl opos. destruct (negb (has_edge G g1 g2) && (0 <? k1) && (0 <? k2)); reflexivity.
    - destruct (alookup k1 (eta_G_inv eta)); reflexivity.
    - reflexivity.
    - reflexivity.
  Qed.

  Lemma H_loop_eq es : forall its,
    fold_left (its_edge_step_H eta G) es its = add_edges_from its (flat_map candH es).
  Proof.
    induction es as [|e t IH]; intros its; simpl; [reflexivity|].
    unfold add_edges_from in *. rewrite fold_left_app. rewrite edge_step_H_eq. apply IH.
  Qed.

  Let candsG := flat_map candG (edges G).
  Let candsH := flat_map candH (edges H).

  Lemma get_its_eq : get_its G H = add_edges_from (add_edges_first itsG candsG) candsH.
  Proof.
    unfold get_its. cbv zeta. change (mk_etas G H) with eta. rewrite add_its_nodes_eq.
    unfold add_its_edges. rewrite G_loop_eq, H_loop_eq. reflexivity.
  Qed.

  Lemma In_candsG u v lb :
    In (u, v, lb) candsG <->
    exists n1 n2 lbG h1 h2,
      In (n1, n2, lbG) (edges G) /\ mapped G n1 u /\ mapped G n2 v /\ mapped H h1 u /\ mapped H h2 v
      /\ 0 < u /\ 0 < v /\ lb = Pair (order_of lbG) (order_in H h1 h2).
  Proof.
    unfold candsG. rewrite in_flat_map. split.
    - intros ([[n1 n2] lbG] & Hin & Hc). unfold candG in Hc.
      destruct (amap G n1) as [k1|] eqn:E1; [|contradiction].
      destruct (amap G n2) as [k2|] eqn:E2; [|contradiction].
      destruct (alookup k1 (eta_H_inv eta)) as [h1|] eqn:Eh1; [|contradiction].
      destruct (alookup k2 (eta_H_inv eta)) as [h2|] eqn:Eh2; [|contradiction].
      destruct (Z.ltb_spec 0 k1); [|contradiction]. destruct (Z.ltb_spec 0 k2); [|contradiction].
      simpl in Hc. destruct Hc as [Heq|[]]. injection Heq as <- <- <-.
      exists n1, n2, lbG, h1, h2. repeat split; try assumption; try (apply mapped_amap; assumption).
      + apply etaHi_iff. exact Eh1.
      + apply etaHi_iff. exact Eh2.
    - intros (n1 & n2 & lbG & h1 & h2 & Hin & H1 & H2 & H3 & H4 & Hu & Hv & ->).
      exists (n1, n2, lbG). split; [exact Hin|]. unfold candG.
      apply mapped_amap in H1. apply mapped_amap in H2. rewrite H1, H2.
      apply etaHi_iff in H3. apply etaHi_iff in H4. rewrite H3, H4.
      apply Z.ltb_lt in Hu. apply Z.ltb_lt in Hv. rewrite Hu, Hv. left. reflexivity.
  Qed.

  Lemma In_candsH u v lb :
    In (u, v, lb) candsH <->
    exists m1 m2 lbH g1 g2,
      In (m1, m2, lbH) (edges H) /\ mapped H m1 u /\ mapped H m2 v /\ mapped G g1 u /\ mapped G g2 v
      /\ 0 < u /\ 0 < v /\ edge_label G g1 g2 = None /\ lb = Pair 0 (order_of lbH).
  Proof.
    unfold candsH. rewrite in_flat_map. split.
    - intros ([[m1 m2] lbH] & Hin & Hc). unfold candH in Hc.
      destruct (amap H m1) as [k1|] eqn:E1; [|contradiction].
      destruct (amap H m2) as [k2|] eqn:E2; [|contradiction].
      destruct (alookup k1 (eta_G_inv eta)) as [g1|] eqn:Eg1; [|contradiction].
      destruct (alookup k2 (eta_G_inv eta)) as [g2|] eqn:Eg2; [|contradiction].
      unfold has_edge in Hc. destruct (edge_label G g1 g2) eqn:EG; [contradiction|].
      destruct (Z.ltb_spec 0 k1); [|contradiction]. destruct (Z.ltb_spec 0 k2); [|contradiction].
      simpl in Hc. destruct Hc as [Heq|[]]. injection Heq as <- <- <-.
      exists m1, m2, lbH, g1, g2. repeat split; try assumption; try (apply mapped_amap; assumption).
      + apply etaGi_iff. exact Eg1.
      + apply etaGi_iff. exact Eg2.
    - intros (m1 & m2 & lbH & g1 & g2 & Hin & H1 & H2 & H3 & H4 & Hu & Hv & HG & ->).
      exists (m1, m2, lbH). split; [exact Hin|]. unfold candH.
      apply mapped_amap in H1. apply mapped_amap in H2. rewrite H1, H2.
      apply etaGi_iff in H3. apply etaGi_iff in H4. rewrite H3, H4.
      unfold has_edge. rewrite HG.
      apply Z.ltb_lt in Hu. apply Z.ltb_lt in Hv. rewrite Hu, Hv. left. reflexivity.
  Qed.

  Lemma edge_label_sym g u v : wf g -> edge_label g u v = edge_label g v u.
  Proof.
    intros (_ & _ & Hs). destruct (edge_label g u v) as [l|] eqn:E1.
    - symmetry. apply Hs. exact E1.
    - destruct (edge_label g v u) as [l|] eqn:E2; [|reflexivity]. apply Hs in E2. congruence.
  Qed.

  (* every candidate matching {x, y} comes from atoms carrying x and y on both sides *)
  Lemma candsG_mapped u v lb x y :
    In (u, v, lb) candsG -> ematch x y u v = true ->
    exists n1 n2 m1 m2, mapped G n1 x /\ mapped G n2 y /\ mapped H m1 x /\ mapped H m2 y /\ 0 < x /\ 0 < y.
  Proof.
    intros Hin Hm. apply In_candsG in Hin.
    destruct Hin as (n1 & n2 & lbG & h1 & h2 & _ & H1 & H2 & H3 & H4 & Hu & Hv & _).
    apply ematch_true in Hm. destruct Hm as [[-> ->]|[-> ->]].
    - exists n1, n2, h1, h2. repeat split; assumption.
    - exists n2, n1, h2, h1. repeat split; assumption.
  Qed.

  Lemma candsH_mapped u v lb x y :
    In (u, v, lb) candsH -> ematch x y u v = true ->
    exists n1 n2 m1 m2, mapped G n1 x /\ mapped G n2 y /\ mapped H m1 x /\ mapped H m2 y /\ 0 < x /\ 0 < y.
  Proof.
    intros Hin Hm. apply In_candsH in Hin.
    destruct Hin as (m1 & m2 & lbH & g1 & g2 & _ & H1 & H2 & H3 & H4 & Hu & Hv & _).
    apply ematch_true in Hm. destruct Hm as [[-> ->]|[-> ->]].
    - exists g1, g2, m1, m2. repeat split; assumption.
    - exists g2, g1, m2, m1. repeat split; assumption.
  Qed.

  (* under injectivity all candidates for one pair of map numbers carry the same label *)
  Lemma candsG_label u v lb x y n1 n2 m1 m2 :
    In (u, v, lb) candsG -> ematch x y u v = true ->
    mapped G n1 x -> mapped G n2 y -> mapped H m1 x -> mapped H m2 y ->
    exists lbG, edge_label G n1 n2 = Some lbG /\ lb = Pair (order_of lbG) (oorder (edge_label H m1 m2)).
  Proof.
    intros Hin Hm G1 G2 H1 H2. apply In_candsG in Hin.
    destruct Hin as (a1 & a2 & lbG & h1 & h2 & Hed & A1 & A2 & B1 & B2 & _ & _ & ->).
    apply in_edges_label in Hed; [|exact HwfG]. exists lbG.
    apply ematch_true in Hm. destruct Hm as [[-> ->]|[-> ->]].
    - rewrite (HinjG n1 a1 u G1 A1), (HinjG n2 a2 v G2 A2), (HinjH m1 h1 u H1 B1), (HinjH m2 h2 v H2 B2).
      split; [exact Hed|reflexivity].
    - rewrite (HinjG n1 a2 v G1 A2), (HinjG n2 a1 u G2 A1), (HinjH m1 h2 v H1 B2), (HinjH m2 h1 u H2 B1).
      split; [rewrite (edge_label_sym G a2 a1 HwfG); exact Hed|].
      unfold order_in. rewrite (edge_label_sym H h2 h1 HwfH). reflexivity.
  Qed.

  Lemma candsH_label u v lb x y n1 n2 m1 m2 :
    In (u, v, lb) candsH -> ematch x y u v = true ->
    mapped G n1 x -> mapped G n2 y -> mapped H m1 x -> mapped H m2 y ->
    edge_label G n1 n2 = None /\
    exists lbH, edge_label H m1 m2 = Some lbH /\ lb = Pair 0 (order_of lbH).
  Proof.
    intros Hin Hm G1 G2 H1 H2. apply In_candsH in Hin.
    destruct Hin as (b1 & b2 & lbH & g1 & g2 & Hed & B1 & B2 & A1 & A2 & _ & _ & HG & ->).
    apply in_edges_label in Hed; [|exact HwfH].
    apply ematch_true in Hm. destruct Hm as [[-> ->]|[-> ->]].
    - rewrite (HinjG n1 g1 u G1 A1), (HinjG n2 g2 v G2 A2), (HinjH m1 b1 u H1 B1), (HinjH m2 b2 v H2 B2).
      split; [exact HG|]. exists lbH. split; [exact Hed|reflexivity].
    - rewrite (HinjG n1 g2 v G1 A2), (HinjG n2 g1 u G2 A1), (HinjH m1 b2 v H1 B2), (HinjH m2 b1 u H2 B1).
      split; [rewrite (edge_label_sym G g2 g1 HwfG); exact HG|].
      exists lbH. split; [rewrite (edge_label_sym H b2 b1 HwfH); exact Hed|reflexivity].
  Qed.

  Lemma candsG_exists x y n1 n2 m1 m2 lbG :
    mapped G n1 x -> mapped G n2 y -> mapped H m1 x -> mapped H m2 y -> 0 < x -> 0 < y ->
    edge_label G n1 n2 = Some lbG ->
    exists u v lb, In (u, v, lb) candsG /\ ematch x y u v = true.
  Proof.
    intros G1 G2 H1 H2 Hx Hy HG. destruct (edges_complete G n1 n2 lbG HwfG HG) as [Hin|Hin].
    - exists x, y, (Pair (order_of lbG) (order_in H m1 m2)). split; [|apply ematch_refl].
      apply In_candsG. exists n1, n2, lbG, m1, m2. repeat split; assumption.
    - exists y, x, (Pair (order_of lbG) (order_in H m2 m1)). split; [|apply ematch_swap].
      apply In_candsG. exists n2, n1, lbG, m2, m1. repeat split; assumption.
  Qed.

  Lemma candsH_exists x y n1 n2 m1 m2 lbH :
    mapped G n1 x -> mapped G n2 y -> mapped H m1 x -> mapped H m2 y -> 0 < x -> 0 < y ->
    edge_label G n1 n2 = None -> edge_label H m1 m2 = Some lbH ->
    exists u v lb, In (u, v, lb) candsH /\ ematch x y u v = true.
  Proof.
    intros G1 G2 H1 H2 Hx Hy HG HH. destruct (edges_complete H m1 m2 lbH HwfH HH) as [Hin|Hin].
    - exists x, y, (Pair 0 (order_of lbH)). split; [|apply ematch_refl].
      apply In_candsH. exists m1, m2, lbH, n1, n2. repeat split; assumption.
    - exists y, x, (Pair 0 (order_of lbH)). split; [|apply ematch_swap].
      apply In_candsH. exists m2, m1, lbH, n2, n1. repeat split; try assumption.
      rewrite (edge_label_sym G n2 n1 HwfG). exact HG.
  Qed.

  Lemma combine_Some_l lbG b : combine_orders (Some lbG) b = Some (Pair (order_of lbG) (oorder b)).
  Proof. destruct b; reflexivity. Qed.

  (** ** the two clauses of the specification *)

  Lemma cands_present_G u v lb :
    In (u, v, lb) candsG -> has_node itsG u = true /\ has_node itsG v = true.
  Proof.
    intros Hin. apply In_candsG in Hin.
    destruct Hin as (n1 & n2 & lbG & h1 & h2 & _ & H1 & H2 & H3 & H4 & _).
    split; apply node_attr_has_node; eexists; apply nodes_after_G.
    - exists n1, h1. split; [exact H1|]. split; [exact H3|reflexivity].
    - exists n2, h2. split; [exact H2|]. split; [exact H4|reflexivity].
  Qed.

  Lemma cands_present_H u v lb :
    In (u, v, lb) candsH -> has_node itsG u = true /\ has_node itsG v = true.
  Proof.
    intros Hin. apply In_candsH in Hin.
    destruct Hin as (m1 & m2 & lbH & g1 & g2 & _ & H1 & H2 & H3 & H4 & _).
    split; apply node_attr_has_node; eexists; apply nodes_after_G.
    - exists g1, m1. split; [exact H3|]. split; [exact H1|reflexivity].
    - exists g2, m2. split; [exact H4|]. split; [exact H2|reflexivity].
  Qed.

  Lemma has_node_node_attr g n : has_node g n = is_some (node_attr g n).
  Proof. unfold has_node, node_attr. destruct (alookup n g) as [[a ad]|]; reflexivity. Qed.

  Lemma get_its_node_attr k : node_attr (get_its G H) k = node_attr itsG k.
  Proof.
    rewrite get_its_eq.
    assert (H1 : forall m, node_attr (add_edges_first itsG candsG) m = node_attr itsG m).
    { intros m. apply node_attr_add_edges_first_present. exact cands_present_G. }
    rewrite node_attr_add_edges_from_present; [apply H1|].
    intros u v lb Hin. rewrite !has_node_node_attr, !H1, <- !has_node_node_attr.
    eapply cands_present_H. exact Hin.
  Qed.

  Theorem get_its_nodes_spec : its_nodes_spec G H (get_its G H).
  Proof. intros k a. rewrite get_its_node_attr. apply nodes_after_G. Qed.

  Theorem get_its_edges_spec : its_edges_spec G H (get_its G H).
  Proof.
    intros k l lb. rewrite get_its_eq, edge_label_add_edges_from.
    rewrite edge_label_add_edges_first by exact itsG_wf. rewrite itsG_no_edges. split.
    - destruct (find_last candsH k l) as [lb'|] eqn:EL.
      + intros [= ->]. apply find_last_Some in EL. destruct EL as (u & v & Hin & Hm).
        destruct (candsH_mapped u v lb k l Hin Hm) as (n1 & n2 & m1 & m2 & G1 & G2 & H1 & H2 & Hk & Hl).
        destruct (candsH_label u v lb k l n1 n2 m1 m2 Hin Hm G1 G2 H1 H2) as (HG & lbH & HH & ->).
        exists n1, n2, m1, m2. repeat split; try assumption. rewrite HG, HH. reflexivity.
      + intros Hf. apply find_first_Some in Hf. destruct Hf as (u & v & Hin & Hm).
        destruct (candsG_mapped u v lb k l Hin Hm) as (n1 & n2 & m1 & m2 & G1 & G2 & H1 & H2 & Hk & Hl).
        destruct (candsG_label u v lb k l n1 n2 m1 m2 Hin Hm G1 G2 H1 H2) as (lbG & HG & ->).
        exists n1, n2, m1, m2. repeat split; try assumption. rewrite HG. apply combine_Some_l.
    - intros (n1 & n2 & m1 & m2 & G1 & G2 & H1 & H2 & Hk & Hl & Hc).
      destruct (edge_label G n1 n2) as [lbG|] eqn:EG.
      + rewrite combine_Some_l in Hc. injection Hc as <-.
        destruct (find_last candsH k l) as [lb'|] eqn:EL.
        * apply find_last_Some in EL. destruct EL as (u & v & Hin & Hm).
          destruct (candsH_label u v lb' k l n1 n2 m1 m2 Hin Hm G1 G2 H1 H2) as (HG & _). congruence.
        * destruct (find_first candsG k l) as [lb'|] eqn:EF.
          -- apply find_first_Some in EF. destruct EF as (u & v & Hin & Hm).
             destruct (candsG_label u v lb' k l n1 n2 m1 m2 Hin Hm G1 G2 H1 H2) as (lbG' & HG & ->).
             congruence.
          -- destruct (candsG_exists k l n1 n2 m1 m2 lbG G1 G2 H1 H2 Hk Hl EG) as (u & v & lb' & Hin & Hm).
             rewrite (find_first_None _ _ _ EF u v lb' Hin) in Hm. discriminate.
      + destruct (edge_label H m1 m2) as [lbH|] eqn:EH; [|discriminate]. simpl in Hc. injection Hc as <-.
        destruct (find_last candsH k l) as [lb'|] eqn:EL.
        * apply find_last_Some in EL. destruct EL as (u & v & Hin & Hm).
          destruct (candsH_label u v lb' k l n1 n2 m1 m2 Hin Hm G1 G2 H1 H2) as (_ & lbH' & HH & ->).
          congruence.
        * destruct (candsH_exists k l n1 n2 m1 m2 lbH G1 G2 H1 H2 Hk Hl EG EH) as (u & v & lb' & Hin & Hm).
          rewrite (find_last_None _ _ _ EL u v lb' Hin) in Hm. discriminate.
  Qed.

  Theorem get_its_spec : its_spec G H (get_its G H).
  Proof. split; [exact get_its_nodes_spec|exact get_its_edges_spec]. Qed.

  Lemma get_its_wf : wf (get_its G H).
  Proof. rewrite get_its_eq. apply wf_add_edges_from. apply wf_add_edges_first. exact itsG_wf. Qed.
End GetIts.

(** * invariance under renaming and reordering *)

Lemma renaming_mapped f g g' n' k :
  renaming f g g' -> (mapped g' n' k <-> exists n, n' = f n /\ mapped g n k).
Proof.
  intros (_ & Hattr & Hsurj & _). split.
  - intros Hm. destruct (Hsurj n' (mapped_has_node _ _ _ Hm)) as (n & Hn & ->).
    exists n. split; [reflexivity|]. unfold mapped in *. rewrite (Hattr n Hn) in Hm. exact Hm.
  - intros (n & -> & Hm). unfold mapped in *. rewrite (Hattr n (mapped_has_node _ _ _ Hm)). exact Hm.
Qed.

Lemma renaming_injective f g g' : renaming f g g' -> aam_injective g -> aam_injective g'.
Proof.
  intros Hr Hinj n' m' k Hn Hm. apply (renaming_mapped f g g' n' k Hr) in Hn.
  apply (renaming_mapped f g g' m' k Hr) in Hm. destruct Hn as (n & -> & Hn). destruct Hm as (m & -> & Hm).
  f_equal. apply (Hinj n m k); assumption.
Qed.

Lemma renaming_sym_of f g g' n : renaming f g g' -> has_node g n = true -> sym_of g' (f n) = sym_of g n.
Proof. intros (_ & Hattr & _) Hn. unfold sym_of. rewrite (Hattr n Hn). reflexivity. Qed.

(* the specification determines the ITS as a labelled graph, whatever ids and orders the
   inputs use *)
Lemma its_spec_transfer f f' G G' H H' X Y :
  renaming f G G' -> renaming f' H H' -> its_spec G H X -> its_spec G' H' Y -> equiv_mod_idx X Y.
Proof.
  intros RG RH [XN XE] [YN YE].
  assert (Nfwd : forall k a, node_attr X k = Some a ->
                   exists a', node_attr Y k = Some a' /\ drop_idx a' = drop_idx a).
  { intros k a Ha. apply XN in Ha. destruct Ha as (n & m & HG & HH & ->).
    exists (its_node_attr (sym_of G' (f n)) k (f n, f' m)). split.
    - apply YN. exists (f n), (f' m). split; [|split; [|reflexivity]].
      + apply (renaming_mapped f G G' (f n) k RG). exists n. split; [reflexivity|exact HG].
      + apply (renaming_mapped f' H H' (f' m) k RH). exists m. split; [reflexivity|exact HH].
    - rewrite (renaming_sym_of f G G' n RG (mapped_has_node _ _ _ HG)). reflexivity. }
  assert (Nbwd : forall k a', node_attr Y k = Some a' -> exists a, node_attr X k = Some a).
  { intros k a' Ha. apply YN in Ha. destruct Ha as (n' & m' & HG & HH & _).
    apply (renaming_mapped f G G' n' k RG) in HG. apply (renaming_mapped f' H H' m' k RH) in HH.
    destruct HG as (n & _ & HG). destruct HH as (m & _ & HH).
    eexists. apply XN. exists n, m. split; [exact HG|]. split; [exact HH|reflexivity]. }
  assert (Efwd : forall k l lb, edge_label X k l = Some lb -> edge_label Y k l = Some lb).
  { intros k l lb He. apply XE in He. destruct He as (n1 & n2 & m1 & m2 & G1 & G2 & H1 & H2 & Hk & Hl & Hc).
    apply YE. exists (f n1), (f n2), (f' m1), (f' m2).
    split; [apply (renaming_mapped f G G' _ k RG); exists n1; split; [reflexivity|exact G1]|].
    split; [apply (renaming_mapped f G G' _ l RG); exists n2; split; [reflexivity|exact G2]|].
    split; [apply (renaming_mapped f' H H' _ k RH); exists m1; split; [reflexivity|exact H1]|].
    split; [apply (renaming_mapped f' H H' _ l RH); exists m2; split; [reflexivity|exact H2]|].
    split; [exact Hk|]. split; [exact Hl|].
    destruct RG as (_ & _ & _ & RGe). destruct RH as (_ & _ & _ & RHe).
    rewrite (RGe n1 n2 (mapped_has_node _ _ _ G1) (mapped_has_node _ _ _ G2)).
    rewrite (RHe m1 m2 (mapped_has_node _ _ _ H1) (mapped_has_node _ _ _ H2)). exact Hc. }
  assert (Ebwd : forall k l lb, edge_label Y k l = Some lb -> edge_label X k l = Some lb).
  { intros k l lb He. apply YE in He.
    destruct He as (n1' & n2' & m1' & m2' & G1 & G2 & H1 & H2 & Hk & Hl & Hc).
    apply (renaming_mapped f G G' _ k RG) in G1. apply (renaming_mapped f G G' _ l RG) in G2.
    apply (renaming_mapped f' H H' _ k RH) in H1. apply (renaming_mapped f' H H' _ l RH) in H2.
    destruct G1 as (n1 & -> & G1). destruct G2 as (n2 & -> & G2).
    destruct H1 as (m1 & -> & H1). destruct H2 as (m2 & -> & H2).
    apply XE. exists n1, n2, m1, m2. repeat (split; [assumption|]).
    destruct RG as (_ & _ & _ & RGe). destruct RH as (_ & _ & _ & RHe).
    rewrite (RGe n1 n2 (mapped_has_node _ _ _ G1) (mapped_has_node _ _ _ G2)) in Hc.
    rewrite (RHe m1 m2 (mapped_has_node _ _ _ H1) (mapped_has_node _ _ _ H2)) in Hc. exact Hc. }
  split.
  - intros k. destruct (node_attr X k) as [a|] eqn:EX.
    + destruct (Nfwd k a EX) as (a' & EY & Hd). rewrite EY. simpl. f_equal. symmetry. exact Hd.
    + destruct (node_attr Y k) as [a'|] eqn:EY; [|reflexivity].
      destruct (Nbwd k a' EY) as (a & Ha). congruence.
  - intros k l. destruct (edge_label X k l) as [lb|] eqn:EX.
    + symmetry. apply Efwd. exact EX.
    + destruct (edge_label Y k l) as [lb|] eqn:EY; [|reflexivity]. apply Ebwd in EY. congruence.
Qed.

Theorem get_its_invariant f f' G G' H H' :
  wf G -> wf H -> wf G' -> wf H' -> aam_injective G -> aam_injective H ->
  renaming f G G' -> renaming f' H H' ->
  equiv_mod_idx (get_its G H) (get_its G' H').
Proof.
  intros WG WH WG' WH' IG IH RG RH.
  apply (its_spec_transfer f f' G G' H H'); try assumption.
  - apply get_its_spec; assumption.
  - apply get_its_spec; try assumption.
    + eapply renaming_injective; eauto.
    + eapply renaming_injective; eauto.
Qed.

(** * reader-friendly corollaries of the edge clause *)

Corollary get_its_edge_label G H k l n1 n2 m1 m2 :
  wf G -> wf H -> aam_injective G -> aam_injective H ->
  mapped G n1 k -> mapped G n2 l -> mapped H m1 k -> mapped H m2 l -> 0 < k -> 0 < l ->
  edge_label (get_its G H) k l = combine_orders (edge_label G n1 n2) (edge_label H m1 m2).
Proof.
  intros WG WH IG IH G1 G2 H1 H2 Hk Hl.
  pose proof (get_its_edges_spec G H WG WH IG IH) as HE.
  destruct (combine_orders (edge_label G n1 n2) (edge_label H m1 m2)) as [lb|] eqn:Ec.
  - apply HE. exists n1, n2, m1, m2. repeat (split; [assumption|]). exact Ec.
  - destruct (edge_label (get_its G H) k l) as [lb|] eqn:EL; [|reflexivity].
    apply HE in EL. destruct EL as (a1 & a2 & b1 & b2 & A1 & A2 & B1 & B2 & _ & _ & Hc).
    rewrite (IG a1 n1 k A1 G1), (IG a2 n2 l A2 G2), (IH b1 m1 k B1 H1), (IH b2 m2 l B2 H2) in Hc.
    congruence.
Qed.

Corollary get_its_edge_nodes G H k l lb :
  wf G -> wf H -> aam_injective G -> aam_injective H ->
  edge_label (get_its G H) k l = Some lb ->
  0 < k /\ 0 < l /\ has_node (get_its G H) k = true /\ has_node (get_its G H) l = true.
Proof.
  intros WG WH IG IH EL. apply (get_its_edges_spec G H WG WH IG IH) in EL.
  destruct EL as (n1 & n2 & m1 & m2 & G1 & G2 & H1 & H2 & Hk & Hl & _).
  split; [exact Hk|]. split; [exact Hl|].
  split; apply node_attr_has_node; eexists; apply (get_its_nodes_spec G H WG WH IG IH).
  - exists n1, m1. split; [exact G1|]. split; [exact H1|reflexivity].
  - exists n2, m2. split; [exact G2|]. split; [exact H2|reflexivity].
Qed.

(* on scalar-labelled molecule graphs the two components are the bond orders themselves *)
Corollary get_its_edge_scalar G H k l n1 n2 m1 m2 a b :
  wf G -> wf H -> aam_injective G -> aam_injective H ->
  mapped G n1 k -> mapped G n2 l -> mapped H m1 k -> mapped H m2 l -> 0 < k -> 0 < l ->
  edge_label G n1 n2 = Some (Scalar a) -> edge_label H m1 m2 = Some (Scalar b) ->
  edge_label (get_its G H) k l = Some (Pair a b).
Proof.
  intros WG WH IG IH G1 G2 H1 H2 Hk Hl EG EH.
  rewrite (get_its_edge_label G H k l n1 n2 m1 m2) by assumption. rewrite EG, EH. reflexivity.
Qed.

(** * soundness of the C09 checker *)

Lemma nattr_eqb_sound a b : nattr_eqb a b = true -> a = b.
Proof.
  unfold nattr_eqb. rewrite !andb_true_iff. intros [[[[H1 H2] H3] H4] H5].
  destruct a, b; simpl in *. f_equal.
  - revert H1. apply option_eqb_sound. intros x y; apply String.eqb_eq.
  - revert H2. apply option_eqb_sound. intros x y; apply Z.eqb_eq.
  - revert H3. apply option_eqb_sound. apply list_eqb_sound. intros x y; apply String.eqb_eq.
  - revert H4. apply option_eqb_sound. intros x y; apply Bool.eqb_prop.
  - revert H5. apply option_eqb_sound. apply zpair_eqb_sound.
Qed.

Lemma label_opt_eqb_sound x y : option_eqb label_eqb x y = true -> x = y.
Proof. apply option_eqb_sound. intros a b. apply label_eqb_eq. Qed.

Lemma find_mapped_sound g k n : NoDup (nodes g) -> find_mapped g k = Some n -> mapped g n k.
Proof.
  intros Hnd. unfold find_mapped. destruct (Z.leb_spec 0 k) as [Hk|]; [|discriminate].
  destruct (find _ g) as [[n0 [a ad]]|] eqn:Ef; [|discriminate]. simpl. intros [= <-].
  apply find_some in Ef. destruct Ef as [Hin Hp]. simpl in Hp.
  exists a. split; [apply node_attr_In; [exact Hnd|]; exists ad; exact Hin|].
  split; [|exact Hk]. revert Hp. apply option_eqb_sound. intros x y; apply Z.eqb_eq.
Qed.

Lemma find_mapped_complete g k n :
  NoDup (nodes g) -> aam_injective g -> mapped g n k -> find_mapped g k = Some n.
Proof.
  intros Hnd Hinj Hm. pose proof Hm as (a & Ha & Hk & Hpos).
  destruct (find_mapped g k) as [n'|] eqn:Ef.
  - f_equal. apply (Hinj n' n k); [apply find_mapped_sound; assumption|exact Hm].
  - exfalso. unfold find_mapped in Ef. destruct (Z.leb_spec 0 k); [|lia].
    destruct (find _ g) eqn:Ef'; [discriminate|].
    apply node_attr_In in Ha; [|exact Hnd]. destruct Ha as (ad & Hin).
    pose proof (find_none _ _ Ef' _ Hin) as Hp. simpl in Hp. rewrite Hk in Hp. simpl in Hp.
    rewrite Z.eqb_refl in Hp. discriminate.
Qed.

Theorem its_okb_sound G H out :
  wf G -> wf H -> aam_injective G -> aam_injective H ->
  its_okb G H out = true -> its_spec G H out.
Proof.
  intros WG WH IG IH Hok. unfold its_okb in Hok. rewrite !andb_true_iff in Hok.
  destruct Hok as [[_ HN] HE]. unfold its_nodes_okb in HN. rewrite andb_true_iff, !forallb_forall in HN.
  destruct HN as [HN1 HN2]. unfold its_edges_okb in HE. rewrite andb_true_iff, !forallb_forall in HE.
  destruct HE as [HE1 HE2].
  pose proof (proj1 WG) as NG. pose proof (proj1 WH) as NH.
  assert (Nfwd : forall k a, node_attr out k = Some a ->
            exists n m, mapped G n k /\ mapped H m k /\ a = its_node_attr (sym_of G n) k (n, m)).
  { intros k a Ha. unfold node_attr in Ha. destruct (alookup k out) as [[a0 ad]|] eqn:E; [|discriminate].
    injection Ha as ->. apply alookup_In in E. specialize (HN1 _ E). simpl in HN1.
    destruct (find_mapped G k) as [n|] eqn:E1; [|discriminate].
    destruct (find_mapped H k) as [m|] eqn:E2; [|discriminate].
    exists n, m. split; [apply find_mapped_sound; assumption|].
    split; [apply find_mapped_sound; assumption|]. apply nattr_eqb_sound. exact HN1. }
  assert (Nbwd : forall k n m, mapped G n k -> mapped H m k ->
            node_attr out k = Some (its_node_attr (sym_of G n) k (n, m))).
  { intros k n m HG HH. pose proof HG as (aG & HaG & HkG & Hpos).
    apply node_attr_In in HaG; [|exact NG]. destruct HaG as (adG & Hin).
    specialize (HN2 _ Hin). simpl in HN2. rewrite HkG in HN2.
    destruct (Z.leb_spec 0 k); [|lia]. rewrite (find_mapped_complete H k m NH IH HH) in HN2.
    apply node_attr_has_node in HN2. destruct HN2 as (a & Ha). rewrite Ha. f_equal.
    destruct (Nfwd k a Ha) as (n' & m' & HG' & HH' & ->).
    rewrite (IG n' n k HG' HG), (IH m' m k HH' HH). reflexivity. }
  split.
  - intros k a. split; [apply Nfwd|]. intros (n & m & HG & HH & ->). apply Nbwd; assumption.
  - intros k l lb. split.
    + intros EL. pose proof (edge_label_In_adj _ _ _ _ EL) as Hin. unfold adj in Hin.
      destruct (alookup k out) as [[a ad]|] eqn:E; [|contradiction].
      pose proof (alookup_In _ _ _ E) as Hent. specialize (HE1 _ Hent). simpl in HE1.
      rewrite forallb_forall in HE1. specialize (HE1 _ Hin). simpl in HE1.
      rewrite !andb_true_iff in HE1. destruct HE1 as [[Hk Hl] Hnl].
      assert (Hnk : In k (nodes out)) by (apply (in_map fst) in Hent; exact Hent).
      apply has_node_In in Hnl. specialize (HE2 _ Hnk). rewrite forallb_forall in HE2.
      specialize (HE2 _ Hnl). apply label_opt_eqb_sound in HE2. rewrite EL in HE2.
      unfold expected_label in HE2.
      destruct (find_mapped G k) as [n1|] eqn:E1; [|discriminate].
      destruct (find_mapped G l) as [n2|] eqn:E2; [|discriminate].
      destruct (find_mapped H k) as [m1|] eqn:E3; [|discriminate].
      destruct (find_mapped H l) as [m2|] eqn:E4; [|discriminate].
      rewrite Hk, Hl in HE2. simpl in HE2.
      exists n1, n2, m1, m2. repeat (split; [apply find_mapped_sound; assumption|]).
      split; [apply Z.ltb_lt; exact Hk|]. split; [apply Z.ltb_lt; exact Hl|]. symmetry. exact HE2.
    + intros (n1 & n2 & m1 & m2 & G1 & G2 & H1 & H2 & Hk & Hl & Hc).
      assert (Hnk : In k (nodes out)).
      { apply has_node_In. apply node_attr_has_node. eexists. apply (Nbwd k n1 m1 G1 H1). }
      assert (Hnl : In l (nodes out)).
      { apply has_node_In. apply node_attr_has_node. eexists. apply (Nbwd l n2 m2 G2 H2). }
      specialize (HE2 _ Hnk). rewrite forallb_forall in HE2. specialize (HE2 _ Hnl).
      apply label_opt_eqb_sound in HE2. rewrite HE2. unfold expected_label.
      rewrite (find_mapped_complete G k n1 NG IG G1), (find_mapped_complete G l n2 NG IG G2).
      rewrite (find_mapped_complete H k m1 NH IH H1), (find_mapped_complete H l m2 NH IH H2).
      apply Z.ltb_lt in Hk. apply Z.ltb_lt in Hl. rewrite Hk, Hl. exact Hc.
Qed.

(** * the decidable injectivity test *)

Lemma usable_aam_aam_of a : usable_aam a = aam_of a.
Proof. reflexivity. Qed.

Lemma NoDup_app_tail {A} (l1 l2 : list A) : NoDup (l1 ++ l2) -> NoDup l2.
Proof. induction l1 as [|x t IH]; simpl; intros H; [exact H|]. inversion H; subst. auto. Qed.

Lemma aam_injectiveb_sound g : NoDup (nodes g) -> aam_injectiveb g = true -> aam_injective g.
Proof.
  intros Hnd Hb. unfold aam_injectiveb in Hb. apply nodupb_NoDup in Hb.
  set (f := fun e : Z * (nattr * adjl) => match usable_aam (fst (snd e)) with Some k => [k] | None => [] end) in Hb.
  assert (Hin : forall l n a ad k, In (n, (a, ad)) l -> aam_of a = Some k -> In k (flat_map f l)).
  { intros l n a ad k H1 H2. apply in_flat_map. exists (n, (a, ad)). split; [exact H1|].
    unfold f. simpl. rewrite usable_aam_aam_of, H2. left. reflexivity. }
  assert (Hgen : forall l, NoDup (flat_map f l) ->
            forall n m a b ad bd k, In (n, (a, ad)) l -> In (m, (b, bd)) l ->
                                    aam_of a = Some k -> aam_of b = Some k -> NoDup (map fst l) -> n = m).
  { induction l as [|e t IH]; intros Hks n m a b ad bd k H1 H2 Ha Hb' Hndl; [contradiction|].
    simpl in Hks. inversion Hndl as [|? ? Hni Hndt]; subst.
    pose proof (NoDup_app_tail _ _ Hks) as Hkt.
    destruct H1 as [H1|H1]; destruct H2 as [H2|H2].
    - subst e. injection H2 as <- _ _. reflexivity.
    - subst e. exfalso. unfold f in Hks at 1. simpl in Hks. rewrite usable_aam_aam_of, Ha in Hks.
      simpl in Hks. inversion Hks as [|? ? Hk' _]; subst. apply Hk'. eapply Hin; eauto.
    - subst e. exfalso. unfold f in Hks at 1. simpl in Hks. rewrite usable_aam_aam_of, Hb' in Hks.
      simpl in Hks. inversion Hks as [|? ? Hk' _]; subst. apply Hk'. eapply Hin; eauto.
    - eapply IH; eauto. }
  intros n m k Hn Hm. destruct Hn as (a & Ha & Hka). destruct Hm as (b & Hb' & Hkb).
  apply node_attr_In in Ha; [|exact Hnd]. apply node_attr_In in Hb'; [|exact Hnd].
  destruct Ha as (ad & Ha). destruct Hb' as (bd & Hb').
  apply (Hgen g Hb n m a b ad bd k Ha Hb'); [apply aam_of_Some; exact Hka|apply aam_of_Some; exact Hkb|exact Hnd].
Qed.

Theorem its_checkb_sound G H out :
  wf G -> wf H -> aam_injectiveb G = true -> aam_injectiveb H = true ->
  its_checkb G H out = true -> its_spec G H out.
Proof.
  intros WG WH BG BH Hc. unfold its_checkb in Hc. rewrite BG, BH in Hc. simpl in Hc.
  apply its_okb_sound; try assumption; apply aam_injectiveb_sound; try assumption; [apply WG|apply WH].
Qed.

(** * ITS.from_smiles after parsing: ITS.__init__ leaves a get_its result untouched *)

Lemma complete_loop_all_mapped g : forall next m,
  (forall e, In e g -> a_aam (fst (snd e)) <> None) -> complete_loop g next m = Some g.
Proof.
  induction g as [|[n [a ad]] t IH]; intros next m Hall; simpl; [reflexivity|].
  destruct (a_aam a) as [k|] eqn:Ea.
  - rewrite IH; [reflexivity|]. intros e He. apply Hall. right. exact He.
  - exfalso. apply (Hall (n, (a, ad))); [left; reflexivity|exact Ea].
Qed.

Theorem ITS_from_graphs_eq G H :
  wf G -> wf H -> aam_injective G -> aam_injective H -> ITS_from_graphs G H = Some (get_its G H).
Proof.
  intros WG WH IG IH. unfold ITS_from_graphs, ITS_init, complete_aam. apply complete_loop_all_mapped.
  intros [k [a ad]] Hin. simpl.
  assert (Ha : node_attr (get_its G H) k = Some a).
  { apply node_attr_In; [apply (get_its_wf G H WG WH IG IH)|]. exists ad. exact Hin. }
  apply (get_its_nodes_spec G H WG WH IG IH) in Ha. destruct Ha as (n & m & _ & _ & ->). discriminate.
Qed.

(** * the decidable renaming test *)

Lemma NoDup_map_injective {A B} (f : A -> B) l x y :
  NoDup (map f l) -> In x l -> In y l -> f x = f y -> x = y.
Proof.
  induction l as [|a t IH]; simpl; intros Hnd Hx Hy Hf; [contradiction|].
  inversion Hnd as [|? ? Hni Hnd']; subst. destruct Hx as [->|Hx]; destruct Hy as [->|Hy].
  - reflexivity.
  - exfalso. apply Hni. rewrite Hf. apply in_map. exact Hy.
  - exfalso. apply Hni. rewrite <- Hf. apply in_map. exact Hx.
  - apply IH; assumption.
Qed.

Lemma renamingb_sound f g g' : renamingb f g g' = true -> renaming f g g'.
Proof.
  unfold renamingb. rewrite !andb_true_iff, !forallb_forall. intros [[[H1 H2] H3] H4].
  apply nodupb_NoDup in H1. split; [|split; [|split]].
  - intros n m Hn Hm Hf. apply has_node_In in Hn. apply has_node_In in Hm.
    apply (NoDup_map_injective f (nodes g)); assumption.
  - intros n Hn. apply has_node_In in Hn. specialize (H2 n Hn). revert H2.
    apply option_eqb_sound. apply nattr_eqb_sound.
  - intros n' Hn'. apply has_node_In in Hn'. specialize (H3 n' Hn'). apply zmem_In in H3.
    apply in_map_iff in H3. destruct H3 as (n & <- & Hn). exists n. split; [apply has_node_In; exact Hn|reflexivity].
  - intros u v Hu Hv. apply has_node_In in Hu. apply has_node_In in Hv. specialize (H4 u Hu).
    rewrite forallb_forall in H4. specialize (H4 v Hv). apply label_opt_eqb_sound. exact H4.
Qed.

Lemma equiv_mod_idxb_sound x y : wf x -> wf y -> equiv_mod_idxb x y = true -> equiv_mod_idx x y.
Proof.
  intros Wx Wy Hb. unfold equiv_mod_idxb in Hb. cbv zeta in Hb. set (ns := nodes x ++ nodes y) in Hb.
  apply andb_true_iff in Hb. destruct Hb as [HN HE]. rewrite forallb_forall in HN, HE.
  assert (Sx : forall k, In k (nodes x) -> In k ns) by (intros k Hk; apply in_or_app; auto).
  assert (Sy : forall k, In k (nodes y) -> In k ns) by (intros k Hk; apply in_or_app; auto).
  split.
  - intros k. destruct (in_dec Z.eq_dec k ns) as [Hin|Hni].
    + specialize (HN k Hin). revert HN. apply option_eqb_sound. apply nattr_eqb_sound.
    + rewrite (node_attr_None_not_In x k), (node_attr_None_not_In y k); auto.
  - intros k l. destruct (in_dec Z.eq_dec k ns) as [Hk|Hk]; [destruct (in_dec Z.eq_dec l ns) as [Hl|Hl]|].
    + specialize (HE k Hk). rewrite forallb_forall in HE. apply label_opt_eqb_sound. apply HE. exact Hl.
    + rewrite (edge_None_outside x ns k l), (edge_None_outside y ns k l); auto.
    + rewrite (edge_None_outside x ns k l), (edge_None_outside y ns k l); auto.
Qed.
