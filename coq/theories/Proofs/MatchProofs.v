(** The search of Model/Match.v: the fuel it is given always suffices, and every result it
    yields satisfies the soundness invariant (C04).  Works for an arbitrary mapper; what is
    needed about [permute] is the premise [permute_sound_for mp]. *)
From Coq Require Import ZArith List Bool String Lia.
From FGV Require Import Base.Util Base.UtilFacts Base.Bond Base.NX Base.Sym Model.Permute Model.Match
  Spec.Embedding Spec.PermuteAssign Proofs.NXLookup Proofs.MatchBasics Proofs.PermuteShape.
Import ListNotations.
Open Scope Z_scope.
Open Scope list_scope.

Lemma Forall2_In_r {A B} (R : A -> B -> Prop) l1 l2 y :
  Forall2 R l1 l2 -> In y l2 -> exists x, In x l1 /\ R x y.
Proof.
  induction 1 as [|x y' l1 l2 HR F IH]; simpl; [tauto|].
  intros [<-|H]; [exists x; auto|]. destruct (IH H) as (x' & Hx & HR'). exists x'. auto.
Qed.

Lemma in_zseq i n : In i (zseq n) -> exists t, i = Z.of_nat t /\ (t < n)%nat.
Proof.
  unfold zseq. intros H. apply in_map_iff in H. destruct H as (t & <- & Ht).
  apply in_seq in Ht. exists t. split; [reflexivity|lia].
Qed.

Section Search.
  Variables G P : graph.
  Variable mp : mapper.
  Hypothesis HwfP : wfb P = true.

  (** * the positions of an assignment against the collected pattern neighbours *)

  Lemma acts_keys_gen idx pidx pnn nn : forall pnn' off a acts,
    (forall t, nth_error pnn' t = nth_error pnn (off + t)) ->
    Forall2 (act_rel G P idx pidx pnn nn) a acts ->
    map fst a = map Z.of_nat (seq off (List.length pnn')) ->
    map fst acts = map fst pnn'.
  Proof.
    induction pnn' as [|x r IH]; intros off a acts Hn F Ha; simpl in Ha.
    - destruct a; [|discriminate]. inversion F. reflexivity.
    - destruct a as [|e t]; [discriminate|]. simpl in Ha. injection Ha as He Ht.
      inversion F as [|? qv ? acts' [[s Hq] _] F']; subst. simpl.
      rewrite He, py_index_nat in Hq. specialize (Hn 0%nat) as H0. simpl in H0.
      rewrite Nat.add_0_r, Hq in H0. injection H0 as ->. simpl. f_equal.
      apply (IH (S off) t acts'); [|exact F'|exact Ht].
      intros k. specialize (Hn (S k)). simpl in Hn. rewrite Hn. f_equal. lia.
  Qed.

  Lemma acts_keys idx pidx pnn nn a acts :
    Forall2 (act_rel G P idx pidx pnn nn) a acts -> map fst a = zseq (List.length pnn) ->
    map fst acts = map fst pnn.
  Proof. intros F Ha. apply (acts_keys_gen idx pidx pnn nn pnn 0%nat a acts); auto. Qed.

  (* the keys written by one step: exactly the unmapped neighbours of the popped pattern node *)
  Lemma step_keys idx pidx m pnn nn a acts :
    scan G P idx pidx m (neighbors P pidx) = ScanOk pnn ->
    Forall2 (act_rel G P idx pidx pnn nn) a acts -> map fst a = zseq (List.length pnn) ->
    map fst acts = filter (unmappedb m) (neighbors P pidx) /\
    NoDup (map fst acts) /\
    forall q, In q (map fst acts) -> In q (neighbors P pidx) /\ In q (nodes P) /\ alookup q m = None.
  Proof.
    intros Hscan F Ha. apply scan_spec in Hscan. destruct Hscan as (Hk & _ & _).
    pose proof (acts_keys _ _ _ _ _ _ F Ha) as E. rewrite Hk in E. split; [exact E|].
    split; [rewrite E; apply NoDup_filter; apply wfb_neighbors_nodup; exact HwfP|].
    intros q Hq. rewrite E in Hq. apply filter_In in Hq. destruct Hq as [Hq Hu].
    split; [exact Hq|]. split; [eapply wfb_neighbor_node; eauto|].
    unfold unmappedb in Hu. destruct (alookup q m); [discriminate|reflexivity].
  Qed.

  (** * the measure *)

  Definition unmapped_in (l : list Z) (m : mapping) : nat := List.length (filter (unmappedb m) l).
  Definition mu (todo : list (Z * Z)) (m : mapping) : nat :=
    (List.length todo + unmapped_in (nodes P) m)%nat.

  Lemma unmappedb_aset m q v p : unmappedb (aset q v m) p = if p =? q then false else unmappedb m p.
  Proof. unfold unmappedb. rewrite alookup_aset. destruct (p =? q); reflexivity. Qed.

  Lemma unmapped_aset_le l m q v : (unmapped_in l (aset q v m) <= unmapped_in l m)%nat.
  Proof.
    unfold unmapped_in. induction l as [|p t IH]; simpl; [lia|].
    rewrite unmappedb_aset. destruct (p =? q); destruct (unmappedb m p); simpl; lia.
  Qed.

  Lemma unmapped_aset_lt l m q v :
    In q l -> alookup q m = None -> (S (unmapped_in l (aset q v m)) <= unmapped_in l m)%nat.
  Proof.
    unfold unmapped_in. induction l as [|p t IH]; simpl; intros Hin Hq; [destruct Hin|].
    rewrite unmappedb_aset. destruct (Z.eqb_spec p q) as [->|Hne].
    - unfold unmappedb at 2. rewrite Hq. simpl. pose proof (unmapped_aset_le t m q v) as H.
      unfold unmapped_in in H. lia.
    - destruct Hin as [->|Hin]; [contradiction|]. specialize (IH Hin Hq).
      destruct (unmappedb m p); simpl; lia.
  Qed.

  Lemma unmapped_acts l acts : forall m,
    NoDup (map fst acts) -> (forall q, In q (map fst acts) -> In q l /\ alookup q m = None) ->
    (unmapped_in l (acts_map acts m) + List.length acts <= unmapped_in l m)%nat.
  Proof.
    induction acts as [|[q v] t IH]; simpl; intros m Hnd H; [lia|].
    inversion Hnd as [|? ? Hni Hnd']; subst. unfold acts_map in *. simpl.
    destruct (H q (or_introl eq_refl)) as [Hq1 Hq2].
    pose proof (unmapped_aset_lt l m q v Hq1 Hq2) as Hlt.
    specialize (IH (aset q v m) Hnd'). simpl in IH.
    assert (Hle : (unmapped_in l (fold_left (fun m' qv => aset (fst qv) (snd qv) m') t (aset q v m))
                   + List.length t <= unmapped_in l (aset q v m))%nat).
    { apply IH. intros q' Hq'. destruct (H q' (or_intror Hq')) as [H1 H2]. split; [exact H1|].
      rewrite alookup_aset_neq; [exact H2|]. intros ->. contradiction. }
    lia.
  Qed.

  (* one step of the search strictly lowers the measure *)
  Lemma step_measure idx pidx todo' m used pnn nn a m1 u1 td1 :
    scan G P idx pidx m (neighbors P pidx) = ScanOk pnn ->
    In a (permute mp (map snd pnn) (map snd nn)) ->
    assign G P idx pidx pnn nn a m used todo' = Ok (Some (m1, u1, td1)) ->
    (mu td1 m1 <= List.length todo' + unmapped_in (nodes P) m)%nat.
  Proof.
    intros Hscan Ha Has. apply assign_spec in Has. destruct Has as (acts & F & -> & -> & ->).
    apply permute_fst in Ha. rewrite map_length in Ha.
    destruct (step_keys _ _ _ _ _ _ _ Hscan F Ha) as (_ & Hnd & Hq).
    pose proof (unmapped_acts (nodes P) acts m Hnd) as Hc.
    assert (Hc' : (unmapped_in (nodes P) (acts_map acts m) + List.length acts <= unmapped_in (nodes P) m)%nat).
    { apply Hc. intros q Hin. destruct (Hq q Hin) as (_ & H1 & H2). auto. }
    unfold mu. rewrite app_length. pose proof (acts_todo_length acts). lia.
  Qed.

  (** * fuel: a measure above the state's is enough *)

  Theorem search_fuel_ok : forall fuel todo m used,
    (mu todo m < fuel)%nat -> search G P mp fuel todo m used <> OutOfFuel.
  Proof.
    induction fuel as [|f IH]; intros todo m used Hmu; [lia|].
    destruct todo as [|[idx pidx] todo']; simpl; [discriminate|].
    destruct (scan G P idx pidx m (neighbors P pidx)) as [e| |pnn] eqn:Hscan; try discriminate.
    assert (Hmu' : (List.length todo' + unmapped_in (nodes P) m < f)%nat)
      by (unfold mu in Hmu; simpl in Hmu; lia).
    destruct pnn as [|x r]; [apply IH; exact Hmu'|].
    destruct (get_neighbors G idx used) as [nn|]; [|discriminate].
    apply first_result_not; [discriminate|]. intros a Ha.
    destruct (assign G P idx pidx (x :: r) nn a m used todo') as [[[[m1 u1] td1]|]|e|] eqn:Has;
      try discriminate; [|exfalso; eapply assign_not_fuel; eauto].
    apply IH. pose proof (step_measure _ _ _ _ _ _ _ _ _ _ _ Hscan Ha Has). lia.
  Qed.

  Lemma mu_initial idx pidx : In pidx (nodes P) ->
    (mu [(idx, pidx)] [(pidx, Some idx)] < search_fuel P)%nat.
  Proof.
    intros Hin. unfold mu, search_fuel. simpl.
    assert (H : (S (unmapped_in (nodes P) [(pidx, Some idx)]) <= unmapped_in (nodes P) [])%nat).
    { apply (unmapped_aset_lt (nodes P) [] pidx (Some idx)); [exact Hin|reflexivity]. }
    assert (H0 : unmapped_in (nodes P) [] = List.length P).
    { unfold unmapped_in, nodes. rewrite <- (map_length fst P). f_equal.
      induction (map fst P) as [|x t IHl]; simpl; [reflexivity|f_equal; exact IHl]. }
    lia.
  Qed.

  (** * soundness *)

  Variables (w : option string) (ic : bool).
  Hypothesis Hw : m_wildcard mp = w.
  Hypothesis Hic : m_ignore_case mp = ic.
  Hypothesis HwfG : wfb G = true.
  Hypothesis Hsound : permute_sound_for mp.

  (* what one step writes, value side *)
  Lemma step_vals idx pidx m used pnn nn a acts :
    scan G P idx pidx m (neighbors P pidx) = ScanOk pnn ->
    get_neighbors G idx used = Some nn ->
    assign_ok mp (map snd pnn) (map snd nn) a ->
    Forall2 (act_rel G P idx pidx pnn nn) a acts ->
    NoDup (somes acts) /\
    forall q n, In (q, Some n) acts ->
      In n (neighbors G idx) /\ ~ In n used /\
      (exists lab, edge_label P pidx q = Some lab /\ edge_label G idx n = Some lab) /\
      (exists ps s, sym_of P q = Some ps /\ sym_of G n = Some s /\ adm w ic ps s = true).
  Proof.
    intros Hscan Hnn (Hfst & Hnd & Hadm) F.
    apply scan_spec in Hscan. destruct Hscan as (_ & HsymP & _).
    pose proof (get_neighbors_spec _ _ _ _ Hnn) as [Hnnk HsymG].
    assert (HndG : NoDup (map fst nn)).
    { rewrite Hnnk. apply NoDup_filter. apply wfb_neighbors_nodup. exact HwfG. }
    rewrite !map_length in *.
    split.
    - (* distinct images *)
      clear Hfst. revert Hnd Hadm. induction F as [|[pi ni] [q v] t acts' [[s Hq] Hv] F IH]; intros Hnd Hadm; simpl.
      + constructor.
      + simpl in Hq, Hv. destruct Hv as [[-> ->]|[Hne (n & s' & lab & -> & Hn & _)]]; simpl in *.
        * apply IH; [exact Hnd | intros; apply Hadm; right; assumption].
        * destruct (Z.eqb_spec ni (-1)); [contradiction|]. simpl in Hnd.
          inversion Hnd as [|? ? Hni Hnd']; subst. constructor.
          -- intros Hin. apply somes_In in Hin. destruct Hin as [q' Hin].
             destruct (Forall2_In_r _ _ _ _ F Hin) as ([pi' ni'] & Hin' & [_ Hv']). simpl in Hv'.
             destruct Hv' as [[_ Hv']|[Hne' (n2 & s2 & lab2 & Hv' & Hn' & _)]]; [discriminate|].
             injection Hv' as <-.
             destruct (Hadm pi ni (or_introl eq_refl)) as [?|[Hr _]]; [contradiction|].
             destruct (Hadm pi' ni' (or_intror Hin')) as [?|[Hr' _]]; [contradiction|].
             rewrite py_index_nonneg in Hn, Hn' by lia.
             assert (E1 : nth_error (map fst nn) (Z.to_nat ni) = Some n)
               by (rewrite nth_error_map, Hn; reflexivity).
             assert (E2 : nth_error (map fst nn) (Z.to_nat ni') = Some n)
               by (rewrite nth_error_map, Hn'; reflexivity).
             assert (Hlt : (Z.to_nat ni < List.length (map fst nn))%nat)
               by (apply nth_error_Some; congruence).
             pose proof (proj1 (NoDup_nth_error (map fst nn)) HndG _ _ Hlt (eq_trans E1 (eq_sym E2))) as Heq.
             assert (ni = ni') by lia. subst ni'.
             apply Hni. apply filter_In. split; [apply (in_map snd) in Hin'; exact Hin'|].
             destruct (Z.eqb_spec ni (-1)); [contradiction|reflexivity].
          -- apply IH; [exact Hnd' | intros; apply Hadm; right; assumption].
    - intros q n Hin.
      destruct (Forall2_In_r _ _ _ _ F Hin) as ([pi ni] & Hina & [[s Hq] Hv]). simpl in Hq, Hv.
      destruct Hv as [[_ Hv]|[Hne (n2 & s' & lab & Hv & Hn & Hp & Hg)]]; [discriminate|].
      injection Hv as <-.
      destruct (Hadm pi ni Hina) as [?|[Hr Ha]]; [contradiction|].
      assert (Hpi : In pi (zseq (List.length pnn))) by (rewrite <- Hfst; apply (in_map fst) in Hina; exact Hina).
      apply in_zseq in Hpi. destruct Hpi as (t & -> & Ht).
      rewrite py_index_nat in Hq. rewrite py_index_nonneg in Hn by lia.
      rewrite (snth_map_snd _ _ _ _ Hq) in Ha.
      assert (Es : snth (map snd nn) ni = s').
      { rewrite <- (Z2Nat.id ni) by lia. eapply snth_map_snd; eauto. }
      rewrite Es, Hw, Hic in Ha.
      assert (Hn_in : In n (map fst nn)).
      { apply nth_error_In in Hn. apply (in_map fst) in Hn. exact Hn. }
      apply (get_neighbors_In _ _ _ _ n Hnn) in Hn_in. destruct Hn_in as [N1 N2].
      split; [exact N1|]. split; [exact N2|]. split; [eauto|].
      exists s, s'. split; [|split; [|exact Ha]].
      + rewrite Forall_forall in HsymP. apply nth_error_In in Hq. apply (HsymP _ Hq).
      + rewrite Forall_forall in HsymG. apply nth_error_In in Hn. apply (HsymG _ Hn).
  Qed.

  Definition mapsto (m : mapping) (p n : Z) : Prop := alookup p m = Some (Some n).

  (* pattern node p (image n) is finished: each of its pattern neighbours has an entry, and
     the bond to every neighbour that has an image is preserved *)
  Definition done (m : mapping) (p n : Z) : Prop :=
    forall q, In q (neighbors P p) ->
      exists v, alookup q m = Some v /\
                forall n', v = Some n' ->
                  exists lab, edge_label P p q = Some lab /\ edge_label G n n' = Some lab.

  Record SInv (todo : list (Z * Z)) (m : mapping) (used : list Z) : Prop := {
    si_keys : NoDup (akeys m);
    si_nodes : forall p v, alookup p m = Some v -> In p (nodes P);
    si_inj : forall p q n, mapsto m p n -> mapsto m q n -> p = q;
    si_used : forall p n, mapsto m p n -> In n used;
    si_adm : forall p n, mapsto m p n ->
               exists ps s, sym_of P p = Some ps /\ sym_of G n = Some s /\ adm w ic ps s = true;
    si_todo : forall n p, In (n, p) todo -> mapsto m p n;
    si_done : forall p n, mapsto m p n -> In (n, p) todo \/ done m p n
  }.

  Definition extends (m m' : mapping) : Prop := forall p v, alookup p m = Some v -> alookup p m' = Some v.

  Lemma done_extends m m' p n : extends m m' -> done m p n -> done m' p n.
  Proof.
    intros He Hd q Hq. destruct (Hd q Hq) as (v & Hv & Hl). exists v. split; [apply He; exact Hv|exact Hl].
  Qed.

  (* the popped node is finished when it has no unmapped neighbour *)
  Lemma done_of_scan idx pidx m :
    scan G P idx pidx m (neighbors P pidx) = ScanOk [] -> done m pidx idx.
  Proof.
    intros Hscan q Hq. apply scan_spec in Hscan. destruct Hscan as (Hk & _ & He).
    simpl in Hk. destruct (alookup q m) as [v|] eqn:Ev.
    - exists v. split; [reflexivity|]. intros n' ->. destruct (He q n' Hq Ev) as (lab & H1 & H2). eauto.
    - exfalso. assert (Hin : In q (filter (unmappedb m) (neighbors P pidx))).
      { apply filter_In. split; [exact Hq|]. unfold unmappedb. rewrite Ev. reflexivity. }
      rewrite <- Hk in Hin. destruct Hin.
  Qed.

  (* the invariant survives one step *)
  Lemma step_inv idx pidx todo' m used pnn nn a m1 u1 td1 :
    SInv ((idx, pidx) :: todo') m used ->
    scan G P idx pidx m (neighbors P pidx) = ScanOk pnn ->
    get_neighbors G idx used = Some nn ->
    In a (permute mp (map snd pnn) (map snd nn)) ->
    assign G P idx pidx pnn nn a m used todo' = Ok (Some (m1, u1, td1)) ->
    SInv td1 m1 u1 /\ extends m m1.
  Proof.
    intros I Hscan Hnn Ha Has.
    apply assign_spec in Has. destruct Has as (acts & F & -> & -> & ->).
    pose proof (Hsound _ _ _ Ha) as Hok.
    assert (Hfst : map fst a = zseq (List.length pnn)) by (destruct Hok as [H _]; rewrite map_length in H; exact H).
    destruct (step_keys _ _ _ _ _ _ _ Hscan F Hfst) as (Hkeys & Hnd & Hq).
    destruct (step_vals _ _ _ _ _ _ _ _ Hscan Hnn Hok F) as (Hsnd & Hv).
    pose proof (scan_spec _ _ _ _ _ _ _ Hscan) as (_ & _ & Hring).
    assert (Hlook : forall p, alookup p (acts_map acts m)
                              = match alookup p acts with Some v => Some v | None => alookup p m end)
      by (intros p; apply alookup_acts_map; exact Hnd).
    assert (Hold : forall p v, alookup p m = Some v -> alookup p acts = None).
    { intros p v Hp. destruct (alookup p acts) eqn:E; [|reflexivity]. exfalso.
      apply alookup_Some_key in E. destruct (Hq p E) as (_ & _ & Hn). congruence. }
    assert (Hext : extends m (acts_map acts m)).
    { intros p v Hp. rewrite Hlook, (Hold p v Hp). exact Hp. }
    assert (Hnew : forall p n, mapsto (acts_map acts m) p n -> In (p, Some n) acts \/ mapsto m p n).
    { intros p n Hp. unfold mapsto in Hp. rewrite Hlook in Hp.
      destruct (alookup p acts) as [v|] eqn:E; [|right; exact Hp].
      left. injection Hp as ->. apply alookup_In. exact E. }
    destruct I as [I1 I2 I3 I4 I5 I6 I7].
    assert (Hpop : mapsto m pidx idx) by (apply I6; left; reflexivity).
    split; [|exact Hext]. constructor.
    - apply acts_map_keys_nodup. exact I1.
    - intros p v Hp. rewrite Hlook in Hp. destruct (alookup p acts) as [v'|] eqn:E; [|eapply I2; eauto].
      apply alookup_Some_key in E. apply (Hq p E).
    - intros p q n Hp Hq'. destruct (Hnew _ _ Hp) as [Hp1|Hp1], (Hnew _ _ Hq') as [Hq1|Hq1].
      + eapply somes_inj; eauto.
      + exfalso. destruct (Hv _ _ Hp1) as (_ & Hnu & _). apply Hnu. eapply I4; eauto.
      + exfalso. destruct (Hv _ _ Hq1) as (_ & Hnu & _). apply Hnu. eapply I4; eauto.
      + eapply I3; eauto.
    - intros p n Hp. apply acts_used_In. destruct (Hnew _ _ Hp) as [Hp1|Hp1].
      + right. apply somes_In. eauto.
      + left. eapply I4; eauto.
    - intros p n Hp. destruct (Hnew _ _ Hp) as [Hp1|Hp1]; [|eapply I5; eauto].
      destruct (Hv _ _ Hp1) as (_ & _ & _ & H). exact H.
    - intros n p Hin. apply in_app_or in Hin. destruct Hin as [Hin|Hin].
      + apply Hext. apply I6. right. exact Hin.
      + apply acts_todo_In in Hin. unfold mapsto. rewrite Hlook.
        rewrite (alookup_acts_In _ _ _ Hnd Hin). reflexivity.
    - intros p n Hp. destruct (Hnew _ _ Hp) as [Hp1|Hp1].
      + left. apply in_or_app. right. apply acts_todo_In. exact Hp1.
      + destruct (I7 _ _ Hp1) as [[Heq|Hin]|Hd].
        * injection Heq as <- <-. right. intros q Hqn.
          destruct (alookup q m) as [v|] eqn:Ev.
          -- exists v. split; [apply Hext; exact Ev|]. intros n' ->.
             destruct (Hring q n' Hqn Ev) as (lab & H1 & H2). eauto.
          -- assert (Hk : In q (map fst acts)).
             { rewrite Hkeys. apply filter_In. split; [exact Hqn|]. unfold unmappedb. rewrite Ev. reflexivity. }
             destruct (In_alookup q acts Hk) as [v Hv'].
             exists v. split; [rewrite Hlook, Hv'; reflexivity|]. intros n' ->.
             apply alookup_In in Hv'. destruct (Hv _ _ Hv') as (_ & _ & H & _). exact H.
        * left. apply in_or_app. left. exact Hin.
        * right. eapply done_extends; eauto.
  Qed.

  Theorem search_sound : forall fuel todo m used m' used',
    SInv todo m used -> search G P mp fuel todo m used = Ok (Some (m', used')) ->
    SInv [] m' used' /\ extends m m'.
  Proof.
    induction fuel as [|f IH]; intros todo m used m' used' I H; [discriminate|].
    destruct todo as [|[idx pidx] todo']; simpl in H.
    - injection H as <- <-. split; [exact I | intros p v Hp; exact Hp].
    - destruct (scan G P idx pidx m (neighbors P pidx)) as [e| |pnn] eqn:Hscan; try discriminate.
      destruct pnn as [|x r].
      + apply (IH todo' m used m' used'); [|exact H].
        destruct I as [I1 I2 I3 I4 I5 I6 I7]. constructor; auto.
        * intros n p Hin. apply I6. right. exact Hin.
        * intros p n Hp. destruct (I7 _ _ Hp) as [[Heq|Hin]|Hd]; auto.
          injection Heq as <- <-. right. apply done_of_scan. exact Hscan.
      + destruct (get_neighbors G idx used) as [nn|] eqn:Hnn; [|discriminate].
        apply first_result_some in H. destruct H as (a & Ha & H).
        destruct (assign G P idx pidx (x :: r) nn a m used todo') as [[[[m1 u1] td1]|]|e|] eqn:Has;
          try discriminate.
        destruct (step_inv _ _ _ _ _ _ _ _ _ _ _ I Hscan Hnn Ha Has) as [I' He].
        destruct (IH _ _ _ _ _ I' H) as [I'' He'].
        split; [exact I''|]. intros p v Hp. apply He'. apply He. exact Hp.
  Qed.

  (* no entry is "mapped to nothing" when permute never produces -1 *)
  Definition all_some (m : mapping) : Prop := forall p, alookup p m <> Some None.

  Theorem search_all_some : permute_total_for mp -> forall fuel todo m used m' used',
    all_some m -> search G P mp fuel todo m used = Ok (Some (m', used')) -> all_some m'.
  Proof.
    intros Htot. induction fuel as [|f IH]; intros todo m used m' used' A H; [discriminate|].
    destruct todo as [|[idx pidx] todo']; simpl in H.
    - injection H as <- <-. exact A.
    - destruct (scan G P idx pidx m (neighbors P pidx)) as [e| |pnn] eqn:Hscan; try discriminate.
      destruct pnn as [|x r]; [eapply IH; eauto|].
      destruct (get_neighbors G idx used) as [nn|] eqn:Hnn; [|discriminate].
      apply first_result_some in H. destruct H as (a & Ha & H).
      destruct (assign G P idx pidx (x :: r) nn a m used todo') as [[[[m1 u1] td1]|]|e|] eqn:Has;
        try discriminate.
      eapply IH; [|exact H].
      apply assign_spec in Has. destruct Has as (acts & F & -> & _ & _).
      pose proof (Htot _ _ _ Ha) as Ht. pose proof (permute_fst _ _ _ _ Ha) as Hfst. rewrite map_length in Hfst.
      destruct (step_keys _ _ _ _ _ _ _ Hscan F Hfst) as (_ & Hnd & _).
      intros p Hp. rewrite alookup_acts_map in Hp by exact Hnd.
      destruct (alookup p acts) as [v|] eqn:E; [|exact (A p Hp)].
      injection Hp as ->. apply alookup_In in E.
      destruct (Forall2_In_r _ _ _ _ F E) as ([pi ni] & Hin & [_ Hv]). simpl in Hv.
      destruct Hv as [[Hm1 _]|[_ (n & s' & lab & Hv & _)]]; [|discriminate].
      exact (Ht pi ni Hin Hm1).
  Qed.
End Search.
