(** C08, single symbols: what permute answers for one pattern symbol against one structure symbol,
    and MappingMatrix (Model/MapMatrix.v) records exactly that, for symbols of any length. *)
From Coq Require Import ZArith List Bool String Lia.
From FGV Require Import Base.Util Base.UtilFacts Base.Sym Model.Permute Model.MapMatrix Spec.PermuteSpec
     Spec.PermuteCheck Proofs.GenFacts Proofs.PermuteProofs Proofs.PermuteCheckProofs.
Import ListNotations.
Open Scope Z_scope.
Open Scope list_scope.

Lemma nothing_count_single_nothing c q : nothing_count c [q] [-1] = if String.eqb c q then 1 else 0.
Proof. unfold nothing_count. simpl. destruct (String.eqb c q); reflexivity. Qed.

Lemma nothing_count_single_real c q : nothing_count c [q] [0] = 0.
Proof. unfold nothing_count. simpl. rewrite andb_false_r. reflexivity. Qed.

Lemma shortage_single c q x :
  shortage c [q] [x] = Z.max 0 ((if String.eqb c q then 1 else 0) - (if String.eqb c x then 1 else 0)).
Proof.
  unfold shortage, count_sym. simpl. destruct (String.eqb c q), (String.eqb c x); reflexivity.
Qed.

Lemma wild_room_single w CM q x : wild_room w CM [q] [x] = 0.
Proof.
  unfold wild_room. simpl List.length. pose proof (sum_shortage_nonneg (nodup string_dec (before w CM)) [q] [x]). lia.
Qed.

Lemma admissible_single W CM q x ts :
  admissible W CM [q] [x] ts <->
  (ts = [0] /\ (W = Some q \/ q = x)) \/ (ts = [-1] /\ W <> Some q /\ q <> x /\ In q CM).
Proof.
  split.
  - intros [A1 A2 A3 A4]. inversion A1 as [|? t ? ts' Hok Hnil]; subst. inversion Hnil; subst. clear A1 Hnil.
    destruct Hok as [->|((H0 & H1) & Hs)].
    + right. split; [reflexivity|].
      destruct (sym_eqb_opt_dec W q) as [HW|HW].
      * specialize (A4 q HW). rewrite nothing_count_single_nothing, String.eqb_refl, wild_room_single in A4.
        destruct (in_dec string_dec q CM); lia.
      * specialize (A3 q HW).
        rewrite nothing_count_single_nothing, String.eqb_refl, shortage_single, String.eqb_refl in A3.
        split; [exact HW|]. destruct (in_dec string_dec q CM) as [Hin|Hin]; [|lia].
        split; [|exact Hin]. intros ->. rewrite String.eqb_refl in A3. lia.
    + left. change (Z.of_nat (List.length [x])) with 1 in H1. assert (t = 0) by lia. subst t. split; [reflexivity|].
      destruct Hs as [Hs|Hs]; [left; exact Hs|right]. simpl in Hs. congruence.
  - intros [(-> & Hm)|(-> & HW & Hne & Hin)].
    + constructor.
      * constructor; [|constructor]. right. change (Z.of_nat (List.length [x])) with 1. split; [lia|].
        destruct Hm as [Hm| ->]; [left; exact Hm|right; reflexivity].
      * simpl. constructor; [intros []|constructor].
      * intros c HWc. rewrite nothing_count_single_real, shortage_single.
        destruct (in_dec string_dec c CM); [|reflexivity].
        destruct (String.eqb_spec c q) as [->|Hcq]; [|destruct (String.eqb c x); reflexivity].
        destruct Hm as [Hm| ->]; [contradiction|]. rewrite String.eqb_refl. reflexivity.
      * intros w _. rewrite nothing_count_single_real. pose proof (wild_room_nonneg w CM [q] [x]).
        destruct (in_dec string_dec w CM); lia.
    + constructor.
      * constructor; [|constructor]. left. reflexivity.
      * simpl. constructor.
      * intros c HWc. rewrite nothing_count_single_nothing, shortage_single.
        destruct (String.eqb_spec c q) as [->|Hcq].
        -- destruct (in_dec string_dec q CM); [|contradiction].
           destruct (String.eqb_spec q x); [contradiction|reflexivity].
        -- destruct (in_dec string_dec c CM); [|reflexivity]. destruct (String.eqb c x); reflexivity.
      * intros w HWw. rewrite nothing_count_single_nothing.
        destruct (String.eqb_spec w q) as [->|_]; [contradiction|]. pose proof (wild_room_nonneg w CM [q] [x]).
        destruct (in_dec string_dec w CM); lia.
Qed.

Lemma list_singleton {A} (l : list A) x : NoDup l -> (forall a, In a l <-> a = x) -> l = [x].
Proof.
  intros Hnd H. destruct l as [|y [|z l]].
  - exfalso. apply (proj2 (H x) eq_refl).
  - f_equal. apply H. left. reflexivity.
  - exfalso. assert (y = x) by (apply H; simpl; auto). assert (z = x) by (apply H; simpl; auto). subst.
    inversion Hnd as [|? ? Hni _]. apply Hni. left. reflexivity.
Qed.

Lemma list_empty {A} (l : list A) : (forall a, ~ In a l) -> l = [].
Proof. destruct l as [|y l]; [reflexivity|]. intros H. exfalso. apply (H y). left. reflexivity. Qed.

(* one pattern symbol against one structure symbol: a real match when the symbols agree (or the
   pattern symbol is the wildcard), else "nothing" when the pattern symbol may map to nothing, else no result *)
Theorem permute_single mp ps ss :
  let ic := m_ignore_case mp in
  let W := option_map (lw ic) (m_wildcard mp) in
  let CM := map (lw ic) (m_cmtn mp) in
  permute mp [ps] [ss] =
  if sym_eqb_opt W (lw ic ps) || String.eqb (lw ic ps) (lw ic ss) then [[(0, 0)]]
  else if sym_mem (lw ic ps) CM then [[(0, -1)]] else [].
Proof.
  intros ic W CM.
  assert (Hin : forall a, In a (permute mp [ps] [ss]) <->
                exists ts, a = enumerate ts /\ admissible W CM [lw ic ps] [lw ic ss] ts).
  { intros a. rewrite permute_In. unfold permute_spec. fold ic. fold W. fold CM. simpl map.
    split; [intros (_ & H); exact H | intros H; split; [discriminate | exact H]]. }
  pose proof (permute_NoDup mp [ps] [ss]) as Hnd.
  destruct (sym_eqb_opt W (lw ic ps) || String.eqb (lw ic ps) (lw ic ss)) eqn:E.
  - apply orb_true_iff in E. rewrite sym_eqb_opt_true, String.eqb_eq in E.
    apply list_singleton; [exact Hnd|]. intros a. rewrite Hin. split.
    + intros (ts & -> & Hadm). apply admissible_single in Hadm.
      destruct Hadm as [(-> & _)|(_ & HW & Hne & _)]; [reflexivity | tauto].
    + intros ->. exists [0]. split; [reflexivity|]. apply admissible_single. left. auto.
  - apply orb_false_iff in E. destruct E as (E1 & E2). apply sym_eqb_opt_false in E1.
    assert (Hne : lw ic ps <> lw ic ss) by (rewrite <- String.eqb_eq, E2; discriminate).
    destruct (sym_mem (lw ic ps) CM) eqn:E3.
    + apply sym_mem_In in E3. apply list_singleton; [exact Hnd|]. intros a. rewrite Hin. split.
      * intros (ts & -> & Hadm). apply admissible_single in Hadm.
        destruct Hadm as [(_ & Hm)|(-> & _)]; [tauto | reflexivity].
      * intros ->. exists [-1]. split; [reflexivity|]. apply admissible_single. right. auto.
    + apply list_empty. intros a Ha. apply Hin in Ha. destruct Ha as (ts & _ & Hadm).
      apply admissible_single in Hadm. destruct Hadm as [(_ & Hm)|(_ & _ & _ & Hc)]; [tauto|].
      apply sym_mem_In in Hc. congruence.
Qed.

Corollary single_match_permute mp ps ss :
  single_match mp ps ss = negb (is_nil (permute mp [ps] [ss])).
Proof.
  rewrite permute_single. unfold single_match. cbv zeta.
  destruct (sym_eqb_opt _ _ || String.eqb _ _); [reflexivity|]. simpl. unfold sym_mem.
  destruct (existsb _ _); reflexivity.
Qed.

(** * MappingMatrix *)

Lemma mm_row_spec mp ps : forall ssyms acc,
  mm_row mp ps ssyms acc = Some (acc ++ map (pair ps) (filter (single_match mp ps) ssyms)).
Proof.
  induction ssyms as [|ss t IH]; intros acc; simpl; [rewrite app_nil_r; reflexivity|].
  rewrite single_match_permute. rewrite permute_single. cbv zeta.
  destruct (sym_eqb_opt _ _ || String.eqb _ _); simpl.
  - rewrite IH, <- app_assoc. reflexivity.
  - destruct (sym_mem _ _); simpl; [rewrite IH, <- app_assoc; reflexivity | apply IH].
Qed.

Definition valid_cells (mp : mapper) (psyms ssyms : list string) : list (string * string) :=
  flat_map (fun ps => map (pair ps) (filter (single_match mp ps) ssyms)) psyms.

Lemma mm_fill_spec mp ssyms : forall psyms acc,
  mm_fill mp psyms ssyms acc = Some (acc ++ valid_cells mp psyms ssyms).
Proof.
  induction psyms as [|ps t IH]; intros acc; simpl; [rewrite app_nil_r; reflexivity|].
  rewrite mm_row_spec, IH, <- app_assoc. reflexivity.
Qed.

(* the constructor's assertions never fire *)
Theorem mm_init_ok mp psyms ssyms :
  mm_init mp psyms ssyms = Some (mkMatrix (psyms ++ ssyms) (valid_cells mp psyms ssyms)).
Proof. unfold mm_init. rewrite mm_fill_spec. reflexivity. Qed.

Lemma cell_mem_In a b l : cell_mem a b l = true <-> In (a, b) l.
Proof.
  unfold cell_mem. rewrite existsb_exists. split.
  - intros ([x y] & Hin & He). simpl in He. apply andb_true_iff in He. rewrite !String.eqb_eq in He.
    destruct He as [-> ->]. exact Hin.
  - intros H. exists (a, b). split; [exact H|]. simpl. rewrite !String.eqb_refl. reflexivity.
Qed.

Lemma valid_cells_In mp psyms ssyms a b :
  In (a, b) (valid_cells mp psyms ssyms) <-> In a psyms /\ In b ssyms /\ single_match mp a b = true.
Proof.
  unfold valid_cells. rewrite in_flat_map. split.
  - intros (ps & Hps & Hin). apply in_map_iff in Hin. destruct Hin as (ss & Heq & Hss). injection Heq as <- <-.
    apply filter_In in Hss. tauto.
  - intros (Ha & Hb & Hm). exists a. split; [exact Ha|]. apply in_map. apply filter_In. auto.
Qed.

Theorem is_mapping_spec mp psyms ssyms m a b :
  mm_init mp psyms ssyms = Some m ->
  is_mapping m a b =
  if sym_mem a (psyms ++ ssyms) && sym_mem b (psyms ++ ssyms)
  then Some (sym_mem a psyms && sym_mem b ssyms && single_match mp a b) else None.
Proof.
  rewrite mm_init_ok. intros [= <-]. unfold is_mapping. simpl.
  destruct (sym_mem a (psyms ++ ssyms) && sym_mem b (psyms ++ ssyms)); [|reflexivity]. f_equal.
  apply Bool.eq_iff_eq_true. rewrite cell_mem_In, valid_cells_In, !andb_true_iff, !sym_mem_In. tauto.
Qed.

(* is_mapping answers exactly what permute answers for the two single symbols *)
Theorem matrix_spec mp psyms ssyms :
  exists m, mm_init mp psyms ssyms = Some m /\
    forall ps ss, In ps psyms -> In ss ssyms ->
      is_mapping m ps ss = Some (negb (is_nil (permute mp [ps] [ss]))).
Proof.
  eexists. split; [apply mm_init_ok|]. intros ps ss Hp Hs.
  rewrite (is_mapping_spec mp psyms ssyms _ ps ss (mm_init_ok mp psyms ssyms)).
  assert (H1 : sym_mem ps (psyms ++ ssyms) = true) by (apply sym_mem_In, in_or_app; auto).
  assert (H2 : sym_mem ss (psyms ++ ssyms) = true) by (apply sym_mem_In, in_or_app; auto).
  apply sym_mem_In in Hp. apply sym_mem_In in Hs. rewrite H1, H2, Hp, Hs. simpl.
  rewrite single_match_permute. reflexivity.
Qed.

(* the table the harness compares against (check "spec" of matrix cases) is the model's table *)
Theorem matrix_table_spec mp psyms ssyms syms m :
  mm_init mp psyms ssyms = Some m ->
  matrix_table m syms = matrix_spec_table mp psyms ssyms syms.
Proof.
  intros Hm. unfold matrix_table, matrix_spec_table. apply map_ext. intros a. apply map_ext. intros b.
  apply (is_mapping_spec _ _ _ _ _ _ Hm).
Qed.
