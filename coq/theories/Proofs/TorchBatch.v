(** C18: batches. Batch tensors are the members' tensors side by side (by definition of the
    modelled Batch.from_data_list), and -- the real content -- the batch decoder
    _its_from_torch_databatch gives back exactly the member-wise decodings: the per-member node
    selection, the source-only column filter and the running offset are right. *)
From Coq Require Import ZArith List Bool String Lia.
From FGV Require Import Base.Util Base.UtilFacts Base.Bond Base.NX Base.NXFacts
  Model.Torch Spec.PeriodicRef Spec.TorchSpec Proofs.TorchTables Proofs.TorchUtil Proofs.TorchRound.
Import ListNotations.
Open Scope Z_scope.

(** * the four components of batch_go as separate functions *)

Definition bx (ts : list tdata) : list (list Z) := List.concat (map t_x ts).
Definition tot (ts : list tdata) : nat := List.length (bx ts).
Fixpoint bei (off : Z) (ts : list tdata) : list (Z * Z) :=
  match ts with
  | [] => []
  | t :: r => map (shift off) (t_ei t) ++ bei (off + Z.of_nat (List.length (t_x t))) r
  end.
Definition bea (ts : list tdata) : list (list Z) := List.concat (map ea_rows ts).
Fixpoint bbv (i : Z) (ts : list tdata) : list Z :=
  match ts with
  | [] => []
  | t :: r => repeat i (List.length (t_x t)) ++ bbv (i + 1) r
  end.

Lemma batch_go_eq ts : forall off i, batch_go off i ts = (bx ts, bei off ts, bea ts, bbv i ts).
Proof.
  induction ts as [|t r IH]; intros off i; simpl; [reflexivity|].
  rewrite IH. reflexivity.
Qed.

Lemma tot_cons t r : tot (t :: r) = (List.length (t_x t) + tot r)%nat.
Proof. unfold tot, bx. simpl. rewrite app_length. reflexivity. Qed.

Lemma tot_app a b : tot (a ++ b) = (tot a + tot b)%nat.
Proof. unfold tot, bx. rewrite map_app, concat_app, app_length. reflexivity. Qed.

Lemma bx_app a b : bx (a ++ b) = bx a ++ bx b.
Proof. unfold bx. rewrite map_app, concat_app. reflexivity. Qed.

Lemma bea_app a b : bea (a ++ b) = bea a ++ bea b.
Proof. unfold bea. rewrite map_app, concat_app. reflexivity. Qed.

Lemma bei_app a b : forall off, bei off (a ++ b) = bei off a ++ bei (off + Z.of_nat (tot a)) b.
Proof.
  induction a as [|t r IH]; intros off; simpl.
  - f_equal. unfold tot, bx. simpl. lia.
  - rewrite IH, <- app_assoc. do 3 f_equal. rewrite tot_cons. lia.
Qed.

Lemma bbv_app a b : forall i, bbv i (a ++ b) = bbv i a ++ bbv (i + Z.of_nat (List.length a)) b.
Proof.
  induction a as [|t r IH]; intros i; simpl.
  - f_equal. lia.
  - rewrite IH, <- app_assoc. do 3 f_equal. lia.
Qed.

(** * (a) the batch tensors, member by member *)

Theorem batch_tensors ts b : batch_from_data_list ts = Ok b -> batch_spec ts b.
Proof.
  unfold batch_from_data_list. destruct (forallb _ ts); [|discriminate].
  rewrite batch_go_eq. intros [= <-]. unfold batch_spec. cbn [t_x t_ei t_ea t_batch].
  split; [reflexivity|]. split; [|split; [reflexivity|]].
  - generalize 0. induction ts as [|t r IH]; intros off; simpl; [reflexivity|].
    rewrite IH. reflexivity.
  - f_equal. unfold znats. change 0 with (Z.of_nat 0) at 1. generalize 0%nat.
    induction ts as [|t r IH]; intros a; simpl; [reflexivity|].
    replace (Z.of_nat a + 1) with (Z.of_nat (S a)) by lia. rewrite IH. reflexivity.
Qed.

Theorem to_torch_list_memberwise gs b :
  its_to_torch_list gs = Ok b ->
  exists ts, Forall2 (fun g t => its_to_torch1 g = Ok t) gs ts /\ batch_spec ts b.
Proof.
  unfold its_to_torch_list. destruct (mapM its_to_torch1 gs) as [ts|e] eqn:E; cbn [bind]; [|discriminate].
  intros H. exists ts. split; [apply mapM_Ok_Forall2; exact E | apply batch_tensors; exact H].
Qed.

(** * list facts for the decoder *)

Definition zr (a n : nat) : list Z := map Z.of_nat (seq a n).

Definition nz (b : Z) (a : nat) (l : list Z) : list Z :=
  map fst (filter (fun p : Z * Z => snd p =? b) (combine (zr a (List.length l)) l)).

Lemma nonzero_eq_nz b l : nonzero_eq b l = nz b 0 l.
Proof. reflexivity. Qed.

Lemma zr_app a n m : zr a (n + m) = zr a n ++ zr (a + n) m.
Proof. unfold zr. rewrite seq_app, map_app. reflexivity. Qed.

Lemma zr_length a n : List.length (zr a n) = n.
Proof. unfold zr. rewrite map_length, seq_length. reflexivity. Qed.

Lemma zr_In a n z : In z (zr a n) <-> Z.of_nat a <= z < Z.of_nat (a + n).
Proof.
  unfold zr. rewrite in_map_iff. split.
  - intros (i & <- & Hi). apply in_seq in Hi. lia.
  - intros Hz. exists (Z.to_nat z). split; [lia|]. apply in_seq. lia.
Qed.

Lemma nz_app b a l1 l2 : nz b a (l1 ++ l2) = nz b a l1 ++ nz b (a + List.length l1) l2.
Proof.
  unfold nz. rewrite app_length, zr_app, combine_app by apply zr_length.
  rewrite filter_app, map_app. reflexivity.
Qed.

Lemma nz_none b a l : (forall x, In x l -> x <> b) -> nz b a l = [].
Proof.
  unfold nz. revert a. induction l as [|x t IH]; intros a H; [reflexivity|].
  simpl. destruct (Z.eqb_spec x b) as [->|Hne]; [exfalso; apply (H b); [left|]; reflexivity|].
  apply (IH (S a)). intros y Hy. apply H. right. exact Hy.
Qed.

Lemma nz_repeat b a n : nz b a (repeat b n) = zr a n.
Proof.
  unfold nz. rewrite repeat_length. unfold zr. revert a. induction n as [|n IH]; intros a; [reflexivity|].
  simpl. rewrite Z.eqb_refl. simpl. f_equal. apply (IH (S a)).
Qed.

Lemma bbv_bounds ts : forall i x, In x (bbv i ts) -> i <= x < i + Z.of_nat (List.length ts).
Proof.
  induction ts as [|t r IH]; intros i x H; simpl in *; [contradiction|].
  apply in_app_or in H. destruct H as [H|H].
  - apply repeat_spec in H. lia.
  - apply IH in H. lia.
Qed.

Lemma bbv_length ts : forall i, List.length (bbv i ts) = tot ts.
Proof.
  induction ts as [|t r IH]; intros i; simpl; [reflexivity|].
  rewrite app_length, repeat_length, IH, tot_cons. reflexivity.
Qed.

(* the nodes of member j are the block [tot pre, tot pre + n) *)
Lemma nz_member pre t suf :
  nz (Z.of_nat (List.length pre)) 0 (bbv 0 (pre ++ t :: suf)) = zr (tot pre) (List.length (t_x t)).
Proof.
  rewrite bbv_app. cbn [bbv]. rewrite !nz_app, bbv_length, repeat_length.
  rewrite nz_none, nz_repeat, nz_none; [rewrite app_nil_r; reflexivity | |].
  - intros x Hx. apply bbv_bounds in Hx. lia.
  - intros x Hx. apply bbv_bounds in Hx. lia.
Qed.

Lemma mapM_block {A B} (f : A -> res B) xt : forall x1 x2,
  mapM (fun i => bind (nth_res (x1 ++ xt ++ x2) i) f) (zr (List.length x1) (List.length xt)) = mapM f xt.
Proof.
  induction xt as [|a r IH]; intros x1 x2; [reflexivity|].
  cbn [List.length zr seq map mapM].
  assert (Hn : nth_res (x1 ++ (a :: r) ++ x2) (Z.of_nat (List.length x1)) = Ok a).
  { unfold nth_res. destruct (Z.ltb_spec (Z.of_nat (List.length x1)) 0); [lia|].
    rewrite Nat2Z.id, nth_error_app2, Nat.sub_diag by lia. reflexivity. }
  rewrite Hn. cbn [bind]. destruct (f a) as [b|e]; cbn [bind]; [|reflexivity].
  replace (x1 ++ (a :: r) ++ x2) with ((x1 ++ [a]) ++ r ++ x2) by (rewrite <- app_assoc; reflexivity).
  replace (S (List.length x1)) with (List.length (x1 ++ [a])) by (rewrite app_length; simpl; lia).
  fold (zr (List.length (x1 ++ [a])) (List.length r)). rewrite IH. reflexivity.
Qed.

Lemma zmax_list_mem d l : In (zmax_list d l) (d :: l).
Proof.
  revert d. induction l as [|x t IH]; intros d; simpl; [left; reflexivity|].
  destruct (IH (Z.max d x)) as [H|H]; [|right; right; exact H].
  rewrite <- H. destruct (Z.max_spec d x) as [[_ E]|[_ E]]; rewrite E; [right; left | left]; reflexivity.
Qed.

Lemma zmaximum_unique l m : In m l -> (forall x, In x l -> x <= m) -> zmaximum l = Some m.
Proof.
  destruct l as [|a t]; [contradiction|]. intros Hin Hle. unfold zmaximum. f_equal.
  pose proof (zmax_list_mem a t) as Hmem. apply Hle in Hmem.
  assert (Hge : m <= zmax_list a t).
  { destruct Hin as [<-|Hin]; [apply zmax_list_ge | apply zmax_list_In; exact Hin]. }
  lia.
Qed.

Lemma zmaximum_zr a n : (1 <= n)%nat -> zmaximum (zr a n) = Some (Z.of_nat (a + n) - 1).
Proof.
  intros Hn. apply zmaximum_unique.
  - apply zr_In. lia.
  - intros x Hx. apply zr_In in Hx. lia.
Qed.

Lemma unique_sorted_app l1 l2 : unique_sorted (l1 ++ l2) = fold_right insert_u (unique_sorted l2) l1.
Proof. unfold unique_sorted. apply fold_right_app. Qed.

Lemma insert_repeat a n rest :
  (1 <= n)%nat -> (forall x, In x rest -> a < x) ->
  fold_right insert_u rest (repeat a n) = a :: rest.
Proof.
  intros Hn Hgt. induction n as [|n IH]; [lia|]. simpl.
  destruct n as [|n'].
  - simpl. destruct rest as [|w r]; [reflexivity|]. simpl.
    assert (a < w) by (apply Hgt; left; reflexivity). destruct (Z.ltb_spec a w); [reflexivity|lia].
  - rewrite IH by lia. simpl. rewrite Z.ltb_irrefl, Z.eqb_refl. reflexivity.
Qed.

Lemma unique_sorted_bbv ts : forall a,
  Forall (fun t => (1 <= List.length (t_x t))%nat) ts ->
  unique_sorted (bbv (Z.of_nat a) ts) = zr a (List.length ts).
Proof.
  induction ts as [|t r IH]; intros a H; [reflexivity|].
  inversion H as [|? ? Ht Hr]; subst. cbn [bbv List.length].
  rewrite unique_sorted_app. replace (Z.of_nat a + 1) with (Z.of_nat (S a)) by lia.
  rewrite IH by exact Hr. rewrite insert_repeat; [reflexivity | exact Ht|].
  intros x Hx. apply zr_In in Hx. lia.
Qed.

Lemma zmaximum_bbv ts :
  ts <> [] -> Forall (fun t => (1 <= List.length (t_x t))%nat) ts ->
  zmaximum (bbv 0 ts) = Some (Z.of_nat (List.length ts) - 1).
Proof.
  intros Hne Hall. apply zmaximum_unique.
  - destruct (exists_last Hne) as (pre & t & ->).
    rewrite bbv_app. apply in_or_app. right. cbn [bbv]. rewrite app_nil_r.
    apply Forall_app in Hall. destruct Hall as [_ Ht]. inversion Ht as [|? ? H1 _]; subst.
    destruct (List.length (t_x t)) as [|n]; [lia|]. simpl. left. rewrite app_length. simpl. lia.
  - intros x Hx. apply bbv_bounds in Hx. lia.
Qed.

(** * validity of members *)

Definition vm_len (t : tdata) : Prop := List.length (ea_rows t) = List.length (t_ei t).

Lemma valid_ea t : valid_member t -> t_ea t = Some (ea_rows t) /\ vm_len t.
Proof.
  intros (_ & (ea & Hea & Hlen) & _). unfold vm_len, ea_rows. rewrite Hea. auto.
Qed.

Lemma bei_length ts : forall off, Forall valid_member ts -> List.length (bei off ts) = List.length (bea ts).
Proof.
  induction ts as [|t r IH]; intros off H; [reflexivity|].
  inversion H as [|? ? Ht Hr]; subst. cbn [bei]. unfold bea. simpl. fold (bea r).
  rewrite !app_length, map_length, (IH _ Hr). destruct (valid_ea t Ht) as [_ Hl]. unfold vm_len in Hl. lia.
Qed.

Lemma bei_range ts : forall (off : nat) p, Forall valid_member ts -> In p (bei (Z.of_nat off) ts) ->
  Z.of_nat off <= fst p < Z.of_nat (off + tot ts).
Proof.
  induction ts as [|t r IH]; intros off p H Hin; [contradiction|].
  inversion H as [|? ? Ht Hr]; subst. cbn [bei] in Hin. rewrite tot_cons.
  apply in_app_or in Hin. destruct Hin as [Hin|Hin].
  - apply in_map_iff in Hin. destruct Hin as (q & <- & Hq).
    destruct Ht as (_ & _ & _ & Hrange). destruct (Hrange q Hq) as [H1 _]. unfold shift. simpl. lia.
  - replace (Z.of_nat off + Z.of_nat (List.length (t_x t))) with (Z.of_nat (off + List.length (t_x t))) in Hin by lia.
    apply (IH _ _ Hr) in Hin. lia.
Qed.

Lemma filter_all {A} (f : A -> bool) l : (forall a, In a l -> f a = true) -> filter f l = l.
Proof.
  induction l as [|a t IH]; intros H; simpl; [reflexivity|].
  rewrite (H a) by (left; reflexivity). f_equal. apply IH. intros b Hb. apply H. right. exact Hb.
Qed.

Lemma filter_none {A} (f : A -> bool) l : (forall a, In a l -> f a = false) -> filter f l = [].
Proof.
  induction l as [|a t IH]; intros H; simpl; [reflexivity|].
  rewrite (H a) by (left; reflexivity). apply IH. intros b Hb. apply H. right. exact Hb.
Qed.

Lemma in_combine_fst {A B} (l : list A) (l' : list B) c : In c (combine l l') -> In (fst c) l.
Proof. destruct c as [a b]. apply in_combine_l. Qed.

(* the columns whose source lies in member j's block are exactly member j's columns *)
Lemma cols_member pre t suf :
  Forall valid_member (pre ++ t :: suf) ->
  let ts := pre ++ t :: suf in
  filter (fun c : (Z * Z) * list Z => zmem (fst (fst c)) (zr (tot pre) (List.length (t_x t))))
         (combine (bei 0 ts) (bea ts))
  = combine (map (shift (Z.of_nat (tot pre))) (t_ei t)) (ea_rows t).
Proof.
  intros Hall ts. unfold ts.
  pose proof Hall as Hall'. apply Forall_app in Hall'. destruct Hall' as [Hpre Hts].
  inversion Hts as [|? ? Ht Hsuf]; subst.
  rewrite bei_app, bea_app. cbn [bei]. unfold bea at 2. simpl. fold (bea suf).
  change (0 + Z.of_nat (tot pre)) with (Z.of_nat (tot pre)).
  rewrite combine_app by (apply bei_length; exact Hpre).
  destruct (valid_ea t Ht) as [_ Hl]. unfold vm_len in Hl.
  rewrite combine_app by (rewrite map_length; symmetry; exact Hl).
  rewrite !filter_app.
  rewrite (filter_none _ (combine (bei 0 pre) (bea pre))).
  2:{ intros c Hc. apply in_combine_fst in Hc. apply (bei_range pre 0 _ Hpre) in Hc.
      apply zmem_false. rewrite zr_In. simpl in Hc. lia. }
  rewrite (filter_none _ (combine (bei _ suf) (bea suf))).
  2:{ intros c Hc. apply in_combine_fst in Hc.
      replace (Z.of_nat (tot pre) + Z.of_nat (List.length (t_x t))) with (Z.of_nat (tot pre + List.length (t_x t))) in Hc by lia.
      apply (bei_range suf _ _ Hsuf) in Hc. apply zmem_false. rewrite zr_In. lia. }
  rewrite app_nil_r. simpl. apply filter_all.
  intros c Hc. apply in_combine_fst in Hc. apply in_map_iff in Hc. destruct Hc as (q & <- & Hq).
  destruct Ht as (_ & _ & _ & Hrange). destruct (Hrange q Hq) as [H1 _].
  apply zmem_In. rewrite zr_In. unfold shift. simpl. lia.
Qed.

Lemma unshift off l : map (shift (- off)) (map (shift off) l) = l.
Proof.
  rewrite map_map. rewrite <- (map_id l) at 2. apply map_ext. intros [u v]. unfold shift. simpl. f_equal; lia.
Qed.

(** * (b) the decoder, member by member *)

Lemma loop_suffix : forall suf pre,
  Forall valid_member (pre ++ suf) ->
  databatch_loop (bx (pre ++ suf)) (bei 0 (pre ++ suf)) (Some (bea (pre ++ suf))) (bbv 0 (pre ++ suf))
                 (zr (List.length pre) (List.length suf)) (Z.of_nat (tot pre))
  = mapM its_from_torch_data suf.
Proof.
  induction suf as [|t suf IH]; intros pre Hall; [reflexivity|].
  pose proof Hall as Hall'. apply Forall_app in Hall'. destruct Hall' as [Hpre Hts].
  inversion Hts as [|? ? Ht Hsuf]; subst.
  cbn [List.length zr seq map databatch_loop mapM]. cbv zeta.
  rewrite nonzero_eq_nz, nz_member.
  pose proof Ht as (_ & _ & Hn2 & _).
  rewrite zr_length.
  destruct (Nat.eqb_spec (List.length (t_x t)) 1) as [E1|_]; [lia|].
  (* node features of the block *)
  assert (Hx : mapM (fun i => bind (nth_res (bx (pre ++ t :: suf)) i) node_feature_torch2its)
                    (zr (tot pre) (List.length (t_x t)))
               = mapM node_feature_torch2its (t_x t)).
  { rewrite bx_app. unfold bx at 2. simpl. fold (bx suf). unfold tot. apply mapM_block. }
  rewrite Hx. unfold its_from_torch_data at 1.
  destruct (mapM node_feature_torch2its (t_x t)) as [syms|e]; cbn [bind]; [|reflexivity].
  rewrite (cols_member pre t suf Hall).
  destruct (valid_ea t Ht) as [Hea Hl]. unfold vm_len in Hl.
  rewrite Hea.
  replace (map (fun c : (Z * Z) * list Z => shift (- Z.of_nat (tot pre)) (fst c))
               (combine (map (shift (Z.of_nat (tot pre))) (t_ei t)) (ea_rows t)))
    with (t_ei t).
  2:{ rewrite <- (map_map fst (shift (- Z.of_nat (tot pre)))).
      rewrite combine_fst by (rewrite map_length; symmetry; exact Hl). symmetry. apply unshift. }
  rewrite combine_snd by (rewrite map_length; symmetry; exact Hl).
  destruct (build_its syms (t_ei t) (Some (ea_rows t))) as [g|e]; cbn [bind]; [|reflexivity].
  rewrite zmaximum_zr by lia.
  replace (Z.of_nat (tot pre + List.length (t_x t)) - 1 + 1) with (Z.of_nat (tot (pre ++ [t]))).
  2:{ rewrite tot_app. unfold tot at 2, bx. simpl. rewrite app_nil_r. lia. }
  replace (pre ++ t :: suf) with ((pre ++ [t]) ++ suf) by (rewrite <- app_assoc; reflexivity).
  replace (S (List.length pre)) with (List.length (pre ++ [t])) by (rewrite app_length; simpl; lia).
  fold (zr (List.length (pre ++ [t])) (List.length suf)).
  rewrite IH; [reflexivity|]. rewrite <- app_assoc. exact Hall.
Qed.

Theorem batch_decode ts b :
  ts <> [] -> Forall valid_member ts -> batch_from_data_list ts = Ok b ->
  its_from_torch b = bind (mapM its_from_torch_data ts) (fun gs => Ok (Many gs)).
Proof.
  intros Hne Hall Hb. unfold batch_from_data_list in Hb. destruct (forallb _ ts); [|discriminate].
  rewrite batch_go_eq in Hb. injection Hb as <-.
  assert (Hn1 : Forall (fun t => (1 <= List.length (t_x t))%nat) ts).
  { eapply Forall_impl; [|exact Hall]. intros t (_ & _ & H & _). lia. }
  unfold its_from_torch, its_from_torch_databatch. cbn [t_batch t_x t_ei t_ea].
  rewrite (zmaximum_bbv ts Hne Hn1).
  pose proof (unique_sorted_bbv ts 0 Hn1) as Hu. change (Z.of_nat 0) with 0 in Hu. rewrite Hu, zr_length.
  replace (Z.of_nat (List.length ts) =? Z.of_nat (List.length ts) - 1 + 1) with true by (symmetry; apply Z.eqb_eq; lia).
  cbn [negb].
  pose proof (loop_suffix ts [] Hall) as Hloop. simpl in Hloop. unfold tot in Hloop. simpl in Hloop.
  fold (bx ts) in Hloop. rewrite Hloop. reflexivity.
Qed.

(** * members produced by the conversion are valid *)

Lemma to_torch_valid g t :
  wf g -> (2 <= List.length g)%nat -> to_torch_spec g t -> valid_member t.
Proof.
  intros Hwf Hn (Hx & Hei & Hea & Hb).
  assert (Hlen : List.length (t_x t) = List.length g) by (symmetry; eapply Forall2_length'; eauto).
  assert (HlenN : List.length (nodes g) = List.length g) by (unfold nodes; apply map_length).
  split; [exact Hb|]. split; [|split; [lia|]].
  - eexists. split; [exact Hea|]. rewrite Hei, !flat_map_length2 by reflexivity. reflexivity.
  - intros p Hp. rewrite Hei in Hp. apply in_flat_map in Hp. destruct Hp as ([[u v] l] & He & Hp).
    destruct (edges_endpoints g u v l Hwf He) as [Hu Hv].
    pose proof (zindex_range u (nodes g) Hu). pose proof (zindex_range v (nodes g) Hv).
    simpl in Hp. destruct Hp as [<-|[<-|[]]]; simpl; lia.
Qed.

(** the domain of the property for one graph *)
Definition its_domain (g : graph) : Prop :=
  wf g /\ tabulated g /\ pair_labelled g /\ edges g <> [].

(** * batch = member-wise: tensors side by side, and decoding the batch gives the member-wise
    round trips *)
Theorem batch_memberwise gs :
  gs <> [] -> Forall its_domain gs -> Forall (fun g => (2 <= List.length g)%nat) gs ->
  exists ts b gs',
    Forall2 (fun g t => its_to_torch1 g = Ok t /\ to_torch_spec g t) gs ts /\
    its_to_torch_list gs = Ok b /\ batch_spec ts b /\
    its_from_torch b = Ok (Many gs') /\
    Forall2 (fun t g' => its_from_torch t = Ok (One g')) ts gs' /\
    Forall2 roundtrip_spec gs gs'.
Proof.
  intros Hne Hdom Hn2.
  assert (Hmem : exists ts gs',
            Forall2 (fun g t => its_to_torch1 g = Ok t /\ to_torch_spec g t) gs ts /\
            Forall2 (fun t g' => its_from_torch t = Ok (One g')) ts gs' /\
            Forall2 roundtrip_spec gs gs' /\ Forall valid_member ts).
  { clear Hne. induction gs as [|g r IH].
    - exists [], []. repeat split; constructor.
    - inversion Hdom as [|? ? (Hwf & Htab & Hpl & He) Hr]; subst.
      inversion Hn2 as [|? ? Hg2 Hr2]; subst.
      destruct (IH Hr Hr2) as (ts & gs' & H1 & H2 & H3 & H4).
      destruct (torch_roundtrip g Hwf Htab Hpl He) as (t & g' & Ht & Hs & Hf & Hrt).
      exists (t :: ts), (g' :: gs'). repeat split; constructor; auto.
      eapply to_torch_valid; eauto. }
  destruct Hmem as (ts & gs' & H1 & H2 & H3 & H4).
  assert (Hmap : mapM its_to_torch1 gs = Ok ts).
  { apply Forall2_mapM. clear -H1. induction H1 as [|a b0 l l' [H _] _ IH]; constructor; assumption. }
  assert (Hts : ts <> []).
  { intros ->. inversion H1; subst. contradiction. }
  assert (Hfb : forallb (fun t => is_some (t_ea t) && negb (is_some (t_batch t))) ts = true).
  { apply forallb_forall. intros t Ht. rewrite Forall_forall in H4. destruct (H4 t Ht) as (Hb & (ea & Hea & _) & _).
    rewrite Hea, Hb. reflexivity. }
  assert (Hbat : exists b, batch_from_data_list ts = Ok b).
  { unfold batch_from_data_list. rewrite Hfb. destruct (batch_go 0 0 ts) as [[[x ei] ea] bv]. eauto. }
  destruct Hbat as (b & Hb).
  exists ts, b, gs'. split; [exact H1|]. split; [unfold its_to_torch_list; rewrite Hmap; exact Hb|].
  split; [apply batch_tensors; exact Hb|]. split; [|split; assumption].
  rewrite (batch_decode ts b Hts H4 Hb).
  assert (Hd : mapM its_from_torch_data ts = Ok gs').
  { apply Forall2_mapM. clear -H2 H4. induction H2 as [|t g' ts gs' Ht _ IH]; constructor.
    - inversion H4 as [|? ? (Hbn & _) _]; subst. unfold its_from_torch in Ht. rewrite Hbn in Ht.
      destruct (its_from_torch_data t); simpl in Ht; congruence.
    - apply IH. inversion H4; assumption. }
  rewrite Hd. reflexivity.
Qed.
