(** The pattern graphs that the translators put into Gen/*.v (obtained by running the REAL parser inside the
    generator) are exactly what the Coq model of the parser returns on the same pattern strings. Since the
    parser model is tied to fgutils.parse by C01 (exact in-kernel comparison on every run) and proved faithful,
    this removes the generator's use of the parser from the trusted base: a generator that emitted a graph
    the parser would not produce breaks this file. *)
From Coq Require Import ZArith List Bool String.
From FGV Require Import Base.Util Base.Bond Base.NX Model.Parse Gen.FGDefault.
Import ListNotations.
Open Scope string_scope.

Definition parsed_is (s : string) (g : graph) : bool :=
  Parse.result_eqb graph_eqb (parse_simple false 0 s) (Ok g).

Fixpoint all2b {A B} (f : A -> B -> bool) (x : list A) (y : list B) : bool :=
  match x, y with
  | [], [] => true
  | a :: x', b :: y' => f a b && all2b f x' y'
  | _, _ => false
  end.

Definition default_graphs_parsedb : bool :=
  all2b (fun (raw : string * string * option (list Z) * list string) (gs : graph * list graph) =>
           let '(_, pat, _, antis) := raw in
           parsed_is pat (fst gs) && all2b parsed_is antis (snd gs))
        default_raw default_graphs.

Lemma default_graphs_parsed : default_graphs_parsedb = true.
Proof. vm_compute. reflexivity. Qed.
