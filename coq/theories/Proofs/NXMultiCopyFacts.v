(** MultiGraph.copy() (Base/NXMulti.mcopy) of a well-formed multigraph: same node list, same
    attributes, same key dict between every two nodes, well-formed. This discharges the hypotheses
    [mcopy_statement] and [mcopy_bonds_statement] of the C14 theorems. *)
From Coq Require Import ZArith List Bool String Lia Permutation Arith.
From FGV Require Import Base.Util Base.UtilFacts Base.Bond Base.NX Base.NXFacts Base.NXMulti Model.Proxy
  Model.ProxyGen Spec.ProxySpec Spec.ProxyGenSpec Proofs.ProxyGenUtil.
Import ListNotations.
Open Scope Z_scope.

Lemma mkeyd_mkd g x y : mkeyd g x y = match mkd g x y with Some kd => kd | None => [] end.
Proof. reflexivity. Qed.

(* node ids and attributes, in order *)
Definition shape (g : mgraph) : list (Z * nattr) := map (fun e => (fst e, fst (snd e))) g.

Lemma shape_mnodes g : map fst (shape g) = mnodes g.
Proof. unfold shape, mnodes. rewrite map_map. reflexivity. Qed.

Lemma shape_attr g h x : shape g = shape h -> mnode_attr g x = mnode_attr h x.
Proof.
  unfold mnode_attr, shape. revert h. induction g as [|[n [a ad]] t IH]; intros [|[n' [a' ad']] t']; simpl; try discriminate.
  - reflexivity.
  - intros H. inversion H; subst. destruct (x =? n'); [reflexivity|]. apply IH. assumption.
Qed.

(** * aset on key dicts *)

Lemma aset_same {A} k (a : A) l : alookup k l = Some a -> aset k a l = l.
Proof.
  induction l as [|[k' a'] t IH]; simpl; [discriminate|].
  destruct (Z.eqb_spec k k') as [->|Hne].
  - intros [= ->]. reflexivity.
  - intros H. rewrite IH by exact H. reflexivity.
Qed.

Lemma aset_fresh {A} k (a : A) l : alookup k l = None -> aset k a l = l ++ [(k, a)].
Proof.
  induction l as [|[k' a'] t IH]; simpl; [reflexivity|].
  destruct (Z.eqb_spec k k') as [->|Hne]; [discriminate|]. intros H. rewrite IH by exact H. reflexivity.
Qed.

Definition fold_aset (kd2 K : keyd) : keyd := fold_left (fun acc e => aset (fst e) (snd e) acc) kd2 K.

Lemma fold_aset_fresh kd2 : forall K, NoDup (map fst (K ++ kd2)) -> fold_aset kd2 K = K ++ kd2.
Proof.
  induction kd2 as [|[k l] t IH]; intros K Hnd; [rewrite app_nil_r; reflexivity|].
  unfold fold_aset in *. simpl.
  assert (Hk : alookup k K = None).
  { apply alookup_None. rewrite map_app in Hnd. simpl in Hnd. intros Hin.
    apply NoDup_remove_2 in Hnd. apply Hnd. apply in_or_app. left. exact Hin. }
  rewrite (aset_fresh k l K Hk). rewrite IH.
  - rewrite <- app_assoc. reflexivity.
  - rewrite <- app_assoc. exact Hnd.
Qed.

Lemma fold_aset_same kd2 : forall K,
  (forall k l, In (k, l) kd2 -> alookup k K = Some l) -> fold_aset kd2 K = K.
Proof.
  induction kd2 as [|[k l] t IH]; intros K H; [reflexivity|].
  unfold fold_aset in *. simpl. rewrite (aset_same k l K) by (apply H; left; reflexivity).
  apply IH. intros k' l' Hin. apply H. right. exact Hin.
Qed.

Lemma fold_aset_self kd : NoDup (map fst kd) -> fold_aset kd kd = kd.
Proof.
  intros Hnd. apply fold_aset_same. intros k l Hin. apply NoDup_alookup; assumption.
Qed.

(** * mset_adj, madd_edge_key on existing nodes *)

Lemma shape_aset_entry (g : mgraph) u a ad ad' :
  alookup u g = Some (a, ad) -> shape (aset u (a, ad') g) = shape g.
Proof.
  unfold shape. induction g as [|[n [a0 ad0]] t IH]; simpl; [discriminate|].
  destruct (Z.eqb_spec u n) as [->|Hne].
  - intros [= -> ->]. reflexivity.
  - intros H. simpl. rewrite IH by exact H. reflexivity.
Qed.

Lemma shape_mset_adj g u v k l : shape (mset_adj g u v k l) = shape g.
Proof.
  unfold mset_adj. destruct (alookup u g) as [[a ad]|] eqn:E; [|reflexivity].
  eapply shape_aset_entry. exact E.
Qed.

Lemma madj_mset_adj g u v k l x :
  mhas_node g u = true ->
  madj (mset_adj g u v k l) x = if x =? u then aset v (aset k l (mkeyd g u v)) (madj g u) else madj g x.
Proof.
  unfold mhas_node, mset_adj, madj, mkeyd, madj. destruct (alookup u g) as [[a ad]|] eqn:E; [|discriminate].
  intros _. rewrite alookup_aset. destruct (Z.eqb_spec x u) as [->|Hne]; reflexivity.
Qed.

Lemma mhas_node_shape g h x : shape g = shape h -> mhas_node g x = mhas_node h x.
Proof.
  intros H. unfold mhas_node.
  assert (E : forall k, is_some (alookup x k) = is_some (alookup x (shape k))).
  { intros k. unfold shape. induction k as [|[n [a ad]] t IH]; simpl; [reflexivity|]. destruct (x =? n); [reflexivity|exact IH]. }
  rewrite (E g), (E h), H. reflexivity.
Qed.

Lemma mhas_node_mset_adj g u v k l x : mhas_node (mset_adj g u v k l) x = mhas_node g x.
Proof. apply mhas_node_shape. apply shape_mset_adj. Qed.

Lemma mkd_mset_adj g u v k l x y :
  mhas_node g u = true ->
  mkd (mset_adj g u v k l) x y
  = if (x =? u) && (y =? v) then Some (aset k l (mkeyd g u v)) else mkd g x y.
Proof.
  intros Hu. unfold mkd. rewrite madj_mset_adj by exact Hu.
  destruct (Z.eqb_spec x u) as [->|Hne]; simpl; [|reflexivity].
  rewrite alookup_aset. destruct (Z.eqb_spec y v); reflexivity.
Qed.

Lemma mensure_node_present g n : mhas_node g n = true -> mensure_node g n = g.
Proof. unfold mhas_node, mensure_node. destruct (alookup n g); [reflexivity|discriminate]. Qed.

Definition pm (u v x y : Z) : bool := ((x =? u) && (y =? v)) || ((x =? v) && (y =? u)).

Lemma mkeyd_mset_adj g u v k l a b :
  mhas_node g u = true ->
  mkeyd (mset_adj g u v k l) a b = if (a =? u) && (b =? v) then aset k l (mkeyd g u v) else mkeyd g a b.
Proof.
  intros Hu. rewrite !mkeyd_mkd, mkd_mset_adj by exact Hu.
  destruct ((a =? u) && (b =? v)); reflexivity.
Qed.

Lemma mkd_madd_edge_key g u v k l x y :
  mhas_node g u = true -> mhas_node g v = true ->
  mkd (madd_edge_key g u v k l) x y
  = if pm u v x y then Some (aset k l (mkeyd g x y)) else mkd g x y.
Proof.
  intros Hu Hv. unfold madd_edge_key. rewrite (mensure_node_present g u Hu), (mensure_node_present g v Hv).
  rewrite mkd_mset_adj by (rewrite mhas_node_mset_adj; exact Hv).
  rewrite mkd_mset_adj by exact Hu. rewrite mkeyd_mset_adj by exact Hu. unfold pm.
  destruct (Z.eqb_spec x u) as [Exu|Exu]; destruct (Z.eqb_spec y v) as [Eyv|Eyv];
    destruct (Z.eqb_spec x v) as [Exv|Exv]; destruct (Z.eqb_spec y u) as [Eyu|Eyu]; subst; simpl;
    repeat match goal with
           | |- context [Z.eqb ?p ?q] => destruct (Z.eqb_spec p q); subst; simpl
           end;
    try congruence; try reflexivity.
  all: try (f_equal; rewrite (aset_same k l (aset k l _)) by apply alookup_aset_eq; reflexivity).
Qed.

Lemma shape_madd_edge_key g u v k l :
  mhas_node g u = true -> mhas_node g v = true -> shape (madd_edge_key g u v k l) = shape g.
Proof.
  intros Hu Hv. unfold madd_edge_key. rewrite (mensure_node_present g u Hu), (mensure_node_present g v Hv).
  rewrite !shape_mset_adj. reflexivity.
Qed.

Lemma adj_nodup_madd_edge_key g u v k l :
  mhas_node g u = true -> mhas_node g v = true ->
  (forall x, NoDup (map fst (madj g x))) -> forall x, NoDup (map fst (madj (madd_edge_key g u v k l) x)).
Proof.
  intros Hu Hv H x. unfold madd_edge_key. rewrite (mensure_node_present g u Hu), (mensure_node_present g v Hv).
  rewrite madj_mset_adj by (rewrite mhas_node_mset_adj; exact Hv).
  assert (H1 : forall z, NoDup (map fst (madj (mset_adj g u v k l) z))).
  { intros z. rewrite madj_mset_adj by exact Hu. destruct (z =? u); [apply NoDup_fst_aset|]; apply H. }
  destruct (x =? v); [apply NoDup_fst_aset|]; apply H1.
Qed.

(** * the node phase of copy() *)

Lemma madd_nodes_from_fresh (l : list (Z * nattr)) : forall acc : mgraph,
  NoDup (map fst acc ++ map fst l) ->
  madd_nodes_from acc l = acc ++ map (fun e => (fst e, (snd e, []))) l.
Proof.
  unfold madd_nodes_from. induction l as [|[n a] t IH]; intros acc Hnd; simpl; [rewrite app_nil_r; reflexivity|].
  assert (Hn : alookup n acc = None).
  { apply alookup_None. simpl in Hnd. intros Hin. apply NoDup_remove_2 in Hnd. apply Hnd. apply in_or_app. left. exact Hin. }
  unfold madd_node at 2. rewrite Hn. rewrite IH.
  - rewrite <- app_assoc. reflexivity.
  - rewrite map_app. simpl. rewrite <- app_assoc. exact Hnd.
Qed.

Lemma copy_nodes_phase g :
  NoDup (mnodes g) ->
  madd_nodes_from mempty (mnodes_data g) = map (fun e => (fst e, (fst (snd e), []))) g.
Proof.
  intros Hnd. rewrite madd_nodes_from_fresh.
  - simpl. unfold mnodes_data. rewrite map_map. apply map_ext. intros [n [a ad]]. reflexivity.
  - simpl. unfold mnodes_data. rewrite map_map.
    replace (map (fun x => fst (let '(n, (a, _)) := x in (n, a))) g) with (mnodes g); [exact Hnd|].
    unfold mnodes. apply map_ext. intros [n [a ad]]. reflexivity.
Qed.

Lemma madj_nodes_only (g : mgraph) x :
  madj (map (fun e : Z * (nattr * madjl) => (fst e, (fst (snd e), @nil (Z * keyd)))) g) x = [].
Proof.
  unfold madj. induction g as [|[n [a ad]] t IH]; simpl; [reflexivity|].
  destruct (x =? n); [reflexivity|]. apply IH.
Qed.

(** * one bundle of parallel edges *)

Lemma madd_edges_from_app G l1 l2 : madd_edges_from G (l1 ++ l2) = madd_edges_from (madd_edges_from G l1) l2.
Proof. unfold madd_edges_from. apply fold_left_app. Qed.

Lemma bundle_facts u v (kd2 : keyd) : forall G,
  mhas_node G u = true -> mhas_node G v = true -> (forall x, NoDup (map fst (madj G x))) ->
  let G' := madd_edges_from G (map (fun e => (u, v, fst e, snd e)) kd2) in
  shape G' = shape G
  /\ (forall x, NoDup (map fst (madj G' x)))
  /\ (forall x y, mkd G' x y = if pm u v x y
                               then match kd2 with [] => mkd G x y | _ => Some (fold_aset kd2 (mkeyd G x y)) end
                               else mkd G x y).
Proof.
  induction kd2 as [|[k l] t IH]; intros G Hu Hv Hnd.
  - simpl. split; [reflexivity|]. split; [exact Hnd|]. intros x y. destruct (pm u v x y); reflexivity.
  - cbn zeta. cbn [map fst snd]. unfold madd_edges_from. cbn [fold_left]. fold (madd_edges_from (madd_edge_key G u v k l) (map (fun e => (u, v, fst e, snd e)) t)).
    pose proof (shape_madd_edge_key G u v k l Hu Hv) as Hs1.
    destruct (IH (madd_edge_key G u v k l)) as [Hs [Hn Hk]].
    + rewrite (mhas_node_shape _ _ u Hs1). exact Hu.
    + rewrite (mhas_node_shape _ _ v Hs1). exact Hv.
    + apply adj_nodup_madd_edge_key; assumption.
    + split; [rewrite Hs; exact Hs1|]. split; [exact Hn|].
      intros x y. rewrite Hk. rewrite mkd_madd_edge_key by assumption.
      destruct (pm u v x y) eqn:Ep; [|reflexivity].
      destruct t as [|e t']; [reflexivity|].
      f_equal. rewrite mkeyd_mkd, mkd_madd_edge_key by assumption. rewrite Ep. reflexivity.
Qed.

(** * the edge phase: invariant over the adjacency entries of g *)

Section Copy.
Variable g : mgraph.
Hypothesis Hwf : mwf g.

Definition CInv (G : mgraph) (S : Z -> Z -> Prop) : Prop :=
  shape G = shape g
  /\ (forall x, NoDup (map fst (madj G x)))
  /\ (forall x y, mkd G x y = None \/ mkd G x y = mkd g x y)
  /\ (forall x y, S x y \/ S y x -> mkd G x y = mkd g x y).

Lemma CInv_ext G S S' : (forall x y, S x y <-> S' x y) -> CInv G S -> CInv G S'.
Proof.
  intros E [H1 [H2 [H3 H4]]]. split; [exact H1|]. split; [exact H2|]. split; [exact H3|].
  intros x y H. apply H4. rewrite !E. exact H.
Qed.

Lemma pm_iff u v x y : pm u v x y = true <-> (x = u /\ y = v) \/ (x = v /\ y = u).
Proof. unfold pm. rewrite orb_true_iff, !andb_true_iff, !Z.eqb_eq. tauto. Qed.

Lemma mkd_sym u v kd : mkd g u v = Some kd -> mkd g v u = Some kd.
Proof. destruct Hwf as [_ [_ Hsym]]. intros H. destruct (Hsym u v kd H) as [_ [_ Hb]]. exact Hb. Qed.

Lemma bundle_step G S u v kd :
  CInv G S -> mkd g u v = Some kd ->
  CInv (madd_edges_from G (map (fun e => (u, v, fst e, snd e)) kd)) (fun x y => S x y \/ (x = u /\ y = v)).
Proof.
  intros [H1 [H2 [H3 H4]]] Hk.
  destruct Hwf as [Hnd [Hadj Hsym]]. destruct (Hsym u v kd Hk) as [Hne [Hkn Hback]].
  assert (Hu : mhas_node G u = true).
  { rewrite (mhas_node_shape _ _ u H1). unfold mhas_node. unfold mkd, madj in Hk.
    destruct (alookup u g); [reflexivity|discriminate]. }
  assert (Hv : mhas_node G v = true).
  { rewrite (mhas_node_shape _ _ v H1). unfold mhas_node. unfold mkd, madj in Hback.
    destruct (alookup v g); [reflexivity|discriminate]. }
  destruct (bundle_facts u v kd G Hu Hv H2) as [Hs [Hn Hkd]].
  assert (Hpair : forall x y, pm u v x y = true ->
            mkd (madd_edges_from G (map (fun e => (u, v, fst e, snd e)) kd)) x y = mkd g x y).
  { intros x y Ep. rewrite Hkd, Ep. destruct kd as [|e t] eqn:Ekd; [congruence|]. rewrite <- Ekd in *.
    assert (Eg : mkd g x y = Some kd).
    { apply pm_iff in Ep. destruct Ep as [[-> ->]|[-> ->]]; assumption. }
    rewrite Eg. f_equal. rewrite mkeyd_mkd.
    destruct (H3 x y) as [E|E]; rewrite E.
    - apply (fold_aset_fresh kd []). simpl. exact Hkn.
    - rewrite Eg. apply fold_aset_self. exact Hkn. }
  split; [rewrite Hs; exact H1|]. split; [exact Hn|]. split.
  - intros x y. destruct (pm u v x y) eqn:Ep.
    + right. apply Hpair. exact Ep.
    + rewrite Hkd, Ep. apply H3.
  - intros x y H. destruct (pm u v x y) eqn:Ep.
    + apply Hpair. exact Ep.
    + rewrite Hkd, Ep. apply H4.
      assert (Hn' : ~ ((x = u /\ y = v) \/ (x = v /\ y = u))) by (rewrite <- pm_iff, Ep; discriminate).
      tauto.
Qed.

Lemma adj_fold u (ad : madjl) : forall G S,
  CInv G S -> (forall v kd, In (v, kd) ad -> mkd g u v = Some kd) ->
  CInv (madd_edges_from G (flat_map (fun '(v, kd) => map (fun '(k, l) => (u, v, k, l)) kd) ad))
       (fun x y => S x y \/ (x = u /\ exists kd, In (y, kd) ad)).
Proof.
  induction ad as [|[v kd] t IH]; intros G S HI Had.
  - simpl. eapply CInv_ext; [|exact HI]. intros x y. split; [tauto|]. intros [H|[_ [kd []]]]. exact H.
  - cbn [flat_map]. rewrite madd_edges_from_app.
    replace (map (fun '(k, l) => (u, v, k, l)) kd) with (map (fun e : Z * label => (u, v, fst e, snd e)) kd)
      by (apply map_ext; intros [k l]; reflexivity).
    eapply CInv_ext; [|apply (IH _ _ (bundle_step G S u v kd HI (Had v kd (or_introl eq_refl))))].
    + intros x y. split.
      * intros [[H|[-> ->]]|[-> [kd' Hin]]]; [left; exact H| |].
        -- right. split; [reflexivity|]. exists kd. left. reflexivity.
        -- right. split; [reflexivity|]. exists kd'. right. exact Hin.
      * intros [H|[-> [kd' [Hin|Hin]]]]; [left; left; exact H| |].
        -- inversion Hin; subst. left. right. split; reflexivity.
        -- right. split; [reflexivity|]. exists kd'. exact Hin.
    + intros v' kd' Hin. apply Had. right. exact Hin.
Qed.

Lemma entries_fold (l : mgraph) : forall G S,
  CInv G S -> (forall u a ad v kd, In (u, (a, ad)) l -> In (v, kd) ad -> mkd g u v = Some kd) ->
  CInv (madd_edges_from G (madj_quads l))
       (fun x y => S x y \/ exists a ad kd, In (x, (a, ad)) l /\ In (y, kd) ad).
Proof.
  induction l as [|[u [a ad]] t IH]; intros G S HI Hl.
  - simpl. eapply CInv_ext; [|exact HI]. intros x y. split; [tauto|]. intros [H|[? [? [? [[] _]]]]]. exact H.
  - unfold madj_quads. cbn [flat_map]. fold (madj_quads t). rewrite madd_edges_from_app.
    eapply CInv_ext; [|apply (IH _ _ (adj_fold u ad G S HI (fun v kd Hin => Hl u a ad v kd (or_introl eq_refl) Hin)))].
    + intros x y. split.
      * intros [[H|[-> [kd Hin]]]|[a' [ad' [kd [Hin1 Hin2]]]]]; [left; exact H| |].
        -- right. exists a, ad, kd. split; [left; reflexivity|exact Hin].
        -- right. exists a', ad', kd. split; [right; exact Hin1|exact Hin2].
      * intros [H|[a' [ad' [kd [[Heq|Hin1] Hin2]]]]]; [left; left; exact H| |].
        -- inversion Heq; subst. left. right. split; [reflexivity|]. exists kd. exact Hin2.
        -- right. exists a', ad', kd. split; assumption.
    + intros u' a' ad' v kd Hin1 Hin2. apply (Hl u' a' ad' v kd); [right; exact Hin1|exact Hin2].
Qed.

Theorem mcopy_facts :
  shape (mcopy g) = shape g
  /\ (forall x, NoDup (map fst (madj (mcopy g) x)))
  /\ (forall x y, mkd (mcopy g) x y = mkd g x y).
Proof.
  pose proof Hwf as [Hnd [Hadj Hsym]].
  unfold mcopy. rewrite (copy_nodes_phase g Hnd).
  set (G0 := map (fun e : Z * (nattr * madjl) => (fst e, (fst (snd e), @nil (Z * keyd)))) g).
  assert (Hadj0 : forall x, madj G0 x = []) by (intros x; apply madj_nodes_only).
  assert (H0 : CInv G0 (fun _ _ => False)).
  { split; [unfold shape, G0; rewrite map_map; reflexivity|]. split; [intros x; rewrite Hadj0; constructor|].
    split; [intros x y; left; unfold mkd; rewrite Hadj0; reflexivity|]. intros x y [[]|[]]. }
  assert (Hl : forall u a ad v kd, In (u, (a, ad)) g -> In (v, kd) ad -> mkd g u v = Some kd).
  { intros u a ad v kd Hin1 Hin2.
    assert (Ead : madj g u = ad) by (unfold madj; rewrite (NoDup_alookup u (a, ad) g Hnd Hin1); reflexivity).
    unfold mkd. rewrite Ead. apply NoDup_alookup; [|exact Hin2]. rewrite <- Ead. apply Hadj. }
  destruct (entries_fold g G0 (fun _ _ => False) H0 Hl) as [H1 [H2 [H3 H4]]].
  split; [exact H1|]. split; [exact H2|].
  intros x y. destruct (mkd g x y) as [kd|] eqn:E.
  - rewrite <- E. apply H4. left. right.
    unfold mkd, madj in E. destruct (alookup x g) as [[a ad]|] eqn:Ex; [|discriminate].
    exists a, ad, kd. split; [apply alookup_In; exact Ex|apply alookup_In; exact E].
  - destruct (H3 x y) as [H|H]; [exact H|]. rewrite H. exact E.
Qed.

End Copy.

(** * the statements the C14 theorems assume *)

Theorem mcopy_statement_holds : mcopy_statement.
Proof.
  intros g Hwf. destruct (mcopy_facts g Hwf) as [Hs [Hn Hk]].
  pose proof Hwf as [Hnd [Hadj Hsym]].
  assert (Hnodes : mnodes (mcopy g) = mnodes g) by (rewrite <- !shape_mnodes, Hs; reflexivity).
  split; [|split; [exact Hnodes|intros x; apply shape_attr; exact Hs]].
  split; [rewrite Hnodes; exact Hnd|]. split; [exact Hn|].
  intros u v kd H. fold (mkd (mcopy g) u v) in H. rewrite Hk in H.
  destruct (Hsym u v kd H) as [H1 [H2 H3]]. split; [exact H1|]. split; [exact H2|].
  fold (mkd (mcopy g) v u). rewrite Hk. exact H3.
Qed.

Theorem mcopy_bonds_statement_holds : mcopy_bonds_statement.
Proof.
  intros g Hwf x y l. destruct (mcopy_facts g Hwf) as [_ [_ Hk]].
  unfold mcount, mlabels. rewrite !mkeyd_mkd, Hk. reflexivity.
Qed.
