(** Closed facts about the default list (Gen/FGDefault.v), established by kernel computation and
    therefore re-checked whenever fgutils/fgconfig.py changes. *)
From Coq Require Import ZArith List Bool String Permutation.
Import ListNotations.
From FGV Require Import Base.Util Base.Bond Base.NX Model.Permute Model.Match Model.FGTree Model.FGDefaultCfg
                        Spec.Embedding Spec.EmbSearch Spec.FGCheck Spec.FGSpec
                        Proofs.SortFacts Proofs.KeyOrder Proofs.FGTreeProofs Proofs.FGCheckProofs Proofs.FGDefaultTree.

Lemma default_keys_distinct : NoDup (map order_key default_configs).
Proof. apply keys_distinctb_NoDup. vm_compute. reflexivity. Qed.

Lemma configs_order_independent mp (l l' : list fgconfig) :
  NoDup (map order_key l) -> Permutation l l' ->
  build_config_tree_from_list mp l = build_config_tree_from_list mp l'.
Proof.
  intros Hk Hp. apply (order_independent (is_subgroup mp) cfg_ltb cfg_ltb_irrefl cfg_ltb_trans l l'); auto.
  - apply distinct_keys_nodup. exact Hk.
  - apply cfg_ltb_total. exact Hk.
Qed.

Lemma configs_hasse mp (subb : fgconfig -> fgconfig -> bool) (l : list fgconfig) :
  NoDup (map order_key l) ->
  (forall a b, In a l -> In b l -> is_subgroup mp a b = Good (subb a b)) ->
  (forall a b, In a l -> In b l -> subb a b = true -> cfg_ltb a b = true) ->
  (forall a b c, In a l -> In b l -> In c l -> subb a b = true -> subb b c = true -> subb a c = true) ->
  exists t, build_config_tree_from_list mp l = Good t /\ hasse_of subb cfg_ltb l t.
Proof.
  intros Hk. apply (hasse_insert (is_subgroup mp) subb cfg_ltb cfg_ltb_irrefl cfg_ltb_trans l).
  - apply distinct_keys_nodup. exact Hk.
  - apply cfg_ltb_total. exact Hk.
Qed.

Lemma default_all_orders l' :
  Permutation default_configs l' ->
  build_config_tree_from_list default_mapper l' = Good default_tree_val.
Proof.
  intros Hp. rewrite <- (configs_order_independent default_mapper default_configs l' default_keys_distinct Hp).
  exact default_tree_ok.
Qed.

(* the reference relation on positions of the default list *)
Definition default_ref (i j : nat) : bool :=
  mget (mat_of (ref_sub (Some "R"%string) true) default_configs) i j.

Lemma default_tree_is_hasse : hasse_spec default_configs (tree_view default_tree_val) default_ref.
Proof.
  apply hasse_okb_sound. vm_compute. reflexivity.
Qed.

Lemma default_no_mutual : some_mutualb (Some "R"%string) true default_configs = false.
Proof. vm_compute. reflexivity. Qed.

Lemma C07_okb_sound cfgs v :
  C07_okb cfgs (Good v) = true ->
  some_mutualb (Some "R"%string) true cfgs = false /\
  hasse_spec cfgs v (fun i j => mget (mat_of (ref_sub (Some "R"%string) true) cfgs) i j).
Proof.
  intros H. unfold C07_okb, C07_gen_okb in H. apply andb_true_iff in H. destruct H as [H1 H2].
  split; [apply negb_true_iff; exact H1|]. exact (hasse_okb_sound cfgs v _ H2).
Qed.

(* the same for ANY wildcard / ignore_case setting (the harness runs the checker at ignore_case = false for
   hierarchies built under a caller-chosen case-sensitive mapper) *)
Lemma C07_gen_okb_sound w ic cfgs v :
  C07_gen_okb w ic true cfgs (Good v) = true ->
  some_mutualb w ic cfgs = false /\
  hasse_spec cfgs v (fun i j => mget (mat_of (ref_sub w ic) cfgs) i j).
Proof.
  intros H. unfold C07_gen_okb in H. apply andb_true_iff in H. destruct H as [H1 H2].
  split; [apply negb_true_iff; exact H1|]. exact (hasse_okb_sound cfgs v _ H2).
Qed.

(* a refusal is accepted only when two patterns really embed into each other *)
Lemma C07_gen_okb_refusal w ic full cfgs e :
  C07_gen_okb w ic full cfgs (Bad e) = true -> some_mutualb w ic cfgs = true.
Proof. unfold C07_gen_okb. destruct e; intros H; try discriminate; exact H. Qed.

