(** Concrete part of C07: what Model.FGTree.is_subgroup decides, in terms of embeddings, under
    the two matcher facts (premises MatcherComplete / MatcherSound of Spec/QuerySpec.v); and the
    Hasse theorem for configuration lists stated with the embedding order. *)
From Coq Require Import ZArith List Bool String Lia Permutation.
From FGV Require Import Base.Util Base.UtilFacts Base.Bond Base.NX Base.Sym Model.Permute Model.Match Model.FGTree
                        Spec.Embedding Spec.QuerySpec
                        Proofs.SortFacts Proofs.KeyOrder Proofs.FGTreeProofs Proofs.QueryModelFacts
                        Proofs.EmbeddingOrder Proofs.FGDefaultFacts.
Import ListNotations.
Open Scope Z_scope.

(* node ids are 0 .. n-1 (true of every graph the parser returns): map_subgraph_to_graph walks
   range(len(graph)) *)
Definition contig (G : graph) : Prop := forall n, In n (nodes G) -> 0 <= n < Z.of_nat (List.length G).

Local Opaque map_subgraph.

(** * the un-anchored loops, structurally *)
Lemma to_graph_loop_true G P mp : forall l,
  to_graph_loop G P mp l = Ok true ->
  exists i rs, In i l /\ map_subgraph G P mp i None = Ok rs /\ existsb fst rs = true.
Proof.
  induction l as [|i t IH]; intros H; simpl in H; [discriminate|].
  destruct (map_subgraph G P mp i None) as [rs| |] eqn:E; try discriminate.
  destruct (existsb fst rs) eqn:Ex.
  - exists i, rs. split; [left; reflexivity|]. auto.
  - destruct (IH H) as [i' [rs' [H1 H2]]]. exists i', rs'. split; [right; exact H1|exact H2].
Qed.

Lemma to_graph_loop_false G P mp : forall l,
  to_graph_loop G P mp l = Ok false ->
  forall i, In i l -> exists rs, map_subgraph G P mp i None = Ok rs /\ existsb fst rs = false.
Proof.
  induction l as [|i t IH]; intros H i' Hi'; simpl in H; [destruct Hi'|].
  destruct (map_subgraph G P mp i None) as [rs| |] eqn:E; try discriminate.
  destruct (existsb fst rs) eqn:Ex; [discriminate|].
  destruct Hi' as [<-|Hi']; [exists rs; auto|]. apply IH; auto.
Qed.

Lemma range_In n i : In i (map Z.of_nat (seq 0 n)) <-> 0 <= i < Z.of_nat n.
Proof.
  rewrite in_map_iff. split.
  - intros [k [<- Hk]]. apply in_seq in Hk. lia.
  - intros H. exists (Z.to_nat i). split; [lia|]. apply in_seq. lia.
Qed.

Section Sem.
  Variable w : option string.
  Variable ic : bool.
  Let mp := mk_mapper w ic [].
  Hypothesis match_complete : MatcherComplete w ic.
  Hypothesis match_sound : MatcherSound w ic.

  (* map_subgraph_to_graph(graph=G, subgraph=P): whenever it returns, it returns whether P embeds into G *)
  Lemma to_graph_sem G P b :
    wfb G = true -> has_syms G -> contig G -> graph_ok P ->
    map_subgraph_to_graph G P mp = Ok b -> (b = true <-> Embeds w ic P G).
  Proof.
    intros HG HGs Hcon [HPne [HP HPc]] H. unfold map_subgraph_to_graph in H. destruct b.
    - split; auto. intros _.
      destruct (to_graph_loop_true _ _ _ _ H) as [i [rs [_ [Ers Hex]]]].
      pose proof (map_subgraph_inv _ _ _ _ _ HPne Ers) as HF.
      apply existsb_exists in Hex. destruct Hex as [[bb m] [Hin Hb]]. simpl in Hb. subst bb.
      destruct (Forall2_In_r _ _ _ _ HF Hin) as [pa [Hpa [vis Hvis]]]. simpl in Hvis.
      destruct (match_sound G P HG HP i pa m vis (HPc pa Hpa) Hvis) as [_ Hemb].
      exists i, pa, (pair_fun m). exact Hemb.
    - split; [discriminate|]. intros [a [pa [f Hf]]]. exfalso.
      pose proof (emb_anchor _ _ _ _ _ _ _ Hf) as [Hpa Hfa].
      assert (Ha : In a (nodes G)).
      { destruct (emb_adm _ _ _ _ _ _ _ Hf pa a Hpa Hfa) as [ps [s [_ [Hs _]]]]. eapply sym_of_node; eauto. }
      destruct (to_graph_loop_false _ _ _ _ H a) as [rs [Ers Hex]].
      { apply range_In. apply Hcon. exact Ha. }
      pose proof (map_subgraph_inv _ _ _ _ _ HPne Ers) as HF.
      destruct (Forall2_In_l _ _ _ _ HF Hpa) as [[bb m] [Hin [vis Hvis]]]. simpl in Hvis.
      destruct (match_complete G P HG HP a pa f HGs Hf) as [pairs [vis' E]].
      pose proof (eq_trans (eq_sym E) Hvis) as Heq. inversion Heq; subst bb.
      assert (existsb fst rs = true) by (apply existsb_exists; exists (true, m); auto).
      congruence.
  Qed.

  (* configurations whose pattern is a parsed, symbol-carrying graph with ids 0..n-1 *)
  Definition cfg_parsed (c : fgconfig) : Prop :=
    cfg_ok c /\ has_syms (fg_pattern c) /\ contig (fg_pattern c).

  Definition vetoed (a b : fgconfig) : Prop := exists ap, In ap (fg_anti a) /\ Embeds w ic ap (fg_pattern b).

  Lemma to_graph_of_match G P b : to_graph mp G P = Good b -> map_subgraph_to_graph G P mp = Ok b.
  Proof.
    unfold to_graph, of_match. destruct (map_subgraph_to_graph G P mp) as [x|e|]; try discriminate; try (destruct e; discriminate).
    - intros [= ->]. reflexivity.
  Qed.

  Lemma anti_veto_sem child : wfb child = true -> has_syms child -> contig child ->
    forall antis t, (forall ap, In ap antis -> graph_ok ap) ->
    anti_veto mp child antis = Good t ->
    (t = true <-> forall ap, In ap antis -> ~ Embeds w ic ap child).
  Proof.
    intros Hc Hs Hcon. induction antis as [|ap rest IH]; intros t Hok H; simpl in H.
    - inversion H; subst. split; [intros _ ap []|reflexivity].
    - destruct (to_graph mp child ap) as [r|e] eqn:E; simpl in H; [|discriminate].
      pose proof (to_graph_sem child ap r Hc Hs Hcon (Hok ap (or_introl eq_refl)) (to_graph_of_match _ _ _ E)) as Hr.
      destruct r.
      + inversion H; subst t. split; [discriminate|]. intros Hall. exfalso.
        apply (Hall ap (or_introl eq_refl)). apply Hr. reflexivity.
      + rewrite (IH t (fun ap' H' => Hok ap' (or_intror H')) H). split.
        * intros Hall ap' [<-|Hin]; auto. intros He. apply Hr in He. discriminate.
        * intros Hall ap' Hin. apply Hall. right. exact Hin.
  Qed.

  (* is_subgroup(parent=a, child=b): whenever it returns (it raises AssertionError when the patterns
     embed into each other), it returns whether a's pattern is strictly below b's and no anti-pattern
     of a embeds into b's pattern *)
  Theorem is_subgroup_sem a b t :
    cfg_parsed a -> cfg_parsed b ->
    is_subgroup mp a b = Good t ->
    (t = true <-> StrictlyBelow w ic (fg_pattern a) (fg_pattern b) /\ ~ vetoed a b).
  Proof.
    intros [[[Hane [Hawf Hacon]] Haanti] [Has Hac]] [[[Hbne [Hbwf Hbcon]] _] [Hbs Hbc]] H.
    unfold is_subgroup in H.
    destruct (to_graph mp (fg_pattern b) (fg_pattern a)) as [p2c|e] eqn:E1; simpl in H; [|discriminate].
    destruct (to_graph mp (fg_pattern a) (fg_pattern b)) as [c2p|e] eqn:E2; simpl in H; [|discriminate].
    pose proof (to_graph_sem _ _ _ Hbwf Hbs Hbc (conj Hane (conj Hawf Hacon)) (to_graph_of_match _ _ _ E1)) as H1.
    pose proof (to_graph_sem _ _ _ Hawf Has Hac (conj Hbne (conj Hbwf Hbcon)) (to_graph_of_match _ _ _ E2)) as H2.
    destruct p2c.
    - destruct c2p; [discriminate|].
      rewrite (anti_veto_sem _ Hbwf Hbs Hbc _ _ Haanti H). unfold vetoed, StrictlyBelow. split.
      + intros Hall. split.
        * split; [apply H1; reflexivity|]. intros He. apply H2 in He. discriminate.
        * intros [ap [Hin He]]. exact (Hall ap Hin He).
      + intros [_ Hnv] ap Hin He. apply Hnv. exists ap. auto.
    - inversion H; subst t. split; [discriminate|]. intros [[He _] _]. apply H1 in He. discriminate.
  Qed.

  (** * the Hasse theorem in terms of the embedding order, for anti-pattern-free lists *)
  Definition subb_of (a b : fgconfig) : bool :=
    match is_subgroup mp a b with Good t => t | Bad _ => false end.

  (* key_strict, the remaining premise: being strictly below increases the sort key
     (pattern_len, len(pattern), number_of_edges, pattern_str).  Informally: an embedding is
     injective on nodes and bonds and sends non-wildcard nodes to non-wildcard nodes, so the first
     three components are <=, and if all three are equal the inverse map is an embedding too.
     It is decided for every concrete list by the checker (ref_orderb) and holds for the default
     list by computation (C07_default_tree_is_hasse). *)
  Definition key_strict_on (l : list fgconfig) : Prop :=
    forall a b, In a l -> In b l ->
      StrictlyBelow w ic (fg_pattern a) (fg_pattern b) -> cfg_ltb a b = true.

  Theorem configs_hasse_embedding (l : list fgconfig) :
    NoDup (map order_key l) ->
    (forall c, In c l -> cfg_parsed c /\ fg_anti c = []) ->
    (forall a b, In a l -> In b l -> exists t, is_subgroup mp a b = Good t) ->     (* no AssertionError *)
    key_strict_on l ->
    (forall a b, In a l -> In b l ->
       (subb_of a b = true <-> StrictlyBelow w ic (fg_pattern a) (fg_pattern b))) /\
    exists t, build_config_tree_from_list mp l = Good t /\ hasse_of subb_of cfg_ltb l t.
  Proof.
    intros Hk Hl Htot Hkey.
    assert (Hsem : forall a b, In a l -> In b l ->
               (subb_of a b = true <-> StrictlyBelow w ic (fg_pattern a) (fg_pattern b))).
    { intros a b Ha Hb. unfold subb_of. destruct (Htot a b Ha Hb) as [t Et]. rewrite Et.
      rewrite (is_subgroup_sem a b t (proj1 (Hl a Ha)) (proj1 (Hl b Hb)) Et).
      split; [tauto|]. intros H. split; auto. intros [ap [Hin _]]. rewrite (proj2 (Hl a Ha)) in Hin. destruct Hin. }
    split; [exact Hsem|].
    apply (configs_hasse mp subb_of l Hk).
    - intros a b Ha Hb. unfold subb_of. destruct (Htot a b Ha Hb) as [t Et]. rewrite Et. reflexivity.
    - intros a b Ha Hb H. apply Hkey; auto. apply Hsem; auto.
    - intros a b c Ha Hb Hc H1 H2. apply Hsem; auto.
      eapply strictly_below_trans; [apply (Hsem a b)|apply (Hsem b c)]; auto.
  Qed.
End Sem.
