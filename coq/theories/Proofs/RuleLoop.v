(** C16 proofs, part 3: the loop of apply_rule (limit, connected_only, unique) and the link to
    atom-map completion (ITS.__init__, proved in AamProofs). *)
From Coq Require Import ZArith List Bool String Lia.
From FGV Require Import Base.Util Base.UtilFacts Base.Bond Base.NX Base.NXFacts Model.Aam Model.Rule
                        Spec.AamSpec Spec.RuleSpec Proofs.AamProofs Proofs.NXCopyFacts16 Proofs.RuleSplit
                        Proofs.RuleIts.
Import ListNotations.
Open Scope Z_scope.

(** * complete_aam keeps the graph structure *)

Lemma entry_rel_alookup g g' : Forall2 entry_rel g g' -> forall n,
  match alookup n g, alookup n g' with
  | Some (a, ad), Some (a', ad') =>
      ad = ad' /\ same_but_aam a a' /\ (forall k, a_aam a = Some k -> a_aam a' = Some k)
  | None, None => True
  | _, _ => False
  end.
Proof.
  induction 1 as [|[k [a ad]] [k' [a' ad']] t t' Hr Ht IH]; intros n; simpl; [exact I|].
  destruct Hr as (Hk & Had & Hs & Hkeep). simpl in *. subst k' ad'.
  destruct (n =? k); [auto|apply IH].
Qed.

Lemma entry_rel_nodes g g' : Forall2 entry_rel g g' -> nodes g' = nodes g.
Proof.
  induction 1 as [|e e' t t' Hr Ht IH]; [reflexivity|]. unfold nodes in *. simpl. rewrite IH.
  destruct Hr as (Hk & _). rewrite Hk. reflexivity.
Qed.

Lemma entry_rel_adj g g' n : Forall2 entry_rel g g' -> adj g' n = adj g n.
Proof.
  intros H. pose proof (entry_rel_alookup g g' H n) as Hn. unfold adj.
  destruct (alookup n g) as [[a ad]|], (alookup n g') as [[a' ad']|]; try contradiction; [|reflexivity].
  destruct Hn as (-> & _). reflexivity.
Qed.

Lemma entry_rel_edge_label g g' x y : Forall2 entry_rel g g' -> edge_label g' x y = edge_label g x y.
Proof. intros H. unfold edge_label. rewrite (entry_rel_adj g g' x H). reflexivity. Qed.

Lemma entry_rel_wf g g' : Forall2 entry_rel g g' -> wf g -> wf g'.
Proof.
  intros H (H1 & H2 & H3). split; [rewrite (entry_rel_nodes g g' H); exact H1|]. split.
  - intros u. rewrite (entry_rel_adj g g' u H). apply H2.
  - intros u v l. rewrite !(entry_rel_edge_label g g' _ _ H). apply H3.
Qed.

Lemma all_mapped_alookup g' n a ad : all_mapped g' -> alookup n g' = Some (a, ad) -> exists k, a_aam a = Some k.
Proof.
  intros Hall E. apply alookup_In in E. unfold all_mapped in Hall. rewrite Forall_forall in Hall.
  apply (Hall _ E).
Qed.

(* ITS(its): the graph of the ITS object *)
Lemma its_object_spec its :
  exists res, complete_aam its OffMin = Some res
    /\ nodes res = nodes its
    /\ (wf its -> wf res)
    /\ (forall x y, edge_label res x y = edge_label its x y)
    /\ (forall n, match node_attr its n, node_attr res n with
                  | Some a, Some a' => same_but_aam a a' /\ (forall k, a_aam a = Some k -> a_aam a' = Some k)
                                       /\ exists k, a_aam a' = Some k
                  | None, None => True
                  | _, _ => False
                  end)
    /\ complete_spec its OffMin res.
Proof.
  destruct (complete_aam_spec its OffMin) as (res & Hc & Hspec). exists res.
  pose proof Hspec as (Hrel & Hall & _).
  split; [exact Hc|]. split; [apply entry_rel_nodes; exact Hrel|].
  split; [apply entry_rel_wf; exact Hrel|]. split; [intros x y; apply entry_rel_edge_label; exact Hrel|].
  split; [|exact Hspec].
  intros n. pose proof (entry_rel_alookup its res Hrel n) as Hn. unfold node_attr.
  destruct (alookup n its) as [[a ad]|], (alookup n res) as [[a' ad']|] eqn:E; try contradiction; [|exact I].
  destruct Hn as (_ & Hs & Hk). split; [exact Hs|]. split; [exact Hk|]. eapply all_mapped_alookup; eauto.
Qed.

(** * the attribute side of a result only depends on ids and attributes of the input *)

Lemma nodes_data_ext x : forall y,
  NoDup (nodes x) -> nodes x = nodes y -> (forall n, node_attr x n = node_attr y n) ->
  nodes_data x = nodes_data y.
Proof.
  induction x as [|[n [a ad]] t IH]; intros [|[n' [a' ad']] t'] Hnd Hn Ha; simpl in *; try discriminate; [reflexivity|].
  injection Hn as -> Hn. inversion Hnd as [|? ? Hni Hnd']; subst.
  assert (Haa : a = a').
  { specialize (Ha n'). unfold node_attr in Ha. simpl in Ha. rewrite Z.eqb_refl in Ha. congruence. }
  subst a'. f_equal. apply IH; [exact Hnd'|exact Hn|].
  intros m. destruct (Z.eq_dec m n') as [->|Hne].
  - assert (H1 : node_attr t n' = None).
    { unfold node_attr. destruct (alookup n' t) eqn:E; [|reflexivity].
      apply alookup_Some_key in E. contradiction. }
    assert (H2 : node_attr t' n' = None).
    { unfold node_attr. destruct (alookup n' t') eqn:E; [|reflexivity].
      apply alookup_Some_key in E. unfold akeys in E. unfold nodes in Hn. rewrite <- Hn in E. contradiction. }
    congruence.
  - specialize (Ha m). unfold node_attr in *. simpl in Ha.
    destruct (Z.eqb_spec m n'); [contradiction|exact Ha].
Qed.

Lemma attrs_transfer x : forall y r,
  nodes_data x = nodes_data y ->
  existing_maps x = existing_maps y /\ new_numbers x r = new_numbers y r
  /\ (Forall2 entry_rel x r -> Forall2 attr_rel y r).
Proof.
  induction x as [|[n [a ad]] t IH]; intros [|[n' [a' ad']] t'] r Hd; simpl in Hd; try discriminate.
  - split; [reflexivity|]. split; [reflexivity|]. intros H. inversion H. constructor.
  - injection Hd as -> -> Hd. destruct r as [|[k [b bd]] r'].
    + destruct (IH t' [] Hd) as (E1 & _ & _). split; [unfold existing_maps in *; simpl; rewrite E1; reflexivity|].
      split; [reflexivity|]. intros H. inversion H.
    + destruct (IH t' r' Hd) as (E1 & E2 & E3).
      split; [unfold existing_maps in *; simpl; rewrite E1; reflexivity|].
      split; [simpl; rewrite E2; reflexivity|].
      intros H. inversion H as [|? ? ? ? Hr Ht]; subst. constructor; [|apply E3; exact Ht].
      destruct Hr as (R1 & _ & R3 & R4). split; [exact R1|]. split; [exact R3|exact R4].
Qed.

Lemma aam_completed_of g raw res :
  NoDup (nodes raw) -> nodes raw = nodes g -> (forall n, node_attr raw n = node_attr g n) ->
  complete_spec raw OffMin res -> aam_completed g res.
Proof.
  intros Hnd Hn Ha (S1 & S2 & S3).
  destruct (attrs_transfer raw g res (nodes_data_ext raw g Hnd Hn Ha)) as (E1 & E2 & E3).
  split; [apply E3; exact S1|]. split; [exact S2|]. rewrite <- E1, <- E2. exact S3.
Qed.

(** * the loop *)

Definition wl_keys (d : list (key * graph)) : list string :=
  flat_map (fun e => match fst e with KWl s => [s] | KIdx _ => [] end) d.

Lemma key_mem_wl w d : key_mem (KWl w) d = existsb (String.eqb w) (wl_keys d).
Proof.
  unfold key_mem, wl_keys. induction d as [|[k x] t IH]; simpl; [reflexivity|].
  destruct k; simpl; [exact IH|f_equal; exact IH].
Qed.

Lemma wl_keys_app d1 d2 : wl_keys (d1 ++ d2) = wl_keys d1 ++ wl_keys d2.
Proof. unfold wl_keys. apply flat_map_app. Qed.

Lemma take_n_exact {A} k (l1 l2 : list A) :
  k <= Z.of_nat (List.length l1) -> Z.of_nat (List.length l1) <= Z.max k 0 ->
  take_n (Some k) (l1 ++ l2) = l1.
Proof.
  intros H1 H2. unfold take_n.
  assert (Hk : Z.to_nat k = List.length l1) by lia.
  rewrite Hk, firstn_app, Nat.sub_diag, firstn_all. simpl. apply app_nil_r.
Qed.

Lemma take_n_all {A} n (l : list A) :
  match n with Some k => Z.of_nat (List.length l) <= Z.max k 0 | None => True end ->
  take_n n l = l.
Proof.
  destruct n as [k|]; [|reflexivity]. intros H. unfold take_n. apply firstn_all2. lia.
Qed.

Section Loop.
  Variables (g : graph) (rule : rrule) (n : option Z) (unique co : bool).

  Definition cand_ok (m : mapping) : Prop :=
    (exists x, its_of g rule m = Some x)
    /\ (exists y, complete_aam (raw_its g rule m) OffMin = Some y)
    /\ (co = true -> exists b, is_connected (raw_its g rule m) = Some b).

  Definition cand_of (c : mapping * string) : cand :=
    let '(m, w) := c in (w, raw_its g rule m, its_graph g rule m).

  Lemma apply_loop_spec : forall cands acc,
    (forall m w, In (m, w) cands -> cand_ok m) ->
    match n with Some k => Z.of_nat (List.length acc) <= Z.max k 0 | None => True end ->
    apply_loop g rule n unique co cands acc =
    AROk (take_n n (map snd acc ++ select unique co (map cand_of cands) (wl_keys acc))).
  Proof.
    induction cands as [|[m w] t IH]; intros acc Hok Hlen.
    - simpl. rewrite app_nil_r. f_equal. symmetry. apply take_n_all.
      rewrite map_length. exact Hlen.
    - cbn [apply_loop].
      destruct (limit_hit n acc) eqn:Ehit.
      + destruct n as [k|]; [|discriminate]. simpl in Ehit. apply Z.leb_le in Ehit.
        f_equal. symmetry. apply take_n_exact; rewrite map_length; assumption.
      + assert (Hlen' : forall e, match n with
                                  | Some k => Z.of_nat (List.length (acc ++ [e])) <= Z.max k 0
                                  | None => True end).
        { intros e. destruct n as [k|]; [|exact I]. simpl in Ehit. apply Z.leb_gt in Ehit.
          rewrite app_length. simpl. lia. }
        destruct (Hok m w (or_introl eq_refl)) as ((x & Hx) & (y & Hy) & Hconn).
        assert (Hraw : raw_its g rule m = x) by (unfold raw_its; rewrite Hx; reflexivity).
        assert (Hobj : its_graph g rule m = y) by (unfold its_graph; rewrite Hy; reflexivity).
        rewrite Hx. rewrite Hraw in Hy. rewrite Hy.
        assert (Hok' : forall m' w', In (m', w') t -> cand_ok m') by (intros m' w' H'; eapply Hok; right; exact H').
        cbn [map cand_of select]. rewrite Hraw, Hobj.
        assert (Hbody :
          (if unique
           then if key_mem (KWl w) acc then apply_loop g rule n unique co t acc
                else apply_loop g rule n unique co t (acc ++ [(KWl w, y)])
           else apply_loop g rule n unique co t (acc ++ [(KIdx (List.length acc), y)]))
          = AROk (take_n n (map snd acc ++
                    (if unique
                     then if existsb (String.eqb w) (wl_keys acc) then select unique co (map cand_of t) (wl_keys acc)
                          else y :: select unique co (map cand_of t) (wl_keys acc ++ [w])
                     else y :: select unique co (map cand_of t) (wl_keys acc))))).
        { destruct unique.
          - rewrite key_mem_wl. destruct (existsb (String.eqb w) (wl_keys acc)).
            + apply IH; assumption.
            + rewrite IH by (try assumption; apply Hlen').
              rewrite map_app, wl_keys_app, <- app_assoc. reflexivity.
          - rewrite IH by (try assumption; apply Hlen').
            rewrite map_app, wl_keys_app, <- app_assoc. simpl. rewrite app_nil_r. reflexivity. }
        destruct co.
        * destruct (Hconn eq_refl) as (b & Hb). rewrite Hraw in Hb. rewrite Hb.
          unfold connb. rewrite Hb. destruct b; simpl.
          -- exact Hbody.
          -- apply IH; assumption.
        * simpl. exact Hbody.
  Qed.
End Loop.

Theorem apply_rule_select g rule monos wls n unique co :
  List.length wls = List.length monos ->
  (forall m, In m monos -> cand_ok g rule co m) ->
  apply_rule g rule monos wls n unique co =
  AROk (take_n n (select unique co (cands_of g rule monos wls) [])).
Proof.
  intros Hl Hok. unfold apply_rule. rewrite (apply_loop_spec g rule n unique co).
  - reflexivity.
  - intros m w Hin. apply Hok. apply in_combine_l in Hin. exact Hin.
  - simpl. destruct n; [lia|exact I].
Qed.

(** * reading [select] *)

Lemma select_plain cs seen : select false false cs seen = map snd cs.
Proof.
  induction cs as [|[[w i] f] t IH]; simpl; [reflexivity|]. rewrite IH. reflexivity.
Qed.

Lemma select_connected cs seen :
  select false true cs seen = map snd (filter (fun c => connb (snd (fst c))) cs).
Proof.
  induction cs as [|[[w i] f] t IH]; simpl; [reflexivity|].
  destruct (connb i); simpl; rewrite IH; reflexivity.
Qed.

(* connected_only is a filter applied before everything else *)
Lemma select_filter unique cs seen :
  select unique true cs seen = select unique false (filter (fun c => connb (snd (fst c))) cs) seen.
Proof.
  revert seen. induction cs as [|[[w i] f] t IH]; intros seen; simpl; [reflexivity|].
  destruct (connb i); simpl.
  - destruct unique; [destruct (existsb (String.eqb w) seen)|]; rewrite ?IH; reflexivity.
  - apply IH.
Qed.

(* unique: a candidate is kept iff its digest is new *)
Fixpoint first_of_class (cs : list cand) (seen : list string) : list cand :=
  match cs with
  | [] => []
  | c :: t =>
      if existsb (String.eqb (fst (fst c))) seen then first_of_class t seen
      else c :: first_of_class t (seen ++ [fst (fst c)])
  end.

Lemma select_unique cs seen : select true false cs seen = map snd (first_of_class cs seen).
Proof.
  revert seen. induction cs as [|[[w i] f] t IH]; intros seen; simpl; [reflexivity|].
  destruct (existsb (String.eqb w) seen); simpl; rewrite IH; reflexivity.
Qed.

Lemma existsb_eqb_In w seen : existsb (String.eqb w) seen = true <-> In w seen.
Proof.
  rewrite existsb_exists. split.
  - intros (x & Hin & Heq). apply String.eqb_eq in Heq. subst. exact Hin.
  - intros H. exists w. split; [exact H|apply String.eqb_refl].
Qed.

(* the kept candidates: pairwise distinct digests, none already seen, every candidate's digest
   is either seen or the digest of a kept candidate, and a kept candidate is the first of the
   list with its digest *)
Lemma first_of_class_spec cs : forall seen,
  let kept := first_of_class cs seen in
  NoDup (map (fun c => fst (fst c)) kept)
  /\ (forall c, In c kept -> In c cs /\ ~ In (fst (fst c)) seen)
  /\ (forall c, In c cs -> In (fst (fst c)) seen \/ In (fst (fst c)) (map (fun c => fst (fst c)) kept)).
Proof.
  induction cs as [|c t IH]; intros seen; simpl.
  - split; [constructor|]. split; [intros c []|intros c []].
  - destruct (existsb (String.eqb (fst (fst c))) seen) eqn:E.
    + destruct (IH seen) as (I1 & I2 & I3). split; [exact I1|]. split.
      * intros c' Hc'. destruct (I2 c' Hc'). auto.
      * intros c' [<-|Hc']; [left; apply existsb_eqb_In; exact E|apply I3; exact Hc'].
    + destruct (IH (seen ++ [fst (fst c)])) as (I1 & I2 & I3).
      assert (Hns : ~ In (fst (fst c)) seen).
      { intros H. apply existsb_eqb_In in H. congruence. }
      split; [|split].
      * simpl. constructor; [|exact I1]. intros Hin. apply in_map_iff in Hin.
        destruct Hin as (c' & Heq & Hc'). destruct (I2 c' Hc') as (_ & Hn). apply Hn.
        rewrite Heq. apply in_or_app. right. left. reflexivity.
      * intros c' [<-|Hc']; [auto|]. destruct (I2 c' Hc') as (Hin & Hn). split; [auto|].
        intros H. apply Hn. apply in_or_app. left. exact H.
      * intros c' [<-|Hc']; [right; left; reflexivity|].
        destruct (I3 c' Hc') as [H|H]; [|right; right; exact H].
        apply in_app_or in H. destruct H as [H|[H|[]]]; [left; exact H|]. right. left. exact H.
Qed.

(** * the limit *)

Lemma take_n_length {A} n (l : list A) :
  List.length (take_n n l) =
  match n with None => List.length l | Some k => Nat.min (Z.to_nat k) (List.length l) end.
Proof. destruct n; [apply firstn_length|reflexivity]. Qed.
