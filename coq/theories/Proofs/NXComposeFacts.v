(** Facts about the bulk operations of the networkx.Graph model: add_nodes_from,
    add_edges_from, compose, relabel. Independent of any FGUtils function.
    Everything is stated on the maps [node_attr] / [edge_label] / [has_node]. *)
From Coq Require Import ZArith List Bool String Lia.
From FGV Require Import Base.Util Base.UtilFacts Base.Bond Base.NX Base.NXFacts.
Import ListNotations.
Open Scope Z_scope.

(** * small helpers *)

Lemma nodes_data_fst g : map fst (nodes_data g) = nodes g.
Proof.
  unfold nodes_data, nodes. rewrite map_map. apply map_ext. intros [n [a ad]]. reflexivity.
Qed.

Lemma alookup_nodes_data g x : alookup x (nodes_data g) = node_attr g x.
Proof.
  unfold node_attr, nodes_data. induction g as [|[n [a ad]] t IH]; simpl; [reflexivity|].
  destruct (x =? n); [reflexivity|exact IH].
Qed.

Lemma has_node_false_attr g x : has_node g x = false -> node_attr g x = None.
Proof.
  unfold has_node, node_attr. destruct (alookup x g) as [[a ad]|]; simpl; [discriminate|reflexivity].
Qed.

Lemma has_node_true_attr g x : has_node g x = true -> exists a, node_attr g x = Some a.
Proof. apply node_attr_has_node. Qed.

Lemma node_attr_Some_has_node g x a : node_attr g x = Some a -> has_node g x = true.
Proof. intros H. apply node_attr_has_node. eauto. Qed.

Lemma edge_label_no_node g x y : has_node g x = false -> edge_label g x y = None.
Proof.
  intros H. destruct (edge_label g x y) eqn:E; [|reflexivity].
  apply edge_label_has_node in E. congruence.
Qed.

Lemma wf_edge_label_no_node_r g x y : wf g -> has_node g y = false -> edge_label g x y = None.
Proof.
  intros Hwf H. destruct (edge_label g x y) eqn:E; [|reflexivity].
  destruct (wf_edge_nodes _ _ _ _ Hwf E) as [_ Hy]. congruence.
Qed.

(** * add_nodes_from *)

Lemma add_nodes_from_cons g n a t : add_nodes_from g ((n, a) :: t) = add_nodes_from (add_node g n a) t.
Proof. reflexivity. Qed.

Lemma edge_label_add_nodes_from l : forall g u v, edge_label (add_nodes_from g l) u v = edge_label g u v.
Proof.
  induction l as [|[n a] t IH]; intros g u v; [reflexivity|].
  rewrite add_nodes_from_cons, IH. apply edge_label_add_node.
Qed.

Lemma adj_add_nodes_from l : forall g u, adj (add_nodes_from g l) u = adj g u.
Proof.
  induction l as [|[n a] t IH]; intros g u; [reflexivity|].
  rewrite add_nodes_from_cons, IH. apply adj_add_node.
Qed.

Lemma has_node_add_nodes_from l : forall g x,
  has_node (add_nodes_from g l) x = has_node g x || zmem x (map fst l).
Proof.
  induction l as [|[n a] t IH]; intros g x; [simpl; rewrite orb_false_r; reflexivity|].
  rewrite add_nodes_from_cons, IH, has_node_add_node. simpl.
  destruct (x =? n), (has_node g x), (zmem x (map fst t)); reflexivity.
Qed.

Lemma node_attr_add_nodes_from l : forall g x, NoDup (map fst l) ->
  node_attr (add_nodes_from g l) x =
  match alookup x l with
  | Some a => Some (match node_attr g x with Some a0 => na_update a0 a | None => a end)
  | None => node_attr g x
  end.
Proof.
  induction l as [|[n a] t IH]; intros g x Hnd; [reflexivity|].
  simpl in Hnd. inversion Hnd as [|? ? Hni Hnd']; subst.
  rewrite add_nodes_from_cons, (IH _ _ Hnd'). cbn [alookup].
  rewrite node_attr_add_node.
  destruct (Z.eqb_spec x n) as [->|Hne].
  - assert (E : alookup n t = None) by (apply alookup_None; exact Hni).
    rewrite E. reflexivity.
  - reflexivity.
Qed.

Lemma wf_add_nodes_from l : forall g, wf g -> wf (add_nodes_from g l).
Proof.
  induction l as [|[n a] t IH]; intros g H; [exact H|].
  rewrite add_nodes_from_cons. apply IH. apply wf_add_node. exact H.
Qed.

(** * add_edges_from *)

Definition ematch (u v x y : Z) : bool := ((x =? u) && (y =? v)) || ((x =? v) && (y =? u)).

(* label of the LAST edge of the list that joins x and y (either orientation) *)
Fixpoint elast (es : list (Z * Z * label)) (x y : Z) : option label :=
  match es with
  | [] => None
  | (u, v, l) :: t =>
      match elast t x y with
      | Some l' => Some l'
      | None => if ematch u v x y then Some l else None
      end
  end.

Lemma add_edges_from_cons g u v l t :
  add_edges_from g ((u, v, l) :: t) = add_edges_from (add_edge g u v l) t.
Proof. reflexivity. Qed.

Lemma edge_label_add_edges_from es : forall g x y,
  edge_label (add_edges_from g es) x y =
  match elast es x y with Some l => Some l | None => edge_label g x y end.
Proof.
  induction es as [|[[u v] l] t IH]; intros g x y; [reflexivity|].
  rewrite add_edges_from_cons, IH. cbn [elast].
  destruct (elast t x y); [reflexivity|].
  rewrite edge_label_add_edge. unfold ematch.
  destruct (((x =? u) && (y =? v)) || ((x =? v) && (y =? u))); reflexivity.
Qed.

Lemma elast_Some es x y l :
  elast es x y = Some l -> exists u v, In (u, v, l) es /\ ematch u v x y = true.
Proof.
  induction es as [|[[u v] l0] t IH]; simpl; [discriminate|].
  destruct (elast t x y) as [l'|] eqn:E.
  - intros [= ->]. destruct (IH eq_refl) as (u' & v' & Hin & Hm). exists u', v'. auto.
  - destruct (ematch u v x y) eqn:Em; [|discriminate]. intros [= ->]. exists u, v. auto.
Qed.

Lemma elast_None es x y :
  elast es x y = None -> forall u v l, In (u, v, l) es -> ematch u v x y = false.
Proof.
  induction es as [|[[u v] l0] t IH]; simpl; [intros _ ? ? ? []|].
  destruct (elast t x y) as [l'|] eqn:E; [discriminate|].
  destruct (ematch u v x y) eqn:Em; [discriminate|].
  intros _ u' v' l' [[= <- <- <-]|Hin]; [exact Em|]. eapply IH; eauto.
Qed.

Lemma ematch_true u v x y : ematch u v x y = true <-> (x = u /\ y = v) \/ (x = v /\ y = u).
Proof.
  unfold ematch. rewrite orb_true_iff, !andb_true_iff, !Z.eqb_eq. reflexivity.
Qed.

Lemma has_node_add_edges_from_mono es : forall g x,
  has_node g x = true -> has_node (add_edges_from g es) x = true.
Proof.
  induction es as [|[[u v] l] t IH]; intros g x H; [exact H|].
  rewrite add_edges_from_cons. apply IH. rewrite has_node_add_edge, H. apply orb_true_r.
Qed.

Definition endpoints_in (g : graph) (es : list (Z * Z * label)) : Prop :=
  forall u v l, In (u, v, l) es -> has_node g u = true /\ has_node g v = true.

Lemma add_edge_existing g u v l :
  has_node g u = true -> has_node g v = true ->
  nodes (add_edge g u v l) = nodes g /\ (forall x, node_attr (add_edge g u v l) x = node_attr g x)
  /\ (forall x, has_node (add_edge g u v l) x = has_node g x).
Proof.
  intros Hu Hv. split; [|split].
  - rewrite nodes_add_edge. cbv zeta. rewrite Hu, Hv. reflexivity.
  - intros x. rewrite node_attr_add_edge. destruct (node_attr g x) eqn:E; [reflexivity|].
    destruct (Z.eqb_spec x u) as [->|Hxu].
    + apply has_node_true_attr in Hu. destruct Hu as (a & Ha). congruence.
    + destruct (Z.eqb_spec x v) as [->|Hxv]; [|reflexivity].
      apply has_node_true_attr in Hv. destruct Hv as (a & Ha). congruence.
  - intros x. rewrite has_node_add_edge.
    destruct (Z.eqb_spec x u) as [->|Hxu]; [rewrite Hu; reflexivity|].
    destruct (Z.eqb_spec x v) as [->|Hxv]; [rewrite Hv; reflexivity|reflexivity].
Qed.

Lemma add_edges_from_existing es : forall g, endpoints_in g es ->
  nodes (add_edges_from g es) = nodes g
  /\ (forall x, node_attr (add_edges_from g es) x = node_attr g x)
  /\ (forall x, has_node (add_edges_from g es) x = has_node g x).
Proof.
  induction es as [|[[u v] l] t IH]; intros g H; [repeat split; reflexivity|].
  rewrite add_edges_from_cons.
  destruct (H u v l (or_introl eq_refl)) as [Hu Hv].
  destruct (add_edge_existing g u v l Hu Hv) as (Hn & Ha & Hh).
  assert (H' : endpoints_in (add_edge g u v l) t).
  { intros u' v' l' Hin. rewrite !Hh. apply (H u' v' l'). right. exact Hin. }
  destruct (IH _ H') as (Hn' & Ha' & Hh'). split; [|split].
  - rewrite Hn'. exact Hn.
  - intros x. rewrite Ha'. apply Ha.
  - intros x. rewrite Hh'. apply Hh.
Qed.

Lemma wf_add_edges_from es : forall g, wf g -> wf (add_edges_from g es).
Proof.
  induction es as [|[[u v] l] t IH]; intros g H; [exact H|].
  rewrite add_edges_from_cons. apply IH. apply wf_add_edge. exact H.
Qed.

(** [edges] of a well-formed graph, read back through [elast], is [edge_label] *)
Lemma elast_edges g x y : wf g -> elast (edges g) x y = edge_label g x y.
Proof.
  intros Hwf. destruct (elast (edges g) x y) as [l|] eqn:E.
  - destruct (elast_Some _ _ _ _ E) as (u & v & Hin & Hm).
    pose proof (in_edges_label _ _ _ _ Hwf Hin) as Hl.
    apply ematch_true in Hm. destruct Hm as [[-> ->]|[-> ->]]; [symmetry; exact Hl|].
    destruct Hwf as (_ & _ & Hs). symmetry. apply Hs. exact Hl.
  - destruct (edge_label g x y) as [l|] eqn:El; [|reflexivity]. exfalso.
    destruct (edges_complete _ _ _ _ Hwf El) as [Hin|Hin];
      pose proof (elast_None _ _ _ E _ _ _ Hin) as Hm;
      assert (Ht : ematch x y x y = true /\ ematch y x x y = true)
        by (split; apply ematch_true; auto); destruct Ht; congruence.
Qed.

Lemma edges_endpoints g : wf g -> endpoints_in g (edges g).
Proof.
  intros Hwf u v l Hin. apply in_edges_label in Hin; [|exact Hwf].
  eapply wf_edge_nodes; eauto.
Qed.

(** * compose *)

Section Compose.
  Variables g h : graph.
  Hypothesis Hg : wf g.
  Hypothesis Hh : wf h.

  Let g0 := add_nodes_from empty_graph (nodes_data g).
  Let g1 := add_edges_from g0 (edges g).
  Let g2 := add_nodes_from g1 (nodes_data h).

  Lemma compose_unfold : compose g h = add_edges_from g2 (edges h).
  Proof. reflexivity. Qed.

  Local Lemma nd_g : NoDup (map fst (nodes_data g)).
  Proof. rewrite nodes_data_fst. apply Hg. Qed.
  Local Lemma nd_h : NoDup (map fst (nodes_data h)).
  Proof. rewrite nodes_data_fst. apply Hh. Qed.

  Local Lemma g0_attr x : node_attr g0 x = node_attr g x.
  Proof.
    unfold g0. rewrite (node_attr_add_nodes_from _ _ _ nd_g), alookup_nodes_data.
    destruct (node_attr g x); reflexivity.
  Qed.

  Local Lemma g0_has x : has_node g0 x = has_node g x.
  Proof.
    unfold g0. rewrite has_node_add_nodes_from, nodes_data_fst. simpl.
    destruct (has_node g x) eqn:E.
    - apply has_node_In in E. apply zmem_In. exact E.
    - apply zmem_false. rewrite <- has_node_In. congruence.
  Qed.

  Local Lemma g1_facts :
    (forall x, node_attr g1 x = node_attr g x) /\ (forall x, has_node g1 x = has_node g x)
    /\ (forall x y, edge_label g1 x y = edge_label g x y) /\ wf g1.
  Proof.
    assert (He : endpoints_in g0 (edges g)).
    { intros u v l Hin. rewrite !g0_has. eapply edges_endpoints; eauto. }
    destruct (add_edges_from_existing _ _ He) as (_ & Ha & Hhn).
    split; [|split; [|split]].
    - intros x. unfold g1. rewrite Ha. apply g0_attr.
    - intros x. unfold g1. rewrite Hhn. apply g0_has.
    - intros x y. unfold g1. rewrite edge_label_add_edges_from, (elast_edges _ _ _ Hg).
      destruct (edge_label g x y); [reflexivity|].
      unfold g0. rewrite edge_label_add_nodes_from. reflexivity.
    - unfold g1. apply wf_add_edges_from. unfold g0. apply wf_add_nodes_from. apply wf_empty.
  Qed.

  Lemma has_node_compose x : has_node (compose g h) x = has_node g x || has_node h x.
  Proof.
    destruct g1_facts as (_ & H1 & _ & _).
    assert (H2 : forall y, has_node g2 y = has_node g y || has_node h y).
    { intros y. unfold g2. rewrite has_node_add_nodes_from, nodes_data_fst, H1. f_equal.
      destruct (has_node h y) eqn:E.
      - apply has_node_In in E. apply zmem_In. exact E.
      - apply zmem_false. rewrite <- has_node_In. congruence. }
    assert (He : endpoints_in g2 (edges h)).
    { intros u v l Hin. rewrite !H2. destruct (edges_endpoints _ Hh _ _ _ Hin) as [-> ->].
      rewrite !orb_true_r. auto. }
    destruct (add_edges_from_existing _ _ He) as (_ & _ & Hhn).
    rewrite compose_unfold, Hhn. apply H2.
  Qed.

  Lemma node_attr_compose x :
    node_attr (compose g h) x =
    match node_attr h x with
    | Some b => Some (match node_attr g x with Some a => na_update a b | None => b end)
    | None => node_attr g x
    end.
  Proof.
    destruct g1_facts as (H1a & H1 & _ & _).
    assert (H2 : forall y, has_node g2 y = has_node g y || has_node h y).
    { intros y. unfold g2. rewrite has_node_add_nodes_from, nodes_data_fst, H1. f_equal.
      destruct (has_node h y) eqn:E.
      - apply has_node_In in E. apply zmem_In. exact E.
      - apply zmem_false. rewrite <- has_node_In. congruence. }
    assert (He : endpoints_in g2 (edges h)).
    { intros u v l Hin. rewrite !H2. destruct (edges_endpoints _ Hh _ _ _ Hin) as [-> ->].
      rewrite !orb_true_r. auto. }
    destruct (add_edges_from_existing _ _ He) as (_ & Ha & _).
    rewrite compose_unfold, Ha. unfold g2.
    rewrite (node_attr_add_nodes_from _ _ _ nd_h), alookup_nodes_data, H1a. reflexivity.
  Qed.

  Lemma edge_label_compose x y :
    edge_label (compose g h) x y =
    match edge_label h x y with Some l => Some l | None => edge_label g x y end.
  Proof.
    destruct g1_facts as (_ & _ & H1e & _).
    rewrite compose_unfold, edge_label_add_edges_from, (elast_edges _ _ _ Hh).
    destruct (edge_label h x y); [reflexivity|].
    unfold g2. rewrite edge_label_add_nodes_from. apply H1e.
  Qed.

End Compose.

Lemma wf_compose g h : wf (compose g h).
Proof.
  unfold compose. apply wf_add_edges_from, wf_add_nodes_from, wf_add_edges_from, wf_add_nodes_from, wf_empty.
Qed.

Lemma In_nodes_compose g h x : wf g -> wf h ->
  (In x (nodes (compose g h)) <-> In x (nodes g) \/ In x (nodes h)).
Proof.
  intros Hg Hh. rewrite <- !has_node_In, (has_node_compose g h Hg Hh), orb_true_iff. reflexivity.
Qed.

(** * set_attr *)

Lemma alookup_set_attr g n a m :
  alookup m (set_attr g n a) =
  if m =? n then match alookup n g with Some (_, ad) => Some (a, ad) | None => None end
  else alookup m g.
Proof.
  unfold set_attr. destruct (alookup n g) as [[a0 ad]|] eqn:E.
  - rewrite alookup_aset. reflexivity.
  - destruct (Z.eqb_spec m n) as [->|H]; [exact E|reflexivity].
Qed.

Lemma nodes_set_attr g n a : nodes (set_attr g n a) = nodes g.
Proof.
  unfold set_attr, nodes. destruct (alookup n g) as [[a0 ad]|] eqn:E; [|reflexivity].
  eapply map_fst_aset_present. exact E.
Qed.

Lemma adj_set_attr g n a m : adj (set_attr g n a) m = adj g m.
Proof.
  unfold adj. rewrite alookup_set_attr. destruct (Z.eqb_spec m n) as [->|H]; [|reflexivity].
  destruct (alookup n g) as [[a0 ad]|]; reflexivity.
Qed.

Lemma edge_label_set_attr g n a x y : edge_label (set_attr g n a) x y = edge_label g x y.
Proof. unfold edge_label. rewrite adj_set_attr. reflexivity. Qed.

Lemma has_node_set_attr g n a m : has_node (set_attr g n a) m = has_node g m.
Proof.
  unfold has_node. rewrite alookup_set_attr. destruct (Z.eqb_spec m n) as [->|H]; [|reflexivity].
  destruct (alookup n g) as [[a0 ad]|]; reflexivity.
Qed.

Lemma node_attr_set_attr g n a m :
  node_attr (set_attr g n a) m = if (m =? n) && has_node g n then Some a else node_attr g m.
Proof.
  unfold node_attr, has_node. rewrite alookup_set_attr.
  destruct (Z.eqb_spec m n) as [->|H]; simpl; [|reflexivity].
  destruct (alookup n g) as [[a0 ad]|]; reflexivity.
Qed.

Lemma wf_set_attr g n a : wf g -> wf (set_attr g n a).
Proof.
  intros (H1 & H2 & H3). split; [|split].
  - rewrite nodes_set_attr. exact H1.
  - intros u. rewrite adj_set_attr. apply H2.
  - intros u v l. rewrite !edge_label_set_attr. apply H3.
Qed.

(** * relabel with a function that is injective on the nodes *)

Lemma NoDup_map_inj_in {A B} (f : A -> B) (l : list A) :
  (forall x y, In x l -> In y l -> f x = f y -> x = y) -> NoDup l -> NoDup (map f l).
Proof.
  induction l as [|a t IH]; intros Hinj Hnd; simpl; [constructor|].
  inversion Hnd as [|? ? Hni Hnd']; subst. constructor.
  - intros Hin. apply in_map_iff in Hin. destruct Hin as (b & Hfb & Hb).
    assert (b = a) by (apply Hinj; [right; exact Hb | left; reflexivity | exact Hfb]).
    subst. contradiction.
  - apply IH; [|exact Hnd']. intros x y Hx Hy. apply Hinj; right; assumption.
Qed.

Lemma fold_left_ext_in {A B} (F F' : A -> B -> A) (l : list B) :
  (forall acc p, In p l -> F acc p = F' acc p) -> forall a, fold_left F l a = fold_left F' l a.
Proof.
  induction l as [|p t IH]; intros H a; simpl; [reflexivity|].
  rewrite (H a p (or_introl eq_refl)). apply IH. intros acc q Hq. apply H. right. exact Hq.
Qed.

Lemma In_nodes_data g n a : In (n, a) (nodes_data g) -> In n (nodes g).
Proof.
  intros H. rewrite <- nodes_data_fst. apply (in_map fst) in H. exact H.
Qed.

Lemma relabel_ext f f' g : wf g -> (forall x, In x (nodes g) -> f x = f' x) -> relabel f g = relabel f' g.
Proof.
  intros Hwf Hff. unfold relabel.
  assert (E1 : map (fun '(n, _) => (f n, na_empty)) (nodes_data g)
               = map (fun '(n, _) => (f' n, na_empty)) (nodes_data g)).
  { apply map_ext_in. intros [n a] Hin. rewrite (Hff n); [reflexivity|]. eapply In_nodes_data; eauto. }
  assert (E3 : map (fun '(u, v, l) => (f u, f v, l)) (edges g)
               = map (fun '(u, v, l) => (f' u, f' v, l)) (edges g)).
  { apply map_ext_in. intros [[u v] l] Hin. destruct (edges_endpoints _ Hwf _ _ _ Hin) as [Hu Hv].
    apply has_node_In in Hu. apply has_node_In in Hv. rewrite (Hff u Hu), (Hff v Hv). reflexivity. }
  rewrite E1, E3. f_equal.
  apply fold_left_ext_in. intros acc [n a] Hin. rewrite (Hff n); [reflexivity|].
  eapply In_nodes_data; eauto.
Qed.

Section Relabel.
  Variable f : Z -> Z.
  Variable g : graph.
  Hypothesis Hg : wf g.
  Hypothesis Hinj : forall x y, In x (nodes g) -> In y (nodes g) -> f x = f y -> x = y.

  Let l0 := map (fun '(n, _) => (f n, na_empty)) (nodes_data g).
  Let h0 := add_nodes_from empty_graph l0.
  Let F := fun (acc : graph) '(n, a) => set_attr acc (f n) a.
  Let h1 := fold_left F (nodes_data g) h0.
  Let E' := map (fun '(u, v, l) => (f u, f v, l)) (edges g).

  Lemma relabel_unfold : relabel f g = add_edges_from h1 E'.
  Proof. reflexivity. Qed.

  Local Lemma l0_fst : map fst l0 = map f (nodes g).
  Proof.
    unfold l0, nodes, nodes_data. rewrite !map_map.
    apply map_ext. intros [n [a ad]]. reflexivity.
  Qed.

  Local Lemma h0_has z : has_node h0 z = zmem z (map f (nodes g)).
  Proof. unfold h0. rewrite has_node_add_nodes_from, l0_fst. reflexivity. Qed.

  Local Lemma fold_F_inv l : forall h,
    (forall z, has_node (fold_left F l h) z = has_node h z)
    /\ (forall x y, edge_label (fold_left F l h) x y = edge_label h x y)
    /\ (wf h -> wf (fold_left F l h)).
  Proof.
    induction l as [|[n a] t IH]; intros h;
      [split; [reflexivity|split; [reflexivity|intros Hw; exact Hw]]|].
    cbn [fold_left]. destruct (IH (F h (n, a))) as (H1 & H2 & H3). split; [|split].
    - intros z. rewrite H1. unfold F. apply has_node_set_attr.
    - intros x y. rewrite H2. unfold F. apply edge_label_set_attr.
    - intros Hw. apply H3. unfold F. apply wf_set_attr. exact Hw.
  Qed.

  Local Lemma fold_F_other l : forall h z,
    ~ In z (map (fun p => f (fst p)) l) -> node_attr (fold_left F l h) z = node_attr h z.
  Proof.
    induction l as [|[n a] t IH]; intros h z Hni; [reflexivity|].
    cbn [fold_left]. rewrite IH; [|intros Hin; apply Hni; right; exact Hin].
    unfold F. rewrite node_attr_set_attr. destruct (Z.eqb_spec z (f n)) as [->|Hne]; [|reflexivity].
    exfalso. apply Hni. left. reflexivity.
  Qed.

  Local Lemma fold_F_hit l : forall h x a,
    NoDup (map (fun p => f (fst p)) l) -> In (x, a) l -> has_node h (f x) = true ->
    node_attr (fold_left F l h) (f x) = Some a.
  Proof.
    induction l as [|[n b] t IH]; intros h x a Hnd Hin Hh; [contradiction|].
    simpl in Hnd. inversion Hnd as [|? ? Hni Hnd']; subst. cbn [fold_left].
    destruct Hin as [[= -> ->]|Hin].
    - rewrite fold_F_other; [|exact Hni]. unfold F. rewrite node_attr_set_attr, Z.eqb_refl, Hh. reflexivity.
    - apply IH; [exact Hnd'|exact Hin|]. unfold F. rewrite has_node_set_attr. exact Hh.
  Qed.

  Local Lemma nd_fn : NoDup (map (fun p : Z * nattr => f (fst p)) (nodes_data g)).
  Proof.
    rewrite <- (map_map (@fst Z nattr) f (nodes_data g)), nodes_data_fst.
    apply (NoDup_map_inj_in f (nodes g)); [exact Hinj|]. destruct Hg as (Hnd & _). exact Hnd.
  Qed.

  Local Lemma h1_attr x : In x (nodes g) -> node_attr h1 (f x) = node_attr g x.
  Proof.
    intros Hx. apply has_node_In in Hx. destruct (has_node_true_attr _ _ Hx) as (a & Ha).
    rewrite Ha. unfold h1. apply fold_F_hit.
    - exact nd_fn.
    - apply alookup_In. rewrite alookup_nodes_data. exact Ha.
    - rewrite h0_has. apply zmem_In. apply in_map. apply has_node_In. exact Hx.
  Qed.

  Local Lemma h1_has z : has_node h1 z = zmem z (map f (nodes g)).
  Proof. unfold h1. destruct (fold_F_inv (nodes_data g) h0) as (H1 & _ & _). rewrite H1. apply h0_has. Qed.

  Local Lemma h1_edge x y : edge_label h1 x y = None.
  Proof.
    unfold h1. destruct (fold_F_inv (nodes_data g) h0) as (_ & H2 & _). rewrite H2.
    unfold h0. rewrite edge_label_add_nodes_from. reflexivity.
  Qed.

  Local Lemma h1_wf : wf h1.
  Proof.
    unfold h1. destruct (fold_F_inv (nodes_data g) h0) as (_ & _ & H3). apply H3.
    unfold h0. apply wf_add_nodes_from. apply wf_empty.
  Qed.

  Local Lemma E'_endpoints : endpoints_in h1 E'.
  Proof.
    intros u v l Hin. unfold E' in Hin. apply in_map_iff in Hin.
    destruct Hin as ([[u0 v0] l0'] & [= <- <- <-] & Hin).
    destruct (edges_endpoints _ Hg _ _ _ Hin) as [Hu Hv].
    rewrite !h1_has. split; apply zmem_In; apply in_map; apply has_node_In; assumption.
  Qed.

  Lemma has_node_relabel z : has_node (relabel f g) z = zmem z (map f (nodes g)).
  Proof.
    rewrite relabel_unfold. destruct (add_edges_from_existing _ _ E'_endpoints) as (_ & _ & Hh).
    rewrite Hh. apply h1_has.
  Qed.

  Lemma In_nodes_relabel z : In z (nodes (relabel f g)) <-> exists x, In x (nodes g) /\ z = f x.
  Proof.
    rewrite <- has_node_In, has_node_relabel, zmem_In, in_map_iff.
    split; intros (x & H1 & H2); exists x; auto.
  Qed.

  Lemma node_attr_relabel x : In x (nodes g) -> node_attr (relabel f g) (f x) = node_attr g x.
  Proof.
    intros Hx. rewrite relabel_unfold. destruct (add_edges_from_existing _ _ E'_endpoints) as (_ & Ha & _).
    rewrite Ha. apply h1_attr. exact Hx.
  Qed.

  Local Lemma elast_map_inj es x y :
    (forall u v l, In (u, v, l) es -> In u (nodes g) /\ In v (nodes g)) ->
    In x (nodes g) -> In y (nodes g) ->
    elast (map (fun '(u, v, l) => (f u, f v, l)) es) (f x) (f y) = elast es x y.
  Proof.
    intros Hes Hx Hy. induction es as [|[[u v] l] t IH]; [reflexivity|].
    cbn [map elast]. rewrite IH; [|intros u' v' l' Hin; apply (Hes u' v' l'); right; exact Hin].
    destruct (Hes u v l (or_introl eq_refl)) as [Hu Hv].
    assert (Em : ematch (f u) (f v) (f x) (f y) = ematch u v x y).
    { unfold ematch.
      assert (Hb : forall a b, In a (nodes g) -> In b (nodes g) -> (f a =? f b) = (a =? b)).
      { intros a b Ha Hb. destruct (Z.eqb_spec a b) as [->|Hne]; [apply Z.eqb_refl|].
        apply Z.eqb_neq. intros Hf. apply Hne. apply Hinj; assumption. }
      rewrite !Hb by assumption. reflexivity. }
    rewrite Em. reflexivity.
  Qed.

  Lemma edge_label_relabel x y :
    In x (nodes g) -> In y (nodes g) -> edge_label (relabel f g) (f x) (f y) = edge_label g x y.
  Proof.
    intros Hx Hy. rewrite relabel_unfold, edge_label_add_edges_from. unfold E'.
    rewrite elast_map_inj; [|intros u v l Hin| exact Hx | exact Hy].
    - rewrite (elast_edges _ _ _ Hg), h1_edge. destruct (edge_label g x y); reflexivity.
    - destruct (edges_endpoints _ Hg _ _ _ Hin) as [Hu Hv]. split; apply has_node_In; assumption.
  Qed.

  Lemma wf_relabel : wf (relabel f g).
  Proof. rewrite relabel_unfold. apply wf_add_edges_from. exact h1_wf. Qed.
End Relabel.
