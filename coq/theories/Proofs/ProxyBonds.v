(** C14, conservation of the bond labels in one substitution step (MultiGraph, before the collapse).
    Counting argument: for a well-formed multigraph without self-loops on ids 0..n-1, twice the
    number of bonds labelled l is the double sum of mcount over all ordered pairs; the C13
    specification gives mcount of the result block by block. *)
From Coq Require Import ZArith List Bool String Lia Permutation Arith.
From FGV Require Import Base.Util Base.UtilFacts Base.Bond Base.NX Base.NXFacts Base.NXMulti Model.Aam Model.Proxy
  Model.ProxyGen Spec.ProxySpec Spec.ProxyCheck Spec.ProxyGenSpec Spec.ProxyBondSpec Proofs.ProxyGenUtil Proofs.ProxyGenFinish.
Import ListNotations.
Open Scope Z_scope.

(** * sums *)

Definition msum {A} (f : A -> nat) (l : list A) : nat := list_sum (map f l).

Lemma msum_app {A} (f : A -> nat) l1 l2 : msum f (l1 ++ l2) = (msum f l1 + msum f l2)%nat.
Proof. unfold msum. rewrite map_app, list_sum_app. reflexivity. Qed.

Lemma msum_cons {A} (f : A -> nat) a l : msum f (a :: l) = (f a + msum f l)%nat.
Proof. reflexivity. Qed.

Lemma msum_ext {A} (f g : A -> nat) l : (forall x, In x l -> f x = g x) -> msum f l = msum g l.
Proof. intros H. unfold msum. f_equal. apply map_ext_in. exact H. Qed.

Lemma msum_perm {A} (f : A -> nat) l l' : Permutation l l' -> msum f l = msum f l'.
Proof. intros H. unfold msum. apply list_sum_perm. apply Permutation_map. exact H. Qed.

Lemma msum_zero {A} (f : A -> nat) l : (forall x, In x l -> f x = O) -> msum f l = O.
Proof.
  induction l as [|a t IH]; intros H; [reflexivity|]. rewrite msum_cons.
  rewrite (H a (or_introl eq_refl)). rewrite IH; [reflexivity|]. intros x Hx. apply H. right. exact Hx.
Qed.

Lemma map_flat_map {A B C} (g : B -> C) (f : A -> list B) l :
  map g (flat_map f l) = flat_map (fun x => map g (f x)) l.
Proof. induction l as [|a t IH]; [reflexivity|]. simpl. rewrite map_app, IH. reflexivity. Qed.

Lemma NoDup_app_disjoint {A} (a b : list A) x : NoDup (a ++ b) -> In x a -> In x b -> False.
Proof.
  induction a as [|y t IH]; simpl; intros Hnd Ha Hb; [exact Ha|].
  inversion Hnd as [|? ? Hy Hnd']; subst. destruct Ha as [->|Ha].
  - apply Hy. apply in_or_app. right. exact Hb.
  - exact (IH Hnd' Ha Hb).
Qed.

Lemma NoDup_move_middle {A} (a : list A) u t : NoDup (a ++ u :: t) -> NoDup ((u :: a) ++ t).
Proof.
  intros H. simpl. eapply Permutation_NoDup; [|exact H]. apply Permutation_sym, Permutation_middle.
Qed.

Lemma msum_plus {A} (f g : A -> nat) l : msum (fun x => (f x + g x)%nat) l = (msum f l + msum g l)%nat.
Proof. induction l as [|a t IH]; [reflexivity|]. rewrite !msum_cons, IH. lia. Qed.

Lemma msum_swap {A B} (f : A -> B -> nat) la lb :
  msum (fun x => msum (fun y => f x y) lb) la = msum (fun y => msum (fun x => f x y) la) lb.
Proof.
  induction la as [|a t IH].
  - simpl. symmetry. apply msum_zero. reflexivity.
  - rewrite msum_cons, IH. rewrite <- msum_plus. apply msum_ext. intros y _. rewrite msum_cons. reflexivity.
Qed.

Lemma msum_map {A B} (f : B -> nat) (r : A -> B) l : msum f (map r l) = msum (fun x => f (r x)) l.
Proof. unfold msum. rewrite map_map. reflexivity. Qed.

(* the indicator of one element of a duplicate-free list sums to one *)
Lemma msum_indicator (a : Z) l (c : nat) :
  NoDup l -> In a l -> msum (fun x => if x =? a then c else O) l = c.
Proof.
  induction l as [|b t IH]; intros Hnd Hin; [destruct Hin|].
  inversion Hnd as [|? ? Hb Hnd']; subst. rewrite msum_cons.
  destruct Hin as [->|Hin].
  - rewrite Z.eqb_refl. rewrite msum_zero; [lia|].
    intros x Hx. destruct (Z.eqb_spec x a); [subst; contradiction|reflexivity].
  - destruct (Z.eqb_spec b a) as [->|_]; [contradiction|]. rewrite IH; auto.
Qed.

(** * sums over an association list with distinct keys = sums over a universe of keys *)

Lemma msum_alist {A} (F : Z -> A -> nat) (ad : list (Z * A)) (U : list Z) :
  NoDup (map fst ad) -> NoDup U -> (forall v, In v (map fst ad) -> In v U) ->
  msum (fun e => F (fst e) (snd e)) ad
  = msum (fun v => match alookup v ad with Some a => F v a | None => O end) U.
Proof.
  revert U. induction ad as [|[v a] t IH]; intros U Hnd HU Hsub.
  - simpl. symmetry. apply msum_zero. reflexivity.
  - inversion Hnd as [|? ? Hv Hnd']; subst. simpl in Hv.
    rewrite msum_cons. simpl fst. simpl snd.
    rewrite (IH U Hnd' HU) by (intros x Hx; apply Hsub; right; exact Hx).
    assert (HvU : In v U) by (apply Hsub; left; reflexivity).
    rewrite <- (msum_indicator v U (F v a) HU HvU). rewrite <- msum_plus.
    apply msum_ext. intros x Hx. simpl. destruct (Z.eqb_spec x v) as [->|Hne].
    + rewrite (proj2 (alookup_None v t)) by exact Hv. lia.
    + reflexivity.
Qed.

(** * counts of labels *)

Lemma lcount_app l a b : lcount l (a ++ b) = (lcount l a + lcount l b)%nat.
Proof. unfold lcount. rewrite filter_app, app_length. reflexivity. Qed.

Lemma lcount_flat_map {A} l (f : A -> list label) xs :
  lcount l (flat_map f xs) = msum (fun x => lcount l (f x)) xs.
Proof.
  induction xs as [|x t IH]; [reflexivity|]. simpl. rewrite lcount_app, IH. reflexivity.
Qed.

Definition kcount (l : label) (kd : keyd) : nat := lcount l (map snd kd).

Lemma mcount_kcount g u v l : mcount g u v l = kcount l (mkeyd g u v).
Proof. reflexivity. Qed.

Lemma mkeyd_sym g u v : mwf g -> mkeyd g u v = mkeyd g v u.
Proof.
  intros [_ [_ Hsym]]. unfold mkd in *. unfold mkeyd.
  destruct (alookup v (madj g u)) as [kd|] eqn:E.
  - destruct (Hsym u v kd E) as [_ [_ Hb]]. rewrite Hb. reflexivity.
  - destruct (alookup u (madj g v)) as [kd|] eqn:E'; [|reflexivity].
    destruct (Hsym v u kd E') as [_ [_ Hb]]. congruence.
Qed.

(** * the bonds of a graph as a double sum *)

Definition M (g : mgraph) (l : label) (u v : Z) : nat := mcount g u v l.

(* sum over the pairs (u, v) with v at or after u in the list *)
Fixpoint upper (f : Z -> Z -> nat) (ns : list Z) : nat :=
  match ns with
  | [] => O
  | u :: t => (f u u + msum (f u) t + upper f t)%nat
  end.

Lemma full_upper (f : Z -> Z -> nat) ns :
  (forall u v, f u v = f v u) ->
  (msum (fun u => msum (f u) ns) ns + msum (fun u => f u u) ns = 2 * upper f ns)%nat.
Proof.
  intros Hsym. induction ns as [|x t IH]; [reflexivity|].
  cbn [upper]. rewrite !msum_cons.
  assert (E : msum (fun u => msum (f u) (x :: t)) t = (msum (fun u => f u x) t + msum (fun u => msum (f u) t) t)%nat).
  { rewrite <- msum_plus. apply msum_ext. intros u _. rewrite msum_cons. reflexivity. }
  rewrite E. rewrite (msum_ext (fun u => f u x) (f x)) by (intros; apply Hsym). lia.
Qed.

Lemma medges_aux_count g l : forall rest seen,
  NoDup (seen ++ map fst rest) ->
  (forall u a ad, In (u, (a, ad)) rest -> ad = madj g u) ->
  (forall u v, In u (map fst rest) -> In v (mneighbors g u) -> In v (seen ++ map fst rest)) ->
  (forall u, NoDup (map fst (madj g u))) ->
  lcount l (map snd (medges_aux seen rest)) = upper (M g l) (map fst rest).
Proof.
  induction rest as [|[u [a ad]] t IH]; intros seen Hnd Had Hcl Hadj; [reflexivity|].
  cbn [medges_aux map fst upper]. rewrite map_app, lcount_app.
  assert (Ead : ad = madj g u) by (eapply Had; left; reflexivity). subst ad.
  rewrite (IH (u :: seen)).
  - f_equal.
    (* the entries of u *)
    rewrite map_flat_map.
    rewrite lcount_flat_map.
    rewrite (msum_ext _ (fun e => (fun v kd => if zmem v seen then O else kcount l kd) (fst e) (snd e))).
    2:{ intros [v kd] _. simpl. destruct (zmem v seen); [reflexivity|].
        unfold kcount. f_equal. rewrite map_map. apply map_ext. intros [k lb]. reflexivity. }
    assert (Hsub : forall v, In v (map fst (madj g u)) -> In v (seen ++ u :: map fst t)).
    { intros v Hv. apply (Hcl u v); [left; reflexivity|exact Hv]. }
    pose proof (msum_alist (fun v (kd : keyd) => if zmem v seen then O else kcount l kd) (madj g u)
                           (seen ++ u :: map fst t) (Hadj u) Hnd Hsub) as Ealist.
    cbv beta in Ealist. rewrite Ealist. clear Ealist.
    rewrite msum_app. rewrite msum_zero.
    2:{ intros v Hv. destruct (alookup v (madj g u)); [|reflexivity].
        rewrite (proj2 (zmem_In v seen) Hv). reflexivity. }
    rewrite msum_cons. simpl.
    assert (Hns : forall v, In v (u :: map fst t) -> zmem v seen = false).
    { intros v Hv. apply zmem_false. intros Hs. apply NoDup_app_disjoint with (1 := Hnd) (x := v); assumption. }
    rewrite (Hns u) by (left; reflexivity).
    f_equal.
    + unfold M. rewrite mcount_kcount. unfold mkeyd. destruct (alookup u (madj g u)); reflexivity.
    + apply msum_ext. intros v Hv. rewrite (Hns v) by (right; exact Hv).
      unfold M. rewrite mcount_kcount. unfold mkeyd. destruct (alookup v (madj g u)); reflexivity.
  - simpl. apply NoDup_move_middle. exact Hnd.
  - intros u' a' ad' Hin. apply (Had u' a' ad'). right. exact Hin.
  - intros u' v Hu' Hv. specialize (Hcl u' v (or_intror Hu') Hv).
    apply in_app_or in Hcl. destruct Hcl as [H|[H|H]].
    + right. apply in_or_app. left. exact H.
    + left. simpl in H. exact H.
    + right. apply in_or_app. right. exact H.
  - exact Hadj.
Qed.

Definition D (g : mgraph) (n : Z) (l : label) : nat :=
  msum (fun x => msum (fun y => mcount g x y l) (zseq 0 n)) (zseq 0 n).

Lemma M_sym g l u v : mwf g -> M g l u v = M g l v u.
Proof. intros H. unfold M. rewrite !mcount_kcount, (mkeyd_sym g u v H). reflexivity. Qed.

Lemma M_loop g l u : loopfree g -> M g l u u = O.
Proof. intros H. unfold M. rewrite mcount_kcount, H. reflexivity. Qed.

Theorem bonds_double_sum g n l :
  mwf g -> loopfree g -> ids_range (mnodes g) 0 n -> (2 * lcount l (mbonds g) = D g n l)%nat.
Proof.
  intros Hwf Hlf Hr. pose proof Hwf as [Hnd [Hadj _]].
  unfold mbonds, medges.
  rewrite (medges_aux_count g l g []).
  - change (map fst g) with (mnodes g).
    rewrite <- (full_upper (M g l) (mnodes g)) by (intros; apply M_sym; exact Hwf).
    rewrite (msum_zero (fun u => M g l u u)) by (intros; apply M_loop; exact Hlf).
    rewrite Nat.add_0_r. unfold D.
    pose proof (ids_range_perm _ _ _ Hnd Hr) as Hp.
    rewrite (msum_perm _ _ _ Hp). apply msum_ext. intros x _. apply (msum_perm _ _ _ Hp).
  - simpl. exact Hnd.
  - intros u a ad Hin. unfold madj. rewrite (NoDup_alookup u (a, ad) g Hnd Hin). reflexivity.
  - intros u v _ Hv. simpl. exact (mwf_closed g Hwf u v Hv).
  - exact Hadj.
Qed.

(* the bonds of one node *)
Lemma incident_sum g n u l :
  mwf g -> ids_range (mnodes g) 0 n ->
  lcount l (mincident_labels g u) = msum (fun y => mcount g u y l) (zseq 0 n).
Proof.
  intros Hwf Hr. pose proof Hwf as [Hnd [Hadj _]].
  unfold mincident_labels, mincident. rewrite map_flat_map, lcount_flat_map.
  rewrite (msum_ext _ (fun e => (fun (v : Z) kd => kcount l kd) (fst e) (snd e))).
  2:{ intros [v kd] _. simpl. unfold kcount. f_equal. rewrite map_map. apply map_ext. intros [k lb]. reflexivity. }
  assert (Hsub : forall v, In v (map fst (madj g u)) -> In v (zseq 0 n)).
  { intros v Hv. apply in_zseq. apply Hr. exact (mwf_closed g Hwf u v Hv). }
  pose proof (msum_alist (fun (v : Z) (kd : keyd) => kcount l kd) (madj g u) (zseq 0 n) (Hadj u) (NoDup_zseq 0 n) Hsub) as E.
  cbv beta in E. rewrite E. apply msum_ext. intros y _.
  rewrite mcount_kcount. unfold mkeyd. destruct (alookup y (madj g u)); reflexivity.
Qed.

(** * classification of a list of items into cells *)

Lemma msum_classify {T} (items : list T) (cx cy : T -> Z) (w : T -> nat) X Y :
  NoDup X -> NoDup Y -> (forall p, In p items -> In (cx p) X /\ In (cy p) Y) ->
  msum (fun x => msum (fun y => msum (fun p => if (cy p =? y) && (cx p =? x) then w p else O) items) Y) X
  = msum w items.
Proof.
  intros HX HY. induction items as [|p t IH]; intros Hin.
  - simpl. apply msum_zero. intros x _. apply msum_zero. reflexivity.
  - rewrite msum_cons. rewrite <- IH by (intros q Hq; apply Hin; right; exact Hq).
    destruct (Hin p (or_introl eq_refl)) as [Hx Hy].
    rewrite <- (msum_indicator (cx p) X (w p) HX Hx).
    rewrite <- msum_plus. apply msum_ext. intros x _.
    rewrite (msum_ext (fun y : Z => msum (fun q => if (cy q =? y) && (cx q =? x) then w q else O) (p :: t))
                      (fun y : Z => Nat.add (if (cy p =? y) && (cx p =? x) then w p else O)
                                 (msum (fun q => if (cy q =? y) && (cx q =? x) then w q else O) t)))
      by (intros; apply msum_cons).
    rewrite msum_plus. f_equal.
    destruct (Z.eqb_spec x (cx p)) as [->|Hne].
    + rewrite (msum_ext _ (fun y => if y =? cy p then w p else O)).
      * apply msum_indicator; assumption.
      * intros y _. rewrite Z.eqb_refl, andb_true_r. rewrite (Z.eqb_sym (cy p) y). reflexivity.
    + apply msum_zero. intros y _. destruct (Z.eqb_spec (cx p) x); [congruence|]. rewrite andb_false_r. reflexivity.
Qed.

Lemma lcount_filter_map {T} l (lab : T -> label) (pred : T -> bool) items :
  lcount l (map lab (filter pred items))
  = msum (fun p => if pred p then (if label_eqb l (lab p) then 1 else 0)%nat else O) items.
Proof.
  induction items as [|p t IH]; [reflexivity|]. rewrite msum_cons. simpl.
  destruct (pred p); simpl; [|exact IH].
  unfold lcount in *. simpl. destruct (label_eqb l (lab p)); simpl; rewrite IH; reflexivity.
Qed.

Lemma lcount_as_msum {T} l (lab : T -> label) items :
  lcount l (map lab items) = msum (fun p => if label_eqb l (lab p) then 1 else 0)%nat items.
Proof.
  induction items as [|p t IH]; [reflexivity|]. rewrite msum_cons. unfold lcount in *. simpl.
  destruct (label_eqb l (lab p)); simpl; rewrite IH; reflexivity.
Qed.

Lemma map_snd_combine_seq {A} (l : list A) s : map snd (combine (seq s (List.length l)) l) = l.
Proof. revert s. induction l as [|a t IH]; intros s; [reflexivity|]. simpl. rewrite IH. reflexivity. Qed.

Lemma in_combine_seq {A} (l : list A) s i a : In (i, a) (combine (seq s (List.length l)) l) -> In a l.
Proof. intros H. apply in_combine_r in H. exact H. Qed.

Lemma anchor_of_range anchors k i :
  anchors <> [] -> Forall (fun a => 0 <= a < k) anchors -> 0 <= anchor_of anchors i < k.
Proof.
  intros Hne Hall. unfold anchor_of. rewrite Forall_forall in Hall. apply Hall. apply nth_In.
  destruct anchors; [congruence|]. simpl. lia.
Qed.

(* the cross block *)
Lemma cross_sum inc anchors m k l (P : list Z) :
  0 < k -> anchors <> [] -> Forall (fun a => 0 <= a < k) anchors ->
  NoDup P -> (forall e, In e inc -> In (snd (fst e)) P) ->
  msum (fun x => msum (fun y => lcount l (cross_labels inc anchors m x y)) P) (zseq m (m + k))
  = lcount l (map (fun e => snd e) inc).
Proof.
  intros Hk Hne Hall HP Hinc.
  set (items := combine (seq 0 (List.length inc)) inc).
  replace (map (fun e : Z * Z * label => snd e) inc)
    with (map (fun p : nat * (Z * Z * label) => snd (snd p)) items)
    by (unfold items; rewrite <- (map_map snd (fun e : Z * Z * label => snd e)), map_snd_combine_seq; reflexivity).
  rewrite (lcount_as_msum l (fun p : nat * (Z * Z * label) => snd (snd p)) items).
  rewrite <- (msum_classify items (fun p => m + anchor_of anchors (fst p)) (fun p => snd (fst (snd p)))
                           (fun p => if label_eqb l (snd (snd p)) then 1%nat else O) (zseq m (m + k)) P
                           (NoDup_zseq _ _) HP).
  - apply msum_ext. intros x _. apply msum_ext. intros y _.
    unfold cross_labels. fold items. apply lcount_filter_map.
  - intros [i e] Hin. simpl. split.
    + apply in_zseq. pose proof (anchor_of_range anchors k i Hne Hall). lia.
    + apply Hinc. eapply in_combine_seq. exact Hin.
Qed.

Lemma kcount_all_zero kd : (forall l, kcount l kd = O) -> kd = [].
Proof.
  destruct kd as [|[k lb] t]; [reflexivity|]. intros H. specialize (H lb).
  unfold kcount, lcount in H. simpl in H. rewrite label_eqb_refl in H. simpl in H. discriminate.
Qed.

Lemma perm_of_lcount (a b : list label) : (forall l, lcount l a = lcount l b) -> Permutation a b.
Proof.
  assert (label_dec : forall x y : label, {x = y} + {x <> y}).
  { intros x y. destruct (label_eqb x y) eqn:E; [left; apply label_eqb_eq; exact E|right].
    intros ->. rewrite label_eqb_refl in E. discriminate. }
  assert (Hc : forall l ls, count_occ label_dec ls l = lcount l ls).
  { intros l ls. induction ls as [|x t IH]; [reflexivity|]. unfold lcount in *. simpl.
    destruct (label_dec x l) as [->|Hne].
    - rewrite label_eqb_refl. simpl. rewrite IH. reflexivity.
    - destruct (label_eqb l x) eqn:E; [apply label_eqb_eq in E; congruence|exact IH]. }
  intros H. apply (Permutation_count_occ label_dec). intros l. rewrite !Hc. apply H.
Qed.

(** * the result of replace_node_multi, block by block *)

Definition Plist (anchor m : Z) : list Z := zseq 0 anchor ++ zseq (anchor + 1) m.

Lemma Plist_in anchor m x : 0 <= anchor < m -> (In x (Plist anchor m) <-> 0 <= x < m /\ x <> anchor).
Proof.
  intros Ha. unfold Plist. rewrite in_app_iff, !in_zseq. lia.
Qed.

Lemma NoDup_Plist anchor m : 0 <= anchor < m -> NoDup (Plist anchor m).
Proof.
  intros Ha. unfold Plist.
  assert (H : NoDup (zseq 0 anchor ++ anchor :: zseq (anchor + 1) m)).
  { rewrite <- (zseq_cons anchor m) by lia. rewrite <- (zseq_app 0 anchor m) by lia. apply NoDup_zseq. }
  apply NoDup_remove_1 in H. exact H.
Qed.

Lemma Plist_perm anchor m : 0 <= anchor < m -> Permutation (zseq 0 m) (anchor :: Plist anchor m).
Proof.
  intros Ha. rewrite (zseq_app 0 anchor m) by lia. rewrite (zseq_cons anchor m) by lia.
  unfold Plist. apply Permutation_sym, Permutation_middle.
Qed.

Lemma reindex anchor m k :
  0 <= anchor < m -> 0 <= k ->
  map (renum anchor) (Plist anchor m ++ zseq m (m + k)) = zseq 0 (m + k - 1).
Proof.
  intros Ha Hk. unfold Plist. rewrite !map_app, <- app_assoc.
  rewrite (zseq_app 0 anchor (m + k - 1)) by lia. rewrite (zseq_app anchor (m - 1) (m + k - 1)) by lia.
  f_equal; [|f_equal].
  - rewrite <- (map_id (zseq 0 anchor)) at 2. apply map_ext_in. intros x Hx. apply in_zseq in Hx.
    unfold renum. destruct (Z.ltb_spec x anchor); [reflexivity|lia].
  - replace (zseq (anchor + 1) m) with (zseq (anchor + 1) (m - 1 + 1)) by (f_equal; lia).
    rewrite map_zseq_shift. rewrite <- (map_id (zseq anchor (m - 1))) at 2.
    apply map_ext_in. intros x Hx. apply in_zseq in Hx.
    unfold renum. destruct (Z.ltb_spec (x + 1) anchor); lia.
  - replace (zseq m (m + k)) with (zseq (m - 1 + 1) (m + k - 1 + 1)) by (f_equal; lia).
    rewrite map_zseq_shift. rewrite <- (map_id (zseq (m - 1) (m + k - 1))) at 2.
    apply map_ext_in. intros x Hx. apply in_zseq in Hx.
    unfold renum. destruct (Z.ltb_spec (x + 1) anchor); lia.
Qed.

Section Blocks.
Variables (c h g' : mgraph) (anchor : Z) (anchors : list Z) (l : label).
Let m := mnumber_of_nodes c.
Let k := mnumber_of_nodes h.
Hypothesis Hanc : 0 <= anchor < m.
Hypothesis Hspec : replace_multi_spec c anchor h anchors g'.

Let P := Plist anchor m.
Let H := zseq m (m + k).
Let CR := fun x y => lcount l (cross_labels (mincident c anchor) anchors m x y).

Lemma k_nonneg : 0 <= k.
Proof. unfold k, mnumber_of_nodes. lia. Qed.

Lemma D_blocks :
  D g' (m + k - 1) l
  = (msum (fun x => msum (fun y => mcount c x y l) P) P
     + 2 * msum (fun x => msum (fun y => CR x y) P) H
     + msum (fun x => msum (fun y => mcount h x y l) H) H)%nat.
Proof.
  pose proof k_nonneg as Hk.
  unfold replace_multi_spec in Hspec. cbv zeta in Hspec. fold m k in Hspec.
  destruct Hspec as [_ [_ [_ [_ [Hpp [Hhh Hcr]]]]]].
  unfold D. rewrite <- (reindex anchor m k Hanc Hk). fold P H.
  rewrite msum_map.
  rewrite (msum_ext _ (fun x => msum (fun y => mcount g' (renum anchor x) (renum anchor y) l) (P ++ H)))
    by (intros x _; apply msum_map).
  rewrite msum_app.
  assert (HP : forall x, In x P -> 0 <= x < m /\ x <> anchor) by (intros x Hx; apply Plist_in in Hx; assumption).
  assert (HH : forall x, In x H -> m <= x < m + k) by (intros x Hx; apply in_zseq in Hx; exact Hx).
  (* rows of the parent *)
  rewrite (msum_ext _ (fun x => (msum (fun y => mcount c x y l) P + msum (fun y => CR y x) H)%nat) P).
  2:{ intros x Hx. rewrite msum_app. destruct (HP x Hx) as [Hx1 Hx2]. f_equal.
      - apply msum_ext. intros y Hy. destruct (HP y Hy) as [Hy1 Hy2]. apply Hpp; lia.
      - apply msum_ext. intros y Hy. specialize (HH y Hy). destruct (Hcr y x l HH Hx1 Hx2) as [_ E]. exact E. }
  (* rows of the sub-pattern *)
  rewrite (msum_ext _ (fun x => (msum (fun y => CR x y) P + msum (fun y => mcount h x y l) H)%nat) H).
  2:{ intros x Hx. rewrite msum_app. specialize (HH x Hx). f_equal.
      - apply msum_ext. intros y Hy. destruct (HP y Hy) as [Hy1 Hy2]. destruct (Hcr x y l HH Hy1 Hy2) as [E _]. exact E.
      - apply msum_ext. intros y Hy. apply Hhh; [exact HH|]. apply in_zseq in Hy. exact Hy. }
  rewrite !msum_plus. rewrite (msum_swap (fun x y => CR y x) P H). lia.
Qed.

End Blocks.

(** * the parent block *)

Lemma PP_plus c anchor l :
  let m := mnumber_of_nodes c in
  mwf c -> loopfree c -> 0 <= anchor < m ->
  (msum (fun x => msum (fun y => mcount c x y l) (Plist anchor m)) (Plist anchor m)
   + 2 * msum (fun y => mcount c anchor y l) (zseq 0 m) = D c m l)%nat.
Proof.
  intros m Hwf Hlf Ha. pose proof (Plist_perm anchor m Ha) as Hp. set (P := Plist anchor m) in *.
  assert (HI : msum (fun y => mcount c anchor y l) (zseq 0 m) = msum (fun y => mcount c anchor y l) P).
  { rewrite (msum_perm _ _ _ Hp), msum_cons. fold (M c l anchor anchor). rewrite M_loop by exact Hlf. reflexivity. }
  rewrite HI. unfold D. rewrite (msum_perm _ _ _ Hp), msum_cons. rewrite HI.
  rewrite (msum_ext (fun x => msum (fun y => mcount c x y l) (zseq 0 m))
                    (fun x => (mcount c x anchor l + msum (fun y => mcount c x y l) P)%nat) P)
    by (intros x _; rewrite (msum_perm _ _ _ Hp), msum_cons; reflexivity).
  rewrite msum_plus.
  rewrite (msum_ext (fun x => mcount c x anchor l) (fun y => mcount c anchor y l) P)
    by (intros x _; apply (M_sym c l x anchor Hwf)).
  lia.
Qed.

Lemma HH_shift p m l :
  let k := mnumber_of_nodes p in
  msum (fun x => msum (fun y => mcount (mshift m p) x y l) (zseq m (m + k))) (zseq m (m + k)) = D p k l.
Proof.
  intros k. unfold D.
  assert (E : forall f : Z -> nat, msum f (zseq m (m + k)) = msum (fun x => f (x + m)) (zseq 0 k)).
  { intros f. replace (zseq m (m + k)) with (zseq (0 + m) (k + m)) by (f_equal; lia).
    unfold msum. rewrite map_zseq_shift. reflexivity. }
  rewrite E. apply msum_ext. intros x _. rewrite E. apply msum_ext. intros y _.
  rewrite !mcount_kcount, mkeyd_mshift. reflexivity.
Qed.

Lemma in_mincident (c : mgraph) n e : In e (mincident c n) -> fst (fst e) = n /\ In (snd (fst e)) (mneighbors c n).
Proof.
  unfold mincident. intros H. apply in_flat_map in H. destruct H as [[v kd] [Hv He]].
  apply in_map_iff in He. destruct He as [[k0 l0] [<- _]]. simpl. split; [reflexivity|].
  unfold mneighbors. apply (in_map fst) in Hv. exact Hv.
Qed.

Lemma loopfree_not_neighbor c n : mwf c -> loopfree c -> ~ In n (mneighbors c n).
Proof.
  intros [_ [_ Hsym]] Hlf Hin. unfold mneighbors in Hin.
  destruct (In_alookup n (madj c n) Hin) as [kd E].
  destruct (Hsym n n kd E) as [Hne _]. specialize (Hlf n). unfold mkeyd in Hlf. rewrite E in Hlf. contradiction.
Qed.

Lemma mkeyd_not_node (g : mgraph) x y : ~ In x (mnodes g) -> mkeyd g x y = [].
Proof.
  intros H. unfold mkeyd, madj. rewrite (proj2 (alookup_None x g)) by exact H. reflexivity.
Qed.

(** * one substitution step conserves the bond labels *)

Section BondStep.
Variable gs : groups.
Hypothesis H13 : C13_multi_statement.
Hypothesis Hcopy : mcopy_statement.
Hypothesis Hcopyb : mcopy_bonds_statement.

Theorem step_bonds g sg g' anchor a :
  pattern_ok gs g -> loopfree g -> pgraph_ok gs sg -> loopfree (pg_graph sg) ->
  mnode_attr g anchor = Some a ->
  replace_node_multi (mcopy g) anchor (mshift (mnumber_of_nodes (mcopy g)) (pg_graph sg)) (pg_anchor sg) = POk g' ->
  loopfree g'
  /\ (pg_graph sg <> [] -> Permutation (mbonds g') (mbonds g ++ mbonds (pg_graph sg)))
  /\ (pg_graph sg = [] -> Permutation (mbonds g' ++ mincident_labels g anchor) (mbonds g)).
Proof.
  intros [Hwf [Hr Hok]] Hlf [[Hpwf [Hpr Hpok]] Hanch] Hplf Ha Hrun.
  destruct (Hcopy g Hwf) as [Hcwf [Hcn Hca]]. pose proof (Hcopyb g Hwf) as Hcb.
  assert (Hm : mnumber_of_nodes (mcopy g) = mnumber_of_nodes g) by (rewrite !mnumber_nodes_eq, Hcn; reflexivity).
  remember (mcopy g) as c eqn:Ec. remember (pg_graph sg) as p eqn:Ep.
  assert (Hanc : 0 <= anchor < mnumber_of_nodes c) by (rewrite Hm; apply Hr; eapply mnode_attr_in_nodes; eauto).
  assert (Hcr : ids_range (mnodes c) 0 (mnumber_of_nodes c)) by (rewrite Hcn, Hm; exact Hr).
  set (m := mnumber_of_nodes c) in *. set (k := mnumber_of_nodes p) in *.
  assert (Hk : 0 <= k) by (unfold k, mnumber_of_nodes; lia).
  assert (Hpre : replace_multi_pre c anchor (mshift m p) (pg_anchor sg)).
  { unfold replace_multi_pre. rewrite mnumber_mshift. fold m k.
    split; [exact Hcwf|]. split; [apply mwf_mshift; exact Hpwf|].
    split; [exact Hcr|]. split; [apply ids_range_mshift; exact Hpr|].
    split; [exact Hanc|]. exact Hanch. }
  destruct (H13 _ _ _ _ Hpre) as [g'' [Hrun'' Hspec]].
  rewrite Hrun in Hrun''. inversion Hrun''; subst g''. clear Hrun''.
  assert (Hspec' := Hspec). unfold replace_multi_spec in Hspec'. cbv zeta in Hspec'.
  rewrite mnumber_mshift in Hspec'. fold m k in Hspec'.
  destruct Hspec' as [Hwf' [Hr' [_ [_ [Hpp [Hhh _]]]]]].
  (* no self-loops *)
  assert (Hclf : loopfree c).
  { intros x. apply kcount_all_zero. intros l. rewrite <- mcount_kcount, Hcb, mcount_kcount, Hlf. reflexivity. }
  assert (Hhlf : loopfree (mshift m p)).
  { intros x. replace x with (x - m + m) by lia. rewrite mkeyd_mshift. apply Hplf. }
  assert (Hlf' : loopfree g').
  { intros x'. destruct (in_dec Z.eq_dec x' (mnodes g')) as [Hin|Hni]; [|apply mkeyd_not_node; exact Hni].
    apply Hr' in Hin. apply kcount_all_zero. intros l. rewrite <- mcount_kcount.
    destruct (Z.lt_ge_cases x' anchor) as [H1|H1].
    - replace x' with (renum anchor x') by (unfold renum; destruct (Z.ltb_spec x' anchor); lia).
      rewrite Hpp by lia. rewrite mcount_kcount, Hclf. reflexivity.
    - assert (Er : renum anchor (x' + 1) = x') by (unfold renum; destruct (Z.ltb_spec (x' + 1) anchor); lia).
      rewrite <- Er. destruct (Z.lt_ge_cases x' (m - 1)) as [H2|H2].
      + rewrite Hpp by lia. rewrite mcount_kcount, Hclf. reflexivity.
      + rewrite Hhh by lia. rewrite mcount_kcount, Hhlf. reflexivity. }
  split; [exact Hlf'|].
  (* the counting identity *)
  assert (Hcount : forall l,
            (lcount l (mbonds g') + lcount l (mincident_labels g anchor)
             = lcount l (mbonds g) + lcount l (mbonds p)
               + (if (0 <? k)%Z then lcount l (mincident_labels g anchor) else O))%nat).
  { intros l.
    pose proof (bonds_double_sum g' (m + k - 1) l Hwf' Hlf' Hr') as E1.
    pose proof (D_blocks c (mshift m p) g' anchor (pg_anchor sg) l Hanc Hspec) as E0.
    rewrite mnumber_mshift in E0. fold m k in E0. rewrite E0 in E1. clear E0.
    pose proof (PP_plus c anchor l Hcwf Hclf Hanc) as E2. cbv zeta in E2. fold m in E2.
    assert (E3 : D c m l = D g m l).
    { unfold D. apply msum_ext. intros x _. apply msum_ext. intros y _. apply Hcb. }
    assert (Hrm : ids_range (mnodes g) 0 m) by (rewrite <- Hcn; exact Hcr).
    pose proof (bonds_double_sum g m l Hwf Hlf Hrm) as E4.
    pose proof (HH_shift p m l) as E5. cbv zeta in E5. fold k in E5.
    pose proof (bonds_double_sum p k l Hpwf Hplf Hpr) as E6.
    pose proof (incident_sum g m anchor l Hwf Hrm) as E7.
    assert (E8 : msum (fun y => mcount c anchor y l) (zseq 0 m) = lcount l (mincident_labels g anchor)).
    { rewrite E7. apply msum_ext. intros y _. apply Hcb. }
    assert (E9 : msum (fun x => msum (fun y => lcount l (cross_labels (mincident c anchor) (pg_anchor sg) m x y))
                                     (Plist anchor m)) (zseq m (m + k))
                 = if 0 <? k then lcount l (mincident_labels g anchor) else O).
    { destruct (Z.ltb_spec 0 k) as [Hkp|Hkz].
      - destruct (Hanch Hkp) as [Hne Hall].
        rewrite (cross_sum (mincident c anchor) (pg_anchor sg) m k l (Plist anchor m) Hkp Hne Hall (NoDup_Plist anchor m Hanc)).
        + rewrite <- E8. rewrite <- (incident_sum c m anchor l Hcwf Hcr). reflexivity.
        + intros e He. apply in_mincident in He. destruct He as [_ Hv]. apply Plist_in; [exact Hanc|].
          split; [apply Hcr; exact (mwf_closed c Hcwf anchor _ Hv)|].
          intros Heq. rewrite Heq in Hv. exact (loopfree_not_neighbor c anchor Hcwf Hclf Hv).
      - assert (k = 0) by lia. replace (m + k) with m by lia. rewrite (zseq_nil m m) by lia. reflexivity. }
    rewrite E9 in E1. rewrite E8 in E2. rewrite E5 in E1. lia. }
  split.
  - intros Hne. assert (Hkp : 0 < k).
    { unfold k, mnumber_of_nodes. destruct p; [congruence|]. simpl. lia. }
    apply perm_of_lcount. intros l. specialize (Hcount l).
    destruct (Z.ltb_spec 0 k); [|lia]. rewrite lcount_app. lia.
  - intros Hnil. assert (Hkz : k = 0) by (unfold k; rewrite Hnil; reflexivity).
    apply perm_of_lcount. intros l. specialize (Hcount l).
    destruct (Z.ltb_spec 0 k); [lia|]. rewrite lcount_app. rewrite Hnil in Hcount. simpl in Hcount.
    unfold mbonds at 3 in Hcount. simpl in Hcount. unfold lcount at 4 in Hcount. simpl in Hcount. lia.
Qed.

End BondStep.
