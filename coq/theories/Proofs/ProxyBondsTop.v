(** C14: bond conservation, top-level statements (MultiGraph along the derivation; collapsed graph
    when the expansion has no parallel bonds) and the witness that the collapse loses a bond when it has. *)
From Coq Require Import ZArith List Bool String Lia Permutation Arith.
From FGV Require Import Base.Util Base.UtilFacts Base.Bond Base.NX Base.NXFacts Base.NXMulti Model.Aam Model.Proxy
  Model.ProxyGen Spec.ProxySpec Spec.ProxyCheck Spec.ProxyGenSpec Spec.ProxyGenCheck Spec.ProxyBondSpec
  Proofs.ProxyGenUtil Proofs.ProxyGenFinish Proofs.ProxyGenProofs Proofs.ProxyBonds Proofs.ProxyBondsMain
  Proofs.ProxyCollapse.
Import ListNotations.
Open Scope string_scope.
Open Scope Z_scope.

Lemma cfg_loopfreeb_sound cfg : cfg_ok cfg -> cfg_loopfreeb cfg = true -> cfg_loopfree cfg.
Proof.
  intros [Hcore Hgs] H. unfold cfg_loopfreeb in H. apply andb_true_iff in H. destruct H as [H1 H2].
  rewrite forallb_forall in H1, H2. rewrite Forall_forall in Hcore, Hgs. split.
  - apply Forall_forall. intros c Hc. apply loopfreeb_sound; [|exact (H1 c Hc)].
    destruct (Hcore c Hc) as [[Hnd _] _]. exact Hnd.
  - apply Forall_forall. intros kg Hkg. apply Forall_forall. intros sg Hsg.
    specialize (H2 kg Hkg). rewrite forallb_forall in H2.
    apply loopfreeb_sound; [|exact (H2 sg Hsg)].
    specialize (Hgs kg Hkg). rewrite Forall_forall in Hgs. destruct (Hgs sg Hsg) as [[[Hnd _] _] _]. exact Hnd.
Qed.

Section Top.
Hypothesis H13 : C13_multi_statement.
Hypothesis Hcopy : mcopy_statement.
Hypothesis Hcopyb : mcopy_bonds_statement.

Lemma derives_pattern_ok gs g cs r :
  Forall (fun kg => Forall (pgraph_ok gs) (gr_graphs (snd kg))) gs ->
  derives gs g cs r -> pattern_ok gs g -> pattern_ok gs r.
Proof.
  intros Hgs. induction 1 as [g Hn|g sg g' cs r Hst Hd IH]; intros Hg; [exact Hg|].
  apply IH. destruct (step_child gs Hgs H13 Hcopy g sg g' Hg Hst) as [anchor [a [_ [_ [_ [Hg' _]]]]]]. exact Hg'.
Qed.

(* Along the derivation that leads to a result: the bonds of the result plus the bonds removed with
   nodes that were replaced by the empty pattern are the bonds of the core pattern and of the chosen
   patterns (nothing is removed when no chosen pattern is empty); and when the result has no
   parallel bonds, nx.Graph(multigraph) keeps its multiset of bond labels. *)
Theorem expansion_bonds cfg c cs r :
  cfg_ok cfg -> cfg_loopfree cfg -> In c (cfg_core cfg) ->
  derives (cfg_groups cfg) (pg_graph c) cs r ->
  bonds_conserved (pg_graph c) cs r
  /\ (no_parallel r -> Permutation (bonds (finish (cfg_aam cfg) r)) (mbonds r)).
Proof.
  intros [Hcore Hgs] [Hlc Hlg] Hc Hd.
  rewrite Forall_forall in Hcore, Hlc. pose proof (Hcore c Hc) as Hpc. pose proof (Hlc c Hc) as Hlfc.
  destruct (derivation_bonds (cfg_groups cfg) Hgs Hlg H13 Hcopy Hcopyb (pg_graph c) cs r Hd Hpc Hlfc) as [Hb Hlfr].
  split; [exact Hb|]. intros Hnp.
  apply (collapse_bonds (cfg_groups cfg)); [|exact Hlfr|exact Hnp].
  exact (derives_pattern_ok (cfg_groups cfg) (pg_graph c) cs r Hgs Hd Hpc).
Qed.

End Top.

(** * the collapse loses a bond when an expansion has parallel bonds *)

(* Proxy("C1{g}1", ProxyGroup("g", "C")): the core has two bonds between C and the group node; the only
   expansion has two parallel C-C bonds; nx.Graph(multigraph) keeps one *)
Definition collapse_core : mgraph :=
  [(0, (mkNA (Some "C") None (Some []) (Some false) None, [(1, [(0, Scalar 2); (1, Scalar 2)])]));
   (1, (mkNA (Some "#") None (Some ["g"]) (Some true) None, [(0, [(0, Scalar 2); (1, Scalar 2)])]))].
Definition collapse_cfg : config :=
  mkCfg [mkPG collapse_core [0]]
        [("g", mkGrp "g" [mkPG [(0, (mkNA (Some "C") None (Some []) (Some false) None, []))] [0]])] true.

Theorem collapse_refuted :
  cfg_hypb collapse_cfg = true /\ cfg_loopfreeb collapse_cfg = true
  /\ exists r, build_graphs (cfg_groups collapse_cfg) (mkPG collapse_core [0]) = GOk [r]
               /\ mbonds r = [Scalar 2; Scalar 2]
               /\ bonds (finish (cfg_aam collapse_cfg) r) = [Scalar 2].
Proof.
  split; [vm_compute; reflexivity|]. split; [vm_compute; reflexivity|].
  eexists. split; [vm_compute; reflexivity|]. split; vm_compute; reflexivity.
Qed.
