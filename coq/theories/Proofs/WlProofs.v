(** The WL hash of the model is invariant under renaming of node ids and reordering of the node
    and adjacency lists, for ANY digest function; hence so is mol_compare. *)
From Coq Require Import ZArith List Bool String Ascii Lia NArith Sorting.Permutation Sorting.Sorted.
From FGV Require Import Base.Util Base.UtilFacts Base.Bond Base.NX Base.NXFacts
  Model.Rdkit Model.Wl Spec.WlSpec.
Import ListNotations.
Open Scope Z_scope.
Open Scope list_scope.

(** * the order on strings is a total order *)

Lemma string_compare_trans_le : forall a b c : string,
  String.compare a b <> Gt -> String.compare b c <> Gt -> String.compare a c <> Gt.
Proof.
  induction a as [|x a IH]; intros [|y b] [|z c]; simpl; try congruence.
  unfold Ascii.compare.
  destruct (N.compare_spec (N_of_ascii x) (N_of_ascii y)) as [E1|L1|G1];
    destruct (N.compare_spec (N_of_ascii y) (N_of_ascii z)) as [E2|L2|G2];
    destruct (N.compare_spec (N_of_ascii x) (N_of_ascii z)) as [E3|L3|G3];
    try congruence; try lia.
  apply IH.
Qed.

Lemma string_leb_trans a b c : String.leb a b = true -> String.leb b c = true -> String.leb a c = true.
Proof.
  unfold String.leb. intros H1 H2.
  assert (H : String.compare a c <> Gt).
  { apply (string_compare_trans_le a b c).
    - destruct (String.compare a b); congruence.
    - destruct (String.compare b c); congruence. }
  destruct (String.compare a c); congruence.
Qed.

(** * insertion sort: the result depends only on the multiset *)

Section SortFacts.
  Context {A : Type}.
  Variable le : A -> A -> bool.
  Hypothesis le_total : forall a b, le a b = true \/ le b a = true.
  Hypothesis le_trans : forall a b c, le a b = true -> le b c = true -> le a c = true.

  Let R (a b : A) : Prop := le a b = true.

  Lemma insert_perm x l : Permutation (x :: l) (insert le x l).
  Proof.
    induction l as [|y t IH]; simpl; [apply Permutation_refl|].
    destruct (le x y); [apply Permutation_refl|].
    eapply perm_trans; [apply perm_swap|]. apply perm_skip. exact IH.
  Qed.

  Lemma isort_perm l : Permutation l (isort le l).
  Proof.
    induction l as [|x t IH]; simpl; [constructor|].
    eapply perm_trans; [apply perm_skip; exact IH|]. apply insert_perm.
  Qed.

  Lemma insert_sorted x l : StronglySorted R l -> StronglySorted R (insert le x l).
  Proof.
    induction 1 as [|y t Hs IH Hall]; simpl.
    - constructor; constructor.
    - destruct (le x y) eqn:E.
      + constructor; [constructor; assumption|]. constructor; [exact E|].
        rewrite Forall_forall in *. intros z Hz. apply (le_trans x y z); [exact E|apply Hall; exact Hz].
      + constructor; [exact IH|]. rewrite Forall_forall in *. intros z Hz.
        apply (Permutation_in _ (Permutation_sym (insert_perm x t))) in Hz. destruct Hz as [<-|Hz].
        * destruct (le_total x y) as [H|H]; [congruence|exact H].
        * apply Hall. exact Hz.
  Qed.

  Lemma isort_sorted l : StronglySorted R (isort le l).
  Proof. induction l as [|x t IH]; simpl; [constructor|apply insert_sorted; exact IH]. Qed.

  Lemma sorted_perm_eq : forall l l',
    StronglySorted R l -> StronglySorted R l' -> Permutation l l' ->
    (forall a b, In a l -> In b l -> le a b = true -> le b a = true -> a = b) -> l = l'.
  Proof.
    induction l as [|a t IH]; intros l' Hs Hs' Hp Hanti.
    - apply Permutation_nil in Hp. subst. reflexivity.
    - destruct l' as [|a' t']; [apply Permutation_sym, Permutation_nil in Hp; discriminate|].
      inversion Hs as [|? ? Hst Hall]; subst. inversion Hs' as [|? ? Hst' Hall']; subst.
      assert (Heq : a = a').
      { assert (Ha : In a (a' :: t')) by (apply (Permutation_in _ Hp); left; reflexivity).
        assert (Ha' : In a' (a :: t)) by (apply (Permutation_in _ (Permutation_sym Hp)); left; reflexivity).
        destruct Ha as [Ha|Ha]; [congruence|]. destruct Ha' as [Ha'|Ha']; [congruence|].
        rewrite Forall_forall in Hall, Hall'.
        apply Hanti; [left; reflexivity | right; exact Ha' | apply Hall; exact Ha' | apply Hall'; exact Ha]. }
      subst a'. f_equal. apply IH; try assumption.
      + apply Permutation_cons_inv in Hp. exact Hp.
      + intros x y Hx Hy. apply Hanti; right; assumption.
  Qed.

  Theorem isort_perm_eq l l' :
    Permutation l l' ->
    (forall a b, In a l -> In b l -> le a b = true -> le b a = true -> a = b) ->
    isort le l = isort le l'.
  Proof.
    intros Hp Hanti. apply sorted_perm_eq; try apply isort_sorted.
    - eapply perm_trans; [apply Permutation_sym, isort_perm|].
      eapply perm_trans; [exact Hp|apply isort_perm].
    - intros a b Ha Hb. apply Hanti; apply (Permutation_in _ (Permutation_sym (isort_perm l))); assumption.
  Qed.
End SortFacts.

Lemma isort_strings_perm (l l' : list string) :
  Permutation l l' -> isort String.leb l = isort String.leb l'.
Proof.
  intros Hp. apply isort_perm_eq; [apply String.leb_total | apply string_leb_trans | exact Hp |].
  intros a b _ _. apply String.leb_antisym.
Qed.

(** * Counter: depends only on the multiset of values *)

Lemma slookup_In {A} k (c : list (string * A)) a : slookup k c = Some a -> In (k, a) c.
Proof.
  induction c as [|[k' a'] t IH]; simpl; [discriminate|].
  destruct (String.eqb_spec k k') as [->|Hne]; [intros [= ->]; left; reflexivity | auto].
Qed.

Lemma NoDup_slookup {A} k a (c : list (string * A)) :
  NoDup (map fst c) -> In (k, a) c -> slookup k c = Some a.
Proof.
  induction c as [|[k' a'] t IH]; simpl; [tauto|]. intros Hnd [H|H].
  - inversion H; subst. rewrite String.eqb_refl. reflexivity.
  - inversion Hnd as [|? ? Hni Hnd']; subst. destruct (String.eqb_spec k k') as [->|Hne]; [|auto].
    exfalso. apply Hni. apply (in_map fst) in H. exact H.
Qed.

Lemma slookup_counter_add k c x :
  slookup x (counter_add k c) =
  if String.eqb x k then Some (match slookup k c with Some n => n + 1 | None => 1 end)
  else slookup x c.
Proof.
  induction c as [|[k' n] t IH]; cbn [counter_add slookup].
  - destruct (String.eqb x k); reflexivity.
  - destruct (String.eqb_spec k k') as [->|Hne]; cbn [slookup].
    + destruct (String.eqb_spec x k'); reflexivity.
    + rewrite IH. destruct (String.eqb_spec x k') as [->|Hx].
      * destruct (String.eqb_spec k' k); [congruence|reflexivity].
      * reflexivity.
Qed.

Lemma keys_counter_add k c :
  map fst (counter_add k c) = if existsb (String.eqb k) (map fst c) then map fst c else map fst c ++ [k].
Proof.
  induction c as [|[k' n] t IH]; cbn [counter_add map fst existsb]; [reflexivity|].
  destruct (String.eqb k k'); cbn [map fst orb]; [reflexivity|]. rewrite IH.
  destruct (existsb (String.eqb k) (map fst t)); reflexivity.
Qed.

Lemma NoDup_counter_add k c : NoDup (map fst c) -> NoDup (map fst (counter_add k c)).
Proof.
  intros H. rewrite keys_counter_add. destruct (existsb (String.eqb k) (map fst c)) eqn:E; [exact H|].
  assert (Hni : ~ In k (map fst c)).
  { intros Hin. assert (existsb (String.eqb k) (map fst c) = true); [|congruence].
    apply existsb_exists. exists k. split; [exact Hin|apply String.eqb_refl]. }
  clear E. induction (map fst c) as [|y t IH]; simpl.
  - constructor; [intros []|constructor].
  - inversion H; subst. constructor.
    + rewrite in_app_iff. simpl. intros [Hy|[Hy|[]]]; [contradiction|]. apply Hni. left. symmetry. exact Hy.
    + apply IH; [assumption|]. intros Hin. apply Hni. right. exact Hin.
Qed.

Lemma NoDup_counter_fold : forall l c,
  NoDup (map fst c) -> NoDup (map fst (fold_left (fun c k => counter_add k c) l c)).
Proof. induction l as [|k t IH]; simpl; intros c H; [exact H|]. apply IH. apply NoDup_counter_add. exact H. Qed.

Lemma slookup_counter_fold : forall l c x,
  slookup x (fold_left (fun c k => counter_add k c) l c) =
  match slookup x c, count_occ string_dec l x with
  | None, O => None
  | None, S m => Some (Z.of_nat (S m))
  | Some n, m => Some (n + Z.of_nat m)
  end.
Proof.
  induction l as [|k t IH]; intros c x; cbn [fold_left count_occ].
  - destruct (slookup x c) as [n|]; [f_equal; lia|reflexivity].
  - rewrite IH, slookup_counter_add. destruct (string_dec k x) as [->|Hne].
    + rewrite String.eqb_refl. destruct (slookup x c) as [n|]; f_equal; lia.
    + destruct (String.eqb_spec x k) as [->|_]; [congruence|reflexivity].
Qed.

Lemma slookup_counter l x :
  slookup x (counter l) =
  match count_occ string_dec l x with O => None | S m => Some (Z.of_nat (S m)) end.
Proof. unfold counter. rewrite slookup_counter_fold. reflexivity. Qed.

Lemma NoDup_counter l : NoDup (map fst (counter l)).
Proof. unfold counter. apply NoDup_counter_fold. constructor. Qed.

Lemma count_occ_perm (l l' : list string) x :
  Permutation l l' -> count_occ string_dec l x = count_occ string_dec l' x.
Proof.
  induction 1 as [|y l l' _ IH|y z l|l l' l'' _ IH1 _ IH2]; cbn [count_occ]; try congruence.
  - destruct (string_dec y x); congruence.
  - destruct (string_dec y x), (string_dec z x); reflexivity.
Qed.

Lemma assoc_perm {A} (c c' : list (string * A)) :
  NoDup (map fst c) -> NoDup (map fst c') -> (forall x, slookup x c = slookup x c') -> Permutation c c'.
Proof.
  intros H1 H2 Heq. apply NoDup_Permutation.
  - apply NoDup_map_inv in H1. exact H1.
  - apply NoDup_map_inv in H2. exact H2.
  - intros [k a]. split; intros Hin.
    + apply slookup_In. rewrite <- Heq. apply NoDup_slookup; assumption.
    + apply slookup_In. rewrite Heq. apply NoDup_slookup; assumption.
Qed.

Lemma counter_perm l l' : Permutation l l' -> Permutation (counter l) (counter l').
Proof.
  intros Hp. apply assoc_perm; try apply NoDup_counter.
  intros x. rewrite !slookup_counter, (count_occ_perm l l' x Hp). reflexivity.
Qed.

Lemma sorted_items_perm (c c' : list (string * Z)) :
  NoDup (map fst c) -> Permutation c c' -> sorted_items c = sorted_items c'.
Proof.
  intros Hnd Hp. unfold sorted_items. apply isort_perm_eq.
  - intros a b. apply String.leb_total.
  - intros a b d. apply string_leb_trans.
  - exact Hp.
  - intros [k1 n1] [k2 n2] Ha Hb H1 H2. cbn [fst] in H1, H2.
    pose proof (String.leb_antisym _ _ H1 H2) as ->.
    pose proof (NoDup_slookup _ _ _ Hnd Ha) as E1. pose proof (NoDup_slookup _ _ _ Hnd Hb) as E2. congruence.
Qed.

Lemma sorted_counter_perm l l' :
  Permutation l l' -> sorted_items (counter l) = sorted_items (counter l').
Proof. intros Hp. apply sorted_items_perm; [apply NoDup_counter | apply counter_perm; exact Hp]. Qed.

(** * isomorphic graphs: adjacency lists correspond up to order *)

Lemma NoDup_map_inj {A B} (f : A -> B) l x y :
  NoDup (map f l) -> In x l -> In y l -> f x = f y -> x = y.
Proof.
  induction l as [|a t IH]; simpl; intros Hnd Hx Hy Heq; [contradiction|].
  inversion Hnd as [|? ? Hni Hnd']; subst. destruct Hx as [->|Hx], Hy as [->|Hy]; auto.
  - exfalso. apply Hni. rewrite Heq. apply in_map. exact Hy.
  - exfalso. apply Hni. rewrite <- Heq. apply in_map. exact Hx.
Qed.

Lemma NoDup_map_on {A B} (f : A -> B) l :
  NoDup l -> (forall x y, In x l -> In y l -> f x = f y -> x = y) -> NoDup (map f l).
Proof.
  induction l as [|a t IH]; simpl; intros Hnd Hinj; [constructor|]. inversion Hnd; subst. constructor.
  - intros Hin. apply in_map_iff in Hin. destruct Hin as (y & Hy & Hin).
    assert (y = a) by (apply Hinj; auto). subst. contradiction.
  - apply IH; [assumption|]. intros x y Hx Hy. apply Hinj; auto.
Qed.

Section Iso.
  Variable f : Z -> Z.
  Variables g g' : graph.
  Hypothesis Hiso : iso_via f g g'.

  Lemma iso_wf : wf g. Proof. destruct Hiso as (H & _). exact H. Qed.
  Lemma iso_wf' : wf g'. Proof. destruct Hiso as (_ & H & _). exact H. Qed.
  Lemma iso_nodes : Permutation (nodes g') (map f (nodes g)).
  Proof. destruct Hiso as (_ & _ & H & _). exact H. Qed.
  Lemma iso_sym u : In u (nodes g) -> sym_of g' (f u) = sym_of g u.
  Proof. destruct Hiso as (_ & _ & _ & H & _). apply H. Qed.
  Lemma iso_edge u v : In u (nodes g) -> In v (nodes g) -> edge_label g' (f u) (f v) = edge_label g u v.
  Proof. destruct Hiso as (_ & _ & _ & _ & H). apply H. Qed.

  Lemma iso_inj u v : In u (nodes g) -> In v (nodes g) -> f u = f v -> u = v.
  Proof.
    apply NoDup_map_inj. apply (Permutation_NoDup iso_nodes). destruct iso_wf' as (H & _). exact H.
  Qed.

  Lemma iso_image w : In w (nodes g') -> exists u, In u (nodes g) /\ w = f u.
  Proof.
    intros H. apply (Permutation_in _ iso_nodes) in H. apply in_map_iff in H.
    destruct H as (u & <- & Hu). eauto.
  Qed.

  Lemma iso_node_in u : In u (nodes g) -> In (f u) (nodes g').
  Proof. intros H. apply (Permutation_in _ (Permutation_sym iso_nodes)). apply in_map. exact H. Qed.

  Lemma adj_nodes h u v l : wf h -> In (v, l) (adj h u) -> In u (nodes h) /\ In v (nodes h).
  Proof.
    intros Hwf Hin. apply (In_adj_edge_label h u v l Hwf) in Hin.
    destruct (wf_edge_nodes h u v l Hwf Hin) as (H1 & H2). split; apply has_node_In; assumption.
  Qed.

  Lemma iso_adj u :
    In u (nodes g) ->
    Permutation (adj g' (f u)) (map (fun x : Z * label => (f (fst x), snd x)) (adj g u)).
  Proof.
    intros Hu. pose proof iso_wf as Hwf. pose proof iso_wf' as Hwf'. apply NoDup_Permutation.
    - destruct Hwf' as (_ & H & _). specialize (H (f u)). apply NoDup_map_inv in H. exact H.
    - apply NoDup_map_inv with (f := fst). rewrite map_map. cbn [fst].
      rewrite <- (map_map fst f). apply NoDup_map_on.
      + destruct Hwf as (_ & H & _). apply H.
      + intros x y Hx Hy. apply in_map_iff in Hx. destruct Hx as ([x' lx] & <- & Hx).
        apply in_map_iff in Hy. destruct Hy as ([y' ly] & <- & Hy). cbn [fst].
        apply iso_inj; [apply (adj_nodes g u x' lx Hwf Hx) | apply (adj_nodes g u y' ly Hwf Hy)].
    - intros [w l]. split.
      + intros Hin. destruct (adj_nodes g' (f u) w l Hwf' Hin) as (_ & Hw).
        destruct (iso_image w Hw) as (v & Hv & ->).
        apply (In_adj_edge_label g' _ _ _ Hwf') in Hin. rewrite (iso_edge u v Hu Hv) in Hin.
        apply edge_label_In_adj in Hin. apply in_map_iff. exists (v, l). split; [reflexivity|exact Hin].
      + intros Hin. apply in_map_iff in Hin. destruct Hin as ([v l'] & [= <- <-] & Hin).
        destruct (adj_nodes g u v l' Hwf Hin) as (_ & Hv).
        apply (In_adj_edge_label g _ _ _ Hwf) in Hin. rewrite <- (iso_edge u v Hu Hv) in Hin.
        apply edge_label_In_adj. exact Hin.
  Qed.
End Iso.

(** * labels *)

Lemma alookup_map_key {A} (F : Z -> A) l u :
  In u l -> alookup u (map (fun n => (n, F n)) l) = Some (F u).
Proof.
  induction l as [|x t IH]; simpl; [tauto|]. destruct (Z.eqb_spec u x) as [->|Hne]; [reflexivity|].
  intros [H|H]; [congruence|auto].
Qed.

Lemma lab_of_step H g labels u :
  In u (nodes g) -> lab_of (wl_step H g labels) u = H (aggregate g labels u).
Proof.
  intros Hu. unfold lab_of, wl_step. rewrite (alookup_map_key (fun n => H (aggregate g labels n)) _ _ Hu).
  reflexivity.
Qed.

Lemma init_labels_list : forall l : list (Z * nattr),
  NoDup (map fst l) ->
  match init_labels l with
  | Some l0 => forall n d, In (n, d) l -> a_sym d = Some (lab_of l0 n)
  | None => exists n d, In (n, d) l /\ a_sym d = None
  end.
Proof.
  induction l as [|[n d] t IH]; intros Hnd; cbn [init_labels].
  - intros n d [].
  - cbn [map fst] in Hnd. inversion Hnd as [|? ? Hni Hnd']; subst. specialize (IH Hnd').
    destruct (a_sym d) as [s|] eqn:Es.
    + destruct (init_labels t) as [r|].
      * intros n' d' [[= <- <-]|Hin].
        -- unfold lab_of. cbn [alookup]. rewrite Z.eqb_refl. exact Es.
        -- unfold lab_of. cbn [alookup]. destruct (Z.eqb_spec n' n) as [->|Hne].
           ++ exfalso. apply Hni. apply (in_map fst) in Hin. exact Hin.
           ++ apply (IH n' d' Hin).
      * destruct IH as (n' & d' & Hin & Hs). exists n', d'. split; [right; exact Hin|exact Hs].
    + exists n, d. split; [left; reflexivity|exact Es].
Qed.

Lemma sym_of_entry g n a ad : NoDup (nodes g) -> In (n, (a, ad)) g -> sym_of g n = a_sym a.
Proof.
  intros Hnd Hin. unfold sym_of, node_attr. rewrite (NoDup_alookup n (a, ad) g Hnd Hin). reflexivity.
Qed.

Lemma In_nodes_entry g n : In n (nodes g) -> exists a ad, In (n, (a, ad)) g.
Proof.
  unfold nodes. intros H. apply in_map_iff in H. destruct H as ([n' [a ad]] & <- & H). eauto.
Qed.

Lemma init_labels_graph g :
  NoDup (nodes g) ->
  match init_labels (nodes_data g) with
  | Some l0 => forall u, In u (nodes g) -> sym_of g u = Some (lab_of l0 u)
  | None => exists u, In u (nodes g) /\ sym_of g u = None
  end.
Proof.
  intros Hnd.
  assert (Hnd2 : NoDup (map fst (nodes_data g))).
  { unfold nodes_data. rewrite map_map. erewrite map_ext; [exact Hnd|]. intros [n [a ad]]. reflexivity. }
  pose proof (init_labels_list (nodes_data g) Hnd2) as H.
  destruct (init_labels (nodes_data g)) as [l0|].
  - intros u Hu. destruct (In_nodes_entry g u Hu) as (a & ad & Hin).
    rewrite (sym_of_entry g u a ad Hnd Hin). apply H. unfold nodes_data. apply in_map_iff.
    exists (u, (a, ad)). split; [reflexivity|exact Hin].
  - destruct H as (n & d & Hin & Hs). unfold nodes_data in Hin. apply in_map_iff in Hin.
    destruct Hin as ([n' [a ad]] & [= -> ->] & Hin). exists n. split.
    + unfold nodes. apply in_map_iff. exists (n, (d, ad)). split; [reflexivity|exact Hin].
    + rewrite (sym_of_entry g n d ad Hnd Hin). exact Hs.
Qed.

Section IsoLabels.
  Variable H : string -> string.
  Variable f : Z -> Z.
  Variables g g' : graph.
  Hypothesis Hiso : iso_via f g g'.

  Definition lab_rel (labels labels' : list (Z * string)) : Prop :=
    forall u, In u (nodes g) -> lab_of labels' (f u) = lab_of labels u.

  Lemma aggregate_iso labels labels' u :
    lab_rel labels labels' -> In u (nodes g) -> aggregate g' labels' (f u) = aggregate g labels u.
  Proof.
    intros Hrel Hu. unfold aggregate. rewrite (Hrel u Hu). f_equal. f_equal.
    apply isort_strings_perm.
    eapply perm_trans; [apply Permutation_map; apply (iso_adj f g g' Hiso u Hu)|].
    rewrite map_map. apply Permutation_refl'. apply map_ext_in. intros [v l] Hin. cbn [fst snd].
    rewrite (Hrel v); [reflexivity|]. apply (adj_nodes g u v l (iso_wf f g g' Hiso) Hin).
  Qed.

  Lemma step_rel labels labels' :
    lab_rel labels labels' -> lab_rel (wl_step H g labels) (wl_step H g' labels').
  Proof.
    intros Hrel u Hu. rewrite lab_of_step by (apply (iso_node_in f g g' Hiso); exact Hu).
    rewrite lab_of_step by exact Hu. f_equal. apply aggregate_iso; assumption.
  Qed.

  Lemma step_values_perm labels labels' :
    lab_rel labels labels' ->
    Permutation (map snd (wl_step H g labels)) (map snd (wl_step H g' labels')).
  Proof.
    intros Hrel. unfold wl_step. rewrite !map_map. cbn [snd].
    apply Permutation_sym.
    eapply perm_trans; [apply Permutation_map; apply (iso_nodes f g g' Hiso)|].
    rewrite map_map. apply Permutation_refl'. apply map_ext_in. intros u Hu. f_equal.
    apply aggregate_iso; assumption.
  Qed.

  Lemma wl_iter_iso : forall k labels labels' acc,
    lab_rel labels labels' -> wl_iter H g k labels acc = wl_iter H g' k labels' acc.
  Proof.
    induction k as [|k IH]; intros labels labels' acc Hrel; cbn [wl_iter]; [reflexivity|].
    rewrite (sorted_counter_perm _ _ (step_values_perm labels labels' Hrel)).
    apply IH. apply step_rel. exact Hrel.
  Qed.

  Theorem wl_invariant_via iterations : wl_hash H g iterations = wl_hash H g' iterations.
  Proof.
    unfold wl_hash. destruct (iterations <=? 0); [reflexivity|].
    pose proof (iso_wf f g g' Hiso) as (Hnd & _). pose proof (iso_wf' f g g' Hiso) as (Hnd' & _).
    pose proof (init_labels_graph g Hnd) as Hg. pose proof (init_labels_graph g' Hnd') as Hg'.
    destruct (init_labels (nodes_data g)) as [l0|]; destruct (init_labels (nodes_data g')) as [l0'|].
    - f_equal. f_equal. f_equal. apply wl_iter_iso. intros u Hu.
      pose proof (Hg u Hu) as E1. pose proof (Hg' (f u) (iso_node_in f g g' Hiso u Hu)) as E2.
      rewrite (iso_sym f g g' Hiso u Hu) in E2. congruence.
    - exfalso. destruct Hg' as (w & Hw & Hs). destruct (iso_image f g g' Hiso w Hw) as (u & Hu & ->).
      rewrite (iso_sym f g g' Hiso u Hu), (Hg u Hu) in Hs. discriminate.
    - exfalso. destruct Hg as (u & Hu & Hs).
      pose proof (Hg' (f u) (iso_node_in f g g' Hiso u Hu)) as E. rewrite (iso_sym f g g' Hiso u Hu) in E. congruence.
    - reflexivity.
  Qed.
End IsoLabels.

(** * the theorems *)

Theorem wl_invariant (H : string -> string) g g' iterations :
  isomorphic g g' -> wl_hash H g iterations = wl_hash H g' iterations.
Proof. intros (f & Hiso). exact (wl_invariant_via H f g g' Hiso iterations). Qed.

Lemma compare_loop_invariant (H : string -> string) th : forall cands cands',
  Forall2 isomorphic cands cands' -> compare_loop H th cands = compare_loop H th cands'.
Proof.
  induction 1 as [|c c' t t' Hc _ IH]; cbn [compare_loop]; [reflexivity|].
  rewrite (wl_invariant H c c' 3 Hc), IH. reflexivity.
Qed.

Theorem mol_compare_invariant (H : string -> string) cands cands' target target' :
  Forall2 isomorphic cands cands' -> isomorphic target target' ->
  mol_compare H cands target = mol_compare H cands' target'.
Proof.
  intros Hc Ht. unfold mol_compare. rewrite (wl_invariant H target target' 3 Ht).
  destruct (wl_hash H target' 3) as [th|e]; cbn [bind]; [|reflexivity].
  apply compare_loop_invariant. exact Hc.
Qed.

(** * the default of [lab_of] is never used on a well-formed graph: at every iteration the label
      dict has exactly the graph's nodes as keys, and every neighbour of a node is a node *)

Lemma init_labels_keys : forall l l0, init_labels l = Some l0 -> map fst l0 = map fst l.
Proof.
  induction l as [|[n d] t IH]; intros l0; cbn [init_labels]; [intros [= <-]; reflexivity|].
  destruct (a_sym d); [|discriminate]. destruct (init_labels t) as [r|]; [|discriminate].
  intros [= <-]. cbn [map fst]. f_equal. apply IH. reflexivity.
Qed.

Lemma wl_step_keys H g labels : map fst (wl_step H g labels) = nodes g.
Proof. unfold wl_step. rewrite map_map. cbn [fst]. apply map_id. Qed.

Definition labels_cover (g : graph) (labels : list (Z * string)) : Prop :=
  forall u, In u (nodes g) ->
    alookup u labels <> None /\ forall v l, In (v, l) (adj g u) -> alookup v labels <> None.

Lemma keys_cover g labels : wf g -> map fst labels = nodes g -> labels_cover g labels.
Proof.
  intros Hwf Hk u Hu.
  assert (Hall : forall w, In w (nodes g) -> alookup w labels <> None).
  { intros w Hw E. apply alookup_None in E. apply E. unfold akeys. rewrite Hk. exact Hw. }
  split; [apply Hall; exact Hu|]. intros v l Hin. apply Hall. apply (adj_nodes g u v l Hwf Hin).
Qed.

Theorem wl_lookups_total H g l0 :
  wf g -> init_labels (nodes_data g) = Some l0 ->
  forall k, labels_cover g (Nat.iter k (wl_step H g) l0).
Proof.
  intros Hwf Hinit k. apply keys_cover; [exact Hwf|]. destruct k as [|k]; cbn [Nat.iter nat_rect].
  - rewrite (init_labels_keys _ _ Hinit). unfold nodes_data, nodes. rewrite map_map.
    apply map_ext. intros [n [a ad]]. reflexivity.
  - apply wl_step_keys.
Qed.

(** * consequences in the words of the property *)

Lemma iso_refl g : wf g -> isomorphic g g.
Proof.
  intros Hwf. exists (fun u => u). split; [exact Hwf|]. split; [exact Hwf|].
  split; [rewrite map_id; apply Permutation_refl|]. split; intros; reflexivity.
Qed.

(* a renumbered / reordered copy of the target is reported as structurally equal *)
Theorem mol_compare_copy (H : string -> string) g g' h :
  isomorphic g g' -> wl_hash H g 3 = Ok h -> mol_compare H [g'] g = Ok [true].
Proof.
  intros Hiso Hh. unfold mol_compare. rewrite Hh. cbn [bind compare_loop].
  rewrite <- (wl_invariant H g g' 3 Hiso), Hh. cbn [bind]. rewrite String.eqb_refl. reflexivity.
Qed.
