(** Soundness of the decidable C08 checker (Spec/PermuteCheck.v) and consequences of admissibility. *)
From Coq Require Import ZArith List Bool String Lia Permutation.
From FGV Require Import Base.Util Base.UtilFacts Base.Sym Model.Permute Model.MapMatrix Spec.PermuteSpec
     Spec.PermuteCheck Proofs.PermsFacts Proofs.GenFacts Proofs.PermuteProofs.
Import ListNotations.
Open Scope Z_scope.
Open Scope list_scope.

(** * consequences of admissibility *)

Lemma nothing_count_nonneg c P ts : 0 <= nothing_count c P ts.
Proof. unfold nothing_count. lia. Qed.

Lemma nothing_count_In c P ts : In (c, -1) (combine P ts) -> 1 <= nothing_count c P ts.
Proof.
  intros H. unfold nothing_count.
  assert (Hin : In (c, -1) (filter (fun pt : string * Z => String.eqb c (fst pt) && (snd pt =? -1)) (combine P ts))).
  { apply filter_In. split; [exact H|]. simpl. rewrite String.eqb_refl. reflexivity. }
  destruct (filter _ (combine P ts)); [destruct Hin | simpl; lia].
Qed.

Lemma nothing_count_notin c P ts : ~ In c P -> nothing_count c P ts = 0.
Proof.
  intros H. unfold nothing_count.
  replace (filter _ (combine P ts)) with (@nil (string * Z)); [reflexivity|].
  symmetry. revert ts. induction P as [|q P IH]; intros ts; [reflexivity|]. destruct ts as [|t ts]; [reflexivity|].
  simpl. destruct (String.eqb_spec c q) as [->|Hne]; [exfalso; apply H; left; reflexivity|].
  simpl. apply IH. intros Hin. apply H. right. exact Hin.
Qed.

Lemma wild_room_nonneg w CM P S : 0 <= wild_room w CM P S.
Proof. unfold wild_room. lia. Qed.

Lemma sym_eqb_opt_dec (W : option string) (c : string) : {W = Some c} + {W <> Some c}.
Proof.
  destruct (sym_eqb_opt W c) eqn:E; [left; apply sym_eqb_opt_true | right; apply sym_eqb_opt_false]; exact E.
Qed.

(* "nothing" is used only for symbols listed in can_map_to_nothing *)
Lemma admissible_nothing_cmtn W CM P S ts c :
  admissible W CM P S ts -> In (c, -1) (combine P ts) -> In c CM.
Proof.
  intros [A1 A2 A3 A4] Hin. apply nothing_count_In in Hin.
  destruct (sym_eqb_opt_dec W c) as [HW|HW].
  - specialize (A4 c HW). destruct (in_dec string_dec c CM); [assumption|lia].
  - specialize (A3 c HW). destruct (in_dec string_dec c CM); [assumption|lia].
Qed.

(* a structure position holding the wildcard symbol is only ever the target of a wildcard position *)
Lemma admissible_struct_wildcard W CM P S ts q t w :
  admissible W CM P S ts -> In (q, t) (combine P ts) -> 0 <= t ->
  W = Some w -> nth_error S (Z.to_nat t) = Some w -> q = w.
Proof.
  intros [A1 _ _ _] Hin Ht HW Hs. pose proof (Forall2_combine_In _ _ _ _ _ A1 Hin) as Hok.
  destruct Hok as [->|(_ & [Hq|Hq])]; [lia | congruence | congruence].
Qed.

(** * reflection of the boolean predicates *)

Lemma sym_mem_In c l : sym_mem c l = true <-> In c l.
Proof.
  unfold sym_mem. rewrite existsb_exists. split.
  - intros (x & Hx & He). apply String.eqb_eq in He. subst. exact Hx.
  - intros H. exists c. split; [exact H | apply String.eqb_refl].
Qed.

Lemma sym_mem_in_dec {A} c l (x y : A) :
  (if sym_mem c l then x else y) = (if in_dec string_dec c l then x else y).
Proof.
  destruct (in_dec string_dec c l) as [H|H].
  - apply sym_mem_In in H. rewrite H. reflexivity.
  - destruct (sym_mem c l) eqn:E; [|reflexivity]. apply sym_mem_In in E. contradiction.
Qed.

Lemma nth_symb_true S t p : nth_symb S t p = true <-> nth_error S (Z.to_nat t) = Some p.
Proof.
  unfold nth_symb. destruct (nth_error S (Z.to_nat t)) as [x|]; [|split; discriminate].
  rewrite String.eqb_eq. split; [intros ->; reflexivity | intros [= ->]; reflexivity].
Qed.

Lemma target_okb_true W S p t : target_okb W S p t = true <-> target_ok W S p t.
Proof.
  unfold target_okb, target_ok.
  rewrite orb_true_iff, !andb_true_iff, orb_true_iff, Z.eqb_eq, Z.leb_le, Z.ltb_lt, sym_eqb_opt_true, nth_symb_true.
  tauto.
Qed.

Lemma all2b_Forall2 {A B} (f : A -> B -> bool) (R : A -> B -> Prop) :
  (forall a b, f a b = true <-> R a b) -> forall l l', all2b f l l' = true <-> Forall2 R l l'.
Proof.
  intros Hf. induction l as [|a l IH]; intros [|b l']; simpl.
  - split; [constructor|reflexivity].
  - split; [discriminate | intros H; inversion H].
  - split; [discriminate | intros H; inversion H].
  - rewrite andb_true_iff, Hf, IH. split; [intros [H1 H2]; constructor; auto | intros H; inversion H; auto].
Qed.

Lemma admissibleb_true W CM P S ts : admissibleb W CM P S ts = true <-> admissible W CM P S ts.
Proof.
  unfold admissibleb. rewrite !andb_true_iff. rewrite (all2b_Forall2 _ _ (target_okb_true W S)).
  rewrite nodupb_NoDup, forallb_forall. split.
  - intros ((H1 & H2) & H3). constructor; [exact H1 | exact H2 | |].
    + intros c HW. destruct (in_dec string_dec c P) as [Hin|Hin].
      * specialize (H3 c Hin). unfold count_okb in H3. apply sym_eqb_opt_false in HW. rewrite HW in H3.
        rewrite sym_mem_in_dec in H3. apply Z.eqb_eq in H3. exact H3.
      * rewrite (nothing_count_notin c P ts Hin). destruct (in_dec string_dec c CM); [|reflexivity].
        unfold shortage. rewrite !count_sym_cnt. rewrite (cnt_notin c P Hin). lia.
    + intros w HW. destruct (in_dec string_dec w P) as [Hin|Hin].
      * specialize (H3 w Hin). unfold count_okb in H3. apply sym_eqb_opt_true in HW. rewrite HW in H3.
        rewrite sym_mem_in_dec in H3. apply Z.leb_le in H3. exact H3.
      * rewrite (nothing_count_notin w P ts Hin). pose proof (wild_room_nonneg w CM P S).
        destruct (in_dec string_dec w CM); lia.
  - intros [A1 A2 A3 A4]. split; [split; assumption|]. intros c _. unfold count_okb.
    rewrite !sym_mem_in_dec. destruct (sym_eqb_opt W c) eqn:E.
    + apply Z.leb_le. apply A4. apply sym_eqb_opt_true. exact E.
    + apply Z.eqb_eq. apply A3. apply sym_eqb_opt_false. exact E.
Qed.

Lemma nodup_mapsb_NoDup l : nodup_mapsb l = true -> NoDup l.
Proof.
  induction l as [|x t IH]; simpl; [constructor|]. rewrite andb_true_iff, negb_true_iff. intros [H1 H2].
  constructor; [|auto]. intros Hin. apply existsb_zz_In in Hin. congruence.
Qed.

(** * every admissible target list is among the enumerated candidates *)

Lemma product_In : forall opts ts, Forall2 (fun o t => In t o) opts ts -> In ts (product opts).
Proof.
  induction 1 as [|o t opts ts Hot H IH]; simpl; [auto|].
  apply in_flat_map. exists t. split; [exact Hot|]. apply in_map. exact IH.
Qed.

Lemma Forall2_impl_combine {A B} (R R' : A -> B -> Prop) l l' :
  (forall a b, In (a, b) (combine l l') -> R a b -> R' a b) -> Forall2 R l l' -> Forall2 R' l l'.
Proof.
  intros Himp H. induction H as [|a b l l' Hab H IH]; constructor.
  - apply Himp; simpl; auto.
  - apply IH. intros a' b' Hin. apply Himp. simpl. auto.
Qed.

Lemma Forall2_map_l {A B C} (R : C -> B -> Prop) (f : A -> C) l l' :
  Forall2 (fun a b => R (f a) b) l l' -> Forall2 R (map f l) l'.
Proof. induction 1; simpl; constructor; auto. Qed.

Lemma candidates_complete W CM P S ts : admissible W CM P S ts -> In ts (candidates W CM P S).
Proof.
  intros Hadm. unfold candidates. apply product_In. apply Forall2_map_l.
  pose proof (adm_targets _ _ _ _ _ Hadm) as HF. revert HF. apply Forall2_impl_combine.
  intros q t Hin Hok. unfold options. apply in_or_app. destruct Hok as [->|((H0 & H1) & Hs)].
  - left. pose proof (admissible_nothing_cmtn _ _ _ _ _ _ Hadm Hin) as Hc. apply sym_mem_In in Hc. rewrite Hc.
    left. reflexivity.
  - right. apply filter_In. split.
    + apply in_map_iff. exists (Z.to_nat t). split; [lia|]. apply in_seq. lia.
    + apply orb_true_iff. destruct Hs as [Hs|Hs]; [left; apply sym_eqb_opt_true | right; apply nth_symb_true]; exact Hs.
Qed.

(** * soundness of the checker *)

Theorem permute_sound_okb_sound mp p s out :
  permute_sound_okb mp p s out = true ->
  (forall a, In a out -> permute_spec mp p s a) /\ NoDup out.
Proof.
  unfold permute_sound_okb. destruct p as [|p0 pt].
  - destruct out; [|discriminate]. intros _. split; [intros a []|constructor].
  - rewrite andb_true_iff, forallb_forall. intros (H1 & H2). split; [|apply nodup_mapsb_NoDup; exact H2].
    intros a Ha. specialize (H1 a Ha). apply andb_true_iff in H1. destruct H1 as (He & Hadm).
    apply list_zz_eqb_eq in He. apply admissibleb_true in Hadm.
    split; [discriminate|]. exists (map snd a). split; [exact He | exact Hadm].
Qed.

Theorem permute_okb_sound mp p s out :
  permute_okb mp p s out = true ->
  (forall a, In a out <-> permute_spec mp p s a) /\ NoDup out.
Proof.
  unfold permute_okb. rewrite andb_true_iff. intros (Hs & Hc).
  destruct (permute_sound_okb_sound _ _ _ _ Hs) as (H1 & H2). split; [|exact H2].
  intros a. split; [apply H1|]. intros (Hne & ts & -> & Hadm).
  unfold permute_complete_okb in Hc. destruct p as [|p0 pt]; [congruence|].
  rewrite forallb_forall in Hc. specialize (Hc ts (candidates_complete _ _ _ _ _ Hadm)).
  apply admissibleb_true in Hadm. rewrite Hadm in Hc. simpl in Hc. apply existsb_zz_In in Hc. exact Hc.
Qed.

(* an output accepted by the checker is, as a set, the model's result *)
Corollary permute_okb_model mp p s out :
  permute_okb mp p s out = true -> forall a, In a out <-> In a (permute mp p s).
Proof. intros H a. rewrite permute_In. apply (permute_okb_sound _ _ _ _ H). Qed.

(** * the two consequences, phrased on the mapper's results *)

Lemma combine_nth_error {A B} (l : list A) (l' : list B) k a b :
  nth_error l k = Some a -> nth_error l' k = Some b -> In (a, b) (combine l l').
Proof.
  revert l l'. induction k as [|k IH]; intros [|x l] [|y l']; simpl; try discriminate.
  - intros [= ->] [= ->]. left. reflexivity.
  - intros H1 H2. right. apply IH; assumption.
Qed.

Lemma permute_result_position mp p s a i t :
  In a (permute mp p s) -> In (i, t) a ->
  exists ts q, a = enumerate ts /\
    admissible (option_map (lw (m_ignore_case mp)) (m_wildcard mp)) (map (lw (m_ignore_case mp)) (m_cmtn mp))
               (map (lw (m_ignore_case mp)) p) (map (lw (m_ignore_case mp)) s) ts /\
    0 <= i /\ nth_error (map (lw (m_ignore_case mp)) p) (Z.to_nat i) = Some q /\
    In (q, t) (combine (map (lw (m_ignore_case mp)) p) ts).
Proof.
  intros Ha Hin. apply permute_In in Ha. destruct Ha as (_ & ts & -> & Hadm).
  apply enumerate_In in Hin. destruct Hin as (Hi & Hn).
  pose proof (Forall2_length _ _ _ (adm_targets _ _ _ _ _ Hadm)) as Hlen.
  destruct (nth_error (map (lw (m_ignore_case mp)) p) (Z.to_nat i)) as [q|] eqn:E.
  - exists ts, q. split; [reflexivity|]. split; [exact Hadm|]. split; [exact Hi|]. split; [reflexivity|].
    apply (combine_nth_error _ _ _ _ _ E Hn).
  - exfalso. apply nth_error_None in E. assert (Z.to_nat i < List.length ts)%nat by (apply nth_error_Some; congruence). lia.
Qed.

(* "nothing" (-1) is only ever assigned to a pattern position whose symbol may map to nothing *)
Theorem permute_nothing_cmtn mp p s a i :
  In a (permute mp p s) -> In (i, -1) a ->
  exists q, nth_error (map (lw (m_ignore_case mp)) p) (Z.to_nat i) = Some q /\
            In q (map (lw (m_ignore_case mp)) (m_cmtn mp)).
Proof.
  intros Ha Hin. destruct (permute_result_position _ _ _ _ _ _ Ha Hin) as (ts & q & _ & Hadm & _ & Hq & Hc).
  exists q. split; [exact Hq|]. apply (admissible_nothing_cmtn _ _ _ _ _ _ Hadm Hc).
Qed.

(* a structure position that holds the wildcard symbol is matched only by a wildcard position of
   the pattern: the structure-side wildcard never matches a concrete pattern symbol *)
Theorem permute_struct_wildcard mp p s a i j w :
  In a (permute mp p s) -> In (i, j) a -> 0 <= j ->
  option_map (lw (m_ignore_case mp)) (m_wildcard mp) = Some w ->
  nth_error (map (lw (m_ignore_case mp)) s) (Z.to_nat j) = Some w ->
  nth_error (map (lw (m_ignore_case mp)) p) (Z.to_nat i) = Some w.
Proof.
  intros Ha Hin Hj HW Hs. destruct (permute_result_position _ _ _ _ _ _ Ha Hin) as (ts & q & _ & Hadm & _ & Hq & Hc).
  rewrite Hq. f_equal. apply (admissible_struct_wildcard _ _ _ _ _ _ _ _ Hadm Hc Hj HW Hs).
Qed.
