(** C18, periodic table: the table read from fgutils/chem/ps.py equals the hand-written reference,
    and the two derived dictionaries are inverse bijections that agree with the reference. *)
From Coq Require Import ZArith List Bool String Lia.
From FGV Require Import Base.Util Base.UtilFacts Base.Bond Base.NX Gen.PeriodicTable
  Model.Torch Spec.PeriodicRef.
Import ListNotations.
Open Scope Z_scope.

(** the generated table is the reference table, all 118 elements, in order *)
Lemma ps_table_ok : atomic_data_src = ps_reference.
Proof. vm_compute. reflexivity. Qed.

Lemma ps_reference_length : List.length ps_reference = 118%nat.
Proof. vm_compute. reflexivity. Qed.

Definition swap_ns (p : Z * string) : string * Z := (snd p, fst p).

(* the dictionaries the code derives are the reference columns (no entry lost or reordered) *)
Lemma atomic_sym2num_ref : atomic_sym2num = map swap_ns ps_reference.
Proof. vm_compute. reflexivity. Qed.

Lemma atomic_num2sym_ref : atomic_num2sym = ps_reference.
Proof. vm_compute. reflexivity. Qed.

(* keep [simpl] / [cbn] from unfolding the 118-entry tables in later proofs *)
Global Opaque atomic_sym2num atomic_num2sym atomic_data ps_reference.

(** string-keyed lookups *)

Fixpoint smem (s : string) (l : list string) : bool :=
  match l with [] => false | x :: t => String.eqb s x || smem s t end.
Fixpoint snodupb (l : list string) : bool :=
  match l with [] => true | x :: t => negb (smem x t) && snodupb t end.

Lemma smem_In s l : smem s l = true <-> In s l.
Proof.
  induction l as [|x t IH]; simpl; [split; [discriminate|tauto]|].
  rewrite orb_true_iff, IH, String.eqb_eq. split; intros [H|H]; auto.
Qed.

Lemma snodupb_NoDup l : snodupb l = true -> NoDup l.
Proof.
  induction l as [|x t IH]; simpl; [constructor|].
  rewrite andb_true_iff, negb_true_iff. intros [H1 H2]. constructor; [|auto].
  intros Hin. apply smem_In in Hin. congruence.
Qed.

Lemma ref_num_of_In s z l : ref_num_of s l = Some z -> In (z, s) l.
Proof.
  induction l as [|[z' s'] t IH]; simpl; [discriminate|].
  destruct (String.eqb_spec s s') as [->|Hne]; [intros [= ->]; auto | auto].
Qed.

Lemma In_ref_num_of s z l : NoDup (map snd l) -> In (z, s) l -> ref_num_of s l = Some z.
Proof.
  induction l as [|[z' s'] t IH]; simpl; [tauto|]. intros Hnd [H|H].
  - inversion H; subst. rewrite String.eqb_refl. reflexivity.
  - inversion Hnd as [|? ? Hni Hnd']; subst.
    destruct (String.eqb_spec s s') as [->|Hne]; [|auto].
    exfalso. apply Hni. apply (in_map snd) in H. exact H.
Qed.

Lemma ref_sym_of_alookup z l : ref_sym_of z l = alookup z l.
Proof. induction l as [|[z' s'] t IH]; simpl; [reflexivity|]. rewrite IH. reflexivity. Qed.

Lemma slookup_swap s l : slookup s (map swap_ns l) = ref_num_of s l.
Proof. induction l as [|[z' s'] t IH]; simpl; [reflexivity|]. rewrite IH. reflexivity. Qed.

Lemma ref_nodup_num : NoDup (map fst ps_reference).
Proof. apply nodupb_NoDup. vm_compute. reflexivity. Qed.

Lemma ref_nodup_sym : NoDup (map snd ps_reference).
Proof. apply snodupb_NoDup. vm_compute. reflexivity. Qed.

(** atomic numbers used as node features agree with the periodic table, both directions *)
Lemma sym2num_ref s : slookup s atomic_sym2num = ref_atomic_number s.
Proof. rewrite atomic_sym2num_ref. apply slookup_swap. Qed.

Lemma num2sym_ref z : alookup z atomic_num2sym = ref_symbol z.
Proof. rewrite atomic_num2sym_ref. unfold ref_symbol. symmetry. apply ref_sym_of_alookup. Qed.

(** the reference functions are inverse bijections *)
Lemma ref_inverse s z : ref_atomic_number s = Some z <-> ref_symbol z = Some s.
Proof.
  unfold ref_atomic_number, ref_symbol. rewrite ref_sym_of_alookup. split; intros H.
  - apply ref_num_of_In in H. apply NoDup_alookup; [exact ref_nodup_num | exact H].
  - apply alookup_In in H. apply In_ref_num_of; [exact ref_nodup_sym | exact H].
Qed.

(** ... hence so are the dictionaries of the code *)
Theorem sym2num_num2sym s z :
  slookup s atomic_sym2num = Some z <-> alookup z atomic_num2sym = Some s.
Proof. rewrite sym2num_ref, num2sym_ref. apply ref_inverse. Qed.

Lemma opaque_tables_still_compute : List.length atomic_num2sym = 118%nat.
Proof. vm_compute. reflexivity. Qed.

Lemma ref_symbol_range z s : ref_symbol z = Some s -> 1 <= z <= 118.
Proof.
  unfold ref_symbol. rewrite ref_sym_of_alookup. intros H. apply alookup_Some_key in H.
  assert (Hall : forallb (fun k => (1 <=? k) && (k <=? 118)) (akeys ps_reference) = true)
    by (vm_compute; reflexivity).
  rewrite forallb_forall in Hall. specialize (Hall _ H). lia.
Qed.

Lemma ref_symbol_total z : 1 <= z <= 118 -> exists s, ref_symbol z = Some s.
Proof.
  intros Hz. unfold ref_symbol. rewrite ref_sym_of_alookup. apply In_alookup.
  assert (Hk : akeys ps_reference = map (fun i => Z.of_nat (S i)) (seq 0 118)) by (vm_compute; reflexivity).
  rewrite Hk. apply in_map_iff. exists (Z.to_nat (z - 1)). split; [lia|]. apply in_seq. lia.
Qed.
