(** Further characterisation lemmas for the networkx.Graph model (Base/NX.v), independent of
    any FGUtils function: remove_edge, folds of add_node / add_edge (add_nodes_from,
    add_edges_from, and the has_edge-guarded variant), and Graph.copy(). *)
From Coq Require Import ZArith List Bool String Lia.
From FGV Require Import Base.Util Base.UtilFacts Base.Bond Base.NX Base.NXFacts.
Import ListNotations.
Open Scope Z_scope.

(** * del_adj / remove_edge *)

Lemma alookup_del_adj g u v m :
  alookup m (del_adj g u v) =
  if m =? u then option_map (fun '(a, ad) => (a, adel v ad)) (alookup u g) else alookup m g.
Proof.
  unfold del_adj. destruct (alookup u g) as [[a ad]|] eqn:E.
  - rewrite alookup_aset. reflexivity.
  - destruct (Z.eqb_spec m u) as [->|H]; [rewrite E; reflexivity|reflexivity].
Qed.

Lemma node_attr_del_adj g u v m : node_attr (del_adj g u v) m = node_attr g m.
Proof.
  unfold node_attr. rewrite alookup_del_adj. destruct (Z.eqb_spec m u) as [->|H]; [|reflexivity].
  destruct (alookup u g) as [[a ad]|]; reflexivity.
Qed.

Lemma has_node_del_adj g u v m : has_node (del_adj g u v) m = has_node g m.
Proof.
  unfold has_node. rewrite alookup_del_adj. destruct (Z.eqb_spec m u) as [->|H]; [|reflexivity].
  destruct (alookup u g) as [[a ad]|]; reflexivity.
Qed.

Lemma adj_del_adj g u v m : adj (del_adj g u v) m = if m =? u then adel v (adj g u) else adj g m.
Proof.
  unfold adj. rewrite alookup_del_adj. destruct (Z.eqb_spec m u) as [->|H]; [|reflexivity].
  destruct (alookup u g) as [[a ad]|]; reflexivity.
Qed.

Lemma nodes_del_adj g u v : nodes (del_adj g u v) = nodes g.
Proof.
  unfold del_adj, nodes. destruct (alookup u g) as [[a ad]|] eqn:E; [|reflexivity].
  eapply map_fst_aset_present. exact E.
Qed.

Lemma edge_label_del_adj g u v x y :
  edge_label (del_adj g u v) x y = if (x =? u) && (y =? v) then None else edge_label g x y.
Proof.
  unfold edge_label. rewrite adj_del_adj. destruct (Z.eqb_spec x u) as [->|H]; simpl; [|reflexivity].
  rewrite alookup_adel. reflexivity.
Qed.

(* an unordered pair test: {x, y} = {u, v} *)
Definition ematch (x y u v : Z) : bool := ((x =? u) && (y =? v)) || ((x =? v) && (y =? u)).

Lemma ematch_sym x y u v : ematch y x u v = ematch x y u v.
Proof.
  unfold ematch. rewrite (orb_comm ((y =? u) && (x =? v))).
  rewrite (andb_comm (y =? v)), (andb_comm (y =? u)). reflexivity.
Qed.

Lemma ematch_true x y u v : ematch x y u v = true <-> (x = u /\ y = v) \/ (x = v /\ y = u).
Proof. unfold ematch. rewrite orb_true_iff, !andb_true_iff, !Z.eqb_eq. tauto. Qed.

Lemma ematch_refl u v : ematch u v u v = true.
Proof. apply ematch_true. left. split; reflexivity. Qed.

Lemma ematch_swap u v : ematch v u u v = true.
Proof. apply ematch_true. right. split; reflexivity. Qed.

Lemma edge_label_add_edge' g u v l x y :
  edge_label (add_edge g u v l) x y = if ematch x y u v then Some l else edge_label g x y.
Proof. apply edge_label_add_edge. Qed.

Lemma edge_label_remove_edge g u v x y :
  edge_label (remove_edge g u v) x y = if ematch x y u v then None else edge_label g x y.
Proof.
  unfold remove_edge, ematch. rewrite !edge_label_del_adj.
  destruct ((x =? v) && (y =? u)); destruct ((x =? u) && (y =? v)); reflexivity.
Qed.

Lemma node_attr_remove_edge g u v m : node_attr (remove_edge g u v) m = node_attr g m.
Proof. unfold remove_edge. rewrite !node_attr_del_adj. reflexivity. Qed.

Lemma has_node_remove_edge g u v m : has_node (remove_edge g u v) m = has_node g m.
Proof. unfold remove_edge. rewrite !has_node_del_adj. reflexivity. Qed.

Lemma nodes_remove_edge g u v : nodes (remove_edge g u v) = nodes g.
Proof. unfold remove_edge. rewrite !nodes_del_adj. reflexivity. Qed.

Lemma adj_remove_edge g u v m :
  adj (remove_edge g u v) m =
  if m =? v then adel u (if v =? u then adel v (adj g u) else adj g v)
  else if m =? u then adel v (adj g u) else adj g m.
Proof.
  unfold remove_edge. rewrite !adj_del_adj.
  destruct (Z.eqb_spec m v) as [->|Hmv]; [reflexivity|]. reflexivity.
Qed.

Lemma wf_remove_edge g u v : wf g -> wf (remove_edge g u v).
Proof.
  intros (H1 & H2 & H3). split; [|split].
  - rewrite nodes_remove_edge. exact H1.
  - intros m. rewrite adj_remove_edge.
    destruct (m =? v); [apply NoDup_fst_adel; destruct (v =? u); [apply NoDup_fst_adel|]; apply H2|].
    destruct (m =? u); [apply NoDup_fst_adel|]; apply H2.
  - intros x y l. rewrite !edge_label_remove_edge. rewrite (ematch_sym x y).
    destruct (ematch x y u v); [discriminate|apply H3].
Qed.

(** adding an edge between existing nodes keeps the node list *)
Lemma nodes_add_edge_present g u v l :
  has_node g u = true -> has_node g v = true -> nodes (add_edge g u v l) = nodes g.
Proof. intros Hu Hv. rewrite nodes_add_edge. cbv zeta. rewrite Hu, Hv. reflexivity. Qed.

Lemma node_attr_add_edge_present g u v l m :
  has_node g u = true -> has_node g v = true -> node_attr (add_edge g u v l) m = node_attr g m.
Proof.
  intros Hu Hv. rewrite node_attr_add_edge. destruct (node_attr g m) eqn:E; [reflexivity|].
  destruct (Z.eqb_spec m u) as [->|H1]; simpl.
  - apply node_attr_has_node in Hu. destruct Hu as (a & Ha). congruence.
  - destruct (Z.eqb_spec m v) as [->|H2]; [|reflexivity].
    apply node_attr_has_node in Hv. destruct Hv as (a & Ha). congruence.
Qed.

(** * add_edges_from: the last matching triple wins *)

Fixpoint find_last (cands : list (Z * Z * label)) (x y : Z) : option label :=
  match cands with
  | [] => None
  | (u, v, l) :: t =>
      match find_last t x y with
      | Some l' => Some l'
      | None => if ematch x y u v then Some l else None
      end
  end.

Lemma edge_label_add_edges_from cands : forall g x y,
  edge_label (add_edges_from g cands) x y =
  match find_last cands x y with Some l => Some l | None => edge_label g x y end.
Proof.
  unfold add_edges_from. induction cands as [|[[u v] l] t IH]; intros g x y; simpl; [reflexivity|].
  rewrite IH. destruct (find_last t x y); [reflexivity|].
  rewrite edge_label_add_edge'. destruct (ematch x y u v); reflexivity.
Qed.

Lemma find_last_Some cands x y l :
  find_last cands x y = Some l -> exists u v, In (u, v, l) cands /\ ematch x y u v = true.
Proof.
  induction cands as [|[[u v] l0] t IH]; simpl; [discriminate|].
  destruct (find_last t x y) as [l'|] eqn:E.
  - intros [= ->]. destruct (IH eq_refl) as (u' & v' & Hin & Hm). exists u', v'. split; [right|]; assumption.
  - destruct (ematch x y u v) eqn:Em; [|discriminate]. intros [= ->]. exists u, v. split; [left; reflexivity|exact Em].
Qed.

Lemma find_last_None cands x y :
  find_last cands x y = None -> forall u v l, In (u, v, l) cands -> ematch x y u v = false.
Proof.
  induction cands as [|[[u0 v0] l0] t IH]; simpl; [intros _ u v l []|].
  destruct (find_last t x y) as [l'|] eqn:E; [discriminate|].
  destruct (ematch x y u0 v0) eqn:Em; [discriminate|]. intros _ u v l [H|H].
  - injection H as <- <- <-. exact Em.
  - eapply IH; eauto.
Qed.

Lemma node_attr_add_edges_from_present cands : forall g m,
  (forall u v l, In (u, v, l) cands -> has_node g u = true /\ has_node g v = true) ->
  node_attr (add_edges_from g cands) m = node_attr g m.
Proof.
  unfold add_edges_from. induction cands as [|[[u v] l] t IH]; intros g m Hin; simpl; [reflexivity|].
  destruct (Hin u v l (or_introl eq_refl)) as [Hu Hv].
  rewrite IH.
  - apply node_attr_add_edge_present; assumption.
  - intros u' v' l' H'. destruct (Hin u' v' l' (or_intror H')) as [Hu' Hv'].
    rewrite !has_node_add_edge, Hu', Hv', !orb_true_r. split; reflexivity.
Qed.

Lemma nodes_add_edges_from_present cands : forall g,
  (forall u v l, In (u, v, l) cands -> has_node g u = true /\ has_node g v = true) ->
  nodes (add_edges_from g cands) = nodes g.
Proof.
  unfold add_edges_from. induction cands as [|[[u v] l] t IH]; intros g Hin; simpl; [reflexivity|].
  destruct (Hin u v l (or_introl eq_refl)) as [Hu Hv].
  rewrite IH.
  - apply nodes_add_edge_present; assumption.
  - intros u' v' l' H'. destruct (Hin u' v' l' (or_intror H')) as [Hu' Hv'].
    rewrite !has_node_add_edge, Hu', Hv', !orb_true_r. split; reflexivity.
Qed.

Lemma has_node_add_edges_from cands : forall g m,
  has_node g m = true -> has_node (add_edges_from g cands) m = true.
Proof.
  unfold add_edges_from. induction cands as [|[[u v] l] t IH]; intros g m H; simpl; [exact H|].
  apply IH. rewrite has_node_add_edge, H. apply orb_true_r.
Qed.

Lemma wf_add_edges_from cands : forall g, wf g -> wf (add_edges_from g cands).
Proof.
  unfold add_edges_from. induction cands as [|[[u v] l] t IH]; intros g H; simpl; [exact H|].
  apply IH. apply wf_add_edge. exact H.
Qed.

(** * has_edge-guarded fold: the first matching triple wins *)

Definition add_edge_if_absent (g : graph) (e : Z * Z * label) : graph :=
  let '(u, v, l) := e in if has_edge g u v then g else add_edge g u v l.

Definition add_edges_first (g : graph) (cands : list (Z * Z * label)) : graph :=
  fold_left add_edge_if_absent cands g.

Fixpoint find_first (cands : list (Z * Z * label)) (x y : Z) : option label :=
  match cands with
  | [] => None
  | (u, v, l) :: t => if ematch x y u v then Some l else find_first t x y
  end.

Lemma wf_add_edge_if_absent g e : wf g -> wf (add_edge_if_absent g e).
Proof.
  destruct e as [[u v] l]. simpl. intros H. destruct (has_edge g u v); [exact H|apply wf_add_edge; exact H].
Qed.

Lemma wf_add_edges_first cands : forall g, wf g -> wf (add_edges_first g cands).
Proof.
  unfold add_edges_first. induction cands as [|e t IH]; intros g H; simpl; [exact H|].
  apply IH. apply wf_add_edge_if_absent. exact H.
Qed.

Lemma edge_label_add_edges_first cands : forall g x y, wf g ->
  edge_label (add_edges_first g cands) x y =
  match edge_label g x y with Some l => Some l | None => find_first cands x y end.
Proof.
  unfold add_edges_first. induction cands as [|[[u v] l] t IH]; intros g x y Hwf; simpl.
  - destruct (edge_label g x y); reflexivity.
  - rewrite IH by (apply (wf_add_edge_if_absent g (u, v, l)); exact Hwf).
    unfold has_edge. destruct (edge_label g u v) as [l0|] eqn:Euv; simpl.
    + (* edge already present: skipped *)
      destruct (edge_label g x y) as [l1|] eqn:Exy; [reflexivity|].
      destruct (ematch x y u v) eqn:Em; [|reflexivity].
      apply ematch_true in Em. destruct Hwf as (_ & _ & Hs).
      destruct Em as [[-> ->]|[-> ->]]; [congruence|]. apply Hs in Euv. congruence.
    + rewrite edge_label_add_edge'. destruct (ematch x y u v) eqn:Em.
      * apply ematch_true in Em. destruct Hwf as (_ & _ & Hs).
        assert (Exy : edge_label g x y = None).
        { destruct Em as [[-> ->]|[-> ->]]; [exact Euv|].
          destruct (edge_label g v u) as [l1|] eqn:E1; [|reflexivity]. apply Hs in E1. congruence. }
        rewrite Exy. reflexivity.
      * reflexivity.
Qed.

Lemma find_first_Some cands x y l :
  find_first cands x y = Some l -> exists u v, In (u, v, l) cands /\ ematch x y u v = true.
Proof.
  induction cands as [|[[u v] l0] t IH]; simpl; [discriminate|].
  destruct (ematch x y u v) eqn:Em.
  - intros [= ->]. exists u, v. split; [left; reflexivity|exact Em].
  - intros H. destruct (IH H) as (u' & v' & Hin & Hm). exists u', v'. split; [right|]; assumption.
Qed.

Lemma find_first_None cands x y :
  find_first cands x y = None -> forall u v l, In (u, v, l) cands -> ematch x y u v = false.
Proof.
  induction cands as [|[[u0 v0] l0] t IH]; simpl; [intros _ u v l []|].
  destruct (ematch x y u0 v0) eqn:Em; [discriminate|]. intros Hn u v l [H|H].
  - injection H as <- <- <-. exact Em.
  - eapply IH; eauto.
Qed.

Lemma node_attr_add_edges_first_present cands : forall g m,
  (forall u v l, In (u, v, l) cands -> has_node g u = true /\ has_node g v = true) ->
  node_attr (add_edges_first g cands) m = node_attr g m.
Proof.
  unfold add_edges_first. induction cands as [|[[u v] l] t IH]; intros g m Hin; simpl; [reflexivity|].
  destruct (Hin u v l (or_introl eq_refl)) as [Hu Hv].
  destruct (has_edge g u v).
  - apply IH. intros u' v' l' H'. apply (Hin u' v' l'). right. exact H'.
  - rewrite IH.
    + apply node_attr_add_edge_present; assumption.
    + intros u' v' l' H'. destruct (Hin u' v' l' (or_intror H')) as [Hu' Hv'].
      rewrite !has_node_add_edge, Hu', Hv', !orb_true_r. split; reflexivity.
Qed.

(** * add_nodes_from *)

Lemma edge_label_add_nodes_from l : forall g u v,
  edge_label (add_nodes_from g l) u v = edge_label g u v.
Proof.
  unfold add_nodes_from. induction l as [|[n a] t IH]; intros g u v; simpl; [reflexivity|].
  rewrite IH. apply edge_label_add_node.
Qed.

Lemma adj_add_nodes_from l : forall g u, adj (add_nodes_from g l) u = adj g u.
Proof.
  unfold add_nodes_from. induction l as [|[n a] t IH]; intros g u; simpl; [reflexivity|].
  rewrite IH. apply adj_add_node.
Qed.

Lemma wf_add_nodes_from l : forall g, wf g -> wf (add_nodes_from g l).
Proof.
  unfold add_nodes_from. induction l as [|[n a] t IH]; intros g H; simpl; [exact H|].
  apply IH. apply wf_add_node. exact H.
Qed.

Lemma node_attr_add_nodes_from_other l : forall g m,
  ~ In m (map fst l) -> node_attr (add_nodes_from g l) m = node_attr g m.
Proof.
  unfold add_nodes_from. induction l as [|[n a] t IH]; intros g m Hni; simpl; [reflexivity|].
  rewrite IH by (intros H; apply Hni; right; exact H).
  rewrite node_attr_add_node. destruct (Z.eqb_spec m n) as [->|Hne]; [|reflexivity].
  exfalso. apply Hni. left. reflexivity.
Qed.

(* fresh, pairwise distinct keys: the fold is a plain dictionary extension *)
Lemma node_attr_add_nodes_from_fresh l : forall g m,
  NoDup (map fst l) -> (forall k, In k (map fst l) -> node_attr g k = None) ->
  node_attr (add_nodes_from g l) m =
  match alookup m l with Some a => Some a | None => node_attr g m end.
Proof.
  unfold add_nodes_from. induction l as [|[n a] t IH]; intros g m Hnd Hfresh; simpl; [reflexivity|].
  inversion Hnd as [|? ? Hni Hnd']; subst.
  rewrite IH.
  - destruct (Z.eqb_spec m n) as [->|Hne].
    + assert (Hnone : alookup n t = None) by (apply alookup_None; exact Hni).
      rewrite Hnone, node_attr_add_node, Z.eqb_refl, (Hfresh n (or_introl eq_refl)). reflexivity.
    + rewrite node_attr_add_node. destruct (Z.eqb_spec m n); [contradiction|reflexivity].
  - exact Hnd'.
  - intros k Hk. rewrite node_attr_add_node. destruct (Z.eqb_spec k n) as [->|Hne]; [contradiction|].
    apply Hfresh. right. exact Hk.
Qed.

Lemma nodes_add_nodes_from_fresh l : forall g,
  NoDup (map fst l) -> (forall k, In k (map fst l) -> has_node g k = false) ->
  nodes (add_nodes_from g l) = nodes g ++ map fst l.
Proof.
  unfold add_nodes_from. induction l as [|[n a] t IH]; intros g Hnd Hfresh; simpl; [symmetry; apply app_nil_r|].
  inversion Hnd as [|? ? Hni Hnd']; subst.
  rewrite IH.
  - rewrite nodes_add_node, (Hfresh n (or_introl eq_refl)), <- app_assoc. reflexivity.
  - exact Hnd'.
  - intros k Hk. rewrite has_node_add_node. destruct (Z.eqb_spec k n) as [->|Hne]; [contradiction|].
    apply Hfresh. right. exact Hk.
Qed.

(** * Graph.copy() *)

Lemma nodes_data_fst g : map fst (nodes_data g) = nodes g.
Proof.
  unfold nodes_data, nodes. rewrite map_map. apply map_ext. intros [n [a ad]]. reflexivity.
Qed.

Lemma alookup_nodes_data g n : alookup n (nodes_data g) = node_attr g n.
Proof.
  unfold nodes_data, node_attr. induction g as [|[k [a ad]] t IH]; simpl; [reflexivity|].
  destruct (n =? k); [reflexivity|exact IH].
Qed.

Lemma in_adj_pairs g u v l : In (u, v, l) (adj_pairs g) <-> exists a ad, In (u, (a, ad)) g /\ In (v, l) ad.
Proof.
  unfold adj_pairs. rewrite in_flat_map. split.
  - intros ([n [a ad]] & Hin & Hm). apply in_map_iff in Hm. destruct Hm as ([v' l'] & Heq & Hin').
    injection Heq as -> -> ->. exists a, ad. split; assumption.
  - intros (a & ad & H1 & H2). exists (u, (a, ad)). split; [exact H1|].
    apply in_map_iff. exists (v, l). split; [reflexivity|exact H2].
Qed.

Lemma in_adj_pairs_label g u v l : wf g -> (In (u, v, l) (adj_pairs g) <-> edge_label g u v = Some l).
Proof.
  intros Hwf. rewrite in_adj_pairs. split.
  - intros (a & ad & H1 & H2). apply In_adj_edge_label; [exact Hwf|].
    destruct Hwf as (Hnd & _). rewrite (In_entry_adj g u a ad Hnd H1). exact H2.
  - intros H. pose proof (edge_label_In_adj _ _ _ _ H) as Hin. unfold adj in Hin.
    destruct (alookup u g) as [[a ad]|] eqn:E; [|contradiction].
    exists a, ad. split; [apply alookup_In; exact E|exact Hin].
Qed.

Section Copy.
  Variable g : graph.
  Hypothesis Hwf : wf g.

  Let g0 := add_nodes_from empty_graph (nodes_data g).

  Lemma copy_nodes_stage_attr n : node_attr g0 n = node_attr g n.
  Proof.
    unfold g0. rewrite node_attr_add_nodes_from_fresh.
    - rewrite alookup_nodes_data. destruct (node_attr g n); reflexivity.
    - rewrite nodes_data_fst. apply Hwf.
    - intros k _. reflexivity.
  Qed.

  Lemma copy_nodes_stage_nodes : nodes g0 = nodes g.
  Proof.
    unfold g0. rewrite nodes_add_nodes_from_fresh.
    - rewrite nodes_data_fst. reflexivity.
    - rewrite nodes_data_fst. apply Hwf.
    - intros k _. reflexivity.
  Qed.

  Lemma copy_nodes_stage_has n : has_node g0 n = has_node g n.
  Proof.
    destruct (has_node g n) eqn:E.
    - apply has_node_In. rewrite copy_nodes_stage_nodes. apply has_node_In. exact E.
    - destruct (has_node g0 n) eqn:E0; [|reflexivity].
      apply has_node_In in E0. rewrite copy_nodes_stage_nodes in E0. apply has_node_In in E0. congruence.
  Qed.

  Lemma copy_pairs_present u v l :
    In (u, v, l) (adj_pairs g) -> has_node g0 u = true /\ has_node g0 v = true.
  Proof.
    intros H. apply in_adj_pairs_label in H; [|exact Hwf]. rewrite !copy_nodes_stage_has.
    eapply wf_edge_nodes; eauto.
  Qed.

  Lemma node_attr_copy n : node_attr (copy g) n = node_attr g n.
  Proof.
    unfold copy. fold g0. rewrite node_attr_add_edges_from_present by exact copy_pairs_present.
    apply copy_nodes_stage_attr.
  Qed.

  Lemma nodes_copy : nodes (copy g) = nodes g.
  Proof.
    unfold copy. fold g0. rewrite nodes_add_edges_from_present by exact copy_pairs_present.
    apply copy_nodes_stage_nodes.
  Qed.

  Lemma has_node_copy n : has_node (copy g) n = has_node g n.
  Proof.
    destruct (has_node g n) eqn:E.
    - apply has_node_In. rewrite nodes_copy. apply has_node_In. exact E.
    - destruct (has_node (copy g) n) eqn:E0; [|reflexivity].
      apply has_node_In in E0. rewrite nodes_copy in E0. apply has_node_In in E0. congruence.
  Qed.

  Lemma edge_label_copy u v : edge_label (copy g) u v = edge_label g u v.
  Proof.
    unfold copy. fold g0. rewrite edge_label_add_edges_from.
    destruct (find_last (adj_pairs g) u v) as [l|] eqn:E.
    - apply find_last_Some in E. destruct E as (u' & v' & Hin & Hm).
      apply in_adj_pairs_label in Hin; [|exact Hwf]. apply ematch_true in Hm.
      destruct Hm as [[-> ->]|[-> ->]]; [symmetry; exact Hin|].
      destruct Hwf as (_ & _ & Hs). symmetry. apply Hs. exact Hin.
    - unfold g0. rewrite edge_label_add_nodes_from.
      destruct (edge_label g u v) as [l|] eqn:El; [|reflexivity].
      apply in_adj_pairs_label in El; [|exact Hwf].
      pose proof (find_last_None _ _ _ E _ _ _ El) as Hm. rewrite ematch_refl in Hm. discriminate.
  Qed.

  Lemma wf_copy : wf (copy g).
  Proof. unfold copy. apply wf_add_edges_from. apply wf_add_nodes_from. apply wf_empty. Qed.
End Copy.

(** * nothing outside the node set *)

Lemma node_attr_None_not_In g n : ~ In n (nodes g) -> node_attr g n = None.
Proof.
  intros Hni. destruct (node_attr g n) as [a|] eqn:E; [|reflexivity]. exfalso. apply Hni.
  apply has_node_In. apply node_attr_has_node. exists a. exact E.
Qed.

Lemma edge_None_outside g ns u v :
  wf g -> (forall x, In x (nodes g) -> In x ns) -> ~ In u ns \/ ~ In v ns -> edge_label g u v = None.
Proof.
  intros Hwf Hsub Hout. destruct (edge_label g u v) as [l|] eqn:E; [|reflexivity]. exfalso.
  destruct (wf_edge_nodes g u v l Hwf E) as [Hu Hv]. apply has_node_In in Hu. apply has_node_In in Hv.
  destruct Hout as [Ho|Ho]; apply Ho; apply Hsub; assumption.
Qed.

