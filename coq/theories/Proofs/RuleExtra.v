(** C16 proofs, part 9 (additions): the empty reactant with connected_only, and the sub-list
    relations between the result lists of different option combinations. *)
From Coq Require Import ZArith List Bool String Lia Sorting.Permutation.
From FGV Require Import Base.Util Base.UtilFacts Base.Bond Base.NX Base.NXFacts Model.Aam Model.Rule
                        Spec.AamSpec Spec.RuleSpec Proofs.NXCopyFacts16 Proofs.RuleSplit Proofs.RuleIts
                        Proofs.RuleLoop Proofs.RuleMonos Proofs.RuleProofs.
Import ListNotations.
Open Scope Z_scope.
Open Scope list_scope.

(** * sub-lists (same relative order) *)

Inductive sublist {A : Type} : list A -> list A -> Prop :=
| sub_nil : sublist [] []
| sub_skip : forall x l1 l2, sublist l1 l2 -> sublist l1 (x :: l2)
| sub_keep : forall x l1 l2, sublist l1 l2 -> sublist (x :: l1) (x :: l2).

Lemma sublist_refl {A} (l : list A) : sublist l l.
Proof. induction l; [apply sub_nil|apply sub_keep; assumption]. Qed.

Lemma sublist_nil_l {A} (l : list A) : sublist [] l.
Proof. induction l; [apply sub_nil|apply sub_skip; assumption]. Qed.

Lemma sublist_trans {A} (l1 l2 l3 : list A) : sublist l1 l2 -> sublist l2 l3 -> sublist l1 l3.
Proof.
  intros H12 H23. revert l1 H12. induction H23 as [|x l2 l3 H IH|x l2 l3 H IH]; intros l1 H12.
  - exact H12.
  - apply sub_skip. apply IH. exact H12.
  - inversion H12 as [|y a b Hab|y a b Hab]; subst.
    + apply sub_skip. apply IH. exact Hab.
    + apply sub_keep. apply IH. exact Hab.
Qed.

Lemma firstn_sublist {A} k : forall l : list A, sublist (firstn k l) l.
Proof.
  induction k as [|k IH]; intros [|a t]; simpl; [apply sub_nil|apply sublist_nil_l|apply sub_nil|apply sub_keep; apply IH].
Qed.

Lemma take_n_sublist {A} n (l : list A) : sublist (take_n n l) l.
Proof. destruct n; [apply firstn_sublist|apply sublist_refl]. Qed.

(* unique=True keeps a sub-list of what unique=False keeps (same connected_only) *)
Lemma select_unique_sublist co cs : forall seen seen',
  sublist (select true co cs seen) (select false co cs seen').
Proof.
  induction cs as [|[[w i] f] t IH]; intros seen seen'; simpl; [constructor|].
  destruct (co && negb (connb i)); [apply IH|].
  destruct (existsb (String.eqb w) seen); [apply sub_skip; apply IH|apply sub_keep; apply IH].
Qed.

(* connected_only keeps a sub-list of the unfiltered list (unique=False) *)
Lemma select_connected_sublist cs : forall seen seen',
  sublist (select false true cs seen) (select false false cs seen').
Proof.
  induction cs as [|[[w i] f] t IH]; intros seen seen'; simpl; [constructor|].
  destruct (connb i); simpl; [apply sub_keep|apply sub_skip]; apply IH.
Qed.

Section Sub.
  Variables (g rcg : graph) (monos : list mapping) (wls : list string).
  Hypothesis Hg : wf g.
  Hypothesis Hrc : wf rcg.
  Hypothesis Hmonos : monos_valid (rl (reaction_rule rcg)) g monos.
  Hypothesis Hlen : List.length wls = List.length monos.

  (* unique=True (any limit) returns a sub-list, in the same relative order, of what
     unique=False returns without a limit, for the same monos / digests / connected_only *)
  Theorem unique_sublist n co :
    (co = true -> g <> []) ->
    exists ru rf,
      apply_rule g (reaction_rule rcg) monos wls n true co = AROk ru
      /\ apply_rule g (reaction_rule rcg) monos wls None false co = AROk rf
      /\ sublist ru rf.
  Proof.
    intros Hne.
    rewrite !(apply_rule_general g rcg monos wls Hg Hrc Hmonos Hlen) by exact Hne.
    eexists. eexists. split; [reflexivity|]. split; [reflexivity|]. simpl take_n.
    eapply sublist_trans; [apply take_n_sublist|apply select_unique_sublist].
  Qed.

  (* connected_only (unique=False, any limit) returns a sub-list of the one-per-embedding list,
     and without a limit exactly the results whose raw ITS graph is connected *)
  Theorem connected_sublist n :
    g <> [] ->
    exists rc rall,
      apply_rule g (reaction_rule rcg) monos wls n false true = AROk rc
      /\ apply_rule g (reaction_rule rcg) monos wls None false false = AROk rall
      /\ rall = map (its_graph g (reaction_rule rcg)) monos
      /\ sublist rc rall
      /\ (n = None ->
          rc = map snd (filter (fun c : cand => connb (snd (fst c))) (cands_of g (reaction_rule rcg) monos wls))).
  Proof.
    intros Hne.
    rewrite (unique_false_spec g rcg monos wls Hg Hrc Hmonos Hlen).
    rewrite (apply_rule_general g rcg monos wls Hg Hrc Hmonos Hlen n false true) by auto.
    eexists. eexists. split; [reflexivity|]. split; [reflexivity|]. split; [reflexivity|]. split.
    - rewrite <- (cands_its_graphs g rcg monos wls Hlen), <- (select_plain _ []).
      eapply sublist_trans; [apply take_n_sublist|apply select_connected_sublist].
    - intros ->. simpl take_n. apply select_connected.
  Qed.
End Sub.

(** * the empty reactant with connected_only=True *)

Lemma all_monos_empty_g L : all_monos L [] = match nodes L with [] => [[]] | _ :: _ => [] end.
Proof. unfold all_monos. destruct (nodes L); reflexivity. Qed.

Lemma monos_valid_nil L g : all_monos L g = [] -> forall monos, monos_valid L g monos -> monos = [].
Proof.
  intros E monos (cs & Hf & Hp). rewrite E in Hp. apply Permutation_sym, Permutation_nil in Hp. subst cs.
  inversion Hf. reflexivity.
Qed.

Lemma monos_valid_single_nil L g :
  all_monos L g = [[]] -> forall monos, monos_valid L g monos -> monos = [[]].
Proof.
  intros E monos (cs & Hf & Hp). rewrite E in Hp. apply Permutation_sym, Permutation_length_1_inv in Hp. subst cs.
  inversion Hf as [|m c t t' Hmc Ht]; subst. inversion Ht; subst.
  apply Permutation_sym, Permutation_nil in Hmc. subst. reflexivity.
Qed.

(* On the empty reactant the rule's left side embeds iff the rule graph is empty (the empty
   mapping). With connected_only=True the call then reaches nx.is_connected on the null graph
   and raises (ARNullGraph) - unless the limit n <= 0 stops the loop first; for every non-empty
   rule there is no embedding and the result is []. *)
Theorem empty_reactant rcg monos wls n unique :
  wf rcg -> monos_valid (rl (reaction_rule rcg)) [] monos -> List.length wls = List.length monos ->
  (all_monos (rl (reaction_rule rcg)) [] <> [] <-> rcg = [])
  /\ apply_rule [] (reaction_rule rcg) monos wls n unique true =
     match rcg with
     | [] => match n with
             | Some k => if k <=? 0 then AROk [] else ARNullGraph
             | None => ARNullGraph
             end
     | _ :: _ => AROk []
     end.
Proof.
  intros Hrc Hm Hl.
  destruct (rule_left_spec rcg Hrc) as (_ & HLn & _).
  pose proof (all_monos_empty_g (rl (reaction_rule rcg))) as HE. rewrite HLn in HE.
  destruct rcg as [|e t].
  - change (all_monos (rl (reaction_rule [])) [] = [[]]) in HE.
    split; [split; [reflexivity|intros _; rewrite HE; discriminate]|].
    rewrite (monos_valid_single_nil _ _ HE monos Hm) in *.
    destruct wls as [|w [|w' ws]]; simpl in Hl; try discriminate.
    unfold apply_rule. simpl combine. cbn [apply_loop]. unfold limit_hit. simpl List.length. simpl Z.of_nat.
    destruct n as [k|]; [destruct (k <=? 0)|]; reflexivity.
  - destruct e as [a x]. change (all_monos (rl (reaction_rule ((a, x) :: t))) [] = []) in HE.
    split; [split; [intros H; contradiction|discriminate]|].
    rewrite (monos_valid_nil _ _ HE monos Hm) in *. destruct wls; [reflexivity|discriminate].
Qed.
