(** C14: bond conservation along the derivations the implementation follows (MultiGraph, before
    the collapse), from the one-step theorem of Proofs/ProxyBonds.v. *)
From Coq Require Import ZArith List Bool String Lia Permutation Arith.
From FGV Require Import Base.Util Base.UtilFacts Base.Bond Base.NX Base.NXFacts Base.NXMulti Model.Aam Model.Proxy
  Model.ProxyGen Spec.ProxySpec Spec.ProxyCheck Spec.ProxyGenSpec Spec.ProxyBondSpec
  Proofs.ProxyGenUtil Proofs.ProxyGenFinish Proofs.ProxyGenProofs Proofs.ProxyBonds.
Import ListNotations.
Open Scope Z_scope.

Lemma loopfreeb_sound g : NoDup (mnodes g) -> loopfreeb g = true -> loopfree g.
Proof.
  intros Hnd H x. unfold mkeyd, madj. destruct (alookup x g) as [[a ad]|] eqn:E; [|reflexivity].
  unfold loopfreeb in H. rewrite forallb_forall in H. specialize (H _ (alookup_In _ _ _ E)). simpl in H.
  apply negb_true_iff in H. apply zmem_false in H.
  rewrite (proj2 (alookup_None x ad)); [reflexivity|exact H].
Qed.

Section BondsAlong.
Variable gs : groups.
Hypothesis Hgs : Forall (fun kg => Forall (pgraph_ok gs) (gr_graphs (snd kg))) gs.
Hypothesis Hlfgs : Forall (fun kg => Forall (fun sg => loopfree (pg_graph sg)) (gr_graphs (snd kg))) gs.
Hypothesis H13 : C13_multi_statement.
Hypothesis Hcopy : mcopy_statement.
Hypothesis Hcopyb : mcopy_bonds_statement.

Lemma step_conserves_bonds g sg g' :
  pattern_ok gs g -> loopfree g -> step gs g sg g' ->
  pattern_ok gs g' /\ loopfree g'
  /\ exists anchor,
       get_next_group_node gs g = GOk (Some anchor)
       /\ (pg_graph sg <> [] -> Permutation (mbonds g') (mbonds g ++ mbonds (pg_graph sg)))
       /\ (pg_graph sg = [] -> Permutation (mbonds g' ++ mincident_labels g anchor) (mbonds g)).
Proof.
  intros Hg Hlf Hst.
  destruct (step_child gs Hgs H13 Hcopy g sg g' Hg Hst) as [anchor0 [a0 [_ [_ [_ [Hg' _]]]]]].
  destruct Hst as [anchor a nm grp Hn0 Ha Hng Hlk Hsg Hrun].
  assert (Hsgok : pgraph_ok gs sg).
  { apply glookup_In in Hlk. rewrite Forall_forall in Hgs. specialize (Hgs _ Hlk).
    rewrite Forall_forall in Hgs. exact (Hgs sg Hsg). }
  assert (Hsglf : loopfree (pg_graph sg)).
  { apply glookup_In in Hlk. rewrite Forall_forall in Hlfgs. specialize (Hlfgs _ Hlk).
    rewrite Forall_forall in Hlfgs. exact (Hlfgs sg Hsg). }
  destruct (step_bonds gs H13 Hcopy Hcopyb g sg g' anchor a Hg Hlf Hsgok Hsglf Ha Hrun) as [Hlf' [Hb1 Hb2]].
  split; [exact Hg'|]. split; [exact Hlf'|]. exists anchor. split; [exact Hn0|]. split; assumption.
Qed.

Theorem derivation_bonds g cs r :
  derives gs g cs r -> pattern_ok gs g -> loopfree g -> bonds_conserved g cs r /\ loopfree r.
Proof.
  induction 1 as [g Hn|g sg g' cs r Hst Hd IH]; intros Hg Hlf.
  - split; [|exact Hlf]. exists []. simpl. rewrite !app_nil_r. split; [apply Permutation_refl|reflexivity].
  - destruct (step_conserves_bonds g sg g' Hg Hlf Hst) as [Hg' [Hlf' [anchor [_ [Hb1 Hb2]]]]].
    destruct (IH Hg' Hlf') as [[removed [Hperm Hnone]] Hlfr]. split; [|exact Hlfr].
    destruct (pg_graph sg) as [|e t] eqn:Ep.
    + (* the empty pattern: the bonds of the replaced node go *)
      exists (removed ++ mincident_labels g anchor). split.
      * simpl. rewrite Ep. change (mbonds []) with (@nil label). simpl. rewrite app_assoc.
        eapply Permutation_trans; [apply Permutation_app_tail; exact Hperm|].
        rewrite <- app_assoc.
        eapply Permutation_trans; [apply Permutation_app_head; apply Permutation_app_comm|].
        rewrite app_assoc. apply Permutation_app_tail. apply Hb2. reflexivity.
      * intros Hall. inversion Hall as [|? ? Hne _]; subst. rewrite Ep in Hne. congruence.
    + exists removed. split.
      * eapply Permutation_trans; [exact Hperm|]. simpl. rewrite Ep.
        rewrite app_assoc. apply Permutation_app_tail. apply Hb1. discriminate.
      * intros Hall. inversion Hall; subst. apply Hnone. assumption.
Qed.

End BondsAlong.
