(** networkx.Graph (Base/NX.v) and networkx.MultiGraph (Model/NXMulti.v) satisfy the laws
    the parser proof relies on ([gops_laws]); the fuel of MultiGraph.new_edge_key suffices. *)
From Coq Require Import ZArith List Bool String Lia FinFun.
From FGV Require Import Base.Util Base.UtilFacts Base.Bond Base.NX Base.NXFacts
                        Model.NXMulti Model.GraphOps Proofs.ParseMachine.
Import ListNotations.
Open Scope Z_scope.

(** ** generic: node table of an association list  id -> (attributes, adjacency) *)

Section Table.
Context {Adj : Type}.
Let tbl := list (Z * (nattr * Adj)).
Definition ndata (g : tbl) : list (Z * nattr) := map (fun '(n, (a, _)) => (n, a)) g.

Lemma alookup_ndata n (g : tbl) :
  alookup n (ndata g) = match alookup n g with Some (a, _) => Some a | None => None end.
Proof.
  induction g as [|[k [a ad]] t IH]; simpl; [reflexivity|].
  destruct (n =? k); [reflexivity|exact IH].
Qed.

Lemma ndata_app (g h : tbl) : ndata (g ++ h)%list = (ndata g ++ ndata h)%list.
Proof. apply map_app. Qed.

Lemma ndata_aset_same n a ad ad' (g : tbl) :
  alookup n g = Some (a, ad) -> ndata (aset n (a, ad') g) = ndata g.
Proof.
  induction g as [|[k [b bd]] t IH]; simpl; [discriminate|].
  destruct (Z.eqb_spec n k) as [->|Hne]; simpl.
  - intros [= -> ->]. reflexivity.
  - intros H. f_equal. apply IH. exact H.
Qed.

Lemma alookup_aset_same n x (g : tbl) m :
  alookup m (aset n x g) = if m =? n then Some x else alookup m g.
Proof.
  induction g as [|[k y] t IH]; simpl.
  - destruct (m =? n); reflexivity.
  - destruct (Z.eqb_spec n k) as [->|Hne]; simpl.
    + destruct (m =? k); reflexivity.
    + destruct (Z.eqb_spec m k) as [->|Hmk].
      * destruct (Z.eqb_spec k n); [congruence|reflexivity].
      * exact IH.
Qed.
End Table.

(** ** networkx.Graph *)

Lemma nodes_data_ndata g : nodes_data g = ndata g.
Proof. reflexivity. Qed.

Lemma ndata_set_adj g u v l : ndata (set_adj g u v l) = ndata g.
Proof.
  unfold set_adj. destruct (alookup u g) as [[a ad]|] eqn:E; [|reflexivity].
  eapply ndata_aset_same. exact E.
Qed.

Lemma ensure_node_present g n : alookup n (ndata g) <> None -> ensure_node g n = g.
Proof.
  rewrite alookup_ndata. unfold ensure_node. destruct (alookup n g) as [[a ad]|]; [reflexivity|congruence].
Qed.

Lemma simple_laws : gops_laws simple_ops nodes_data.
Proof.
  constructor; simpl.
  - reflexivity.
  - intros g n a H. rewrite nodes_data_ndata, alookup_ndata in H. unfold add_node.
    destruct (alookup n g) as [[a0 ad]|]; [discriminate|].
    rewrite !nodes_data_ndata, ndata_app. reflexivity.
  - intros g u v l Hu Hv. eexists. split; [reflexivity|].
    unfold add_edge. rewrite !nodes_data_ndata, !ndata_set_adj.
    rewrite (ensure_node_present g u Hu), (ensure_node_present g v Hv). reflexivity.
  - intros g. unfold number_of_nodes, nodes_data. rewrite map_length. reflexivity.
  - intros g n. unfold sym_of, node_attr. rewrite nodes_data_ndata, alookup_ndata.
    destruct (alookup n g) as [[a ad]|]; reflexivity.
Qed.

(** ** networkx.MultiGraph *)

Lemma next_key_None fuel : forall key keys,
  next_key fuel key keys = None -> forall j, key <= j < key + Z.of_nat fuel -> In j keys.
Proof.
  induction fuel as [|f IH]; simpl; intros key keys H j Hj; [lia|].
  destruct (zmem key keys) eqn:E; [|discriminate].
  destruct (Z.eq_dec j key) as [->|Hne]; [apply zmem_In; exact E|].
  apply (IH (key + 1) keys H). lia.
Qed.

(* the fuel new_edge_key supplies is always enough (pigeonhole) *)
Lemma next_key_enough key keys : exists k, next_key (S (List.length keys)) key keys = Some k.
Proof.
  destruct (next_key (S (List.length keys)) key keys) as [k|] eqn:E; [eauto|exfalso].
  pose proof (next_key_None _ _ _ E) as Hall.
  set (n := S (List.length keys)) in *.
  set (l := map (fun i => key + Z.of_nat i) (seq 0 n)).
  assert (Hnd : NoDup l).
  { apply Injective_map_NoDup; [intros x y Hxy; lia | apply seq_NoDup]. }
  assert (Hincl : incl l keys).
  { intros x Hx. apply in_map_iff in Hx. destruct Hx as (i & <- & Hi). apply in_seq in Hi.
    apply Hall. lia. }
  pose proof (NoDup_incl_length Hnd Hincl) as Hlen.
  unfold l in Hlen. rewrite map_length, seq_length in Hlen. unfold n in Hlen. lia.
Qed.

Lemma new_edge_key_some g u v : exists k, new_edge_key g u v = Some k.
Proof.
  unfold new_edge_key. destruct (mkeydict g u v) as [kd|]; [|eauto].
  rewrite <- (map_length fst kd). apply next_key_enough.
Qed.

(* MultiGraph.add_edge never runs out of fuel *)
Lemma madd_edge_some g u v l : exists g', madd_edge g u v l = Some g'.
Proof.
  unfold madd_edge.
  destruct (new_edge_key_some (mensure_node (mensure_node g u) v) u v) as [k ->]. eauto.
Qed.

Lemma mnodes_data_ndata g : mnodes_data g = ndata g.
Proof. reflexivity. Qed.

Lemma ndata_mset_adj g u v kd : ndata (mset_adj g u v kd) = ndata g.
Proof.
  unfold mset_adj. destruct (alookup u g) as [[a ad]|] eqn:E; [|reflexivity].
  eapply ndata_aset_same. exact E.
Qed.

Lemma mensure_node_present g n : alookup n (ndata g) <> None -> mensure_node g n = g.
Proof.
  rewrite alookup_ndata. unfold mensure_node. destruct (alookup n g) as [[a ad]|]; [reflexivity|congruence].
Qed.

Lemma multi_laws : gops_laws multi_ops mnodes_data.
Proof.
  constructor; simpl.
  - reflexivity.
  - intros g n a H. rewrite mnodes_data_ndata, alookup_ndata in H. unfold madd_node.
    destruct (alookup n g) as [[a0 ad]|]; [discriminate|].
    rewrite !mnodes_data_ndata, ndata_app. reflexivity.
  - intros g u v l Hu Hv. destruct (madd_edge_some g u v l) as [g' Hg']. exists g'. split; [exact Hg'|].
    unfold madd_edge in Hg'.
    rewrite (mensure_node_present g u Hu), (mensure_node_present g v Hv) in Hg'.
    destruct (new_edge_key g u v) as [k|]; [|discriminate]. injection Hg' as <-.
    rewrite !mnodes_data_ndata, !ndata_mset_adj. reflexivity.
  - intros g. unfold mnumber_of_nodes, mnodes_data. rewrite map_length. reflexivity.
  - intros g n. unfold msym_of, mnode_attr. rewrite mnodes_data_ndata, alookup_ndata.
    destruct (alookup n g) as [[a ad]|]; reflexivity.
Qed.
