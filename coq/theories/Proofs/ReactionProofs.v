(** C15, general part: every sample of a reaction proxy is balanced, mapped by id + 1, and
    superimposes to the expanded ITS graph. The facts about split_its / get_its are the C10
    theorems, taken as hypotheses. *)
From Coq Require Import ZArith List Bool String Lia Permutation.
From FGV Require Import Base.Util Base.UtilFacts Base.Bond Base.NX Base.NXFacts Base.NXMulti Model.Aam Model.Proxy
  Model.Its Model.ProxyGen Spec.ProxySpec Spec.ProxyCheck Spec.ProxyGenSpec Spec.ItsSpec Spec.ReactionSpec
  Proofs.ProxyGenUtil Proofs.ProxyGenProofs Proofs.ProxyGenFinish Proofs.ProxyGenMain.
Import ListNotations.
Open Scope Z_scope.

(** * nx.Graph(multigraph) is a well-formed graph *)

Lemma wf_add_nodes_from l : forall G, wf G -> wf (add_nodes_from G l).
Proof.
  unfold add_nodes_from. induction l as [|[n a] t IH]; intros G HG; simpl; [exact HG|].
  apply IH. apply wf_add_node. exact HG.
Qed.

Lemma wf_add_edges_from es : forall G, wf G -> wf (add_edges_from G es).
Proof.
  unfold add_edges_from. induction es as [|[[u v] l] t IH]; intros G HG; simpl; [exact HG|].
  apply IH. apply wf_add_edge. exact HG.
Qed.

Lemma wf_ts_inner u ad : forall st, wf (snd st) -> wf (snd (fold_left (ts_inner u) ad st)).
Proof.
  induction ad as [|[v kd] t IH]; intros [seen G] HG; simpl; [exact HG|].
  apply IH. destruct (mem2 (u, v) seen); simpl; [exact HG|]. apply wf_add_edges_from. exact HG.
Qed.

Lemma wf_ts_outer (l : mgraph) : forall st,
  wf (snd st) -> wf (snd (fold_left (fun st '(u, (_, ad)) => fold_left (ts_inner u) ad st) l st)).
Proof.
  induction l as [|[u [a ad]] t IH]; intros st HG; simpl; [exact HG|].
  apply IH. apply wf_ts_inner. exact HG.
Qed.

Theorem wf_to_simple g : wf (to_simple g).
Proof.
  unfold to_simple.
  assert (H : forall l G, wf G -> wf (fold_left (fun acc '(n, a) => add_node acc n a) l G)).
  { induction l as [|[n a] t IH]; intros G HG; simpl; [exact HG|]. apply IH. apply wf_add_node. exact HG. }
  apply H. apply wf_ts_outer. simpl. apply wf_add_nodes_from. apply wf_empty.
Qed.

(** * one sample *)

Section Reaction.
Hypothesis Hsplit : C10_split_spec_statement.
Hypothesis Hnodes : C10_split_nodes_statement.
Hypothesis Hsup : C10_resuperimpose_by_aam_statement.

Lemma sample_ok gs g :
  pattern_ok gs g -> (forall e, In e g -> is_group_attr gs (fst (snd e)) = false) ->
  reaction_sample_ok (finish true g).
Proof.
  intros Hg Hfin.
  destruct (finish_facts gs true g Hg Hfin) as [Hcont [_ [Haam _]]].
  specialize (Haam eq_refl).
  set (its := finish true g) in *.
  assert (Hwf : wf its) by (unfold its, finish; apply wf_to_simple).
  assert (Hrange : forall n a, node_attr its n = Some a -> 0 <= n).
  { intros n a E. destruct Hcont as [Hr _].
    assert (Hin : In n (nodes its)) by (apply has_node_In; apply node_attr_has_node; eauto).
    apply Hr in Hin. lia. }
  assert (Hmapped : forall n k, mapped its n k <-> (exists a0, node_attr its n = Some a0) /\ k = n + 1).
  { intros n k. split.
    - intros [a [E [Ek _]]]. rewrite (Haam n a E) in Ek. inversion Ek. split; [eauto|reflexivity].
    - intros [[a0 E] ->]. exists a0. split; [exact E|]. split; [apply Haam; exact E|].
      specialize (Hrange n a0 E). lia. }
  assert (Hinj : aam_injective its).
  { intros n m k Hn Hm. apply Hmapped in Hn. apply Hmapped in Hm. destruct Hn as [_ ->]. destruct Hm as [_ Hm]. lia. }
  destruct (Hsplit its Hwf) as [[HaG HeG] [HaH HeH]].
  assert (Hattrs : forall n, node_attr (fst (split_its its)) n = node_attr its n
                             /\ node_attr (snd (split_its its)) n = node_attr its n)
    by (intros n; split; [apply HaG|apply HaH]).
  assert (Hedges : forall u v, edge_label (fst (split_its its)) u v = obind (tr_side lab_fst) (edge_label its u v)
                               /\ edge_label (snd (split_its its)) u v = obind (tr_side lab_snd) (edge_label its u v))
    by (intros u v; split; [apply HeG|apply HeH]).
  destruct (Hnodes its Hwf) as [HnG HnH].
  destruct (Hsup its Hwf Hinj) as [Hsn [Hse Hso]].
  unfold reaction_sample_ok. cbv zeta.
  split; [exact Hcont|]. split; [exact HnG|]. split; [exact HnH|]. split; [exact Hattrs|].
  split; [exact Haam|]. split; [exact Hedges|]. split; [|split].
  - intros k a. rewrite Hsn. split.
    + intros [n [Hm ->]]. apply Hmapped in Hm. destruct Hm as [[a0 E] ->].
      exists n, a0. split; [exact E|]. split; [reflexivity|]. unfold sym_of. rewrite E. reflexivity.
    + intros [n [a0 [E [-> ->]]]]. exists n. split.
      * apply Hmapped. split; [eauto|reflexivity].
      * unfold sym_of. rewrite E. reflexivity.
  - intros n1 n2 H1 H2. apply node_attr_has_node in H1. apply node_attr_has_node in H2.
    destruct H1 as [a1 E1]. destruct H2 as [a2 E2].
    apply Hse.
    + apply Hmapped. split; [eauto|reflexivity].
    + apply Hmapped. split; [eauto|reflexivity].
    + specialize (Hrange n1 a1 E1). lia.
    + specialize (Hrange n2 a2 E2). lia.
  - intros k l lb E. destruct (Hso k l lb E) as [n1 [n2 [H1 [H2 _]]]].
    apply Hmapped in H1. apply Hmapped in H2. destruct H1 as [H1 ->]. destruct H2 as [H2 ->].
    exists n1, n2. split; [apply node_attr_has_node; exact H1|]. split; [apply node_attr_has_node; exact H2|].
    split; reflexivity.
Qed.

(** * every sample of a reaction proxy *)

Theorem reaction_main :
  C13_multi_statement -> mcopy_statement ->
  forall cfg, cfg_ok cfg -> acyclic (cfg_groups cfg) -> cfg_aam cfg = true ->
  exists itss, proxy_all cfg = (itss, GDone)
    /\ reaction_all cfg = (map split_its itss, GDone)
    /\ List.length itss = count_cfg cfg
    /\ Forall reaction_sample_ok itss.
Proof.
  intros H13 Hcopy cfg Hok Hac Haam.
  destruct (expansion_structure H13 Hcopy cfg Hok Hac) as [outs [Hall Hrun]].
  destruct (expansion_main H13 Hcopy cfg Hok Hac) as [rs [Hrun' [Hlen _]]].
  rewrite Hrun in Hrun'. inversion Hrun'; subst rs.
  exists (map (finish (cfg_aam cfg)) (List.concat outs)).
  split; [exact Hrun|]. split; [unfold reaction_all; rewrite Hrun; reflexivity|]. split; [exact Hlen|].
  apply Forall_forall. intros r Hr. apply in_map_iff in Hr. destruct Hr as [g [<- Hg]].
  apply in_concat in Hg. destruct Hg as [out [Hout Hg]].
  destruct (Forall2_in_r _ _ _ _ Hall Hout) as [c [_ [_ [_ [_ Hfo]]]]].
  rewrite Forall_forall in Hfo. destruct (Hfo g Hg) as [Hp Hfin].
  rewrite Haam. exact (sample_ok (cfg_groups cfg) g Hp Hfin).
Qed.

End Reaction.
