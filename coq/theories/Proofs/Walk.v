(** Walk counting with integer matrices.
    For a node list N without repetition and an edge test e whose edges start in N:
    the (u,v) entry of A^k is the number [cnt] of walks of length k, it is >= 0 and it is > 0
    iff a walk of exactly k steps exists; the entry of sum_{j<=r} A^j is > 0 iff v is within
    r steps of u ([reach]); a column sum over a list of start rows is 0 iff no start reaches
    the column's node. Independent of ITS graphs (only Model/Matrix.v and Spec/WalkDef.v). *)
From Coq Require Import ZArith List Bool Lia Sorted Permutation.
From FGV Require Import Base.Util Base.UtilFacts Model.Matrix Spec.WalkDef.
Import ListNotations.
Open Scope Z_scope.

(** * sorting *)

Lemma zinsert_In x y l : In y (zinsert x l) <-> y = x \/ In y l.
Proof.
  induction l as [|z t IH]; simpl.
  - split; [intros [H|[]]; auto | intros [H|[]]; auto].
  - destruct (x <=? z); simpl; [split; intros [H|H]; auto|].
    rewrite IH. split; [intros [H|[H|H]]; auto | intros [H|[H|H]]; auto].
Qed.

Lemma zsort_In x l : In x (zsort l) <-> In x l.
Proof.
  induction l as [|y t IH]; simpl; [reflexivity|].
  rewrite zinsert_In, IH. split; intros [H|H]; auto.
Qed.

Lemma zinsert_perm x l : Permutation (x :: l) (zinsert x l).
Proof.
  induction l as [|z t IH]; simpl; [constructor; constructor|].
  destruct (x <=? z); [apply Permutation_refl|].
  eapply perm_trans; [apply perm_swap|]. constructor. exact IH.
Qed.

Lemma zsort_perm l : Permutation l (zsort l).
Proof.
  induction l as [|y t IH]; simpl; [constructor|].
  eapply perm_trans; [|apply zinsert_perm]. constructor. exact IH.
Qed.

Lemma zsort_NoDup l : NoDup l -> NoDup (zsort l).
Proof. intros H. eapply Permutation_NoDup; [apply zsort_perm|exact H]. Qed.

Lemma zsort_length l : List.length (zsort l) = List.length l.
Proof. symmetry. apply Permutation_length. apply zsort_perm. Qed.

Lemma zsort_nil l : zsort l = [] <-> l = [].
Proof.
  split; intros H.
  - pose proof (zsort_length l) as HL. rewrite H in HL. destruct l; [reflexivity|discriminate].
  - subst. reflexivity.
Qed.

Lemma zinsert_sorted x l : StronglySorted Z.le l -> StronglySorted Z.le (zinsert x l).
Proof.
  induction l as [|z t IH]; simpl; intros Hs.
  - constructor; constructor.
  - inversion Hs as [|? ? Hst Hall]; subst. destruct (Z.leb_spec x z) as [Hle|Hgt].
    + constructor; [exact Hs|]. constructor; [exact Hle|].
      rewrite Forall_forall in *. intros y Hy. specialize (Hall y Hy). lia.
    + constructor; [apply IH; exact Hst|].
      rewrite Forall_forall in *. intros y Hy. apply zinsert_In in Hy.
      destruct Hy as [->|Hy]; [lia|apply Hall; exact Hy].
Qed.

Lemma zsort_sorted l : StronglySorted Z.le (zsort l).
Proof. induction l as [|y t IH]; simpl; [constructor|apply zinsert_sorted; exact IH]. Qed.

Lemma sorted_le_NoDup_lt l : StronglySorted Z.le l -> NoDup l -> StronglySorted Z.lt l.
Proof.
  induction l as [|x t IH]; intros Hs Hn; [constructor|].
  inversion Hs as [|? ? Hst Hall]; subst. inversion Hn as [|? ? Hni Hnt]; subst.
  constructor; [apply IH; assumption|].
  rewrite Forall_forall in *. intros y Hy. specialize (Hall y Hy).
  assert (x <> y) by (intros ->; contradiction). lia.
Qed.

Lemma zsort_strict l : NoDup l -> StronglySorted Z.lt (zsort l).
Proof. intros H. apply sorted_le_NoDup_lt; [apply zsort_sorted|apply zsort_NoDup; exact H]. Qed.

Lemma filter_sorted (R : Z -> Z -> Prop) f l : StronglySorted R l -> StronglySorted R (filter f l).
Proof.
  induction l as [|x t IH]; simpl; intros Hs; [constructor|].
  inversion Hs as [|? ? Hst Hall]; subst. destruct (f x); [|apply IH; exact Hst].
  constructor; [apply IH; exact Hst|]. rewrite Forall_forall in *.
  intros y Hy. apply filter_In in Hy. apply Hall. apply Hy.
Qed.

(** * finite sums *)

Definition sumf (h : Z -> Z) (R : list Z) : Z := fold_right (fun w acc => h w + acc) 0 R.

Lemma sumf_nonneg h R : (forall w, In w R -> 0 <= h w) -> 0 <= sumf h R.
Proof.
  induction R as [|x t IH]; simpl; intros H; [lia|].
  assert (0 <= h x) by (apply H; left; reflexivity).
  assert (0 <= sumf h t) by (apply IH; intros w Hw; apply H; right; exact Hw). lia.
Qed.

Lemma sumf_pos h R :
  (forall w, In w R -> 0 <= h w) -> (0 < sumf h R <-> exists w, In w R /\ 0 < h w).
Proof.
  induction R as [|x t IH]; simpl; intros H.
  - split; [lia|intros (w & [] & _)].
  - assert (Hx : 0 <= h x) by (apply H; left; reflexivity).
    assert (Ht : forall w, In w t -> 0 <= h w) by (intros w Hw; apply H; right; exact Hw).
    pose proof (sumf_nonneg h t Ht) as Hs. specialize (IH Ht). split.
    + intros Hpos. destruct (Z.ltb_spec 0 (h x)) as [Hp|Hp].
      * exists x. split; [left; reflexivity|exact Hp].
      * assert (0 < sumf h t) by lia. apply IH in H0. destruct H0 as (w & Hw & Hp').
        exists w. split; [right; exact Hw|exact Hp'].
    + intros (w & [<-|Hw] & Hp); [lia|].
      assert (0 < sumf h t) by (apply IH; exists w; split; assumption). lia.
Qed.

Lemma sumf_zero h R :
  (forall w, In w R -> 0 <= h w) -> (sumf h R = 0 <-> forall w, In w R -> h w = 0).
Proof.
  intros H. pose proof (sumf_nonneg h R H) as Hn. pose proof (sumf_pos h R H) as Hp. split.
  - intros Hz w Hw. specialize (H w Hw).
    destruct (Z.eq_dec (h w) 0) as [|Hne]; [assumption|].
    assert (0 < sumf h R) by (apply Hp; exists w; split; [exact Hw|lia]). lia.
  - intros Hall. destruct (Z.eq_dec (sumf h R) 0) as [|Hne]; [assumption|].
    assert (Hpos : 0 < sumf h R) by lia. apply Hp in Hpos. destruct Hpos as (w & Hw & Hlt).
    rewrite (Hall w Hw) in Hlt. lia.
Qed.

Lemma sumf_ext h h' R : (forall w, In w R -> h w = h' w) -> sumf h R = sumf h' R.
Proof.
  induction R as [|x t IH]; simpl; intros H; [reflexivity|].
  rewrite (H x) by (left; reflexivity). rewrite IH; [reflexivity|].
  intros w Hw. apply H. right. exact Hw.
Qed.

(** * tabulated matrices *)

(* rows indexed by R, columns by C *)
Definition tab (R C : list Z) (f : Z -> Z -> Z) : matrix := map (fun u => map (f u) C) R.

Lemma tab_ext R C f f' :
  (forall u v, In u R -> In v C -> f u v = f' u v) -> tab R C f = tab R C f'.
Proof.
  intros H. unfold tab. apply map_ext_in. intros u Hu. apply map_ext_in. intros v Hv. auto.
Qed.

Lemma vec_add_map (C : list Z) f g :
  vec_add (map f C) (map g C) = map (fun v => f v + g v) C.
Proof. induction C as [|x t IH]; simpl; [reflexivity|]. rewrite IH. reflexivity. Qed.

Lemma vec_scale_map c (C : list Z) g : vec_scale c (map g C) = map (fun v => c * g v) C.
Proof. unfold vec_scale. rewrite map_map. reflexivity. Qed.

Lemma zero_vec_map (C : list Z) : zero_vec (List.length C) = map (fun _ => 0) C.
Proof. unfold zero_vec. induction C as [|x t IH]; simpl; [reflexivity|]. rewrite IH. reflexivity. Qed.

Lemma row_mul_tab (R C : list Z) (d : Z -> Z) (a : Z -> Z -> Z) :
  row_mul (List.length C) (map d R) (tab R C a) = map (fun v => sumf (fun w => d w * a w v) R) C.
Proof.
  induction R as [|x t IH]; simpl.
  - apply zero_vec_map.
  - rewrite IH, vec_scale_map, vec_add_map. reflexivity.
Qed.

Lemma width_tab R C a : R <> [] -> width (tab R C a) = List.length C.
Proof. destruct R as [|x t]; [congruence|]. intros _. simpl. apply map_length. Qed.

Lemma mat_mul_tab (R N : list Z) f a :
  mat_mul (tab R N f) (tab N N a) = tab R N (fun u v => sumf (fun w => f u w * a w v) N).
Proof.
  destruct N as [|n0 N'].
  - unfold mat_mul, tab. simpl. induction R as [|x t IH]; simpl; [reflexivity|].
    f_equal. exact IH.
  - unfold mat_mul. rewrite width_tab by discriminate. unfold tab. rewrite map_map.
    apply map_ext. intros u. apply (row_mul_tab (n0 :: N') (n0 :: N') (f u) a).
Qed.

Lemma mat_add_tab (R C : list Z) f g :
  mat_add (tab R C f) (tab R C g) = tab R C (fun u v => f u v + g u v).
Proof.
  unfold tab. induction R as [|x t IH]; simpl; [reflexivity|].
  rewrite vec_add_map, IH. reflexivity.
Qed.

Definition delta (u v : Z) : Z := if u =? v then 1 else 0.

Lemma ident_tab (N : list Z) : NoDup N -> ident (List.length N) = tab N N delta.
Proof.
  induction N as [|x t IH]; intros Hnd; [reflexivity|].
  inversion Hnd as [|? ? Hni Hnt]; subst. simpl. unfold tab. simpl. f_equal.
  - unfold delta at 1. rewrite Z.eqb_refl. f_equal. rewrite zero_vec_map.
    apply map_ext_in. intros v Hv. unfold delta.
    destruct (Z.eqb_spec x v) as [->|]; [contradiction|reflexivity].
  - rewrite (IH Hnt). unfold tab. rewrite map_map. apply map_ext_in. intros u Hu.
    unfold delta at 2. destruct (Z.eqb_spec u x) as [->|]; [contradiction|reflexivity].
Qed.

(** * walk counts *)

Section Count.
  Variable e : Z -> Z -> bool.
  Variable N : list Z.
  Hypothesis e_src : forall w v, e w v = true -> In w N.

  Definition aent (w v : Z) : Z := if e w v then 1 else 0.
  Definition E (w v : Z) : Prop := e w v = true.

  (* number of walks with exactly k steps from u to v *)
  Fixpoint cnt (k : nat) (u v : Z) : Z :=
    match k with
    | O => delta u v
    | S k' => sumf (fun w => cnt k' u w * aent w v) N
    end.

  (* number of walks with at most k steps *)
  Fixpoint csum (k : nat) (u v : Z) : Z :=
    match k with
    | O => cnt O u v
    | S k' => csum k' u v + cnt (S k') u v
    end.

  Lemma aent_nonneg w v : 0 <= aent w v.
  Proof. unfold aent. destruct (e w v); lia. Qed.

  Lemma cnt_nonneg k u v : 0 <= cnt k u v.
  Proof.
    revert v. induction k as [|k IH]; intros v; simpl.
    - unfold delta. destruct (u =? v); lia.
    - apply sumf_nonneg. intros w _. pose proof (IH w). pose proof (aent_nonneg w v). nia.
  Qed.

  Lemma cnt_pos k u v : 0 < cnt k u v <-> walk E k u v.
  Proof.
    revert v. induction k as [|k IH]; intros v; simpl.
    - unfold delta. destruct (Z.eqb_spec u v) as [->|Hne].
      + split; [intros _; constructor|lia].
      + split; [lia|]. intros H. inversion H. congruence.
    - rewrite sumf_pos.
      + split.
        * intros (w & Hw & Hp). pose proof (cnt_nonneg k u w) as H1.
          pose proof (aent_nonneg w v) as H2.
          assert (Hc : 0 < cnt k u w) by nia.
          assert (Ha : e w v = true).
          { unfold aent in *. destruct (e w v); [reflexivity|lia]. }
          econstructor; [apply IH; exact Hc|exact Ha].
        * intros H. inversion H as [|? ? w ? Hwk He]; subst. exists w.
          split; [eapply e_src; exact He|]. apply IH in Hwk. unfold aent. unfold E in He.
          rewrite He. lia.
      + intros w _. pose proof (cnt_nonneg k u w). pose proof (aent_nonneg w v). nia.
  Qed.

  Lemma csum_nonneg k u v : 0 <= csum k u v.
  Proof.
    induction k as [|k IH]; [apply (cnt_nonneg O)|].
    change (0 <= csum k u v + cnt (S k) u v). pose proof (cnt_nonneg (S k) u v). lia.
  Qed.

  Lemma csum_pos k u v : 0 < csum k u v <-> reach E k u v.
  Proof.
    induction k as [|k IH].
    - change (0 < cnt O u v <-> reach E O u v). rewrite cnt_pos. split.
      + intros H. exists O. split; [lia|exact H].
      + intros (j & Hj & H). assert (j = O) by lia. subst. exact H.
    - change (0 < csum k u v + cnt (S k) u v <-> reach E (S k) u v).
      pose proof (csum_nonneg k u v) as H1. pose proof (cnt_nonneg (S k) u v) as H2. split.
      + intros Hp. destruct (Z.ltb_spec 0 (csum k u v)) as [Hc|Hc].
        * apply IH in Hc. destruct Hc as (j & Hj & Hw). exists j. split; [lia|exact Hw].
        * assert (Hc2 : 0 < cnt (S k) u v) by lia. apply cnt_pos in Hc2.
          exists (S k). split; [lia|exact Hc2].
      + intros (j & Hj & Hw). destruct (Nat.eq_dec j (S k)) as [->|Hne].
        * apply cnt_pos in Hw. lia.
        * assert (Hr : reach E k u v) by (exists j; split; [lia|exact Hw]).
          apply IH in Hr. lia.
  Qed.

  (** the matrices computed by the loop *)
  Definition A : matrix := tab N N aent.

  Lemma mat_mul_cnt R k : mat_mul (tab R N (cnt k)) A = tab R N (cnt (S k)).
  Proof. unfold A. rewrite mat_mul_tab. reflexivity. Qed.

  Lemma iter_sum_tab r : forall k,
    iter_sum r A (tab N N (cnt k)) (tab N N (csum k)) = tab N N (csum (r + k)).
  Proof.
    induction r as [|r IH]; intros k; simpl; [reflexivity|].
    rewrite mat_mul_cnt, mat_add_tab.
    change (fun u v => csum k u v + cnt (S k) u v) with (csum (S k)).
    rewrite IH. replace (r + S k)%nat with (S (r + k))%nat by lia. reflexivity.
  Qed.

  Lemma iter_sum_ident r :
    NoDup N ->
    iter_sum r A (ident (List.length N)) (ident (List.length N)) = tab N N (csum r).
  Proof.
    intros Hnd. rewrite (ident_tab N Hnd).
    change (tab N N delta) with (tab N N (cnt O)) at 1.
    change (tab N N delta) with (tab N N (csum O)).
    rewrite iter_sum_tab. replace (r + 0)%nat with r by lia. reflexivity.
  Qed.
End Count.

(** * selecting rows and summing columns *)

Lemma index_of_None s N : index_of s N = None <-> ~ In s N.
Proof.
  induction N as [|x t IH]; simpl; [split; [intros _ []|reflexivity]|].
  destruct (Z.eqb_spec s x) as [->|Hne].
  - split; [discriminate|]. intros H. exfalso. apply H. left. reflexivity.
  - destruct (index_of s t) eqn:E0; simpl.
    + split; [discriminate|]. intros H. exfalso. destruct IH as [_ IH2].
      assert (Hn : ~ In s t) by (intros Hc; apply H; right; exact Hc).
      specialize (IH2 Hn). discriminate.
    + split; [|reflexivity]. intros _ [H|H]; [congruence|]. destruct IH as [IH1 _].
      apply (IH1 eq_refl H).
Qed.

Lemma index_of_nth {B} s N i (h : Z -> B) d :
  index_of s N = Some i -> nth i (map h N) d = h s.
Proof.
  revert i. induction N as [|x t IH]; simpl; intros i H; [discriminate|].
  destruct (Z.eqb_spec s x) as [->|Hne].
  - injection H as <-. reflexivity.
  - destruct (index_of s t) as [j|]; simpl in H; [|discriminate]. injection H as <-.
    apply IH. reflexivity.
Qed.

Lemma select_rows_tab S N C f :
  select_rows S N (tab N C f) =
  if forallb (fun s => zmem s N) S then Some (map (fun s => map (f s) C) S) else None.
Proof.
  induction S as [|s t IH]; simpl; [reflexivity|].
  destruct (index_of s N) as [i|] eqn:Ei.
  - assert (Hin : zmem s N = true).
    { apply zmem_In. destruct (in_dec Z.eq_dec s N) as [H|H]; [exact H|].
      apply index_of_None in H. congruence. }
    rewrite Hin. simpl. rewrite IH. destruct (forallb (fun s0 => zmem s0 N) t); [|reflexivity].
    unfold tab. rewrite (index_of_nth s N i (fun u => map (f u) C) [] Ei). reflexivity.
  - apply index_of_None in Ei. apply zmem_false in Ei. rewrite Ei. reflexivity.
Qed.

Lemma fold_vec_add_map (S C : list Z) f z :
  fold_left vec_add (map (fun s => map (f s) C) S) (map z C)
  = map (fun v => z v + sumf (fun s => f s v) S) C.
Proof.
  revert z. induction S as [|s t IH]; intros z; simpl.
  - apply map_ext. intros v. lia.
  - rewrite vec_add_map, IH. apply map_ext. intros v. lia.
Qed.

Lemma filter_combine_map (N : list Z) (h : Z -> Z) :
  map fst (filter (fun p => snd p =? 0) (combine N (map h N))) = filter (fun v => h v =? 0) N.
Proof.
  induction N as [|x t IH]; simpl; [reflexivity|].
  destruct (h x =? 0); simpl; rewrite IH; reflexivity.
Qed.

(** * bounded reachability is the usual bounded distance *)

Section Reach.
  Variable E : Z -> Z -> Prop.

  Lemma reach_O s v : reach E O s v <-> s = v.
  Proof.
    split.
    - intros (k & Hk & Hw). assert (k = O) by lia. subst. inversion Hw. reflexivity.
    - intros ->. exists O. split; [lia|constructor].
  Qed.

  Lemma reach_S r s v :
    reach E (S r) s v <-> reach E r s v \/ exists w, reach E r s w /\ E w v.
  Proof.
    split.
    - intros (k & Hk & Hw). destruct k as [|k].
      + left. exists O. split; [lia|exact Hw].
      + inversion Hw as [|? ? w ? Hwk He]; subst. right. exists w.
        split; [exists k; split; [lia|exact Hwk]|exact He].
    - intros [(k & Hk & Hw)|(w & (k & Hk & Hw) & He)].
      + exists k. split; [lia|exact Hw].
      + exists (S k). split; [lia|]. econstructor; eauto.
  Qed.

  Lemma reach_mono r r' s v : (r <= r')%nat -> reach E r s v -> reach E r' s v.
  Proof. intros Hle (k & Hk & Hw). exists k. split; [lia|exact Hw]. Qed.

  Lemma reach_refl r s : reach E r s s.
  Proof. exists O. split; [lia|constructor]. Qed.

  Lemma walk_app k1 k2 s w v : walk E k1 s w -> walk E k2 w v -> walk E (k2 + k1) s v.
  Proof.
    intros H1 H2. induction H2 as [|k w0 w1 v0 Hw IH He]; simpl; [exact H1|].
    econstructor; [apply IH; exact H1|exact He].
  Qed.

  (* closed under the invariants carried along edges, e.g. "is a node of the graph" *)
  Lemma walk_inv (P : Z -> Prop) k s v :
    (forall w x, E w x -> P x) -> P s -> walk E k s v -> P v.
  Proof. intros HE Hs Hw. induction Hw; [exact Hs|eapply HE; eauto]. Qed.
End Reach.

(** * the executable ball *)

Section Ball.
  Variable e : Z -> Z -> bool.
  Variable N : list Z.
  Hypothesis e_tgt : forall w v, e w v = true -> In v N.

  Lemma ball_reach r s v : In v (ball e N r s) <-> reach (fun w x => e w x = true) r s v.
  Proof.
    revert v. induction r as [|r IH]; intros v; simpl.
    - rewrite reach_O. split; [intros [H|[]]; exact H|intros ->; left; reflexivity].
    - rewrite in_app_iff, filter_In, existsb_exists, reach_S, IH. split.
      + intros [H|(Hv & w & Hw & He)]; [left; exact H|]. right. exists w.
        split; [apply IH; exact Hw|exact He].
      + intros [H|(w & Hw & He)]; [left; exact H|]. right.
        split; [eapply e_tgt; exact He|]. exists w. split; [apply IH; exact Hw|exact He].
  Qed.
End Ball.

(** * the column-sum criterion *)

Section Colsum.
  Variable e : Z -> Z -> bool.
  Variable N : list Z.
  Hypothesis e_src : forall w v, e w v = true -> In w N.

  Lemma csum_zero r s v : csum e N r s v = 0 <-> ~ reach (E e) r s v.
  Proof.
    pose proof (csum_nonneg e N r s v) as Hn. pose proof (csum_pos e N e_src r s v) as Hp.
    split.
    - intros Hz Hr. apply Hp in Hr. lia.
    - intros Hnr. destruct (Z.eq_dec (csum e N r s v) 0) as [|Hne]; [assumption|].
      exfalso. apply Hnr. apply Hp. lia.
  Qed.

  Lemma colsum_zero r S v :
    sumf (fun s => csum e N r s v) S = 0 <-> forall s, In s S -> ~ reach (E e) r s v.
  Proof.
    rewrite sumf_zero by (intros w _; apply csum_nonneg). split.
    - intros H s Hs. apply csum_zero. apply H. exact Hs.
    - intros H s Hs. apply csum_zero. apply H. exact Hs.
  Qed.

  (* the whole numpy computation after the adjacency matrix, in closed form *)
  Lemma unreachable_core r S :
    NoDup N ->
    match select_rows S N (iter_sum r (A e N) (ident (List.length N)) (ident (List.length N))) with
    | None => forallb (fun s => zmem s N) S = false
    | Some rows =>
        forallb (fun s => zmem s N) S = true
        /\ map fst (filter (fun p => snd p =? 0)
                      (combine N (fold_left vec_add rows (zero_vec (List.length N)))))
           = filter (fun v => sumf (fun s => csum e N r s v) S =? 0) N
    end.
  Proof.
    intros Hnd. rewrite (iter_sum_ident e N r Hnd), select_rows_tab.
    destruct (forallb (fun s => zmem s N) S); [|reflexivity]. split; [reflexivity|].
    rewrite zero_vec_map, fold_vec_add_map, filter_combine_map. reflexivity.
  Qed.
End Colsum.

(** * powers of the adjacency matrix, entry by entry *)

Fixpoint mat_pow (M : matrix) (n : nat) (k : nat) : matrix :=
  match k with
  | O => ident n
  | S k' => mat_mul (mat_pow M n k') M
  end.

Definition entry (M : matrix) (i j : nat) : Z := nth j (nth i M []) 0.

Lemma entry_tab N f u v i j :
  index_of u N = Some i -> index_of v N = Some j -> entry (tab N N f) i j = f u v.
Proof.
  intros Hi Hj. unfold entry, tab.
  rewrite (index_of_nth u N i (fun u0 => map (f u0) N) [] Hi).
  apply (index_of_nth v N j (f u) 0 Hj).
Qed.

Section Power.
  Variable e : Z -> Z -> bool.
  Variable N : list Z.
  Hypothesis e_src : forall w v, e w v = true -> In w N.
  Hypothesis N_nodup : NoDup N.

  Lemma mat_pow_tab k : mat_pow (A e N) (List.length N) k = tab N N (cnt e N k).
  Proof.
    induction k as [|k IH]; simpl.
    - apply ident_tab. exact N_nodup.
    - rewrite IH. apply mat_mul_cnt.
  Qed.

  (* entry (i,j) of A^k, i and j being the positions of u and v in the node list *)
  Theorem adj_power_entry k u v i j :
    index_of u N = Some i -> index_of v N = Some j ->
    let x := entry (mat_pow (A e N) (List.length N) k) i j in
    0 <= x /\ (0 < x <-> walk (E e) k u v).
  Proof.
    intros Hi Hj. cbv zeta. rewrite mat_pow_tab, (entry_tab N (cnt e N k) u v i j Hi Hj).
    split; [apply cnt_nonneg|apply cnt_pos; exact e_src].
  Qed.

  (* entry (i,j) of sum_{k<=r} A^k, as accumulated by the loop of get_unreachable_nodes *)
  Theorem adj_power_sum_entry r u v i j :
    index_of u N = Some i -> index_of v N = Some j ->
    let x := entry (iter_sum r (A e N) (ident (List.length N)) (ident (List.length N))) i j in
    0 <= x /\ (0 < x <-> reach (E e) r u v).
  Proof.
    intros Hi Hj. cbv zeta.
    rewrite (iter_sum_ident e N r N_nodup), (entry_tab N (csum e N r) u v i j Hi Hj).
    split; [apply csum_nonneg|apply csum_pos; exact e_src].
  Qed.
End Power.
