(** Facts about Graph.copy, remove_edge, add_nodes_from / add_edges_from and the in-place label
    update, on the networkx model (needed by C16; stated through nodes / node_attr / edge_label). *)
From Coq Require Import ZArith List Bool String Lia.
From FGV Require Import Base.Util Base.UtilFacts Base.Bond Base.NX Base.NXFacts Model.Rule.
Import ListNotations.
Open Scope Z_scope.

(** * unordered pairs *)

Definition same_pair (x y u v : Z) : bool := ((x =? u) && (y =? v)) || ((x =? v) && (y =? u)).

Lemma same_pair_swap x y u v : same_pair y x u v = same_pair x y u v.
Proof. unfold same_pair. destruct (x =? u), (y =? v), (x =? v), (y =? u); reflexivity. Qed.

Lemma same_pair_swap2 x y u v : same_pair x y v u = same_pair x y u v.
Proof. unfold same_pair. rewrite orb_comm. reflexivity. Qed.

Lemma same_pair_comm x y u v : same_pair x y u v = same_pair u v x y.
Proof.
  unfold same_pair. rewrite (Z.eqb_sym x u), (Z.eqb_sym y v), (Z.eqb_sym x v), (Z.eqb_sym y u).
  destruct (u =? x), (v =? y), (v =? x), (u =? y); reflexivity.
Qed.

Lemma same_pair_true x y u v : same_pair x y u v = true <-> (x = u /\ y = v) \/ (x = v /\ y = u).
Proof. unfold same_pair. rewrite orb_true_iff, !andb_true_iff, !Z.eqb_eq. tauto. Qed.

Lemma same_pair_refl x y : same_pair x y x y = true.
Proof. apply same_pair_true. auto. Qed.

Lemma edge_label_add_edge' g u v l x y :
  edge_label (add_edge g u v l) x y = if same_pair x y u v then Some l else edge_label g x y.
Proof. apply edge_label_add_edge. Qed.

(** * wf consequences *)

Lemma wf_sym g u v : wf g -> edge_label g u v = edge_label g v u.
Proof.
  intros (_ & _ & Hs). destruct (edge_label g u v) eqn:E1.
  - symmetry. apply Hs. exact E1.
  - destruct (edge_label g v u) eqn:E2; [|reflexivity]. apply Hs in E2. congruence.
Qed.

Lemma has_edge_sym g u v : wf g -> has_edge g u v = has_edge g v u.
Proof. intros H. unfold has_edge. rewrite (wf_sym g u v H). reflexivity. Qed.

Lemma has_edge_nodes g u v : wf g -> has_edge g u v = true -> has_node g u = true /\ has_node g v = true.
Proof.
  unfold has_edge. intros Hwf H. destruct (edge_label g u v) eqn:E; [|discriminate].
  eapply wf_edge_nodes; eauto.
Qed.

(** * add_edge on existing nodes keeps nodes and attributes *)

Lemma nodes_add_edge_present g u v l :
  has_node g u = true -> has_node g v = true -> nodes (add_edge g u v l) = nodes g.
Proof. intros Hu Hv. rewrite nodes_add_edge. cbv zeta. rewrite Hu, Hv. reflexivity. Qed.

Lemma node_attr_add_edge_present g u v l m :
  has_node g u = true -> has_node g v = true -> node_attr (add_edge g u v l) m = node_attr g m.
Proof.
  intros Hu Hv. rewrite node_attr_add_edge. destruct (node_attr g m) eqn:E; [reflexivity|].
  destruct (Z.eqb_spec m u) as [->|Hmu].
  - apply node_attr_has_node in Hu. destruct Hu as (a & Ha). congruence.
  - destruct (Z.eqb_spec m v) as [->|Hmv]; [|reflexivity].
    apply node_attr_has_node in Hv. destruct Hv as (a & Ha). congruence.
Qed.

(** * del_adj / remove_edge *)

Lemma alookup_del_adj g u v m :
  alookup m (del_adj g u v) =
  if m =? u then match alookup u g with Some (a, ad) => Some (a, adel v ad) | None => None end
  else alookup m g.
Proof.
  unfold del_adj. destruct (alookup u g) as [[a ad]|] eqn:E.
  - rewrite alookup_aset. reflexivity.
  - destruct (Z.eqb_spec m u) as [->|H]; [exact E|reflexivity].
Qed.

Lemma adj_del_adj g u v m : adj (del_adj g u v) m = if m =? u then adel v (adj g u) else adj g m.
Proof.
  unfold adj. rewrite alookup_del_adj. destruct (Z.eqb_spec m u) as [->|H]; [|reflexivity].
  destruct (alookup u g) as [[a ad]|]; reflexivity.
Qed.

Lemma nodes_del_adj g u v : nodes (del_adj g u v) = nodes g.
Proof.
  unfold del_adj, nodes. destruct (alookup u g) as [[a ad]|] eqn:E; [|reflexivity].
  eapply map_fst_aset_present. exact E.
Qed.

Lemma node_attr_del_adj g u v m : node_attr (del_adj g u v) m = node_attr g m.
Proof.
  unfold node_attr. rewrite alookup_del_adj. destruct (Z.eqb_spec m u) as [->|H]; [|reflexivity].
  destruct (alookup u g) as [[a ad]|]; reflexivity.
Qed.

Lemma edge_label_del_adj g u v x y :
  edge_label (del_adj g u v) x y = if (x =? u) && (y =? v) then None else edge_label g x y.
Proof.
  unfold edge_label. rewrite adj_del_adj. destruct (Z.eqb_spec x u) as [->|Hx]; simpl; [|reflexivity].
  rewrite alookup_adel. reflexivity.
Qed.

Lemma edge_label_remove_edge g u v x y :
  edge_label (remove_edge g u v) x y = if same_pair x y u v then None else edge_label g x y.
Proof.
  unfold remove_edge, same_pair. rewrite !edge_label_del_adj.
  destruct ((x =? v) && (y =? u)); [rewrite orb_true_r; reflexivity|].
  rewrite orb_false_r. reflexivity.
Qed.

Lemma nodes_remove_edge g u v : nodes (remove_edge g u v) = nodes g.
Proof. unfold remove_edge. rewrite !nodes_del_adj. reflexivity. Qed.

Lemma node_attr_remove_edge g u v m : node_attr (remove_edge g u v) m = node_attr g m.
Proof. unfold remove_edge. rewrite !node_attr_del_adj. reflexivity. Qed.

Lemma wf_remove_edge g u v : wf g -> wf (remove_edge g u v).
Proof.
  intros (H1 & H2 & H3). split; [|split].
  - rewrite nodes_remove_edge. exact H1.
  - intros m. unfold remove_edge. rewrite !adj_del_adj.
    destruct (m =? v); [apply NoDup_fst_adel|]; (destruct (_ =? u); [apply NoDup_fst_adel|]); apply H2.
  - intros x y l. rewrite !edge_label_remove_edge, (same_pair_swap x y).
    destruct (same_pair x y u v); [discriminate|apply H3].
Qed.

(** * set_edge_label *)

Lemma nodes_set_edge_label g u v l : nodes (set_edge_label g u v l) = nodes g.
Proof. unfold set_edge_label. destruct (has_edge g u v); [|reflexivity]. rewrite !nodes_set_adj. reflexivity. Qed.

Lemma node_attr_set_edge_label g u v l m : node_attr (set_edge_label g u v l) m = node_attr g m.
Proof.
  unfold set_edge_label. destruct (has_edge g u v); [|reflexivity]. rewrite !node_attr_set_adj. reflexivity.
Qed.

Lemma edge_label_set_edge_label g u v l x y :
  wf g ->
  edge_label (set_edge_label g u v l) x y =
  if has_edge g u v && same_pair x y u v then Some l else edge_label g x y.
Proof.
  intros Hwf. unfold set_edge_label. destruct (has_edge g u v) eqn:He; simpl; [|reflexivity].
  destruct (has_edge_nodes g u v Hwf He) as (Hu & Hv).
  rewrite edge_label_set_adj, has_node_set_adj, Hv, andb_true_r.
  rewrite edge_label_set_adj, Hu, andb_true_r. unfold same_pair.
  destruct ((x =? v) && (y =? u)); [rewrite orb_true_r; reflexivity|].
  rewrite orb_false_r. reflexivity.
Qed.

Lemma wf_set_edge_label g u v l : wf g -> wf (set_edge_label g u v l).
Proof.
  intros Hwf. pose proof Hwf as (H1 & H2 & H3). split; [|split].
  - rewrite nodes_set_edge_label. exact H1.
  - intros m. unfold set_edge_label. destruct (has_edge g u v); [|apply H2].
    rewrite adj_set_adj. destruct ((m =? v) && has_node (set_adj g u v l) v).
    + apply NoDup_fst_aset. rewrite adj_set_adj. destruct ((v =? u) && has_node g u); [apply NoDup_fst_aset|]; apply H2.
    + rewrite adj_set_adj. destruct ((m =? u) && has_node g u); [apply NoDup_fst_aset|]; apply H2.
  - intros x y l0. rewrite !edge_label_set_edge_label by exact Hwf. rewrite (same_pair_swap x y).
    destruct (has_edge g u v && same_pair x y u v); [auto|apply H3].
Qed.

(** * add_nodes_from / add_edges_from *)

Definition strip (e : Z * (nattr * adjl)) : Z * (nattr * adjl) := (fst e, (fst (snd e), [])).

Lemma add_nodes_from_fresh l : forall acc,
  NoDup (nodes acc ++ map fst l) ->
  add_nodes_from acc l = acc ++ map (fun e => (fst e, (snd e, []))) l.
Proof.
  induction l as [|[n a] t IH]; intros acc Hnd; simpl.
  - rewrite app_nil_r. reflexivity.
  - unfold add_nodes_from in *. simpl.
    assert (Hn : alookup n acc = None).
    { apply alookup_None. intros Hin. simpl in Hnd. apply NoDup_remove_2 in Hnd. apply Hnd.
      apply in_or_app. left. exact Hin. }
    unfold add_node at 2. rewrite Hn. rewrite IH.
    + rewrite <- app_assoc. reflexivity.
    + unfold nodes. rewrite map_app. simpl. rewrite <- app_assoc. simpl. exact Hnd.
Qed.

Lemma copy_unfold g : NoDup (nodes g) -> copy g = add_edges_from (map strip g) (adj_pairs g).
Proof.
  intros Hnd. unfold copy. f_equal. rewrite add_nodes_from_fresh.
  - simpl. unfold nodes_data. rewrite map_map. apply map_ext. intros [n [a ad]]. reflexivity.
  - simpl. unfold nodes_data. rewrite map_map.
    rewrite (map_ext _ fst) by (intros [n [a ad]]; reflexivity). exact Hnd.
Qed.

Lemma nodes_strip g : nodes (map strip g) = nodes g.
Proof. unfold nodes. rewrite map_map. reflexivity. Qed.

Lemma alookup_strip g n : alookup n (map strip g) = option_map (fun x => (fst x, @nil (Z * label))) (alookup n g).
Proof.
  induction g as [|[k [a ad]] t IH]; simpl; [reflexivity|]. destruct (n =? k); [reflexivity|exact IH].
Qed.

Lemma node_attr_strip g n : node_attr (map strip g) n = node_attr g n.
Proof. unfold node_attr. rewrite alookup_strip. destruct (alookup n g) as [[a ad]|]; reflexivity. Qed.

Lemma adj_strip g n : adj (map strip g) n = [].
Proof. unfold adj. rewrite alookup_strip. destruct (alookup n g) as [[a ad]|]; reflexivity. Qed.

Lemma edge_label_strip g x y : edge_label (map strip g) x y = None.
Proof. unfold edge_label. rewrite adj_strip. reflexivity. Qed.

Lemma has_node_strip g n : has_node (map strip g) n = has_node g n.
Proof. unfold has_node. rewrite alookup_strip. destruct (alookup n g); reflexivity. Qed.

Lemma wf_strip g : NoDup (nodes g) -> wf (map strip g).
Proof.
  intros H. split; [rewrite nodes_strip; exact H|]. split.
  - intros u. rewrite adj_strip. constructor.
  - intros u v l. rewrite edge_label_strip. discriminate.
Qed.

(* the label the last matching entry of an edge list carries *)
Fixpoint last_label (es : list (Z * Z * label)) (x y : Z) : option label :=
  match es with
  | [] => None
  | (u, v, l) :: t =>
      match last_label t x y with
      | Some l' => Some l'
      | None => if same_pair x y u v then Some l else None
      end
  end.

Lemma add_edges_from_cons h u v l t :
  add_edges_from h ((u, v, l) :: t) = add_edges_from (add_edge h u v l) t.
Proof. reflexivity. Qed.

Lemma edge_label_add_edges_from es : forall h x y,
  edge_label (add_edges_from h es) x y =
  match last_label es x y with Some l => Some l | None => edge_label h x y end.
Proof.
  induction es as [|[[u v] l] t IH]; intros h x y; [reflexivity|].
  rewrite add_edges_from_cons, IH. simpl. destruct (last_label t x y); [reflexivity|].
  rewrite edge_label_add_edge'. destruct (same_pair x y u v); reflexivity.
Qed.

Lemma last_label_In es x y l :
  last_label es x y = Some l -> exists u v, In (u, v, l) es /\ same_pair x y u v = true.
Proof.
  induction es as [|[[u v] l0] t IH]; simpl; [discriminate|].
  destruct (last_label t x y) as [l'|] eqn:E.
  - intros [= ->]. destruct (IH eq_refl) as (u' & v' & Hin & Hp). exists u', v'. auto.
  - destruct (same_pair x y u v) eqn:Hp; [|discriminate]. intros [= ->]. exists u, v. auto.
Qed.

Lemma last_label_None es x y :
  last_label es x y = None -> forall u v l, In (u, v, l) es -> same_pair x y u v = false.
Proof.
  induction es as [|[[u v] l0] t IH]; simpl; [intros _ ? ? ? []|].
  destruct (last_label t x y) eqn:E; [discriminate|].
  destruct (same_pair x y u v) eqn:Hp; [discriminate|]. intros _ u' v' l' [Heq|Hin].
  - injection Heq as <- <- <-. exact Hp.
  - eapply IH; eauto.
Qed.

Lemma add_edges_from_present es : forall h,
  (forall u v l, In (u, v, l) es -> has_node h u = true /\ has_node h v = true) ->
  nodes (add_edges_from h es) = nodes h
  /\ (forall m, node_attr (add_edges_from h es) m = node_attr h m)
  /\ (forall m, has_node (add_edges_from h es) m = has_node h m).
Proof.
  induction es as [|[[u v] l] t IH]; intros h Hin; [auto|].
  rewrite add_edges_from_cons.
  destruct (Hin u v l (or_introl eq_refl)) as (Hu & Hv).
  assert (Hn : forall m, has_node (add_edge h u v l) m = has_node h m).
  { intros m. rewrite has_node_add_edge.
    destruct (Z.eqb_spec m u) as [->|]; [rewrite Hu; reflexivity|].
    destruct (Z.eqb_spec m v) as [->|]; [rewrite Hv; reflexivity|]. reflexivity. }
  destruct (IH (add_edge h u v l)) as (I1 & I2 & I3).
  { intros u' v' l' H'. rewrite !Hn. apply (Hin u' v' l'). right. exact H'. }
  split; [|split].
  - rewrite I1. apply nodes_add_edge_present; assumption.
  - intros m. rewrite I2. apply node_attr_add_edge_present; assumption.
  - intros m. rewrite I3. apply Hn.
Qed.

Lemma wf_add_edges_from es : forall h, wf h -> wf (add_edges_from h es).
Proof.
  induction es as [|[[u v] l] t IH]; intros h Hwf; [exact Hwf|].
  rewrite add_edges_from_cons. apply IH. apply wf_add_edge. exact Hwf.
Qed.

(** * adj_pairs *)

Lemma in_adj_pairs_raw g u v l :
  In (u, v, l) (adj_pairs g) <-> exists a ad, In (u, (a, ad)) g /\ In (v, l) ad.
Proof.
  unfold adj_pairs. rewrite in_flat_map. split.
  - intros ([n [a ad]] & Hin & Hm). apply in_map_iff in Hm. destruct Hm as ([v' l'] & Heq & Hin2).
    injection Heq as -> -> ->. exists a, ad. auto.
  - intros (a & ad & Hin & Hin2). exists (u, (a, ad)). split; [exact Hin|].
    apply in_map_iff. exists (v, l). auto.
Qed.

Lemma in_adj_pairs g u v l : wf g -> (In (u, v, l) (adj_pairs g) <-> edge_label g u v = Some l).
Proof.
  intros Hwf. rewrite in_adj_pairs_raw. split.
  - intros (a & ad & Hin & Hin2). apply In_adj_edge_label; [exact Hwf|].
    destruct Hwf as (Hnd & _). rewrite (In_entry_adj g u a ad Hnd Hin). exact Hin2.
  - intros H. pose proof (edge_label_In_adj _ _ _ _ H) as Hin. unfold adj in Hin.
    destruct (alookup u g) as [[a ad]|] eqn:E; [|contradiction].
    exists a, ad. split; [apply alookup_In; exact E|exact Hin].
Qed.

(** * Graph.copy *)

Lemma last_label_adj_pairs g x y : wf g -> last_label (adj_pairs g) x y = edge_label g x y.
Proof.
  intros Hwf. destruct (last_label (adj_pairs g) x y) as [l|] eqn:E.
  - destruct (last_label_In _ _ _ _ E) as (u & v & Hin & Hp). apply in_adj_pairs in Hin; [|exact Hwf].
    apply same_pair_true in Hp. destruct Hp as [[-> ->]|[-> ->]]; [congruence|].
    rewrite (wf_sym g v u Hwf). congruence.
  - destruct (edge_label g x y) as [l|] eqn:E2; [|reflexivity].
    apply in_adj_pairs in E2; [|exact Hwf].
    pose proof (last_label_None _ _ _ E _ _ _ E2) as Hp. rewrite same_pair_refl in Hp. discriminate.
Qed.

Lemma edge_label_copy g x y : wf g -> edge_label (copy g) x y = edge_label g x y.
Proof.
  intros Hwf. rewrite copy_unfold by apply Hwf. rewrite edge_label_add_edges_from, last_label_adj_pairs by exact Hwf.
  rewrite edge_label_strip. destruct (edge_label g x y); reflexivity.
Qed.

Lemma copy_present g : wf g ->
  forall u v l, In (u, v, l) (adj_pairs g) -> has_node (map strip g) u = true /\ has_node (map strip g) v = true.
Proof.
  intros Hwf u v l Hin. apply in_adj_pairs in Hin; [|exact Hwf]. rewrite !has_node_strip.
  eapply wf_edge_nodes; eauto.
Qed.

Lemma nodes_copy g : wf g -> nodes (copy g) = nodes g.
Proof.
  intros Hwf. rewrite copy_unfold by apply Hwf.
  destruct (add_edges_from_present (adj_pairs g) (map strip g) (copy_present g Hwf)) as (H & _).
  rewrite H. apply nodes_strip.
Qed.

Lemma node_attr_copy g m : wf g -> node_attr (copy g) m = node_attr g m.
Proof.
  intros Hwf. rewrite copy_unfold by apply Hwf.
  destruct (add_edges_from_present (adj_pairs g) (map strip g) (copy_present g Hwf)) as (_ & H & _).
  rewrite H. apply node_attr_strip.
Qed.

Lemma has_node_copy g m : wf g -> has_node (copy g) m = has_node g m.
Proof.
  intros Hwf. rewrite copy_unfold by apply Hwf.
  destruct (add_edges_from_present (adj_pairs g) (map strip g) (copy_present g Hwf)) as (_ & _ & H).
  rewrite H. apply has_node_strip.
Qed.

Lemma wf_copy g : wf g -> wf (copy g).
Proof.
  intros Hwf. rewrite copy_unfold by apply Hwf. apply wf_add_edges_from. apply wf_strip. apply Hwf.
Qed.

(** * a pair occurs in an edge list *)

Definition pair_in (es : list (Z * Z * label)) (x y : Z) : bool :=
  existsb (fun e => same_pair x y (fst (fst e)) (snd (fst e))) es.

Lemma pair_in_true es x y :
  pair_in es x y = true <-> exists u v l, In (u, v, l) es /\ same_pair x y u v = true.
Proof.
  unfold pair_in. rewrite existsb_exists. split.
  - intros ([[u v] l] & Hin & Hp). exists u, v, l. auto.
  - intros (u & v & l & Hin & Hp). exists (u, v, l). auto.
Qed.

Lemma pair_in_edges g x y : wf g -> pair_in (edges g) x y = has_edge g x y.
Proof.
  intros Hwf. unfold has_edge. destruct (pair_in (edges g) x y) eqn:E.
  - apply pair_in_true in E. destruct E as (u & v & l & Hin & Hp).
    apply in_edges_label in Hin; [|exact Hwf]. apply same_pair_true in Hp.
    destruct Hp as [[-> ->]|[-> ->]]; [rewrite Hin; reflexivity|].
    rewrite (wf_sym g v u Hwf), Hin. reflexivity.
  - destruct (edge_label g x y) as [l|] eqn:E2; [|reflexivity].
    destruct (edges_complete g x y l Hwf E2) as [Hin|Hin].
    + assert (pair_in (edges g) x y = true) by (apply pair_in_true; exists x, y, l; split; [exact Hin|apply same_pair_refl]).
      congruence.
    + assert (pair_in (edges g) x y = true).
      { apply pair_in_true. exists y, x, l. split; [exact Hin|]. rewrite same_pair_swap2. apply same_pair_refl. }
      congruence.
Qed.
