(** prune_rc (fgutils.torch.utils): pruning around the reaction centre of a tensor sample.
    The start set is exactly the set of source nodes of the edge columns whose two bond components differ, in
    ascending order without repeats; the result is then what C18_torch_prune_spec says about prune for that
    start set: the tensor form of the subgraph induced by the nodes within [radius] steps of the reaction centre. *)
From Coq Require Import ZArith List Bool Lia.
From FGV Require Import Base.Util Base.Bond Base.NX Model.Torch Spec.TorchSpec Spec.TorchCheck
  Proofs.TorchInduced Proofs.TorchPrune.
Import ListNotations.
Open Scope Z_scope.

(* a changing column: position i of edge_index / edge_attr with edge_attr[i][0] <> edge_attr[i][1] *)
Definition rc_source (t : tdata) (ea : list (list Z)) (v : Z) : Prop :=
  exists w row, In ((v, w), row) (combine (t_ei t) ea) /\ nth 0 row 0 <> nth 1 row 0.

Lemma rc_start_nodes_spec t st :
  rc_start_nodes t = Ok st ->
  exists ea, t_ea t = Some ea /\ ea <> [] /\ List.length ea = List.length (t_ei t) /\
    (forall r, In r ea -> List.length r = 2%nat) /\
    strictly_ascending st /\ (forall v, In v st <-> rc_source t ea v).
Proof.
  unfold rc_start_nodes. destruct (t_ea t) as [[|r0 ea']|] eqn:Eea; try discriminate.
  set (ea := r0 :: ea') in *.
  destruct (forallb (fun r : list Z => Nat.eqb (List.length r) 2) ea) eqn:Ew; cbn [andb]; [|discriminate].
  destruct (Nat.eqb (List.length ea) (List.length (t_ei t))) eqn:El; [|discriminate].
  intros H. injection H as <-. exists ea. split; [reflexivity|]. split; [discriminate|].
  split; [apply Nat.eqb_eq; exact El|]. split.
  - intros r Hr. rewrite forallb_forall in Ew. apply Nat.eqb_eq. apply Ew. exact Hr.
  - split; [apply ssorted_ascending, unique_sorted_ssorted|].
    intros v. rewrite unique_sorted_In, in_map_iff. split.
    + intros (c & Hc & Hin). apply filter_In in Hin. destruct Hin as (Hin & Hrc).
      destruct c as [[a w] row]. cbn in Hc. subst a. exists w, row. split; [exact Hin|].
      unfold rc_col in Hrc. cbn in Hrc. apply negb_true_iff in Hrc. apply Z.eqb_neq. exact Hrc.
    + intros (w & row & Hin & Hne). exists ((v, w), row). split; [reflexivity|].
      apply filter_In. split; [exact Hin|]. unfold rc_col. cbn. apply negb_true_iff. apply Z.eqb_neq. exact Hne.
Qed.

(* every start node prune_rc computes is a node position when the columns are in range *)
Lemma rc_start_in_range t st :
  cols_in_range t -> rc_start_nodes t = Ok st ->
  forall s, In s st -> 0 <= s < Z.of_nat (List.length (t_x t)).
Proof.
  intros Hc H s Hs. destruct (rc_start_nodes_spec t st H) as (ea & _ & _ & _ & _ & _ & Hin).
  apply Hin in Hs. destruct Hs as (w & row & Hcomb & _). apply in_combine_l in Hcomb.
  exact (proj1 (Hc _ Hcomb)).
Qed.

Theorem torch_prune_rc_ok t radius :
  cols_in_range t ->
  forall st, rc_start_nodes t = Ok st ->
  exists t', prune_rc t radius = Ok t' /\ prune_spec t st radius t'.
Proof.
  intros Hc st Hst. unfold prune_rc. rewrite Hst. cbn [bind].
  destruct (rc_start_nodes_spec t st Hst) as (ea & Hea & _ & Hlen & _).
  apply torch_prune_ok; [exact Hc | exact (rc_start_in_range t st Hc Hst) | right; exists ea; split; assumption].
Qed.

(* no changing bond: nothing is kept *)
Lemma rc_start_nodes_none t st :
  rc_start_nodes t = Ok st ->
  (forall ea, t_ea t = Some ea -> forall c, In c (combine (t_ei t) ea) -> nth 0 (snd c) 0 = nth 1 (snd c) 0) ->
  st = [].
Proof.
  intros H Hall. destruct (rc_start_nodes_spec t st H) as (ea & Hea & _ & _ & _ & _ & Hin).
  destruct st as [|v st']; [reflexivity|exfalso].
  destruct (proj1 (Hin v) (or_introl eq_refl)) as (w & row & Hc & Hne).
  apply Hne. exact (Hall ea Hea _ Hc).
Qed.
