(** networkx.MultiGraph model: what the key dictionaries look like after add_node / add_edge,
    and the parallel edges of the graph a chain denotes ([denote_multi_edges]): between two
    atoms there is one edge per written bond, keyed 0, 1, 2, .. in textual order. *)
From Coq Require Import ZArith List Bool String Lia.
From FGV Require Import Base.Util Base.UtilFacts Base.Bond Base.NX Base.NXFacts
                        Model.NXMulti Model.GraphOps Spec.ParseSpec
                        Proofs.ParseMachine Proofs.GraphLaws Proofs.ParseProofs.
Import ListNotations.
Open Scope Z_scope.

Definition mhas (g : mgraph) (n : Z) : bool := is_some (alookup n g).

Lemma alookup_mensure g n m :
  alookup m (mensure_node g n) =
  match alookup m g with Some x => Some x | None => if m =? n then Some (na_empty, []) else None end.
Proof.
  unfold mensure_node. destruct (alookup n g) eqn:E.
  - destruct (alookup m g) eqn:E2; [reflexivity|]. destruct (Z.eqb_spec m n); [congruence|reflexivity].
  - rewrite alookup_app. simpl. destruct (alookup m g); reflexivity.
Qed.

Lemma madj_mensure g n m : madj (mensure_node g n) m = madj g m.
Proof.
  unfold madj. rewrite alookup_mensure. destruct (alookup m g) as [[a ad]|]; [reflexivity|].
  destruct (m =? n); reflexivity.
Qed.

Lemma mhas_mensure g n m : mhas (mensure_node g n) m = (m =? n) || mhas g m.
Proof.
  unfold mhas. rewrite alookup_mensure. destruct (alookup m g); simpl; [symmetry; apply orb_true_r|].
  destruct (m =? n); reflexivity.
Qed.

Lemma alookup_mset_adj g u v kd m :
  alookup m (mset_adj g u v kd) =
  if m =? u then match alookup u g with Some (a, ad) => Some (a, aset v kd ad) | None => None end
  else alookup m g.
Proof.
  unfold mset_adj. destruct (alookup u g) as [[a ad]|] eqn:E.
  - rewrite alookup_aset. reflexivity.
  - destruct (Z.eqb_spec m u) as [->|H]; [exact E|reflexivity].
Qed.

Lemma madj_mset_adj g u v kd m :
  madj (mset_adj g u v kd) m = if (m =? u) && mhas g u then aset v kd (madj g u) else madj g m.
Proof.
  unfold madj, mhas. rewrite alookup_mset_adj. destruct (Z.eqb_spec m u) as [->|H]; simpl; [|reflexivity].
  destruct (alookup u g) as [[a ad]|]; reflexivity.
Qed.

Lemma mhas_mset_adj g u v kd m : mhas (mset_adj g u v kd) m = mhas g m.
Proof.
  unfold mhas. rewrite alookup_mset_adj. destruct (Z.eqb_spec m u) as [->|H]; [|reflexivity].
  destruct (alookup u g) as [[a ad]|]; reflexivity.
Qed.

Lemma mkeydict_mset_adj g u v kd x y :
  mkeydict (mset_adj g u v kd) x y =
  if (x =? u) && (y =? v) && mhas g u then Some kd else mkeydict g x y.
Proof.
  unfold mkeydict. rewrite madj_mset_adj.
  destruct (Z.eqb_spec x u) as [->|Hx]; simpl; [|reflexivity].
  destruct (mhas g u) eqn:Hn; simpl.
  - rewrite alookup_aset. destruct (y =? v); reflexivity.
  - rewrite andb_false_r. reflexivity.
Qed.

Lemma madj_madd_node g n a m : madj (madd_node g n a) m = madj g m.
Proof.
  unfold madj, madd_node. destruct (alookup n g) as [[a0 ad]|] eqn:E.
  - rewrite alookup_aset. destruct (Z.eqb_spec m n) as [->|H]; [rewrite E|]; reflexivity.
  - rewrite alookup_app. simpl. destruct (alookup m g) as [[b bd]|] eqn:E2; [reflexivity|].
    destruct (m =? n); reflexivity.
Qed.

Lemma mkeydict_madd_node g n a x y : mkeydict (madd_node g n a) x y = mkeydict g x y.
Proof. unfold mkeydict. rewrite madj_madd_node. reflexivity. Qed.

Definition new_kd (g : mgraph) (u v key : Z) (l : label) : keydict :=
  match mkeydict g u v with Some kd0 => aset key l kd0 | None => [(key, l)] end.

Lemma mkeydict_madd_edge g u v l g' :
  madd_edge g u v l = Some g' ->
  exists key, new_edge_key (mensure_node (mensure_node g u) v) u v = Some key /\
  forall x y, mkeydict g' x y =
    if ((x =? u) && (y =? v)) || ((x =? v) && (y =? u)) then Some (new_kd g u v key l)
    else mkeydict g x y.
Proof.
  unfold madd_edge. set (g1 := mensure_node (mensure_node g u) v).
  destruct (new_edge_key g1 u v) as [key|] eqn:Ek; [|discriminate]. intros [= <-].
  exists key. split; [reflexivity|]. intros x y.
  assert (Hu : mhas g1 u = true).
  { unfold g1. rewrite !mhas_mensure, Z.eqb_refl. simpl. apply orb_true_r. }
  assert (Hv : mhas g1 v = true).
  { unfold g1. rewrite !mhas_mensure, Z.eqb_refl. reflexivity. }
  assert (Hkd : forall a b, mkeydict g1 a b = mkeydict g a b).
  { intros a b. unfold mkeydict, g1. rewrite !madj_mensure. reflexivity. }
  rewrite mkeydict_mset_adj, mhas_mset_adj, Hv, andb_true_r.
  rewrite mkeydict_mset_adj, Hu, andb_true_r, !Hkd. unfold new_kd.
  destruct ((x =? v) && (y =? u)); destruct ((x =? u) && (y =? v)); reflexivity.
Qed.

(** ** invariants of a MultiGraph built by add_node / add_edge *)

Definition Keys (g : mgraph) : Prop :=
  forall u v kd, mkeydict g u v = Some kd -> map fst kd = map Z.of_nat (seq 0 (List.length kd)).
Definition Symm (g : mgraph) : Prop := forall u v, mkeydict g u v = mkeydict g v u.
Definition MInv (g : mgraph) : Prop := Keys g /\ Symm g.

Lemma MInv_empty : MInv mempty.
Proof. split; [intros u v kd H; discriminate|intros u v; reflexivity]. Qed.

Lemma MInv_add_node g n a : MInv g -> MInv (madd_node g n a).
Proof.
  intros [HK HS]. split.
  - intros u v kd. rewrite mkeydict_madd_node. apply HK.
  - intros u v. rewrite !mkeydict_madd_node. apply HS.
Qed.

Lemma zmem_seq_fresh n : zmem (Z.of_nat n) (map Z.of_nat (seq 0 n)) = false.
Proof.
  apply zmem_false. rewrite in_map_iff. intros (i & Hi & Hin). apply in_seq in Hin. lia.
Qed.

Lemma aset_fresh {A} k (a : A) l : zmem k (map fst l) = false -> aset k a l = (l ++ [(k, a)])%list.
Proof.
  induction l as [|[k' a'] t IH]; simpl; [reflexivity|].
  intros H. apply orb_false_iff in H. destruct H as [Hk Ht]. rewrite Hk, (IH Ht). reflexivity.
Qed.

(* the key chosen by new_edge_key, and the new key dictionary *)
Lemma new_kd_spec g u v l key :
  Keys g -> new_edge_key (mensure_node (mensure_node g u) v) u v = Some key ->
  let old := match mkeydict g u v with Some kd => kd | None => [] end in
  key = Z.of_nat (List.length old) /\ new_kd g u v key l = (old ++ [(key, l)])%list.
Proof.
  intros HK. unfold new_edge_key, new_kd.
  assert (Hkd : mkeydict (mensure_node (mensure_node g u) v) u v = mkeydict g u v).
  { unfold mkeydict. rewrite !madj_mensure. reflexivity. }
  rewrite Hkd. destruct (mkeydict g u v) as [kd|] eqn:E.
  - pose proof (HK _ _ _ E) as Hkeys. cbn [next_key]. rewrite Hkeys, zmem_seq_fresh. intros [= <-].
    cbv zeta. split; [reflexivity|]. apply aset_fresh. rewrite Hkeys. apply zmem_seq_fresh.
  - intros [= <-]. split; reflexivity.
Qed.

Lemma keys_snoc (kd : keydict) l :
  map fst kd = map Z.of_nat (seq 0 (List.length kd)) ->
  map fst (kd ++ [(Z.of_nat (List.length kd), l)])%list
  = map Z.of_nat (seq 0 (List.length (kd ++ [(Z.of_nat (List.length kd), l)])%list)).
Proof.
  intros H. rewrite map_app, app_length. simpl. rewrite Nat.add_1_r, seq_S, map_app, H. reflexivity.
Qed.

Lemma MInv_add_edge g u v l g' : MInv g -> madd_edge g u v l = Some g' -> MInv g'.
Proof.
  intros [HK HS] H. destruct (mkeydict_madd_edge _ _ _ _ _ H) as (key & Hkey & Hkd).
  destruct (new_kd_spec g u v l key HK Hkey) as [Hk Hnew]. cbv zeta in *.
  split.
  - intros x y kd. rewrite Hkd.
    destruct (((x =? u) && (y =? v)) || ((x =? v) && (y =? u))); [|apply HK].
    intros [= <-]. rewrite Hnew, Hk. destruct (mkeydict g u v) as [kd0|] eqn:E.
    + apply keys_snoc. eapply HK. exact E.
    + reflexivity.
  - intros x y. rewrite !Hkd.
    rewrite (orb_comm ((y =? u) && (x =? v))).
    rewrite (andb_comm (y =? v)), (andb_comm (y =? u)).
    destruct (((x =? u) && (y =? v)) || ((x =? v) && (y =? u))); [reflexivity|apply HS].
Qed.

(** ** parallel edges of the graph built from a list of operations *)

(* labels of the bonds written between positions x and y, in textual order *)
Definition hit_labels (x y : Z) (l : list aop) : list label :=
  flat_map (fun o => match o with
                     | AEdge _ _ lb => if hits x y o then [lb] else []
                     | ANode _ _ => []
                     end) l.

Lemma mlabels_add_edge g u v l g' x y :
  MInv g -> madd_edge g u v l = Some g' ->
  mlabels g' x y =
  if ((x =? u) && (y =? v)) || ((x =? v) && (y =? u)) then (mlabels g x y ++ [l])%list else mlabels g x y.
Proof.
  intros [HK HS] H. destruct (mkeydict_madd_edge _ _ _ _ _ H) as (key & Hkey & Hkd).
  destruct (new_kd_spec g u v l key HK Hkey) as [Hk Hnew]. cbv zeta in *.
  unfold mlabels. rewrite Hkd.
  destruct (((x =? u) && (y =? v)) || ((x =? v) && (y =? u))) eqn:E; [|reflexivity].
  rewrite Hnew, map_app. simpl.
  assert (Hxy : mkeydict g x y = mkeydict g u v).
  { apply orb_true_iff in E. rewrite !andb_true_iff, !Z.eqb_eq in E.
    destruct E as [[-> ->]|[-> ->]]; [reflexivity|apply HS]. }
  rewrite Hxy. destruct (mkeydict g u v); reflexivity.
Qed.

Lemma fold_apply_None {G} (ops : gops G) l : fold_left (apply_op ops) l None = None.
Proof. induction l; simpl; auto. Qed.

Lemma mlabels_fold off aam x y : forall l g g',
  MInv g ->
  fold_left (apply_op multi_ops) (map (realise off aam) l) (Some g) = Some g' ->
  MInv g' /\ mlabels g' (x + off) (y + off) = (mlabels g (x + off) (y + off) ++ hit_labels x y l)%list.
Proof.
  induction l as [|o l IH]; intros g g' HI H.
  - simpl in H. injection H as <-. split; [exact HI|]. simpl. rewrite app_nil_r. reflexivity.
  - simpl in H. destruct o as [p a|u v lb]; simpl in H.
    + destruct (IH _ _ (MInv_add_node g (p + off) (atom_attr aam (p + off) a) HI) H) as [HI' Hl].
      split; [exact HI'|]. rewrite Hl. unfold mlabels. rewrite mkeydict_madd_node. reflexivity.
    + destruct (madd_edge g (u + off) (v + off) lb) as [g1|] eqn:E;
        [|rewrite fold_apply_None in H; discriminate].
      pose proof (MInv_add_edge _ _ _ _ _ HI E) as HI1.
      destruct (IH _ _ HI1 H) as [HI' Hl]. split; [exact HI'|]. rewrite Hl.
      rewrite (mlabels_add_edge _ _ _ _ _ _ _ HI E), !eqb_shift.
      change (hit_labels x y (AEdge u v lb :: l))
        with ((if hits x y (AEdge u v lb) then [lb] else []) ++ hit_labels x y l)%list.
      simpl hits. destruct (((x =? u) && (y =? v)) || ((x =? v) && (y =? u))).
      * rewrite <- app_assoc. reflexivity.
      * reflexivity.
Qed.

(* use_multigraph=True: between the atoms at positions p and q the parsed MultiGraph has one
   edge per bond written between them, with keys 0, 1, 2, .. and the written orders, in
   textual order (and the same from both ends) *)
Theorem denote_multi_edges aam off t g p q :
  denote_multi off aam t = Some g ->
  mlabels g (p + off) (q + off) = hit_labels p q (sem t) /\
  (forall kd, mkeydict g (p + off) (q + off) = Some kd ->
              map fst kd = map Z.of_nat (seq 0 (List.length kd))) /\
  mkeydict g (p + off) (q + off) = mkeydict g (q + off) (p + off).
Proof.
  intros H. unfold denote_multi, build in H.
  destruct (mlabels_fold off aam p q (sem t) mempty g MInv_empty H) as [[HK HS] Hl].
  split; [exact Hl|]. split; [intros kd; apply HK|apply HS].
Qed.
