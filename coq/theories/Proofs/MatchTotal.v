(** Totality of the sub-graph matcher model (Model/Match.v): on well-formed graphs whose nodes all
    carry a symbol the matcher functions return [Ok _] -- no exception value (KeyError / IndexError)
    and no out-of-fuel value -- for EVERY mapper (can_map_to_nothing arbitrary).  For
    map_subgraph_to_graph the host ids have to be 0..n-1, which is what its loop iterates. *)
From Coq Require Import ZArith List Bool String Lia.
From FGV Require Import Base.Util Base.UtilFacts Base.Bond Base.NX Base.Sym Model.Permute Model.Match
  Spec.Embedding Spec.PermuteAssign Proofs.NXLookup Proofs.PermuteNil Proofs.MatchTheorems.
Import ListNotations.
Open Scope Z_scope.
Open Scope list_scope.

Section Total.
  Variables G P : graph.
  Variable mp : mapper.
  Hypothesis HwfG : wfb G = true.
  Hypothesis HwfP : wfb P = true.
  Hypothesis HsG : has_syms G.
  Hypothesis HsP : has_syms P.

  (* map_anchored_subgraph never raises when both anchors are nodes *)
  Theorem map_anchored_subgraph_total a pa :
    In a (nodes G) -> In pa (nodes P) ->
    exists b pairs vis, map_anchored_subgraph G P mp a pa = Ok (b, pairs, vis).
  Proof.
    intros Na Npa.
    destruct (anchored_total G P mp HwfP HwfG (permute_sound mp) a pa HsP HsG Na Npa) as [[[b m] v] H].
    eauto.
  Qed.

  Lemma anchors_loop_total a l :
    In a (nodes G) -> (forall p, In p l -> In p (nodes P)) ->
    exists rs, anchors_loop G P mp a l = Ok rs /\ List.length rs = List.length l.
  Proof.
    intros Na. induction l as [|p t IH]; intros Hl; simpl.
    - exists []. auto.
    - destruct (map_anchored_subgraph_total a p Na (Hl p (or_introl eq_refl))) as (b & m & v & ->).
      destruct IH as (rs & -> & Hlen); [intros; apply Hl; right; assumption|].
      exists ((b, m) :: rs). simpl. auto.
  Qed.

  (* map_subgraph: with or without a pattern anchor *)
  Theorem map_subgraph_total a spa :
    In a (nodes G) -> (forall pa, spa = Some pa -> In pa (nodes P)) ->
    exists rs, map_subgraph G P mp a spa = Ok rs.
  Proof.
    intros Na Hspa. unfold map_subgraph. destruct spa as [pa|].
    - destruct (map_anchored_subgraph_total a pa Na (Hspa pa eq_refl)) as (b & m & v & ->). eauto.
    - destruct P as [|e t] eqn:EP; [eauto|]. rewrite <- EP in *.
      destruct (anchors_loop_total a (nodes P) Na (fun p H => H)) as (rs & -> & _).
      destruct rs; eauto.
  Qed.

  Lemma to_graph_loop_total l :
    (forall i, In i l -> In i (nodes G)) -> exists b, to_graph_loop G P mp l = Ok b.
  Proof.
    induction l as [|i t IH]; intros Hl; [simpl; eauto|]. cbn [to_graph_loop].
    destruct (map_subgraph_total i None (Hl i (or_introl eq_refl))) as [rs Hrs]; [discriminate|].
    rewrite Hrs. destruct (existsb fst rs); [eauto|]. apply IH. intros; apply Hl; right; assumption.
  Qed.

  (* map_subgraph_to_graph: the host's ids are 0..n-1 *)
  Theorem map_subgraph_to_graph_total :
    (forall i, 0 <= i < Z.of_nat (List.length G) -> In i (nodes G)) ->
    exists b, map_subgraph_to_graph G P mp = Ok b.
  Proof.
    intros Hids. unfold map_subgraph_to_graph. apply to_graph_loop_total.
    intros i Hi. apply Hids. apply in_map_iff in Hi. destruct Hi as (k & <- & Hk). apply in_seq in Hk. lia.
  Qed.
End Total.

(** the two ways of saying "ids are 0..n-1" coincide on well-formed graphs (pigeonhole) *)
Lemma ids_range_of_contig (G : graph) :
  wfb G = true -> (forall n, In n (nodes G) -> 0 <= n < Z.of_nat (List.length G)) ->
  forall i, 0 <= i < Z.of_nat (List.length G) -> In i (nodes G).
Proof.
  intros Hwf Hcon i Hi.
  set (r := map Z.of_nat (seq 0 (List.length G))).
  assert (Hincl : incl (nodes G) r).
  { intros n Hn. apply Hcon in Hn. unfold r. apply in_map_iff. exists (Z.to_nat n). split; [lia|].
    apply in_seq. lia. }
  assert (Hlen : (List.length r <= List.length (nodes G))%nat).
  { unfold r, nodes. rewrite !map_length, seq_length. lia. }
  apply (NoDup_length_incl (wfb_nodes_nodup G Hwf) Hlen Hincl).
  unfold r. apply in_map_iff. exists (Z.to_nat i). split; [lia|]. apply in_seq. lia.
Qed.

(* the form used for parsed graphs: ids inside 0..n-1 *)
Theorem map_subgraph_to_graph_total_contig G P mp :
  wfb G = true -> wfb P = true -> has_syms G -> has_syms P ->
  (forall n, In n (nodes G) -> 0 <= n < Z.of_nat (List.length G)) ->
  exists b, map_subgraph_to_graph G P mp = Ok b.
Proof.
  intros HG HP HsG HsP Hcon. apply map_subgraph_to_graph_total; auto.
  apply ids_range_of_contig; assumption.
Qed.
