(** Soundness of the decidable checker of Spec/RdkitCheck.v: what it accepts satisfies the
    declarative specification of Spec/RdkitSpec.v. *)
From Coq Require Import ZArith List Bool String Lia.
From FGV Require Import Base.Util Base.UtilFacts Base.Bond Base.NX Base.NXFacts
  Model.Rdkit Spec.RdkitRef Spec.RdkitSpec Spec.RdkitCheck.
Import ListNotations.
Open Scope Z_scope.
Open Scope list_scope.

Lemma option_eqb_sound' {A} (eqb : A -> A -> bool) :
  (forall a b, eqb a b = true -> a = b) -> forall x y, option_eqb eqb x y = true -> x = y.
Proof. intros H [a|] [b|]; simpl; try discriminate; auto. intros E. f_equal. auto. Qed.

Lemma list_eqb_sound' {A} (eqb : A -> A -> bool) :
  (forall a b, eqb a b = true -> a = b) -> forall x y, list_eqb eqb x y = true -> x = y.
Proof.
  intros H. induction x as [|a x IH]; intros [|b y]; simpl; try discriminate; auto.
  intros E. apply andb_true_iff in E. destruct E as [E1 E2]. f_equal; auto.
Qed.

Lemma nattr_eqb_sound a b : nattr_eqb a b = true -> a = b.
Proof.
  unfold nattr_eqb. rewrite !andb_true_iff. intros [[[[H1 H2] H3] H4] H5].
  destruct a as [s1 k1 l1 b1 i1], b as [s2 k2 l2 b2 i2]; cbn [a_sym a_aam a_labels a_islab a_idxmap] in *. f_equal.
  - revert H1. apply option_eqb_sound'. intros x y; apply String.eqb_eq.
  - revert H2. apply option_eqb_sound'. intros x y; apply Z.eqb_eq.
  - revert H3. apply option_eqb_sound'. apply list_eqb_sound'. intros x y; apply String.eqb_eq.
  - revert H4. apply option_eqb_sound'. intros x y; apply Bool.eqb_prop.
  - revert H5. apply option_eqb_sound'. intros [x1 x2] [y1 y2]; simpl. rewrite andb_true_iff, !Z.eqb_eq.
    intros [-> ->]. reflexivity.
Qed.

(** * the domain *)

Lemma node_okb_sound ig d : node_okb ig d = true -> node_ok chem_atom ig d.
Proof.
  unfold node_okb, node_ok. rewrite !andb_true_iff. intros [[H1 H2] H3].
  destruct (a_sym d) as [s|]; [|discriminate]. split; [|split].
  - exists s. split; [reflexivity|]. revert H1. apply option_eqb_sound'. intros x y; apply String.eqb_eq.
  - apply negb_true_iff in H2. exact H2.
  - intros -> k Hk. rewrite Hk in H3. simpl in H3. apply Z.leb_le. exact H3.
Qed.

Lemma edges_okb_sound g :
  edges_okb g = true ->
  (forall u v l, edge_label g u v = Some l -> supported_label l = true)
  /\ (forall u, edge_label g u u = None).
Proof.
  unfold edges_okb. rewrite forallb_forall. intros H.
  assert (Hgen : forall u v l, edge_label g u v = Some l -> supported_label l = true /\ v <> u).
  { intros u v l Hl. unfold edge_label, adj in Hl.
    destruct (alookup u g) as [[a ad]|] eqn:E; [|discriminate].
    apply alookup_In in E. specialize (H _ E). cbn beta iota in H. rewrite forallb_forall in H.
    apply alookup_In in Hl. specialize (H _ Hl). cbn beta iota in H.
    apply andb_true_iff in H. destruct H as [H1 H2]. split; [exact H1|].
    apply negb_true_iff in H2. apply Z.eqb_neq. exact H2. }
  split.
  - intros u v l Hl. apply (Hgen u v l Hl).
  - intros u. destruct (edge_label g u u) as [l|] eqn:E; [|reflexivity].
    destruct (Hgen u u l E) as (_ & Hne). congruence.
Qed.

Lemma molecularb_sound ig g : molecularb ig g = true -> wf g /\ bridge_domain chem_atom ig g.
Proof.
  unfold molecularb. rewrite !andb_true_iff. intros [[H1 H2] H3]. split; [apply wfb_wf; exact H1|].
  destruct (edges_okb_sound g H3) as (H4 & H5). split; [|split; assumption].
  intros n a ad Hin. rewrite forallb_forall in H2. apply node_okb_sound. apply (H2 _ Hin).
Qed.

Lemma refusal_domainb_sound ig g : refusal_domainb ig g = true -> refusal_domain chem_atom ig g.
Proof.
  unfold refusal_domainb, refusal_domain. rewrite forallb_forall. intros H n a ad Hin.
  specialize (H _ Hin). cbn [fst snd] in H. apply orb_true_iff in H. destruct H as [H|H].
  - left. unfold placeholderb in H. rewrite !andb_true_iff in H. destruct H as [[H1 H2] H3].
    unfold labelled. destruct (a_islab a) as [[|]|]; try discriminate.
    destruct (a_sym a); [|discriminate]. destruct (a_labels a); [|discriminate].
    repeat split; congruence.
  - right. apply node_okb_sound. exact H.
Qed.

(** * the round trip *)

Lemma in_enumerate_gen {A} : forall (l : list A) b i x,
  nth_error l i = Some x -> In (Z.of_nat (b + i), x) (combine (map Z.of_nat (seq b (List.length l))) l).
Proof.
  induction l as [|y t IH]; intros b [|i] x H; cbn [nth_error] in H; try discriminate;
    cbn [List.length seq map combine].
  - injection H as ->. left. rewrite Nat.add_0_r. reflexivity.
  - right. replace (b + S i)%nat with (S b + i)%nat by lia. apply IH. exact H.
Qed.

Lemma in_enumerate {A} (l : list A) i x : nth_error l i = Some x -> In (Z.of_nat i, x) (enumerate l).
Proof. intros H. apply (in_enumerate_gen l 0 i x H). Qed.

Theorem roundtrip_okb_sound ig g g' :
  roundtrip_okb ig g g' = true -> roundtrip_spec ig g g' /\ wf g'.
Proof.
  unfold roundtrip_okb. rewrite !andb_true_iff. intros [[[H1 H2] H3] H4].
  pose proof (wfb_wf g' H4) as Hwf'. split; [|exact Hwf']. split; [|split; [|split]].
  - revert H1. apply list_eqb_sound'. intros x y; apply Z.eqb_eq.
  - intros i n a ad Hnth. rewrite forallb_forall in H2.
    specialize (H2 _ (in_enumerate g i _ Hnth)). cbn beta iota in H2.
    revert H2. apply option_eqb_sound'. apply nattr_eqb_sound.
  - intros i j u v Hi Hj. rewrite forallb_forall in H3.
    specialize (H3 _ (in_enumerate _ i _ Hi)). cbn beta iota in H3. rewrite forallb_forall in H3.
    specialize (H3 _ (in_enumerate _ j _ Hj)). cbn beta iota in H3.
    revert H3. apply option_eqb_sound'. intros x y; apply label_eqb_eq.
  - intros x y l Hl. destruct (wf_edge_nodes g' x y l Hwf' Hl) as (Hx & Hy).
    split; apply has_node_In; assumption.
Qed.

Lemma has_placeholderb_spec g :
  has_placeholderb g = true <-> exists n a ad, In (n, (a, ad)) g /\ labelled a.
Proof.
  unfold has_placeholderb, labelled. rewrite existsb_exists. split.
  - intros ([n [a ad]] & Hin & H). cbn [fst snd] in H. exists n, a, ad. split; [exact Hin|].
    destruct (a_islab a) as [[|]|]; try discriminate. reflexivity.
  - intros (n & a & ad & Hin & H). exists (n, (a, ad)). split; [exact Hin|]. cbn [fst snd]. rewrite H. reflexivity.
Qed.

Lemma molecularb_refusal ig g :
  molecularb ig g = true -> refusal_domainb ig g = true /\ has_placeholderb g = false.
Proof.
  unfold molecularb, refusal_domainb, has_placeholderb. rewrite !andb_true_iff. intros [[_ H] _].
  rewrite forallb_forall in H. split.
  - apply forallb_forall. intros e He. rewrite (H e He). apply orb_true_r.
  - destruct (existsb _ g) eqn:E; [|reflexivity]. apply existsb_exists in E. destruct E as (e & He & Hl).
    specialize (H e He). unfold node_okb in H. rewrite !andb_true_iff in H. destruct H as [[_ H] _].
    rewrite Hl in H. discriminate.
Qed.

(* accepted output on a molecular graph: a graph that satisfies the round-trip clause *)
Theorem bridge_okb_sound_roundtrip g ig out :
  molecularb ig g = true -> bridge_okb g ig out = true ->
  exists g', out = Ok g' /\ roundtrip_spec ig g g' /\ wf g'.
Proof.
  intros Hm. unfold bridge_okb. destruct (molecularb_refusal ig g Hm) as (-> & ->). rewrite Hm.
  destruct out as [g'|e]; [|discriminate]. intros H. exists g'. split; [reflexivity|].
  apply roundtrip_okb_sound. exact H.
Qed.

(* accepted output on a graph with a labelled placeholder node: the ValueError *)
Theorem bridge_okb_sound_refusal g ig (out : res graph) :
  refusal_domainb ig g = true -> (exists n a ad, In (n, (a, ad)) g /\ labelled a) ->
  bridge_okb g ig out = true -> out = Err ValueError.
Proof.
  intros Hd Hl. apply has_placeholderb_spec in Hl. unfold bridge_okb. rewrite Hd, Hl.
  destruct out as [g'|e]; simpl; [discriminate|]. destruct e; simpl; try discriminate. reflexivity.
Qed.
