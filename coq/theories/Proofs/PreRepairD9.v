(** Regression witness for defect D9: before the repair the sort key ended in
    hash(pattern_str).  With the key comparison of the tree construction parameterised by a
    "hash" function [h], two functions give different answers for O=CCl. *)
From Coq Require Import ZArith List Bool String.
From FGV Require Import Base.Util Base.Bond Base.NX Model.Permute Model.Match Model.FGTree Model.FGDefaultCfg
                        Model.Query.
Import ListNotations.
Open Scope Z_scope.

(* (pattern_len, len(pattern), hash(pattern_str)) *)
Definition old_cfg_ltb (h : string -> Z) (a b : fgconfig) : bool :=
  if negb (pattern_len a =? pattern_len b) then pattern_len a <? pattern_len b
  else if negb (number_of_nodes (fg_pattern a) =? number_of_nodes (fg_pattern b))
       then number_of_nodes (fg_pattern a) <? number_of_nodes (fg_pattern b)
       else h (fg_pattern_str a) <? h (fg_pattern_str b).

Definition old_query (h : string -> Z) (req_h : bool) (g : graph) : res groups :=
  tr <- build_tree (is_subgroup default_mapper) (old_cfg_ltb h) default_configs ;;
  get_functional_groups_with default_mapper tr req_h g.

Open Scope string_scope.
(* O=CCl *)
Definition formyl_chloride : graph :=
  [(0, (na_sym "O", [(1, Scalar 4)])); (1, (na_sym "C", [(0, Scalar 4); (2, Scalar 2)]));
   (2, (na_sym "Cl", [(1, Scalar 2)]))].

Definition h_len (s : string) : Z := Z.of_nat (String.length s).
Definition h_neg (s : string) : Z := - Z.of_nat (String.length s).

Lemma hash_dependence :
  old_query h_len true formyl_chloride = Good [("aldehyde", [0; 1])]
  /\ old_query h_neg true formyl_chloride = Good [("acyl_chloride", [0; 1; 2])]
  /\ query default_mapper default_configs true formyl_chloride = Good [("acyl_chloride", [0; 1; 2])].
Proof. repeat split; vm_compute; reflexivity. Qed.
