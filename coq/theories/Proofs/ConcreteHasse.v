(** The concrete form of C07 for the default mapper's wildcard: key_strict is a theorem, so the
    Hasse theorem needs no premise about keys beyond their pairwise distinctness. *)
From Coq Require Import ZArith List Bool String.
From FGV Require Import Base.Util Base.Bond Base.NX Base.NXFacts Base.Sym Model.Permute Model.Match Model.FGTree
                        Spec.Embedding Spec.QuerySpec Proofs.FGTreeProofs Proofs.EmbeddingOrder Proofs.SubgroupSem
                        Proofs.KeyStrict.
Import ListNotations.

(* configurations as the parser and FGConfig.__init__ produce them for anti-pattern-free groups with
   the default len_exclude_nodes; no node carries the lower-case symbol "r" (not an atom symbol) *)
Definition cfg_plain (ic : bool) (c : fgconfig) : Prop :=
  cfg_parsed c /\ fg_anti c = [] /\ fg_len_excl c = ["R"%string] /\
  forall n, sym_of (fg_pattern c) n <> Some "r"%string.

Theorem key_strict_holds ic (l : list fgconfig) :
  (forall c, In c l -> cfg_plain ic c) -> key_strict_on (Some "R"%string) ic l.
Proof.
  intros Hl a b Ha Hb Hsb.
  destruct (Hl a Ha) as [[[[_ [HwA _]] _] _] [_ [HeA HrA]]].
  destruct (Hl b Hb) as [[[[_ [HwB _]] _] _] [_ [HeB _]]].
  apply (strictly_below_increases_key ic a b); auto; apply wfb_wf; assumption.
Qed.

Theorem configs_hasse_concrete ic :
  MatcherComplete (Some "R"%string) ic -> MatcherSound (Some "R"%string) ic ->
  forall l : list fgconfig,
  NoDup (map order_key l) ->
  (forall c, In c l -> cfg_plain ic c) ->
  (forall a b, In a l -> In b l -> exists t, is_subgroup (mk_mapper (Some "R"%string) ic []) a b = Good t) ->
  (forall a b, In a l -> In b l ->
     (subb_of (Some "R"%string) ic a b = true <-> StrictlyBelow (Some "R"%string) ic (fg_pattern a) (fg_pattern b))) /\
  exists t, build_config_tree_from_list (mk_mapper (Some "R"%string) ic []) l = Good t /\
            hasse_of (subb_of (Some "R"%string) ic) cfg_ltb l t.
Proof.
  intros Hc Hs l Hk Hl Htot.
  apply (configs_hasse_embedding (Some "R"%string) ic Hc Hs l Hk); auto.
  - intros c Hin. destruct (Hl c Hin) as [H1 [H2 _]]. auto.
  - apply key_strict_holds. exact Hl.
Qed.
