(** Embeddings compose (concrete part of C07): symbol admission is transitive, the composite of
    two embeddings is an embedding, hence "embeds into" is transitive and the strict version
    (embeds, and not the other way round) is a strict partial order on patterns. *)
From Coq Require Import ZArith List Bool String.
From FGV Require Import Base.Util Base.UtilFacts Base.Bond Base.NX Base.Sym Spec.Embedding.
Import ListNotations.
Open Scope Z_scope.

Lemma sym_of_node g n s : sym_of g n = Some s -> In n (nodes g).
Proof.
  unfold sym_of, node_attr. destruct (alookup n g) as [[a ad]|] eqn:E; [|discriminate].
  intros _. apply alookup_Some_key in E. exact E.
Qed.

(* pattern -> structure -> structure': the wildcard is only recognised on the pattern side, and a
   structure symbol that equals a non-wildcard pattern symbol is not a wildcard either *)
Lemma adm_trans w ic p s t : adm w ic p s = true -> adm w ic s t = true -> adm w ic p t = true.
Proof.
  unfold adm. rewrite !orb_true_iff. intros [Hp|Hps] Hst; [left; exact Hp|].
  apply String.eqb_eq in Hps. rewrite Hps. exact Hst.
Qed.

Definition compose_map (g f : Z -> option Z) (p : Z) : option Z :=
  match f p with Some n => g n | None => None end.

Lemma embedding_compose w ic P G H pa a b f g :
  Embedding w ic G a P pa f -> Embedding w ic H b G a g ->
  Embedding w ic H b P pa (compose_map g f).
Proof.
  intros Ef Eg. unfold compose_map. constructor.
  - destruct (emb_anchor _ _ _ _ _ _ _ Ef) as [H1 H2]. split; auto. rewrite H2. apply Eg.
  - intros p Hp. destruct (emb_total _ _ _ _ _ _ _ Ef p Hp) as [n Hn]. rewrite Hn.
    destruct (emb_adm _ _ _ _ _ _ _ Ef p n Hp Hn) as [ps [s [_ [Hs _]]]].
    apply (emb_total _ _ _ _ _ _ _ Eg). eapply sym_of_node; eauto.
  - intros p q n Hp Hq H1 H2.
    destruct (f p) as [np|] eqn:Efp; [|discriminate]. destruct (f q) as [nq|] eqn:Efq; [|discriminate].
    assert (Hnp : In np (nodes G)).
    { destruct (emb_adm _ _ _ _ _ _ _ Ef p np Hp Efp) as [ps [s [_ [Hs _]]]]. eapply sym_of_node; eauto. }
    assert (Hnq : In nq (nodes G)).
    { destruct (emb_adm _ _ _ _ _ _ _ Ef q nq Hq Efq) as [ps [s [_ [Hs _]]]]. eapply sym_of_node; eauto. }
    assert (np = nq) by (eapply (emb_inj _ _ _ _ _ _ _ Eg); eauto). subst nq.
    eapply (emb_inj _ _ _ _ _ _ _ Ef); eauto.
  - intros p n Hp Hn. destruct (f p) as [m|] eqn:Efp; [|discriminate].
    destruct (emb_adm _ _ _ _ _ _ _ Ef p m Hp Efp) as [ps [s [Hps [Hs Ha1]]]].
    destruct (emb_adm _ _ _ _ _ _ _ Eg m n (sym_of_node _ _ _ Hs) Hn) as [s' [t [Hs' [Ht Ha2]]]].
    rewrite Hs in Hs'. inversion Hs'; subst s'.
    exists ps, t. split; auto. split; auto. eapply adm_trans; eauto.
  - intros p q l n n' Hl Hn Hn'.
    destruct (f p) as [m|] eqn:Efp; [|discriminate]. destruct (f q) as [m'|] eqn:Efq; [|discriminate].
    eapply (emb_edges _ _ _ _ _ _ _ Eg); eauto. eapply (emb_edges _ _ _ _ _ _ _ Ef); eauto.
Qed.

(* P embeds somewhere into G *)
Definition Embeds (w : option string) (ic : bool) (P G : graph) : Prop :=
  exists a pa f, Embedding w ic G a P pa f.

Lemma embeds_trans w ic P G H : Embeds w ic P G -> Embeds w ic G H -> Embeds w ic P H.
Proof.
  intros [a [pa [f Ef]]] [b [ga [g Eg]]].
  (* re-anchor the second embedding at the image of P's anchor *)
  assert (Ha : In a (nodes G)).
  { destruct (emb_anchor _ _ _ _ _ _ _ Ef) as [Hpa Hf].
    destruct (emb_adm _ _ _ _ _ _ _ Ef pa a Hpa Hf) as [ps [s [_ [Hs _]]]]. eapply sym_of_node; eauto. }
  destruct (emb_total _ _ _ _ _ _ _ Eg a Ha) as [b' Hb'].
  assert (Eg' : Embedding w ic H b' G a g).
  { constructor; [split; auto|apply Eg|apply Eg|apply Eg|apply Eg]. }
  exists b', pa, (compose_map g f). eapply embedding_compose; eauto.
Qed.

(* the strict order: P is properly below G *)
Definition StrictlyBelow (w : option string) (ic : bool) (P G : graph) : Prop :=
  Embeds w ic P G /\ ~ Embeds w ic G P.

Lemma strictly_below_irrefl w ic P : ~ StrictlyBelow w ic P P.
Proof. intros [H1 H2]. contradiction. Qed.

Lemma strictly_below_trans w ic P G H :
  StrictlyBelow w ic P G -> StrictlyBelow w ic G H -> StrictlyBelow w ic P H.
Proof.
  intros [H1 H2] [H3 H4]. split; [eapply embeds_trans; eauto|].
  intros H5. apply H4. eapply embeds_trans; eauto.
Qed.
