(** C13 for multigraphs: the model of fgutils.proxy.replace_node on a networkx.MultiGraph
    satisfies [replace_multi_spec] (edge multisets) for every input that meets [replace_multi_pre]. *)
From Coq Require Import ZArith List Bool String Lia.
From FGV Require Import Base.Util Base.UtilFacts Base.Bond Base.NX Base.NXFacts Base.NXMulti
  Model.Proxy Spec.ProxySpec Proofs.NXComposeFacts Proofs.NXMultiFacts Proofs.ProxyProofs.
Import ListNotations.
Open Scope Z_scope.

(** * label multisets *)

Lemma lcount_app l a b : lcount l (a ++ b) = (lcount l a + lcount l b)%nat.
Proof. unfold lcount. rewrite filter_app, app_length. reflexivity. Qed.

Lemma mlabels_mkd g x y : mlabels g x y = match mkd g x y with Some kd => map snd kd | None => [] end.
Proof. unfold mlabels. rewrite mkeyd_mkd. destruct (mkd g x y); reflexivity. Qed.

Lemma mwf_mlabels_sym g x y : mwf g -> mlabels g y x = mlabels g x y.
Proof. intros H. rewrite !mlabels_mkd, (mwf_mkd_sym g x y H). reflexivity. Qed.

(** * add_edge without key appends one parallel bond *)

Lemma madd_edge_spec g u v l : mwf g ->
  exists g', madd_edge g u v l = Some g' /\ mwf g'
    /\ (forall x y, mlabels g' x y = if ematch u v x y then mlabels g x y ++ [l] else mlabels g x y)
    /\ (forall z, mhas_node g' z = (z =? u) || (z =? v) || mhas_node g z)
    /\ (forall z, mnode_attr g' z =
                  match mnode_attr g z with
                  | Some a => Some a
                  | None => if (z =? u) || (z =? v) then Some na_empty else None
                  end).
Proof.
  intros Hwf. destruct (madd_edge_total g u v l) as (k & Hk & Hfree).
  exists (madd_edge_key g u v k l). split; [exact Hk|]. split; [apply mwf_madd_edge_key; exact Hwf|].
  split; [|split; [apply mhas_node_madd_edge_key|apply mnode_attr_madd_edge_key]].
  assert (Hfree' : ~ In k (map fst (mkeyd g u v))).
  { apply alookup_None. rewrite <- Hfree. unfold mkeyd. rewrite !madj_mensure_node. reflexivity. }
  intros x y. rewrite !mlabels_mkd, mkd_madd_edge_key.
  destruct (ematch u v x y) eqn:Em; [|reflexivity].
  assert (Hxy : mkeyd g x y = mkeyd g u v).
  { apply ematch_true in Em. destruct Em as [[-> ->]|[-> ->]]; [reflexivity|].
    rewrite !mkeyd_mkd, (mwf_mkd_sym g u v Hwf). reflexivity. }
  rewrite Hxy, aset_fresh by exact Hfree'. rewrite map_app. cbn [map snd].
  rewrite <- Hxy, mkeyd_mkd. destruct (mkd g x y); reflexivity.
Qed.

(** * the attach loop appends the re-attached bonds in incident order *)

Fixpoint att_labels (off : Z) (anchors : list Z) (inc : list (Z * Z * label)) (i : nat) (x y : Z) : list label :=
  match inc with
  | [] => []
  | (_, v, l) :: t =>
      (if ematch (off + anchor_of anchors i) v x y then [l] else []) ++ att_labels off anchors t (S i) x y
  end.

Lemma mattach_spec off anchors : anchors <> [] -> forall inc g i,
  mwf g ->
  (forall j w v l, nth_error inc j = Some (w, v, l) ->
     mhas_node g v = true /\ mhas_node g (off + anchor_of anchors (i + j)) = true) ->
  exists g', mattach g off anchors inc i = POk g' /\ mwf g'
    /\ (forall z, mhas_node g' z = mhas_node g z)
    /\ (forall z, mnode_attr g' z = mnode_attr g z)
    /\ (forall x y, mlabels g' x y = mlabels g x y ++ att_labels off anchors inc i x y).
Proof.
  intros Hne. induction inc as [|[[w v] l] t IH]; intros g i Hwf Hend.
  - exists g. split; [reflexivity|]. split; [exact Hwf|]. split; [reflexivity|]. split; [reflexivity|].
    intros x y. cbn [att_labels]. rewrite app_nil_r. reflexivity.
  - cbn [mattach]. rewrite (anchor_at_of _ _ Hne).
    destruct (Hend 0%nat w v l eq_refl) as [Hv Hu]. rewrite Nat.add_0_r in Hu.
    destruct (madd_edge_spec g (off + anchor_of anchors i) v l Hwf) as (g1 & Hg1 & W1 & L1 & N1 & A1).
    rewrite Hg1.
    assert (N1' : forall z, mhas_node g1 z = mhas_node g z).
    { intros z. rewrite N1. destruct (Z.eqb_spec z (off + anchor_of anchors i)) as [->|_]; [rewrite Hu; reflexivity|].
      destruct (Z.eqb_spec z v) as [->|_]; [rewrite Hv; reflexivity|reflexivity]. }
    assert (A1' : forall z, mnode_attr g1 z = mnode_attr g z).
    { intros z. rewrite A1. destruct (mnode_attr g z) eqn:E; [reflexivity|].
      destruct (Z.eqb_spec z (off + anchor_of anchors i)) as [->|_].
      - apply mnode_attr_has_node in Hu. destruct Hu as (a & Ha). congruence.
      - destruct (Z.eqb_spec z v) as [->|_]; [|reflexivity].
        apply mnode_attr_has_node in Hv. destruct Hv as (a & Ha). congruence. }
    destruct (IH g1 (S i) W1) as (g' & Hg' & W' & N' & A' & L').
    { intros j w' v' l' Hj. rewrite !N1'. replace (S i + j)%nat with (i + S j)%nat by lia.
      apply (Hend (S j) w' v' l'). exact Hj. }
    exists g'. split; [exact Hg'|]. split; [exact W'|]. split; [|split].
    + intros z. rewrite N'. apply N1'.
    + intros z. rewrite A'. apply A1'.
    + intros x y. rewrite L', L1. cbn [att_labels]. rewrite app_assoc.
      destruct (ematch (off + anchor_of anchors i) v x y); [reflexivity|]. rewrite app_nil_r. reflexivity.
Qed.

Lemma att_labels_nil off anchors x y : forall inc i,
  (forall j w v l, nth_error inc j = Some (w, v, l) -> ematch (off + anchor_of anchors (i + j)) v x y = false) ->
  att_labels off anchors inc i x y = [].
Proof.
  induction inc as [|[[w v] l] t IH]; intros i H; [reflexivity|].
  cbn [att_labels]. pose proof (H 0%nat w v l eq_refl) as H0. rewrite Nat.add_0_r in H0. rewrite H0.
  apply IH. intros j w' v' l' Hj. replace (S i + j)%nat with (i + S j)%nat by lia. apply (H (S j) w' v' l'). exact Hj.
Qed.

(* towards the filter/combine form used in the specification *)
Definition cross_from (i : nat) (inc : list (Z * Z * label)) (anchors : list Z) (m x y : Z) : list label :=
  map (fun p => snd (snd p))
      (filter (fun p => (snd (fst (snd p)) =? y) && (m + anchor_of anchors (fst p) =? x))
              (combine (seq i (List.length inc)) inc)).

Lemma att_labels_cross m anchors x y : forall inc i,
  (forall w v l, In (w, v, l) inc -> v < m) -> m <= x ->
  att_labels m anchors inc i x y = cross_from i inc anchors m x y.
Proof.
  induction inc as [|[[w v] l] t IH]; intros i Hv Hx; [reflexivity|].
  unfold cross_from. cbn [att_labels List.length seq combine filter fst snd].
  fold (cross_from (S i) t anchors m x y).
  rewrite IH; [|intros w' v' l' Hin; apply (Hv w' v' l'); right; exact Hin|exact Hx].
  assert (E : ematch (m + anchor_of anchors i) v x y = (v =? y) && (m + anchor_of anchors i =? x)).
  { pose proof (Hv w v l (or_introl eq_refl)) as Hlt. unfold ematch.
    destruct (Z.eqb_spec x (m + anchor_of anchors i)) as [->|Hne].
    - rewrite Z.eqb_refl. destruct (Z.eqb_spec y v) as [->|Hyv].
      + rewrite Z.eqb_refl. reflexivity.
      + destruct (Z.eqb_spec v y); [congruence|]. cbn [andb orb].
        destruct (Z.eqb_spec (m + anchor_of anchors i) v); [lia|reflexivity].
    - cbn [andb orb]. destruct (Z.eqb_spec x v) as [->|_]; [lia|]. cbn [andb].
      destruct (Z.eqb_spec (m + anchor_of anchors i) x); [congruence|]. rewrite andb_false_r. reflexivity. }
  rewrite E. destruct ((v =? y) && (m + anchor_of anchors i =? x)); reflexivity.
Qed.

Lemma nth_error_mincident g node j w v l :
  nth_error (mincident g node) j = Some (w, v, l) -> w = node /\ exists kd, mkd g node v = Some kd.
Proof.
  intros H. apply nth_error_In in H. unfold mincident in H. apply in_flat_map in H.
  destruct H as ([v' kd] & Hin & Hq). apply in_map_iff in Hq. destruct Hq as ([k l'] & [= <- <- <-] & _).
  split; [reflexivity|]. unfold mkd. destruct (alookup v' (madj g node)) eqn:E; [eauto|].
  apply alookup_None in E. exfalso. apply E. apply (in_map fst) in Hin. exact Hin.
Qed.

Lemma mwf_mkd_no_node_r g x y : mwf g -> mhas_node g y = false -> mkd g x y = None.
Proof.
  intros Hwf H. destruct (mkd g x y) as [kd|] eqn:E; [|reflexivity].
  destruct (mwf_mkd_nodes _ _ _ _ Hwf E) as [_ Hy]. congruence.
Qed.

Lemma mnumber_of_nodes_nonneg g : 0 <= mnumber_of_nodes g.
Proof. unfold mnumber_of_nodes. lia. Qed.

(** * main theorem *)

Theorem replace_node_multi_spec g node h anchors :
  replace_multi_pre g node h anchors ->
  exists g', replace_node_multi g node h anchors = POk g' /\ replace_multi_spec g node h anchors g'.
Proof.
  intros (Hg & Hh & Rg & Rh & Hnode & Hanch).
  unfold replace_multi_spec, replace_node_multi. cbv zeta.
  pose proof (mnumber_of_nodes_nonneg g) as Hm0. pose proof (mnumber_of_nodes_nonneg h) as Hk0.
  set (m := mnumber_of_nodes g) in *. set (k := mnumber_of_nodes h) in *.
  set (r := renum node).
  assert (Hgn : forall x, mhas_node g x = true <-> 0 <= x < m).
  { intros x. rewrite mhas_node_In. apply Rg. }
  assert (Hhn : forall x, mhas_node h x = true <-> m <= x < m + k).
  { intros x. rewrite mhas_node_In. apply Rh. }
  assert (Hgn' : forall x, ~ (0 <= x < m) -> mhas_node g x = false).
  { intros x Hx. destruct (mhas_node g x) eqn:E; [|reflexivity]. apply Hgn in E. contradiction. }
  assert (Hhn' : forall x, ~ (m <= x < m + k) -> mhas_node h x = false).
  { intros x Hx. destruct (mhas_node h x) eqn:E; [|reflexivity]. apply Hhn in E. contradiction. }
  assert (Hnode_in : mhas_node g node = true) by (apply Hgn; exact Hnode).
  rewrite Hnode_in. cbn [negb].
  (* compose *)
  set (g1 := mcompose g h).
  assert (W1 : mwf g1) by apply mwf_mcompose.
  assert (N1 : forall x, mhas_node g1 x = true <-> 0 <= x < m + k).
  { intros x. unfold g1. rewrite (mhas_node_mcompose g h Hg Hh), orb_true_iff, Hgn, Hhn. lia. }
  assert (A1g : forall x, 0 <= x < m -> mnode_attr g1 x = mnode_attr g x).
  { intros x Hx. unfold g1. rewrite (mnode_attr_mcompose g h Hg Hh).
    rewrite (mhas_node_false_attr h x); [reflexivity|]. apply Hhn'. lia. }
  assert (A1h : forall x, m <= x < m + k -> mnode_attr g1 x = mnode_attr h x).
  { intros x Hx. unfold g1. rewrite (mnode_attr_mcompose g h Hg Hh).
    rewrite (mhas_node_false_attr g x); [|apply Hgn'; lia].
    destruct (mnode_attr h x); reflexivity. }
  assert (L1g : forall x y, 0 <= x < m -> mlabels g1 x y = mlabels g x y).
  { intros x y Hx. rewrite !mlabels_mkd. unfold g1. rewrite (mkd_mcompose g h Hg Hh).
    rewrite (mkd_no_node h x y); [reflexivity|]. apply Hhn'. lia. }
  assert (L1h : forall x y, m <= x < m + k -> mlabels g1 x y = mlabels h x y).
  { intros x y Hx. rewrite !mlabels_mkd. unfold g1. rewrite (mkd_mcompose g h Hg Hh).
    rewrite (mkd_no_node g x y); [|apply Hgn'; lia].
    destruct (mkd h x y) as [kd|] eqn:E; [|reflexivity].
    destruct Hh as (_ & _ & H3). destruct (H3 _ _ _ E) as (Hne & Hnd & _).
    rewrite kd_apply_None by assumption. reflexivity. }
  (* incident edges *)
  set (inc := mincident g node).
  assert (Hinc : forall j w v l, nth_error inc j = Some (w, v, l) -> w = node /\ 0 <= v < m).
  { intros j w v l Hj. destruct (nth_error_mincident _ _ _ _ _ _ Hj) as [-> (kd & Hkd)].
    split; [reflexivity|]. destruct (mwf_mkd_nodes _ _ _ _ Hg Hkd) as [_ Hv]. apply Hgn. exact Hv. }
  assert (Hincv : forall w v l, In (w, v, l) inc -> v < m).
  { intros w v l Hin. apply In_nth_error in Hin. destruct Hin as (j & Hj).
    destruct (Hinc _ _ _ _ Hj) as [_ Hv]. lia. }
  (* the attach loop *)
  assert (Hatt : exists g2,
            (if 0 <? k then mattach g1 m anchors inc 0 else POk g1) = POk g2 /\ mwf g2
            /\ (forall z, mhas_node g2 z = mhas_node g1 z)
            /\ (forall z, mnode_attr g2 z = mnode_attr g1 z)
            /\ (forall x y, mlabels g2 x y = mlabels g1 x y ++ (if 0 <? k then att_labels m anchors inc 0 x y else []))).
  { destruct (Z.ltb_spec 0 k) as [Hk|Hk].
    - destruct (Hanch Hk) as [Hne Hall]. apply (mattach_spec m anchors Hne inc g1 0%nat W1).
      intros j w v l Hj. destruct (Hinc _ _ _ _ Hj) as [_ Hv]. split; [apply N1; lia|].
      rewrite Forall_forall in Hall. pose proof (Hall _ (anchor_of_In anchors (0 + j) Hne)) as Ha.
      apply N1. lia.
    - exists g1. split; [reflexivity|]. split; [exact W1|]. split; [reflexivity|]. split; [reflexivity|].
      intros x y. rewrite app_nil_r. reflexivity. }
  destruct Hatt as (g2 & Hatt & W2 & N2 & A2 & L2). rewrite Hatt.
  (* anchors land inside the sub-pattern *)
  assert (Hanc : forall j, 0 < k -> m <= m + anchor_of anchors j < m + k).
  { intros j Hk. destruct (Hanch Hk) as [Hne Hall]. rewrite Forall_forall in Hall.
    pose proof (Hall _ (anchor_of_In anchors j Hne)). lia. }
  assert (NoAtt : forall x y, (0 <= x < m /\ 0 <= y < m) \/ (m <= x /\ m <= y) ->
            (if 0 <? k then att_labels m anchors inc 0 x y else []) = []).
  { intros x y Hxy. destruct (Z.ltb_spec 0 k) as [Hk|Hk]; [|reflexivity].
    apply att_labels_nil. intros j w v l Hj. destruct (Hinc _ _ _ _ Hj) as [_ Hv].
    pose proof (Hanc (0 + j)%nat Hk) as Ha.
    destruct (ematch (m + anchor_of anchors (0 + j)) v x y) eqn:E; [|reflexivity].
    apply ematch_true in E. lia. }
  (* remove the node *)
  set (g3 := mremove_node g2 node).
  assert (W3 : mwf g3) by (apply mwf_mremove_node; exact W2).
  assert (N3 : forall x, In x (mnodes g3) <-> (0 <= x < m + k /\ x <> node)).
  { intros x. rewrite <- mhas_node_In. unfold g3. rewrite mhas_node_mremove_node, andb_true_iff, N2, N1.
    rewrite negb_true_iff, Z.eqb_neq. tauto. }
  (* renumber *)
  assert (Rinj : forall x y, In x (mnodes g3) -> In y (mnodes g3) -> r x = r y -> x = y).
  { intros x y Hx Hy. apply N3 in Hx. apply N3 in Hy. apply renum_inj; tauto. }
  destruct (mrelabel_facts r g3 W3 Rinj) as (g4 & Hg4 & W4 & N4 & A4 & K4).
  assert (Hrel : relabel_graph_multi g3 0 = Some g4).
  { unfold relabel_graph_multi, mrelabel_map. rewrite <- Hg4. apply mrelabel_ext; [exact W3|]. intros x Hx.
    rewrite (relabel_mapping_renum (mnodes g3) node (m + k)); [reflexivity| | |lia|exact Hx].
    - apply W3.
    - exact N3. }
  rewrite Hrel.
  assert (A4' : forall x, 0 <= x < m + k -> x <> node -> mnode_attr g4 (r x) = mnode_attr g2 x).
  { intros x Hx Hne. rewrite A4 by (apply N3; auto).
    unfold g3. rewrite mnode_attr_mremove_node. destruct (Z.eqb_spec x node); [contradiction|reflexivity]. }
  assert (L4 : forall x y, 0 <= x < m + k -> x <> node -> 0 <= y < m + k -> y <> node ->
                mlabels g4 (r x) (r y) = mlabels g2 x y).
  { intros x y Hx Hxn Hy Hyn. rewrite !mlabels_mkd. rewrite K4 by (apply N3; auto).
    unfold g3. rewrite mkd_mremove_node.
    destruct (Z.eqb_spec x node); [contradiction|]. destruct (Z.eqb_spec y node); [contradiction|]. reflexivity. }
  exists g4. split; [reflexivity|].
  split; [exact W4|].
  split.
  { intros z. rewrite <- mhas_node_In, N4, zmem_In, in_map_iff. split.
    - intros (x & <- & Hx). apply N3 in Hx. unfold r, renum. destruct (Z.ltb_spec x node); lia.
    - intros Hz. exists (unrenum node z). split; [unfold r; apply renum_unrenum|].
      apply N3. unfold unrenum. destruct (Z.ltb_spec z node); lia. }
  split.
  { intros x Hx Hne. rewrite A4' by lia. rewrite A2. apply A1g. exact Hx. }
  split.
  { intros x Hx. rewrite A4' by lia. rewrite A2. apply A1h. exact Hx. }
  split.
  { intros x y l Hx Hy Hxn Hyn. unfold mcount. rewrite L4 by lia. rewrite L2, NoAtt by lia.
    rewrite app_nil_r, L1g by lia. reflexivity. }
  split.
  { intros x y l Hx Hy. unfold mcount. rewrite L4 by lia. rewrite L2, NoAtt by lia.
    rewrite app_nil_r, L1h by lia. reflexivity. }
  { intros x y l Hx Hy Hyn.
    assert (Hxy : mlabels g4 (r x) (r y) = cross_labels inc anchors m x y).
    { rewrite L4 by lia. rewrite L2, L1h by lia.
      rewrite mlabels_mkd, (mwf_mkd_no_node_r h x y Hh) by (apply Hhn'; lia).
      cbn [app]. destruct (Z.ltb_spec 0 k) as [Hk|Hk]; [|lia].
      rewrite att_labels_cross; [reflexivity|exact Hincv|lia]. }
    unfold mcount. rewrite (mwf_mlabels_sym g4 (r x) (r y) W4), Hxy. split; reflexivity. }
Qed.

(** * the fuelled loops never run out of fuel, whatever the input *)

Lemma mattach_no_fuel off anchors : forall inc g i, mattach g off anchors inc i <> PErr EFuel.
Proof.
  induction inc as [|[[w v] l] t IH]; intros g i; cbn [mattach]; [discriminate|].
  destruct (anchor_at anchors i) as [a|]; [|discriminate].
  destruct (madd_edge_total g (off + a) v l) as (k & Hk & _). rewrite Hk. apply IH.
Qed.

Theorem replace_node_multi_no_fuel g node h anchors : replace_node_multi g node h anchors <> PErr EFuel.
Proof.
  unfold replace_node_multi. cbv zeta. destruct (negb (mhas_node g node)); [discriminate|].
  destruct (if 0 <? mnumber_of_nodes h
            then mattach (mcompose g h) (mnumber_of_nodes g) anchors (mincident g node) 0
            else POk (mcompose g h)) as [g2|e] eqn:E.
  - unfold relabel_graph_multi, mrelabel_map.
    destruct (mrelabel_total (fun n => match alookup n (relabel_mapping (mnodes (mremove_node g2 node)) 0) with
                                       | Some x => x | None => n end) (mremove_node g2 node)) as (g3 & Hg3).
    rewrite Hg3. discriminate.
  - destruct (0 <? mnumber_of_nodes h); [|discriminate].
    intros H. injection H as ->. apply (mattach_no_fuel _ _ _ _ _ E).
Qed.

(** * result ids are exactly 0..n-1 for every input on which replace_node returns *)

Lemma mattach_mwf off anchors : forall inc g i g2, mwf g -> mattach g off anchors inc i = POk g2 -> mwf g2.
Proof.
  induction inc as [|[[w v] l] t IH]; intros g i g2 Hwf H; cbn [mattach] in H.
  - injection H as <-. exact Hwf.
  - destruct (anchor_at anchors i) as [a|]; [|discriminate].
    destruct (madd_edge_spec g (off + a) v l Hwf) as (g1 & Hg1 & W1 & _). rewrite Hg1 in H.
    eapply IH; eauto.
Qed.

Lemma rank_fun_inj ns : NoDup ns -> forall x y, In x ns -> In y ns -> rank_fun ns x = rank_fun ns y -> x = y.
Proof.
  intros Hnd x y Hx Hy E. destruct (rank_fun_spec ns Hnd) as [R1 _].
  destruct (R1 x Hx) as (i & Hi & Ei). destruct (R1 y Hy) as (j & Hj & Ej).
  assert (i = j) by lia. subst. congruence.
Qed.

Theorem replace_node_multi_ids g node h anchors g' :
  replace_node_multi g node h anchors = POk g' ->
  ids_range (mnodes g') 0 (mnumber_of_nodes g') /\ NoDup (mnodes g').
Proof.
  unfold replace_node_multi. cbv zeta. destruct (negb (mhas_node g node)); [discriminate|].
  set (g1 := mcompose g h). assert (W1 : mwf g1) by apply mwf_mcompose.
  destruct (if 0 <? mnumber_of_nodes h then mattach g1 (mnumber_of_nodes g) anchors (mincident g node) 0 else POk g1)
    as [g2|e] eqn:E; [|discriminate].
  assert (W2 : mwf g2).
  { destruct (0 <? mnumber_of_nodes h); [eapply mattach_mwf; eauto|]. injection E as <-. exact W1. }
  set (g3 := mremove_node g2 node). assert (W3 : mwf g3) by (apply mwf_mremove_node; exact W2).
  pose proof W3 as (Hnd3 & _).
  unfold relabel_graph_multi, mrelabel_map. fold (rank_fun (mnodes g3)).
  destruct (mrelabel_facts (rank_fun (mnodes g3)) g3 W3 (rank_fun_inj _ Hnd3)) as (g4 & Hg4 & W4 & N4 & _).
  rewrite Hg4. intros [= <-]. pose proof W4 as (Hnd4 & _).
  destruct (rank_fun_spec _ Hnd3) as [R1 R2].
  assert (Hlen : List.length (zsort (mnodes g3)) = List.length g3).
  { rewrite zsort_length. unfold mnodes. apply map_length. }
  assert (Hr : ids_range (mnodes g4) 0 (mnumber_of_nodes g3)).
  { intros z. rewrite <- mhas_node_In, N4, zmem_In, in_map_iff. unfold mnumber_of_nodes. split.
    - intros (x & <- & Hx). destruct (R1 x Hx) as (i & Hi & ->).
      assert (i < List.length (zsort (mnodes g3)))%nat by (apply nth_error_Some; congruence). lia.
    - intros Hz. destruct (nth_error (zsort (mnodes g3)) (Z.to_nat z)) as [x|] eqn:Ex.
      + destruct (R2 _ _ Ex) as [Hx Hrk]. exists x. split; [rewrite Hrk; lia|exact Hx].
      + apply nth_error_None in Ex. lia. }
  split; [|exact Hnd4].
  pose proof (ids_range_length _ _ Hnd4 Hr) as Hl.
  assert (Hn : mnumber_of_nodes g4 = mnumber_of_nodes g3).
  { pose proof (mnumber_of_nodes_nonneg g3). unfold mnumber_of_nodes at 1.
    unfold mnodes in Hl. rewrite map_length in Hl. lia. }
  rewrite Hn. exact Hr.
Qed.
