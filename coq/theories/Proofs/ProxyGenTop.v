(** C14 / C15: the theorems of Proofs/ProxyGenMain.v, ProxyBondsTop.v, ProxyDAProofs.v, ReactionProofs.v
    with all their hypotheses about other parts of the development discharged:
      C13_multi_statement      by Proofs/ProxyMultiProofs.replace_node_multi_spec (C13),
      mcopy_(bonds_)statement  by Proofs/NXMultiCopyFacts.v,
      the C10 statements       by Proofs/SplitProofs.{split_its_spec, split_its_nodes, resuperimpose_by_aam}. *)
From Coq Require Import ZArith List Bool String Permutation.
From FGV Require Import Base.Util Base.Bond Base.NX Base.NXMulti Model.Proxy Model.Its Model.ProxyGen
  Spec.ProxySpec Spec.ProxyGenSpec Spec.ProxyGenCheck Spec.ProxyBondSpec Spec.ItsSpec Spec.ReactionSpec Gen.ProxyDA.
From FGV Require Proofs.ProxyMultiProofs Proofs.SplitProofs Proofs.NXMultiCopyFacts Proofs.ProxyGenMain
  Proofs.ProxyBondsTop Proofs.ProxyDAProofs Proofs.ReactionProofs.
Import ListNotations.
Set Warnings "-abstract-large-number".

Lemma C13_multi_holds : C13_multi_statement.
Proof. exact ProxyMultiProofs.replace_node_multi_spec. Qed.

Lemma C10_split_spec_holds : C10_split_spec_statement.
Proof. exact SplitProofs.split_its_spec. Qed.
Lemma C10_split_nodes_holds : C10_split_nodes_statement.
Proof. exact SplitProofs.split_its_nodes. Qed.
Lemma C10_resuperimpose_by_aam_holds : C10_resuperimpose_by_aam_statement.
Proof. exact SplitProofs.resuperimpose_by_aam. Qed.

Definition top_count := ProxyGenMain.expansion_main C13_multi_holds NXMultiCopyFacts.mcopy_statement_holds.
Definition top_structure := ProxyGenMain.expansion_structure C13_multi_holds NXMultiCopyFacts.mcopy_statement_holds.
Definition top_symbols := ProxyGenMain.expansion_symbols C13_multi_holds NXMultiCopyFacts.mcopy_statement_holds.
Definition top_bonds :=
  ProxyBondsTop.expansion_bonds C13_multi_holds NXMultiCopyFacts.mcopy_statement_holds
                                NXMultiCopyFacts.mcopy_bonds_statement_holds.
Definition top_DA_pos := ProxyDAProofs.DA_pos_count C13_multi_holds NXMultiCopyFacts.mcopy_statement_holds.
Definition top_DA_neg := ProxyDAProofs.DA_neg_count C13_multi_holds NXMultiCopyFacts.mcopy_statement_holds.
Definition top_reactions :=
  ReactionProofs.reaction_main C10_split_spec_holds C10_split_nodes_holds C10_resuperimpose_by_aam_holds
                               C13_multi_holds NXMultiCopyFacts.mcopy_statement_holds.
