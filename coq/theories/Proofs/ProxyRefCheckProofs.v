(** Soundness of the per-result part of the C14 checker, and the shape of what C14_full_okb decides. *)
From Coq Require Import ZArith List Bool String Lia.
From FGV Require Import Base.Util Base.UtilFacts Base.Bond Base.NX Base.NXFacts Base.NXMulti Model.Aam Model.Proxy
  Model.Its Model.ProxyGen Spec.ProxySpec Spec.ProxyCheck Spec.ProxyGenSpec Spec.ProxyGenCheck Spec.ProxyRefCheck
  Proofs.ProxyGenUtil Proofs.ProxyGenCheckProofs.
Import ListNotations.
Open Scope Z_scope.

Lemma node_attr_entry (g : graph) n a : node_attr g n = Some a -> exists ad, In (n, (a, ad)) g.
Proof.
  unfold node_attr. destruct (alookup n g) as [[a' ad]|] eqn:E; [|discriminate].
  intros [= ->]. exists ad. apply alookup_In. exact E.
Qed.

Theorem result_okb_sound cfg g : result_okb cfg g = true -> result_ok cfg g.
Proof.
  unfold result_okb. intros H. apply andb_true_iff in H. destruct H as [H H3].
  apply andb_true_iff in H. destruct H as [H1 H2].
  unfold contiguousb in H1. apply andb_true_iff in H1. destruct H1 as [H11 H12].
  split; [split; [apply ids_rangeb_sound; exact H11|apply nodupb_NoDup; exact H12]|]. split.
  - intros n a E. destruct (node_attr_entry g n a E) as [ad Hin].
    unfold no_group_nodeb in H2. rewrite forallb_forall in H2. specialize (H2 _ Hin). simpl in H2.
    apply negb_true_iff in H2. exact H2.
  - intros Haam n a E. destruct (node_attr_entry g n a E) as [ad Hin].
    unfold aam_okb in H3. rewrite forallb_forall in H3. specialize (H3 _ Hin). simpl in H3.
    rewrite Haam in H3. destruct (a_aam a) as [k|]; simpl in H3; [|discriminate].
    apply Z.eqb_eq in H3. subst. reflexivity.
Qed.

(* what an accepted enumeration satisfies: the count formula, every result ok, and the multiset of
   (symbols, bonds) signatures equals that of the leaves of the reference expander *)
Theorem C14_full_okb_sound cfg results :
  cfg_hypb cfg = true -> patterns_ordered cfg = true -> C14_full_okb cfg results = true ->
  List.length results = count_cfg cfg
  /\ Forall (result_ok cfg) results
  /\ exists leaves, ref_all cfg = Some leaves /\ List.length leaves = count_cfg cfg
                    /\ sigs_eqb (map sig_of_graph results) (map sig_of_leaf leaves) = true.
Proof.
  intros Hh Ho. unfold C14_full_okb. rewrite Hh, Ho. simpl. intros H.
  apply andb_true_iff in H. destruct H as [H H3]. apply andb_true_iff in H. destruct H as [H1 H2].
  split; [apply Nat.eqb_eq; exact H1|]. split.
  - apply Forall_forall. intros r Hr. rewrite forallb_forall in H2. apply result_okb_sound. exact (H2 r Hr).
  - destruct (ref_all cfg) as [leaves|]; [|discriminate]. exists leaves. split; [reflexivity|].
    apply andb_true_iff in H3. destruct H3 as [H31 H32]. split; [apply Nat.eqb_eq; exact H31|exact H32].
Qed.
