(** Declarative specification of node substitution (C13). Definitions only.
    Stated on the maps  node -> attributes  and  (node, node) -> label  (simple graphs) or
    (node, node) -> multiset of labels  (multigraphs); dict orders are not part of the property. *)
From Coq Require Import ZArith List Bool String.
From FGV Require Import Base.Util Base.Bond Base.NX Base.NXFacts Base.NXMulti.
Import ListNotations.
Open Scope Z_scope.

(** order-preserving renumbering of (0..n-1 minus node) onto 0..n-2 *)
Definition renum (node x : Z) : Z := if x <? node then x else x - 1.

(** the anchor used for the i-th bond of the replaced node: the i-th, the last when they run out *)
Definition anchor_of (anchors : list Z) (i : nat) : Z :=
  nth (Nat.min i (List.length anchors - 1)) anchors 0.

Definition ids_range (ns : list Z) (lo hi : Z) : Prop := forall x, In x ns <-> lo <= x < hi.

(** * simple graphs *)

(* hypotheses: what Parser.parse(pattern, idx_offset=len(graph.nodes)) and relabel_graph establish *)
Definition replace_pre (g : graph) (node : Z) (h : graph) (anchors : list Z) : Prop :=
  let m := number_of_nodes g in
  let k := number_of_nodes h in
  wf g /\ wf h /\ ids_range (nodes g) 0 m /\ ids_range (nodes h) m (m + k) /\ 0 <= node < m
  /\ (0 < k -> anchors <> [] /\ Forall (fun a => 0 <= a < k) anchors).

Definition replace_spec (g : graph) (node : Z) (h : graph) (anchors : list Z) (g' : graph) : Prop :=
  let m := number_of_nodes g in
  let k := number_of_nodes h in
  let r := renum node in
  wf g'
  (* ids 0..n-1 *)
  /\ ids_range (nodes g') 0 (m + k - 1)
  (* every other node of the parent keeps its attributes *)
  /\ (forall x, 0 <= x < m -> x <> node -> node_attr g' (r x) = node_attr g x)
  (* the sub-pattern's nodes are copied verbatim *)
  /\ (forall x, m <= x < m + k -> node_attr g' (r x) = node_attr h x)
  (* mutual bonds of the other parent nodes are unchanged (none created, none lost) *)
  /\ (forall x y, 0 <= x < m -> 0 <= y < m -> x <> node -> y <> node ->
        edge_label g' (r x) (r y) = edge_label g x y)
  (* the sub-pattern's bonds are copied verbatim *)
  /\ (forall x y, m <= x < m + k -> m <= y < m + k -> edge_label g' (r x) (r y) = edge_label h x y)
  (* between a sub-pattern node and a parent node: exactly the re-attached bonds *)
  /\ (forall x y l, m <= x < m + k -> 0 <= y < m -> y <> node ->
        (edge_label g' (r x) (r y) = Some l <->
         exists i, nth_error (incident g node) i = Some (node, y, l) /\ x = m + anchor_of anchors i)).

(** * multigraphs: the same statement with multisets of parallel bonds *)

(* labels of those bonds of [node] (in incident order) that lead to y and are sent to anchor x *)
Definition cross_labels (inc : list (Z * Z * label)) (anchors : list Z) (m x y : Z) : list label :=
  map (fun p => snd (snd p))
      (filter (fun p => (snd (fst (snd p)) =? y) && (m + anchor_of anchors (fst p) =? x))
              (combine (seq 0 (List.length inc)) inc)).

Definition replace_multi_pre (g : mgraph) (node : Z) (h : mgraph) (anchors : list Z) : Prop :=
  let m := mnumber_of_nodes g in
  let k := mnumber_of_nodes h in
  mwf g /\ mwf h /\ ids_range (mnodes g) 0 m /\ ids_range (mnodes h) m (m + k) /\ 0 <= node < m
  /\ (0 < k -> anchors <> [] /\ Forall (fun a => 0 <= a < k) anchors).

Definition replace_multi_spec (g : mgraph) (node : Z) (h : mgraph) (anchors : list Z) (g' : mgraph) : Prop :=
  let m := mnumber_of_nodes g in
  let k := mnumber_of_nodes h in
  let r := renum node in
  mwf g'
  /\ ids_range (mnodes g') 0 (m + k - 1)
  /\ (forall x, 0 <= x < m -> x <> node -> mnode_attr g' (r x) = mnode_attr g x)
  /\ (forall x, m <= x < m + k -> mnode_attr g' (r x) = mnode_attr h x)
  /\ (forall x y l, 0 <= x < m -> 0 <= y < m -> x <> node -> y <> node ->
        mcount g' (r x) (r y) l = mcount g x y l)
  /\ (forall x y l, m <= x < m + k -> m <= y < m + k -> mcount g' (r x) (r y) l = mcount h x y l)
  /\ (forall x y l, m <= x < m + k -> 0 <= y < m -> y <> node ->
        mcount g' (r x) (r y) l = lcount l (cross_labels (mincident g node) anchors m x y)
        /\ mcount g' (r y) (r x) l = lcount l (cross_labels (mincident g node) anchors m x y)).
