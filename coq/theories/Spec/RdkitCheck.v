(** Decidable checker for the C19 bridge specification, run on the implementation's outputs.
    Written from the property text over the reference tables (Spec/RdkitRef.v) and the RDKit
    element table; definitions only, soundness is proved in Proofs/RdkitCheckProofs.v. *)
From Coq Require Import ZArith List Bool String.
From FGV Require Import Base.Util Base.Bond Base.NX Model.Rdkit Spec.RdkitRef Spec.RdkitSpec.
Import ListNotations.
Local Open Scope string_scope.
Open Scope Z_scope.

(** * the domain, decidably *)

(* an atom of a molecular graph: an element symbol (after normalisation), not labelled, map
   number within a C int *)
Definition node_okb (ignore_aam : bool) (d : nattr) : bool :=
  match a_sym d with
  | Some s => option_eqb String.eqb (chem_atom (ref_norm s)) (Some (ref_norm s))
  | None => false
  end
  && negb (is_true (a_islab d))
  && (ignore_aam || match a_aam d with Some k => k <=? int_max | None => true end).

(* a labelled placeholder node as the parser produces it *)
Definition placeholderb (d : nattr) : bool :=
  is_true (a_islab d) && is_some (a_sym d) && is_some (a_labels d).

(* supported scalar orders only, no self loops *)
Definition edges_okb (g : graph) : bool :=
  forallb (fun '(n, (_, ad)) => forallb (fun '(v, l) => supported_label l && negb (v =? n)) ad) g.

Definition molecularb (ignore_aam : bool) (g : graph) : bool :=
  wfb g && forallb (fun e => node_okb ignore_aam (fst (snd e))) g && edges_okb g.

Definition refusal_domainb (ignore_aam : bool) (g : graph) : bool :=
  forallb (fun e => placeholderb (fst (snd e)) || node_okb ignore_aam (fst (snd e))) g.

Definition has_placeholderb (g : graph) : bool :=
  existsb (fun e => is_true (a_islab (fst (snd e)))) g.

(** * the round trip, decidably *)

Definition roundtrip_okb (ignore_aam : bool) (g g' : graph) : bool :=
  (* atoms 0..n-1 in g's node order *)
  list_eqb Z.eqb (nodes g') (map Z.of_nat (seq 0 (List.length g)))
  (* normalised symbol, map number iff >= 1, nothing else *)
  && forallb (fun '(i, (_, (a, _))) =>
                option_eqb nattr_eqb (node_attr g' i) (Some (expected_attr ignore_aam a)))
             (enumerate g)
  (* the same bonded pairs with the same orders *)
  && forallb (fun '(i, u) =>
       forallb (fun '(j, v) => option_eqb label_eqb (edge_label g' i j) (edge_label g u v))
               (enumerate (nodes g)))
       (enumerate (nodes g))
  (* and a proper graph: symmetric adjacency, every neighbour is an atom *)
  && wfb g'.

Definition bridge_okb (g : graph) (ignore_aam : bool) (out : res graph) : bool :=
  if refusal_domainb ignore_aam g then
    if has_placeholderb g then
      (* refuses graphs that still contain labelled placeholder nodes *)
      res_eqb graph_eqb out (Err ValueError)
    else if molecularb ignore_aam g then
      match out with Ok g' => roundtrip_okb ignore_aam g g' | Err _ => false end
    else true
  else true.
