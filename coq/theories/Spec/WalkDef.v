(** Walks and bounded reachability (= shortest-path distance <= r) over an arbitrary edge
    relation, an executable ball computation, and their instances for Base/NX graphs.
    Definitions only; facts are in Proofs/Walk.v. *)
From Coq Require Import ZArith List Bool.
From FGV Require Import Base.Util Base.Bond Base.NX.
Import ListNotations.
Open Scope Z_scope.

(* a walk with exactly k steps from s to v *)
Inductive walk (E : Z -> Z -> Prop) : nat -> Z -> Z -> Prop :=
| walk_O : forall s, walk E O s s
| walk_S : forall k s w v, walk E k s w -> E w v -> walk E (S k) s v.

(* v is at most r steps away from s: the shortest-path distance from s to v is <= r *)
Definition reach (E : Z -> Z -> Prop) (r : nat) (s v : Z) : Prop :=
  exists k, (k <= r)%nat /\ walk E k s v.

(* all nodes at most r steps away from s (with repetitions), N = candidate end points *)
Fixpoint ball (e : Z -> Z -> bool) (N : list Z) (r : nat) (s : Z) : list Z :=
  match r with
  | O => [s]
  | S r' =>
      let b := ball e N r' s in
      b ++ filter (fun v => existsb (fun w => e w v) b) N
  end.

(** instances for graphs *)
Definition gedge (g : graph) (u v : Z) : Prop := has_edge g u v = true.
Definition gwalk (g : graph) := walk (gedge g).
Definition greach (g : graph) := reach (gedge g).
Definition gball (g : graph) (r : nat) (s : Z) : list Z := ball (has_edge g) (nodes g) r s.
Definition reachb (g : graph) (r : nat) (s v : Z) : bool := zmem v (gball g r s).
