(** Reference constants of the documented pattern syntax (hand-written; NOT generated):
    the atom alphabet, the bond symbols with their orders, the token classes in priority
    order. Definitions only; Spec/LexerRef.v states that the tables regenerated from
    fgutils/parse.py are exactly these. *)
From Coq Require Import ZArith Ascii String List Bool.
From FGV Require Import Base.Regex.
Import ListNotations.
Open Scope string_scope.

(* element symbols the syntax knows, in the priority order of the lexer
   (two-letter symbols first so that "Cl" is chlorine, not carbon + "l") *)
Definition ref_atoms : list string :=
  ["H"; "Br"; "Cl"; "Se"; "Sn"; "Si"; "Mg"; "Li"; "C"; "N"; "O"; "P"; "S"; "F"; "B"; "I";
   "b"; "c"; "n"; "o"; "p"; "s"].

(* characters lexed as a bond token; "/" and "\" are lexed but carry no order *)
Definition ref_bond_chars : list string := ["."; "-"; "="; "#"; "$"; ":"; "/"; "\"].

(* documented bond orders in half units: - 1, = 2, # 3, $ 4, : 1.5, . 0 (no bond) *)
Definition ref_bond_orders : list (string * Z) :=
  [("-", 2); ("=", 4); ("#", 6); ("$", 8); (":", 3); (".", 0)]%Z.

Definition alt_of (l : list string) (last : string) : regex :=
  fold_right (fun s r => RAlt (RLit s) r) (RLit last) l.

Definition ref_label_class : cset :=
  CClass [("a", "z"); ("A", "Z"); ("0", "9"); ("_", "_"); (",", ","); ("-", "-")]%char.

Definition ref_token_spec : list (string * regex) :=
  [ ("ATOM", alt_of (removelast ref_atoms) (last ref_atoms ""));
    ("BOND", alt_of (removelast ref_bond_chars) (last ref_bond_chars ""));
    ("BRANCH_START", RLit "(");
    ("BRANCH_END", RLit ")");
    ("RING_NUM", RPlus CDigit);
    ("WILDCARD", RLit "R");
    ("RC_BOND", RCat (RLit "<") (RCat (RStar CDigit) (RCat (RLit ",") (RCat (RStar CDigit) (RLit ">")))));
    ("NODE_LABEL", RCat (RLit "{") (RCat (RPlus ref_label_class) (RLit "}")));
    ("MISMATCH", RSet CAny) ].
