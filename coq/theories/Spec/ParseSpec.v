(** Specification of the pattern syntax (C01/C02). Definitions only.

    Abstract syntax of a linearisation. [chain]/[rest] is the flat (list-free, hence plainly
    mutual) presentation of DESIGN's
        chain := Chain atom (list item) (option (bsym * chain))
        item  := Ring bsym label | Branch bsym chain
    : the spine RRing/RBranch ... is the item list, RNext/RNil the optional continuation.
    Numerals are kept as written (digit strings): ring labels are compared as TEXT by the
    parser ("01" and "1" are different rings), reaction-bond numbers are read in decimal.

    [tokens]/[print] write a chain down; [sem] is its meaning: the list of graph operations
    (one node per atom in textual order, numbered from the offset; one edge per bond that is
    not a "."), [denote_*] the graph obtained by performing them on an empty networkx graph. *)
From Coq Require Import ZArith List Bool Ascii String.
From FGV Require Import Base.Util Base.Bond Base.NX Base.Sym Base.Regex Base.Str
                        Model.NXMulti Model.GraphOps Spec.LexerConst.
Import ListNotations.
Open Scope string_scope.
Open Scope Z_scope.

Inductive atom :=
| At (s : string)            (* element symbol, upper case or aromatic lower case *)
| Wild                       (* R *)
| Lbl (ls : list string).    (* {l1,l2,...} *)

Inductive bsym :=
| Implied                    (* nothing written *)
| Dot                        (* "." : component separator, no bond *)
| Sym (c : string)           (* one of - = # $ : *)
| Rc (g h : string).         (* <g,h>, each number possibly omitted (= 1) *)

Inductive chain :=
| Chain (a : atom) (r : rest)
with rest :=
| RNil
| RRing (b : bsym) (l : string) (r : rest)       (* ring mark: [bond symbol] digits *)
| RBranch (b : bsym) (c : chain) (r : rest)      (* ( [bond symbol] chain ) *)
| RNext (b : bsym) (c : chain).                  (* [bond symbol] chain *)

(** ** writing a chain down *)

Definition token := (string * string)%type.

Definition atom_tok (a : atom) : token :=
  match a with
  | At s => ("ATOM", s)
  | Wild => ("WILDCARD", "R")
  | Lbl ls => ("NODE_LABEL", "{" ++ join "," ls ++ "}")
  end.

Definition bsym_toks (b : bsym) : list token :=
  match b with
  | Implied => []
  | Dot => [("BOND", ".")]
  | Sym c => [("BOND", c)]
  | Rc g h => [("RC_BOND", "<" ++ g ++ "," ++ h ++ ">")]
  end.

Fixpoint tokens (t : chain) : list token :=
  match t with
  | Chain a r => atom_tok a :: rest_tokens r
  end
with rest_tokens (r : rest) : list token :=
  match r with
  | RNil => []
  | RRing b l r' => bsym_toks b ++ ("RING_NUM", l) :: rest_tokens r'
  | RBranch b c r' => ("BRANCH_START", "(") :: bsym_toks b ++ tokens c ++ ("BRANCH_END", ")") :: rest_tokens r'
  | RNext b c => bsym_toks b ++ tokens c
  end.

Definition text_of (l : list token) : string := fold_right (fun t s => snd t ++ s) "" l.
Definition print (t : chain) : string := text_of (tokens t).

(** ** meaning *)

(* the abstract labelled graph a text stands for, as a list of operations in textual order:
   atoms are numbered 0, 1, 2, ... in the order they are written *)
Inductive aop :=
| ANode (pos : Z) (a : atom)
| AEdge (u v : Z) (l : label).

Definition atom_sym (a : atom) : string :=
  match a with At s => s | Wild => "R" | Lbl _ => "#" end.

(* a scalar order o is written (o, o) as soon as the text contains a <g,h> bond *)
Definition lift (its : bool) (o : Z) : label := if its then Pair o o else Scalar o.

Definition rc_num (s : string) : Z :=
  match s with
  | EmptyString => 1
  | _ => match py_int s with Some z => z | None => 1 end     (* digits only under [wf] *)
  end.

(* label (orders in half units) of a bond written as b between atoms with symbols s1, s2;
   None = no edge *)
Definition bond_label (its : bool) (b : bsym) (s1 s2 : string) : option label :=
  match b with
  | Dot => None
  | Implied => Some (lift its (if islower s1 && islower s2 then 3 else 2))
  | Sym c =>
      match slookup c ref_bond_orders with
      | Some o => if o =? 0 then None else Some (lift its o)
      | None => None
      end
  | Rc g h => Some (Pair (2 * rc_num g) (2 * rc_num h))
  end.

Definition is_implied (b : bsym) : bool := match b with Implied => true | _ => false end.

Record sst := mkS {
  s_n : Z;                                   (* atoms met so far *)
  s_open : list (string * (Z * string));     (* open ring label -> (atom position, its symbol) *)
  s_ops : list aop;                          (* operations so far, in textual order *)
  s_ok : bool                                (* every ring-OPENING mark so far was written without a bond symbol *)
}.

Definition edge_ops (u v : Z) (l : option label) : list aop :=
  match l with Some lb => [AEdge u v lb] | None => [] end.

Section Sem.
Variable its : bool.

Fixpoint sem_chain (t : chain) (par : option (Z * string * bsym)) (S : sst) : sst :=
  match t with
  | Chain a r =>
      let me := s_n S in
      let sy := atom_sym a in
      let bond := match par with
                  | Some (p, ps, b) => edge_ops p me (bond_label its b ps sy)
                  | None => []
                  end in
      sem_rest r me sy (mkS (s_n S + 1) (s_open S) (s_ops S ++ ANode me a :: bond) (s_ok S))
  end
with sem_rest (r : rest) (me : Z) (sy : string) (S : sst) : sst :=
  match r with
  | RNil => S
  | RRing b l r' =>
      match slookup l (s_open S) with
      | Some (at_, asy) =>            (* closing mark: bond me -- at_, symbol written here *)
          sem_rest r' me sy
            (mkS (s_n S) (sdel l (s_open S)) (s_ops S ++ edge_ops me at_ (bond_label its b sy asy)) (s_ok S))
      | None =>                       (* opening mark *)
          sem_rest r' me sy
            (mkS (s_n S) (sset l (me, sy) (s_open S)) (s_ops S) (s_ok S && is_implied b))
      end
  | RBranch b c r' => sem_rest r' me sy (sem_chain c (Some (me, sy, b)) S)
  | RNext b c => sem_chain c (Some (me, sy, b)) S
  end.

End Sem.

Definition bsym_is_rc (b : bsym) : bool := match b with Rc _ _ => true | _ => false end.

Fixpoint has_rc (t : chain) : bool :=
  match t with Chain _ r => rest_has_rc r end
with rest_has_rc (r : rest) : bool :=
  match r with
  | RNil => false
  | RRing b _ r' => bsym_is_rc b || rest_has_rc r'
  | RBranch b c r' => bsym_is_rc b || has_rc c || rest_has_rc r'
  | RNext b c => bsym_is_rc b || has_rc c
  end.

Fixpoint natoms (t : chain) : nat :=
  match t with Chain _ r => S (rest_natoms r) end
with rest_natoms (r : rest) : nat :=
  match r with
  | RNil => O
  | RRing _ _ r' => rest_natoms r'
  | RBranch _ c r' => (natoms c + rest_natoms r')%nat
  | RNext _ c => natoms c
  end.

Definition sem_final (t : chain) : sst := sem_chain (has_rc t) t None (mkS 0 [] [] true).

(* the abstract graph of a text *)
Definition sem (t : chain) : list aop := s_ops (sem_final t).

Definition sem_atoms (l : list aop) : list (Z * atom) :=
  flat_map (fun o => match o with ANode p a => [(p, a)] | _ => [] end) l.
Definition sem_edges (l : list aop) : list (Z * Z * label) :=
  flat_map (fun o => match o with AEdge u v lb => [(u, v, lb)] | _ => [] end) l.

(** Realisation as networkx calls: node ids start at the requested offset; attributes are
    symbol, labels, is_labeled and (with init_aam) aam = id + 1. *)
Inductive gop := ONode (n : Z) (a : nattr) | OEdge (u v : Z) (l : label).

Definition atom_attr (aam : bool) (idx : Z) (a : atom) : nattr :=
  mkNA (Some (atom_sym a))
       (if aam then Some (idx + 1) else None)
       (Some (match a with Lbl ls => ls | _ => [] end))
       (Some (match a with Lbl _ => true | _ => false end))
       None.

Definition realise (off : Z) (aam : bool) (o : aop) : gop :=
  match o with
  | ANode p a => ONode (p + off) (atom_attr aam (p + off) a)
  | AEdge u v l => OEdge (u + off) (v + off) l
  end.

(* performing operations on a graph object (None only for the fuel of MultiGraph.new_edge_key) *)
Definition apply_op {G} (ops : gops G) (g : option G) (o : gop) : option G :=
  match g with
  | None => None
  | Some g =>
      match o with
      | ONode n a => Some (g_add_node ops g n a)
      | OEdge u v l => g_add_edge ops g u v l
      end
  end.
Definition build {G} (ops : gops G) (l : list gop) : option G :=
  fold_left (apply_op ops) l (Some (g_empty ops)).

(* the graph a text denotes, as a networkx.Graph ... *)
Definition denote_simple (off : Z) (aam : bool) (t : chain) : graph :=
  fold_left (fun g o => match o with ONode n a => add_node g n a | OEdge u v l => add_edge g u v l end)
            (map (realise off aam) (sem t)) empty_graph.
(* ... and as a networkx.MultiGraph *)
Definition denote_multi (off : Z) (aam : bool) (t : chain) : option mgraph :=
  build multi_ops (map (realise off aam) (sem t)).

(** ** well-formedness *)

Definition label_char_ok (c : ascii) : bool :=
  cset_mem ref_label_class c && negb (Ascii.eqb c ",").

Definition digits (s : string) : bool := all_chars is_digit s.

Definition atom_ok (a : atom) : bool :=
  match a with
  | At s => str_mem s ref_atoms
  | Wild => true
  | Lbl ls =>
      match ls with [] => false | _ => true end
      && forallb (all_chars label_char_ok) ls
      && negb (String.eqb (join "," ls) "")
  end.

Definition bsym_ok (b : bsym) : bool :=
  match b with
  | Implied | Dot => true
  | Sym c => is_some (slookup c ref_bond_orders)
  | Rc g h => digits g && digits h
  end.

Definition ring_label_ok (l : string) : bool := digits l && negb (String.eqb l "").

Fixpoint syntax_ok (t : chain) : bool :=
  match t with Chain a r => atom_ok a && rest_syntax_ok r end
with rest_syntax_ok (r : rest) : bool :=
  match r with
  | RNil => true
  | RRing b l r' => bsym_ok b && ring_label_ok l && rest_syntax_ok r'
  | RBranch b c r' => bsym_ok b && syntax_ok c && rest_syntax_ok r'
  | RNext b c => bsym_ok b && syntax_ok c
  end.

(* a token followed by character c is still read as that token: an element symbol is not
   extended to a longer one ("S" then "n" would be tin), digits do not run into a ring label *)
Definition follow_ok (tok : token) (c : ascii) : bool :=
  let '(k, w) := tok in
  if String.eqb k "ATOM" then negb (str_mem (w ++ String c "") ref_atoms)
  else if String.eqb k "RING_NUM" then negb (is_digit c)
  else true.

Fixpoint adj_ok (l : list token) : bool :=
  match l with
  | t1 :: ((t2 :: _) as r) =>
      match head_char (snd t2) with Some c => follow_ok t1 c | None => false end && adj_ok r
  | _ => true
  end.

Definition edge_pairs (l : list aop) : list (Z * Z) :=
  flat_map (fun o => match o with AEdge u v _ => [(u, v)] | _ => [] end) l.

Fixpoint nodup_pairs (l : list (Z * Z)) : bool :=
  match l with
  | [] => true
  | (u, v) :: t =>
      negb (existsb (fun '(x, y) => ((x =? u) && (y =? v)) || ((x =? v) && (y =? u))) t)
      && nodup_pairs t
  end.

(* what the token machine needs to read the text as intended: symbols from the documented
   alphabet, and no bond symbol in front of a ring-OPENING mark *)
Definition wf_core (t : chain) : bool := syntax_ok t && s_ok (sem_final t).

(* lexical side: no two adjacent tokens run into each other *)
Definition wf_lex (t : chain) : bool := adj_ok (tokens t).

(* a linearisation of a labelled (multi)graph: additionally every ring is closed, no bond
   joins an atom to itself and, for a simple graph, no pair of atoms is bonded twice *)
Definition wf (multi : bool) (t : chain) : bool :=
  wf_core t && wf_lex t
  && match s_open (sem_final t) with [] => true | _ => false end
  && forallb (fun '(u, v) => negb (u =? v)) (edge_pairs (sem t))
  && (multi || nodup_pairs (edge_pairs (sem t))).

(** ** comparison used by the harness on implementation outputs: the same graph, at the
    level the property speaks about (node order, ids and attributes exactly; the same edge ->
    label map; adjacency iteration order is not part of the property) *)
Definition node_eqb (a b : Z * nattr) : bool := (fst a =? fst b) && nattr_eqb (snd a) (snd b).
Definition same_graphb (g h : graph) : bool :=
  list_eqb node_eqb (nodes_data g) (nodes_data h) && graph_equivb g h.
Definition same_mgraphb (g h : mgraph) : bool :=
  list_eqb node_eqb (mnodes_data g) (mnodes_data h) && mgraph_equivb g h.

(** ** the plain-SMILES fragment of C02 *)

Definition plain_atoms : list string :=
  ["B"; "C"; "N"; "O"; "P"; "S"; "F"; "Cl"; "Br"; "I"; "b"; "c"; "n"; "o"; "p"; "s"].

Definition plain_atom (a : atom) : bool :=
  match a with At s => str_mem s plain_atoms | _ => false end.
Definition plain_bsym (b : bsym) : bool :=
  match b with
  | Implied | Dot => true
  | Sym c => str_mem c ["-"; "="; "#"; ":"]
  | Rc _ _ => false
  end.
Definition plain_ring_label (l : string) : bool :=
  match l with String c EmptyString => is_digit c | _ => false end.

Fixpoint plain (t : chain) : bool :=
  match t with Chain a r => plain_atom a && rest_plain r end
with rest_plain (r : rest) : bool :=
  match r with
  | RNil => true
  | RRing b l r' => plain_bsym b && plain_ring_label l && rest_plain r'
  | RBranch b c r' => plain_bsym b && plain c && rest_plain r'
  | RNext b c => plain_bsym b && plain c
  end.
