(** Hand-written reference periodic table (IUPAC symbols, Z = 1..118). This file is part of the
    SPECIFICATION: it is never generated from the code base, so a changed source table breaks
    [ps_table_ok] instead of moving the reference. Definitions only. *)
From Coq Require Import ZArith List String.
Import ListNotations.
Local Open Scope string_scope.
Open Scope Z_scope.

Definition ps_symbols : list string := [
  "H"; "He";
  "Li"; "Be"; "B"; "C"; "N"; "O"; "F"; "Ne";
  "Na"; "Mg"; "Al"; "Si"; "P"; "S"; "Cl"; "Ar";
  "K"; "Ca"; "Sc"; "Ti"; "V"; "Cr"; "Mn"; "Fe"; "Co"; "Ni"; "Cu"; "Zn";
  "Ga"; "Ge"; "As"; "Se"; "Br"; "Kr";
  "Rb"; "Sr"; "Y"; "Zr"; "Nb"; "Mo"; "Tc"; "Ru"; "Rh"; "Pd"; "Ag"; "Cd";
  "In"; "Sn"; "Sb"; "Te"; "I"; "Xe";
  "Cs"; "Ba";
  "La"; "Ce"; "Pr"; "Nd"; "Pm"; "Sm"; "Eu"; "Gd"; "Tb"; "Dy"; "Ho"; "Er"; "Tm"; "Yb"; "Lu";
  "Hf"; "Ta"; "W"; "Re"; "Os"; "Ir"; "Pt"; "Au"; "Hg";
  "Tl"; "Pb"; "Bi"; "Po"; "At"; "Rn";
  "Fr"; "Ra";
  "Ac"; "Th"; "Pa"; "U"; "Np"; "Pu"; "Am"; "Cm"; "Bk"; "Cf"; "Es"; "Fm"; "Md"; "No"; "Lr";
  "Rf"; "Db"; "Sg"; "Bh"; "Hs"; "Mt"; "Ds"; "Rg"; "Cn";
  "Nh"; "Fl"; "Mc"; "Lv"; "Ts"; "Og"
].

(* (atomic number, symbol), atomic numbers 1, 2, 3, ... in order *)
Definition ps_reference : list (Z * string) :=
  combine (map (fun i => Z.of_nat (S i)) (seq 0 (List.length ps_symbols))) ps_symbols.

(* the reference functions of the specification *)
Fixpoint ref_num_of (s : string) (l : list (Z * string)) : option Z :=
  match l with
  | [] => None
  | (z, s') :: t => if String.eqb s s' then Some z else ref_num_of s t
  end.
Fixpoint ref_sym_of (z : Z) (l : list (Z * string)) : option string :=
  match l with
  | [] => None
  | (z', s) :: t => if z =? z' then Some s else ref_sym_of z t
  end.

Definition ref_atomic_number (s : string) : option Z := ref_num_of s ps_reference.
Definition ref_symbol (z : Z) : option string := ref_sym_of z ps_reference.
