(** A reference decision procedure for embeddings that is fast enough to run on every case:
    plain backtracking over injective node maps in pattern-node order, pruned as soon as a
    symbol or an already-decidable bond disagrees, and with every complete candidate
    re-checked by [is_embedding] (Spec/Embedding.v).  It shares nothing with the matcher
    model (no anchors walk, no permutation mapper).  Definitions only; Proofs/EmbSearchProofs.v
    shows it is exact. *)
From Coq Require Import ZArith List Bool String.
From FGV Require Import Base.Util Base.Bond Base.NX Base.Sym Spec.Embedding.
Import ListNotations.
Open Scope Z_scope.

(* existsb with a guaranteed early exit (vm_compute is call-by-value: [||] and [&&] evaluate
   both sides, [if] does not) *)
Fixpoint anyb {A} (f : A -> bool) (l : list A) : bool :=
  match l with
  | [] => false
  | x :: t => if f x then true else anyb f t
  end.

Section Search.
  Variable w : option string.
  Variable ic : bool.
  Variable G P : graph.

  (* host node h for pattern node p is compatible with the partial map m (pairs (host, pattern)):
     every pattern bond from p to an already placed node lies on an equal host bond *)
  Definition edge_okb (m : list (Z * Z)) (h p : Z) : bool :=
    forallb (fun ql => match pair_fun m (fst ql) with
                       | Some h' => option_eqb label_eqb (edge_label G h h') (Some (snd ql))
                       | None => true
                       end) (adj P p).

  Definition place_okb (m : list (Z * Z)) (h p : Z) : bool :=
    if zmem h (map fst m) then false
    else if sym_okb w ic G P h p then edge_okb m h p else false.

  (* is some completion of m over the pattern nodes [todo] accepted? *)
  Fixpoint search_emb (accept : list (Z * Z) -> bool) (todo : list Z) (m : list (Z * Z)) : bool :=
    match todo with
    | [] => accept m
    | p :: t => anyb (fun h => if place_okb m h p then search_emb accept t ((h, p) :: m) else false) (nodes G)
    end.

  (* all accepted completions *)
  Fixpoint all_emb (accept : list (Z * Z) -> bool) (todo : list Z) (m : list (Z * Z)) : list (list (Z * Z)) :=
    match todo with
    | [] => if accept m then [m] else []
    | p :: t => flat_map (fun h => if place_okb m h p then all_emb accept t ((h, p) :: m) else []) (nodes G)
    end.

  Fixpoint remove_z (x : Z) (l : list Z) : list Z :=
    match l with [] => [] | y :: t => if x =? y then remove_z x t else y :: remove_z x t end.

  (* an embedding with pattern node pa on host node a, satisfying [extra] *)
  Definition anchored_embb (extra : list (Z * Z) -> bool) (a pa : Z) : bool :=
    if zmem pa (nodes P) && sym_okb w ic G P a pa
    then search_emb (fun m => if is_embedding w ic G a P pa m then extra m else false)
                    (remove_z pa (nodes P)) [(a, pa)]
    else false.

  (* an embedding anywhere *)
  Definition embeds_anyb : bool :=
    match nodes P with
    | [] => false
    | pa :: _ => anyb (fun a => anchored_embb (fun _ => true) a pa) (nodes G)
    end.
End Search.
