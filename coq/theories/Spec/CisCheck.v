(** Decidable reference for C17: all connected node sets containing the anchor, found by
    filtering every subset with a breadth-first connectivity test; and the checker run on the
    implementation's outputs. Definitions only; soundness is in Proofs/CisCheckProofs.v. *)
From Coq Require Import ZArith List Bool.
From FGV Require Import Base.Util Base.Bond Base.NX Model.Cis Spec.CisSpec.
Import ListNotations.
Open Scope Z_scope.

Definition inclb (X Y : list Z) : bool := forallb (fun x => zmem x Y) X.
Definition same_setb (X Y : list Z) : bool := inclb X Y && inclb Y X.

(* every sublist (subsequence) of l; 2^|l| of them *)
Fixpoint sublists (l : list Z) : list (list Z) :=
  match l with
  | [] => [[]]
  | x :: t => let r := sublists t in map (cons x) r ++ r
  end.

(* one breadth-first round inside S: keep what is reached, add the members of S adjacent to it *)
Definition expand (G : graph) (S R : list Z) : list Z :=
  filter (fun v => zmem v R || existsb (fun u => zmem v (neighbors G u)) R) S.

Fixpoint iter {A} (n : nat) (f : A -> A) (x : A) : A :=
  match n with O => x | S k => iter k f (f x) end.

(* the members of S reachable from a inside S (|S| rounds are enough) *)
Definition reach_set (G : graph) (S : list Z) (a : Z) : list Z :=
  iter (List.length S) (expand G S) (filter (Z.eqb a) S).

Definition connb (G : graph) (S : list Z) : bool :=
  match S with
  | [] => false
  | a :: _ => inclb S (reach_set G S a)
  end.

(* the reference enumeration *)
Definition connected_sets (G : graph) (anchor : Z) : list (list Z) :=
  if has_node G anchor then
    filter (connb G)
           (map (cons anchor) (sublists (filter (fun n => negb (n =? anchor)) (nodes G))))
  else [].

Definition count_same (S : list Z) (out : list (list Z)) : nat :=
  List.length (filter (same_setb S) out).

(* the checker: on a graph that has the anchor the implementation must return normally,
   every yielded list is duplicate-free, contains the anchor and is connected, and every
   reference set is yielded exactly once (as a set); without the anchor in the graph the
   only accepted outcome is networkx's "node not in the graph" error *)
Definition cis_okb (G : graph) (anchor : Z) (out : res (list (list Z))) : bool :=
  match out with
  | Ok l =>
      has_node G anchor
      && forallb (fun Y => nodupb Y && zmem anchor Y && inclb Y (nodes G) && connb G Y) l
      && forallb (fun S => Nat.eqb (count_same S l) 1) (connected_sets G anchor)
  | Err ENode => negb (has_node G anchor)
  | Err _ => false
  end.

(** * Small-scope enumeration (for the bounded theorem): every simple graph on nodes 0..n-1 *)

Fixpoint subseqs {A} (l : list A) : list (list A) :=
  match l with
  | [] => [[]]
  | x :: t => let r := subseqs t in map (cons x) r ++ r
  end.

Definition node_pairs (n : nat) : list (Z * Z) :=
  flat_map (fun i => map (fun j => (Z.of_nat i, Z.of_nat j)) (seq (S i) (n - S i))) (seq 0 n).

Definition graph_of (n : nat) (es : list (Z * Z)) : graph :=
  add_edges_from
    (add_nodes_from empty_graph (map (fun i => (Z.of_nat i, na_empty)) (seq 0 n)))
    (map (fun e => (fst e, snd e, Scalar 2)) es).

Definition all_graphs (n : nat) : list graph := map (graph_of n) (subseqs (node_pairs n)).

Definition bounded_okb (n : nat) : bool :=
  forallb (fun G => wfb G
                    && forallb (fun a => cis_okb G a (node_induced_connected_subgraphs G a)) (nodes G))
          (all_graphs n).

(** * Comparison of two outcomes at the level of the property (used by the "agree" check):
    same exception, or the same node sets with the same multiplicities, whatever the order of
    the yields and the order inside each yielded list. (When the first argument is the model's
    output, which is duplicate-free as sets by theorem C17, this says the second is a
    rearrangement of it.) *)
Definition yields_equivb (a b : res (list (list Z))) : bool :=
  match a, b with
  | Ok x, Ok y => Nat.eqb (List.length x) (List.length y)
                  && forallb (fun Y => Nat.eqb (count_same Y y) 1) x
  | Err e, Err f => err_eqb e f
  | _, _ => false
  end.
