(** C15, general part: what a generated reaction (g, h) = split_its(expanded ITS graph) satisfies.
    Definitions only. The vocabulary [mapped], [aam_injective], [obind], [tr_side], [norm_label],
    [split_spec] is that of the C09 / C10 development (Spec/ItsSpec.v); the three statements
    C10_..._statement are the statements of the theorems C10_split_spec, C10_split_nodes and
    C10_resuperimpose_by_aam (Props/C10.v), which Proofs/ProxyGenTop.v supplies. *)
From Coq Require Import ZArith List Bool String.
From FGV Require Import Base.Util Base.Bond Base.NX Base.NXFacts Base.NXMulti Model.Aam Model.Proxy Model.Its
  Model.ProxyGen Spec.ProxySpec Spec.ProxyGenSpec Spec.ItsSpec.
Import ListNotations.
Open Scope Z_scope.

Definition C10_split_spec_statement : Prop :=
  forall its, wf its -> split_spec its (split_its its).

Definition C10_split_nodes_statement : Prop :=
  forall its, wf its ->
    nodes (fst (split_its its)) = nodes its /\ nodes (snd (split_its its)) = nodes its.

Definition C10_resuperimpose_by_aam_statement : Prop :=
  forall its, wf its -> aam_injective its ->
    let its' := get_its (fst (split_its its)) (snd (split_its its)) in
    (forall k a, node_attr its' k = Some a <->
                 exists n, mapped its n k /\ a = its_node_attr (sym_of its n) k (n, n))
    /\ (forall n1 n2 k l, mapped its n1 k -> mapped its n2 l -> 0 < k -> 0 < l ->
          edge_label its' k l = obind norm_label (edge_label its n1 n2))
    /\ (forall k l lb, edge_label its' k l = Some lb ->
          exists n1 n2, mapped its n1 k /\ mapped its n2 l /\ 0 < k /\ 0 < l).

(** * the C15 statement about one sample *)

(* its = the expanded ITS graph (ids 0..n-1, aam = id + 1); (g, h) = split_its its *)
Definition reaction_sample_ok (its : graph) : Prop :=
  let g := fst (split_its its) in
  let h := snd (split_its its) in
  contiguous its
  (* the same atoms on both sides *)
  /\ nodes g = nodes its /\ nodes h = nodes its
  (* with the same attributes: symbols, and the complete atom map id + 1 *)
  /\ (forall n, node_attr g n = node_attr its n /\ node_attr h n = node_attr its n)
  /\ (forall n a, node_attr its n = Some a -> a_aam a = Some (n + 1))
  (* each side keeps its component of every bond *)
  /\ (forall u v, edge_label g u v = obind (tr_side lab_fst) (edge_label its u v)
                  /\ edge_label h u v = obind (tr_side lab_snd) (edge_label its u v))
  (* the superposition of the two sides is the expanded ITS graph, atoms named by map number = id + 1 *)
  /\ (forall k a, node_attr (get_its g h) k = Some a <->
                  exists n a0, node_attr its n = Some a0 /\ k = n + 1 /\ a = its_node_attr (a_sym a0) k (n, n))
  /\ (forall n1 n2, has_node its n1 = true -> has_node its n2 = true ->
        edge_label (get_its g h) (n1 + 1) (n2 + 1) = obind norm_label (edge_label its n1 n2))
  /\ (forall k l lb, edge_label (get_its g h) k l = Some lb ->
        exists n1 n2, has_node its n1 = true /\ has_node its n2 = true /\ k = n1 + 1 /\ l = n2 + 1).
