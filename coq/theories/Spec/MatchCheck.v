(** Executable comparisons and property checks used by the generated case files of
    C03 / C04 (model output vs implementation output; specification checks on the
    implementation's output).  Definitions only. *)
From Coq Require Import ZArith List Bool String.
From FGV Require Import Base.Util Base.Bond Base.NX Base.Sym Model.Permute Model.Match Spec.Embedding.
Import ListNotations.
Open Scope Z_scope.

Definition exn_eqb (x y : exn) : bool :=
  match x, y with
  | KeyError, KeyError => true
  | IndexError, IndexError => true
  | _, _ => false
  end.

Definition result_eqb {A} (eqb : A -> A -> bool) (x y : result A) : bool :=
  match x, y with
  | Ok a, Ok b => eqb a b
  | Raise e, Raise e' => exn_eqb e e'
  | _, _ => false       (* OutOfFuel equals nothing, not even itself *)
  end.

(* Python sets *)
Definition set_eqb (x y : list Z) : bool :=
  forallb (fun a => zmem a y) x && forallb (fun a => zmem a x) y.

Definition pairs_eqb (x y : list (Z * Z)) : bool := list_zz_eqb x y.

(* pair lists as sets of pairs *)
Definition pair_mem (p : Z * Z) (l : list (Z * Z)) : bool :=
  existsb (fun q => (fst p =? fst q) && (snd p =? snd q)) l.
Definition pairs_set_eqb (x y : list (Z * Z)) : bool :=
  forallb (fun p => pair_mem p y) x && forallb (fun p => pair_mem p x) y.

(* exact: Boolean, pair list including its order, the two visited sets as sets *)
Definition match_out_eqb (x y : match_out) : bool :=
  let '(b, m, (u, k)) := x in
  let '(b', m', (u', k')) := y in
  Bool.eqb b b' && pairs_eqb m m' && set_eqb u u' && set_eqb k k'.

Definition sub_out_eqb (x y : list (bool * list (Z * Z))) : bool :=
  list_eqb (fun r r' => Bool.eqb (fst r) (fst r') && pairs_eqb (snd r) (snd r')) x y.

(* the implementation's verdict as a Boolean: an exception is not a success *)
Definition out_true (o : result match_out) : bool :=
  match o with Ok (b, _, _) => b | _ => false end.
Definition out_false (o : result match_out) : bool :=
  match o with Ok (b, _, _) => negb b | _ => false end.
Definition out_pairs (o : result match_out) : list (Z * Z) :=
  match o with Ok (_, m, _) => m | _ => [] end.

Definition out_vp (o : result match_out) : list Z :=
  match o with Ok (_, _, (_, vp)) => vp | _ => [] end.

(* C04_gen on one anchored call, any mapper, any pattern: on success the pairs embed the part
   of the pattern they cover and the visited pattern set is closed *)
Definition c04_partial_okb (w : option string) (ic : bool) (G : graph) (a : Z) (P : graph) (pa : Z)
                           (o : result match_out) : bool :=
  implb (out_true o) (is_partial_embedding w ic G a P pa (out_pairs o) (out_vp o)).

(* C03 on one anchored call (mapper without can_map_to_nothing) *)
Definition c03_anchored_okb (w : option string) (ic : bool) (G : graph) (a : Z) (P : graph) (pa : Z)
                            (o : result match_out) : bool :=
  implb (exists_embedding w ic G a P pa) (out_true o).

(* C03, un-anchored: some embedding for some anchor pair -> True *)
Definition exists_any_embedding (w : option string) (ic : bool) (G P : graph) : bool :=
  existsb (fun a => existsb (fun pa => exists_embedding w ic G a P pa) (nodes P)) (nodes G).
Definition c03_unanchored_okb (w : option string) (ic : bool) (G P : graph) (o : result bool) : bool :=
  implb (exists_any_embedding w ic G P) (match o with Ok b => b | _ => false end).

(* C04 on one anchored call: success -> the pairs are an embedding (checked when the
   pattern is connected, flag [conn]); failure -> there is none *)
Definition c04_anchored_okb (w : option string) (ic : bool) (conn : bool)
                            (G : graph) (a : Z) (P : graph) (pa : Z) (o : result match_out) : bool :=
  implb (out_true o && conn) (is_embedding w ic G a P pa (out_pairs o))
  && implb (out_false o) (negb (exists_embedding w ic G a P pa)).

(* the same for every entry of a map_subgraph(..., subgraph_anchor=None) result list:
   entry i belongs to the i-th pattern node *)
Fixpoint c04_sub_okb (w : option string) (ic : bool) (conn : bool) (G : graph) (a : Z) (P : graph)
                     (pas : list Z) (rs : list (bool * list (Z * Z))) : bool :=
  match pas, rs with
  | [], [] => true
  | pa :: pt, (b, m) :: rt =>
      implb (b && conn) (is_embedding w ic G a P pa m)
      && implb (negb b) (negb (exists_embedding w ic G a P pa))
      && c04_sub_okb w ic conn G a P pt rt
  | _, _ => false
  end.
Fixpoint c03_sub_okb (w : option string) (ic : bool) (G : graph) (a : Z) (P : graph)
                     (pas : list Z) (rs : list (bool * list (Z * Z))) : bool :=
  match pas, rs with
  | [], [] => true
  | pa :: pt, (b, m) :: rt =>
      implb (exists_embedding w ic G a P pa) b && c03_sub_okb w ic G a P pt rt
  | _, _ => false
  end.
