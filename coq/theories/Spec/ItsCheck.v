(** Decidable checkers for the C09 / C10 specifications, run on the implementation's outputs.
    Definitions only; soundness is proved in Proofs/ItsProofs.v and Proofs/SplitProofs.v. *)
From Coq Require Import ZArith List Bool String.
From FGV Require Import Base.Util Base.Bond Base.NX Model.Aam Model.Its Spec.ItsSpec.
Import ListNotations.
Open Scope Z_scope.

(** * C09 *)

(* d[AAM_KEY] if present and >= 0 *)
Definition usable_aam (a : nattr) : option Z :=
  match a_aam a with Some k => if 0 <=? k then Some k else None | None => None end.

(* decides the hypothesis of the C09 theorems: no two nodes share a map number >= 0 *)
Definition aam_injectiveb (g : graph) : bool :=
  nodupb (flat_map (fun e => match usable_aam (fst (snd e)) with Some k => [k] | None => [] end) g).

(* the node of g carrying map number k (first one; unique under injectivity) *)
Definition find_mapped (g : graph) (k : Z) : option Z :=
  if 0 <=? k
  then option_map fst (find (fun e => option_eqb Z.eqb (a_aam (fst (snd e))) (Some k)) g)
  else None.

(* the label the specification prescribes for the pair of map numbers (k, l) *)
Definition expected_label (G H : graph) (k l : Z) : option label :=
  match find_mapped G k, find_mapped G l, find_mapped H k, find_mapped H l with
  | Some n1, Some n2, Some m1, Some m2 =>
      if (0 <? k) && (0 <? l) then combine_orders (edge_label G n1 n2) (edge_label H m1 m2) else None
  | _, _, _, _ => None
  end.

Definition its_nodes_okb (G H out : graph) : bool :=
  forallb (fun e =>
             let k := fst e in
             match find_mapped G k, find_mapped H k with
             | Some n, Some m => nattr_eqb (fst (snd e)) (its_node_attr (sym_of G n) k (n, m))
             | _, _ => false
             end) out
  && forallb (fun e =>
                match a_aam (fst (snd e)) with
                | Some k => if 0 <=? k
                            then match find_mapped H k with Some _ => has_node out k | None => true end
                            else true
                | None => true
                end) G.

Definition its_edges_okb (G H out : graph) : bool :=
  forallb (fun e =>
             let k := fst e in
             forallb (fun vl => (0 <? k) && (0 <? fst vl) && has_node out (fst vl)) (snd (snd e))) out
  && forallb (fun k => forallb (fun l =>
                option_eqb label_eqb (edge_label out k l) (expected_label G H k l)) (nodes out)) (nodes out).

Definition its_okb (G H out : graph) : bool :=
  wfb out && its_nodes_okb G H out && its_edges_okb G H out.

(* the check run by the harness: outside the theorems' hypothesis (injective maps) nothing is claimed *)
Definition its_checkb (G H out : graph) : bool :=
  negb (aam_injectiveb G && aam_injectiveb H) || its_okb G H out.

(* decides [renaming f g g'] (used for the non-vacuity example of the invariance theorem) *)
Definition renamingb (f : Z -> Z) (g g' : graph) : bool :=
  nodupb (map f (nodes g))
  && forallb (fun n => option_eqb nattr_eqb (node_attr g' (f n)) (node_attr g n)) (nodes g)
  && forallb (fun n' => zmem n' (map f (nodes g))) (nodes g')
  && forallb (fun u => forallb (fun v =>
        option_eqb label_eqb (edge_label g' (f u) (f v)) (edge_label g u v)) (nodes g)) (nodes g).

Definition equiv_mod_idxb (x y : graph) : bool :=
  let ns := nodes x ++ nodes y in
  forallb (fun k => option_eqb nattr_eqb (option_map drop_idx (node_attr x k)) (option_map drop_idx (node_attr y k))) ns
  && forallb (fun k => forallb (fun l => option_eqb label_eqb (edge_label x k l) (edge_label y k l)) ns) ns.

(** * C10 *)

Definition split_side_okb (proj : label -> option Z) (its g : graph) : bool :=
  forallb (fun n => option_eqb nattr_eqb (node_attr g n) (node_attr its n)) (nodes its ++ nodes g)
  && forallb (fun e => forallb (fun vl => has_node its (fst vl)) (snd (snd e))) g
  && forallb (fun u => forallb (fun v =>
        option_eqb label_eqb (edge_label g u v) (obind (tr_side proj) (edge_label its u v)))
        (nodes its)) (nodes its).

Definition split_okb (its : graph) (gh : graph * graph) : bool :=
  split_side_okb lab_fst its (fst gh) && split_side_okb lab_snd its (snd gh).

(* decides the hypothesis "nodes are named by their positive map number" *)
Definition ids_are_aamb (g : graph) : bool :=
  forallb (fun e => option_eqb Z.eqb (a_aam (fst (snd e))) (Some (fst e)) && (0 <? fst e)) g.

(* round-trip checks evaluated on implementation outputs *)

(* out = get_its applied to the two halves of split_its(its), against its *)
Definition resuperimpose_okb (its out : graph) : bool :=
  forallb (fun n => option_eqb nattr_eqb (node_attr out n)
                         (option_map (fun a => its_node_attr (a_sym a) n (n, n)) (node_attr its n)))
             (nodes its ++ nodes out)
  && forallb (fun u => forallb (fun v =>
        option_eqb label_eqb (edge_label out u v) (obind norm_label (edge_label its u v)))
        (nodes its ++ nodes out)) (nodes its ++ nodes out).

(* (g, h) = split_its(get_its(G, H)) against (G, H) *)
Definition split_after_its_okb (G H g h : graph) : bool :=
  let ns := nodes G ++ nodes H ++ nodes g ++ nodes h in
  forallb (fun n => option_eqb nattr_eqb (node_attr g n)
                      (option_map (fun a => its_node_attr (a_sym a) n (n, n)) (node_attr G n))
                    && option_eqb nattr_eqb (node_attr h n) (node_attr g n)) ns
  && forallb (fun u => forallb (fun v =>
        option_eqb label_eqb (edge_label g u v) (edge_label G u v)
        && option_eqb label_eqb (edge_label h u v) (edge_label H u v)) ns) ns.
