(** What the matcher needs to know about [Model.Permute.permute], as predicates on one
    returned assignment.  Definitions only.  (The characterisation of [permute] itself is
    property C08; the matcher theorems take the two facts below as premises about the
    mapper at hand.) *)
From Coq Require Import ZArith List Bool String.
From FGV Require Import Base.Util Base.Sym Model.Permute Spec.Embedding.
Import ListNotations.
Open Scope Z_scope.

Definition zseq (n : nat) : list Z := map Z.of_nat (seq 0 n).
Definition snth (l : list string) (i : Z) : string := nth (Z.to_nat i) l EmptyString.

(* An assignment lists the pattern positions 0..k-1 in order; a structure position is
   either -1 ("mapped to nothing") or in range with the pattern symbol accepting the
   structure symbol; the structure positions other than -1 are pairwise distinct. *)
Definition assign_ok (m : mapper) (ps ss : list string) (a : list (Z * Z)) : Prop :=
  map fst a = zseq (List.length ps) /\
  NoDup (filter (fun j => negb (j =? -1)) (map snd a)) /\
  forall i j, In (i, j) a ->
    j = -1 \/
    (0 <= j < Z.of_nat (List.length ss) /\
     adm (m_wildcard m) (m_ignore_case m) (snth ps i) (snth ss j) = true).

(* no pattern position is mapped to nothing *)
Definition assign_total (a : list (Z * Z)) : Prop := forall i j, In (i, j) a -> j <> -1.

(* soundness of permute for the mapper m (true of every mapper) *)
Definition permute_sound_for (m : mapper) : Prop :=
  forall ps ss a, In a (permute m ps ss) -> assign_ok m ps ss a.

(* with can_map_to_nothing = []: nothing is mapped to nothing, and every admissible total
   assignment of a non-empty pattern list is returned *)
Definition permute_total_for (m : mapper) : Prop :=
  forall ps ss a, In a (permute m ps ss) -> assign_total a.
Definition permute_complete_for (m : mapper) : Prop :=
  forall ps ss a, ps <> [] -> assign_ok m ps ss a -> assign_total a -> In a (permute m ps ss).

(* the three facts together, for the mapper (wildcard w, ignore_case ic, can_map_to_nothing = []) *)
Definition permute_spec_holds (w : option string) (ic : bool) : Prop :=
  permute_sound_for (mkMapper w ic []) /\
  permute_total_for (mkMapper w ic []) /\
  permute_complete_for (mkMapper w ic []).
