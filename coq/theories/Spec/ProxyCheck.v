(** Decidable checkers for the C13 specification, run on the implementation's outputs.
    Written from the property text, independent of the model's code path (no compose / relabel).
    Definitions only; soundness is proved in Proofs/ProxyCheckProofs.v.
    When the hypotheses of the theorem do not hold for the input (ids not contiguous, anchors
    outside the sub-pattern, ...) the checkers accept: only the exact tie applies there. *)
From Coq Require Import ZArith List Bool String.
From FGV Require Import Base.Util Base.Bond Base.NX Base.NXMulti Model.Proxy Spec.ProxySpec.
Import ListNotations.
Open Scope Z_scope.

(* lo, lo+1, ..., hi-1 *)
Definition zseq (lo hi : Z) : list Z := map (fun i => lo + Z.of_nat i) (seq 0 (Z.to_nat (hi - lo))).

Definition ids_rangeb (ns : list Z) (lo hi : Z) : bool :=
  forallb (fun x => (lo <=? x) && (x <? hi)) ns && forallb (fun x => zmem x ns) (zseq lo hi).

Definition anchors_okb (anchors : list Z) (k : Z) : bool :=
  negb (k >? 0)
  || (negb (match anchors with [] => true | _ => false end)
      && forallb (fun a => (0 <=? a) && (a <? k)) anchors).

(** * simple graphs *)

Definition replace_preb (g : graph) (node : Z) (h : graph) (anchors : list Z) : bool :=
  let m := number_of_nodes g in
  let k := number_of_nodes h in
  wfb g && wfb h && ids_rangeb (nodes g) 0 m && ids_rangeb (nodes h) m (m + k)
  && (0 <=? node) && (node <? m) && anchors_okb anchors k.

(* the label the property text prescribes between sub-pattern node x and parent node y *)
Fixpoint cross_find (inc : list (Z * Z * label)) (i : nat) (anchors : list Z) (m x y : Z) : option label :=
  match inc with
  | [] => None
  | (_, v, l) :: t =>
      if (v =? y) && (m + anchor_of anchors i =? x) then Some l
      else cross_find t (S i) anchors m x y
  end.

Definition replace_okb (g : graph) (node : Z) (h : graph) (anchors : list Z) (out : pres graph) : bool :=
  if replace_preb g node h anchors then
    match out with
    | PErr _ => false
    | POk g' =>
        let m := number_of_nodes g in
        let k := number_of_nodes h in
        let r := renum node in
        let P := zseq 0 m in
        let H := zseq m (m + k) in
        wfb g' && ids_rangeb (nodes g') 0 (m + k - 1)
        && forallb (fun x => (x =? node) || option_eqb nattr_eqb (node_attr g' (r x)) (node_attr g x)) P
        && forallb (fun x => option_eqb nattr_eqb (node_attr g' (r x)) (node_attr h x)) H
        && forallb (fun x => forallb (fun y =>
              (x =? node) || (y =? node)
              || option_eqb label_eqb (edge_label g' (r x) (r y)) (edge_label g x y)) P) P
        && forallb (fun x => forallb (fun y =>
              option_eqb label_eqb (edge_label g' (r x) (r y)) (edge_label h x y)) H) H
        && forallb (fun x => forallb (fun y =>
              (y =? node)
              || option_eqb label_eqb (edge_label g' (r x) (r y))
                                      (cross_find (incident g node) 0 anchors m x y)) P) H
    end
  else true.

(** * multigraphs *)

(* equality of label multisets *)
Definition lmultiset_eqb (a b : list label) : bool :=
  forallb (fun l => Nat.eqb (lcount l a) (lcount l b)) (a ++ b).


Definition replace_multi_preb (g : mgraph) (node : Z) (h : mgraph) (anchors : list Z) : bool :=
  let m := mnumber_of_nodes g in
  let k := mnumber_of_nodes h in
  mwfb g && mwfb h && ids_rangeb (mnodes g) 0 m && ids_rangeb (mnodes h) m (m + k)
  && (0 <=? node) && (node <? m) && anchors_okb anchors k.

Definition replace_multi_okb (g : mgraph) (node : Z) (h : mgraph) (anchors : list Z) (out : pres mgraph) : bool :=
  if replace_multi_preb g node h anchors then
    match out with
    | PErr _ => false
    | POk g' =>
        let m := mnumber_of_nodes g in
        let k := mnumber_of_nodes h in
        let r := renum node in
        let P := zseq 0 m in
        let H := zseq m (m + k) in
        mwfb g' && ids_rangeb (mnodes g') 0 (m + k - 1)
        && forallb (fun x => (x =? node) || option_eqb nattr_eqb (mnode_attr g' (r x)) (mnode_attr g x)) P
        && forallb (fun x => option_eqb nattr_eqb (mnode_attr g' (r x)) (mnode_attr h x)) H
        && forallb (fun x => forallb (fun y =>
              (x =? node) || (y =? node)
              || lmultiset_eqb (mlabels g' (r x) (r y)) (mlabels g x y)) P) P
        && forallb (fun x => forallb (fun y =>
              lmultiset_eqb (mlabels g' (r x) (r y)) (mlabels h x y)) H) H
        && forallb (fun x => forallb (fun y =>
              (y =? node)
              || (lmultiset_eqb (mlabels g' (r x) (r y)) (cross_labels (mincident g node) anchors m x y)
                  && lmultiset_eqb (mlabels g' (r y) (r x)) (cross_labels (mincident g node) anchors m x y))) P) H
    end
  else true.
