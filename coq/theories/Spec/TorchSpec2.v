(** Declarative specifications for the remaining C18 checkers (tensor form of a graph, decoding of
    raw tensors, adjacency matrix). Definitions only. *)
From Coq Require Import ZArith List Bool String.
From FGV Require Import Base.Util Base.Bond Base.NX Model.Torch Spec.PeriodicRef Spec.TorchSpec Spec.TorchCheck.
Import ListNotations.
Open Scope Z_scope.

(** * the tensor form of a graph, by its graph meaning *)

(* reference atomic numbers in node order; all indices in range; one feature row per column;
   exactly two columns per edge; the arc i -> j exists, with feature row [g, h], exactly when the
   i-th and the j-th node are bonded with label (g, h); no batch vector *)
Definition to_torch_meaning (g : graph) (t : tdata) : Prop :=
  let n := List.length g in
  t_x t = map ref_row g /\
  (forall p, In p (t_ei t) -> 0 <= fst p < Z.of_nat n /\ 0 <= snd p < Z.of_nat n) /\
  (exists ea, t_ea t = Some ea /\ List.length ea = List.length (t_ei t)) /\
  List.length (t_ei t) = (2 * List.length (edges g))%nat /\
  (forall i j, (i < n)%nat -> (j < n)%nat ->
     arc_label t (Z.of_nat i) (Z.of_nat j)
     = option_map feat (edge_label g (nth i (nodes g) 0) (nth j (nodes g) 0))) /\
  t_batch t = None.

(** * the graph decoded from a raw tensor graph *)

Definition joins_col (c : (Z * Z) * list Z) (i j : Z) : Prop :=
  (fst (fst c) = i /\ snd (fst c) = j) \/ (fst (fst c) = j /\ snd (fst c) = i).

(* o is the tuple label of the LAST column joining i and j (either direction); None if there is none *)
Definition last_joining (t : tdata) (i j : Z) (o : option label) : Prop :=
  exists ea, t_ea t = Some ea /\
  match o with
  | None => forall c, In c (combine (t_ei t) ea) -> ~ joins_col c i j
  | Some l =>
      exists pre c post gb hb,
        combine (t_ei t) ea = pre ++ c :: post /\ joins_col c i j /\
        snd c = [gb; hb] /\ l = Pair gb hb /\
        forall c', In c' post -> ~ joins_col c' i j
  end.

(* nodes 0..n-1; node i carries (only) the reference symbol of the atomic number x[i][0]; positions
   i, j are bonded exactly when some column joins them, with the label of the last such column;
   nothing else *)
Definition raw_graph_spec (t : tdata) (g' : graph) : Prop :=
  let n := List.length (t_x t) in
  nodes g' = znats n /\
  (forall i, (i < n)%nat ->
     exists z rest s, nth i (t_x t) [] = z :: rest /\ ref_symbol z = Some s /\
                      node_attr g' (Z.of_nat i) = Some (na_sym s)) /\
  (forall i j, (i < n)%nat -> (j < n)%nat ->
     last_joining t (Z.of_nat i) (Z.of_nat j) (edge_label g' (Z.of_nat i) (Z.of_nat j))) /\
  (forall x y l, edge_label g' x y = Some l -> In x (nodes g') /\ In y (nodes g')) /\
  (forall u, NoDup (map fst (adj g' u))).

(* what is checked of a decoded batch: one graph per batch id, all nodes accounted for, every graph
   numbered 0..k-1 and well formed *)
Definition raw_batch_spec (t : tdata) (b : list Z) (gs : list graph) : Prop :=
  List.length gs = List.length (unique_sorted b) /\
  List.length (List.concat gs) = List.length (t_x t) /\
  Forall (fun g' : graph =>
            nodes g' = znats (List.length g') /\
            (forall u, NoDup (map fst (adj g' u))) /\
            (forall u v l, edge_label g' u v = Some l -> edge_label g' v u = Some l)) gs.

(** * adjacency matrix *)

(* an n x n matrix whose entry (i, j) is 1 if (i, j) is a column of edge_index and 0 otherwise *)
Definition adjacency_spec (t : tdata) (m : matrix) : Prop :=
  let n := List.length (t_x t) in
  List.length m = n /\
  Forall (fun row : list Z => List.length row = n) m /\
  forall i j, (i < n)%nat -> (j < n)%nat ->
    (mget m i j = 1 /\ arc_of t (Z.of_nat i) (Z.of_nat j)) \/
    (mget m i j = 0 /\ ~ arc_of t (Z.of_nat i) (Z.of_nat j)).
