(** Reference expander for C14: the multiset of (atom symbols, bond labels) signatures of all
    complete expansions, computed from the configuration on a deliberately simple representation
    (attribute list + edge list with positions as endpoints), independent of the model's code path
    (no copy / compose / relabel / keys / adjacency dicts). Definitions only.

    It follows the derivation order of the property (always the first group node in node order) and
    the re-attachment rule of C13 (the j-th bond of the replaced node, in the order of the global edge
    list, goes to anchor[min j (len-1)]); bonds of a node replaced by the empty pattern disappear.
    The edge list is kept in the canonical order "by first endpoint, neighbours in order of first
    appearance, parallel bonds together", which is the order G.edges() reports. *)
From Coq Require Import ZArith List Bool String Arith.
From FGV Require Import Base.Util Base.Bond Base.NX Base.NXMulti Model.Aam Model.Proxy Model.Its
  Model.ProxyGen Spec.ProxySpec Spec.ProxyCheck Spec.ProxyGenSpec Spec.ProxyGenCheck.
Import ListNotations.

Definition redge := (nat * nat * label)%type.
Record rgraph := mkRG { rg_nodes : list nattr; rg_edges : list redge }.

Definition touches (i : nat) (e : redge) : bool := Nat.eqb (fst (fst e)) i || Nat.eqb (snd (fst e)) i.
Definition same_pair (e f : redge) : bool :=
  (Nat.eqb (fst (fst e)) (fst (fst f)) && Nat.eqb (snd (fst e)) (snd (fst f)))
  || (Nat.eqb (fst (fst e)) (snd (fst f)) && Nat.eqb (snd (fst e)) (fst (fst f))).

(* canonical edge order for n nodes *)
Fixpoint nat_mem (x : nat) (l : list nat) : bool :=
  match l with [] => false | y :: t => Nat.eqb x y || nat_mem x t end.
Fixpoint dedup_nat (seen l : list nat) : list nat :=
  match l with
  | [] => []
  | x :: t => if nat_mem x seen then dedup_nat seen t else x :: dedup_nat (x :: seen) t
  end.
Definition other_end (u : nat) (e : redge) : nat := if Nat.eqb (fst (fst e)) u then snd (fst e) else fst (fst e).
Definition norm_edges (n : nat) (L : list redge) : list redge :=
  flat_map (fun u =>
              let Lu := filter (fun e => touches u e && Nat.leb u (other_end u e)) L in
              flat_map (fun v => map (fun e => (u, v, snd e)) (filter (fun e => Nat.eqb (other_end u e) v) Lu))
                       (dedup_nat [] (map (other_end u) Lu)))
           (seq 0 n).

(* a pattern graph (ids = positions, as the parser numbers them) in the reference representation *)
Definition to_ref (g : mgraph) : rgraph :=
  mkRG (map (fun e => fst (snd e)) g)
       (map (fun q => (Z.to_nat (fst (fst (fst q))), Z.to_nat (snd (fst (fst q))), snd q)) (medges g)).

Definition ordered_ids (g : mgraph) : bool :=
  list_eqb Z.eqb (mnodes g) (zseq 0%Z (mnumber_of_nodes g)).

Fixpoint first_group_pos (gs : groups) (l : list nattr) (i : nat) : option (nat * string) :=
  match l with
  | [] => None
  | a :: t => match node_group gs a with Some nm => Some (i, nm) | None => first_group_pos gs t (S i) end
  end.

Fixpoint remove_nth {A} (i : nat) (l : list A) : list A :=
  match l, i with
  | [], _ => []
  | _ :: t, O => t
  | x :: t, S j => x :: remove_nth j t
  end.

Fixpoint attach_edges (m : nat) (anchors : list Z) (inc : list (nat * label)) (j : nat) : list redge :=
  match inc with
  | [] => []
  | (other, l) :: t => ((m + Z.to_nat (anchor_of anchors j))%nat, other, l) :: attach_edges m anchors t (S j)
  end.

(* replace the node at position i by the graph sg *)
Definition ref_step (rg : rgraph) (i : nat) (sg : pgraph) : rgraph :=
  let p := to_ref (pg_graph sg) in
  let m := List.length (rg_nodes rg) in
  let k := List.length (rg_nodes p) in
  let inc := map (fun e => (other_end i e, snd e)) (filter (touches i) (rg_edges rg)) in
  let keep := filter (fun e => negb (touches i e)) (rg_edges rg) in
  let pat := map (fun e => ((m + fst (fst e))%nat, (m + snd (fst e))%nat, snd e)) (rg_edges p) in
  let att := match k with O => [] | S _ => filter (fun e => negb (touches i e)) (attach_edges m (pg_anchor sg) inc 0) end in
  let ren := fun x => if Nat.ltb x i then x else Nat.pred x in
  let nodes' := remove_nth i (rg_nodes rg) ++ rg_nodes p in
  mkRG nodes'
       (norm_edges (List.length nodes')
                   (map (fun e => (ren (fst (fst e)), ren (snd (fst e)), snd e)) (keep ++ pat ++ att))).

Fixpoint ref_expand (fuel : nat) (gs : groups) (rg : rgraph) : option (list rgraph) :=
  match fuel with
  | O => None
  | S f =>
      match first_group_pos gs (rg_nodes rg) 0 with
      | None => Some [rg]
      | Some (i, nm) =>
          match glookup nm gs with
          | None => None
          | Some grp =>
              fold_right (fun sg acc =>
                            match ref_expand f gs (ref_step rg i sg), acc with
                            | Some l, Some r => Some (l ++ r)
                            | _, _ => None
                            end) (Some []) (gr_graphs grp)
          end
      end
  end.

Definition ref_fuel (gs : groups) (g : mgraph) : nat := build_fuel gs g.

Fixpoint concat_opts {A} (l : list (option (list A))) : option (list A) :=
  match l with
  | [] => Some []
  | Some x :: t => match concat_opts t with Some r => Some (x ++ r) | None => None end
  | None :: _ => None
  end.

(* all leaves of the choice trees of all core graphs *)
Definition ref_all (cfg : config) : option (list rgraph) :=
  concat_opts (map (fun c => ref_expand (ref_fuel (cfg_groups cfg) (pg_graph c)) (cfg_groups cfg) (to_ref (pg_graph c)))
                   (cfg_core cfg)).

(** * signatures *)

(* a bond survives nx.Graph(multigraph) iff no later bond joins the same two atoms *)
Fixpoint collapsed_labels (E : list redge) : list label :=
  match E with
  | [] => []
  | e :: t => if existsb (same_pair e) t then collapsed_labels t else snd e :: collapsed_labels t
  end.
Fixpoint has_parallel (E : list redge) : bool :=
  match E with
  | [] => false
  | e :: t => existsb (same_pair e) t || has_parallel t
  end.

Definition osym_eqb := option_eqb String.eqb.
Definition count_sym (s : option string) (l : list (option string)) : nat := List.length (filter (osym_eqb s) l).

(* multiset equality by counting *)
Definition symset_eqb (a b : list (option string)) : bool :=
  Nat.eqb (List.length a) (List.length b) && forallb (fun s => Nat.eqb (count_sym s a) (count_sym s b)) a.
Definition labset_eqb (a b : list label) : bool :=
  Nat.eqb (List.length a) (List.length b) && forallb (fun l => Nat.eqb (lcount l a) (lcount l b)) a.

Definition sig := (list (option string) * list label)%type.
Definition sig_eqb (x y : sig) : bool := symset_eqb (fst x) (fst y) && labset_eqb (snd x) (snd y).

Definition sig_of_graph (g : graph) : sig := (symbols g, bonds g).
Definition sig_of_leaf (rg : rgraph) : sig := (map a_sym (rg_nodes rg), collapsed_labels (rg_edges rg)).
Definition sig_of_leaf_conserved (rg : rgraph) : sig := (map a_sym (rg_nodes rg), map (fun e => snd e) (rg_edges rg)).

(* signatures as count vectors over the symbols / labels that occur in the reference leaves: two
   signatures are equal as pairs of multisets iff their vectors are equal (the leading lengths catch
   elements outside the alphabets) *)
Fixpoint dedup_by {A} (eqb : A -> A -> bool) (seen l : list A) : list A :=
  match l with
  | [] => []
  | x :: t => if existsb (eqb x) seen then dedup_by eqb seen t else x :: dedup_by eqb (x :: seen) t
  end.
Definition sigvec := (list nat * list nat)%type.
Definition vec_of_sig (As : list (option string)) (Al : list label) (s : sig) : sigvec :=
  (List.length (fst s) :: map (fun a => count_sym a (fst s)) As,
   List.length (snd s) :: map (fun l => lcount l (snd s)) Al).
Definition vec_eqb (x y : sigvec) : bool := list_eqb Nat.eqb (fst x) (fst y) && list_eqb Nat.eqb (snd x) (snd y).
Definition count_vec (v : sigvec) (l : list sigvec) : nat := List.length (filter (vec_eqb v) l).
Definition vecs_eqb (a b : list sigvec) : bool :=
  Nat.eqb (List.length a) (List.length b)
  && forallb (fun v => Nat.eqb (count_vec v a) (count_vec v b)) (dedup_by vec_eqb [] a).

(* the same comparison bucket by bucket: vectors are first grouped by (number of atoms, number of
   bonds), which keeps the quadratic counting inside small buckets *)
Definition vkey (v : sigvec) : nat * nat := (hd O (fst v), hd O (snd v)).
Definition key_eqb (a b : nat * nat) : bool := Nat.eqb (fst a) (fst b) && Nat.eqb (snd a) (snd b).
Fixpoint bucket_add (v : sigvec) (bs : list ((nat * nat) * list sigvec)) : list ((nat * nat) * list sigvec) :=
  match bs with
  | [] => [(vkey v, [v])]
  | (k, l) :: t => if key_eqb k (vkey v) then (k, v :: l) :: t else (k, l) :: bucket_add v t
  end.
Definition buckets (l : list sigvec) : list ((nat * nat) * list sigvec) := fold_right bucket_add [] l.
Fixpoint bucket_find (k : nat * nat) (bs : list ((nat * nat) * list sigvec)) : list sigvec :=
  match bs with
  | [] => []
  | (k', l) :: t => if key_eqb k' k then l else bucket_find k t
  end.
Definition vecs_eqb_bucketed (a b : list sigvec) : bool :=
  Nat.eqb (List.length a) (List.length b)
  && let bb := buckets b in
     forallb (fun kb => vecs_eqb (snd kb) (bucket_find (fst kb) bb)) (buckets a).

Definition sigs_eqb (results leaves : list sig) : bool :=
  let As := dedup_by osym_eqb [] (flat_map fst leaves) in
  let Al := dedup_by label_eqb [] (flat_map snd leaves) in
  vecs_eqb_bucketed (map (vec_of_sig As Al) results) (map (vec_of_sig As Al) leaves).

(* every result signature occurs among the leaf signatures *)
Definition sigs_inb (results leaves : list sig) : bool :=
  let As := dedup_by osym_eqb [] (flat_map fst leaves) in
  let Al := dedup_by label_eqb [] (flat_map snd leaves) in
  let lv := dedup_by vec_eqb [] (map (vec_of_sig As Al) leaves) in
  forallb (fun s => existsb (vec_eqb (vec_of_sig As Al s)) lv) results.

Definition patterns_ordered (cfg : config) : bool :=
  forallb (fun c => ordered_ids (pg_graph c)) (cfg_core cfg)
  && forallb (fun kg => forallb (fun sg => ordered_ids (pg_graph sg)) (gr_graphs (snd kg))) (cfg_groups cfg).

(** * the C14 checker on a whole enumeration *)

(* count = formula; every result: ids 0..n-1, no group node, aam; every result's (symbols, bonds)
   is the signature of a complete choice sequence, and over the whole enumeration the multiset of
   signatures is the one computed from the configuration *)
Definition C14_full_okb (cfg : config) (results : list graph) : bool :=
  if cfg_hypb cfg && patterns_ordered cfg then
    Nat.eqb (List.length results) (count_cfg cfg)
    && forallb (result_okb cfg) results
    && match ref_all cfg with
       | None => false
       | Some leaves =>
           Nat.eqb (List.length leaves) (count_cfg cfg)
           && sigs_eqb (map sig_of_graph results) (map sig_of_leaf leaves)
       end
  else true.

(* does the collapse to a simple graph lose a bond in some expansion? (then bond conservation, as
   the property states it, cannot hold for that expansion) *)
Definition C14_parallel_leaf (cfg : config) : bool :=
  match ref_all cfg with
  | Some leaves => existsb (fun rg => has_parallel (rg_edges rg)) leaves
  | None => false
  end.

(* a slice of a long enumeration: every result is ok and has the signature of some choice sequence *)
Definition C14_slice_full_okb (cfg : config) (slice : list graph) : bool :=
  forallb (result_okb cfg) slice
  && match ref_all cfg with
     | None => false
     | Some leaves =>
         sigs_inb (map sig_of_graph slice) (map sig_of_leaf leaves)
     end.
