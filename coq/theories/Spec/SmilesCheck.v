(** C02, oracle side: the decidable comparison between the parser's graph and the graph
    fgutils.rdkit.mol_smiles_to_graph builds from RDKit's molecule for the same string.
    Definitions only.  Same node ids in the same order; same element (the parser keeps the
    aromatic lower-case spelling, RDKit's GetSymbol() is capitalised: compared modulo the
    bridge's own table rdkit._get_rdkit_atom_sym); same bonded pairs with the same orders. *)
From Coq Require Import ZArith List Bool String.
From FGV Require Import Base.Util Base.Bond Base.NX Base.Str.
Import ListNotations.
Open Scope string_scope.
Open Scope Z_scope.

(* fgutils/rdkit.py:_get_rdkit_atom_sym  sym_map *)
Definition rdkit_sym_map : list (string * string) :=
  [("c", "C"); ("n", "N"); ("b", "B"); ("o", "O"); ("p", "P"); ("s", "S")].

Definition rdkit_sym (s : string) : string :=
  match slookup s rdkit_sym_map with Some x => x | None => s end.

Definition same_atoms (g h : graph) : bool :=
  list_eqb (fun a b => (fst a =? fst b)
                       && option_eqb String.eqb (option_map rdkit_sym (a_sym (snd a))) (a_sym (snd b)))
           (nodes_data g) (nodes_data h).

Definition edges_sub (g h : graph) : bool :=
  forallb (fun '(n, (_, ad)) =>
             forallb (fun '(v, l) => option_eqb label_eqb (Some l) (edge_label h n v)) ad) g.

Definition smiles_agreeb (parsed rdkit : graph) : bool :=
  same_atoms parsed rdkit && edges_sub parsed rdkit && edges_sub rdkit parsed.
