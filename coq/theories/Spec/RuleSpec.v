(** Declarative specification for C16 (rule application). Definitions only.

    A mapping is a list of pairs (reactant node, rule node), as networkx' VF2 yields it
    (a dict g-node -> rule-node). *)
From Coq Require Import ZArith List Bool String Sorting.Permutation.
From FGV Require Import Base.Util Base.Bond Base.NX Model.Aam Model.Rule Spec.AamSpec.
Import ListNotations.
Open Scope Z_scope.

(** * Embeddings (subgraph monomorphisms, not induced) *)

(* order-free part: an injective, total map of L's nodes to g's nodes that keeps the symbol
   and sends every L edge onto a g edge with the same label *)
Definition embedding_set (L g : graph) (f : mapping) : Prop :=
  NoDup (map fst f) /\ NoDup (map snd f)
  /\ (forall a, In a (nodes L) <-> In a (map snd f))
  /\ (forall u a, In (u, a) f -> In u (nodes g) /\ sym_of g u = sym_of L a)
  /\ (forall u a v b l, In (u, a) f -> In (v, b) f ->
        edge_label L a b = Some l -> edge_label g u v = Some l).

(* canonical presentation: the pairs listed in L's node order *)
Definition embedding (L g : graph) (f : mapping) : Prop :=
  map snd f = nodes L /\ embedding_set L g f.

(** * Reference enumerator: plain backtracking over L's nodes in order *)

Definition edge_okb (L g : graph) (a b u v : Z) : bool :=
  match edge_label L a b with
  | Some l => option_eqb label_eqb (edge_label g u v) (Some l)
  | None => true
  end.

(* may (u, a) be added to the partial map m? *)
Definition compatb (L g : graph) (m : mapping) (u a : Z) : bool :=
  negb (zmem u (map fst m))
  && option_eqb String.eqb (sym_of g u) (sym_of L a)
  && edge_okb L g a a u u
  && forallb (fun '(u', a') => edge_okb L g a a' u u' && edge_okb L g a' a u' u) m.

Fixpoint extend (L g : graph) (ls : list Z) (m : mapping) : list mapping :=
  match ls with
  | [] => [m]
  | a :: t => flat_map (fun u => if compatb L g m u a then extend L g t (m ++ [(u, a)]) else [])
                       (nodes g)
  end.

Definition all_monos (L g : graph) : list mapping := extend L g (nodes L) [].

(* what the theorems ask of the list VF2 supplies: up to the order of the list and the dict
   order inside each mapping it is the reference enumeration *)
Definition monos_valid (L g : graph) (monos : list mapping) : Prop :=
  exists cs, Forall2 (fun m c => Permutation m c) monos cs /\ Permutation cs (all_monos L g).

(** * The expected ITS label of a node pair *)

(* the bond a reaction-centre label puts on the reactant side / product side of the rule
   (None = no bond there): a pair label (x, y) stands for "x before, y after" with 0 = absent;
   a plain number is a bond present on both sides *)
Definition side_of (o : Z) : option Z := if o =? 0 then None else Some o.
Definition lab_left (l : label) : option Z :=
  match l with Scalar o => Some o | Pair a _ | LPair a _ => side_of a end.
Definition lab_right (l : label) : option Z :=
  match l with Scalar o => Some o | Pair _ b | LPair _ b => side_of b end.

(* the reaction-centre label between the images of u and v, if both are matched *)
Definition rc_between (rcg : graph) (f : mapping) (u v : Z) : option label :=
  match alookup u f, alookup v f with
  | Some a, Some b => edge_label rcg a b
  | _, _ => None
  end.

(* [g order, product order] for the pair {u, v}:
   - the rule has a product-side bond y there: product order y (a new edge [0, y] if g has none);
   - else the rule has a reactant-side bond there: the bond is broken, [o, 0];
   - else (pair not in the image of the reaction centre): unchanged, [o, o] / no edge *)
Definition expected_label (g rcg : graph) (f : mapping) (u v : Z) : option label :=
  let rcl := rc_between rcg f u v in
  let left := match rcl with Some l => lab_left l | None => None end in
  let right := match rcl with Some l => lab_right l | None => None end in
  match edge_label g u v, right with
  | Some lb, Some y => Some (LPair (ord lb) y)
  | None, Some y => Some (LPair 0 y)
  | Some lb, None => Some (LPair (ord lb) (match left with Some _ => 0 | None => ord lb end))
  | None, None => None
  end.

(* the modelled domain of reactant graphs: every bond attribute is a number *)
Definition scalar_label (l : label) : Prop := exists o, l = Scalar o.
Definition scalar_graph (g : graph) : Prop :=
  forall u v l, edge_label g u v = Some l -> scalar_label l.

(** * What apply_rule returns, as a function of the candidate list *)

(* a candidate: the WL digest networkx computes for the raw ITS graph, the raw ITS graph
   (its connectivity is what connected_only tests), and the graph of the ITS object *)
Definition cand := (string * graph * graph)%type.

Definition connb (g : graph) : bool :=
  match is_connected g with Some b => b | None => false end.

(* candidates in order; connected_only drops the disconnected ones; unique keeps a candidate
   only if no earlier kept candidate has the same digest *)
Fixpoint select (unique co : bool) (cs : list cand) (seen : list string) : list graph :=
  match cs with
  | [] => []
  | (w, i, f) :: t =>
      if co && negb (connb i) then select unique co t seen
      else if unique then
             if existsb (String.eqb w) seen then select unique co t seen
             else f :: select unique co t (seen ++ [w])
           else f :: select unique co t seen
  end.

(* the limit: the first n accepted results (n <= 0: none) *)
Definition take_n {A} (n : option Z) (l : list A) : list A :=
  match n with None => l | Some k => firstn (Z.to_nat k) l end.

(* the raw ITS graph / the ITS object's graph for a mapping *)
Definition raw_its (g : graph) (rule : rrule) (m : mapping) : graph :=
  match its_of g rule m with Some x => x | None => [] end.
Definition its_graph (g : graph) (rule : rrule) (m : mapping) : graph :=
  match complete_aam (raw_its g rule m) OffMin with Some x => x | None => [] end.

Definition cands_of (g : graph) (rule : rrule) (monos : list mapping) (wls : list string) : list cand :=
  map (fun '(m, w) => (w, raw_its g rule m, its_graph g rule m)) (combine monos wls).

(* node ids and attributes of a result against those of the reactant: same ids in the same
   order, every attribute but "aam" equal, existing map numbers kept, every node mapped, and
   the i-th new number is the least integer >= start that is neither an old number nor an
   earlier new one (start = least old number, or 1): the completion ITS.__init__ performs *)
Definition attr_rel (e e' : Z * (nattr * adjl)) : Prop :=
  fst e = fst e' /\ same_but_aam (fst (snd e)) (fst (snd e'))
  /\ (forall k, a_aam (fst (snd e)) = Some k -> a_aam (fst (snd e')) = Some k).

Definition aam_completed (g res : graph) : Prop :=
  Forall2 attr_rel g res /\ all_mapped res
  /\ forall i k, nth_error (new_numbers g res) i = Some k ->
       is_least_free (start_of OffMin (existing_maps g))
                     (existing_maps g ++ firstn i (new_numbers g res)) k.

(* one result against the reactant g, the reaction-centre graph and a mapping:
   nodes and attributes as above, and on EVERY node pair the label [expected_label] prescribes *)
Definition result_ok (g rcg : graph) (m : mapping) (res : graph) : Prop :=
  nodes res = nodes g
  /\ aam_completed g res
  /\ (forall x y, edge_label res x y = expected_label g rcg m x y).

(** * Reading a result as a reaction: reactant side and product side *)

(* the modelled reactants: every bond attribute is a non-zero number *)
Definition mol_graph (g : graph) : Prop :=
  forall u v l, edge_label g u v = Some l -> exists o, l = Scalar o /\ o <> 0.

(* the product graph prescribed by the property: g, except on images of reaction-centre
   edges, where the bond is the rule's product-side bond (none if the rule has none there);
   a rule label with no bond on either side, or no rule edge, leaves the pair alone *)
Definition product_label (g rcg : graph) (f : mapping) (u v : Z) : option label :=
  match rc_between rcg f u v with
  | Some lab =>
      match lab_right lab with
      | Some y => option_map Scalar (side_of y)
      | None => match lab_left lab with Some _ => None | None => edge_label g u v end
      end
  | None => edge_label g u v
  end.

(** * GML rules.
    A rule description: id, context nodes (id, symbol), left and right edges (source, target,
    bond character). [print_gml] gives the text of the rule in the MOD GML layout AS THE LIST
    OF PRE-LEXED LINE RECORDS, i.e. the answers the six classifier functions give on the lines
    "rule [", TAB ruleID "id", TAB left [, TAB TAB edge [ source u target v label "b" ], TAB ],
    TAB context [, TAB TAB node [ id n label "s" ], ... The regular expressions are outside
    the model; the harness checks on every well-formed case that lexing the printed text with
    the real functions yields exactly these records (check "lex"). *)

Record gml_desc := mkDesc {
  gd_id : string;
  gd_ctx : list (Z * string);
  gd_left : list (Z * Z * string);
  gd_right : list (Z * Z * string)
}.

Definition start_line : lline := mkLine true None (Some "rule"%string) None None false.
Definition id_line (s : string) : lline := mkLine false (Some s) None None None false.
Definition header_line (s : string) : lline := mkLine false None (Some s) None None false.
Definition edge_line (e : Z * Z * string) : lline := mkLine false None None (Some e) None false.
Definition node_line (n : Z * string) : lline := mkLine false None None None (Some n) false.
Definition end_line : lline := mkLine false None None None None true.

Definition print_gml (d : gml_desc) : list lline :=
  [start_line; id_line (gd_id d); header_line "left"%string]
  ++ map edge_line (gd_left d)
  ++ [end_line; header_line "context"%string]
  ++ map node_line (gd_ctx d)
  ++ [end_line; header_line "right"%string]
  ++ map edge_line (gd_right d)
  ++ [end_line; end_line].

(* the bond the description puts between u and v on one side (half units) *)
Fixpoint side_lookup (bm : list (string * Z)) (es : list (Z * Z * string)) (u v : Z) : option Z :=
  match es with
  | [] => None
  | (a, b, c) :: t =>
      if ((u =? a) && (v =? b)) || ((u =? b) && (v =? a)) then slookup c bm else side_lookup bm t u v
  end.

(* the reaction-centre label the text describes: [left order, right order], 0 = no bond *)
Definition desc_label (bm : list (string * Z)) (d : gml_desc) (u v : Z) : option label :=
  match side_lookup bm (gd_left d) u v, side_lookup bm (gd_right d) u v with
  | None, None => None
  | l, r => Some (LPair (match l with Some x => x | None => 0 end) (match r with Some y => y | None => 0 end))
  end.

Definition rc_describes (bm : list (string * Z)) (d : gml_desc) (x : graph) : Prop :=
  nodes x = map fst (gd_ctx d)
  /\ (forall n s, In (n, s) (gd_ctx d) -> node_attr x n = Some (na_sym s))
  /\ (forall u v, edge_label x u v = desc_label bm d u v).

(* well-formed descriptions: distinct context ids, every edge between context nodes with a
   known bond character, no node pair listed twice on one side *)
Fixpoint pairs_distinctb (es : list (Z * Z * string)) : bool :=
  match es with
  | [] => true
  | (a, b, _) :: t =>
      negb (existsb (fun e => ((fst (fst e) =? a) && (snd (fst e) =? b)) || ((fst (fst e) =? b) && (snd (fst e) =? a))) t)
      && pairs_distinctb t
  end.

Definition side_wfb (bm : list (string * Z)) (ids : list Z) (es : list (Z * Z * string)) : bool :=
  forallb (fun e => zmem (fst (fst e)) ids && zmem (snd (fst e)) ids && is_some (slookup (snd e) bm)) es
  && pairs_distinctb es.

Definition desc_wfb (bm : list (string * Z)) (d : gml_desc) : bool :=
  nodupb (map fst (gd_ctx d))
  && side_wfb bm (map fst (gd_ctx d)) (gd_left d)
  && side_wfb bm (map fst (gd_ctx d)) (gd_right d).

(* the reference bond table of the specification (hand-written; the table generated from the
   source is proved equal to it) *)
Definition ref_bond_map : list (string * Z) := [("-"%string, 2); ("="%string, 4); (":"%string, 3)].

(** * Connectedness *)

Inductive reachable (g : graph) : Z -> Z -> Prop :=
| reach_refl : forall u, reachable g u u
| reach_step : forall u v w, reachable g u v -> has_edge g v w = true -> reachable g u w.
