(** Decidable checker for the C12 specification, run on the implementation's outputs.
    It decides the clauses of Spec/HydrogensSpec.v on an ARBITRARY output graph (it does not
    call the model). Definitions only; soundness is proved in Proofs/HydrogensProofs.v. *)
From Coq Require Import ZArith List Bool String.
From FGV Require Import Base.Util Base.StrMap Base.Bond Base.NX Spec.TablesRef Spec.HydrogensSpec.
Import ListNotations.
Open Scope list_scope.
Open Scope Z_scope.

Definition tabulatedb (g0 : graph) (x : Z) : bool :=
  match sym_of g0 x with
  | None => false
  | Some s => negb (smem s ref_h_excluded) && is_some (ref_valence s)
  end.

Definition is_scalar (l : label) : bool := match l with Scalar _ => true | _ => false end.
Definition all_scalarb (ad : adjl) : bool := forallb (fun e => is_scalar (snd e)) ad.

(* clause 1 of [preserve] *)
Definition prefix_nodesb (g0 g' : graph) : bool :=
  list_eqb Z.eqb (firstn (List.length g0) (nodes g')) (nodes g0).

(* clauses 2 and 3 of [preserve] for one old node (clause 4 follows) *)
Definition old_nodeb (g0 g' : graph) (x : Z) : bool :=
  option_eqb nattr_eqb (node_attr g' x) (node_attr g0 x)
  && (let nw := skipn (List.length (adj g0 x)) (adj g' x) in
      adjl_eqb (adj g' x) (adj g0 x ++ nw)
      && forallb (fun e => negb (has_node g0 (fst e)) && label_eqb (snd e) (Scalar 2)) nw).

Definition countb (g0 g' : graph) (x : Z) : bool :=
  Nat.eqb (List.length (new_neighbors g0 g' x)) (expected_h g0 x).

Definition new_nodeb (g0 g' : graph) (h : Z) : bool :=
  has_node g0 h
  || (option_eqb nattr_eqb (node_attr g' h) (Some (na_sym "H"))
      && match adj g' h with
         | [(x, l)] => label_eqb l (Scalar 2) && has_node g0 x && tabulatedb g0 x
         | _ => false
         end
      && forallb (fun k => k <? h) (nodes g0)).

Definition raises_expectedb (g0 : graph) : bool :=
  existsb (fun x => tabulatedb g0 x && negb (all_scalarb (adj g0 x))) (nodes g0).

Definition addh_okb (g0 : graph) (out : option graph) : bool :=
  match out with
  | None => raises_expectedb g0
  | Some g' =>
      negb (raises_expectedb g0)
      && wfb g'
      && prefix_nodesb g0 g'
      && forallb (old_nodeb g0 g') (nodes g0)
      && forallb (new_nodeb g0 g') (nodes g')
      && forallb (countb g0 g') (nodes g0)
  end.

(* diagnosis for replay files: which clause fails *)
Definition addh_report (g0 : graph) (out : option graph) : list (string * bool) :=
  match out with
  | None => [("raises_expected", raises_expectedb g0)]
  | Some g' =>
      [("no_raise_expected", negb (raises_expectedb g0));
       ("wf_output", wfb g');
       ("old_nodes_first_in_order", prefix_nodesb g0 g');
       ("old_attributes_and_adjacency_kept", forallb (old_nodeb g0 g') (nodes g0));
       ("new_nodes_are_single_bonded_fresh_H", forallb (new_nodeb g0 g') (nodes g'));
       ("hydrogen_count", forallb (countb g0 g') (nodes g0))]%string
  end.
