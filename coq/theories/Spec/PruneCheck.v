(** Decidable checkers for the C11 specification, run on the implementation's outputs.
    Definitions only; soundness is proved in Proofs/PruneCheckProofs.v. *)
From Coq Require Import ZArith List Bool String.
From FGV Require Import Base.Util Base.Bond Base.NX Model.Matrix Model.Prune Spec.WalkDef.
Import ListNotations.
Open Scope Z_scope.

Definition rc_edgeb (l : label) : bool :=
  match lab_differs l with Some true => true | _ => false end.
Definition scalarb (l : label) : bool := match l with Scalar _ => true | _ => false end.

Definition is_nil {A} (l : list A) : bool := match l with [] => true | _ => false end.

(* causes of the two exceptions get_rc can raise *)
Definition has_scalar_label (its : graph) : bool :=
  existsb (fun e => existsb (fun p => scalarb (snd p)) (snd (snd e))) its.
Definition has_bare_rc_node (its : graph) : bool :=
  existsb (fun e => negb (is_some (a_sym (fst (snd e))))
                    && existsb (fun p => rc_edgeb (snd p)) (snd (snd e))) its.

Definition rc_graph_okb (its rc : graph) : bool :=
  wfb rc
  && forallb (fun e =>
       let n := fst e in let a := fst (snd e) in let ad := snd (snd e) in
       match sym_of its n with Some s => nattr_eqb a (na_sym s) | None => false end
       && negb (is_nil ad)
       && forallb (fun p => rc_edgeb (snd p)
                            && option_eqb label_eqb (edge_label its n (fst p)) (Some (snd p))) ad) rc
  && forallb (fun e =>
       forallb (fun p => negb (rc_edgeb (snd p))
                         || option_eqb label_eqb (edge_label rc (fst e) (fst p)) (Some (snd p)))
               (snd (snd e))) its.

Definition rc_okb (its : graph) (out : res graph) : bool :=
  match out with
  | Err TypeError => has_scalar_label its
  | Err KeyError => has_bare_rc_node its
  | Err _ => false
  | Ok rc => rc_graph_okb its rc
  end.

(* strictly increasing *)
Fixpoint incrb (l : list Z) : bool :=
  match l with
  | x :: t => match t with y :: _ => (x <? y) && incrb t | [] => true end
  | [] => true
  end.

Definition unreachable_okb (g : graph) (S : list Z) (r : nat) (out : res (list Z)) : bool :=
  match out with
  | Err NetworkXError => is_nil (nodes g)
  | Err KeyError => negb (forallb (has_node g) S)
  | Err _ => false
  | Ok L =>
      let balls := map (fun s => gball g r s) S in
      incrb L
      && forallb (fun v => has_node g v && forallb (fun b => negb (zmem v b)) balls) L
      && forallb (fun v => existsb (fun b => zmem v b) balls || zmem v L) (nodes g)
  end.

(* end atoms of changing bonds, and everything within r steps of one of them *)
Definition rc_nodes (its : graph) : list Z :=
  map fst (filter (fun e => existsb (fun p => rc_edgeb (snd p)) (snd (snd e))) its).
Definition ctx_nodes (its : graph) (r : nat) : list Z := flat_map (gball its r) (rc_nodes its).

(* the bonds from a node of us to a node outside unr, in iteration order *)
Definition cuts_of (its : graph) (unr us : list Z) : list (Z * Z) :=
  flat_map (fun u => map (fun v => (u, v)) (filter (fun v => negb (zmem v unr)) (neighbors its u))) us.

(* cut bonds (dropped end, kept end): from a node outside the context to a node inside *)
Definition cut_list (its : graph) (ctx : list Z) : list (Z * Z) :=
  let unr := filter (fun n => negb (zmem n ctx)) (nodes its) in
  cuts_of its unr unr.

Fixpoint remove_first (v : Z) (cs : list (Z * Z)) : option (list (Z * Z)) :=
  match cs with
  | [] => None
  | c :: t => if snd c =? v then Some t else option_map (cons c) (remove_first v t)
  end.

(* pair every new node with one not yet used cut bond at its only neighbour *)
Fixpoint match_hyd (out : graph) (newl : list Z) (cs : list (Z * Z)) : bool :=
  match newl with
  | [] => is_nil cs
  | n :: t =>
      match adj out n with
      | [(v, l)] =>
          label_eqb l (Pair 2 2)
          && option_eqb nattr_eqb (node_attr out n) (Some (na_sym "H"%string))
          && match remove_first v cs with
             | Some cs' => match_hyd out t cs'
             | None => false
             end
      | _ => false
      end
  end.

Definition prune_graph_okb (its : graph) (r : nat) (ih : bool) (o : graph) : bool :=
  let ctx := ctx_nodes its r in
  let K := fun v => zmem v ctx in
  let newl := filter (fun n => negb (has_node its n)) (nodes o) in
  wfb o
  && forallb (fun e =>
       let n := fst e in
       Bool.eqb (has_node o n) (K n)
       && (negb (K n)
           || (option_eqb nattr_eqb (node_attr o n) (Some (fst (snd e)))
               && forallb (fun p => negb (K (fst p))
                                    || option_eqb label_eqb (edge_label o n (fst p)) (Some (snd p)))
                          (snd (snd e))))) its
  && forallb (fun e =>
       negb (has_node its (fst e))
       || forallb (fun p => negb (has_node its (fst p)) || has_edge its (fst e) (fst p))
                  (snd (snd e))) o
  && (if ih then
        match nodes its with
        | [] => false
        | x :: t => let m := zmax_list x t in forallb (fun n => m <? n) newl
        end
        && match_hyd o newl (cut_list its ctx)
      else is_nil newl).

Definition prune_okb (its : graph) (r : nat) (ih : bool) (out : res graph) : bool :=
  match out with
  | Err NetworkXError => is_nil (nodes its)
  | Err TypeError => has_scalar_label its
  | Err KeyError => has_bare_rc_node its
  | Err ValueError => false
  | Ok o => prune_graph_okb its r ih o
  end.
