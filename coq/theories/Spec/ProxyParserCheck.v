(** C14 checker variant for proxies built with an explicit Parser(init_aam=True) and enable_aam=False:
    the nodes then keep the map numbers the parser wrote (they are not part of the property), so the
    per-result clause about "aam" is dropped; everything else is C14_full_okb. Definitions only. *)
From Coq Require Import ZArith List Bool String Arith.
From FGV Require Import Base.Util Base.Bond Base.NX Base.NXMulti Model.Proxy Model.ProxyGen
  Spec.ProxySpec Spec.ProxyCheck Spec.ProxyGenSpec Spec.ProxyGenCheck Spec.ProxyRefCheck.
Import ListNotations.

Definition result_noaam_okb (cfg : config) (g : graph) : bool :=
  contiguousb g && no_group_nodeb (cfg_groups cfg) g.

Definition C14_full_noaam_okb (cfg : config) (results : list graph) : bool :=
  if cfg_hypb cfg && patterns_ordered cfg then
    Nat.eqb (List.length results) (count_cfg cfg)
    && forallb (result_noaam_okb cfg) results
    && match ref_all cfg with
       | None => false
       | Some leaves =>
           Nat.eqb (List.length leaves) (count_cfg cfg)
           && sigs_eqb (map sig_of_graph results) (map sig_of_leaf leaves)
       end
  else true.
