(** C14, bond conservation: vocabulary. Definitions only. *)
From Coq Require Import ZArith List Bool String Permutation.
From FGV Require Import Base.Util Base.Bond Base.NX Base.NXFacts Base.NXMulti Model.Proxy Model.ProxyGen
  Spec.ProxySpec Spec.ProxyCheck Spec.ProxyGenSpec.
Import ListNotations.
Open Scope Z_scope.

(* no bond from an atom to itself *)
Definition loopfree (g : mgraph) : Prop := forall x, mkeyd g x x = [].
Definition loopfreeb (g : mgraph) : bool :=
  forallb (fun e => negb (zmem (fst e) (map fst (snd (snd e))))) g.

Definition cfg_loopfree (cfg : config) : Prop :=
  Forall (fun c => loopfree (pg_graph c)) (cfg_core cfg)
  /\ Forall (fun kg => Forall (fun sg => loopfree (pg_graph sg)) (gr_graphs (snd kg))) (cfg_groups cfg).
Definition cfg_loopfreeb (cfg : config) : bool :=
  forallb (fun c => loopfreeb (pg_graph c)) (cfg_core cfg)
  && forallb (fun kg => forallb (fun sg => loopfreeb (pg_graph sg)) (gr_graphs (snd kg))) (cfg_groups cfg).

(* at most one bond between two atoms: nx.Graph(multigraph) loses nothing *)
Definition no_parallel (g : mgraph) : Prop := forall u v, (List.length (mkeyd g u v) <= 1)%nat.

(* Bond conservation along a derivation: the bonds of the result, together with the bonds that were
   incident to nodes replaced by the empty pattern at the moment of their replacement ([removed]),
   are the bonds of the start graph and of all chosen patterns; nothing is removed when no chosen
   pattern is empty. *)
Definition bonds_conserved (g : mgraph) (cs : list pgraph) (r : mgraph) : Prop :=
  exists removed,
    Permutation (mbonds r ++ removed) (mbonds g ++ flat_map (fun sg => mbonds (pg_graph sg)) cs)
    /\ (Forall (fun sg => pg_graph sg <> []) cs -> removed = []).
