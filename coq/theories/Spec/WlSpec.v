(** Specification vocabulary for the structural comparison (C19): two graphs that are equal up
    to a renaming of node ids and ANY reordering of the node and adjacency dicts.
    Definitions only. *)
From Coq Require Import ZArith List Bool String Sorting.Permutation.
From FGV Require Import Base.Util Base.Bond Base.NX Base.NXFacts.
Import ListNotations.
Open Scope Z_scope.

(* g' is g with every node u renamed to f u; node order and adjacency order are free.
   Only what the comparison reads is related: the "symbol" of a node and the "bond" of an edge
   (atom maps and the other attributes may differ). f need not be injective outside g's nodes:
   that the node lists correspond one to one makes it a bijection between them. *)
Definition iso_via (f : Z -> Z) (g g' : graph) : Prop :=
  wf g /\ wf g'
  /\ Permutation (nodes g') (map f (nodes g))
  /\ (forall u, In u (nodes g) -> sym_of g' (f u) = sym_of g u)
  /\ (forall u v, In u (nodes g) -> In v (nodes g) -> edge_label g' (f u) (f v) = edge_label g u v).

Definition isomorphic (g g' : graph) : Prop := exists f, iso_via f g g'.
