(** Decidable checkers for C14 / C15, run on the implementation's outputs. Definitions only.
    Everything here is computed from the configuration and the outputs; nothing goes through the
    model's code path (no copy / compose / relabel / replace_node). *)
From Coq Require Import ZArith List Bool String.
From FGV Require Import Base.Util Base.Bond Base.NX Base.NXMulti Model.Aam Model.Proxy Model.Its
  Model.ProxyGen Spec.ProxySpec Spec.ProxyCheck Spec.ProxyGenSpec.
Import ListNotations.
Open Scope Z_scope.

(** * hypotheses of the theorems, decidably *)

Definition attr_okb (gs : groups) (a : nattr) : bool :=
  is_some (group_attr_e gs a)
  && (negb (is_group_attr gs a)
  || match filter (in_groups gs) (node_labels a) with
     | [nm] => match glookup nm gs with Some grp => String.eqb (gr_name grp) nm | None => false end
     | _ => false
     end).

Definition nodes_okb (gs : groups) (g : mgraph) : bool := forallb (fun e => attr_okb gs (fst (snd e))) g.

Definition pattern_okb (gs : groups) (g : mgraph) : bool :=
  mwfb g && ids_rangeb (mnodes g) 0 (mnumber_of_nodes g) && nodes_okb gs g.

Definition pgraph_okb (gs : groups) (pg : pgraph) : bool :=
  pattern_okb gs (pg_graph pg) && anchors_okb (pg_anchor pg) (mnumber_of_nodes (pg_graph pg)).

Definition cfg_okb (cfg : config) : bool :=
  let gs := cfg_groups cfg in
  forallb (fun c => pattern_okb gs (pg_graph c)) (cfg_core cfg)
  && forallb (fun kg => forallb (pgraph_okb gs) (gr_graphs (snd kg))) gs.

(* groups named on the nodes of a graph / of the graphs of a group *)
Definition graph_refs (gs : groups) (g : mgraph) : list string :=
  flat_map (fun e => match node_group gs (fst (snd e)) with Some nm => [nm] | None => [] end) g.
Definition group_refs (gs : groups) (grp : pgroup) : list string :=
  flat_map (fun sg => graph_refs gs (pg_graph sg)) (gr_graphs grp).

Definition rankedb (gs : groups) (rks : list (string * nat)) : bool :=
  forallb (fun kg =>
             Nat.ltb (rank_of rks (fst kg)) (List.length gs)
             && forallb (fun r => Nat.ltb (rank_of rks r) (rank_of rks (fst kg))) (group_refs gs (snd kg))) gs.

(* a rank table, if the group graph is acyclic: longest path below a group (depth-fuelled) *)
Fixpoint grank (d : nat) (gs : groups) (nm : string) : option nat :=
  match d with
  | O => None
  | S d' =>
      match glookup nm gs with
      | None => Some O
      | Some grp =>
          fold_right (fun r acc => match grank d' gs r, acc with
                                   | Some x, Some y => Some (Nat.max (S x) y)
                                   | _, _ => None
                                   end) (Some O) (group_refs gs grp)
      end
  end.

Fixpoint all_some {A} (l : list (option A)) : option (list A) :=
  match l with
  | [] => Some []
  | Some a :: t => option_map (cons a) (all_some t)
  | None :: _ => None
  end.

Definition compute_ranks (gs : groups) : option (list (string * nat)) :=
  all_some (map (fun kg => option_map (pair (fst kg)) (grank (cfg_depth gs) gs (fst kg))) gs).

Definition acyclicb (gs : groups) : bool :=
  match compute_ranks gs with Some rks => rankedb gs rks | None => false end.

(* the hypotheses of the C14 theorems *)
Definition cfg_hypb (cfg : config) : bool := cfg_okb cfg && acyclicb (cfg_groups cfg).

(** * per-result checks *)

Definition contiguousb (g : graph) : bool :=
  ids_rangeb (nodes g) 0 (number_of_nodes g) && nodupb (nodes g).

Definition no_group_nodeb (gs : groups) (g : graph) : bool :=
  forallb (fun e => negb (is_group_attr gs (fst (snd e)))) g.

(* enable_aam: aam = id + 1 on every node; otherwise no node carries a map number *)
Definition aam_okb (aam : bool) (g : graph) : bool :=
  forallb (fun e => option_eqb Z.eqb (a_aam (fst (snd e))) (if aam then Some (fst e + 1) else None)) g.

Definition result_okb (cfg : config) (g : graph) : bool :=
  contiguousb g && no_group_nodeb (cfg_groups cfg) g && aam_okb (cfg_aam cfg) g.

(** * C14 *)

Definition C14_okb (cfg : config) (results : list graph) : bool :=
  if cfg_hypb cfg then
    Nat.eqb (List.length results) (count_cfg cfg)
    && forallb (result_okb cfg) results
  else true.

(* an exception may leave the generator only when the hypotheses of the theorems fail *)
Definition C14_err_okb (cfg : config) : bool := negb (cfg_hypb cfg).

Definition C14_slice_okb (cfg : config) (slice : list graph) : bool :=
  forallb (result_okb cfg) slice.

(** * C15: a generated reaction (g, h) against the expanded ITS graph it was split from *)

(* bond order (half units) of a molecule bond; 0 = not bonded *)
Definition oorder (o : option label) : Z := match o with Some (Scalar c) => c | _ => 0 end.

(* superposition of the two sides on one atom pair: (order in g, order in h), nothing when unbonded in both *)
Definition superpose (g h : graph) (u v : Z) : option label :=
  match edge_label g u v, edge_label h u v with
  | None, None => None
  | a, b => Some (Pair (oorder a) (oorder b))
  end.

(* an ITS label read as (g order, h order): an unchanged bond c is (c, c); (0, 0) is no bond *)
Definition norm_its_label (o : option label) : option label :=
  match o with
  | None => None
  | Some (Scalar c) => Some (Pair c c)
  | Some (Pair a b) | Some (LPair a b) => if (a =? 0) && (b =? 0) then None else Some (Pair a b)
  end.

(* all bonds of a molecule graph are scalar and non-zero *)
Definition molecule_bondsb (g : graph) : bool :=
  forallb (fun e => forallb (fun vl => match snd vl with Scalar c => negb (c =? 0) | _ => false end) (snd (snd e))) g.

Definition same_node_setb (g h : graph) : bool :=
  forallb (fun n => has_node h n) (nodes g) && forallb (fun n => has_node g n) (nodes h)
  && nodupb (nodes g) && nodupb (nodes h).

(* same atoms, same symbols, aam = id + 1 everywhere, superposition = the expanded ITS *)
Definition C15_okb (its g h : graph) : bool :=
  contiguousb its
  && same_node_setb its g && same_node_setb its h
  && forallb (fun n =>
       match node_attr its n, node_attr g n, node_attr h n with
       | Some a, Some b, Some c =>
           option_eqb String.eqb (a_sym a) (a_sym b) && option_eqb String.eqb (a_sym a) (a_sym c)
           && option_eqb Z.eqb (a_aam a) (Some (n + 1))
           && option_eqb Z.eqb (a_aam b) (Some (n + 1)) && option_eqb Z.eqb (a_aam c) (Some (n + 1))
       | _, _, _ => false
       end) (nodes its)
  && molecule_bondsb g && molecule_bondsb h
  && forallb (fun u => forallb (fun v =>
       option_eqb label_eqb (superpose g h u v) (norm_its_label (edge_label its u v))) (nodes its)) (nodes its).

(** * C15: Diels-Alder samples *)

(* reaction-centre bonds of (g, h): atom pairs u < v whose order differs, with (g order, h order) *)
Definition rc_edges (g h : graph) : list (Z * Z * (Z * Z)) :=
  flat_map (fun u => flat_map (fun v =>
     if u <? v then
       let a := oorder (edge_label g u v) in
       let b := oorder (edge_label h u v) in
       if a =? b then [] else [(u, v, (a, b))]
     else []) (nodes g)) (nodes g).

Definition rc_nodes (es : list (Z * Z * (Z * Z))) : list Z :=
  fold_right (fun e acc =>
                let u := fst (fst e) in let v := snd (fst e) in
                let acc1 := if zmem u acc then acc else u :: acc in
                if zmem v acc1 then acc1 else v :: acc1) [] es.

Definition rc_degree (es : list (Z * Z * (Z * Z))) (n : Z) : nat :=
  List.length (filter (fun e => (fst (fst e) =? n) || (snd (fst e) =? n)) es).

Definition rc_nbrs (es : list (Z * Z * (Z * Z))) (n : Z) : list Z :=
  flat_map (fun e => if fst (fst e) =? n then [snd (fst e)] else if snd (fst e) =? n then [fst (fst e)] else []) es.

(* walk along the reaction-centre bonds without turning back *)
Fixpoint rc_walk (fuel : nat) (es : list (Z * Z * (Z * Z))) (prev cur : Z) : list Z :=
  match fuel with
  | O => []
  | S f =>
      match filter (fun x => negb (x =? prev)) (rc_nbrs es cur) with
      | nxt :: _ => cur :: rc_walk f es cur nxt
      | [] => [cur]
      end
  end.

(* the reaction centre is one cycle through exactly six atoms *)
Definition rc_single_6cycle (es : list (Z * Z * (Z * Z))) : bool :=
  let ns := rc_nodes es in
  Nat.eqb (List.length es) 6 && Nat.eqb (List.length ns) 6
  && forallb (fun n => Nat.eqb (rc_degree es n) 2) ns
  && match ns with
     | [] => false
     | s :: _ =>
         match rc_nbrs es s with
         | n1 :: _ => let w := rc_walk 5 es s n1 in nodupb (s :: w) && Nat.eqb (List.length w) 5
         | [] => false
         end
     end.

Definition count_lab (es : list (Z * Z * (Z * Z))) (a b : Z) : nat :=
  List.length (filter (fun e => (fst (snd e) =? a) && (snd (snd e) =? b)) es).

(* two bonds form (0 -> 1), one single bond becomes double, three bonds drop by one order
   (2 -> 1, at most one 3 -> 2); orders in half units *)
Definition rc_labels_ok (es : list (Z * Z * (Z * Z))) : bool :=
  Nat.eqb (count_lab es 0 2) 2 && Nat.eqb (count_lab es 2 4) 1
  && Nat.eqb (count_lab es 4 2 + count_lab es 6 4) 3 && Nat.leb (count_lab es 6 4) 1.

(* reference valences (hand-written, not generated) *)
Definition da_valence (s : string) : option Z :=
  if String.eqb s "C" then Some 4 else if String.eqb s "c" then Some 4
  else if String.eqb s "N" then Some 5 else if String.eqb s "O" then Some 2
  else if String.eqb s "S" then Some 6 else if String.eqb s "Si" then Some 4
  else if String.eqb s "F" then Some 1 else if String.eqb s "Cl" then Some 1
  else if String.eqb s "Br" then Some 1 else if String.eqb s "I" then Some 1
  else None.

(* aromatic-aware valence rule, in half units:
   sum of non-aromatic orders + #aromatic bonds + [#aromatic bonds > 0] <= valence *)
Definition atom_valence_ok (g : graph) (e : Z * (nattr * adjl)) : bool :=
  let ad := snd (snd e) in
  let arom := filter (fun vl => match snd vl with Scalar 3 => true | _ => false end) ad in
  let plain := filter (fun vl => match snd vl with Scalar 3 => false | _ => true end) ad in
  let na := Z.of_nat (List.length arom) in
  let s := fold_right (fun vl acc => oorder (Some (snd vl)) + acc) 0 plain in
  match a_sym (fst (snd e)) with
  | Some sym =>
      match da_valence sym with
      | Some v => s + 2 * na + (if 0 <? na then 2 else 0) <=? 2 * v
      | None => false
      end
  | None => false
  end.

Definition valence_ok (g : graph) : bool := molecule_bondsb g && forallb (atom_valence_ok g) g.

Definition da_sample_ok (gh : graph * graph) : bool :=
  let g := fst gh in let h := snd gh in
  let es := rc_edges g h in
  same_node_setb g h
  && rc_single_6cycle es
  && forallb (fun n => match sym_of g n with Some s => String.eqb s "C" | None => false end) (rc_nodes es)
  && rc_labels_ok es
  && valence_ok g && valence_ok h.

Definition C15_all_okb (its : list graph) (pairs : list (graph * graph)) : bool :=
  Nat.eqb (List.length its) (List.length pairs)
  && forallb (fun x => C15_okb (fst x) (fst (snd x)) (snd (snd x))) (combine its pairs).
