(** Specification vocabulary and decidable checkers for the functional-group hierarchy (C07).
    Definitions only; soundness is proved in Proofs/FGCheckProofs.v.

    The reference relation is built from [is_embedding] (Spec/Embedding.v) through the plain
    backtracking enumeration of Spec/EmbSearch.v, never from the matcher model: "A is below B" = A's pattern embeds somewhere into B's pattern and no
    anti-pattern of A embeds into B's pattern. *)
From Coq Require Import ZArith List Bool String Relations.
From FGV Require Import Base.Util Base.StrMap Base.Bond Base.NX Base.Sym Model.Permute Model.Match
                        Model.FGTree Spec.Embedding Spec.EmbSearch Spec.FGCheck.
Import ListNotations.
Open Scope Z_scope.

Section Ref.
  Variable w : option string.
  Variable ic : bool.

  (* P embeds into G with some anchor pair (pruned backtracking of Spec/EmbSearch.v, every
     complete candidate checked by is_embedding) *)
  Definition embedsb (P G : graph) : bool := embeds_anyb w ic G P.

  Definition Embeds (P G : graph) : Prop := exists a pa f, Embedding w ic G a P pa f.

  (* the reference "is_subgroup parent child" *)
  Definition ref_sub (a b : fgconfig) : bool :=
    if embedsb (fg_pattern a) (fg_pattern b)
    then negb (anyb (fun ap => embedsb ap (fg_pattern b)) (fg_anti a))
    else false.

  Definition mutualb (a b : fgconfig) : bool :=
    if embedsb (fg_pattern a) (fg_pattern b) then embedsb (fg_pattern b) (fg_pattern a) else false.

  (** ** relations on positions of a configuration list, as Boolean matrices *)
  Definition matrix := list (list bool).
  Definition mat_of (f : fgconfig -> fgconfig -> bool) (cfgs : list fgconfig) : matrix :=
    map (fun a => map (fun b => f a b) cfgs) cfgs.
  Definition mget (m : matrix) (i j : nat) : bool := nth j (nth i m []) false.

  (** ** the observable tree, by names *)
  Definition v_children (v : tview) (nm : string) : list string :=
    match slookup nm (snd v) with Some (ch, _) => ch | None => [] end.
  Definition v_parents (v : tview) (nm : string) : list string :=
    match slookup nm (snd v) with Some (_, pa) => pa | None => [] end.

  Section View.
    Variable cfgs : list fgconfig.
    Variable v : tview.

    Definition n_cfgs : nat := List.length cfgs.
    Definition idxs : list nat := seq 0 n_cfgs.
    Definition name_of (i : nat) : string :=
      match nth_error cfgs i with Some c => fg_name c | None => "?"%string end.
    Definition cfg_named (nm : string) : option fgconfig :=
      find (fun c => String.eqb (fg_name c) nm) cfgs.

    Definition link (i j : nat) : bool := smem (name_of j) (v_children v (name_of i)).

    (* j is reachable from i by at least one link; fuel = number of configurations *)
    Fixpoint ancestor (fuel : nat) (i j : nat) : bool :=
      match fuel with
      | O => false
      | S f => anyb (fun k => if link i k then (if (k =? j)%nat then true else ancestor f k j) else false) idxs
      end.

    Fixpoint str_nodup (l : list string) : bool :=
      match l with [] => true | x :: t => negb (smem x t) && str_nodup t end.

    (* the view talks about exactly the configured names, each once *)
    Definition names_okb : bool :=
      str_nodup (map fg_name cfgs) && str_set_eqb (map fg_name cfgs) (map fst (snd v)).

    (* parents lists are the inverse of the children lists *)
    Definition parents_okb : bool :=
      forallb (fun j => str_set_eqb (v_parents v (name_of j))
                                    (map name_of (filter (fun i => link i j) idxs))) idxs.

    Fixpoint chain_okb (lt : fgconfig -> fgconfig -> bool) (l : list string) : bool :=
      match l with
      | x :: ((y :: _) as t) =>
          match cfg_named x, cfg_named y with
          | Some a, Some b => lt a b && chain_okb lt t
          | _, _ => false
          end
      | _ => true
      end.

    (* children: strictly descending order_id; roots: strictly ascending order_id.  The order of the
       lists is part of the correspondence (check "agree"), not of the property: not used below *)
    Definition order_okb : bool :=
      chain_okb cfg_ltb (fst v)
      && forallb (fun i => chain_okb (fun a b => cfg_ltb b a) (v_children v (name_of i))) idxs.

    Definition no_self_ancestorb : bool := forallb (fun i => negb (ancestor n_cfgs i i)) idxs.

    (* roots = the nodes without parents *)
    Definition roots_are_parentlessb : bool :=
      str_set_eqb (fst v) (map name_of (filter (fun j => negb (existsb (fun i => link i j) idxs)) idxs)).

    Definition cfg_i (i : nat) : option fgconfig := nth_error cfgs i.

    (* the reference relation is a strict order compatible with the sort key:
       transitive, and r i j implies order_id i < order_id j *)
    Definition ref_orderb (r : matrix) : bool :=
      forallb (fun i => forallb (fun j =>
         if (i =? j)%nat then true
         else if mget r i j then
           match cfg_i i, cfg_i j with
           | Some a, Some b => cfg_ltb a b
           | _, _ => false
           end
           && forallb (fun k => if (k =? i)%nat then true else if (k =? j)%nat then true
                                else if mget r j k then mget r i k else true) idxs
         else true) idxs) idxs.

    (** the full clause set of C07 against a reference matrix [r] *)
    Definition hasse_okb (r : matrix) : bool :=
      names_okb && parents_okb && no_self_ancestorb && roots_are_parentlessb
      && ref_orderb r
      (* ancestor <-> reference relation *)
      && forallb (fun i => forallb (fun j => (i =? j)%nat || Bool.eqb (ancestor n_cfgs i j) (mget r i j)) idxs) idxs
      (* direct links = covering pairs *)
      && forallb (fun i => forallb (fun j =>
            (i =? j)%nat
            || Bool.eqb (link i j)
                        (mget r i j && negb (existsb (fun k => negb (k =? i)%nat && negb (k =? j)%nat
                                                                && mget r i k && mget r k j) idxs))) idxs) idxs
      (* roots = groups with no ancestor *)
      && str_set_eqb (fst v)
                     (map name_of (filter (fun j => negb (existsb (fun i => negb (i =? j)%nat && mget r i j) idxs)) idxs)).

    (** structural sanity only (lists for which the reference relation need not be an order):
        links lie inside the reference relation *)
    Definition weak_okb (r : matrix) : bool :=
      names_okb && parents_okb && no_self_ancestorb && roots_are_parentlessb
      && forallb (fun i => forallb (fun j => implb (link i j) (negb (i =? j)%nat && mget r i j)) idxs) idxs.

    Definition some_mutualb : bool :=
      let mm := mat_of mutualb cfgs in
      existsb (fun i => existsb (fun j => negb (i =? j)%nat && mget mm i j) idxs) idxs.
  End View.

  (* the checker run on the implementation's output *)
  Definition C07_gen_okb (full : bool) (cfgs : list fgconfig) (out : res tview) : bool :=
    match out with
    | Good v =>
        negb (some_mutualb cfgs)
        && (if full then hasse_okb cfgs v (mat_of ref_sub cfgs) else weak_okb cfgs v (mat_of ref_sub cfgs))
    | Bad AssertErr => some_mutualb cfgs       (* the only justified refusal *)
    | Bad _ => false
    end.
End Ref.

(* the default mapper: wildcard "R", ignore_case *)
Definition C07_okb : list fgconfig -> res tview -> bool := C07_gen_okb (Some "R"%string) true true.
Definition C07_weak_okb : list fgconfig -> res tview -> bool := C07_gen_okb (Some "R"%string) true false.

(** * The declarative reading of the checker's verdict on a tree (by positions in the list) *)
Section HasseSpec.
  Variable cfgs : list fgconfig.
  Variable v : tview.
  Variable r : nat -> nat -> bool.           (* the reference relation on positions *)

  Definition valid (i : nat) : Prop := (i < List.length cfgs)%nat.

  (* the node named like configuration j is listed among the children of the node named like i *)
  Definition vlink (i j : nat) : Prop :=
    valid i /\ valid j /\ In (name_of cfgs j) (v_children v (name_of cfgs i)).

  Record hasse_spec : Prop := {
    hs_names : NoDup (map fg_name cfgs);
    hs_nodes : forall nm, In nm (map fst (snd v)) <-> In nm (map fg_name cfgs);
    (* direct links are exactly the covering pairs *)
    hs_links : forall i j, valid i -> valid j -> i <> j ->
      (vlink i j <-> r i j = true /\
                     forall k, valid k -> k <> i -> k <> j -> r i k = true -> r k j = true -> False);
    (* ancestors are exactly the related pairs *)
    hs_ancestors : forall i j, valid i -> valid j -> (clos_trans nat vlink i j <-> i <> j /\ r i j = true);
    (* no group is its own ancestor *)
    hs_acyclic : forall i, ~ clos_trans nat vlink i i;
    (* roots are exactly the groups with no ancestor *)
    hs_roots : forall j, valid j ->
      (In (name_of cfgs j) (fst v) <-> forall i, valid i -> i <> j -> r i j = false);
    (* parents lists are the inverse of the children lists *)
    hs_parents : forall i j, valid i -> valid j ->
      (In (name_of cfgs i) (v_parents v (name_of cfgs j)) <-> vlink i j)
  }.
End HasseSpec.
