(** Decidable checker for the C08 specification, run on the implementation's outputs, and the
    helpers the generated case files use. Definitions only; soundness is in Proofs/PermuteProofs.v. *)
From Coq Require Import ZArith List Bool String.
From FGV Require Import Base.Util Base.Sym Model.Permute Model.MapMatrix Spec.PermuteSpec.
Import ListNotations.
Open Scope Z_scope.

Fixpoint all2b {A B} (f : A -> B -> bool) (x : list A) (y : list B) : bool :=
  match x, y with
  | [], [] => true
  | a :: x', b :: y' => f a b && all2b f x' y'
  | _, _ => false
  end.

Definition nth_symb (S : list string) (t : Z) (p : string) : bool :=
  match nth_error S (Z.to_nat t) with Some x => String.eqb x p | None => false end.

Definition target_okb (W : option string) (S : list string) (p : string) (t : Z) : bool :=
  (t =? -1) || ((0 <=? t) && (t <? Z.of_nat (List.length S)) && (sym_eqb_opt W p || nth_symb S t p)).

Definition count_okb (W : option string) (CM P S : list string) (ts : list Z) (c : string) : bool :=
  if sym_eqb_opt W c
  then nothing_count c P ts <=? (if sym_mem c CM then wild_room c CM P S else 0)
  else nothing_count c P ts =? (if sym_mem c CM then shortage c P S else 0).

Definition admissibleb (W : option string) (CM P S : list string) (ts : list Z) : bool :=
  all2b (target_okb W S) P ts
  && nodupb (filter (fun t => negb (t =? -1)) ts)
  && forallb (count_okb W CM P S ts) P.

Fixpoint nodup_mapsb (l : list (list (Z * Z))) : bool :=
  match l with
  | [] => true
  | x :: t => negb (existsb (list_zz_eqb x) t) && nodup_mapsb t
  end.

(* all target lists that respect the per-position conditions *)
Definition options (W : option string) (CM S : list string) (p : string) : list Z :=
  (if sym_mem p CM then [-1] else [])
  ++ filter (fun t => sym_eqb_opt W p || nth_symb S t p) (map Z.of_nat (seq 0 (List.length S))).

Fixpoint product (opts : list (list Z)) : list (list Z) :=
  match opts with
  | [] => [[]]
  | o :: r => flat_map (fun t => map (cons t) (product r)) o
  end.

Definition candidates (W : option string) (CM P S : list string) : list (list Z) :=
  product (map (options W CM S) P).

Definition is_nil {A} (l : list A) : bool := match l with [] => true | _ => false end.

Section Checker.
  Variable mp : mapper.
  Variables p s : list string.
  Let ic := m_ignore_case mp.
  Let W := option_map (lw ic) (m_wildcard mp).
  Let CM := map (lw ic) (m_cmtn mp).
  Let P := map (lw ic) p.
  Let S := map (lw ic) s.

  (* every returned mapping is admissible, none twice *)
  Definition permute_sound_okb (out : list (list (Z * Z))) : bool :=
    match p with
    | [] => is_nil out
    | _ => forallb (fun a => list_zz_eqb a (enumerate (map snd a)) && admissibleb W CM P S (map snd a)) out
           && nodup_mapsb out
    end.

  (* every admissible mapping is returned (enumerates the candidates: exponential) *)
  Definition permute_complete_okb (out : list (list (Z * Z))) : bool :=
    match p with
    | [] => true
    | _ => forallb (fun ts => negb (admissibleb W CM P S ts) || existsb (list_zz_eqb (enumerate ts)) out)
                   (candidates W CM P S)
    end.

  Definition permute_okb (out : list (list (Z * Z))) : bool :=
    permute_sound_okb out && permute_complete_okb out.
End Checker.

(** * helpers for batched case files *)

Fixpoint lists_len {A} (al : list A) (n : nat) : list (list A) :=
  match n with
  | O => [[]]
  | Datatypes.S k => flat_map (fun x => map (cons x) (lists_len al k)) al
  end.

(* all lists over [al] of length 0..n, shorter first, each length in itertools.product order *)
Definition lists_upto {A} (al : list A) (n : nat) : list (list A) :=
  flat_map (lists_len al) (seq 0 (Datatypes.S n)).

Definition maps_eqb (x y : list (list (Z * Z))) : bool := list_eqb list_zz_eqb x y.

Definition batch_agree (mp : mapper) (p : list string) (al : list string) (n : nat)
           (outs : list (list (list (Z * Z)))) : bool :=
  list_eqb maps_eqb (map (permute mp p) (lists_upto al n)) outs.

Definition batch_okb (mp : mapper) (p : list string) (al : list string) (n : nat)
           (outs : list (list (list (Z * Z)))) : bool :=
  all2b (permute_okb mp p) (lists_upto al n) outs.

(* cheaper variant without the completeness enumeration *)
Definition batch_sound_okb (mp : mapper) (p : list string) (al : list string) (n : nat)
           (outs : list (list (list (Z * Z)))) : bool :=
  all2b (permute_sound_okb mp p) (lists_upto al n) outs.

(* diagnostics: the structures of a batch on which model and implementation differ / the checker rejects *)
Definition batch_bad (mp : mapper) (p : list string) (al : list string) (n : nat)
           (outs : list (list (list (Z * Z)))) : list (list string * bool * bool) :=
  flat_map (fun so => let '(s, out) := so in
              let a := maps_eqb (permute mp p s) out in
              let c := permute_okb mp p s out in
              if a && c then [] else [(s, a, c)])
           (combine (lists_upto al n) outs).

(** * MappingMatrix *)
Definition matrix_table (m : matrix) (syms : list string) : list (list (option bool)) :=
  map (fun a => map (fun b => is_mapping m a b) syms) syms.

Definition table_eqb (x y : list (list (option bool))) : bool :=
  list_eqb (list_eqb (option_eqb Bool.eqb)) x y.

(* what the table must say according to the single-symbol characterisation *)
Definition matrix_spec_table (mp : mapper) (psyms ssyms syms : list string) : list (list (option bool)) :=
  map (fun a => map (fun b =>
        if sym_mem a (psyms ++ ssyms) && sym_mem b (psyms ++ ssyms)
        then Some (sym_mem a psyms && sym_mem b ssyms && single_match mp a b) else None) syms) syms.
