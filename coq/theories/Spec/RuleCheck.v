(** Decidable checkers for C16, run by the harness on the implementation's outputs and on the
    oracle's (networkx VF2 / WL) answers. Definitions only; soundness in Proofs/RuleCheckProofs.v. *)
From Coq Require Import ZArith List Bool String.
From FGV Require Import Base.Util Base.Bond Base.NX Model.Aam Model.Rule Spec.AamSpec Spec.AamCheck Spec.RuleSpec.
Import ListNotations.
Open Scope Z_scope.

(** * comparison helpers used by the "agree" check *)

Record opts := mkOpts { o_n : option Z; o_unique : bool; o_conn : bool }.

Definition ar_eqb (a b : ar_result) : bool :=
  match a, b with
  | AROk x, AROk y => list_eqb graph_eqb x y
  | ARKeyError, ARKeyError => true
  | ARNullGraph, ARNullGraph => true
  | _, _ => false
  end.

(* model vs implementation: rule.l, rule.r, and the result list for every option combination *)
Definition agree_allb (g rcg : graph) (monos : list mapping) (wls : list string)
                      (lpy rpy : graph) (outs : list (opts * ar_result)) : bool :=
  let rule := reaction_rule rcg in
  graph_eqb (rl rule) lpy && graph_eqb (rr rule) rpy
  && forallb (fun '(o, out) =>
                ar_eqb (apply_rule g rule monos wls (o_n o) (o_unique o) (o_conn o)) out) outs.

Definition gml_err_code (e : gml_err) : Z :=
  match e with
  | EIndex => 0 | EStart => 1 | ERuleId => 2 | ENodeOrEdge => 3 | EGraphLeft => 4
  | EGraphContext => 5 | EGraphRight => 6 | EEndLine => 7 | EMoreLines => 8 | EBondKey => 9
  | ENotInContext => 10 | ESymbolKey => 11 | EAssertContext => 12 | ETypeError => 13
  end.

(* from_gml: name, rc, l, r  or the exception *)
Definition gml_eqb (a : gres (string * rrule)) (b : gres (string * (graph * graph * graph))) : bool :=
  match a, b with
  | GOk (nm, r), GOk (nm', (rc', l', r')) =>
      String.eqb nm nm' && graph_eqb (rc r) rc' && graph_eqb (rl r) l' && graph_eqb (rr r) r'
  | GErr e, GErr e' => gml_err_code e =? gml_err_code e'
  | _, _ => false
  end.

(** * check "vf2": the oracle's list is the reference enumeration *)

Definition mapping_eqb (a b : mapping) : bool := list_eqb pkey_eqb a b.
Definition pair_mem (p : Z * Z) (l : mapping) : bool := existsb (pkey_eqb p) l.
Definition mapping_mem (m : mapping) (l : list mapping) : bool := existsb (mapping_eqb m) l.

(* the pairs of m listed in L's node order *)
Definition canon (L : graph) (m : mapping) : mapping :=
  let inv := invert m in
  flat_map (fun a => match alookup a inv with Some u => [(u, a)] | None => [] end) (nodes L).

(* m and c hold the same pairs, both without repeated keys *)
Definition same_pairsb (m c : mapping) : bool :=
  nodupb (map fst m) && nodupb (map fst c)
  && forallb (fun p => pair_mem p c) m && forallb (fun p => pair_mem p m) c.

Fixpoint mappings_nodupb (l : list mapping) : bool :=
  match l with [] => true | m :: t => negb (mapping_mem m t) && mappings_nodupb t end.

Definition vf2_okb (L g : graph) (monos : list mapping) (wls : list string) : bool :=
  let cs := map (canon L) monos in
  let ref := all_monos L g in
  Nat.eqb (List.length monos) (List.length wls)
  && forallb (fun m => same_pairsb m (canon L m)) monos
  && mappings_nodupb cs
  && forallb (fun c => mapping_mem c ref) cs
  && forallb (fun c => mapping_mem c cs) ref.

(** * check "spec": the implementation's result lists against the property text, over
    [all_monos] (VF2's order and the model of apply_rule play no role here; the WL digests
    are looked up in the table recorded from networkx) *)

(* the atom map of a result is the completion (offset "min") of the reactant's atom map *)
Definition aam_okb (g res : graph) : bool :=
  forall2b (fun e e' =>
              (fst e =? fst e') && same_but_aamb (fst (snd e)) (fst (snd e'))
              && match a_aam (fst (snd e)) with
                 | Some k => option_eqb Z.eqb (a_aam (fst (snd e'))) (Some k)
                 | None => true
                 end) g res
  && all_mappedb res
  && nth_checks (start_of OffMin (existing_maps g)) (existing_maps g) (new_numbers g res) [].

(* res is the ITS the property prescribes for the embedding f *)
Definition its_matchb (g rcg : graph) (f : mapping) (res : graph) : bool :=
  wfb res && aam_okb g res
  && forallb (fun x => forallb (fun y => option_eqb label_eqb (edge_label res x y)
                                                     (expected_label g rcg f x y)) (nodes g)) (nodes g).

(* connectivity of the prescribed ITS: closure of the first node under "some label expected" *)
Definition grow (ns : list Z) (adjb : Z -> Z -> bool) (seen : list Z) : list Z :=
  seen ++ filter (fun y => negb (zmem y seen) && existsb (fun x => adjb x y) seen) ns.
Fixpoint grow_n (k : nat) (ns : list Z) (adjb : Z -> Z -> bool) (seen : list Z) : list Z :=
  match k with O => seen | S k' => grow_n k' ns adjb (grow ns adjb seen) end.
Definition spec_connb (g rcg : graph) (f : mapping) : bool :=
  match nodes g with
  | [] => false
  | s :: _ =>
      let reach := grow_n (List.length (nodes g)) (nodes g)
                          (fun x y => is_some (expected_label g rcg f x y)) [s] in
      forallb (fun y => zmem y reach) (nodes g)
  end.

Fixpoint remove_first {A} (p : A -> bool) (l : list A) : option (A * list A) :=
  match l with
  | [] => None
  | x :: t =>
      if p x then Some (x, t)
      else match remove_first p t with Some (y, t') => Some (y, x :: t') | None => None end
  end.

(* match every result with its own embedding: (embeddings used, in result order; the rest) *)
Fixpoint match_results (g rcg : graph) (E : list mapping) (results : list graph)
  : option (list mapping * list mapping) :=
  match results with
  | [] => Some ([], E)
  | res :: t =>
      match remove_first (fun f => its_matchb g rcg f res) E with
      | Some (f, E') =>
          match match_results g rcg E' t with
          | Some (fs, rest) => Some (f :: fs, rest)
          | None => None
          end
      | None => None
      end
  end.

Fixpoint digest_of (tbl : list (mapping * string)) (f : mapping) : option string :=
  match tbl with
  | [] => None
  | (c, w) :: t => if mapping_eqb c f then Some w else digest_of t f
  end.

Fixpoint strings_nodupb (l : list string) : bool :=
  match l with [] => true | s :: t => negb (existsb (String.eqb s) t) && strings_nodupb t end.

Fixpoint distinct_strings (l : list string) (acc : list string) : list string :=
  match l with
  | [] => acc
  | s :: t => if existsb (String.eqb s) acc then distinct_strings t acc else distinct_strings t (acc ++ [s])
  end.

Fixpoint all_some {A} (l : list (option A)) : option (list A) :=
  match l with
  | [] => Some []
  | Some x :: t => match all_some t with Some r => Some (x :: r) | None => None end
  | None :: _ => None
  end.

Definition limit_len (n : option Z) (total : nat) : nat :=
  match n with None => total | Some k => Nat.min (Z.to_nat k) total end.

Definition apply_okb_with (g rcg : graph) (E Ec : list mapping) (tbl : list (mapping * string))
                          (o : opts) (out : ar_result) : bool :=
  let Eo := if o_conn o then Ec else E in
  match out with
  | AROk results =>
      if o_unique o then
        (* every result is the prescribed ITS of some embedding; pairwise distinct digests;
           without a limit every embedding's digest is represented; with a limit the count is
           min n (number of classes) *)
        match all_some (map (fun res => match find (fun f => its_matchb g rcg f res) Eo with
                                        | Some f => digest_of tbl f
                                        | None => None
                                        end) results) with
        | None => false
        | Some ds =>
            let classes := all_some (map (digest_of tbl) Eo) in
            match classes with
            | None => false
            | Some cl =>
                strings_nodupb ds
                && match o_n o with
                   | None => forallb (fun d => existsb (String.eqb d) ds) cl
                   | Some _ => true
                   end
                && Nat.eqb (List.length results) (limit_len (o_n o) (List.length (distinct_strings cl [])))
            end
        end
      else
        (* one result per embedding: a bijection without a limit, an injection of the right size with one *)
        match match_results g rcg Eo results with
        | None => false
        | Some (_, rest) =>
            match o_n o with
            | None => match rest with [] => true | _ => false end
            | Some _ => Nat.eqb (List.length results) (limit_len (o_n o) (List.length Eo))
            end
        end
  | ARNullGraph =>
      (* nx.is_connected on the null graph: only when connected_only meets an empty reactant
         and some embedding is actually processed *)
      o_conn o && match g with [] => true | _ => false end
      && match E with [] => false | _ => true end
      && match o_n o with Some k => 0 <? k | None => true end
  | _ => false
  end.

Definition apply_all_okb (g rcg : graph) (monos : list mapping) (wls : list string)
                         (outs : list (opts * ar_result)) : bool :=
  let L := rl (reaction_rule rcg) in
  let E := all_monos L g in
  let Ec := filter (spec_connb g rcg) E in
  let tbl := combine (map (canon L) monos) wls in
  forallb (fun '(o, out) => apply_okb_with g rcg E Ec tbl o out) outs.

(** * GML stream: check "lex" (print_gml = the real lexing of the printed text) and check
    "spec" (the parsed rule has the reaction centre the description gives) *)

Definition opt_string_eqb := option_eqb String.eqb.

Definition line_eqb (a b : lline) : bool :=
  Bool.eqb (l_start a) (l_start b) && opt_string_eqb (l_id a) (l_id b) && opt_string_eqb (l_graph a) (l_graph b)
  && option_eqb (fun x y => (fst (fst x) =? fst (fst y)) && (snd (fst x) =? snd (fst y)) && String.eqb (snd x) (snd y))
                (l_edge a) (l_edge b)
  && option_eqb (fun x y => (fst x =? fst y) && String.eqb (snd x) (snd y)) (l_node a) (l_node b)
  && Bool.eqb (l_end a) (l_end b).

Definition lex_okb (d : gml_desc) (lexed : list lline) : bool := list_eqb line_eqb (print_gml d) lexed.

Definition rc_describesb (bm : list (string * Z)) (d : gml_desc) (x : graph) : bool :=
  list_eqb Z.eqb (nodes x) (map fst (gd_ctx d))
  && forallb (fun '(n, s) => option_eqb nattr_eqb (node_attr x n) (Some (na_sym s))) (gd_ctx d)
  && wfb x
  && forallb (fun u => forallb (fun v => option_eqb label_eqb (edge_label x u v) (desc_label bm d u v))
                               (nodes x)) (nodes x).

(* a well-formed description must parse, keep its name, and yield the described centre *)
Definition gml_okb (d : gml_desc) (out : gres (string * (graph * graph * graph))) : bool :=
  if desc_wfb ref_bond_map d then
    match out with
    | GOk (nm, (rcg, _, _)) => String.eqb nm (gd_id d) && rc_describesb ref_bond_map d rcg
    | GErr _ => false
    end
  else true.
