(** Specification of MappingMatrix.min_mapping_symbol and of map_subgraph2 (C08 extension), and the
    decidable checks run on implementation outputs.  Definitions only.  Nothing here mentions the
    hash-dependent row numbering [ord] of the matrix: the tie-break among minimal pairs is left open. *)
From Coq Require Import ZArith List Bool String.
From FGV Require Import Base.Util Base.Bond Base.NX Base.Sym Model.Permute Model.MapMatrix Model.Match
     Model.MapSubgraph2 Spec.Embedding.
Import ListNotations.
Open Scope Z_scope.

(* a listing of the key set of __s2i: what enumerate(set(...)) can produce *)
Definition set_order (ord syms : list string) : Prop :=
  NoDup ord /\ forall x, In x ord <-> In x syms.

(* cells set to 1 only concern registered symbols (true of every constructed matrix) *)
Definition mm_wf (m : matrix) : Prop :=
  forall p s, In (p, s) (mm_valid m) -> In p (mm_syms m) /\ In s (mm_syms m).

(* number of structure symbols (with multiplicity) that pattern symbol p can be mapped to *)
Definition compat_structs (m : matrix) (p : string) (ss : list string) : Z :=
  Z.of_nat (List.length (filter (fun x => cell_mem p x (mm_valid m)) ss)).
(* number of pattern symbols (with multiplicity) that can be mapped to structure symbol s *)
Definition compat_patterns (m : matrix) (s : string) (ps : list string) : Z :=
  Z.of_nat (List.length (filter (fun y => cell_mem y s (mm_valid m)) ps)).

(* the entry m_cnt[p, s] of the code, written without matrices *)
Definition anchor_count (m : matrix) (ps ss : list string) (c : string * string) : Z :=
  if cell_mem (fst c) (snd c) (mm_valid m)
  then compat_structs m (fst c) ss * compat_patterns m (snd c) ps else 0.

Definition registered (m : matrix) (l : list string) : bool := forallb (fun x => sym_mem x (mm_syms m)) l.

Definition minimal_pair (m : matrix) (ps ss : list string) (c : string * string) : Prop :=
  0 < anchor_count m ps ss c /\ forall c', 0 < anchor_count m ps ss c' -> anchor_count m ps ss c <= anchor_count m ps ss c'.

Definition min_mapping_spec (m : matrix) (ps ss : list string) (r : mms_result) : Prop :=
  if (List.length ss <? List.length ps)%nat then r = MMSValueError
  else if negb (registered m ps && registered m ss) then r = MMSKeyError
  else match r with
       | MMSOk None => forall c, anchor_count m ps ss c = 0
       | MMSOk (Some c) => is_mapping m (fst c) (snd c) = Some true /\ minimal_pair m ps ss c
       | _ => False
       end.

(** * decidable form *)
Definition dsyms (m : matrix) : list string := nodup string_dec (mm_syms m).

Definition minimal_pairb (m : matrix) (ps ss : list string) (c : string * string) : bool :=
  (0 <? anchor_count m ps ss c)
  && forallb (fun c' => (anchor_count m ps ss c' <=? 0) || (anchor_count m ps ss c <=? anchor_count m ps ss c'))
             (all_cells (dsyms m)).

Definition mms_eqb (a b : mms_result) : bool :=
  match a, b with
  | MMSValueError, MMSValueError => true
  | MMSKeyError, MMSKeyError => true
  | MMSOk x, MMSOk y => option_eqb (fun c d => String.eqb (fst c) (fst d) && String.eqb (snd c) (snd d)) x y
  | _, _ => false
  end.

Definition min_mapping_okb (m : matrix) (ps ss : list string) (r : mms_result) : bool :=
  if (List.length ss <? List.length ps)%nat then mms_eqb r MMSValueError
  else if negb (registered m ps && registered m ss) then mms_eqb r MMSKeyError
  else match r with
       | MMSOk None => forallb (fun c => anchor_count m ps ss c =? 0) (all_cells (dsyms m))
       | MMSOk (Some c) =>
           sym_mem (fst c) (mm_syms m) && sym_mem (snd c) (mm_syms m)
           && cell_mem (fst c) (snd c) (mm_valid m) && minimal_pairb m ps ss c
       | _ => false
       end.

(* case-file helpers: matrix built by the constructor from (psyms, ssyms) *)
Definition minmap_run (ord : list string) (mp : mapper) (psyms ssyms ps ss : list string) : option mms_result :=
  option_map (fun m => min_mapping_symbol ord m ps ss) (mm_init mp psyms ssyms).
Definition minmap_okb (mp : mapper) (psyms ssyms ps ss : list string) (r : mms_result) : bool :=
  match mm_init mp psyms ssyms with
  | Some m => min_mapping_okb m ps ss r
  | None => false
  end.
(* the count of a reported pair, for diagnostics *)
Definition minmap_count (mp : mapper) (psyms ssyms ps ss : list string) (c : string * string) : option Z :=
  option_map (fun m => anchor_count m ps ss c) (mm_init mp psyms ssyms).

(** * map_subgraph2 *)

Definition pairs_eqb (x y : list (Z * Z)) : bool :=
  list_eqb (fun a b => (fst a =? fst b) && (snd a =? snd b)) x y.
Definition results_eqb (x y : list (bool * list (Z * Z))) : bool :=
  list_eqb (fun a b => Bool.eqb (fst a) (fst b) && pairs_eqb (snd a) (snd b)) x y.
Definition exn_eqb (a b : exn) : bool :=
  match a, b with KeyError, KeyError => true | IndexError, IndexError => true | _, _ => false end.
Definition ms2_eqb (a b : ms2_result) : bool :=
  match a, b with
  | MS2Disconnected, MS2Disconnected | MS2TooLarge, MS2TooLarge | MS2KeyError, MS2KeyError
  | MS2AssertionError, MS2AssertionError | MS2Fuel, MS2Fuel => true
  | MS2Raise e, MS2Raise f => exn_eqb e f
  | MS2Ok x, MS2Ok y => results_eqb x y
  | _, _ => false
  end.

(* the result for a GIVEN anchor symbol pair: every (u, v) with these symbols for which the anchored
   match succeeds, u in pattern node order (outer), v in host node order (inner) *)
Definition anchored_results (G P : graph) (mp : mapper) (c : string * string) : ms2_result :=
  outer_loop G P mp (fst c) (snd c) (nodes P) [].

(* map_subgraph2 with the tie-break left open: a normal result is [anchored_results] of SOME minimal pair *)
Definition map_subgraph2_spec (G P : graph) (mp : mapper) (r : ms2_result) : Prop :=
  if more_than_one_component P then r = MS2Disconnected
  else match labels_of G, labels_of P with
       | Some gl, Some sl =>
           match mm_init mp sl gl with
           | None => r = MS2AssertionError
           | Some m =>
               if (List.length gl <? List.length sl)%nat then r = MS2TooLarge
               else (forall c, anchor_count m sl gl c = 0) /\ r = MS2AssertionError
                    \/ exists c, minimal_pair m sl gl c /\ r = anchored_results G P mp c
           end
       | _, _ => r = MS2KeyError
       end.

Definition map_subgraph2_okb (G P : graph) (mp : mapper) (r : ms2_result) : bool :=
  if more_than_one_component P then ms2_eqb r MS2Disconnected
  else match labels_of G, labels_of P with
       | Some gl, Some sl =>
           match mm_init mp sl gl with
           | None => ms2_eqb r MS2AssertionError
           | Some m =>
               if (List.length gl <? List.length sl)%nat then ms2_eqb r MS2TooLarge
               else (forallb (fun c => anchor_count m sl gl c =? 0) (all_cells (dsyms m)) && ms2_eqb r MS2AssertionError)
                    || existsb (fun c => minimal_pairb m sl gl c && ms2_eqb r (anchored_results G P mp c))
                               (all_cells (dsyms m))
           end
       | _, _ => ms2_eqb r MS2KeyError
       end.

(* every reported mapping is an embedding of the whole pattern (anchored at one of its own pairs) *)
Definition all_embeddingsb (w : option string) (ic : bool) (G P : graph) (r : ms2_result) : bool :=
  match r with
  | MS2Ok l => forallb (fun bm => fst bm && existsb (fun hp => is_embedding w ic G (fst hp) P (snd hp) (snd bm)) (snd bm)) l
  | _ => true
  end.
