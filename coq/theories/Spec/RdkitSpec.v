(** Declarative specification of the RDKit bridge (C19), in the words of the property:
    same atoms in the same order (aromatic lower-case symbols normalised), same bonded pairs with
    the same orders, atom-map numbers >= 1 kept, labelled placeholder nodes refused.
    Definitions only. Everything here uses the hand-written reference tables of Spec/RdkitRef.v. *)
From Coq Require Import ZArith List Bool String.
From FGV Require Import Base.Util Base.Bond Base.NX Model.Rdkit Spec.RdkitRef.
Import ListNotations.
Local Open Scope string_scope.
Open Scope Z_scope.

(** * what one node does to the conversion *)

(* the exception raised while node attributes [d] are converted, if any *)
Definition node_err (ca : string -> option string) (ignore_aam : bool) (d : nattr) : option pyerr :=
  match a_sym d with
  | None => Some KeyError
  | Some s =>
      if is_true (a_islab d) then
        match a_labels d with None => Some KeyError | Some _ => Some ValueError end
      else
        match ca (ref_norm s) with
        | None => Some RuntimeError
        | Some _ =>
            match (if ignore_aam then None else a_aam d) with
            | Some k => if (0 <=? k) && negb (k <=? int_max) then Some OverflowError else None
            | None => None
            end
        end
  end.

Fixpoint first_err (ca : string -> option string) (ignore_aam : bool) (l : list (Z * nattr)) : option pyerr :=
  match l with
  | [] => None
  | (_, d) :: t => match node_err ca ignore_aam d with Some e => Some e | None => first_err ca ignore_aam t end
  end.

(* the atom a node becomes: (symbol, map number; 0 = none) *)
Definition mapnum_of (ignore_aam : bool) (d : nattr) : Z :=
  match (if ignore_aam then None else a_aam d) with
  | Some k => if 0 <=? k then k else 0
  | None => 0
  end.

Definition atom_of (ca : string -> option string) (ignore_aam : bool) (d : nattr) : string * Z :=
  (match a_sym d with
   | Some s => match ca (ref_norm s) with Some x => x | None => "" end
   | None => ""
   end, mapnum_of ignore_aam d).

(** * positions *)

Fixpoint index_of (u : Z) (l : list Z) : option nat :=
  match l with
  | [] => None
  | x :: t => if u =? x then Some O else option_map S (index_of u t)
  end.

(** * the domain of the round-trip clause *)

(* a molecular graph over symbols Chem.Atom accepts unchanged, without labelled nodes, with
   map numbers that fit a C int *)
Definition node_ok (ca : string -> option string) (ignore_aam : bool) (d : nattr) : Prop :=
  (exists s, a_sym d = Some s /\ ca (ref_norm s) = Some (ref_norm s))
  /\ is_true (a_islab d) = false
  /\ (ignore_aam = false -> forall k, a_aam d = Some k -> k <= int_max).

Definition bridge_domain (ca : string -> option string) (ignore_aam : bool) (g : graph) : Prop :=
  (forall n a ad, In (n, (a, ad)) g -> node_ok ca ignore_aam a)
  /\ (forall u v l, edge_label g u v = Some l -> supported_label l = true)
  /\ (forall u, edge_label g u u = None).

(** * the round trip *)

(* the attributes of the i-th atom: normalised symbol, the map number iff it is >= 1 (and maps are
   not ignored), nothing else *)
Definition kept_aam (ignore_aam : bool) (a : nattr) : option Z :=
  if ignore_aam then None
  else match a_aam a with
       | Some k => if 1 <=? k then Some k else None
       | None => None
       end.

Definition expected_attr (ignore_aam : bool) (a : nattr) : nattr :=
  mkNA (option_map ref_norm (a_sym a)) (kept_aam ignore_aam a) None None None.

Definition roundtrip_spec (ignore_aam : bool) (g g' : graph) : Prop :=
  (* the atoms are numbered 0..n-1 in g's node order *)
  nodes g' = map Z.of_nat (seq 0 (List.length g))
  (* with the expected attributes *)
  /\ (forall i n a ad, nth_error g i = Some (n, (a, ad)) ->
        node_attr g' (Z.of_nat i) = Some (expected_attr ignore_aam a))
  (* the i-th and j-th atom are bonded exactly like the i-th and j-th node, with the same order *)
  /\ (forall i j u v, nth_error (nodes g) i = Some u -> nth_error (nodes g) j = Some v ->
        edge_label g' (Z.of_nat i) (Z.of_nat j) = edge_label g u v)
  (* and there is nothing else *)
  /\ (forall x y l, edge_label g' x y = Some l -> In x (nodes g') /\ In y (nodes g')).

(** * the refusal clause *)

Definition labelled (d : nattr) : Prop := a_islab d = Some true.

(* the graph is a molecular graph apart from its labelled placeholder nodes, which carry
   their label list (what the parser produces) *)
Definition refusal_domain (ca : string -> option string) (ignore_aam : bool) (g : graph) : Prop :=
  forall n a ad, In (n, (a, ad)) g ->
    (labelled a /\ a_sym a <> None /\ a_labels a <> None) \/ node_ok ca ignore_aam a.
