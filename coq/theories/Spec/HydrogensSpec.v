(** Declarative specification of hydrogen completion (C12). Definitions only.
    It is written against the hand-written reference table (Spec/TablesRef.v) and the literal
    constants 8 and 2, not against the tables generated from the source. [g0] is the input
    graph, [g'] the completed graph; an "old" node is a node of [g0]. *)
From Coq Require Import ZArith List Bool String.
From FGV Require Import Base.Util Base.StrMap Base.Bond Base.NX Base.NXFacts Spec.TablesRef.
Import ListNotations.
Open Scope list_scope.
Open Scope Z_scope.

Definition ref_valence (s : string) : option Z := slookup s ref_valence_table.

(* the atom carries a symbol of a main-group element with tabulated valence (so neither the
   wildcard R nor H, and not a lower-case / unknown symbol) *)
Definition tabulated (g0 : graph) (x : Z) : Prop :=
  exists s v, sym_of g0 x = Some s /\ smem s ref_h_excluded = false /\ ref_valence s = Some v.

(* all bond labels around an atom are plain orders (no ITS pairs) *)
Definition all_scalar (ad : adjl) : Prop := forall v l, In (v, l) ad -> exists o, l = Scalar o.
Definition scalar_graph (g : graph) : Prop := forall u, all_scalar (adj g u).

(* sum of the bond orders around an atom, in half units *)
Fixpoint bond_sum_half (ad : adjl) : Z :=
  match ad with
  | [] => 0
  | (_, Scalar o) :: t => o + bond_sum_half t
  | _ :: t => bond_sum_half t
  end.

(* valence minus bond-order sum, rounded toward zero, never negative.  In half units:
   min(8, 2v) - v - sum  =  (2 (min 8 (2v) - v) - sum_half) / 2 *)
Definition h_formula (v sum_half : Z) : nat :=
  Z.to_nat (Z.quot (2 * (Z.min 8 (2 * v) - v) - sum_half) 2).

(* the number of hydrogens the statement prescribes for atom x of g0 *)
Definition expected_h (g0 : graph) (x : Z) : nat :=
  match sym_of g0 x with
  | None => 0%nat
  | Some s =>
      if smem s ref_h_excluded then 0%nat
      else match ref_valence s with
           | None => 0%nat
           | Some v => h_formula v (bond_sum_half (adj g0 x))
           end
  end.

(* neighbours of x in g' that are not nodes of g0 *)
Definition new_neighbors (g0 g' : graph) (x : Z) : list Z :=
  filter (fun v => negb (has_node g0 v)) (neighbors g' x).

(** every existing atom, symbol and bond is untouched *)
Definition preserve (g0 g' : graph) : Prop :=
  (* the old nodes come first, in their old order *)
  (exists hs, nodes g' = nodes g0 ++ hs)
  (* attribute dicts of old nodes are unchanged *)
  /\ (forall x, has_node g0 x = true -> node_attr g' x = node_attr g0 x)
  (* the adjacency of an old node keeps its old entries in order; entries are only appended,
     and each appended entry is a single bond to a node that is not old *)
  /\ (forall x, has_node g0 x = true ->
        exists nw, adj g' x = adj g0 x ++ nw
                   /\ forall v l, In (v, l) nw -> has_node g0 v = false /\ l = Scalar 2)
  (* hence: between old nodes exactly the old bonds, in both directions *)
  /\ (forall x y, has_node g0 x = true -> has_node g0 y = true ->
        edge_label g' x y = edge_label g0 x y).

(** only hydrogens are added, each on a fresh id, single-bonded to exactly one heavy atom *)
Definition new_nodes (g0 g' : graph) : Prop :=
  forall h, has_node g' h = true -> has_node g0 h = false ->
    node_attr g' h = Some (na_sym "H")
    /\ (exists x, adj g' h = [(x, Scalar 2)] /\ has_node g0 x = true /\ tabulated g0 x)
    /\ (forall k, has_node g0 k = true -> k < h).

(** the number of hydrogens added to each old atom *)
Definition count (g0 g' : graph) : Prop :=
  forall x, has_node g0 x = true -> List.length (new_neighbors g0 g' x) = expected_h g0 x.

Definition addh_spec (g0 g' : graph) : Prop :=
  wf g' /\ preserve g0 g' /\ new_nodes g0 g' /\ count g0 g'.

(** the function raises (TypeError) exactly when a tabulated atom carries a non-scalar label *)
Definition raises_expected (g0 : graph) : Prop :=
  exists x, has_node g0 x = true /\ tabulated g0 x /\ ~ all_scalar (adj g0 x).
