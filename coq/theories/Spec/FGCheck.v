(** Executable comparisons used by the generated case files of C05 / C06 / C07 (model output
    vs implementation output).  Definitions only. *)
From Coq Require Import ZArith List Bool String.
From FGV Require Import Base.Util Base.StrMap Base.Bond Base.NX Model.Permute Model.Match Model.FGTree
                        Model.Query.
Import ListNotations.
Open Scope Z_scope.

Definition err_eqb (x y : err) : bool :=
  match x, y with
  | KeyErr, KeyErr | IndexErr, IndexErr | AssertErr, AssertErr | ValueErr, ValueErr | TypeErr, TypeErr => true
  | _, _ => false      (* InternalErr / FuelErr equal nothing: the implementation never produces them *)
  end.

Definition res_eqb {A} (eqb : A -> A -> bool) (x y : res A) : bool :=
  match x, y with
  | Good a, Good b => eqb a b
  | Bad e, Bad e' => err_eqb e e'
  | _, _ => false
  end.

Definition str_list_eqb (x y : list string) : bool := list_eqb String.eqb x y.
Definition str_set_eqb (x y : list string) : bool :=
  forallb (fun a => smem a y) x && forallb (fun a => smem a x) y
  && (List.length x =? List.length y)%nat.

(* what is observable of a tree: root names in order; per node its children's names in order
   and its parents' names (a Python list filled in set-iteration order: compared as a set) *)
Definition tview : Type := list string * list (string * (list string * list string)).

Definition name_at (ns : list (tnode (A := fgconfig))) (i : nat) : string :=
  match nth_error ns i with Some n => fg_name (n_cfg n) | None => "?"%string end.

Definition tree_view (t : tree (A := fgconfig)) : tview :=
  (map (name_at (t_nodes t)) (t_roots t),
   map (fun n => (fg_name (n_cfg n),
                  (map (name_at (t_nodes t)) (n_children n), map (name_at (t_nodes t)) (n_parents n))))
       (t_nodes t)).

Definition view_agreeb (m v : tview) : bool :=
  str_list_eqb (fst m) (fst v)
  && (List.length (snd m) =? List.length (snd v))%nat
  && forallb (fun '(nm, (ch, pa)) =>
                match slookup nm (snd v) with
                | Some (ch', pa') => str_list_eqb ch ch' && str_set_eqb pa pa'
                | None => false
                end) (snd m).

Definition res_map {A B} (f : A -> B) (x : res A) : res B :=
  match x with Good a => Good (f a) | Bad e => Bad e end.

Definition tree_agreeb (m : res (tree (A := fgconfig))) (v : res tview) : bool :=
  res_eqb view_agreeb (res_map tree_view m) v.

(* query answers: names, atom lists and order *)
Definition groups_eqb (x y : groups) : bool :=
  list_eqb (fun a b => String.eqb (fst a) (fst b) && list_eqb Z.eqb (snd a) (snd b)) x y.
Definition answer_agreeb (m v : res groups) : bool := res_eqb groups_eqb m v.

(* a re-ordering of a list by positions (used for permutations of the default list) *)
Definition pick {A} (l : list A) (idx : list nat) : list A :=
  flat_map (fun i => match nth_error l i with Some x => [x] | None => [] end) idx.
