(** Specification vocabulary and the decidable checker for functional-group queries (C05).
    Definitions only; soundness is proved in Proofs/QueryCheckProofs.v.

    "Witnessed" is decided by the reference enumeration of embeddings (Spec/EmbSearch.v on top
    of [is_embedding]), never by the matcher model.  The hierarchy consulted for "more specific"
    is the tree the model builds (that tree is tied to the implementation and to the reference
    order by C07). *)
From Coq Require Import ZArith List Bool String Sorted.
From FGV Require Import Base.Util Base.StrMap Base.Bond Base.NX Base.NXFacts Base.Sym Model.Permute Model.Match
                        Model.Hydrogens Model.FGTree Model.Query Spec.Embedding Spec.EmbSearch Spec.FGCheck.
Import ListNotations.
Open Scope Z_scope.

Section Witness.
  Variable w : option string.
  Variable ic : bool.
  Variable G : graph.          (* the hydrogen-completed molecule *)
  Variable max_id : Z.         (* largest id of the molecule as given *)

  (* group atoms that are pattern nodes *)
  Definition group_nodes (c : fgconfig) : list Z :=
    filter (fun p => zmem p (nodes (fg_pattern c))) (fg_group_atoms c).

  (* the listed atoms of an embedding m (pairs (host, pattern)): images of group atoms that
     are atoms of the molecule as given, sorted *)
  Definition image_atoms (c : fgconfig) (m : list (Z * Z)) : list Z :=
    sort_ids (map fst (filter (fun hp => zmem (snd hp) (fg_group_atoms c) && (fst hp <=? max_id)) m)).

  (* the pattern embeds with one of its group atoms on [a], and the embedding satisfies [extra] *)
  Definition pattern_onb (c : fgconfig) (a : Z) (extra : list (Z * Z) -> bool) : bool :=
    anyb (fun pa => anchored_embb w ic G (fg_pattern c) extra a pa) (group_nodes c).

  (* some anti-pattern embeds with one of its nodes on [a] *)
  Definition anti_onb (c : fgconfig) (a : Z) : bool :=
    anyb (fun ap => anyb (fun pa => anchored_embb w ic G ap (fun _ => true) a pa) (nodes ap)) (fg_anti c).

  Definition witnessedb (c : fgconfig) (a : Z) : bool :=
    if pattern_onb c a (fun _ => true) then negb (anti_onb c a) else false.

  (* witnessed by an embedding whose listed atoms are exactly [atoms] *)
  Definition witnessed_withb (c : fgconfig) (a : Z) (atoms : list Z) : bool :=
    if pattern_onb c a (fun m => list_eqb Z.eqb (image_atoms c m) atoms) then negb (anti_onb c a) else false.
End Witness.

(** * the hierarchy *)
Fixpoint nat_union (x y : list nat) : list nat :=
  match y with
  | [] => x
  | b :: t => nat_union (if nat_mem b x then x else x ++ [b]) t
  end.

(* proper descendants of node i in the table; fuel = number of nodes *)
Fixpoint descendants (fuel : nat) (ns : list (tnode (A := fgconfig))) (i : nat) : list nat :=
  match fuel with
  | O => []
  | S f =>
      match nth_error ns i with
      | None => []
      | Some nd => fold_left (fun acc c => nat_union (nat_union acc [c]) (descendants f ns c)) (n_children nd) []
      end
  end.

Definition children_of (ns : list (tnode (A := fgconfig))) (i : nat) : list nat :=
  match nth_error ns i with Some nd => n_children nd | None => [] end.

Fixpoint find_index (nm : string) (ns : list (tnode (A := fgconfig))) (i : nat) : option nat :=
  match ns with
  | [] => None
  | nd :: t => if String.eqb (fg_name (n_cfg nd)) nm then Some i else find_index nm t (S i)
  end.

(* all positions of the table whose group carries the name *)
Fixpoint indices_named (nm : string) (ns : list (tnode (A := fgconfig))) (i : nat) : list nat :=
  match ns with
  | [] => []
  | nd :: t => if String.eqb (fg_name (n_cfg nd)) nm then i :: indices_named nm t (S i) else indices_named nm t (S i)
  end.

Fixpoint strictly_increasing (l : list Z) : bool :=
  match l with
  | x :: ((y :: _) as t) => (x <? y) && strictly_increasing t
  | _ => true
  end.

Definition is_candidate (g : graph) (a : Z) : bool :=
  match alookup a g with
  | Some (at_, _) => negb (sym_in (a_sym at_) candidate_excluded)
  | None => false
  end.

Section Check.
  Variable w : option string.
  Variable ic : bool.
  Variable full : bool.            (* true: no DESCENDANT is witnessed; false: no CHILD is witnessed *)
  Variable tr : tree (A := fgconfig).
  Variable g : graph.              (* the molecule as given *)
  Variable G : graph.              (* the molecule the groups are looked up in *)
  Variable max_id : Z.

  Definition ns := t_nodes tr.
  Definition cfg_at (i : nat) : option fgconfig := option_map n_cfg (nth_error ns i).

  Definition node_witnessedb (i : nat) (a : Z) : bool :=
    match cfg_at i with Some c => witnessedb w ic G c a | None => false end.

  (* one returned entry.  The implementation reports a group NAME and nothing in FGConfig forbids two
     groups with the same name: the entry is justified if SOME node carrying that name justifies it
     (each entry is resolved on its own: a sum over entries, not a product over readings of the list) *)
  Definition entry_node_okb (atoms : list Z) (i : nat) : bool :=
    match cfg_at i with
    | None => false
    | Some c =>
        anyb (fun a =>
                if is_candidate g a then
                  if witnessed_withb w ic G max_id c a atoms then
                    negb (anyb (fun d => node_witnessedb d a)
                               (if full then descendants (List.length ns) ns i else children_of ns i))
                  else false
                else false) atoms
    end.

  Definition entry_okb (e : string * list Z) : bool :=
    let '(nm, atoms) := e in
    strictly_increasing atoms                                   (* sorted, no repetition *)
    && forallb (fun x => zmem x (nodes g)) atoms                (* atoms of the molecule as given *)
    && anyb (entry_node_okb atoms) (indices_named nm ns 0).     (* a configured name, witnessed, most specific *)

  (* every hetero atom on which a root is witnessed is listed somewhere *)
  Definition covering_okb (r : groups) : bool :=
    forallb (fun a => if anyb (fun i => node_witnessedb i a) (t_roots tr)
                      then anyb (fun e => zmem a (snd e)) r else true)
            (fg_candidates g).

  Definition result_okb (r : groups) : bool := forallb entry_okb r && covering_okb r.
End Check.

(** * the checker run on the implementation's output *)
Definition C05_tree_okb (full : bool) (mp : mapper) (rt : res (tree (A := fgconfig))) (req_h : bool) (g : graph)
                        (out : res groups) : bool :=
  let w := m_wildcard mp in
  let ic := m_ignore_case mp in
  if negb (has_symsb g) then true          (* outside the domain: a node without a symbol *)
  else
    match rt with
    | Bad e => match out with Bad e' => err_eqb e e' | Good _ => false end
    | Good tr =>
        match nodes g with
        | [] => match out with
                | Good r => negb req_h && match r with [] => true | _ => false end
                | Bad ValueErr => req_h          (* np.max of an empty node list *)
                | Bad _ => false
                end
        | x :: t =>
            let max_id := zmax_list x t in
            match (if req_h then add_implicit_hydrogens g else Some g) with
            | None => match out with Bad TypeErr => true | _ => false end
            | Some G =>
                match out with
                | Good r => result_okb w ic full tr g G max_id r
                | Bad _ => false
                end
            end
        end
    end.

Definition C05_gen_okb (full : bool) (mp : mapper) (cfgs : list fgconfig) : bool -> graph -> res groups -> bool :=
  C05_tree_okb full mp (build_config_tree_from_list mp cfgs).

Definition C05_okb : mapper -> list fgconfig -> bool -> graph -> res groups -> bool := C05_gen_okb true.
Definition C05_child_okb : mapper -> list fgconfig -> bool -> graph -> res groups -> bool := C05_gen_okb false.

(** * The declarative statement of C05 *)
Section C05Spec.
  Variable w : option string.
  Variable ic : bool.
  Variable G : graph.            (* the molecule the groups are looked up in (hydrogen-completed) *)
  Variable max_id : Z.           (* largest id of the molecule as given *)

  (* x is listed for the embedding f of c's pattern: the image of a group atom, and an atom of the
     molecule as given *)
  Definition listed (c : fgconfig) (f : Z -> option Z) (x : Z) : Prop :=
    exists p, In p (nodes (fg_pattern c)) /\ In p (fg_group_atoms c) /\ f p = Some x /\ x <= max_id.

  (* the pattern embeds with the group atom pa on a *)
  Definition PatternOn (c : fgconfig) (a : Z) : Prop :=
    exists pa f, In pa (fg_group_atoms c) /\ Embedding w ic G a (fg_pattern c) pa f.

  Definition PatternOnWith (c : fgconfig) (a : Z) (atoms : list Z) : Prop :=
    exists pa f, In pa (fg_group_atoms c) /\ Embedding w ic G a (fg_pattern c) pa f /\
                 forall x, In x atoms <-> listed c f x.

  (* some anti-pattern embeds with one of its nodes on a *)
  Definition AntiOn (c : fgconfig) (a : Z) : Prop :=
    exists ap pa f, In ap (fg_anti c) /\ Embedding w ic G a ap pa f.

  Definition Witnessed (c : fgconfig) (a : Z) : Prop := PatternOn c a /\ ~ AntiOn c a.
End C05Spec.

(* configurations the theorems speak about: pattern and anti-patterns are non-empty well-formed
   connected graphs (true of everything the parser returns for a string without ".") *)
Definition graph_ok (P : graph) : Prop := P <> [] /\ wfb P = true /\ connected P.
Definition cfg_ok (c : fgconfig) : Prop :=
  graph_ok (fg_pattern c) /\ forall ap, In ap (fg_anti c) -> graph_ok ap.

(* one returned entry (name, atoms) is justified by node i of the tree and the atom a *)
Definition entry_justified (w : option string) (ic : bool) (tr : tree (A := fgconfig)) (g G : graph) (max_id : Z)
                           (e : string * list Z) : Prop :=
  exists i nd a,
    nth_error (t_nodes tr) i = Some nd /\ fst e = fg_name (n_cfg nd)          (* a configured group *)
    /\ In a (snd e) /\ is_candidate g a = true                                (* anchoring atom, not C / H *)
    /\ PatternOnWith w ic G max_id (n_cfg nd) a (snd e)                       (* witnessed, atoms = listed atoms *)
    /\ ~ AntiOn w ic G (n_cfg nd) a                                           (* no anti-pattern on a *)
    /\ (forall c ndc, In c (n_children nd) -> nth_error (t_nodes tr) c = Some ndc ->
                      ~ Witnessed w ic G (n_cfg ndc) a)                       (* no child witnessed on a *)
    /\ StronglySorted Z.lt (snd e)                                            (* strictly increasing *)
    /\ (forall x, In x (snd e) -> In x (nodes g)).                            (* atoms of the molecule as given *)

Definition C05_statement (w : option string) (ic : bool) (tr : tree (A := fgconfig)) (req_h : bool) (g : graph)
                         (r : groups) : Prop :=
  exists G max_id,
    (if req_h then add_implicit_hydrogens g = Some G else G = g)
    /\ (forall x, In x (nodes g) -> x <= max_id) /\ (nodes g = [] \/ In max_id (nodes g))
    /\ (forall e, In e r -> entry_justified w ic tr g G max_id e)
    /\ (* coverage *)
       (forall a rt nd, In a (fg_candidates g) -> In rt (t_roots tr) -> nth_error (t_nodes tr) rt = Some nd ->
                        Witnessed w ic G (n_cfg nd) a -> exists e, In e r /\ In a (snd e)).

(** * "no more specific group": descendants *)
(* d is a proper descendant of i in the table *)
Definition child_of (tr : tree (A := fgconfig)) (i c : nat) : Prop :=
  exists nd, nth_error (t_nodes tr) i = Some nd /\ In c (n_children nd).
Definition descendant_of (tr : tree (A := fgconfig)) : nat -> nat -> Prop :=
  Relation_Operators.clos_trans nat (child_of tr).

Definition node_witnessed (w : option string) (ic : bool) (tr : tree (A := fgconfig)) (G : graph) (a : Z) (i : nat) : Prop :=
  exists nd, nth_error (t_nodes tr) i = Some nd /\ Witnessed w ic G (n_cfg nd) a.

(* the hypothesis under which the child clause extends to all descendants: every witnessed proper
   descendant of a witnessed node lies below-or-at a witnessed CHILD of that node (witnesses
   propagate upwards along some path).  Not a theorem for arbitrary configurations (DESIGN, C05). *)
Definition witness_path_closed (w : option string) (ic : bool) (tr : tree (A := fgconfig)) (G : graph) (a : Z) : Prop :=
  forall i d, node_witnessed w ic tr G a i -> descendant_of tr i d -> node_witnessed w ic tr G a d ->
              exists c, child_of tr i c /\ node_witnessed w ic tr G a c.

(* the full statement of the property for one entry: no DESCENDANT of the returned group is witnessed *)
Definition entry_most_specific (w : option string) (ic : bool) (tr : tree (A := fgconfig)) (G : graph)
                               (e : string * list Z) : Prop :=
  exists i nd a, nth_error (t_nodes tr) i = Some nd /\ fst e = fg_name (n_cfg nd) /\ In a (snd e) /\
                 forall d, descendant_of tr i d -> ~ node_witnessed w ic tr G a d.

(** * The facts about other components that the C05 theorems take as premises

    They are, verbatim, theorems of the owners of Model/Match.v (Props/C03.v: C03; Props/C04.v:
    C04_sound, with [covers] written out) and of Model/Hydrogens.v (Props/C12.v: C12_wf, C12_fresh;
    [HydSyms] follows from C12_preserve and C12_new_nodes). *)
Definition MatcherComplete (w : option string) (ic : bool) : Prop :=
  forall G P, wfb G = true -> wfb P = true ->
  forall a pa f, has_syms G -> Embedding w ic G a P pa f ->
  exists pairs vis, map_anchored_subgraph G P (mk_mapper w ic []) a pa = Ok (true, pairs, vis).

Definition MatcherSound (w : option string) (ic : bool) : Prop :=
  forall G P, wfb G = true -> wfb P = true ->
  forall a pa pairs vis, connected_from P pa ->
  map_anchored_subgraph G P (mk_mapper w ic []) a pa = Ok (true, pairs, vis) ->
  (NoDup (map snd pairs) /\ NoDup (map fst pairs) /\ forall p, In p (map snd pairs) <-> In p (nodes P))
  /\ Embedding w ic G a P pa (pair_fun pairs).

Definition HydWf : Prop :=
  forall g g', Base.NXFacts.wf g -> add_implicit_hydrogens g = Some g' -> Base.NXFacts.wf g'.
Definition HydFresh : Prop :=
  forall g g', Base.NXFacts.wf g -> add_implicit_hydrogens g = Some g' ->
  NoDup (nodes g') /\
  forall h, has_node g' h = true -> has_node g h = false -> forall k, has_node g k = true -> k < h.
Definition HydSyms : Prop :=
  forall g g', Base.NXFacts.wf g -> has_syms g -> add_implicit_hydrogens g = Some g' -> has_syms g'.

(** * The input class of the known finding KF-C05-descendant (class=partial-group-atoms-descendant)

    Literal form: some group X has a hetero pattern position (not the wildcard, not C / H) that is
    not in its group_atoms, and some embedding of X's pattern into the pattern of a descendant D sends
    that position onto a group atom of D.  Broad form (the witness path is statically open): reading
    the pattern of a descendant D of a group N as a molecule, N is witnessed on a group atom u of D
    that is not C / H (a wildcard position listed in group_atoms counts) while no child of N on a
    path to D is.  Veto form: a group with a descendant D carries an anti-pattern that no anti-pattern of
    D embeds into (the group can be vetoed on an atom on which D is still witnessed).  Wildcard-anchor form: a group with
    descendants lists a wildcard position in group_atoms.  In all cases the descent of __find_best_node_rec can
    stop above D on an atom on which D is witnessed.  Decided by the kernel in every case file, so
    that a failing descendant clause is attributed to the finding only inside the class; the default
    configuration is outside all forms (Props/C05.v, C05_default_outside_finding_class). *)
Definition is_wildcard_sym (w : option string) (ic : bool) (s : option string) : bool :=
  match w, s with
  | Some w', Some s' => String.eqb (fold_case ic s') (fold_case ic w')
  | _, _ => false
  end.

(* a position that can anchor a group: neither the wildcard nor one of the excluded symbols C / H *)
Definition hetero_pos (w : option string) (ic : bool) (P : graph) (p : Z) : bool :=
  if is_wildcard_sym w ic (sym_of P p) then false else negb (sym_in (sym_of P p) candidate_excluded).

(* literal form: X has a hetero pattern position p outside group_atoms, and some embedding of X's
   pattern into the pattern of a descendant D sends p onto a group atom of D *)
Definition omits_listed_positionb (w : option string) (ic : bool) (x d : fgconfig) : bool :=
  anyb (fun p =>
          if zmem p (fg_group_atoms x) then false
          else if hetero_pos w ic (fg_pattern x) p
               then anyb (fun u => anchored_embb w ic (fg_pattern d) (fg_pattern x) (fun _ => true) u p) (group_nodes d)
               else false)
       (nodes (fg_pattern x)).

Definition over_tree_pairs (tr : tree (A := fgconfig)) (f : nat -> fgconfig -> nat -> fgconfig -> bool) : bool :=
  let ns := t_nodes tr in
  anyb (fun i =>
          match nth_error ns i with
          | Some ndx =>
              anyb (fun j => match nth_error ns j with
                             | Some ndd => f i (n_cfg ndx) j (n_cfg ndd)
                             | None => false
                             end)
                   (descendants (List.length ns) ns i)
          | None => false
          end)
       (seq 0 (List.length ns)).

Definition partial_group_atoms_classb (w : option string) (ic : bool) (tr : tree (A := fgconfig)) : bool :=
  over_tree_pairs tr (fun _ x _ d => omits_listed_positionb w ic x d).

(* broad form (static failure of witness_path_closed): reading the pattern of a descendant D of N as
   a molecule, N is witnessed on a non-C/H group atom u of D but no child of N on a path to D is *)
Definition path_open_classb (w : option string) (ic : bool) (tr : tree (A := fgconfig)) : bool :=
  let ns := t_nodes tr in
  over_tree_pairs tr (fun i n j d =>
    anyb (fun u =>
            (* u can anchor a group: not C / H; a wildcard position listed as group atom counts *)
            if negb (sym_in (sym_of (fg_pattern d) u) candidate_excluded) then
              if witnessedb w ic (fg_pattern d) n u then
                negb (anyb (fun c => if (c =? j)%nat || nat_mem j (descendants (List.length ns) ns c)
                                     then match nth_error ns c with
                                          | Some ndc => witnessedb w ic (fg_pattern d) (n_cfg ndc) u
                                          | None => false
                                          end
                                     else false)
                           (children_of ns i))
              else false
            else false)
         (group_nodes d)).

(* veto form: a group X with a descendant D has an anti-pattern that no anti-pattern of D embeds into: on a molecule
   in which that anti-pattern sits on the anchoring atom, X is vetoed while D can still be witnessed, so the descent
   stops above D *)
Definition anti_open_classb (w : option string) (ic : bool) (tr : tree (A := fgconfig)) : bool :=
  over_tree_pairs tr (fun _ x _ d =>
    anyb (fun ap => negb (anyb (fun ap' => embeds_anyb w ic ap ap') (fg_anti d))) (fg_anti x)).

(* wildcard-anchor form: a group that has descendants lists a WILDCARD position among its group_atoms, so it can be
   anchored on an atom through the wildcard; whether a more specific group is reachable from there depends on the
   molecule around that atom, not on the patterns *)
Definition wildcard_anchor_classb (w : option string) (ic : bool) (tr : tree (A := fgconfig)) : bool :=
  over_tree_pairs tr (fun _ x _ _ =>
    anyb (fun p => is_wildcard_sym w ic (sym_of (fg_pattern x) p)) (group_nodes x)).

(* the class of KF-C05-descendant: the literal form, the broad form, the veto form or the wildcard-anchor form *)
Definition kf_descendant_classb (w : option string) (ic : bool) (tr : tree (A := fgconfig)) : bool :=
  if partial_group_atoms_classb w ic tr then true
  else if path_open_classb w ic tr then true
  else if anti_open_classb w ic tr then true
  else wildcard_anchor_classb w ic tr.

(* check "descendant_unattributed": the full descendant clause holds, or its failure is attributable
   to the known finding: the configuration is in the class AND the model reproduces the
   implementation's answer ([agree]) *)
Definition C05_desc_attrib_okb (mp : mapper) (rt : res (tree (A := fgconfig))) (req_h : bool) (g : graph)
                               (out : res groups) (agree : bool) : bool :=
  if C05_tree_okb true mp rt req_h g out then true
  else match rt with
       | Good tr => if kf_descendant_classb (m_wildcard mp) (m_ignore_case mp) tr then agree else false
       | Bad _ => false
       end.
