(** Declarative specification of the permutation mapper (C08). Definitions only.
    Nothing here refers to permutations, padding or de-duplication. *)
From Coq Require Import ZArith List Bool String.
From FGV Require Import Base.Util Base.Sym Model.Permute.
Import ListNotations.
Open Scope Z_scope.

(** * generate_mapping_permutations *)

(* [(0,t0); (1,t1); ...] is [enumerate ts] (Model.Permute.enumerate). A mapping produced for
   pattern p / structure s / pattern-side wildcard w sends the pattern positions, in order, to
   pairwise distinct structure positions carrying an equal symbol (any symbol for the wildcard). *)
Definition gen_target_ok (w : option string) (s : list string) (pi : string) (t : Z) : Prop :=
  0 <= t < Z.of_nat (List.length s) /\ (w = Some pi \/ nth_error s (Z.to_nat t) = Some pi).

Definition gen_spec (p s : list string) (w : option string) (m : list (Z * Z)) : Prop :=
  p <> [] /\ exists ts : list Z,
    m = enumerate ts /\ NoDup ts /\ Forall2 (gen_target_ok w s) p ts.

(** * PermutationMapper.permute *)

(* how many more c the pattern holds than the structure *)
Definition shortage (c : string) (P S : list string) : Z :=
  Z.max 0 (count_sym c P - count_sym c S).

(* number of pattern positions holding c whose target is "nothing" (-1) *)
Definition nothing_count (c : string) (P : list string) (ts : list Z) : Z :=
  Z.of_nat (List.length (filter (fun pt => String.eqb c (fst pt) && (snd pt =? -1)) (combine P ts))).

(* the symbols listed before the first occurrence of w *)
Fixpoint before (w : string) (cm : list string) : list string :=
  match cm with
  | [] => []
  | c :: t => if String.eqb c w then [] else c :: before w t
  end.

Definition sum_shortage (cs P S : list string) : Z :=
  fold_right (fun c acc => shortage c P S + acc) 0 cs.

(* dummy partners available to wildcard positions: what is still missing after the distinct
   symbols listed before the wildcard got theirs *)
Definition wild_room (w : string) (CM P S : list string) : Z :=
  Z.max 0 (Z.of_nat (List.length P) - Z.of_nat (List.length S)
           - sum_shortage (nodup string_dec (before w CM)) P S).

Definition target_ok (W : option string) (S : list string) (p : string) (t : Z) : Prop :=
  t = -1 \/ (0 <= t < Z.of_nat (List.length S) /\ (W = Some p \/ nth_error S (Z.to_nat t) = Some p)).

(* W, CM, P, S: wildcard, can_map_to_nothing, pattern, structure after optional lower-casing;
   ts: the target of every pattern position, -1 = nothing *)
Record admissible (W : option string) (CM P S : list string) (ts : list Z) : Prop := {
  adm_targets : Forall2 (target_ok W S) P ts;
  adm_inj : NoDup (filter (fun t => negb (t =? -1)) ts);
  adm_nothing : forall c, W <> Some c ->
      nothing_count c P ts = if in_dec string_dec c CM then shortage c P S else 0;
  adm_wild : forall w, W = Some w ->
      nothing_count w P ts <= if in_dec string_dec w CM then wild_room w CM P S else 0
}.

Definition lw (ic : bool) (x : string) : string := if ic then lower x else x.

Definition permute_spec (mp : mapper) (p s : list string) (a : list (Z * Z)) : Prop :=
  let ic := m_ignore_case mp in
  p <> [] /\ exists ts : list Z,
    a = enumerate ts /\
    admissible (option_map (lw ic) (m_wildcard mp)) (map (lw ic) (m_cmtn mp))
               (map (lw ic) p) (map (lw ic) s) ts.

(* every can_map_to_nothing symbol other than w itself is listed before w
   (what __init__'s sort achieves unless another listed symbol is a substring of the wildcard) *)
Definition wild_last (w : string) (CM : list string) : Prop :=
  forall c, In c CM -> c <> w -> In c (before w CM).

(** * single symbols (MappingMatrix) *)
Definition single_match (mp : mapper) (ps ss : string) : bool :=
  let ic := m_ignore_case mp in
  let P := lw ic ps in
  sym_eqb_opt (option_map (lw ic) (m_wildcard mp)) P || String.eqb P (lw ic ss)
  || existsb (String.eqb P) (map (lw ic) (m_cmtn mp)).
