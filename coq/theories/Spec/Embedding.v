(** The notion of embedding shared by the matching properties (C03, C04, ...), the
    decidable test for a concrete list of node pairs, and a reference decision procedure
    (plain enumeration of all injective node maps).  Definitions only; the exactness
    proofs are in Proofs/EmbeddingFacts.v. *)
From Coq Require Import ZArith List Bool String.
From FGV Require Import Base.Util Base.Bond Base.NX Base.Sym.
Import ListNotations.
Open Scope Z_scope.

(** * Symbol admission of a mapper with wildcard [w] and flag [ic] (ignore_case)

    The pattern symbol [p] accepts the structure symbol [s] when, after optional
    lower-casing of everything, [p] is the wildcard or [p = s].  The wildcard is only
    ever recognised on the pattern side. *)
Definition fold_case (ic : bool) (x : string) : string := if ic then lower x else x.

Definition adm (w : option string) (ic : bool) (p s : string) : bool :=
  match w with
  | Some w' => String.eqb (fold_case ic p) (fold_case ic w')
  | None => false
  end
  || String.eqb (fold_case ic p) (fold_case ic s).

(** * Embeddings

    [f] sends pattern nodes to host nodes ([None] = no image).  [Embedding w ic G a P pa f]:
    the pattern anchor [pa] is a pattern node sent to the host anchor [a]; [f] is total
    and injective on the pattern's nodes; every pattern node's symbol accepts the symbol
    of its image (so the image is a host node carrying a symbol); every pattern bond lies
    on a host bond with an equal label. *)
Record Embedding (w : option string) (ic : bool) (G : graph) (a : Z) (P : graph) (pa : Z)
                 (f : Z -> option Z) : Prop := {
  emb_anchor : In pa (nodes P) /\ f pa = Some a;
  emb_total  : forall p, In p (nodes P) -> exists n, f p = Some n;
  emb_inj    : forall p q n, In p (nodes P) -> In q (nodes P) ->
                 f p = Some n -> f q = Some n -> p = q;
  emb_adm    : forall p n, In p (nodes P) -> f p = Some n ->
                 exists ps s, sym_of P p = Some ps /\ sym_of G n = Some s /\ adm w ic ps s = true;
  emb_edges  : forall p q l n n', edge_label P p q = Some l -> f p = Some n -> f q = Some n' ->
                 edge_label G n n' = Some l
}.

(** * Embedding of the part of the pattern that a pair list covers

    Used for mappers that may leave pattern nodes without an image: the list of
    (host node, pattern node) pairs is the graph of an injective function that contains the
    anchor pair, respects symbol admission, and preserves every pattern bond between two
    covered pattern nodes. *)
Record PartialEmbedding (w : option string) (ic : bool) (G : graph) (a : Z) (P : graph) (pa : Z)
                        (m : list (Z * Z)) : Prop := {
  pe_fun    : NoDup (map snd m);
  pe_inj    : NoDup (map fst m);
  pe_anchor : In (a, pa) m;
  pe_nodes  : forall n p, In (n, p) m ->
                In p (nodes P) /\
                exists ps s, sym_of P p = Some ps /\ sym_of G n = Some s /\ adm w ic ps s = true;
  pe_edges  : forall n p n' q l, In (n, p) m -> In (n', q) m ->
                edge_label P p q = Some l -> edge_label G n n' = Some l
}.

(** * Connectedness of a pattern *)
Inductive reach (P : graph) (s : Z) : Z -> Prop :=
| reach_refl : reach P s s
| reach_step : forall p q, reach P s p -> In q (neighbors P p) -> reach P s q.

Definition connected_from (P : graph) (s : Z) : Prop := forall p, In p (nodes P) -> reach P s p.
Definition connected (P : graph) : Prop := forall s, In s (nodes P) -> connected_from P s.

(* every node carries a symbol (true of every graph FGUtils builds) *)
Definition has_syms (g : graph) : Prop := forall n, In n (nodes g) -> exists s, sym_of g n = Some s.
Definition has_symsb (g : graph) : bool := forallb (fun n => is_some (sym_of g n)) (nodes g).

(** * A concrete list of (host node, pattern node) pairs read as a map *)
Definition pair_fun (m : list (Z * Z)) (p : Z) : option Z :=
  option_map fst (find (fun hp => snd hp =? p) m).

Definition sym_okb (w : option string) (ic : bool) (G P : graph) (h p : Z) : bool :=
  match sym_of P p, sym_of G h with
  | Some ps, Some s => adm w ic ps s
  | _, _ => false
  end.

(* the pair list is the graph of an injective function defined on exactly the pattern's nodes *)
Definition covers (P : graph) (m : list (Z * Z)) : Prop :=
  NoDup (map snd m) /\ NoDup (map fst m) /\ forall p, In p (map snd m) <-> In p (nodes P).

(* is the pair list the graph of an embedding of the whole pattern? *)
Definition is_embedding (w : option string) (ic : bool) (G : graph) (a : Z) (P : graph) (pa : Z)
                        (m : list (Z * Z)) : bool :=
  nodupb (map snd m) && nodupb (map fst m)
  && forallb (fun p => zmem p (map snd m)) (nodes P)
  && forallb (fun p => zmem p (nodes P)) (map snd m)
  && existsb (fun hp => (fst hp =? a) && (snd hp =? pa)) m
  && forallb (fun hp => sym_okb w ic G P (fst hp) (snd hp)) m
  && forallb (fun hp =>
                forallb (fun ql =>
                           match pair_fun m (fst ql) with
                           | Some h' => option_eqb label_eqb (edge_label G (fst hp) h') (Some (snd ql))
                           | None => true
                           end) (adj P (snd hp))) m.

(* decidable form of PartialEmbedding together with the closure facts of C04_gen: [vp] is the
   set of visited pattern nodes (covered nodes and nodes mapped to nothing) *)
Definition is_partial_embedding (w : option string) (ic : bool) (G : graph) (a : Z) (P : graph) (pa : Z)
                                (m : list (Z * Z)) (vp : list Z) : bool :=
  nodupb (map snd m) && nodupb (map fst m)
  && existsb (fun hp => (fst hp =? a) && (snd hp =? pa)) m
  && forallb (fun hp => zmem (snd hp) (nodes P) && sym_okb w ic G P (fst hp) (snd hp)) m
  && forallb (fun hp =>
                forallb (fun ql =>
                           match pair_fun m (fst ql) with
                           | Some h' => option_eqb label_eqb (edge_label G (fst hp) h') (Some (snd ql))
                           | None => true
                           end) (adj P (snd hp))) m
  && forallb (fun hp => forallb (fun q => zmem q vp) (neighbors P (snd hp))) m
  && forallb (fun p => zmem p vp) (map snd m).

(** * Reference decision: enumerate every injective assignment of host nodes to the
      pattern's nodes (candidates are pre-filtered by the anchor and the symbols) and
      test each with [is_embedding]. *)
Fixpoint inj_maps (cand : Z -> list Z) (ps : list Z) : list (list (Z * Z)) :=
  match ps with
  | [] => [[]]
  | p :: t =>
      flat_map (fun m =>
                  flat_map (fun h => if zmem h (map fst m) then [] else [(h, p) :: m]) (cand p))
               (inj_maps cand t)
  end.

Definition candidates (w : option string) (ic : bool) (G : graph) (a : Z) (P : graph) (pa : Z)
                      (p : Z) : list Z :=
  filter (fun h => (if p =? pa then h =? a else true) && sym_okb w ic G P h p) (nodes G).

Definition exists_embedding (w : option string) (ic : bool) (G : graph) (a : Z) (P : graph) (pa : Z)
  : bool :=
  existsb (is_embedding w ic G a P pa) (inj_maps (candidates w ic G a P pa) (nodes P)).
