(** Hand-written REFERENCE constants of the specifications. These are NOT generated: the
    tables regenerated from the Python source (Gen/Tables.v) are proved equal to them, so a
    change of a table in the source breaks a [..._table_ok] lemma instead of moving the
    specification along with the code. Definitions only. *)
From Coq Require Import ZArith List String.
Import ListNotations.
Open Scope string_scope.
Open Scope Z_scope.

(** * C12: number of valence electrons of the main-group elements that receive hydrogens *)
Definition ref_valence_table : list (string * Z) :=
  [ ("Be", 2); ("Mg", 2); ("Ca", 2); ("Sr", 2); ("Ba", 2);
    ("B", 3);  ("Al", 3); ("Ga", 3); ("In", 3); ("Tl", 3);
    ("C", 4);  ("Si", 4); ("Sn", 4); ("Pb", 4);
    ("N", 5);  ("P", 5);  ("As", 5); ("Sb", 5); ("Bi", 5);
    ("O", 6);  ("S", 6);  ("Se", 6); ("Te", 6); ("Po", 6);
    ("F", 7);  ("Cl", 7); ("Br", 7); ("I", 7);  ("At", 7) ].

(* symbols that never receive hydrogens: the wildcard and hydrogen itself *)
Definition ref_h_excluded : list string := ["R"; "H"].
